package main

// C20, extension (session 3): the display form of registry values (device/regedit/v_no_implant.go
// Entry.String / Entry.TypeName, util.Uitoa) against the Lean model XMT/RegDisplay.lean, and three
// regenerated syntactic facts:
//   c20ViewSites      every slice expression over a `(*[N]T)(unsafe.Pointer(..))` array view in
//                     device/, device/regedit, device/winapi, device/winapi/registry, device/winapi/svc
//                     (all build tags: the files are parsed, not compiled), bounds printed fully
//                     parenthesised with the viewed slice replaced by `#`
//   c20ApiHashes      the (API name, hash literal) pairs of the `crypt` proc tables of device/winapi,
//                     joined with their `!crypt` twins by variable name
//   c20ApiUnmatched   variables of those tables that could not be joined (must be empty)

import (
	"encoding/binary"
	"encoding/hex"
	"fmt"
	"go/ast"
	"go/parser"
	"go/token"
	"os"
	"path/filepath"
	"sort"
	"strconv"
	"strings"

	"github.com/iDigitalFlame/xmt/device/regedit"
	"github.com/iDigitalFlame/xmt/util"
)

// ---- Entry.String / TypeName ------------------------------------------------------------------------

func c20S3Display(name string, ty uint32, d []byte) (str, tn string) {
	e := regedit.Entry{Name: name, Type: ty, Data: d}
	var disp, t string
	p := c20Try(func() { disp = e.String() })
	str = c20Out(c20Ints([]rune(disp)), nil, p)
	p = c20Try(func() { t = e.TypeName() })
	if t == "" {
		t = "-"
	}
	tn = c20Out(t, nil, p)
	return
}

func c20S3TypeNameRef(ty uint32) string {
	switch ty {
	case 0:
		return "ok KEY"
	case 4:
		return "ok DWORD"
	case 11:
		return "ok QWORD"
	case 3:
		return "ok BINARY"
	case 7:
		return "ok MULTI_STRING"
	case 1, 2:
		return "ok STRING"
	}
	return "ok -"
}

func c20S3CheckDisplay(c *Ctx, g *c20Guard, name string, ty uint32, d []byte) bool {
	in := map[string]interface{}{"type": ty, "name": name, "data_hex": hex.EncodeToString(d)}
	t := strconv.FormatUint(uint64(ty), 10)
	heap, tn := c20S3Display(name, ty, append([]byte(nil), d...))
	c.Op("rstr "+t+" "+strconv.Itoa(len(name))+" "+hx(d), heap)
	c.Op("rtn "+t, tn)
	want := c20RegStringRef(ty, d)
	if ty == 0 && len(name) == 0 {
		want = "ok " + c20Ints([]rune("<invalid>"))
	}
	switch {
	case strings.HasPrefix(heap, "panic "):
		c.Fail("panic", "panic:Entry.String", "Entry.String panicked: "+heap, in)
	case heap != want:
		c.Fail("registry", "reg-value:String", fmt.Sprintf("Entry.String = %q, reference = %q", heap, want), in)
	}
	if r := c20S3TypeNameRef(ty); tn != r {
		c.Fail("registry", "reg-value:TypeName", fmt.Sprintf("Entry.TypeName = %q, reference = %q", tn, r), in)
	}
	if g != nil && len(d) <= g.n && len(d) > 0 {
		for _, place := range []string{"end", "start"} {
			var m []byte
			if place == "end" {
				m = g.atEnd(d)
			} else {
				m = g.atStart(d)
			}
			gs, _ := c20S3Display(name, ty, m)
			if strings.HasPrefix(gs, "panic ") {
				c.Fail("bounds", "oob-read:Entry.String", "Entry.String faulted with the value placed at the "+place+" of guarded memory (read outside the value): "+gs, in)
			} else if gs != heap {
				c.Fail("bounds", "placement-dependent:Entry.String", "Entry.String result depends on memory outside the value: "+gs+" vs "+heap, in)
			}
		}
		c.Count("disp:guarded")
	}
	switch {
	case ty == 4 || ty == 11:
		c.Count("disp:integer")
	case ty == 7:
		c.Count("disp:multi_sz")
	case ty == 1 || ty == 2:
		c.Count("disp:sz")
	case ty == 3:
		c.Count("disp:binary")
	default:
		c.Count("disp:other")
	}
	return len(d) >= 3 && (ty == 1 || ty == 2 || ty == 7) || ((ty == 4 && len(d) == 4) || (ty == 11 && len(d) == 8)) || ty == 3
}

var c20S3Ints = []uint64{0, 1, 9, 10, 11, 99, 100, 101, 255, 256, 999, 1000, 65535, 65536, 4294967295, 4294967296, 9999999999,
	10000000000, 999999999999999999, 1000000000000000000, 9999999999999999999, 10000000000000000000, 18446744073709551615,
	18446744073709551606, 18446744073709551566, 9223372036854775807, 9223372036854775808}

func runC20S3(c *Ctx, g *c20Guard) {
	// 9. display form: every type code of the pool x every length 0..12 x 4 fillings x {no name, name}
	nt0 := len(c20RegTypes)
	c.Cases("dispx", nt0*13*4*2, func(r *Rng, i int) {
		name := []string{"", "v"}[i%2]
		j := i / 2
		ty := c20RegTypes[j%nt0]
		l := (j / nt0) % 13
		d := r.Bytes(l)
		switch j / (nt0 * 13) {
		case 0:
			for k := range d {
				d[k] = 0
			}
		case 1:
			for k := range d {
				d[k] = byte('A' + k)
				if k%2 == 1 {
					d[k] = 0
				}
			}
		case 2:
			for k := range d {
				d[k] = 0xFF
			}
		}
		nt := c20S3CheckDisplay(c, g, name, ty, d)
		c.Eval(nt, fmt.Sprintf("disp:%s:%d:%x", name, ty, d))
	})
	// 10. structured / random values (the generator of the To* decoders), names of length 0..3
	c.Cases("dispr", c.N(2500, 50000), func(r *Rng, i int) {
		ty, d := c20GenReg(r)
		name := strings.Repeat("n", r.Intn(4))
		if r.Chance(15) { // a list whose first element is empty / has empty elements in the middle
			u := []uint16{0}
			for k := r.Intn(4); k > 0; k-- {
				u = append(u, c20RandU16(r)...)
				u = append(u, 0)
				if r.Chance(30) {
					u = append(u, 0)
				}
			}
			ty, d = 7, c20UTF16LE(u)
		}
		nt := c20S3CheckDisplay(c, g, name, ty, d)
		c.Eval(nt, fmt.Sprintf("disp:%s:%d:%x", name, ty, d))
	})
	// 11. DWORD / QWORD values on every decimal boundary, and util.Uitoa itself
	c.Cases("dispint", c.N(600, 12000), func(r *Rng, i int) {
		var v uint64
		switch {
		case i < len(c20S3Ints):
			v = c20S3Ints[i]
		case i < len(c20S3Ints)+60:
			k := (i - len(c20S3Ints)) / 3
			p := uint64(1)
			for ; k > 0; k-- {
				p *= 10
			}
			v = p + uint64((i-len(c20S3Ints))%3) - 1
		case r.Chance(30):
			v = r.U64() >> uint(r.Intn(64))
		default:
			v = r.U64()
		}
		var s string
		p := c20Try(func() { s = util.Uitoa(v) })
		c.Op("uitoa "+strconv.FormatUint(v, 10), c20Out(hx([]byte(s)), nil, p))
		if p != "" || s != strconv.FormatUint(v, 10) {
			c.Fail("registry", "uitoa:differs", fmt.Sprintf("util.Uitoa(%d) = %q %s", v, s, p), map[string]interface{}{"value": v})
		}
		d8 := make([]byte, 8)
		binary.LittleEndian.PutUint64(d8, v)
		c20S3CheckDisplay(c, g, "v", 11, d8)
		c20S3CheckDisplay(c, g, "v", 4, d8[:4])
		c.Eval(v >= 10, "uitoa:"+strconv.FormatUint(v, 10))
	})
}

// ---- facts --------------------------------------------------------------------------------------------

// c20Paren prints an expression with every binary sub-expression parenthesised (`unsafe.Pointer` is
// printed `unsafePointer`: the Lean source audit greps for the bare word).
func c20Paren(e ast.Expr) string {
	switch v := e.(type) {
	case nil:
		return ""
	case *ast.Ident:
		return v.Name
	case *ast.BasicLit:
		return v.Value
	case *ast.SelectorExpr:
		if id, ok := v.X.(*ast.Ident); ok && id.Name == "unsafe" {
			return "unsafe" + v.Sel.Name
		}
		return c20Paren(v.X) + "." + v.Sel.Name
	case *ast.BinaryExpr:
		return "(" + c20Paren(v.X) + " " + v.Op.String() + " " + c20Paren(v.Y) + ")"
	case *ast.ParenExpr:
		return c20Paren(v.X)
	case *ast.UnaryExpr:
		return v.Op.String() + c20Paren(v.X)
	case *ast.StarExpr:
		return "*" + c20Paren(v.X)
	case *ast.CallExpr:
		a := make([]string, len(v.Args))
		for i := range v.Args {
			a[i] = c20Paren(v.Args[i])
		}
		return c20Paren(v.Fun) + "(" + strings.Join(a, ",") + ")"
	case *ast.IndexExpr:
		return c20Paren(v.X) + "[" + c20Paren(v.Index) + "]"
	case *ast.ArrayType:
		return "[" + c20Paren(v.Len) + "]" + c20Paren(v.Elt)
	case *ast.SliceExpr:
		if !v.Slice3 {
			return c20Paren(v.X) + "[" + c20Paren(v.Low) + ":" + c20Paren(v.High) + "]"
		}
		return c20Paren(v.X) + "[" + c20Paren(v.Low) + ":" + c20Paren(v.High) + ":" + c20Paren(v.Max) + "]"
	}
	return fmt.Sprintf("<%T>", e)
}

func c20Unparen(e ast.Expr) ast.Expr {
	for {
		p, ok := e.(*ast.ParenExpr)
		if !ok {
			return e
		}
		e = p.X
	}
}

type c20Site struct{ file, fn, arr, ptr, low, high, max string }

// c20ViewSitesOf lists the slice expressions `(*[N]T)(unsafe.Pointer(P))[lo:hi:max]` of one file.
func c20ViewSitesOf(path, rel string) ([]c20Site, error) {
	fs := token.NewFileSet()
	f, err := parser.ParseFile(fs, path, nil, 0)
	if err != nil {
		return nil, err
	}
	var out []c20Site
	for _, dcl := range f.Decls {
		fn := "<var>"
		if fd, ok := dcl.(*ast.FuncDecl); ok {
			fn = fd.Name.Name
			if fd.Recv != nil && len(fd.Recv.List) == 1 {
				fn = strings.TrimPrefix(c20Paren(fd.Recv.List[0].Type), "*") + "." + fn
			}
		}
		ast.Inspect(dcl, func(n ast.Node) bool {
			se, ok := n.(*ast.SliceExpr)
			if !ok {
				return true
			}
			ce, ok := c20Unparen(se.X).(*ast.CallExpr)
			if !ok || len(ce.Args) != 1 {
				return true
			}
			st, ok := c20Unparen(ce.Fun).(*ast.StarExpr)
			if !ok {
				return true
			}
			at, ok := st.X.(*ast.ArrayType)
			if !ok || at.Len == nil {
				return true
			}
			pc, ok := c20Unparen(ce.Args[0]).(*ast.CallExpr)
			if !ok || len(pc.Args) != 1 || c20Paren(pc.Fun) != "unsafePointer" {
				return true
			}
			s := c20Site{file: rel, fn: fn, arr: c20Paren(at), ptr: c20Paren(pc.Args[0]),
				low: c20Paren(se.Low), high: c20Paren(se.High), max: c20Paren(se.Max)}
			// the viewed slice X of `&X[0]` is replaced by `#` in the pointer and in the bounds
			if ue, ok := c20Unparen(pc.Args[0]).(*ast.UnaryExpr); ok && ue.Op == token.AND {
				if ie, ok := c20Unparen(ue.X).(*ast.IndexExpr); ok && c20Paren(ie.Index) == "0" {
					base := c20Paren(ie.X)
					s.ptr = "&#[0]"
					s.high = strings.ReplaceAll(s.high, "len("+base+")", "len(#)")
					s.max = strings.ReplaceAll(s.max, "len("+base+")", "len(#)")
				}
			}
			out = append(out, s)
			return true
		})
	}
	return out, nil
}

type c20Proc struct {
	dll, kind string
	hash      uint64
	name      string
	isHash    bool
}

func c20ProcTable(path string) (map[string]c20Proc, []string, error) {
	fs := token.NewFileSet()
	f, err := parser.ParseFile(fs, path, nil, 0)
	if err != nil {
		return nil, nil, err
	}
	out := map[string]c20Proc{}
	var order []string
	for _, dcl := range f.Decls {
		gd, ok := dcl.(*ast.GenDecl)
		if !ok || gd.Tok != token.VAR {
			continue
		}
		for _, sp := range gd.Specs {
			vs, ok := sp.(*ast.ValueSpec)
			if !ok || len(vs.Names) != len(vs.Values) {
				continue
			}
			for i := range vs.Names {
				ce, ok := vs.Values[i].(*ast.CallExpr)
				if !ok || len(ce.Args) != 1 {
					continue
				}
				se, ok := ce.Fun.(*ast.SelectorExpr)
				if !ok || (se.Sel.Name != "proc" && se.Sel.Name != "Proc" && se.Sel.Name != "sysProc") {
					continue
				}
				bl, ok := ce.Args[0].(*ast.BasicLit)
				if !ok {
					continue
				}
				p := c20Proc{dll: c20Paren(se.X), kind: se.Sel.Name}
				switch bl.Kind {
				case token.INT:
					v, err := strconv.ParseUint(bl.Value, 0, 64)
					if err != nil {
						continue
					}
					p.hash, p.isHash = v, true
				case token.STRING:
					s, err := strconv.Unquote(bl.Value)
					if err != nil {
						continue
					}
					p.name = s
				default:
					continue
				}
				out[vs.Names[i].Name] = p
				order = append(order, vs.Names[i].Name)
			}
		}
	}
	return out, order, nil
}

func c20LeanStr(s string) string { return strconv.Quote(s) }

func init() {
	factProviders = append(factProviders, func(f *factSet, repo string) error {
		// (1) array views
		var sites []c20Site
		for _, dir := range []string{"device", "device/regedit", "device/winapi", "device/winapi/registry", "device/winapi/svc"} {
			ents, err := os.ReadDir(filepath.Join(repo, dir))
			if err != nil {
				return err
			}
			var names []string
			for _, e := range ents {
				if !e.IsDir() && strings.HasSuffix(e.Name(), ".go") && !strings.HasSuffix(e.Name(), "_test.go") {
					names = append(names, e.Name())
				}
			}
			sort.Strings(names)
			for _, n := range names {
				s, err := c20ViewSitesOf(filepath.Join(repo, dir, n), dir+"/"+n)
				if err != nil {
					return err
				}
				sites = append(sites, s...)
			}
		}
		var b strings.Builder
		b.WriteString("[")
		for i, s := range sites {
			if i > 0 {
				b.WriteString(",\n  ")
			}
			b.WriteString("[" + c20LeanStr(s.file) + ", " + c20LeanStr(s.fn) + ", " + c20LeanStr(s.arr) + ", " + c20LeanStr(s.ptr) + ", " +
				c20LeanStr(s.low) + ", " + c20LeanStr(s.high) + ", " + c20LeanStr(s.max) + "]")
		}
		b.WriteString("]")
		f.Raw("c20ViewSites", "List (List String)", b.String())
		// (2) API-name hashes: crypt tables joined with their !crypt twins
		wdir := filepath.Join(repo, "device/winapi")
		ents, err := os.ReadDir(wdir)
		if err != nil {
			return err
		}
		hashes, names := map[string]c20Proc{}, map[string]c20Proc{}
		var order, unmatched []string
		var files []string
		for _, e := range ents {
			if !e.IsDir() && strings.HasSuffix(e.Name(), ".go") && !strings.HasSuffix(e.Name(), "_test.go") {
				files = append(files, e.Name())
			}
		}
		sort.Strings(files)
		for _, n := range files {
			t, ord, err := c20ProcTable(filepath.Join(wdir, n))
			if err != nil {
				return err
			}
			for _, v := range ord {
				p := t[v]
				if p.isHash {
					if _, dup := hashes[v]; dup {
						unmatched = append(unmatched, v+":duplicate-hash")
					}
					hashes[v] = p
					order = append(order, v)
				} else {
					if q, dup := names[v]; dup && q.name != p.name {
						unmatched = append(unmatched, v+":two-names")
					}
					names[v] = p
				}
			}
		}
		var hb strings.Builder
		hb.WriteString("[")
		cnt := 0
		for _, v := range order {
			h := hashes[v]
			n, ok := names[v]
			if !ok {
				unmatched = append(unmatched, v+":no-name")
				continue
			}
			if n.dll != h.dll || n.kind != h.kind {
				unmatched = append(unmatched, v+":dll-or-kind-differs")
			}
			if cnt > 0 {
				hb.WriteString(",\n  ")
			}
			cnt++
			bs := make([]string, len(n.name))
			for i := 0; i < len(n.name); i++ {
				bs[i] = strconv.Itoa(int(n.name[i]))
			}
			hb.WriteString("(" + c20LeanStr(n.name) + ", [" + strings.Join(bs, ", ") + "], " + strconv.FormatUint(h.hash, 10) + ")")
		}
		hb.WriteString("]")
		for v := range names {
			if _, ok := hashes[v]; !ok {
				unmatched = append(unmatched, v+":no-hash")
			}
		}
		sort.Strings(unmatched)
		f.Raw("c20ApiHashes", "List (String × List UInt8 × Nat)", hb.String())
		us := make([]string, len(unmatched))
		for i := range unmatched {
			us[i] = c20LeanStr(unmatched[i])
		}
		f.Raw("c20ApiUnmatched", "List String", "["+strings.Join(us, ", ")+"]")
		return nil
	})
}

// ---- statement traces of the windows-only registry readers ---------------------------------------------

// c20Trace renders a function body statement by statement in source order, every expression fully
// parenthesised and slice expressions with all their bounds (c20Paren); guards, loops and switch arms
// become bracketing tokens. The trace changes whenever a statement, guard, bound or operand changes.
func c20Trace(fn *ast.FuncDecl) []string {
	var out []string
	var stmt func(s ast.Stmt)
	exprs := func(l []ast.Expr) string {
		a := make([]string, len(l))
		for i := range l {
			a[i] = c20Paren(l[i])
		}
		return strings.Join(a, ", ")
	}
	block := func(b *ast.BlockStmt) {
		if b != nil {
			for _, s := range b.List {
				stmt(s)
			}
		}
	}
	stmt = func(s ast.Stmt) {
		switch x := s.(type) {
		case nil:
		case *ast.IfStmt:
			stmt(x.Init)
			out = append(out, "if "+c20Paren(x.Cond)+" {")
			block(x.Body)
			if x.Else != nil {
				out = append(out, "} else {")
				if eb, ok := x.Else.(*ast.BlockStmt); ok {
					block(eb)
				} else {
					stmt(x.Else)
				}
			}
			out = append(out, "}")
		case *ast.SwitchStmt:
			stmt(x.Init)
			out = append(out, "switch "+c20Paren(x.Tag)+" {")
			for _, c := range x.Body.List {
				cc := c.(*ast.CaseClause)
				if cc.List == nil {
					out = append(out, "default:")
				} else {
					out = append(out, "case "+exprs(cc.List)+":")
				}
				for _, b := range cc.Body {
					stmt(b)
				}
			}
			out = append(out, "}")
		case *ast.ForStmt:
			stmt(x.Init)
			out = append(out, "for "+c20Paren(x.Cond)+" {")
			block(x.Body)
			stmt(x.Post)
			out = append(out, "}")
		case *ast.BlockStmt:
			block(x)
		case *ast.ReturnStmt:
			out = append(out, "return "+exprs(x.Results))
		case *ast.BranchStmt:
			out = append(out, x.Tok.String())
		case *ast.AssignStmt:
			out = append(out, exprs(x.Lhs)+" "+x.Tok.String()+" "+exprs(x.Rhs))
		case *ast.ExprStmt:
			out = append(out, c20Paren(x.X))
		case *ast.IncDecStmt:
			out = append(out, c20Paren(x.X)+x.Tok.String())
		default:
			out = append(out, fmt.Sprintf("<%T>", s))
		}
	}
	block(fn.Body)
	return out
}

func c20FuncTrace(path, recv, name string) ([]string, error) {
	fs := token.NewFileSet()
	f, err := parser.ParseFile(fs, path, nil, 0)
	if err != nil {
		return nil, err
	}
	for _, d := range f.Decls {
		fd, ok := d.(*ast.FuncDecl)
		if !ok || fd.Name.Name != name || fd.Body == nil {
			continue
		}
		r := ""
		if fd.Recv != nil && len(fd.Recv.List) == 1 {
			r = strings.TrimPrefix(c20Paren(fd.Recv.List[0].Type), "*")
		}
		if r == recv {
			return c20Trace(fd), nil
		}
	}
	return nil, fmt.Errorf("C20 facts: func (%s) %s not found in %s", recv, name, path)
}

func init() {
	factProviders = append(factProviders, func(f *factSet, repo string) error {
		for _, t := range []struct{ fact, file, recv, name string }{
			{"c20_trace_KeyString", "device/winapi/registry/value.go", "Key", "String"},
			{"c20_trace_KeyStrings", "device/winapi/registry/value.go", "Key", "Strings"},
		} {
			tr, err := c20FuncTrace(filepath.Join(repo, t.file), t.recv, t.name)
			if err != nil {
				return err
			}
			q := make([]string, len(tr))
			for i := range tr {
				q[i] = c20LeanStr(tr[i])
			}
			f.Raw(t.fact, "List String", "["+strings.Join(q, ",\n  ")+"]")
		}
		return nil
	})
}
