// xmth — verification harness: drives the real XMT code in-process, emits one op per line
// (ops.txt), the implementation's canonicalised result per op (impl.out) and the verdicts of the
// direct property oracles (oracle.jsonl).  Every random choice derives from one splitmix64 state.
package main

import (
	"bufio"
	"crypto/sha256"
	"encoding/hex"
	"encoding/json"
	"flag"
	"fmt"
	"os"
	"path/filepath"
	"runtime/debug"
	"sort"
	"strings"
	"time"
)

// ---- PRNG -------------------------------------------------------------------------------------

type Rng struct{ s uint64 }

func NewRng(seed uint64, stream uint64) *Rng {
	r := &Rng{s: seed*0x9E3779B97F4A7C15 ^ (stream+1)*0xD1B54A32D192ED03}
	r.U64()
	r.U64()
	return r
}
func (r *Rng) U64() uint64 {
	r.s += 0x9E3779B97F4A7C15
	z := r.s
	z = (z ^ (z >> 30)) * 0xBF58476D1CE4E5B9
	z = (z ^ (z >> 27)) * 0x94D049BB133111EB
	return z ^ (z >> 31)
}
func (r *Rng) Intn(n int) int {
	if n <= 0 {
		return 0
	}
	return int(r.U64() % uint64(n))
}
func (r *Rng) Bool() bool         { return r.U64()&1 == 1 }
func (r *Rng) Chance(p int) bool  { return r.Intn(100) < p }
func (r *Rng) Pick(v []int) int   { return v[r.Intn(len(v))] }
func (r *Rng) Bytes(n int) []byte {
	b := make([]byte, n)
	for i := 0; i < n; i += 8 {
		v := r.U64()
		for j := 0; j < 8 && i+j < n; j++ {
			b[i+j] = byte(v >> (8 * j))
		}
	}
	return b
}

// Split cuts b into random non-empty pieces (a scripted io.Reader delivers one piece per Read).
func (r *Rng) Split(b []byte) [][]byte {
	var out [][]byte
	mode := r.Intn(4)
	for len(b) > 0 {
		var n int
		switch mode {
		case 0:
			n = len(b)
		case 1:
			n = 1
		case 2:
			n = 1 + r.Intn(3)
		default:
			n = 1 + r.Intn(len(b))
		}
		if n > len(b) {
			n = len(b)
		}
		out = append(out, b[:n])
		b = b[n:]
	}
	return out
}

// ---- scripted reader --------------------------------------------------------------------------

// PieceReader hands out one piece (or the part that fits) per Read; io.EOF at the end.
type PieceReader struct {
	P     [][]byte
	Reads int
	// EOFMode: 0 = decide from the content (about a third of the readers hand out their final bytes
	// together with io.EOF, as the io.Reader contract allows and flate / cipher / HTTP body readers
	// do), 1 = never, 2 = always.
	EOFMode int
	decided bool
	withEOF bool
}

func (p *PieceReader) decide() {
	if p.decided {
		return
	}
	p.decided = true
	switch p.EOFMode {
	case 1:
	case 2:
		p.withEOF = true
	default:
		h := uint32(len(p.P))*7 + 3
		for _, x := range p.P {
			h = h*31 + uint32(len(x))
			if len(x) > 0 {
				h = h*31 + uint32(x[len(x)-1])
			}
		}
		p.withEOF = h%3 == 0
	}
}

func (p *PieceReader) Read(b []byte) (int, error) {
	p.decide()
	p.Reads++
	for len(p.P) > 0 && len(p.P[0]) == 0 {
		p.P = p.P[1:]
	}
	if len(p.P) == 0 {
		return 0, errEOF
	}
	if len(b) == 0 {
		return 0, nil
	}
	n := copy(b, p.P[0])
	if n == len(p.P[0]) {
		p.P = p.P[1:]
	} else {
		p.P[0] = p.P[0][n:]
	}
	if p.withEOF && p.Remaining() == 0 {
		return n, errEOF
	}
	return n, nil
}
func (p *PieceReader) Remaining() int {
	n := 0
	for _, x := range p.P {
		n += len(x)
	}
	return n
}

// ---- run context ------------------------------------------------------------------------------

type Failure struct {
	Property string      `json:"property"`
	Case     int         `json:"case"`
	Kind     string      `json:"kind"`   // what part of the property failed
	Key      string      `json:"key"`    // canonical signature for the known-findings matcher
	Detail   string      `json:"detail"` // human readable
	Input    interface{} `json:"input"`  // the concrete failing input / op sequence
}

type Ctx struct {
	Prop     string
	Seed     uint64
	Tier     string
	Only     int
	OutDir   string
	ops      *bufio.Writer
	impl     *bufio.Writer
	orc      *bufio.Writer
	fo, fi   *os.File
	fr       *os.File
	Evals    int
	Lines    int
	Fails    int
	distinct map[[8]byte]struct{}
	Stats    map[string]int
	Samples  []string
	curCase  int
	Extra    map[string]interface{}
}

func (c *Ctx) Thorough() bool { return c.Tier == "thorough" }

// N picks a case count by tier.
func (c *Ctx) N(quick, thorough int) int {
	if c.Thorough() {
		return thorough
	}
	return quick
}

// Op records one model-comparable operation: the op line and the implementation's answer.
func (c *Ctx) Op(op, impl string) {
	if strings.ContainsAny(op, "\n\r") || strings.ContainsAny(impl, "\n\r") {
		panic("newline in op")
	}
	fmt.Fprintf(c.ops, "%s %s\n", c.Prop, op)
	fmt.Fprintf(c.impl, "%s\n", impl)
	c.Lines++
	if len(c.Samples) < 6 && (c.Lines%97 == 1 || c.Lines < 3) {
		s := op + " => " + impl
		if len(s) > 300 {
			s = s[:300] + "..."
		}
		c.Samples = append(c.Samples, s)
	}
}

// Eval counts one generated case; nontrivial cases are de-duplicated by sig.
func (c *Ctx) Eval(nontrivial bool, sig string) {
	c.Evals++
	if nontrivial {
		h := sha256.Sum256([]byte(sig))
		var k [8]byte
		copy(k[:], h[:8])
		c.distinct[k] = struct{}{}
	}
}
func (c *Ctx) Count(k string) { c.Stats[k]++ }

func (c *Ctx) Fail(kind, key, detail string, input interface{}) {
	c.Fails++
	f := Failure{Property: c.Prop, Case: c.curCase, Kind: kind, Key: key, Detail: detail, Input: input}
	b, _ := json.Marshal(f)
	c.orc.Write(b)
	c.orc.WriteByte('\n')
	c.orc.Flush()
}

// Cases runs fn for i in [0,n) each with its own PRNG stream (so `--only i` replays one case).
func (c *Ctx) Cases(group string, n int, fn func(r *Rng, i int)) {
	base := uint64(0)
	for _, ch := range group {
		base = base*131 + uint64(ch)
	}
	for i := 0; i < n; i++ {
		id := int(base%1000)*1000000 + i
		if c.Only >= 0 && c.Only != id {
			continue
		}
		c.curCase = id
		c.runOne(group, func() { fn(NewRng(c.Seed, base<<20+uint64(i)), i) })
	}
}

func (c *Ctx) runOne(group string, fn func()) {
	defer func() {
		if e := recover(); e != nil {
			st := string(debug.Stack())
			c.Fail("panic", "panic:"+group, fmt.Sprintf("panic in harness case: %v", e), st)
		}
	}()
	fn()
}

func (c *Ctx) finish(wall float64) {
	c.ops.Flush()
	c.impl.Flush()
	c.orc.Flush()
	c.fo.Close()
	c.fi.Close()
	c.fr.Close()
	keys := make([]string, 0, len(c.Stats))
	for k := range c.Stats {
		keys = append(keys, k)
	}
	sort.Strings(keys)
	st := map[string]interface{}{
		"property": c.Prop, "seed": c.Seed, "tier": c.Tier, "evaluations": c.Evals, "op_lines": c.Lines,
		"distinct_nontrivial": len(c.distinct), "failures": c.Fails, "distribution": c.Stats,
		"samples": c.Samples, "wall_s": wall, "extra": c.Extra,
	}
	b, _ := json.MarshalIndent(st, "", " ")
	os.WriteFile(filepath.Join(c.OutDir, "stats.json"), b, 0o644)
}

type propFn func(c *Ctx)

var props = map[string]propFn{}

func register(id string, f propFn) { props[id] = f }

func hx(b []byte) string {
	if len(b) == 0 {
		return "-"
	}
	return hex.EncodeToString(b)
}
func hxChunks(p [][]byte) string {
	if len(p) == 0 {
		return "."
	}
	s := make([]string, len(p))
	for i := range p {
		s[i] = hx(p[i])
	}
	return strings.Join(s, "|")
}

func main() {
	if len(os.Args) < 2 {
		fmt.Fprintln(os.Stderr, "usage: xmth <facts|Cxx> [flags]")
		os.Exit(2)
	}
	cmd := os.Args[1]
	fs := flag.NewFlagSet(cmd, flag.ExitOnError)
	seed := fs.Uint64("seed", 1, "seed")
	tier := fs.String("tier", "quick", "quick|thorough")
	out := fs.String("out", "", "output directory")
	only := fs.Int("only", -1, "run only this case id")
	repo := fs.String("repo", "/repo", "repository root (for source facts)")
	fs.Parse(os.Args[2:])
	if cmd == "facts" {
		if err := writeFacts(*repo, os.Stdout); err != nil {
			fmt.Fprintln(os.Stderr, "facts:", err)
			os.Exit(1)
		}
		return
	}
	f, ok := props[cmd]
	if !ok {
		fmt.Fprintln(os.Stderr, "unknown property", cmd)
		os.Exit(2)
	}
	if *out == "" {
		fmt.Fprintln(os.Stderr, "--out required")
		os.Exit(2)
	}
	os.MkdirAll(*out, 0o755)
	c := &Ctx{Prop: cmd, Seed: *seed, Tier: *tier, Only: *only, OutDir: *out,
		distinct: map[[8]byte]struct{}{}, Stats: map[string]int{}, Extra: map[string]interface{}{}}
	var err error
	if c.fo, err = os.Create(filepath.Join(*out, "ops.txt")); err != nil {
		panic(err)
	}
	c.fi, _ = os.Create(filepath.Join(*out, "impl.out"))
	c.fr, _ = os.Create(filepath.Join(*out, "oracle.jsonl"))
	c.ops, c.impl, c.orc = bufio.NewWriterSize(c.fo, 1<<20), bufio.NewWriterSize(c.fi, 1<<20), bufio.NewWriter(c.fr)
	t0 := time.Now()
	f(c)
	c.finish(time.Since(t0).Seconds())
}
