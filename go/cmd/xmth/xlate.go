package main

// xlate: a small Go -> Lean translator for the straight-line integer functions of the repository.
//
// On every run (`xmth facts`) the listed functions are read from the CURRENT source with go/parser,
// type-checked with go/types (single package directory file list, fake importer, errors ignored: only
// the builtin integer types matter) and each body is translated, naively and uniformly, into a Lean
// term over Nat that follows Go's semantics for UNSIGNED integers of the static type's width w:
//
//	T(x)            (x) % 2^w
//	a << k          ((a) <<< (k)) % 2^w
//	a >> k          (a) >>> (k)
//	a | b, &, ^     ||| &&& ^^^
//	a &^ b          (a) &&& ((2^w - 1) ^^^ (b))
//	^a              (2^w - 1) ^^^ (a)
//	a + b, a * b    ((a) + (b)) % 2^w,  ((a) * (b)) % 2^w
//	a - b           ((a) + 2^w - (b)) % 2^w
//	-a              (2^w - (a)) % 2^w
//	a / c, a % c    (a) / c, (a) % c          only for a constant c != 0
//	== != < <= > >= decide (..)               (Bool)
//	&& || !         && || !
//	constants       their value (go/constant), typed or untyped
//	f.M(args)       the translation of the listed method M, applied (inlined as a beta-redex, so that
//	                the order of the definitions in Facts.lean does not matter)
//	*f, f           the receiver parameter
//	x := e / x = e / x op= e   (locals)  let x := ..;   (straight-line rebinding)
//	if c { ..return a } [else ..] / return b          if c then a else b
//
// No range analysis, no simplification: the translator stays trivially auditable. Anything outside
// this fragment is NOT guessed: the function gets no definition, only `x_.._unsupported : String`
// naming the construct, so the equivalence theorem that ties the hand-written model to this function
// (lean/XMT/TieXlate*.lean) no longer elaborates and the checks that build it report a broken tie.
// (A provider error would stop `xmth facts` and with it the checks of ALL properties; dropping the one
// definition confines the break to the properties whose theorems use it.)
//
// Facts emitted per function:  x_<pkg>_<Recv>_<Func> : Nat -> .. -> Nat|Bool,  x_<..>_src : String.

import (
	"bytes"
	"fmt"
	"go/ast"
	"go/constant"
	"go/parser"
	"go/printer"
	"go/token"
	"go/types"
	"math/big"
	"strings"
)

type xlSpec struct {
	pkg   string   // short name used in the fact name
	files []string // repo-relative files type-checked together; functions are looked up in all of them
	recv  string   // receiver type name ("" = plain functions)
	funcs []string
	// loaded: treat `atomic.LoadUint32(&<recv>.<field>)` as the receiver parameter (the loaded word)
	loaded string
}

var xlSpecs = []xlSpec{
	{pkg: "com", files: []string{"com/flag.go"}, recv: "Flag",
		funcs: []string{"Clear", "Set", "Unset", "Len", "Group", "Position", "SetLen", "SetGroup", "SetPosition"}},
	// c2/state.go (C13): the pure predicates on the loaded word. Every `atomic.LoadUint32((*uint32)(s))`
	// of one predicate is the SAME parameter (one snapshot of the word - as in the hand model XMT/State.lean;
	// interleavings between the loads of one predicate are the subject of the C13 schedule model).
	{pkg: "c2", files: []string{"c2/state.go"}, recv: "state", loaded: "atomic.LoadUint32",
		funcs: []string{"Seen", "Ready", "Last", "Moving", "Closed", "CanRecv", "Closing", "Channel", "Shutdown", "Replacing",
			"RecvClosed", "SendClosed", "WakeClosed", "ShutdownWait", "ChannelValue", "ChannelProxy", "ChannelUpdated", "ChannelCanStart"}},
}

func init() {
	factProviders = append(factProviders, func(f *factSet, repo string) error {
		for i := range xlSpecs {
			if err := xlateSpec(f, repo, &xlSpecs[i]); err != nil {
				return err
			}
		}
		return nil
	})
}

type xlFake struct{ m map[string]*types.Package }

func (x *xlFake) Import(path string) (*types.Package, error) {
	if p, ok := x.m[path]; ok {
		return p, nil
	}
	name := path
	if i := strings.LastIndex(path, "/"); i >= 0 {
		name = path[i+1:]
	}
	p := types.NewPackage(path, name)
	if path == "sync/atomic" { // the two loads whose result type the fragment needs: func(*uintN) uintN
		for n, t := range map[string]types.Type{"LoadUint32": types.Typ[types.Uint32], "LoadUint64": types.Typ[types.Uint64]} {
			sig := types.NewSignatureType(nil, nil, nil, types.NewTuple(types.NewVar(token.NoPos, p, "addr", types.NewPointer(t))),
				types.NewTuple(types.NewVar(token.NoPos, p, "", t)), false)
			p.Scope().Insert(types.NewFunc(token.NoPos, p, n, sig))
		}
	}
	p.MarkComplete()
	x.m[path] = p
	return p, nil
}

type xlCtx struct {
	fset   *token.FileSet
	info   *types.Info
	spec   *xlSpec
	decls  map[string]*ast.FuncDecl
	listed map[string]bool
	depth  int
}

// xlFn is the state of one function body being translated.
type xlFn struct {
	c       *xlCtx
	recv    types.Object
	recvPtr bool
	vars    map[types.Object]string
	ext     *xlExt // part 2 (xlate2_s3.go): field reads and listed call sites become parameters; nil = part-1 behaviour
}

type xlTerm struct {
	params []string
	ptypes []string // Lean type per parameter ("Nat", "Int", "Bool", or a function type for a call-site parameter)
	body   string
	ret    string // "Nat", "Int" or "Bool"
}

// leanSig renders the Lean type of the closed lambda.
func (t *xlTerm) leanSig() string {
	var b strings.Builder
	for i := range t.params {
		pt := "Nat"
		if i < len(t.ptypes) && t.ptypes[i] != "" {
			pt = t.ptypes[i]
		}
		if strings.Contains(pt, "→") {
			pt = "(" + pt + ")"
		}
		b.WriteString(pt + " → ")
	}
	return b.String() + t.ret
}

func xlateSpec(f *factSet, repo string, sp *xlSpec) error {
	fset := token.NewFileSet()
	var files []*ast.File
	for _, rel := range sp.files {
		af, err := parser.ParseFile(fset, repo+"/"+rel, nil, 0)
		if err != nil {
			return fmt.Errorf("xlate: %v", err)
		}
		files = append(files, af)
	}
	info := &types.Info{Types: map[ast.Expr]types.TypeAndValue{}, Defs: map[*ast.Ident]types.Object{}, Uses: map[*ast.Ident]types.Object{}}
	conf := types.Config{Importer: &xlFake{m: map[string]*types.Package{}}, Error: func(error) {}, FakeImportC: true}
	conf.Check(files[0].Name.Name, fset, files, info) // errors (unresolved imports ..) are ignored on purpose
	c := &xlCtx{fset: fset, info: info, spec: sp, decls: map[string]*ast.FuncDecl{}, listed: map[string]bool{}}
	for _, af := range files {
		for _, d := range af.Decls {
			fd, ok := d.(*ast.FuncDecl)
			if !ok || fd.Body == nil || xlRecvName(fd) != sp.recv {
				continue
			}
			c.decls[fd.Name.Name] = fd
		}
	}
	for _, n := range sp.funcs {
		c.listed[n] = true
	}
	for _, n := range sp.funcs {
		name := "x_" + sp.pkg + "_"
		if sp.recv != "" {
			name += sp.recv + "_"
		}
		name += n
		fd := c.decls[n]
		if fd == nil {
			f.Raw(name+"_unsupported", "String", xlLeanString("function not found in "+strings.Join(sp.files, ",")))
			continue
		}
		f.Raw(name+"_src", "String", xlLeanString(c.src(fd)))
		t, err := c.fn(fd)
		if err != nil {
			f.Raw(name+"_unsupported", "String", xlLeanString(err.Error()))
			continue
		}
		ty := t.leanSig()
		term := t.body
		if len(t.params) > 0 {
			term = "fun " + strings.Join(t.params, " ") + " => " + t.body
		}
		f.Raw(name, ty, term)
	}
	return nil
}

func xlRecvName(fd *ast.FuncDecl) string {
	if fd.Recv == nil || len(fd.Recv.List) != 1 {
		return ""
	}
	t := fd.Recv.List[0].Type
	if s, ok := t.(*ast.StarExpr); ok {
		t = s.X
	}
	if id, ok := t.(*ast.Ident); ok {
		return id.Name
	}
	return "?"
}

func xlLeanString(s string) string {
	var b strings.Builder
	b.WriteByte('"')
	for _, r := range s {
		switch r {
		case '"':
			b.WriteString("\\\"")
		case '\\':
			b.WriteString("\\\\")
		case '\n':
			b.WriteString("\\n")
		case '\t':
			b.WriteString(" ")
		default:
			b.WriteRune(r)
		}
	}
	b.WriteByte('"')
	return b.String()
}

func (c *xlCtx) src(fd *ast.FuncDecl) string {
	var parts []string
	for _, s := range fd.Body.List {
		var b bytes.Buffer
		printer.Fprint(&b, c.fset, s)
		parts = append(parts, b.String())
	}
	return strings.Join(parts, "; ")
}

func (c *xlCtx) errf(n ast.Node, format string, a ...interface{}) error {
	var b bytes.Buffer
	printer.Fprint(&b, c.fset, n)
	s := b.String()
	if len(s) > 80 {
		s = s[:80] + ".."
	}
	p := c.fset.Position(n.Pos())
	return fmt.Errorf("%s:%d: %s: `%s`", p.Filename[strings.LastIndex(p.Filename, "/")+1:], p.Line, fmt.Sprintf(format, a...), s)
}

var xlLeanKeywords = map[string]bool{"at": true, "from": true, "fun": true, "end": true, "let": true, "have": true, "show": true, "then": true,
	"else": true, "if": true, "do": true, "in": true, "by": true, "with": true, "match": true, "open": true, "def": true, "theorem": true,
	"where": true, "deriving": true, "instance": true, "structure": true, "class": true, "import": true, "namespace": true, "section": true,
	"variable": true, "universe": true, "mutual": true, "private": true, "protected": true, "partial": true, "unsafe": true, "macro": true,
	"syntax": true, "infix": true, "notation": true, "prefix": true, "postfix": true, "set_option": true, "attribute": true, "example": true,
	"abbrev": true, "inductive": true, "axiom": true, "opaque": true, "nomatch": true, "nofun": true, "this": true, "Type": true, "Prop": true, "Sort": true}

func xlIdent(s string) string {
	if xlLeanKeywords[s] || s == "_" {
		return s + "_"
	}
	return s
}

// width of an unsigned integer type; everything else is outside the fragment.
func (c *xlCtx) width(n ast.Node, t types.Type) (int, error) {
	if t == nil {
		return 0, c.errf(n, "expression without a type")
	}
	b, ok := t.Underlying().(*types.Basic)
	if !ok {
		return 0, c.errf(n, "non-integer type %s", t)
	}
	switch b.Kind() {
	case types.Uint8:
		return 8, nil
	case types.Uint16:
		return 16, nil
	case types.Uint32:
		return 32, nil
	case types.Uint64, types.Uint, types.Uintptr: // 64-bit targets (the harness and every build of the framework)
		return 64, nil
	}
	return 0, c.errf(n, "type %s is not an unsigned integer (outside the fragment)", t)
}

// ityp: width and signedness of an integer type (part 2: signed types are translated to Int with an
// explicit two's-complement wrap per static type, see xlWrapS).
func (c *xlCtx) ityp(n ast.Node, t types.Type) (w int, signed bool, err error) {
	if t == nil {
		return 0, false, c.errf(n, "expression without a type")
	}
	b, ok := t.Underlying().(*types.Basic)
	if !ok {
		return 0, false, c.errf(n, "non-integer type %s", t)
	}
	switch b.Kind() {
	case types.Int8:
		return 8, true, nil
	case types.Int16:
		return 16, true, nil
	case types.Int32: // rune
		return 32, true, nil
	case types.Int64, types.Int: // 64-bit targets
		return 64, true, nil
	}
	w, err = c.width(n, t)
	return w, false, err
}

// xlWrapS: wrapS w x := ((x + 2^(w-1)) % 2^w) - 2^(w-1) on Int, spelled out (Facts.lean imports nothing).
func xlWrapS(w int, x string) string {
	// decimal literals with ascriptions: `2^63` leaves a default-instance problem per occurrence to the end of
	// the elaboration of the whole term, which does not scale to the larger bodies
	h := new(big.Int).Lsh(big.NewInt(1), uint(w-1)).String()
	m := new(big.Int).Lsh(big.NewInt(1), uint(w)).String()
	return fmt.Sprintf("(((%s) + (%s : Int)) %% (%s : Int) - (%s : Int))", x, h, m, h)
}

func (c *xlCtx) isBool(t types.Type) bool {
	if t == nil {
		return false
	}
	b, ok := t.Underlying().(*types.Basic)
	return ok && b.Info()&types.IsBoolean != 0
}

func (c *xlCtx) leanType(n ast.Node, t types.Type) (string, error) {
	if c.isBool(t) {
		return "Bool", nil
	}
	_, sg, err := c.ityp(n, t)
	if err != nil {
		return "", err
	}
	if sg {
		return "Int", nil
	}
	return "Nat", nil
}

// fn translates one function declaration into a closed Lean lambda.
func (c *xlCtx) fn(fd *ast.FuncDecl) (*xlTerm, error) {
	if c.depth > 8 {
		return nil, c.errf(fd.Name, "call depth")
	}
	x := &xlFn{c: c, vars: map[types.Object]string{}}
	t := &xlTerm{}
	if fd.Recv != nil && len(fd.Recv.List) == 1 {
		fl := fd.Recv.List[0]
		if len(fl.Names) != 1 {
			return nil, c.errf(fd.Name, "unnamed receiver")
		}
		obj := c.info.Defs[fl.Names[0]]
		if obj == nil {
			return nil, c.errf(fd.Name, "receiver without an object")
		}
		rt := obj.Type()
		if p, ok := rt.(*types.Pointer); ok {
			x.recvPtr = true
			rt = p.Elem()
		}
		rty := "Nat"
		if c.spec.loaded == "" {
			lt, err := c.leanType(fl.Type, rt)
			if err != nil {
				return nil, err
			}
			rty = lt
		}
		x.recv = obj
		x.vars[obj] = xlIdent(fl.Names[0].Name)
		t.params = append(t.params, x.vars[obj])
		t.ptypes = append(t.ptypes, rty)
	}
	for _, fl := range fd.Type.Params.List {
		for _, nm := range fl.Names {
			obj := c.info.Defs[nm]
			if obj == nil {
				return nil, c.errf(nm, "parameter without an object")
			}
			lt, err := c.leanType(nm, obj.Type())
			if err != nil {
				return nil, err
			}
			x.vars[obj] = xlIdent(nm.Name)
			t.params = append(t.params, x.vars[obj])
			t.ptypes = append(t.ptypes, lt)
		}
		if len(fl.Names) == 0 {
			return nil, c.errf(fl.Type, "unnamed parameter")
		}
	}
	nres := 0
	if fd.Type.Results != nil {
		for _, fl := range fd.Type.Results.List {
			if len(fl.Names) > 0 {
				return nil, c.errf(fl.Type, "named result")
			}
			nres++
			tv, ok := c.info.Types[fl.Type]
			if !ok {
				return nil, c.errf(fl.Type, "result without a type")
			}
			lt, err := c.leanType(fl.Type, tv.Type)
			if err != nil {
				return nil, err
			}
			t.ret = lt
		}
	}
	if nres > 1 {
		return nil, c.errf(fd.Name, "%d results", nres)
	}
	if nres == 0 {
		if !x.recvPtr {
			return nil, c.errf(fd.Name, "no result and no pointer receiver")
		}
		t.ret = "Nat"
	}
	body, err := x.stmts(fd.Body.List, nres == 0, fd)
	if err != nil {
		return nil, err
	}
	t.body = body
	return t, nil
}

// stmts: leading local bindings, then `return e` / `*f = e` / if-chains of returns.
func (x *xlFn) stmts(l []ast.Stmt, store bool, at ast.Node) (string, error) {
	c := x.c
	if len(l) == 0 {
		return "", c.errf(at, "control reaches the end without a value")
	}
	switch s := l[0].(type) {
	case *ast.ReturnStmt:
		if store || len(s.Results) != 1 {
			return "", c.errf(s, "return shape")
		}
		if len(l) != 1 {
			return "", c.errf(l[1], "statement after return")
		}
		return x.expr(s.Results[0])
	case *ast.AssignStmt:
		if len(s.Lhs) != 1 || len(s.Rhs) != 1 {
			return "", c.errf(s, "multiple assignment")
		}
		// *f = e  (the single store to the receiver; must be the last statement)
		if st, ok := s.Lhs[0].(*ast.StarExpr); ok {
			id, ok := st.X.(*ast.Ident)
			if !ok || !store || !x.recvPtr || c.info.Uses[id] != x.recv || s.Tok != token.ASSIGN {
				return "", c.errf(s, "store through a pointer")
			}
			if len(l) != 1 {
				return "", c.errf(l[1], "statement after the store to the receiver")
			}
			return x.expr(s.Rhs[0])
		}
		id, ok := s.Lhs[0].(*ast.Ident)
		if !ok {
			return "", c.errf(s, "assignment target")
		}
		var obj types.Object
		var rhs string
		var err error
		switch s.Tok {
		case token.DEFINE:
			obj = c.info.Defs[id]
			if obj == nil {
				return "", c.errf(s, "redeclaration")
			}
			if _, err := c.leanType(id, obj.Type()); err != nil {
				return "", err
			}
			rhs, err = x.expr(s.Rhs[0])
		case token.ASSIGN:
			obj = c.info.Uses[id]
			if obj == nil || obj == x.recv || x.vars[obj] == "" {
				return "", c.errf(s, "assignment to a non-local")
			}
			rhs, err = x.expr(s.Rhs[0])
		default: // x op= e  ==  x = x op (e)
			op, ok := xlAssignOps[s.Tok]
			obj = c.info.Uses[id]
			if !ok || obj == nil || obj == x.recv || x.vars[obj] == "" {
				return "", c.errf(s, "assignment operator")
			}
			var a, b string
			if a, err = x.expr(id); err != nil {
				return "", err
			}
			if b, err = x.expr(s.Rhs[0]); err != nil {
				return "", err
			}
			rhs, err = x.binop(s, op, obj.Type(), a, b, s.Rhs[0])
		}
		if err != nil {
			return "", err
		}
		name := xlIdent(id.Name)
		x.vars[obj] = name
		rest, err := x.stmts(l[1:], store, s)
		if err != nil {
			return "", err
		}
		return "let " + name + " := " + rhs + "; " + rest, nil
	case *ast.IfStmt:
		if s.Init != nil {
			return "", c.errf(s, "if with an init statement")
		}
		if store {
			return "", c.errf(s, "if in a storing function")
		}
		cond, err := x.expr(s.Cond)
		if err != nil {
			return "", err
		}
		if tv := c.info.Types[s.Cond]; !c.isBool(tv.Type) {
			return "", c.errf(s.Cond, "non-boolean condition")
		}
		th, err := x.scoped(s.Body.List, s.Body)
		if err != nil {
			return "", err
		}
		var el string
		switch e := s.Else.(type) {
		case nil:
			el, err = x.scoped(l[1:], s)
		case *ast.BlockStmt:
			if len(l) != 1 {
				return "", c.errf(l[1], "statement after if/else")
			}
			el, err = x.scoped(e.List, e)
		case *ast.IfStmt:
			if len(l) != 1 {
				return "", c.errf(l[1], "statement after if/else")
			}
			el, err = x.scoped([]ast.Stmt{e}, e)
		default:
			return "", c.errf(s, "else shape")
		}
		if err != nil {
			return "", err
		}
		return "if (" + cond + ") = true then (" + th + ") else (" + el + ")", nil
	}
	return "", c.errf(l[0], "statement outside the fragment")
}

// scoped translates a nested statement list; bindings made inside do not escape.
func (x *xlFn) scoped(l []ast.Stmt, at ast.Node) (string, error) {
	saved := map[types.Object]string{}
	for k, v := range x.vars {
		saved[k] = v
	}
	s, err := x.stmts(l, false, at)
	x.vars = saved
	return s, err
}

var xlAssignOps = map[token.Token]token.Token{token.ADD_ASSIGN: token.ADD, token.SUB_ASSIGN: token.SUB, token.MUL_ASSIGN: token.MUL,
	token.AND_ASSIGN: token.AND, token.OR_ASSIGN: token.OR, token.XOR_ASSIGN: token.XOR, token.SHL_ASSIGN: token.SHL,
	token.SHR_ASSIGN: token.SHR, token.AND_NOT_ASSIGN: token.AND_NOT, token.QUO_ASSIGN: token.QUO, token.REM_ASSIGN: token.REM}

func (x *xlFn) constant(e ast.Expr, tv types.TypeAndValue) (string, error) {
	c := x.c
	switch tv.Value.Kind() {
	case constant.Bool:
		if constant.BoolVal(tv.Value) {
			return "true", nil
		}
		return "false", nil
	case constant.Int:
		// part 2: a constant of a signed integer type is an Int literal; a negative constant needs a
		// signed (or untyped) type
		if b, ok := tv.Type.Underlying().(*types.Basic); ok && b.Info()&types.IsInteger != 0 && b.Info()&types.IsUnsigned == 0 {
			if b.Info()&types.IsUntyped == 0 || constant.Sign(tv.Value) < 0 {
				return "(" + tv.Value.ExactString() + " : Int)", nil
			}
		}
		if constant.Sign(tv.Value) < 0 {
			return "", c.errf(e, "negative constant")
		}
		// a non-negative integer constant stands for its value whatever its (constant) type: every
		// NON-constant operand it meets is checked to be unsigned, and Go rejects constant overflow
		return tv.Value.ExactString(), nil
	}
	return "", c.errf(e, "constant of kind %v", tv.Value.Kind())
}

func (x *xlFn) expr(e ast.Expr) (string, error) {
	c := x.c
	tv, ok := c.info.Types[e]
	if ok && tv.Value != nil {
		return x.constant(e, tv)
	}
	switch e := e.(type) {
	case *ast.ParenExpr:
		s, err := x.expr(e.X)
		if err != nil {
			return "", err
		}
		return "(" + s + ")", nil
	case *ast.Ident:
		obj := c.info.Uses[e]
		if obj == nil {
			obj = c.info.Defs[e]
		}
		if obj == x.recv && x.recv != nil {
			if x.recvPtr {
				return "", c.errf(e, "the receiver pointer used as a value")
			}
			return x.vars[obj], nil
		}
		if n, ok := x.vars[obj]; ok && obj != nil {
			return n, nil
		}
		return "", c.errf(e, "identifier that is neither a parameter, a local nor a constant")
	case *ast.StarExpr:
		if id, ok := e.X.(*ast.Ident); ok && x.recvPtr && c.info.Uses[id] == x.recv {
			return x.vars[x.recv], nil
		}
		return "", c.errf(e, "pointer dereference")
	case *ast.UnaryExpr:
		a, err := x.expr(e.X)
		if err != nil {
			return "", err
		}
		switch e.Op {
		case token.NOT:
			return "(!(" + a + "))", nil
		case token.ADD:
			return "(" + a + ")", nil
		case token.XOR:
			w, err := c.width(e, tv.Type)
			if err != nil {
				return "", err
			}
			return fmt.Sprintf("((2^%d - 1) ^^^ (%s))", w, a), nil
		case token.SUB:
			w, sg, err := c.ityp(e, tv.Type)
			if err != nil {
				return "", err
			}
			if sg {
				return xlWrapS(w, "-("+a+")"), nil
			}
			return fmt.Sprintf("((2^%d - (%s)) %% 2^%d)", w, a, w), nil
		}
		return "", c.errf(e, "unary operator %s", e.Op)
	case *ast.BinaryExpr:
		a, err := x.expr(e.X)
		if err != nil {
			return "", err
		}
		b, err := x.expr(e.Y)
		if err != nil {
			return "", err
		}
		switch e.Op {
		case token.LAND:
			return "((" + a + ") && (" + b + "))", nil
		case token.LOR:
			return "((" + a + ") || (" + b + "))", nil
		case token.EQL, token.NEQ, token.LSS, token.LEQ, token.GTR, token.GEQ:
			xt := c.info.Types[e.X].Type
			if c.isBool(xt) {
				if e.Op == token.EQL {
					return "((" + a + ") == (" + b + "))", nil
				}
				if e.Op == token.NEQ {
					return "((" + a + ") != (" + b + "))", nil
				}
				return "", c.errf(e, "ordering of booleans")
			}
			for _, o := range []ast.Expr{e.X, e.Y} {
				otv := c.info.Types[o]
				if otv.Value != nil {
					continue // constants were checked (non-negative) above
				}
				if _, _, err := c.ityp(o, otv.Type); err != nil { // Go compares operands of ONE type: both Nat or both Int
					return "", err
				}
			}
			op := map[token.Token]string{token.EQL: "=", token.NEQ: "≠", token.LSS: "<", token.LEQ: "≤", token.GTR: ">", token.GEQ: "≥"}[e.Op]
			return "(decide ((" + a + ") " + op + " (" + b + ")))", nil
		}
		return x.binop(e, e.Op, tv.Type, a, b, e.Y)
	case *ast.CallExpr:
		ftv, ok := c.info.Types[e.Fun]
		if ok && ftv.IsType() { // conversion T(x)
			if len(e.Args) != 1 {
				return "", c.errf(e, "conversion shape")
			}
			w, sg, err := c.ityp(e, ftv.Type)
			if err != nil {
				return "", err
			}
			atv := c.info.Types[e.Args[0]]
			asg := false
			if atv.Value == nil {
				if _, asg, err = c.ityp(e.Args[0], atv.Type); err != nil {
					return "", err
				}
			} else if atv.Value.Kind() == constant.Int {
				// a constant operand (only reached when the conversion itself is not constant, i.e. never
				// for integer constants; kept for completeness): Int literal iff constant() renders one
				if b, ok := atv.Type.Underlying().(*types.Basic); ok && b.Info()&types.IsUnsigned == 0 &&
					(b.Info()&types.IsUntyped == 0 || constant.Sign(atv.Value) < 0) {
					asg = true
				}
			}
			a, err := x.expr(e.Args[0])
			if err != nil {
				return "", err
			}
			switch {
			case !sg && !asg: // unsigned -> unsigned: truncate
				return fmt.Sprintf("((%s) %% 2^%d)", a, w), nil
			case sg && asg: // signed -> signed: wrap at the target width
				return xlWrapS(w, a), nil
			case sg && !asg: // unsigned -> signed: the Nat value as an Int, wrapped at the target width
				return xlWrapS(w, "Int.ofNat ("+a+")"), nil
			default: // signed -> unsigned: the residue mod 2^w (Int `%` with a positive modulus is non-negative)
				return fmt.Sprintf("(Int.toNat ((%s) %% 2^%d))", a, w), nil
			}
		}
		if x.ext != nil {
			if s, ok, err := x.extCall(e); ok || err != nil {
				return s, err
			}
		}
		// atomic.LoadUint32(&s.v): the loaded word is the parameter
		if c.spec.loaded != "" && xlIsLoad(e, c.spec.loaded) {
			if r := xlLoadRecv(e); r != nil && c.info.Uses[r] == x.recv && x.recv != nil {
				return x.vars[x.recv], nil
			}
		}
		// f.M(args) with M a listed method of the same receiver type
		if sel, ok := e.Fun.(*ast.SelectorExpr); ok {
			var rid *ast.Ident
			switch r := sel.X.(type) {
			case *ast.Ident:
				rid = r
			case *ast.ParenExpr:
				if st, ok := r.X.(*ast.StarExpr); ok {
					rid, _ = st.X.(*ast.Ident)
				}
			}
			if rid != nil && x.recv != nil && c.info.Uses[rid] == x.recv && c.listed[sel.Sel.Name] {
				fd := c.decls[sel.Sel.Name]
				if fd == nil {
					return "", c.errf(e, "listed method without a declaration")
				}
				if fd.Type.Results == nil || len(fd.Type.Results.List) != 1 {
					return "", c.errf(e, "call of a method without a single result")
				}
				c.depth++
				t, err := c.fn(fd)
				c.depth--
				if err != nil {
					return "", err
				}
				if len(t.params) != 1+len(e.Args) {
					return "", c.errf(e, "argument count")
				}
				s := "((fun " + strings.Join(t.params, " ") + " => " + t.body + ") " + x.vars[x.recv]
				for _, a := range e.Args {
					as, err := x.expr(a)
					if err != nil {
						return "", err
					}
					s += " (" + as + ")"
				}
				return s + ")", nil
			}
		}
		return "", c.errf(e, "call outside the fragment")
	case *ast.SelectorExpr, *ast.IndexExpr:
		if x.ext != nil {
			if s, ok, err := x.extOperand(e); ok || err != nil {
				return s, err
			}
		}
	}
	return "", c.errf(e, "expression outside the fragment")
}

func xlIsLoad(e *ast.CallExpr, fn string) bool {
	sel, ok := e.Fun.(*ast.SelectorExpr)
	if !ok {
		return false
	}
	id, ok := sel.X.(*ast.Ident)
	return ok && id.Name+"."+sel.Sel.Name == fn && len(e.Args) == 1
}

// xlLoadRecv: &s.v -> s,  (*uint32)(s) -> s
func xlLoadRecv(e *ast.CallExpr) *ast.Ident {
	if cv, ok := e.Args[0].(*ast.CallExpr); ok && len(cv.Args) == 1 {
		if pe, ok := cv.Fun.(*ast.ParenExpr); ok {
			if _, ok := pe.X.(*ast.StarExpr); ok {
				id, _ := cv.Args[0].(*ast.Ident)
				return id
			}
		}
		return nil
	}
	u, ok := e.Args[0].(*ast.UnaryExpr)
	if !ok || u.Op != token.AND {
		return nil
	}
	sel, ok := u.X.(*ast.SelectorExpr)
	if !ok {
		return nil
	}
	id, _ := sel.X.(*ast.Ident)
	return id
}

// binop: arithmetic / bitwise operator at the width of the static result type t.
func (x *xlFn) binop(at ast.Node, op token.Token, t types.Type, a, b string, rhs ast.Expr) (string, error) {
	c := x.c
	w, sg, err := c.ityp(at, t)
	if err != nil {
		return "", err
	}
	if sg {
		return x.binopS(at, op, w, a, b, rhs)
	}
	switch op {
	case token.OR:
		return "((" + a + ") ||| (" + b + "))", nil
	case token.AND:
		return "((" + a + ") &&& (" + b + "))", nil
	case token.XOR:
		return "((" + a + ") ^^^ (" + b + "))", nil
	case token.AND_NOT:
		return fmt.Sprintf("((%s) &&& ((2^%d - 1) ^^^ (%s)))", a, w, b), nil
	case token.ADD:
		return fmt.Sprintf("(((%s) + (%s)) %% 2^%d)", a, b, w), nil
	case token.MUL:
		return fmt.Sprintf("(((%s) * (%s)) %% 2^%d)", a, b, w), nil
	case token.SUB:
		return fmt.Sprintf("(((%s) + 2^%d - (%s)) %% 2^%d)", a, w, b, w), nil
	case token.SHL, token.SHR:
		rtv := c.info.Types[rhs]
		if rtv.Value == nil {
			if _, err := c.width(rhs, rtv.Type); err != nil { // a signed count panics when negative
				return "", err
			}
		}
		if rtv.Value != nil && rtv.Value.Kind() == constant.Int && constant.Sign(rtv.Value) >= 0 {
			b = rtv.Value.ExactString() // a count is a Nat whatever the constant's type
		}
		if op == token.SHL {
			return fmt.Sprintf("(((%s) <<< (%s)) %% 2^%d)", a, b, w), nil
		}
		return "((" + a + ") >>> (" + b + "))", nil
	case token.QUO, token.REM:
		rtv := c.info.Types[rhs]
		if rtv.Value == nil || constant.Sign(rtv.Value) <= 0 {
			return "", c.errf(at, "division by a non-constant (may panic)")
		}
		if op == token.QUO {
			return "((" + a + ") / (" + b + "))", nil
		}
		return "((" + a + ") % (" + b + "))", nil
	}
	return "", c.errf(at, "binary operator %s", op)
}
