package main

// xlate, part 2 (session 3): signed integers, statement blocks with joins, segments of a function body,
// call sites and field reads as parameters, and the byte-slice receiver of cfg.Config.next.
//
// Signed integer types (int, int8..int64, rune; 64-bit targets) are translated to Lean `Int` with an
// explicit two's-complement wrap per static type, spelled out in every term (Facts.lean imports nothing):
//
//	wrapS w x       (((x) + 2^(w-1)) % 2^w - 2^(w-1))
//	a + b, a - b, a * b, -a      wrapS w (a + b) ..
//	a / k, a % k    wrapS w (Int.tdiv a k), Int.tmod a k      Go truncates toward zero; only a constant k != 0
//	a << k, a >> k  wrapS w (a * 2^k),  a / 2^k               constant k only; Int `/` with a positive divisor is
//	                                                          floor division = arithmetic shift right
//	a | b, a & b, a ^ b   Int.ofNat (toNat a ||| toNat b) ..  ONLY when both operands are syntactically non-negative
//	                                                          (constants >= 0, T(x) of an unsigned x narrower than T,
//	                                                          such values shifted left by a constant without reaching
//	                                                          the sign bit, and |,&,^ of such); otherwise unsupported
//	T(x)            u->u  x % 2^w;  s->s  wrapS w x;  u->s  wrapS w (Int.ofNat x);  s->u  Int.toNat (x % 2^w)
//	constants       of a signed type: (v : Int)
//
// Statement blocks (`xlFn.block`): in addition to part 1's `let`/if-return chains,
//
//	if [init;] c { ..assignments.. } [else ..]  (no return inside)
//	        let v : T := if c then (..; v) else (..; v); rest     (one assigned outer variable; a tuple for several)
//	if [init;] c { ..return.. }                 if c then (body ++ rest) else (else ++ rest)   (rest duplicated)
//	_ = c[k]                                    a read whose value is dropped (it can still panic)
//	x++ / x--                                   x = x + 1 / x - 1
//
// A DEFINE that would shadow a visible name is outside the fragment (Lean's `let` scoping then coincides
// with Go's block scoping).
//
// Segment form (`xlSeg`): the statements of function F from the first top-level statement whose source
// text starts with `from` up to (excluding) the first later one starting with `until`; the value is the
// local `result` at the end. Reads of receiver fields (`s.sleep`) and the listed call sites
// (`util.FastRandN(..)`) are PARAMETERS of the generated function, in order of first appearance; a call
// site is a function parameter applied to the translated arguments (so the argument expressions stay part
// of the regenerated term).

import (
	"bytes"
	"fmt"
	"go/ast"
	"go/constant"
	"go/parser"
	"go/printer"
	"go/token"
	"go/types"
	"math/big"
	"regexp"
	"strconv"
	"strings"

	"github.com/iDigitalFlame/xmt/c2/cfg"
)

// ---------------------------------------------------------------- signed operators

func xlOperands(at ast.Node) (ast.Expr, ast.Expr) {
	switch n := at.(type) {
	case *ast.BinaryExpr:
		return n.X, n.Y
	case *ast.AssignStmt:
		if len(n.Lhs) == 1 && len(n.Rhs) == 1 {
			return n.Lhs[0], n.Rhs[0]
		}
	}
	return nil, nil
}

// nonNegBits: e is syntactically a non-negative value below 2^bits (no range analysis: constants,
// widening conversions of unsigned values, constant left shifts that stay below the sign bit, | & ^).
func (c *xlCtx) nonNegBits(e ast.Expr) (int, bool) {
	if e == nil {
		return 0, false
	}
	tv, ok := c.info.Types[e]
	if !ok {
		return 0, false
	}
	if tv.Value != nil {
		if tv.Value.Kind() != constant.Int || constant.Sign(tv.Value) < 0 {
			return 0, false
		}
		return constant.BitLen(tv.Value), true
	}
	switch e := e.(type) {
	case *ast.ParenExpr:
		return c.nonNegBits(e.X)
	case *ast.CallExpr:
		ftv, ok := c.info.Types[e.Fun]
		if !ok || !ftv.IsType() || len(e.Args) != 1 {
			return 0, false
		}
		w, sg, err := c.ityp(e, ftv.Type)
		if err != nil {
			return 0, false
		}
		atv := c.info.Types[e.Args[0]]
		aw, asg, err := c.ityp(e.Args[0], atv.Type)
		if err != nil || asg {
			return 0, false
		}
		lim := w
		if sg {
			lim = w - 1
		}
		if aw <= lim {
			return aw, true
		}
	case *ast.BinaryExpr:
		w, sg, err := c.ityp(e, tv.Type)
		if err != nil {
			return 0, false
		}
		lim := w
		if sg {
			lim = w - 1
		}
		switch e.Op {
		case token.SHL:
			a, ok := c.nonNegBits(e.X)
			k, kok := c.constCount(e.Y)
			if ok && kok && a+k <= lim {
				return a + k, true
			}
		case token.OR, token.XOR, token.AND:
			a, ok1 := c.nonNegBits(e.X)
			b, ok2 := c.nonNegBits(e.Y)
			if ok1 && ok2 {
				if b > a {
					a = b
				}
				return a, true
			}
		}
	}
	return 0, false
}

func (c *xlCtx) constCount(e ast.Expr) (int, bool) {
	tv, ok := c.info.Types[e]
	if !ok || tv.Value == nil || tv.Value.Kind() != constant.Int || constant.Sign(tv.Value) < 0 {
		return 0, false
	}
	v, ok := constant.Int64Val(tv.Value)
	if !ok || v > 4096 {
		return 0, false
	}
	return int(v), true
}

// binopS: arithmetic on a signed static type of width w (operands are Int terms).
func (x *xlFn) binopS(at ast.Node, op token.Token, w int, a, b string, rhs ast.Expr) (string, error) {
	c := x.c
	switch op {
	case token.ADD:
		return xlWrapS(w, "("+a+") + ("+b+")"), nil
	case token.SUB:
		return xlWrapS(w, "("+a+") - ("+b+")"), nil
	case token.MUL:
		return xlWrapS(w, "("+a+") * ("+b+")"), nil
	case token.QUO, token.REM:
		rtv := c.info.Types[rhs]
		if rtv.Value == nil || constant.Sign(rtv.Value) == 0 {
			return "", c.errf(at, "division by a non-constant (may panic)")
		}
		if op == token.QUO { // MinInt / -1 wraps
			return xlWrapS(w, "Int.tdiv ("+a+") ("+b+")"), nil
		}
		return "(Int.tmod (" + a + ") (" + b + "))", nil
	case token.SHL, token.SHR:
		k, ok := c.constCount(rhs)
		if !ok {
			return "", c.errf(at, "shift of a signed value by a non-constant")
		}
		if op == token.SHL {
			return xlWrapS(w, fmt.Sprintf("(%s) * (%s : Int)", a, new(big.Int).Lsh(big.NewInt(1), uint(k)).String())), nil
		}
		return fmt.Sprintf("((%s) / (%s : Int))", a, new(big.Int).Lsh(big.NewInt(1), uint(k)).String()), nil
	case token.OR, token.AND, token.XOR:
		l, r := xlOperands(at)
		_, ok1 := c.nonNegBits(l)
		_, ok2 := c.nonNegBits(r)
		if !ok1 || !ok2 {
			return "", c.errf(at, "bitwise operator on a signed value that is not syntactically non-negative")
		}
		o := map[token.Token]string{token.OR: "|||", token.AND: "&&&", token.XOR: "^^^"}[op]
		return "(Int.ofNat ((Int.toNat (" + a + ")) " + o + " (Int.toNat (" + b + "))))", nil
	}
	return "", c.errf(at, "binary operator %s on a signed value", op)
}

// ---------------------------------------------------------------- parameters from the context

type xlExt struct {
	fields   bool            // receiver field reads are parameters
	calls    map[string]bool // printed callee -> its call sites are parameters
	bytes    bool            // the receiver is a byte slice: len(c), c[k] (checked reads, hoisted per statement)
	params   []string
	ptypes   []string
	fieldIx  map[string]string
	ncall    int
	reads    []string // pending hoisted reads of the statement being translated: index terms
	nread    int
	noReturn bool
	retTy    string
	retf     func(string) string // inside a loop body: how `return v` leaves the step function
	nloop    int
}

func (c *xlCtx) text(n ast.Node) string {
	var b bytes.Buffer
	printer.Fprint(&b, c.fset, n)
	return b.String()
}

func (x *xlFn) isRecv(e ast.Expr) bool {
	id, ok := e.(*ast.Ident)
	return ok && x.recv != nil && x.c.info.Uses[id] == x.recv
}

// extCall: a listed call site -> parameter applied to the arguments; len(c) of the byte receiver.
func (x *xlFn) extCall(e *ast.CallExpr) (string, bool, error) {
	c := x.c
	if id, ok := e.Fun.(*ast.Ident); ok && id.Name == "len" && x.ext.bytes && len(e.Args) == 1 && x.isRecv(e.Args[0]) {
		if _, isb := c.info.Uses[id].(*types.Builtin); isb {
			return "(Int.ofNat (List.length " + x.vars[x.recv] + "))", true, nil
		}
	}
	callee := c.text(e.Fun)
	if !x.ext.calls[callee] {
		return "", false, nil
	}
	ftv, ok := c.info.Types[e.Fun]
	if !ok {
		return "", true, c.errf(e, "call site without a type")
	}
	sig, ok := ftv.Type.(*types.Signature)
	if !ok || sig.Results().Len() != 1 || sig.Variadic() || sig.Params().Len() != len(e.Args) {
		return "", true, c.errf(e, "call site shape")
	}
	ty := ""
	for i := 0; i < sig.Params().Len(); i++ {
		lt, err := c.leanType(e.Args[i], sig.Params().At(i).Type())
		if err != nil {
			return "", true, err
		}
		ty += lt + " → "
	}
	rt, err := c.leanType(e, sig.Results().At(0).Type())
	if err != nil {
		return "", true, err
	}
	ty += rt
	short := callee
	if i := strings.LastIndex(short, "."); i >= 0 {
		short = short[i+1:]
	}
	name := fmt.Sprintf("c%d_%s", x.ext.ncall, short)
	x.ext.ncall++
	x.ext.params = append(x.ext.params, name)
	x.ext.ptypes = append(x.ext.ptypes, ty)
	s := "(" + name
	for i, a := range e.Args {
		// a non-constant argument has exactly the parameter's type; a constant one was given it by go/types
		atv := c.info.Types[a]
		if atv.Value == nil {
			pl, _ := c.leanType(a, sig.Params().At(i).Type())
			al, err := c.leanType(a, atv.Type)
			if err != nil {
				return "", true, err
			}
			if al != pl {
				return "", true, c.errf(a, "argument type")
			}
		}
		as, err := x.expr(a)
		if err != nil {
			return "", true, err
		}
		s += " (" + as + ")"
	}
	return s + ")", true, nil
}

// extOperand: s.field -> parameter;  c[k] on the byte receiver -> a hoisted checked read.
func (x *xlFn) extOperand(e ast.Expr) (string, bool, error) {
	c := x.c
	switch e := e.(type) {
	case *ast.SelectorExpr:
		if !x.ext.fields || !x.isRecv(e.X) {
			return "", false, nil
		}
		tv, ok := c.info.Types[e]
		if !ok {
			return "", true, c.errf(e, "field without a type")
		}
		lt, err := c.leanType(e, tv.Type)
		if err != nil {
			return "", true, err
		}
		if n, ok := x.ext.fieldIx[e.Sel.Name]; ok {
			return n, true, nil
		}
		name := xlIdent(x.vars[x.recv] + "_" + e.Sel.Name)
		x.ext.fieldIx[e.Sel.Name] = name
		x.ext.params = append(x.ext.params, name)
		x.ext.ptypes = append(x.ext.ptypes, lt)
		return name, true, nil
	case *ast.IndexExpr:
		if !x.ext.bytes || !x.isRecv(e.X) {
			return "", false, nil
		}
		itv := c.info.Types[e.Index]
		if _, sg, err := c.ityp(e.Index, itv.Type); err != nil || !sg {
			return "", true, c.errf(e, "index that is not a signed integer")
		}
		k, err := x.expr(e.Index)
		if err != nil {
			return "", true, err
		}
		name := fmt.Sprintf("b%d", x.ext.nread)
		x.ext.nread++
		x.ext.reads = append(x.ext.reads, name+"\x00"+k)
		return name, true, nil
	}
	return "", false, nil
}

// withReads wraps the translation of one statement's own expressions: the reads hoisted while `f` ran are
// bound, in evaluation order, in front of what `k` produces from f's result. A failed read is `none`
// (Go: index out of range panic); the block's value is an Option.
func (x *xlFn) hoist(pre int, body string) string {
	if x.ext == nil {
		return body
	}
	rs := x.ext.reads[pre:]
	x.ext.reads = x.ext.reads[:pre]
	for i := len(rs) - 1; i >= 0; i-- {
		p := strings.SplitN(rs[i], "\x00", 2)
		if !regexp.MustCompile(`\b` + p[0] + `\b`).MatchString(body) { // a read made only for its panic (`_ = c[k]`)
			body = fmt.Sprintf("(if (%s) < 0 then none else (%s[Int.toNat (%s)]?)).bind (fun _ => %s)", p[1], x.vars[x.recv], p[1], body)
			continue
		}
		// c[k]: k < 0 or k >= len(c) panics
		body = fmt.Sprintf("(if (%s) < 0 then none else (%s[Int.toNat (%s)]?)).bind (fun %s_ => let %s : Nat := UInt8.toNat %s_; %s)",
			p[1], x.vars[x.recv], p[1], p[0], p[0], p[0], body)
	}
	return body
}

func (x *xlFn) mark() int {
	if x.ext == nil {
		return 0
	}
	return len(x.ext.reads)
}

// ---------------------------------------------------------------- statement blocks

func xlHasReturn(n ast.Node) bool {
	found := false
	ast.Inspect(n, func(m ast.Node) bool {
		if _, ok := m.(*ast.ReturnStmt); ok {
			found = true
		}
		if _, ok := m.(*ast.FuncLit); ok {
			return false
		}
		return !found
	})
	return found
}

func (x *xlFn) visible(name string) bool {
	for _, v := range x.vars {
		if v == name {
			return true
		}
	}
	return false
}

// assigned: the variables bound OUTSIDE `n` (present in x.vars) that a statement inside `n` assigns, in
// order of first assignment.
func (x *xlFn) assigned(nodes ...ast.Node) []types.Object {
	var out []types.Object
	seen := map[types.Object]bool{}
	add := func(e ast.Expr) {
		if id, ok := e.(*ast.Ident); ok {
			if obj := x.c.info.Uses[id]; obj != nil && x.vars[obj] != "" && obj != x.recv && !seen[obj] {
				seen[obj] = true
				out = append(out, obj)
			}
		}
	}
	for _, n := range nodes {
		if n == nil {
			continue
		}
		ast.Inspect(n, func(m ast.Node) bool {
			switch s := m.(type) {
			case *ast.AssignStmt:
				if s.Tok != token.DEFINE {
					for _, l := range s.Lhs {
						add(l)
					}
				}
			case *ast.IncDecStmt:
				add(s.X)
			}
			return true
		})
	}
	return out
}

func (x *xlFn) snapshot() map[types.Object]string {
	saved := map[types.Object]string{}
	for k, v := range x.vars {
		saved[k] = v
	}
	return saved
}

// wrap: the value a block yields. With a byte receiver the block is an Option (a failed read is none).
func (x *xlFn) wrap(v string) string {
	if x.ext != nil && x.ext.bytes {
		return "some (" + v + ")"
	}
	return v
}

// block translates a statement list; `fin` produces the value when control reaches the end of the list.
func (x *xlFn) block(l []ast.Stmt, fin func() (string, error), at ast.Node) (string, error) {
	c := x.c
	if len(l) == 0 {
		return fin()
	}
	rest := func() (string, error) { return x.block(l[1:], fin, l[0]) }
	switch s := l[0].(type) {
	case *ast.ReturnStmt:
		if x.ext != nil && x.ext.noReturn {
			return "", c.errf(s, "return inside a segment")
		}
		if len(s.Results) != 1 {
			return "", c.errf(s, "return shape")
		}
		m := x.mark()
		v, err := x.expr(s.Results[0])
		if err != nil {
			return "", err
		}
		if x.ext != nil && x.ext.retf != nil {
			return x.hoist(m, x.ext.retf(v)), nil
		}
		return x.hoist(m, x.wrap(v)), nil
	case *ast.IncDecStmt:
		op := token.ADD_ASSIGN
		if s.Tok == token.DEC {
			op = token.SUB_ASSIGN
		}
		one := &ast.BasicLit{Kind: token.INT, Value: "1", ValuePos: s.Pos()}
		id, ok := s.X.(*ast.Ident)
		if !ok {
			return "", c.errf(s, "increment target")
		}
		obj := c.info.Uses[id]
		if obj == nil || x.vars[obj] == "" || obj == x.recv {
			return "", c.errf(s, "increment of a non-local")
		}
		w, sg, err := c.ityp(id, obj.Type())
		if err != nil {
			return "", err
		}
		_ = one
		var rhs string
		switch {
		case sg && op == token.ADD_ASSIGN:
			rhs = xlWrapS(w, "("+x.vars[obj]+") + 1")
		case sg:
			rhs = xlWrapS(w, "("+x.vars[obj]+") - 1")
		case op == token.ADD_ASSIGN:
			rhs = fmt.Sprintf("(((%s) + 1) %% 2^%d)", x.vars[obj], w)
		default:
			rhs = fmt.Sprintf("(((%s) + 2^%d - 1) %% 2^%d)", x.vars[obj], w, w)
		}
		lt, _ := c.leanType(id, obj.Type())
		r, err := rest()
		if err != nil {
			return "", err
		}
		return "let " + x.vars[obj] + " : " + lt + " := " + rhs + "; " + r, nil
	case *ast.AssignStmt:
		if len(s.Lhs) != 1 || len(s.Rhs) != 1 {
			return "", c.errf(s, "multiple assignment")
		}
		id, ok := s.Lhs[0].(*ast.Ident)
		if !ok {
			return "", c.errf(s, "assignment target")
		}
		m := x.mark()
		if id.Name == "_" { // `_ = c[k]`: evaluated for its panic only
			if s.Tok != token.ASSIGN {
				return "", c.errf(s, "blank assignment")
			}
			if _, err := x.expr(s.Rhs[0]); err != nil {
				return "", err
			}
			if x.mark() == m {
				return "", c.errf(s, "blank assignment without a read")
			}
			r, err := rest()
			if err != nil {
				return "", err
			}
			return x.hoist(m, r), nil
		}
		var obj types.Object
		var rhs string
		var err error
		switch s.Tok {
		case token.DEFINE:
			obj = c.info.Defs[id]
			if obj == nil {
				return "", c.errf(s, "redeclaration")
			}
			if x.visible(xlIdent(id.Name)) {
				return "", c.errf(s, "declaration that shadows a visible name")
			}
			rhs, err = x.expr(s.Rhs[0])
		case token.ASSIGN:
			obj = c.info.Uses[id]
			if obj == nil || obj == x.recv || x.vars[obj] == "" {
				return "", c.errf(s, "assignment to a non-local")
			}
			rhs, err = x.expr(s.Rhs[0])
		default:
			op, ok := xlAssignOps[s.Tok]
			obj = c.info.Uses[id]
			if !ok || obj == nil || obj == x.recv || x.vars[obj] == "" {
				return "", c.errf(s, "assignment operator")
			}
			var a, b string
			if a, err = x.expr(id); err != nil {
				return "", err
			}
			if b, err = x.expr(s.Rhs[0]); err != nil {
				return "", err
			}
			rhs, err = x.binop(s, op, obj.Type(), a, b, s.Rhs[0])
		}
		if err != nil {
			return "", err
		}
		lt, err := c.leanType(id, obj.Type())
		if err != nil {
			return "", err
		}
		name := xlIdent(id.Name)
		x.vars[obj] = name
		r, err := rest()
		if err != nil {
			return "", err
		}
		return x.hoist(m, "let "+name+" : "+lt+" := "+rhs+"; "+r), nil
	case *ast.IfStmt:
		if s.Init != nil { // `if init; c {..}` = init followed by the if (no shadowing: checked at the DEFINE)
			plain := *s
			plain.Init = nil
			nl := append([]ast.Stmt{s.Init, &plain}, l[1:]...)
			return x.block(nl, fin, at)
		}
		if tv := c.info.Types[s.Cond]; !c.isBool(tv.Type) {
			return "", c.errf(s.Cond, "non-boolean condition")
		}
		m := x.mark()
		cond, err := x.expr(s.Cond)
		if err != nil {
			return "", err
		}
		if x.mark() != m {
			if be, ok := s.Cond.(*ast.BinaryExpr); ok && (be.Op == token.LAND || be.Op == token.LOR) {
				return "", c.errf(s.Cond, "read under a short-circuit operator")
			}
		}
		var els []ast.Stmt
		switch e := s.Else.(type) {
		case nil:
		case *ast.BlockStmt:
			els = e.List
		case *ast.IfStmt:
			els = []ast.Stmt{e}
		default:
			return "", c.errf(s, "else shape")
		}
		if xlHasReturn(s) {
			// branches continue with the rest of the list (duplicated)
			saved := x.snapshot()
			th, err := x.block(append(append([]ast.Stmt{}, s.Body.List...), l[1:]...), fin, s)
			x.vars = saved
			if err != nil {
				return "", err
			}
			saved = x.snapshot()
			el, err := x.block(append(append([]ast.Stmt{}, els...), l[1:]...), fin, s)
			x.vars = saved
			if err != nil {
				return "", err
			}
			return x.hoist(m, "if ("+cond+") = true then ("+th+") else ("+el+")"), nil
		}
		// join: the outer variables assigned in either branch
		var elsNode ast.Node
		if s.Else != nil {
			elsNode = s.Else
		}
		as := x.assigned(s.Body, elsNode)
		if len(as) == 0 {
			return "", c.errf(s, "if without an effect on the locals")
		}
		tuple := func() (string, error) {
			var ns []string
			for _, o := range as {
				ns = append(ns, x.vars[o])
			}
			if len(ns) == 1 {
				return x.wrap(ns[0]), nil
			}
			return x.wrap("(" + strings.Join(ns, ", ") + ")"), nil
		}
		saved := x.snapshot()
		th, err := x.block(s.Body.List, tuple, s)
		x.vars = saved
		if err != nil {
			return "", err
		}
		saved = x.snapshot()
		el, err := x.block(els, tuple, s)
		x.vars = saved
		if err != nil {
			return "", err
		}
		var tys []string
		for _, o := range as {
			lt, err := c.leanType(s, o.Type())
			if err != nil {
				return "", err
			}
			tys = append(tys, lt)
		}
		r, err := rest()
		if err != nil {
			return "", err
		}
		ite := "if (" + cond + ") = true then (" + th + ") else (" + el + ")"
		var out string
		if len(as) == 1 {
			if x.ext != nil && x.ext.bytes {
				out = "(" + ite + ").bind (fun " + x.vars[as[0]] + " => " + r + ")"
			} else {
				out = "let " + x.vars[as[0]] + " : " + tys[0] + " := " + ite + "; " + r
			}
		} else {
			proj := ""
			for i, o := range as {
				p := "j_"
				for k := 0; k < i; k++ {
					p = p + ".2"
				}
				if i < len(as)-1 {
					p += ".1"
				}
				proj += "let " + x.vars[o] + " : " + tys[i] + " := " + p + "; "
			}
			if x.ext != nil && x.ext.bytes {
				out = "(" + ite + ").bind (fun j_ => " + proj + r + ")"
			} else {
				out = "let j_ : " + strings.Join(tys, " × ") + " := " + ite + "; " + proj + r
			}
		}
		return x.hoist(m, out), nil
	}
	if x.ext != nil && x.ext.bytes {
		if s, ok, err := x.blockBytes(l, fin, at); ok || err != nil {
			return s, err
		}
	}
	return "", c.errf(l[0], "statement outside the fragment")
}

// ---------------------------------------------------------------- loading

// xlFakeTime: package time as far as the fragment needs it (Duration and its unit constants). The
// values are those of the Go specification of package time; the tie theorems additionally compare them
// with the facts read from the compiled package (Facts.c19Millisecond).
func xlFakeTime() *types.Package {
	p := types.NewPackage("time", "time")
	tn := types.NewTypeName(token.NoPos, p, "Duration", nil)
	d := types.NewNamed(tn, types.Typ[types.Int64], nil)
	p.Scope().Insert(tn)
	for _, u := range []struct {
		n string
		v int64
	}{{"Nanosecond", 1}, {"Microsecond", 1e3}, {"Millisecond", 1e6}, {"Second", 1e9}, {"Minute", 60e9}, {"Hour", 3600e9}} {
		p.Scope().Insert(types.NewConst(token.NoPos, p, u.n, d, constant.MakeInt64(u.v)))
	}
	p.MarkComplete()
	return p
}

type xlDep struct {
	path  string
	files []string
}

// xlLoad type-checks `files` (one package) with the fake importer, after the listed dependencies were
// type-checked from THEIR current source and registered under their import path.
func xlLoad(repo string, sp *xlSpec, deps []xlDep) (*xlCtx, error) {
	fset := token.NewFileSet()
	imp := &xlFake{m: map[string]*types.Package{"time": xlFakeTime()}}
	check := func(files []string, path string, info *types.Info) ([]*ast.File, *types.Package, error) {
		var afs []*ast.File
		for _, rel := range files {
			af, err := parser.ParseFile(fset, repo+"/"+rel, nil, 0)
			if err != nil {
				return nil, nil, fmt.Errorf("xlate: %v", err)
			}
			afs = append(afs, af)
		}
		conf := types.Config{Importer: imp, Error: func(error) {}, FakeImportC: true}
		pk, _ := conf.Check(path, fset, afs, info)
		return afs, pk, nil
	}
	for _, d := range deps {
		_, pk, err := check(d.files, d.path, nil)
		if err != nil {
			return nil, err
		}
		if pk != nil {
			imp.m[d.path] = pk
		}
	}
	info := &types.Info{Types: map[ast.Expr]types.TypeAndValue{}, Defs: map[*ast.Ident]types.Object{}, Uses: map[*ast.Ident]types.Object{}}
	afs, _, err := check(sp.files, sp.pkg, info)
	if err != nil {
		return nil, err
	}
	c := &xlCtx{fset: fset, info: info, spec: sp, decls: map[string]*ast.FuncDecl{}, listed: map[string]bool{}}
	for _, af := range afs {
		for _, d := range af.Decls {
			if fd, ok := d.(*ast.FuncDecl); ok && fd.Body != nil && xlRecvName(fd) == sp.recv {
				c.decls[fd.Name.Name] = fd
			}
		}
	}
	return c, nil
}

// ---------------------------------------------------------------- spec forms of part 2

type xlSeg struct {
	name     string // fact name
	spec     xlSpec
	deps     []xlDep
	fn       string
	from     string // "" = first statement
	until    string // "" = end of the body (the function's own returns give the value)
	result   string // with `until`: the local whose value the segment yields
	calls    []string
	fields   bool
	bytes    bool
	skipRecv bool // struct receiver that the body does not use
}

var xlSegs = []xlSeg{
	// C19: the delay arithmetic of (*Session).wait: from `w := s.sleep` to the arming of the ticker.
	{name: "x_c2_Session_wait_delay", spec: xlSpec{pkg: "c2", files: []string{"c2/session.go", "c2/session_no_implant.go"}, recv: "Session"},
		deps: []xlDep{{"github.com/iDigitalFlame/xmt/util", []string{"util/rand.go", "util/rand_fast.go"}}},
		fn:   "wait", from: "w := s.sleep", until: "if s.tick == nil", result: "w", fields: true,
		calls: []string{"util.FastRandN", "util.FastRand", "util.Rand.Int63n"}},
	// the guard in front of it: `if s.sleep < 1 { return }` is compared as a fact (c19SleepBelow) by C19.
	// util: the PRNG helpers the delay uses (runtime.fastrand is the parameter)
	{name: "x_util_FastRandN", spec: xlSpec{pkg: "util", files: []string{"util/rand.go", "util/rand_fast.go"}},
		fn: "FastRandN", calls: []string{"fastRand"}},
	{name: "x_util_abs64", spec: xlSpec{pkg: "util", files: []string{"util/rand.go", "util/rand_fast.go"}}, fn: "abs64"},
	{name: "x_util_random_Uint64", spec: xlSpec{pkg: "util", files: []string{"util/rand.go", "util/rand_fast.go"}, recv: "random"},
		fn: "Uint64", calls: []string{"FastRand"}, skipRecv: true},
	// C08/C09: the stride function of the profile parser, whole body (switch on the tag, both loops).
	// Option: none = an index out of range (panic); the Int is Go's result, -1 included.
	{name: "x_cfg_Config_next", spec: xlSpec{pkg: "cfg", files: []string{"c2/cfg/convert.go", "c2/cfg/config.go", "c2/cfg/setting.go",
		"c2/cfg/wrap.go", "c2/cfg/transform.go", "c2/cfg/connect.go", "c2/cfg/group.go", "c2/cfg/workhours.go"}, recv: "Config"}, fn: "next", bytes: true},
}

func init() {
	factProviders = append(factProviders, func(f *factSet, repo string) error {
		for i := range xlSegs {
			if err := xlateSeg(f, repo, &xlSegs[i]); err != nil {
				return err
			}
		}
		return nil
	})
}

func xlateSeg(f *factSet, repo string, sg *xlSeg) error {
	c, err := xlLoad(repo, &sg.spec, sg.deps)
	if err != nil {
		return err
	}
	fail := func(e error) error {
		f.Raw(sg.name+"_unsupported", "String", xlLeanString(e.Error()))
		if sg.bytes {
			// the driver op must keep building when the definition is gone (xmtmodel is shared by all properties)
			f.Raw(sg.name+"_run", "List UInt8 → Int → String", "fun _ _ => \"unsupported\"")
		}
		return nil
	}
	fd := c.decls[sg.fn]
	if fd == nil {
		return fail(fmt.Errorf("function %s not found in %s", sg.fn, strings.Join(sg.spec.files, ",")))
	}
	x := &xlFn{c: c, vars: map[types.Object]string{}, ext: &xlExt{fields: sg.fields, bytes: sg.bytes, calls: map[string]bool{}, fieldIx: map[string]string{}}}
	for _, n := range sg.calls {
		x.ext.calls[n] = true
	}
	t := &xlTerm{}
	if fd.Recv != nil && len(fd.Recv.List) == 1 && !sg.skipRecv {
		fl := fd.Recv.List[0]
		if len(fl.Names) != 1 {
			return fail(c.errf(fd.Name, "unnamed receiver"))
		}
		obj := c.info.Defs[fl.Names[0]]
		if obj == nil {
			return fail(c.errf(fd.Name, "receiver without an object"))
		}
		x.recv = obj
		x.vars[obj] = xlIdent(fl.Names[0].Name)
		if _, ok := obj.Type().(*types.Pointer); ok {
			x.recvPtr = true
		}
		if sg.bytes {
			t.params = append(t.params, x.vars[obj])
			t.ptypes = append(t.ptypes, "List UInt8")
		}
	} else if fd.Recv != nil && sg.skipRecv {
		for _, fl := range fd.Recv.List {
			for _, nm := range fl.Names {
				used := false
				ast.Inspect(fd.Body, func(n ast.Node) bool {
					if id, ok := n.(*ast.Ident); ok && c.info.Uses[id] == c.info.Defs[nm] && c.info.Defs[nm] != nil {
						used = true
					}
					return true
				})
				if used {
					return fail(c.errf(nm, "receiver used"))
				}
			}
		}
	}
	stmts := fd.Body.List
	if sg.until != "" {
		lo, hi := -1, -1
		for i, s := range stmts {
			txt := c.text(s)
			if lo < 0 && (sg.from == "" || strings.HasPrefix(txt, sg.from)) {
				lo = i
				continue
			}
			if lo >= 0 && strings.HasPrefix(txt, sg.until) {
				hi = i
				break
			}
		}
		if lo < 0 || hi < 0 {
			return fail(fmt.Errorf("segment markers `%s` .. `%s` not found in %s", sg.from, sg.until, sg.fn))
		}
		stmts = stmts[lo:hi]
		x.ext.noReturn = true
	} else {
		for _, fl := range fd.Type.Params.List {
			if len(fl.Names) == 0 {
				return fail(c.errf(fl.Type, "unnamed parameter"))
			}
			for _, nm := range fl.Names {
				obj := c.info.Defs[nm]
				if obj == nil {
					return fail(c.errf(nm, "parameter without an object"))
				}
				lt, err := c.leanType(nm, obj.Type())
				if err != nil {
					return fail(err)
				}
				x.vars[obj] = xlIdent(nm.Name)
				t.params = append(t.params, x.vars[obj])
				t.ptypes = append(t.ptypes, lt)
			}
		}
	}
	var parts []string
	for _, s := range stmts {
		parts = append(parts, c.text(s))
	}
	f.Raw(sg.name+"_src", "String", xlLeanString(strings.Join(parts, "; ")))
	var fin func() (string, error)
	if sg.until != "" {
		fin = func() (string, error) {
			for o, n := range x.vars {
				if n == sg.result && o != x.recv {
					lt, err := c.leanType(stmts[0], o.Type())
					if err != nil {
						return "", err
					}
					t.ret = lt
					return x.wrap(n), nil
				}
			}
			return "", c.errf(stmts[len(stmts)-1], "result variable %s not bound at the end of the segment", sg.result)
		}
	} else {
		if fd.Type.Results == nil || len(fd.Type.Results.List) != 1 || len(fd.Type.Results.List[0].Names) > 1 {
			return fail(c.errf(fd.Name, "result shape"))
		}
		rtv, ok := c.info.Types[fd.Type.Results.List[0].Type]
		if !ok {
			return fail(c.errf(fd.Name, "result without a type"))
		}
		lt, err := c.leanType(fd.Name, rtv.Type)
		if err != nil {
			return fail(err)
		}
		t.ret = lt
		x.ext.retTy = lt
		fin = func() (string, error) { return "", c.errf(fd.Name, "control reaches the end without a value") }
	}
	body, err := x.block(stmts, fin, fd)
	if err != nil {
		return fail(err)
	}
	if sg.bytes {
		t.ret = "Option " + t.ret
	}
	t.params = append(t.params, x.ext.params...)
	t.ptypes = append(t.ptypes, x.ext.ptypes...)
	term := body
	if len(t.params) > 0 {
		term = "fun " + strings.Join(t.params, " ") + " => " + body
	}
	f.Raw(sg.name, t.leanSig(), term)
	if sg.bytes && len(t.params) == 2 {
		// what the driver prints (self-contained: the order of the definitions in Facts.lean does not matter)
		f.Raw(sg.name+"_run", "List UInt8 → Int → String", "fun c_ i_ => match ("+term+") c_ i_ with | none => \"panic\" | some r_ => toString r_")
	}
	f.Raw(sg.name+"_params", "List String", "["+strings.Join(xlQuoteAll(t.params), ", ")+"]")
	return nil
}

func xlQuoteAll(l []string) []string {
	var o []string
	for _, s := range l {
		o = append(o, xlLeanString(s))
	}
	return o
}

// blockBytes: the statements only cfg.Config.next needs (switch on a tag, bounded for loops); see part 3.
func (x *xlFn) blockBytes(l []ast.Stmt, fin func() (string, error), at ast.Node) (string, bool, error) {
	c := x.c
	switch s := l[0].(type) {
	case *ast.SwitchStmt:
		// switch tag { case a, b: [fallthrough | body] .. }; every body continues with the statements after
		// the switch (duplicated), exactly as for an if with a return inside
		if s.Init != nil || s.Tag == nil {
			return "", true, c.errf(s, "switch shape")
		}
		ttv := c.info.Types[s.Tag]
		tlt, err := c.leanType(s.Tag, ttv.Type)
		if err != nil {
			return "", true, err
		}
		m := x.mark()
		tag, err := x.expr(s.Tag)
		if err != nil {
			return "", true, err
		}
		type arm struct {
			labels []string
			body   []ast.Stmt
		}
		var arms []arm
		var pending []string
		var deflt []ast.Stmt
		hasDefault := false
		for _, cs := range s.Body.List {
			cc, ok := cs.(*ast.CaseClause)
			if !ok {
				return "", true, c.errf(cs, "switch body")
			}
			if cc.List == nil {
				if len(pending) > 0 {
					return "", true, c.errf(cc, "fallthrough into default")
				}
				hasDefault = true
				deflt = cc.Body
				continue
			}
			if hasDefault {
				return "", true, c.errf(cc, "case after default")
			}
			for _, le := range cc.List {
				ltv := c.info.Types[le]
				if ltv.Value == nil {
					return "", true, c.errf(le, "non-constant case label")
				}
				ls, err := x.constant(le, ltv)
				if err != nil {
					return "", true, err
				}
				pending = append(pending, ls)
			}
			if len(cc.Body) == 1 {
				if br, ok := cc.Body[0].(*ast.BranchStmt); ok && br.Tok == token.FALLTHROUGH {
					continue // the labels join the next clause
				}
			}
			for _, b := range cc.Body {
				bad := false
				ast.Inspect(b, func(n ast.Node) bool {
					if br, ok := n.(*ast.BranchStmt); ok && (br.Tok == token.FALLTHROUGH || br.Tok == token.BREAK) {
						bad = true
					}
					if _, ok := n.(*ast.ForStmt); ok { // break/continue inside a loop are judged there
						return false
					}
					return true
				})
				if bad {
					return "", true, c.errf(b, "break or fallthrough inside a case body")
				}
			}
			arms = append(arms, arm{pending, cc.Body})
			pending = nil
		}
		if len(pending) > 0 {
			return "", true, c.errf(s, "trailing fallthrough")
		}
		tn := fmt.Sprintf("t%d_", x.ext.nloop)
		x.ext.nloop++
		saved := x.snapshot()
		out, err := x.block(append(append([]ast.Stmt{}, deflt...), l[1:]...), fin, s)
		x.vars = saved
		if err != nil {
			return "", true, err
		}
		for i := len(arms) - 1; i >= 0; i-- {
			var conds []string
			for _, lb := range arms[i].labels {
				conds = append(conds, "(decide ("+tn+" = "+lb+"))")
			}
			saved := x.snapshot()
			b, err := x.block(append(append([]ast.Stmt{}, arms[i].body...), l[1:]...), fin, s)
			x.vars = saved
			if err != nil {
				return "", true, err
			}
			out = "if (" + strings.Join(conds, " || ") + ") = true then (" + b + ") else (" + out + ")"
		}
		return x.hoist(m, "let "+tn+" : "+tlt+" := "+tag+"; "+out), true, nil
	case *ast.ForStmt:
		// for x := e; x > 0 && ..; x-- { body }   with x not assigned in the body, no break/continue:
		// at most toNat(x) iterations (the first conjunct fails afterwards), so the loop is a fold over
		// that many steps; a step whose condition is false leaves the state unchanged.
		init, ok := s.Init.(*ast.AssignStmt)
		if !ok || init.Tok != token.DEFINE || len(init.Lhs) != 1 || len(init.Rhs) != 1 {
			return "", true, c.errf(s, "loop init shape")
		}
		xid, ok := init.Lhs[0].(*ast.Ident)
		if !ok {
			return "", true, c.errf(s, "loop init shape")
		}
		xobj := c.info.Defs[xid]
		post, ok := s.Post.(*ast.IncDecStmt)
		if !ok || post.Tok != token.DEC || xobj == nil {
			return "", true, c.errf(s, "loop post statement is not x--")
		}
		if pid, ok := post.X.(*ast.Ident); !ok || c.info.Uses[pid] != xobj {
			return "", true, c.errf(s, "loop post statement is not x--")
		}
		if _, sg, err := c.ityp(xid, xobj.Type()); err != nil || !sg {
			return "", true, c.errf(s, "loop counter that is not a signed integer")
		}
		first := s.Cond
		for {
			be, ok := first.(*ast.BinaryExpr)
			if ok && be.Op == token.LAND {
				first = be.X
				continue
			}
			break
		}
		fb, ok := first.(*ast.BinaryExpr)
		if !ok || fb.Op != token.GTR {
			return "", true, c.errf(s.Cond, "loop condition does not start with x > 0")
		}
		if fid, ok := fb.X.(*ast.Ident); !ok || c.info.Uses[fid] != xobj {
			return "", true, c.errf(s.Cond, "loop condition does not start with x > 0")
		}
		if ytv := c.info.Types[fb.Y]; ytv.Value == nil || constant.Sign(ytv.Value) != 0 {
			return "", true, c.errf(s.Cond, "loop condition does not start with x > 0")
		}
		bad := false
		ast.Inspect(s.Body, func(n ast.Node) bool {
			switch n := n.(type) {
			case *ast.BranchStmt, *ast.ForStmt, *ast.RangeStmt, *ast.SwitchStmt:
				bad = true
			case *ast.AssignStmt:
				for _, lh := range n.Lhs {
					if id, ok := lh.(*ast.Ident); ok && (c.info.Uses[id] == xobj || c.info.Defs[id] == xobj) {
						bad = true
					}
				}
			case *ast.IncDecStmt:
				if id, ok := n.X.(*ast.Ident); ok && c.info.Uses[id] == xobj {
					bad = true
				}
			}
			return true
		})
		if bad {
			return "", true, c.errf(s.Body, "loop body assigns the counter or branches")
		}
		if x.visible(xlIdent(xid.Name)) {
			return "", true, c.errf(init, "declaration that shadows a visible name")
		}
		if x.ext.retf != nil {
			return "", true, c.errf(s, "nested loop")
		}
		m := x.mark()
		ini, err := x.expr(init.Rhs[0])
		if err != nil {
			return "", true, err
		}
		outer := x.assigned(s.Body)
		saved := x.snapshot()
		xn := xlIdent(xid.Name)
		x.vars[xobj] = xn
		names := []string{xn}
		tys := []string{"Int"}
		for _, o := range outer {
			lt, err := c.leanType(s, o.Type())
			if err != nil {
				return "", true, err
			}
			names = append(names, x.vars[o])
			tys = append(tys, lt)
		}
		pat := "(" + strings.Join(names, ", ") + ")"
		pat2 := "(" + strings.Join(append([]string{"_"}, names[1:]...), ", ") + ")" // after the loop the counter is out of scope
		sty := strings.Join(tys, " × ")
		rty := x.ext.retTy
		full := "Option (Sum " + rty + " (" + sty + "))"
		cm := x.mark()
		cond, err := x.expr(s.Cond)
		if err != nil {
			return "", true, err
		}
		if x.mark() != cm {
			return "", true, c.errf(s.Cond, "read in a loop condition")
		}
		x.ext.retf = func(v string) string { return "some (Sum.inl (" + v + "))" }
		stepFin := func() (string, error) { return "some (Sum.inr " + pat + ")", nil }
		body, err := x.block(append(append([]ast.Stmt{}, s.Body.List...), s.Post), stepFin, s)
		x.ext.retf = nil
		if err != nil {
			return "", true, err
		}
		x.vars = saved
		// after the loop: the counter is out of scope, the outer variables carry their final values
		r, err := x.block(l[1:], fin, s)
		if err != nil {
			return "", true, err
		}
		step := "fun (st_ : " + full + ") (_ : Unit) => st_.bind (fun s_ => match s_ with | Sum.inl r_ => some (Sum.inl r_) | Sum.inr " + pat +
			" => if (" + cond + ") = true then (" + body + ") else (some (Sum.inr " + pat + ")))"
		loop := "let " + xn + " : Int := " + ini + "; match (List.foldl (" + step + ") (some (Sum.inr " + pat + ")) (List.replicate (Int.toNat " + xn +
			") ())) with | none => none | some (Sum.inl r_) => " + x.wrap("r_") + " | some (Sum.inr " + pat2 + ") => (" + r + ")"
		return x.hoist(m, loop), true, nil
	}
	return "", false, nil
}

// ---------------------------------------------------------------- harness group (C09): the regenerated
// definition of Config.next evaluated by the Lean driver (op `xnext`) against the REAL Config.next

func xlNextReal(raw cfg.Config, i int) (out string) {
	defer func() {
		if recover() != nil {
			out = "panic"
		}
	}()
	return strconv.Itoa(cfg.VerifNext(raw, i))
}

// runXlate2C09: every tag of the alphabet followed by short tails from small-value and random pools,
// every offset from -1 to len+1. Panics of the real function (index out of range) are the answer
// "panic"; the model side is Facts.x_cfg_Config_next (none = panic).
func runXlate2C09(c *Ctx) {
	alpha := cfgAlphabet()
	c.Cases("xnext", c.N(260, 2600), func(r *Rng, k int) {
		n := r.Intn(14)
		buf := make([]byte, 0, 1+n)
		buf = append(buf, alpha[k%len(alpha)])
		for j := 0; j < n; j++ {
			switch r.Intn(4) {
			case 0:
				buf = append(buf, 0)
			case 1:
				buf = append(buf, byte(r.Intn(4)))
			case 2:
				buf = append(buf, alpha[r.Intn(len(alpha))])
			default:
				buf = append(buf, byte(r.Intn(256)))
			}
		}
		raw := exact(buf)
		for i := -1; i <= len(raw)+1; i++ {
			ans := xlNextReal(raw, i)
			c.Op("xnext "+hx(raw)+" "+strconv.Itoa(i), ans)
			c.Count("xnext:" + map[bool]string{true: "panic", false: "value"}[ans == "panic"])
		}
		c.Eval(len(raw) >= 2, hx(raw))
	})
}
