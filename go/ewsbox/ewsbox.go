// Package ewsbox has no model code of its own: on every build lib/vcheck.py mounts (go build
// -overlay) a copy of the CURRENT /repo/c2/x_ews.go into this directory as x_ews.go, with the
// package clause renamed, the build constraint (`ews && implant`) removed and util.FastRand()
// replaced by verifRand() (lib/props/C17.json "rewrites", entry with "mount"). The type `container`
// used below is therefore the repository's own code of the ews build variant, which the default
// harness build (no `ews`/`implant` tags) otherwise never compiles.
package ewsbox

import "github.com/iDigitalFlame/xmt/util"

// Rand, when set, supplies the next PRNG word for Wrap (scripted draws); otherwise the real PRNG.
var Rand func() uint32

func verifRand() uint32 {
	if Rand != nil {
		return Rand()
	}
	return util.FastRand()
}

// Box is the exported face of `container`.
type Box struct{ c container }

func (b *Box) Set(s string)   { b.c.Set(s) }
func (b *Box) Wrap()          { b.c.Wrap() }
func (b *Box) Unwrap()        { b.c.Unwrap() }
func (b *Box) String() string { return string([]byte(b.c.String())) } // copy: the original aliases the buffer
