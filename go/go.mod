module verifharness

go 1.18

require github.com/iDigitalFlame/xmt v0.0.0

replace github.com/iDigitalFlame/xmt => /repo
