module verifharness

go 1.18

require (
	github.com/PurpleSec/logx v1.6.1
	github.com/iDigitalFlame/xmt v0.0.0
)

require github.com/PurpleSec/escape v1.0.0 // indirect

replace github.com/iDigitalFlame/xmt => /repo
