//go:build verif

package cfg

import (
	"crypto/cipher"
	"crypto/tls"
	"encoding/hex"
	"sort"
	"strconv"
	"strings"

	"github.com/iDigitalFlame/xmt/c2/transform"
	"github.com/iDigitalFlame/xmt/c2/wrapper"
	"github.com/iDigitalFlame/xmt/com"
	"github.com/iDigitalFlame/xmt/com/pipe"
	"github.com/iDigitalFlame/xmt/com/wc2"
	"github.com/iDigitalFlame/xmt/util/text"
)

// Verification harness hooks for C08/C09 (never part of a normal build).

// VerifTag is one setting tag constant of this package (name as in the source).
type VerifTag struct {
	Name string
	V    byte
}

// VerifTags lists every cBit constant so that the Lean model's constants are regenerated from
// the compiled package.
var VerifTags = []VerifTag{
	{"invalid", byte(invalid)}, {"Separator", byte(Separator)},
	{"valHost", byte(valHost)}, {"valSleep", byte(valSleep)}, {"valJitter", byte(valJitter)},
	{"valWeight", byte(valWeight)}, {"valKeyPin", byte(valKeyPin)}, {"valKillDate", byte(valKillDate)},
	{"valWorkHours", byte(valWorkHours)},
	{"SelectorLastValid", byte(SelectorLastValid)}, {"SelectorRoundRobin", byte(SelectorRoundRobin)},
	{"SelectorRandom", byte(SelectorRandom)}, {"SelectorSemiRoundRobin", byte(SelectorSemiRoundRobin)},
	{"SelectorSemiRandom", byte(SelectorSemiRandom)}, {"SelectorSemiLastValid", byte(SelectorSemiLastValid)},
	{"valSelectorPercent", byte(valSelectorPercent)}, {"valSelectorPercentRoundRobin", byte(valSelectorPercentRoundRobin)},
	{"ConnectTCP", byte(ConnectTCP)}, {"ConnectTLS", byte(ConnectTLS)}, {"ConnectUDP", byte(ConnectUDP)},
	{"ConnectICMP", byte(ConnectICMP)}, {"ConnectPipe", byte(ConnectPipe)}, {"ConnectTLSNoVerify", byte(ConnectTLSNoVerify)},
	{"valIP", byte(valIP)}, {"valWC2", byte(valWC2)}, {"valTLSx", byte(valTLSx)}, {"valMuTLS", byte(valMuTLS)},
	{"valTLSxCA", byte(valTLSxCA)}, {"valTLSCert", byte(valTLSCert)},
	{"WrapHex", byte(WrapHex)}, {"WrapZlib", byte(WrapZlib)}, {"WrapGzip", byte(WrapGzip)}, {"WrapBase64", byte(WrapBase64)},
	{"valXOR", byte(valXOR)}, {"valCBK", byte(valCBK)}, {"valAES", byte(valAES)},
	{"TransformB64", byte(TransformB64)}, {"valDNS", byte(valDNS)}, {"valB64Shift", byte(valB64Shift)},
}

// VerifRaw turns the bytes of one constructed setting back into a Setting.
func VerifRaw(b []byte) Setting {
	c := cBytes(append([]byte(nil), b...))
	return &c
}

// VerifNext exposes Config.next.
func VerifNext(c Config, i int) int { return c.next(i) }

// VerifTLSCall is one call of com.NewTLSConfig made by Config.build.
type VerifTLSCall struct {
	Mu           bool
	Ver          uint16
	CA, PEM, Key []byte
	OK           bool
}

// VerifTLSLog receives every NewTLSConfig call made while building (nil = off).
var VerifTLSLog func(VerifTLSCall)

var verifAes = map[cipher.Block][]byte{}

// VerifReset forgets the AES keys remembered for VerifDump.
func VerifReset() { verifAes = map[cipher.Block][]byte{} }

func verifTLS(mu bool, ver uint16, ca, pem, key []byte) (*tls.Config, error) {
	t, err := com.NewTLSConfig(mu, ver, ca, pem, key)
	if VerifTLSLog != nil {
		cp := func(b []byte) []byte { return append([]byte(nil), b...) }
		VerifTLSLog(VerifTLSCall{Mu: mu, Ver: ver, CA: cp(ca), PEM: cp(pem), Key: cp(key), OK: err == nil})
	}
	return t, err
}
func verifNewAes(f func([]byte) (cipher.Block, error), k []byte) (cipher.Block, error) {
	b, err := f(k)
	if err == nil && len(verifAes) < 4096 {
		verifAes[b] = append([]byte(nil), k...)
	}
	return b, err
}

func verifHexList(l []string) string {
	s := make([]string, len(l))
	for i := range l {
		s[i] = verifHx([]byte(l[i]))
	}
	return strings.Join(s, ",")
}
func verifHx(b []byte) string {
	if len(b) == 0 {
		return "-"
	}
	return hex.EncodeToString(b)
}
func verifStr(s wc2.Stringer) string {
	if s == nil {
		return "-"
	}
	if m, ok := s.(text.Matcher); ok {
		return verifHx([]byte(m))
	}
	return "?"
}
func verifConn(c interface{}) string {
	if c == nil {
		return "-"
	}
	switch v := c.(type) {
	case pipe.Piper:
		if v == pipe.Pipe {
			return "pipe"
		}
		return "pipe-other"
	case *wc2.Client:
		var h []string
		for k, x := range v.Target.Headers {
			h = append(h, verifHx([]byte(k))+":"+verifStr(x))
		}
		sort.Strings(h)
		return "wc2(url=" + verifStr(v.Target.URL) + ",host=" + verifStr(v.Target.Host) + ",agent=" + verifStr(v.Target.Agent) + ",hdr=" + strings.Join(h, "/") + ")"
	}
	if s := com.VerifConn(c); len(s) > 0 {
		return s
	}
	return "?"
}
func verifWrapOne(w Wrapper) string {
	s, b, iv := wrapper.VerifWrap(w)
	if s == "aes" {
		k, ok := verifAes[b]
		if !ok {
			return "aes(?," + verifHx(iv) + ")"
		}
		return "aes(" + verifHx(k) + "," + verifHx(iv) + ")"
	}
	if len(s) == 0 {
		return "?"
	}
	return s
}
func verifWrap(w Wrapper) string {
	if w == nil {
		return "-"
	}
	if m, ok := w.(MultiWrapper); ok {
		s := make([]string, len(m))
		for i := range m {
			s[i] = verifWrapOne(m[i])
		}
		return strings.Join(s, "+")
	}
	return verifWrapOne(w)
}
func verifTrans(t Transform) string {
	if t == nil {
		return "-"
	}
	switch v := t.(type) {
	case transform.B64:
		return "b64s(" + strconv.Itoa(int(v)) + ")"
	case transform.DNSTransform:
		return "dns(" + verifHexList([]string(v)) + ")"
	}
	return "?"
}
func (p *profile) verifDump() string {
	var b strings.Builder
	b.WriteString("P{hosts=" + verifHexList(p.hosts))
	b.WriteString(";sleep=" + strconv.FormatInt(int64(p.sleep), 10))
	b.WriteString(";jit=" + strconv.Itoa(int(p.jitter)))
	if !p.kds {
		b.WriteString(";kill=-")
	} else {
		b.WriteString(";kill=" + strconv.FormatInt(p.kill.Unix(), 10)) // the zero time prints as -62135596800
	}
	if p.work == nil {
		b.WriteString(";work=-")
	} else {
		w := p.work
		b.WriteString(";work=" + strconv.Itoa(int(w.Days)) + "." + strconv.Itoa(int(w.StartHour)) + "." + strconv.Itoa(int(w.StartMin)) + "." + strconv.Itoa(int(w.EndHour)) + "." + strconv.Itoa(int(w.EndMin)))
	}
	k := make([]string, len(p.keys))
	for i := range p.keys {
		k[i] = strconv.FormatUint(uint64(p.keys[i]), 10)
	}
	b.WriteString(";keys=" + strings.Join(k, ","))
	b.WriteString(";w=" + strconv.Itoa(int(p.weight)))
	b.WriteString(";conn=" + verifConn(p.conn))
	b.WriteString(";wrap=" + verifWrap(p.w))
	b.WriteString(";t=" + verifTrans(p.t) + "}")
	return b.String()
}

// VerifBuilt is the canonical description of what Build returned: Kind "nil", "profile" or
// "group"; every field of every entry in the real (sorted) order; the selector; the retained source.
type VerifBuilt struct {
	Kind    string
	Sel     int
	Entries []string
	Weights []int
	Src     []byte
}

// VerifDump describes a built Profile.
func VerifDump(p Profile) VerifBuilt {
	switch v := p.(type) {
	case nil:
		return VerifBuilt{Kind: "nil"}
	case *profile:
		if v == nil {
			return VerifBuilt{Kind: "nil"}
		}
		return VerifBuilt{Kind: "profile", Entries: []string{v.verifDump()}, Weights: []int{int(v.weight)}, Src: v.src}
	case *Group:
		r := VerifBuilt{Kind: "group", Sel: int(v.sel), Src: v.src}
		for i := range v.entries {
			r.Entries, r.Weights = append(r.Entries, v.entries[i].verifDump()), append(r.Weights, int(v.entries[i].weight))
		}
		return r
	}
	return VerifBuilt{Kind: "?"}
}
