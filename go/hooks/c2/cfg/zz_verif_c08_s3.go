//go:build verif

package cfg

import (
	"strconv"
)

// VerifGroupAccessC08 makes every entry of a built *Group the active one in turn and compares what
// the PUBLIC accessors of the Group (Sleep, Jitter, KillDate, WorkHours) report with the fields of
// that entry (which the meaning oracle already compared with the supplied settings). It returns one
// line per disagreement: "<accessor>#<entry index>: got … want …". The active entry is restored.
func VerifGroupAccessC08(p Profile) (bad []string) {
	g, ok := p.(*Group)
	if !ok || g == nil {
		return nil
	}
	saved := g.cur
	defer func() { g.cur = saved }()
	for i, e := range g.entries {
		g.cur = e
		at := "#" + strconv.Itoa(i)
		if v := g.Sleep(); v != e.sleep {
			bad = append(bad, "Sleep"+at+": got "+strconv.FormatInt(int64(v), 10)+" want "+strconv.FormatInt(int64(e.sleep), 10))
		}
		if v := g.Jitter(); v != e.jitter {
			bad = append(bad, "Jitter"+at+": got "+strconv.Itoa(int(v))+" want "+strconv.Itoa(int(e.jitter)))
		}
		if t, k := g.KillDate(); k != e.kds || !t.Equal(e.kill) {
			bad = append(bad, "KillDate"+at+": got ("+strconv.FormatInt(t.Unix(), 10)+","+strconv.FormatBool(k)+") want ("+strconv.FormatInt(e.kill.Unix(), 10)+","+strconv.FormatBool(e.kds)+")")
		}
		if w := g.WorkHours(); w != e.work {
			bad = append(bad, "WorkHours"+at+": differs from the entry's own rule")
		}
	}
	return bad
}
