//go:build verif

package cfg

import "time"

// Verification shims for property C17 (profile groups). Mounted by -overlay, never part of a
// normal build.  The companion text rewrite (lib/props/C17.json "rewrites") turns every
// `util.FastRandN(x)` inside group.go into `verifRandN(util.FastRandN, x)`.

// VerifRandC17, when set, supplies the raw 32-bit PRNG word for the next FastRandN call made by
// group.go; the reduction to [0,n) is the one of util.FastRandN.  When nil (or when it reports
// !ok) the real PRNG is used.
var VerifRandC17 func() (uint32, bool)

// VerifRandCallsC17 counts FastRandN calls made by group.go (scripted or not).
var VerifRandCallsC17 int

func verifRandN(f func(int) uint32, n int) uint32 {
	VerifRandCallsC17++
	if VerifRandC17 != nil {
		if r, ok := VerifRandC17(); ok {
			return uint32(uint64(r) * uint64(n) >> 32)
		}
	}
	return f(n)
}

// VerifGroupC17 exposes the state of a built *Group: selector id, per entry (in the Group's own
// order) the weight and the host list, and the index of the active entry (-1 = not yet set,
// -2 = set to something that is not one of the entries).
func VerifGroupC17(p Profile) (ok bool, sel uint8, weights []uint8, hosts [][]string, cur int) {
	g, k := p.(*Group)
	if !k {
		return false, 0, nil, nil, -1
	}
	cur = -1
	if g.cur != nil {
		cur = -2
	}
	for i, e := range g.entries {
		weights = append(weights, e.weight)
		hosts = append(hosts, append([]string(nil), e.hosts...))
		if e == g.cur {
			cur = i
		}
	}
	return true, g.sel, weights, hosts, cur
}

// VerifGroupSleepsC17 returns the sleep value of every entry (in the Group's own order).
func VerifGroupSleepsC17(p Profile) []time.Duration {
	g, k := p.(*Group)
	if !k {
		return nil
	}
	var r []time.Duration
	for _, e := range g.entries {
		r = append(r, e.sleep)
	}
	return r
}

// VerifSingleC17 exposes weight and hosts of a single (non-group) built profile.
func VerifSingleC17(p Profile) (ok bool, weight uint8, hosts []string) {
	s, k := p.(*profile)
	if !k {
		return false, 0, nil
	}
	return true, s.weight, append([]string(nil), s.hosts...)
}
