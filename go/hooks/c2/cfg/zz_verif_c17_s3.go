//go:build verif

package cfg

// Hooks for property C17, extension s3.

// VerifSetConnC17 replaces the connection hint (`conn`) of every entry of a built *Group by what f
// returns for the entry's position in the Group's own order (nil keeps "not a connector"); entries
// for which keep reports true are left untouched.  Everything else of the built entries (hosts,
// wrapper, transform, weight, order) stays what Build produced.
func VerifSetConnC17(p Profile, f func(i int) (conn interface{}, keep bool)) bool {
	g, k := p.(*Group)
	if !k {
		return false
	}
	for i, e := range g.entries {
		if c, keep := f(i); !keep {
			e.conn = c
		}
	}
	return true
}
