//go:build verif

package cfg

import "time"

// VerifNow, when non-nil, is the clock read by WorkHours.Work (and, through VerifClock, by the
// kill-date guards of package c2).  `time.Now()` in workhours.go is redirected to verifNow by the
// C19 overlay rewrite; with the variable unset the behaviour is unchanged.
var VerifNow func() time.Time

func verifNow() time.Time {
	if f := VerifNow; f != nil {
		return f()
	}
	return time.Now()
}

// VerifClock is the injected clock (or time.Now) for other packages' hooks.
func VerifClock() time.Time { return verifNow() }

// VerifSleep, when non-nil, replaces the one blocking time.Sleep of c2.connectContextInner (the
// work-hours wait before the first connection) so that the harness can run it on virtual time.
var VerifSleep func(time.Duration)
