//go:build verif

package result

import "unsafe"

// Element sizes of the slices the result decoders allocate (facts generator, property C04).
const (
	VerifC04SizeofFileInfo  = unsafe.Sizeof(fileInfo{})
	VerifC04SizeofWindow    = unsafe.Sizeof(Window{})
	VerifC04SizeofFuncEntry = unsafe.Sizeof(FuncEntry{})
)
