//go:build verif

package transform

// Constants of the DNS framing for the verification facts.
const (
	VerifDNSMax = dnsMax
	VerifDNSSeg = dnsSeg
)

// VerifDNSPacketCap is the size of the per-packet buffer.
func VerifDNSPacketCap() int { var p dnsPacket; return len(p.b) }

// VerifDNSServer reports / sets the (build-tag selected) dnsServer mode; the harness build mounts a
// copy of z_no_implant.go in which the constant is a variable, so both modes can be exercised.
func VerifDNSServer() bool     { return dnsServer }
func VerifSetDNSServer(v bool) { dnsServer = v }
