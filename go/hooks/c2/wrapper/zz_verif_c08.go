//go:build verif

package wrapper

import (
	"crypto/cipher"
	"encoding/hex"
	"strconv"
)

// VerifWrap describes a Wrapper built by c2/cfg (verification harness only; C08). For a Block
// wrapper the cipher.Block is returned so the caller can map it to the key it was made from.
func VerifWrap(w interface{}) (string, cipher.Block, []byte) {
	switch v := w.(type) {
	case simple:
		switch v {
		case Hex:
			return "hex", nil, nil
		case Base64:
			return "b64", nil, nil
		}
		return "simple?", nil, nil
	case compress:
		switch v {
		case Zlib:
			return "zlib", nil, nil
		case Gzip:
			return "gzip", nil, nil
		}
		return "compress?", nil, nil
	case XOR:
		return "xor(" + hex.EncodeToString([]byte(v.k)) + ")", nil, nil
	case CBK:
		return "cbk(" + strconv.Itoa(int(v[0])) + "." + strconv.Itoa(int(v[1])) + "." + strconv.Itoa(int(v[2])) + "." + strconv.Itoa(int(v[3])) + "." + strconv.Itoa(int(v[4])) + ")", nil, nil
	case Block:
		return "aes", v.b, v.v
	}
	return "", nil, nil
}
