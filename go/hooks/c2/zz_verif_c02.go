//go:build verif

package c2

// In-package shims for properties C02 (fragmentation) and C03 (batching): build Session values
// without sockets and call the unexported send / receive functions directly.

import (
	"github.com/iDigitalFlame/xmt/com"
	"github.com/iDigitalFlame/xmt/device"
)

const (
	VerifC02FragMaxMisses = fragMaxMisses
	VerifC02FragMax       = fragMax
	VerifC02SvDrop        = SvDrop
	VerifC02SvRegister    = SvRegister
	VerifC02SvComplete    = SvComplete
)

// VerifC02Msgr is a messager that records the packets handed to the handlers.
type VerifC02Msgr struct{ Evs []*com.Packet }

func (m *VerifC02Msgr) close()     {}
func (m *VerifC02Msgr) count() int { return len(m.Evs) }
func (m *VerifC02Msgr) queue(e event) {
	if e.p != nil {
		m.Evs = append(m.Evs, e.p)
	}
}

// VerifC02NewSession builds a Session with a send queue of the given capacity; server = as created
// by a Listener (has a parent and a job table), otherwise a client Session.
func VerifC02NewSession(id device.ID, server bool, sendCap int) (*Session, *VerifC02Msgr) {
	m := &VerifC02Msgr{}
	s := &Session{ID: id, send: make(chan *com.Packet, sendCap), frags: make(map[uint16]*cluster)}
	s.m = m
	s.Device.ID = id
	if server {
		s.parent = &Listener{}
		s.jobs = make(map[uint16]*Job)
	}
	return s, m
}

func (s *Session) VerifC02Write(wait bool, n *com.Packet) error { return s.write(wait, n) }
func (s *Session) VerifC02Queue(n *com.Packet)                  { s.queue(n) }
func (s *Session) VerifC02Receive(n *com.Packet) error          { return receive(s, nil, n) }
func (s *Session) VerifC02Next(i bool) *com.Packet              { return s.next(i) }
func (s *Session) VerifC02Sweep()                               { s.markSweepFrags() }
func (s *Session) VerifC02SetLast(v uint16)                     { s.state.SetLast(v) }
func (s *Session) VerifC02Last() uint16                         { return s.state.Last() }
func (s *Session) VerifC02Peek() *com.Packet                    { return s.peek }
func (s *Session) VerifC02SendLen() int                         { return len(s.send) }

// VerifC02Drain takes everything that is queued for sending.
func (s *Session) VerifC02Drain() []*com.Packet {
	var o []*com.Packet
	for {
		select {
		case n := <-s.send:
			o = append(o, n)
		default:
			return o
		}
	}
}

// VerifC02Groups lists the fragment groups that have reassembly state, with their counters.
func (s *Session) VerifC02Groups() map[uint16][4]int {
	o := make(map[uint16][4]int, len(s.frags))
	for k, v := range s.frags {
		if v == nil {
			o[k] = [4]int{-1, -1, -1, -1}
			continue
		}
		o[k] = [4]int{len(v.data), int(v.max), int(v.e), int(v.c)}
	}
	return o
}

func VerifC02IsNoP(n *com.Packet) bool { return isPacketNoP(n) }
