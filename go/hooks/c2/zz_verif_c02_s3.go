//go:build verif

package c2

// Round s3 of property C02: look at the send channel without changing it.

import "github.com/iDigitalFlame/xmt/com"

// VerifC02S3Snapshot returns what is in the send channel, in order; the channel holds the same
// packets in the same order afterwards (single goroutine: everything is taken out and put back).
func (s *Session) VerifC02S3Snapshot() []*com.Packet {
	var o []*com.Packet
	for {
		select {
		case n := <-s.send:
			o = append(o, n)
			continue
		default:
		}
		break
	}
	for _, n := range o {
		s.send <- n
	}
	return o
}
