//go:build verif

package c2

// In-package shim for property C03 (extension round s3): switch the channel-mode bit of a Session
// built by VerifC02NewSession, so that every arm of (*Session).pick can be reached.

func (s *Session) VerifC03SetChannel(on bool) {
	if on {
		s.state.Set(stateChannel)
	} else {
		s.state.Unset(stateChannel)
	}
}
