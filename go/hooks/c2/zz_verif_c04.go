//go:build verif

package c2

// In-package shims for property C04 (no bytes from the network can crash a listener or make it
// allocate without bound).  Nothing here changes behaviour: the functions forward to the unexported
// decoders / dispatchers under test, and the fake connServer / connHost record the calls the real
// dispatch code makes on them.

import (
	"context"
	"fmt"
	"net"
	"sync"
	"time"
	"unsafe"

	"github.com/iDigitalFlame/xmt/c2/cfg"
	"github.com/iDigitalFlame/xmt/c2/cout"
	"github.com/iDigitalFlame/xmt/com"
	"github.com/iDigitalFlame/xmt/data"
	"github.com/iDigitalFlame/xmt/device"
)

const (
	VerifC04SizeofProxyData = unsafe.Sizeof(proxyData{})
	VerifC04SizeofPacket    = unsafe.Sizeof(com.Packet{})
	VerifC04FragMax         = fragMax
	VerifC04SvDrop          = SvDrop
	VerifC04SvRegister      = SvRegister
	VerifC04SvComplete      = SvComplete
)

// VerifC04ReadProxyData forwards to readProxyData; returns the number of entries decoded.
func VerifC04ReadProxyData(f bool, r data.Reader) (int, error) {
	p, err := readProxyData(f, r)
	return len(p), err
}

// VerifC04ReadPacket forwards to readPacket.
func VerifC04ReadPacket(c net.Conn, w cfg.Wrapper, t cfg.Transform) (*com.Packet, error) {
	return readPacket(c, w, t)
}

// ---- leaf recorder for receive() --------------------------------------------------------------

var verifC04Leaf struct {
	sync.Mutex
	on  bool
	log []string
}

// verifC04Single stands in front of receiveSingle (see the rewrite of c2/vars.go in
// lib/props/C04.json): while a recorder is installed the leaf Packet is recorded instead of being
// handed to the session's system/job handlers; otherwise it is exactly receiveSingle.
func verifC04Single(s *Session, n *com.Packet) {
	verifC04Leaf.Lock()
	if !verifC04Leaf.on {
		verifC04Leaf.Unlock()
		receiveSingle(s, n)
		return
	}
	verifC04Leaf.log = append(verifC04Leaf.log, fmt.Sprintf("L:%d:%d:%d:%d", n.ID, n.Job, uint64(n.Flags), n.Chunk.Size()))
	verifC04Leaf.Unlock()
}

// VerifC04NewSession returns a server-side Session with the maps/channels the Listener gives it.
func VerifC04NewSession(id device.ID) *Session {
	l := &Listener{}
	return &Session{
		ID: id, parent: l, jobs: make(map[uint16]*Job), send: make(chan *com.Packet, 128),
		wake: make(chan struct{}, 1), frags: make(map[uint16]*cluster), ch: make(chan struct{}),
		connection: connection{m: make(eventer, 1024), ctx: context.Background()},
	}
}

// VerifC04Receive runs the real receive(s, s.parent, n) with the leaf recorder installed and returns
// the recorded leaves, the replies queued on the session (ID:flags) and the fragment groups held.
func VerifC04Receive(s *Session, n *com.Packet) (leaves []string, replies []string, groups int, err error) {
	verifC04Leaf.Lock()
	verifC04Leaf.on, verifC04Leaf.log = true, nil
	verifC04Leaf.Unlock()
	defer func() {
		verifC04Leaf.Lock()
		leaves, verifC04Leaf.on, verifC04Leaf.log = verifC04Leaf.log, false, nil
		verifC04Leaf.Unlock()
		for {
			select {
			case p := <-s.send:
				replies = append(replies, fmt.Sprintf("R:%d:%d", p.ID, uint64(p.Flags)))
				continue
			default:
			}
			break
		}
		groups = len(s.frags)
	}()
	err = receive(s, s.parent, n)
	return
}

// VerifC04SessionCrypt applies the Session's payload cipher to n (what the peer of that Session
// does before sending, so that the Session's own decryption yields the bytes written).
func VerifC04SessionCrypt(s *Session, n *com.Packet) { n.KeyCrypt(s.keys) }

// VerifC04Held returns the number of fragments held in reassembly state.
func (s *Session) VerifC04Held() int {
	n := 0
	for _, c := range s.frags {
		n += len(c.data)
	}
	return n
}

// VerifC04Last returns the session's "last dropped group" marker.
func (s *Session) VerifC04Last() uint16 { return s.state.Last() }

// ---- fake connServer / connHost ---------------------------------------------------------------

// VerifC04Host is a connHost that records what the dispatch code does with it.
type VerifC04Host struct {
	ID        device.ID
	Srv       *VerifC04Server
	NextNil   bool
	ChanStart bool // answer of chanStart()
	ch        chan *com.Packet
}

func (h *VerifC04Host) ev(f string, a ...interface{}) { h.Srv.ev(f, a...) }
func (h *VerifC04Host) chanWake()                     {}
func (h *VerifC04Host) name() string                  { return h.ID.String() }
func (h *VerifC04Host) update(string)                 { h.ev("update:%x", h.ID[:2]) }
func (h *VerifC04Host) chanWakeClear()                {}
func (h *VerifC04Host) chanStop() bool                { return false }
func (h *VerifC04Host) stateSet(uint32)               { h.ev("stateSet") }
func (h *VerifC04Host) keyCheckRevert()               {}
func (h *VerifC04Host) chanStart() bool               { return h.ChanStart }
func (h *VerifC04Host) stateUnset(uint32)             {}
func (h *VerifC04Host) chanRunning() bool             { return false }
func (h *VerifC04Host) clientID() device.ID           { return h.ID }
func (h *VerifC04Host) keyCheckSync() error           { return nil }
func (h *VerifC04Host) keyValue() data.KeyPair        { return data.KeyPair{} }
func (h *VerifC04Host) deadlineRead() time.Time       { return time.Time{} }
func (h *VerifC04Host) deadlineWrite() time.Time      { return time.Time{} }
func (h *VerifC04Host) sender() chan *com.Packet {
	if h.ch == nil {
		h.ch = make(chan *com.Packet, 8)
	}
	return h.ch
}
func (h *VerifC04Host) next(i bool) *com.Packet {
	h.ev("next:%x", h.ID[:2])
	if h.NextNil {
		return nil
	}
	return &com.Packet{Device: h.ID}
}

// VerifC04Server is a connServer over a scripted client table.
type VerifC04Server struct {
	Clients map[uint32]*VerifC04Host
	Events  []string
	W       cfg.Wrapper
	T       cfg.Transform
	Talked  []*com.Packet
	// TalkErr makes talk/talkSub fail.
	TalkErr error
	// TalkHost is the host of the conn that talk returns (nil = unregistered client, as
	// Listener.talk answers a non-hello Packet of an unknown device); TalkNextFlags its reply flags.
	TalkHost      *VerifC04Host
	TalkNextFlags com.Flag
	mu            sync.Mutex
}

func (v *VerifC04Server) ev(f string, a ...interface{}) {
	v.mu.Lock()
	v.Events = append(v.Events, fmt.Sprintf(f, a...))
	v.mu.Unlock()
}

// VerifC04Has reports whether an event with the given prefix was recorded.
func (v *VerifC04Server) VerifC04Has(prefix string) bool {
	v.mu.Lock()
	defer v.mu.Unlock()
	for _, e := range v.Events {
		if len(e) >= len(prefix) && e[:len(prefix)] == prefix {
			return true
		}
	}
	return false
}
func (v *VerifC04Server) clientLock()                            {}
func (v *VerifC04Server) clientUnlock()                          {}
func (v *VerifC04Server) prefix() string                         { return "verif" }
func (v *VerifC04Server) clientClear(i uint32)                   { v.ev("clear:%d", i) }
func (v *VerifC04Server) wrapper() cfg.Wrapper                   { return v.W }
func (v *VerifC04Server) keyValue() data.KeyPair                 { return data.KeyPair{} }
func (v *VerifC04Server) transform() cfg.Transform               { return v.T }
func (v *VerifC04Server) clientSet(i uint32, _ chan *com.Packet) { v.ev("set:%d", i) }
func (v *VerifC04Server) clientGet(i uint32) (connHost, bool) {
	h, ok := v.Clients[i]
	if !ok {
		return nil, false
	}
	return h, true
}
func (v *VerifC04Server) notify(h connHost, n *com.Packet) error {
	own := 0
	if h != nil {
		own = 1
	}
	v.ev("notify:%d:%d:%d:%d:%d", own, n.ID, n.Job, uint64(n.Flags), n.Chunk.Size())
	return nil
}
func (v *VerifC04Server) talk(a string, n *com.Packet) (*conn, bool, error) {
	v.ev("talk:%d:%d:%d:%d:%d", n.ID, n.Job, uint64(n.Flags), len(n.Tags), n.Chunk.Size())
	if v.TalkErr != nil {
		return nil, false, v.TalkErr
	}
	c := &conn{next: &com.Packet{Device: n.Device, Flags: v.TalkNextFlags}}
	if v.TalkHost != nil {
		c.host = v.TalkHost
	}
	return c, false, nil
}
func (v *VerifC04Server) talkSub(a string, n *com.Packet, o bool) (connHost, uint32, *com.Packet, error) {
	v.ev("sub:%d:%d:%d:%d", n.ID, n.Job, uint64(n.Flags), n.Chunk.Size())
	if v.TalkErr != nil {
		return nil, 0, nil, v.TalkErr
	}
	return nil, 0, nil, nil
}

// VerifC04Resolve runs the real (*conn).resolve against the fake server; subs is the prior
// subscription table (nil = none). Returns the final table and the number of Packets added.
func VerifC04Resolve(v *VerifC04Server, h *VerifC04Host, subs map[uint32]bool, tags []uint32, o bool) (map[uint32]bool, int, error) {
	c := &conn{host: h, subs: subs}
	err := c.resolve(cout.Log{}, h, v, "a", tags, o)
	return c.subs, len(c.add), err
}

// VerifC04ProcessMultiple runs the real (*conn).processMultiple against the fake server.
// Returns the Len() of the reply container (0xFFFFFFFF when it is nil).
func VerifC04ProcessMultiple(v *VerifC04Server, h *VerifC04Host, n *com.Packet, o bool) (uint32, error) {
	c := &conn{host: h}
	err := c.processMultiple(cout.Log{}, v, "a", n, o)
	if c.next == nil {
		return 0xFFFFFFFF, err
	}
	return uint32(c.next.Flags.Len()), err
}

// VerifC04Process runs the real conn.process (the reply assembly after a packet was dispatched) for a
// connection whose host is h, with `add` batches already resolved by tags; returns what the reply looks
// like ("nil" if none).
func VerifC04Process(v *VerifC04Server, h *VerifC04Host, n *com.Packet, o bool, add int) (string, error) {
	c := &conn{host: h}
	for i := 0; i < add; i++ {
		var d device.ID
		d[0], d[1] = 6, byte(i+1)
		c.add = append(c.add, &com.Packet{ID: 0x20, Job: uint16(10 + i), Device: d})
	}
	err := c.process(cout.Log{}, v, "a", n, o)
	if c.next == nil {
		return "nil", err
	}
	return fmt.Sprintf("id=%d,flags=%d,len=%d", c.next.ID, uint64(uint16(c.next.Flags)), c.next.Flags.Len()), err
}

// VerifC04Handle runs the real connection handler on c with the fake server.
func VerifC04Handle(c net.Conn, v *VerifC04Server) { handle(cout.Log{}, c, v, "a") }

// VerifC04WritePacket forwards to writePacket (the real encoder; used to build well-formed inputs).
func VerifC04WritePacket(c net.Conn, w cfg.Wrapper, t cfg.Transform, n *com.Packet) error {
	return writePacket(c, w, t, n)
}
