//go:build verif

package c2

// In-package shims for property C04, extension round 3: a fully scripted connServer / connHost for the
// dispatch arms of conn.process / processSingle / processMultiple / resolve, the tail of handle() and
// receive() with a nil Session / nil Listener.  Nothing here changes behaviour of the code under test.

import (
	"errors"
	"fmt"
	"net"
	"sync"
	"time"

	"github.com/iDigitalFlame/xmt/c2/cfg"
	"github.com/iDigitalFlame/xmt/c2/cout"
	"github.com/iDigitalFlame/xmt/com"
	"github.com/iDigitalFlame/xmt/data"
	"github.com/iDigitalFlame/xmt/device"
)

var (
	VerifC04S3ErrTalk   = errors.New("verif: talk error")
	VerifC04S3ErrNotify = errors.New("verif: notify error")
	VerifC04S3ErrTooMany = ErrTooManyPackets
)

// VerifC04S3Pkt is the header of a Packet as the scripts give it (a fresh *com.Packet is built for
// every call: the dispatch code clears / mutates what it is handed).
type VerifC04S3Pkt struct {
	ID     uint8
	Job    uint16
	Flags  uint64
	Tags   []uint32
	Device device.ID
}

func (p *VerifC04S3Pkt) New() *com.Packet {
	if p == nil {
		return nil
	}
	n := &com.Packet{ID: p.ID, Job: p.Job, Flags: com.Flag(p.Flags), Device: p.Device}
	if len(p.Tags) > 0 {
		n.Tags = append([]uint32(nil), p.Tags...)
	}
	return n
}

// VerifC04S3Host is a scripted connHost.
type VerifC04S3Host struct {
	ID                             device.ID
	Tag                            uint32 // the tag it is registered under in the client table (0 = the connection's own host)
	Next                           *VerifC04S3Pkt
	ChanStart, ChanStop, ChanRun   bool
	Srv                            *VerifC04S3Server
	ch                             chan *com.Packet
}

func (h *VerifC04S3Host) chanWake()                {}
func (h *VerifC04S3Host) name() string             { return h.ID.String() }
func (h *VerifC04S3Host) chanWakeClear()           {}
func (h *VerifC04S3Host) chanStop() bool           { return h.ChanStop }
func (h *VerifC04S3Host) stateSet(uint32)          { h.Srv.ev("stateSet") }
func (h *VerifC04S3Host) keyCheckRevert()          {}
func (h *VerifC04S3Host) chanStart() bool          { return h.ChanStart }
func (h *VerifC04S3Host) stateUnset(uint32)        { h.Srv.ev("stateUnset") }
func (h *VerifC04S3Host) chanRunning() bool        { return h.ChanRun }
func (h *VerifC04S3Host) clientID() device.ID      { return h.ID }
func (h *VerifC04S3Host) keyCheckSync() error      { return nil }
func (h *VerifC04S3Host) keyValue() data.KeyPair   { return data.KeyPair{} }
func (h *VerifC04S3Host) deadlineRead() time.Time  { return time.Time{} }
func (h *VerifC04S3Host) deadlineWrite() time.Time { return time.Time{} }
func (h *VerifC04S3Host) update(string) {
	h.Srv.ev("update:%d", h.Tag)
}
func (h *VerifC04S3Host) sender() chan *com.Packet {
	if h.ch == nil {
		h.ch = make(chan *com.Packet, 8)
	}
	return h.ch
}
func (h *VerifC04S3Host) next(bool) *com.Packet {
	if h.Tag == 0 {
		h.Srv.ev("next")
	} else {
		h.Srv.ev("next:%d", h.Tag)
	}
	return h.Next.New()
}

// VerifC04S3Sub is the scripted answer of talkSub for one device.
type VerifC04S3Sub struct {
	K   bool
	Q   uint32
	R   *VerifC04S3Pkt
	Err bool
}

// VerifC04S3Server is a scripted connServer.
type VerifC04S3Server struct {
	Clients   map[uint32]*VerifC04S3Host
	Subs      map[device.ID]VerifC04S3Sub
	NotifyErr bool
	// talk: the conn it returns (TalkConn == nil: an error), its second result
	TalkConn *VerifC04S3Conn
	TalkE    bool
	Events   []string
	mu       sync.Mutex
	stop     bool
}

// VerifC04S3Conn is the state of a *conn as the scripts give it.
type VerifC04S3Conn struct {
	Host    *VerifC04S3Host
	Next    *VerifC04S3Pkt
	Subs    map[uint32]bool // nil = nil map
	Add     []*VerifC04S3Pkt
	AddNils []bool // Add[i] is a nil pointer
}

func (v *VerifC04S3Conn) build() *conn {
	c := &conn{next: v.Next.New()}
	if v.Host != nil {
		c.host = v.Host
	}
	if v.Subs != nil {
		c.subs = make(map[uint32]bool, len(v.Subs))
		for k, x := range v.Subs {
			c.subs[k] = x
		}
	}
	for i, a := range v.Add {
		if i < len(v.AddNils) && v.AddNils[i] {
			c.add = append(c.add, nil)
			continue
		}
		c.add = append(c.add, a.New())
	}
	return c
}

func (v *VerifC04S3Server) ev(f string, a ...interface{}) {
	v.mu.Lock()
	if !v.stop {
		v.Events = append(v.Events, fmt.Sprintf(f, a...))
	}
	v.mu.Unlock()
}

// VerifC04S3Freeze stops the recording (what the channel threads do after stateSet is not compared).
func (v *VerifC04S3Server) VerifC04S3Freeze() []string {
	v.mu.Lock()
	defer v.mu.Unlock()
	v.stop = true
	return append([]string(nil), v.Events...)
}
func (v *VerifC04S3Server) clientLock()              {}
func (v *VerifC04S3Server) clientUnlock()            {}
func (v *VerifC04S3Server) prefix() string           { return "verif" }
func (v *VerifC04S3Server) clientClear(i uint32)     { v.ev("clear:%d", i) }
func (v *VerifC04S3Server) wrapper() cfg.Wrapper     { return nil }
func (v *VerifC04S3Server) keyValue() data.KeyPair   { return data.KeyPair{} }
func (v *VerifC04S3Server) transform() cfg.Transform { return nil }
func (v *VerifC04S3Server) clientSet(i uint32, _ chan *com.Packet) {
	v.ev("set:%d", i)
}
func (v *VerifC04S3Server) clientGet(i uint32) (connHost, bool) {
	h, ok := v.Clients[i]
	if !ok {
		return nil, false
	}
	return h, true
}
func (v *VerifC04S3Server) notify(h connHost, n *com.Packet) error {
	own := 0
	if h != nil {
		own = 1
	}
	v.ev("notify:%d:%d", own, n.ID)
	if v.NotifyErr {
		return VerifC04S3ErrNotify
	}
	return nil
}
func (v *VerifC04S3Server) talk(a string, n *com.Packet) (*conn, bool, error) {
	if v.TalkConn == nil {
		return nil, false, VerifC04S3ErrTalk
	}
	return v.TalkConn.build(), v.TalkE, nil
}
func (v *VerifC04S3Server) talkSub(a string, n *com.Packet, o bool) (connHost, uint32, *com.Packet, error) {
	v.ev("sub:%d", n.ID)
	s, ok := v.Subs[n.Device]
	if !ok {
		return nil, 0, nil, nil
	}
	if s.Err {
		return nil, 0, nil, VerifC04S3ErrTalk
	}
	var k connHost
	if s.K {
		k = &VerifC04S3Host{ID: n.Device, Srv: v}
	}
	return k, s.Q, s.R.New(), nil
}

// VerifC04S3State is what is left in the *conn after a call.
type VerifC04S3State struct {
	Next    *VerifC04S3Pkt
	Subs    map[uint32]bool
	SubsNil bool
	Add     int
}

func verifC04S3State(c *conn) VerifC04S3State {
	s := VerifC04S3State{Subs: c.subs, SubsNil: c.subs == nil, Add: len(c.add)}
	if c.next != nil {
		s.Next = &VerifC04S3Pkt{ID: c.next.ID, Job: c.next.Job, Flags: uint64(c.next.Flags), Tags: c.next.Tags, Device: c.next.Device}
	}
	return s
}

// VerifC04S3Process runs the real (*conn).process.
func VerifC04S3Process(v *VerifC04S3Server, cs *VerifC04S3Conn, n *com.Packet, o bool) (VerifC04S3State, error) {
	c := cs.build()
	err := c.process(cout.Log{}, v, "a", n, o)
	return verifC04S3State(c), err
}

// VerifC04S3Resolve runs the real (*conn).resolve; s is the connHost argument.
func VerifC04S3Resolve(v *VerifC04S3Server, cs *VerifC04S3Conn, s *VerifC04S3Host, t []uint32, o bool) (VerifC04S3State, error) {
	c := cs.build()
	err := c.resolve(cout.Log{}, s, v, "a", t, o)
	return verifC04S3State(c), err
}

// VerifC04S3Handle runs the real handle() on x with the scripted server.
func VerifC04S3Handle(x net.Conn, v *VerifC04S3Server) { handle(cout.Log{}, x, v, "a") }

// VerifC04S3Receive runs the real receive(s, l, n) (s may be nil; withL = false passes a nil Listener)
// with the leaf recorder of zz_verif_c04.go installed; returns the leaves ("id:flags").
func VerifC04S3Receive(s *Session, withL bool, n *com.Packet) (leaves []string, err error) {
	verifC04Leaf.Lock()
	verifC04Leaf.on, verifC04Leaf.log = true, nil
	verifC04Leaf.Unlock()
	defer func() {
		verifC04Leaf.Lock()
		leaves, verifC04Leaf.on, verifC04Leaf.log = verifC04Leaf.log, false, nil
		verifC04Leaf.Unlock()
		if s != nil {
			for {
				select {
				case <-s.send:
					continue
				default:
				}
				break
			}
		}
	}()
	var l *Listener
	if withL {
		l = &Listener{}
	}
	err = receive(s, l, n)
	return
}
