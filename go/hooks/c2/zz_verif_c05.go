//go:build verif

package c2

// Verification hooks for property C05 (every task completes exactly once with its own result).
// Mounted by -overlay, never part of /repo.
//
// The verifC05* functions are called from the rewritten copies of session.go, vars.go, mux.go,
// session_no_implant.go, x_key.go and xz_key_no_implant.go (lib/props/C05.json "rewrites").  They
// only OBSERVE (an event record is handed to the tap installed by the harness); with no tap
// installed they return at once, so other properties sharing the binary are not affected.

import (
	"context"
	"sync"
	"sync/atomic"

	"github.com/PurpleSec/logx"
	"github.com/iDigitalFlame/xmt/c2/cfg"
	"github.com/iDigitalFlame/xmt/c2/task"
	"github.com/iDigitalFlame/xmt/com"
	"github.com/iDigitalFlame/xmt/com/limits"
	"github.com/iDigitalFlame/xmt/data"
	"github.com/iDigitalFlame/xmt/device"
	"github.com/iDigitalFlame/xmt/device/local"
)

// Event kinds.
const (
	VerifC05Queue  = 'Q' // Session.queue called with the packet (before the channel send)
	VerifC05Drop   = 'D' // Session.queue dropped the packet (send queue full)
	VerifC05Next   = 'N' // Session.next returned the packet (about to be encrypted and written)
	VerifC05Recv   = 'R' // receiveSingle entered with the (decrypted, unbatched, reassembled) packet
	VerifC05Mux    = 'M' // defaultClientMux dispatches a task packet on the client
	VerifC05Handle = 'H' // server-side Session.handle entered with a packet
	VerifC05Sync   = 'K' // client keyCheckSync switches to the queued key pair
	VerifC05Revert = 'V' // client keyCheckRevert drops the queued key pair
	VerifC05Regen  = 'G' // server keyListenerRegenerate entered (re-key packet being processed)
)

// VerifC05Pkt is what the hooks record about a packet.
type VerifC05Pkt struct {
	ID    uint8
	Job   uint16
	Flags com.Flag
	Dev   device.ID
	Len   int
	Hash  uint64   // FNV-1a 64 of the unread payload
	Head  [24]byte // first bytes of the unread payload
}

// VerifC05Event is one observation.
type VerifC05Event struct {
	Kind    byte
	Client  bool      // the observing Session is a client-side Session
	SID     device.ID // Session.ID of the observing Session
	P       VerifC05Pkt
	Inner   []VerifC05Pkt // for Next on a FlagMulti packet: the packed packets, in order
	Tracked bool          // for Handle: the job number is in the table at entry
}

// VerifC05Hooks is installed by the harness.
type VerifC05Hooks struct {
	Tap       func(e *VerifC05Event)
	AfterPick func(client bool, sid device.ID, p *VerifC05Pkt) // between pick and the batching decision of next
}

var verifC05H atomic.Value // *VerifC05Hooks

// VerifC05Install installs (or with nil removes) the hooks.
func VerifC05Install(h *VerifC05Hooks) {
	if h == nil {
		h = &VerifC05Hooks{}
	}
	verifC05H.Store(h)
}
func verifC05Get() *VerifC05Hooks {
	if v := verifC05H.Load(); v != nil {
		if h := v.(*VerifC05Hooks); h.Tap != nil || h.AfterPick != nil {
			return h
		}
	}
	return nil
}

// VerifC05Hash is the payload digest used in the records (FNV-1a, 64 bit).
func VerifC05Hash(b []byte) uint64 {
	h := uint64(14695981039346656037)
	for _, c := range b {
		h ^= uint64(c)
		h *= 1099511628211
	}
	return h
}
func verifC05Pkt(n *com.Packet) VerifC05Pkt {
	if n == nil {
		return VerifC05Pkt{}
	}
	b := n.Payload()
	v := VerifC05Pkt{ID: n.ID, Job: n.Job, Flags: n.Flags, Dev: n.Device, Len: len(b), Hash: VerifC05Hash(b)}
	copy(v.Head[:], b)
	return v
}
func verifC05Emit(k byte, s *Session, n *com.Packet) {
	h := verifC05Get()
	if h == nil || h.Tap == nil || s == nil {
		return
	}
	h.Tap(&VerifC05Event{Kind: k, Client: s.IsClient(), SID: s.ID, P: verifC05Pkt(n)})
}
func verifC05Queue(s *Session, n *com.Packet) { verifC05Emit(VerifC05Queue, s, n) }
func verifC05Drop(s *Session, n *com.Packet)  { verifC05Emit(VerifC05Drop, s, n) }
func verifC05Recv(s *Session, n *com.Packet)  { verifC05Emit(VerifC05Recv, s, n) }
func verifC05Mux(s *Session, n *com.Packet)   { verifC05Emit(VerifC05Mux, s, n) }
func verifC05Sync(s *Session)                 { verifC05Emit(VerifC05Sync, s, nil) }
func verifC05Revert(s *Session) {
	if s.keysNext != nil {
		verifC05Emit(VerifC05Revert, s, nil)
	}
}
func verifC05Regen(s *Session, n *com.Packet) { verifC05Emit(VerifC05Regen, s, n) }
func verifC05Handle(s *Session, n *com.Packet) {
	h := verifC05Get()
	if h == nil || h.Tap == nil || s == nil || n == nil {
		return
	}
	s.lock.RLock()
	_, ok := s.jobs[n.Job]
	s.lock.RUnlock()
	h.Tap(&VerifC05Event{Kind: VerifC05Handle, Client: s.IsClient(), SID: s.ID, P: verifC05Pkt(n), Tracked: ok})
}
func verifC05AfterPick(s *Session, n *com.Packet) {
	h := verifC05Get()
	if h == nil || h.AfterPick == nil || n == nil {
		return
	}
	p := verifC05Pkt(n)
	h.AfterPick(s.IsClient(), s.ID, &p)
}

// verifC05Next records what next() hands to the connection code. For a FlagMulti packet the packed
// packets are decoded from a copy of the payload (the packet itself is not touched).
func verifC05Next(s *Session, n *com.Packet) {
	h := verifC05Get()
	if h == nil || h.Tap == nil || n == nil {
		return
	}
	e := &VerifC05Event{Kind: VerifC05Next, Client: s.IsClient(), SID: s.ID, P: verifC05Pkt(n)}
	if n.Flags&com.FlagMulti != 0 {
		c := data.NewChunk(append([]byte(nil), n.Payload()...))
		for x := n.Flags.Len(); x > 0; x-- {
			var v com.Packet
			if err := v.UnmarshalStream(c); err != nil {
				break
			}
			e.Inner = append(e.Inner, verifC05Pkt(&v))
		}
	}
	h.Tap(e)
}

var verifC05IDLock sync.Mutex

// VerifC05Connect is c2.ConnectContext for a client that identifies itself as `id`: the process
// wide local.UUID / local.Device.ID are switched for the duration of the first contact (exactly
// what LoadContext does after a migration) and restored afterwards, so that several clients with
// different device IDs can live in one process.
func VerifC05Connect(x context.Context, l logx.Log, p cfg.Profile, id device.ID) (*Session, error) {
	verifC05IDLock.Lock()
	defer verifC05IDLock.Unlock()
	ou, od := local.UUID, local.Device.ID
	copy(local.UUID[:], id[:])
	copy(local.Device.ID[:], id[:])
	s, err := connectContextInner(x, nil, l, p)
	local.UUID, local.Device.ID = ou, od
	return s, err
}

// Facts and small accessors.
const (
	VerifC05RvResult  = RvResult
	VerifC05MvTime    = task.MvTime
	VerifC05MvRefresh = task.MvRefresh
	VerifC05MaxEvents = maxEvents
)

// VerifC05QueueCap is the capacity of the send queue of a Session.
func VerifC05QueueCap(s *Session) int { return cap(s.send) }

// VerifC05QueueLen is the current length of the send queue of a Session.
func VerifC05QueueLen(s *Session) int { return len(s.send) }

// VerifC05InChannel reports the channel state flag.
func VerifC05InChannel(s *Session) bool { return s.state.Channel() }

// VerifC05KeyHash is a digest of the shared session key currently held by the Session.
func VerifC05KeyHash(s *Session) uint64 {
	k := s.keys.Shared()
	return VerifC05Hash(k[:])
}

// VerifC05HasKeyNext reports whether a re-key is pending on the client.
func VerifC05HasKeyNext(s *Session) bool { return s.keysNext != nil }

// VerifC05Pending is the number of Jobs in the table.
func VerifC05Pending(s *Session) int {
	s.lock.RLock()
	n := len(s.jobs)
	s.lock.RUnlock()
	return n
}

// VerifC05LimitsFrag / Packets are the batching limits compiled in.
// (variables: limits.Frag / limits.Packets are turned into variables by the rewrite registered
// under C02 so that the fragment limit can be set at run time)
var (
	VerifC05LimitsFrag    = limits.Frag
	VerifC05LimitsPackets = limits.Packets
)

// VerifC05ClientMux hands a task packet to the client's real default mux (defaultClientMux), the
// way the event thread does.
func VerifC05ClientMux(s *Session, n *com.Packet) bool { return defaultClientMux(s, n) }

// VerifC05TakeResults removes every packet from the Session's send queue and returns, for the
// RvResult packets among them, the Job number and whether the error flag is set.
func VerifC05TakeResults(s *Session) (jobs []uint16, errs []bool) {
	for len(s.send) > 0 {
		if p := <-s.send; p != nil && p.ID == RvResult {
			jobs, errs = append(jobs, p.Job), append(errs, p.Flags&com.FlagError != 0)
		}
	}
	return
}
