//go:build verif

package c2

import (
	"bytes"
	"context"
	"io"
	"net"
	"time"

	"github.com/iDigitalFlame/xmt/c2/cfg"
	"github.com/iDigitalFlame/xmt/c2/cout"
	"github.com/iDigitalFlame/xmt/com"
	"github.com/iDigitalFlame/xmt/data"
	"github.com/iDigitalFlame/xmt/device"
)

// Verification hooks for property C06 (session keys). Mounted by -overlay with tag `verif`;
// every symbol is a no-op / plain accessor unless the harness installs a callback.

// ---- injection points (see lib/props/C06.json "rewrites") ---------------------------------------

// VerifC06Roll, when set, replaces the random roll of keyNextSync (0 = generate a re-key now).
var VerifC06Roll func(s *Session, n int) uint32

func verifC06Roll(s *Session, n int, def func(int) uint32) uint32 {
	if f := VerifC06Roll; f != nil {
		return f(s, n)
	}
	return def(n)
}

// VerifC06Yield, when set, is called by the Server event loop right before it looks at
// Server.Keys (schedule replay of the start-up order).
var VerifC06Yield func(point string)

func verifC06Yield(p string) {
	if f := VerifC06Yield; f != nil {
		f(p)
	}
}

// VerifC06Picked, when set, is called by (*Session).next right after pick() returned the packet
// that will lead the next round (schedule replay: traffic queued between pick and the queue check).
var VerifC06Picked func(s *Session, n *com.Packet)

func verifC06Picked(s *Session, n *com.Packet) {
	if f := VerifC06Picked; f != nil {
		f(s, n)
	}
}

// ---- observation -----------------------------------------------------------------------------

// VerifC06Keys returns a copy of the Session's current KeyPair.
func VerifC06Keys(s *Session) data.KeyPair { return s.keys }

// VerifC06KeysNext returns a copy of the queued (not yet swapped) KeyPair, if any.
func VerifC06KeysNext(s *Session) (data.KeyPair, bool) {
	if s.keysNext == nil {
		return data.KeyPair{}, false
	}
	return *s.keysNext, true
}

// VerifC06Drop makes the Server forget the Session of a device, the way the event loop does on a
// `delSession` message, but synchronously.
func VerifC06Drop(srv *Server, id device.ID) {
	srv.lock.Lock()
	delete(srv.sessions, id.Hash())
	srv.lock.Unlock()
}

// VerifC06QueueLen is the number of packets waiting in the Session's send queue.
func VerifC06QueueLen(s *Session) int { return len(s.send) }

// ---- direct drivers for the key functions (no connection, no goroutines) -------------------------

// VerifC06Direct holds a client-side and a server-side Session that are driven by calling the
// unexported key functions in the order the connection code calls them.
type VerifC06Direct struct {
	C   *Session
	S   *Session
	L   *Listener
	Srv *Server
	// Gen is the client's KeyPair right after keySessionGenerate (own public key still in place).
	Gen data.KeyPair
}

// VerifC06NewDirect creates the pair; the Server KeyPair is generated here.
func VerifC06NewDirect() *VerifC06Direct {
	srv := &Server{sessions: make(map[uint32]*Session)}
	srv.Keys.Fill()
	l := &Listener{name: "v", connection: connection{s: srv}}
	var id device.ID
	id[0], id[1] = 0xC0, 0x06
	return &VerifC06Direct{Srv: srv, L: l, C: &Session{ID: id}}
}

// Hello: client keySessionGenerate → server keyListenerInit → keyHostSync → client keySessionSync
// (connectContextInner / Listener.talk, new Session). Returns the two error values.
func (d *VerifC06Direct) Hello(info []byte) (error, error) {
	n := &com.Packet{ID: SvHello, Device: d.C.ID}
	n.Write(info)
	d.C.keySessionGenerate(n)
	d.Gen = d.C.keys
	// server: readDeviceInfo consumed the info bytes
	b := make([]byte, len(info))
	n.Read(b)
	d.S = &Session{ID: d.C.ID, parent: d.L, connection: connection{s: d.Srv}}
	e1 := d.S.keyListenerInit(d.Srv.Keys.Private, d.L.name, n)
	v := keyHostSync(d.L, n)
	e2 := d.C.keySessionSync(v)
	return e1, e2
}

// Rekey forces keyNextSync to produce a re-key packet (the random roll is overridden for the
// call) and returns it; nil if keyNextSync refused (a sync is already pending).
func (d *VerifC06Direct) Rekey() *com.Packet {
	old := VerifC06Roll
	VerifC06Roll = func(*Session, int) uint32 { return 0 }
	n := d.C.keyNextSync()
	VerifC06Roll = old
	return n
}

// Exchange performs the key-relevant calls of one non-channel round in source order:
// (*Session).session: KeyCrypt, write | Listener.talk: resolve (conn copy), keyCryptAndUpdate(true),
// notify: keyCryptAndUpdate(false) | handle: reply.KeyCrypt(conn.keys) | session: KeyCrypt,
// keyCheckSync.  fault: 0 ok, 1 write failed, 2 reply lost.  Returns what the server-side handler
// saw of n's buffer and what the client saw of the reply's buffer.
func (d *VerifC06Direct) Exchange(n *com.Packet, reply []byte, fault int) (srvSaw, cliSaw []byte) {
	n.KeyCrypt(d.C.keys)
	if fault == 1 {
		d.C.keyCheckRevert()
		return nil, nil
	}
	c := &conn{host: d.S, keys: d.S.keys}
	d.S.keyCryptAndUpdate(d.L.name, n, true)
	srvSaw = append([]byte(nil), data.VerifC06Buf(&n.Chunk)...)
	d.S.keyCryptAndUpdate(d.L.name, n, false)
	r := &com.Packet{Device: d.C.ID}
	r.Write(reply)
	r.KeyCrypt(c.keys)
	d.S.keyCheckSync()
	if fault == 2 {
		return srvSaw, nil
	}
	r.KeyCrypt(d.C.keys)
	cliSaw = append([]byte(nil), data.VerifC06Buf(&r.Chunk)...)
	d.C.keyCheckSync()
	return srvSaw, cliSaw
}

// ---- the real client round over any profile stack (group "histw") --------------------------------

// Arm gives the client Session of the pair the fields connectContextInner sets (queue, wake, event
// queue, log) and the Wrapper / Transform of the profile stack; no goroutine is started.
func (d *VerifC06Direct) Arm(w cfg.Wrapper, t cfg.Transform) {
	s := d.C
	s.Device.ID = s.ID
	s.log, s.sleep = cout.New(nil), time.Hour
	s.w, s.t = w, t
	s.host.Set("mem")
	s.wake, s.ch = make(chan struct{}, 1), make(chan struct{})
	s.frags, s.m = make(map[uint16]*cluster), make(eventer, maxEvents)
	s.ctx, s.send, s.tick = context.Background(), make(chan *com.Packet, 128), newSleeper(s.sleep)
}

// Queue puts a packet in the client's send queue, the way Session.Write does for a short packet.
func (d *VerifC06Direct) Queue(n *com.Packet) { d.C.send <- n }

// Round runs the real (*Session).session(c) of the client once. rekey overrides the random roll of
// keyNextSync for the call (true: generate a re-key now when nothing is queued).
func (d *VerifC06Direct) Round(c net.Conn, rekey bool) bool {
	old := VerifC06Roll
	VerifC06Roll = func(*Session, int) uint32 {
		if rekey {
			return 0
		}
		return 1
	}
	defer func() { VerifC06Roll = old }()
	return d.C.session(c)
}

// Serve is the server half of one non-channel round on the bytes the client put on the wire:
// readPacket through the same stack, then the key calls of Listener.talk / notify / handle in source
// order (see Exchange), then the reply through writePacket. It returns what the handler saw of the
// packet's buffer and the reply's wire bytes.
func (d *VerifC06Direct) Serve(wire []byte, w cfg.Wrapper, t cfg.Transform, id uint8, reply []byte) (crypt bool, srvSaw, replyWire []byte, err error) {
	n, err := readPacket(&verifC06Mem{r: bytes.NewReader(wire)}, w, t)
	if err != nil {
		return false, nil, nil, err
	}
	crypt = n.Flags&com.FlagCrypt != 0
	c := &conn{host: d.S, keys: d.S.keys}
	d.S.keyCryptAndUpdate(d.L.name, n, true)
	srvSaw = append([]byte(nil), data.VerifC06Buf(&n.Chunk)...)
	d.S.keyCryptAndUpdate(d.L.name, n, false)
	r := &com.Packet{ID: id, Job: 7, Device: d.C.ID}
	r.Write(reply)
	r.KeyCrypt(c.keys)
	d.S.keyCheckSync()
	o := &verifC06Mem{}
	if err = writePacket(o, w, t, r); err != nil {
		return crypt, srvSaw, nil, err
	}
	return crypt, srvSaw, o.w.Bytes(), nil
}

// Seen drains the client's event queue and returns the buffers of the packets handed to the mux.
func (d *VerifC06Direct) Seen() [][]byte {
	var out [][]byte
	q, _ := d.C.m.(eventer)
	for {
		select {
		case e := <-q:
			if e.p != nil {
				out = append(out, append([]byte(nil), data.VerifC06Buf(&e.p.Chunk)...))
			}
			continue
		default:
		}
		return out
	}
}

type verifC06Mem struct {
	r *bytes.Reader
	w bytes.Buffer
}

func (m *verifC06Mem) Read(b []byte) (int, error) {
	if m.r == nil {
		return 0, io.EOF
	}
	return m.r.Read(b)
}
func (m *verifC06Mem) Write(b []byte) (int, error)    { return m.w.Write(b) }
func (*verifC06Mem) Close() error                     { return nil }
func (*verifC06Mem) LocalAddr() net.Addr              { return nil }
func (*verifC06Mem) RemoteAddr() net.Addr             { return nil }
func (*verifC06Mem) SetDeadline(time.Time) error      { return nil }
func (*verifC06Mem) SetReadDeadline(time.Time) error  { return nil }
func (*verifC06Mem) SetWriteDeadline(time.Time) error { return nil }

// PickWait runs the helper (*Session).pickWait of the client once, the way pick() starts it in
// Channel mode, with the abandoned mark already set or not, and the re-key roll forced. It reports
// whether a KeyPair is queued afterwards, how many packets the helper put in the send queue and
// whether that packet is flagged as key material.
func (d *VerifC06Direct) PickWait(abandoned, rekey bool) (pending bool, queued int, crypt bool) {
	old := VerifC06Roll
	VerifC06Roll = func(*Session, int) uint32 {
		if rekey {
			return 0
		}
		return 1
	}
	defer func() { VerifC06Roll = old }()
	d.C.sleep = 0 // wait() returns at once
	var o uint32
	if abandoned {
		o = 1
	}
	before := len(d.C.send)
	d.C.pickWait(&o)
	if queued = len(d.C.send) - before; queued == 1 && before == 0 {
		p := <-d.C.send
		crypt = p.Flags&com.FlagCrypt != 0
		d.C.send <- p
	}
	return d.C.keysNext != nil, queued, crypt
}

// DrainSend empties the client's send queue.
func (d *VerifC06Direct) DrainSend() {
	for len(d.C.send) > 0 {
		<-d.C.send
	}
}
