//go:build verif

package c2

import (
	"net"

	"github.com/iDigitalFlame/xmt/com"
	"github.com/iDigitalFlame/xmt/data"
	"github.com/iDigitalFlame/xmt/device"
)

// Verification hooks for property C06, extension "per-connection key handling": the real
// (*Listener).resolve, the real handle() and the plain packet reader / writer, on the socket-less
// Server / Listener of VerifC15Env. Plain accessors only.

// VerifC06S3Conn is what (*Listener).resolve returned.
type VerifC06S3Conn struct {
	NoSession bool
	Nil       bool
	Err       error
	Keys      data.KeyPair // conn.keys: the conn-local COPY
	Live      data.KeyPair // Session.keys right after the call
	HostID    device.ID
	HostNil   bool
	Add       []*com.Packet
	Subs      map[uint32]bool
}

// VerifC06S3Resolve calls the real (*Listener).resolve(s, a, tags) for the registered Session of id.
func (e *VerifC15Env) VerifC06S3Resolve(id device.ID, tags []uint32) VerifC06S3Conn {
	s := e.S.Session(id)
	if s == nil {
		return VerifC06S3Conn{NoSession: true}
	}
	c, err := e.L.resolve(s, "10.0.0.9:9", tags)
	o := VerifC06S3Conn{Err: err, Live: s.keys}
	if c == nil {
		o.Nil = true
		return o
	}
	o.Keys, o.Add, o.HostNil = c.keys, c.add, c.host == nil
	if c.host != nil {
		o.HostID = c.host.clientID()
	}
	o.Subs = make(map[uint32]bool, len(c.subs))
	for k, v := range c.subs {
		o.Subs[k] = v
	}
	return o
}

// VerifC06S3Handle runs the real handle() of a freshly accepted connection on c (it returns when the
// connection is finished: at once for a poll, when the channel ends for a channel).
func (e *VerifC15Env) VerifC06S3Handle(c net.Conn) {
	handle(e.L.log, c, e.L, "10.0.0.9:9")
}

// VerifC06S3OnReceive makes the registered Session of id hand every packet that reaches its handler
// to f (on the Server's event goroutine).
func (e *VerifC15Env) VerifC06S3OnReceive(id device.ID, f func(*com.Packet)) bool {
	s := e.S.Session(id)
	if s == nil {
		return false
	}
	s.Receive = func(_ *Session, p *com.Packet) { f(p) }
	return true
}

// VerifC06S3Write / VerifC06S3Read are the real writePacket / readPacket without Wrapper and
// Transform.
func VerifC06S3Write(c net.Conn, n *com.Packet) error { return writePacket(c, nil, nil, n) }
func VerifC06S3Read(c net.Conn) (*com.Packet, error)  { return readPacket(c, nil, nil) }

// VerifC06S3InChannel reports whether the Session's channel flag is set.
func VerifC06S3InChannel(s *Session) bool { return s != nil && s.state.Channel() }
