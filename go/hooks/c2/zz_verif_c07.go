//go:build verif

package c2

import (
	"net"

	"github.com/iDigitalFlame/xmt/c2/cfg"
	"github.com/iDigitalFlame/xmt/com"
)

// VerifWritePacket exposes the full send path (writePacket) to the verification harness.
func VerifWritePacket(c net.Conn, w cfg.Wrapper, t cfg.Transform, n *com.Packet) error {
	return writePacket(c, w, t, n)
}

// VerifReadPacket exposes the full receive path (readPacket) to the verification harness.
func VerifReadPacket(c net.Conn, w cfg.Wrapper, t cfg.Transform) (*com.Packet, error) {
	return readPacket(c, w, t)
}
