//go:build verif

package c2

// In-package shims for property C12 (session settings / identity synchronisation).
// Nothing here changes behaviour: the functions only construct Session values without sockets and
// forward to the unexported functions under test.

import (
	"time"

	"github.com/iDigitalFlame/xmt/c2/cfg"
	"github.com/iDigitalFlame/xmt/com"
	"github.com/iDigitalFlame/xmt/data"
	"github.com/iDigitalFlame/xmt/device"
)

// Unexported constants (consumed by the facts generator).
const (
	VerifC12InfoHello       = infoHello
	VerifC12InfoMigrate     = infoMigrate
	VerifC12InfoRefresh     = infoRefresh
	VerifC12InfoSync        = infoSync
	VerifC12InfoProxy       = infoProxy
	VerifC12InfoSyncMigrate = infoSyncMigrate
	VerifC12TimeSleepJitter = timeSleepJitter
	VerifC12TimeKillDate    = timeKillDate
	VerifC12TimeWorkHours   = timeWorkHours
)

// VerifC12Profile is a cfg.Profile that marshals to fixed bytes (or is not marshalable at all when
// wrapped in VerifC12NoMarshal).
type VerifC12Profile struct {
	cfg.Profile
	B []byte
}

func (p VerifC12Profile) MarshalBinary() ([]byte, error) { return p.B, nil }

type VerifC12NoMarshal struct{ cfg.Profile }

// VerifC12ProxyData mirrors the unexported proxyData.
type VerifC12ProxyData struct {
	Name, Addr string
	Profile    []byte
}

// VerifC12NewClient returns a client-side Session (no Listener, no Server).
func VerifC12NewClient() *Session { return &Session{} }

// VerifC12NewServer returns a server-side Session as the Listener creates it, without sockets.
func VerifC12NewServer() *Session {
	return &Session{parent: &Listener{}, jobs: make(map[uint16]*Job), send: make(chan *com.Packet, 128)}
}

func (s *Session) VerifC12Set(jitter uint8, sleep time.Duration, kill time.Time, work *cfg.WorkHours) {
	s.jitter, s.sleep, s.kill, s.work = jitter, sleep, kill, work
}
func (s *Session) VerifC12Get() (uint8, time.Duration, time.Time, *cfg.WorkHours) {
	return s.jitter, s.sleep, s.kill, s.work
}
func (s *Session) VerifC12Keys() *data.KeyPair { return &s.keys }

// VerifC12SetClosing marks the Session as closing (IsActive() == false).
func (s *Session) VerifC12SetClosing() { s.state.Set(stateClosing) }

// VerifC12SetProxy attaches a Proxy record (no listener) to the Session.
func (s *Session) VerifC12SetProxy(name, addr string, p cfg.Profile, active bool) {
	v := &Proxy{name: name, addr: addr, connection: connection{p: p}}
	if !active {
		v.state.Set(stateClosing)
	}
	s.proxy = &proxyBase{Proxy: v}
}
func (s *Session) VerifC12HasProxy() bool { return s.proxy != nil }

func (s *Session) VerifC12Write(t uint8, w data.Writer) error { return s.writeDeviceInfo(t, w) }
func (s *Session) VerifC12Read(t uint8, r data.Reader) ([]VerifC12ProxyData, error) {
	p, err := s.readDeviceInfo(t, r)
	var o []VerifC12ProxyData
	for i := range p {
		o = append(o, VerifC12ProxyData{Name: p[i].n, Addr: p[i].b, Profile: p[i].p})
	}
	return o, err
}
func (s *Session) VerifC12Proxies() []VerifC12ProxyData {
	var o []VerifC12ProxyData
	for i := range s.proxies {
		o = append(o, VerifC12ProxyData{Name: s.proxies[i].n, Addr: s.proxies[i].b, Profile: s.proxies[i].p})
	}
	return o
}

// VerifC12PopSend takes the next queued Packet of the Session (nil when none).
func (s *Session) VerifC12PopSend() *com.Packet {
	select {
	case n := <-s.send:
		return n
	default:
		return nil
	}
}

// VerifC12Handle runs the client-side internal task handler on n, writing the result to w.
func VerifC12Handle(s *Session, n *com.Packet, w data.Writer) error { return muxHandleInternal(s, n, w) }

// VerifC12WithQueue gives a client-side Session built by VerifC12NewClient a send queue (what Connect
// does), so that packets it queues for the server can be taken with VerifC12PopSend.
func (s *Session) VerifC12WithQueue() *Session {
	if s.send == nil {
		s.send = make(chan *com.Packet, 128)
	}
	return s
}

// VerifC12Script runs the client-side Script handler on n, writing the result to w (the SvResync
// packet it produces is queued on the Session like in production).
func VerifC12Script(s *Session, n, w *com.Packet) error { return muxHandleScript(s, n, w) }

// VerifC12Result feeds a result Packet to the server-side Session job handler.
func (s *Session) VerifC12Result(n *com.Packet) bool { return s.handle(n) }

// VerifC12Receive feeds a Packet to the system packet handler (SvResync path).
func (s *Session) VerifC12Receive(n *com.Packet) { receiveSingle(s, n) }

// VerifC12AddJob registers a pending Job of the given type.
func (s *Session) VerifC12AddJob(id uint16, t uint8) {
	s.jobs[id] = &Job{ID: id, Type: t, s: s, done: make(chan struct{})}
}

var _ = device.IDSize
