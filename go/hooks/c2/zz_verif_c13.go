//go:build verif

package c2

// Verification hooks for property C13 (session state word).  Mounted into package c2 by -overlay;
// the repository itself is not edited.  Three things live here:
//   - the unexported state constants (facts),
//   - a dispatcher that calls the real (*state) methods on a raw uint32 word,
//   - the access hooks verifC13Load/Store/CAS: the overlay copy of state.go has its sync/atomic
//     primitives replaced by these (see lib/props/C13.json "rewrites").  Without an installed
//     scheduler they are the plain atomic operation; with one, the calling thread parks before
//     every shared-memory access and a cooperative scheduler releases exactly one access at a
//     time, following a schedule list (deterministic replay of an interleaving).

import (
	"fmt"
	"sync/atomic"
)

// VerifC13Consts returns the state flag constants of the current tree, in declaration order.
func VerifC13Consts() ([]string, []uint32) {
	return []string{"stateCanRecv", "stateReady", "stateClosed", "stateClosing", "stateShutdown", "stateSendClose",
			"stateRecvClose", "stateWakeClose", "stateChannel", "stateChannelValue", "stateChannelUpdated",
			"stateChannelProxy", "stateSeen", "stateMoving", "stateReplacing", "stateShutdownWait"},
		[]uint32{stateCanRecv, stateReady, stateClosed, stateClosing, stateShutdown, stateSendClose,
			stateRecvClose, stateWakeClose, stateChannel, stateChannelValue, stateChannelUpdated,
			stateChannelProxy, stateSeen, stateMoving, stateReplacing, stateShutdownWait}
}

// VerifC13Preds is the order in which VerifC13Predicates reports the read-only predicates.
var VerifC13Preds = []string{"Seen", "Ready", "Moving", "Closed", "CanRecv", "Closing", "Channel", "Shutdown", "Replacing",
	"RecvClosed", "SendClosed", "WakeClosed", "ShutdownWait", "ChannelValue", "ChannelProxy", "ChannelUpdated", "ChannelCanStart"}

// VerifC13Predicates evaluates every read-only predicate of the real state type on the word.
func VerifC13Predicates(p *uint32) []bool {
	s := (*state)(p)
	return []bool{s.Seen(), s.Ready(), s.Moving(), s.Closed(), s.CanRecv(), s.Closing(), s.Channel(), s.Shutdown(), s.Replacing(),
		s.RecvClosed(), s.SendClosed(), s.WakeClosed(), s.ShutdownWait(), s.ChannelValue(), s.ChannelProxy(), s.ChannelUpdated(), s.ChannelCanStart()}
}

type verifC13TryUnset interface{ tryUnset(uint32) bool }
type verifC13TrySet interface{ trySet(uint32) bool }

// VerifC13Has reports whether the optional compare-and-swap primitives exist in the current tree.
func VerifC13Has(name string) bool {
	var s state
	switch name {
	case "tryUnset":
		_, ok := interface{}(&s).(verifC13TryUnset)
		return ok
	case "trySet":
		_, ok := interface{}(&s).(verifC13TrySet)
		return ok
	}
	return false
}

// VerifC13Call runs one real method on the word; the result is 1/0 for bool methods, the value for
// Last, 1 for void methods.
func VerifC13Call(p *uint32, op string, arg uint32) uint32 {
	s := (*state)(p)
	b := func(v bool) uint32 {
		if v {
			return 1
		}
		return 0
	}
	switch op {
	case "set":
		s.Set(arg)
		return 1
	case "unset":
		s.Unset(arg)
		return 1
	case "setLast":
		s.SetLast(uint16(arg))
		return 1
	case "last":
		return uint32(s.Last())
	case "tryUnset":
		return b(interface{}(s).(verifC13TryUnset).tryUnset(arg))
	case "trySet":
		return b(interface{}(s).(verifC13TrySet).trySet(arg))
	case "setChannel":
		return b(s.SetChannel(arg != 0))
	case "canStop":
		return b(s.ChannelCanStop())
	case "canStart":
		return b(s.ChannelCanStart())
	case "tag":
		return b(s.Tag())
	case "ready":
		return b(s.Ready())
	case "canRecv":
		return b(s.CanRecv())
	case "closing":
		return b(s.Closing())
	case "Seen":
		return b(s.Seen())
	case "Moving":
		return b(s.Moving())
	case "Closed":
		return b(s.Closed())
	case "Channel":
		return b(s.Channel())
	case "Replacing":
		return b(s.Replacing())
	case "ShutdownWait":
		return b(s.ShutdownWait())
	case "ChannelValue":
		return b(s.ChannelValue())
	case "ChannelProxy":
		return b(s.ChannelProxy())
	case "ChannelUpdated":
		return b(s.ChannelUpdated())
	case "Closing":
		return b(s.Closing())
	case "Shutdown":
		return b(s.Shutdown())
	case "RecvClosed":
		return b(s.RecvClosed())
	case "SendClosed":
		return b(s.SendClosed())
	case "WakeClosed":
		return b(s.WakeClosed())
	}
	panic("VerifC13Call: unknown op " + op)
}

// ---- access hooks + cooperative scheduler ------------------------------------------------------

// VerifC13Sched serialises the shared-memory accesses of a set of threads on one state word.
type VerifC13Sched struct {
	Word    *uint32
	cur     int
	grant   []chan struct{}
	event   chan int // tid = parked in front of an access; -1-tid = thread finished
	Loads   int
	Stores  int
	CASOk   int
	CASFail int
	Panics  []string
}

var verifC13Cur atomic.Pointer[VerifC13Sched]

func (sc *VerifC13Sched) yield() {
	t := sc.cur
	sc.event <- t
	<-sc.grant[t]
}

func verifC13Load(p *uint32) uint32 {
	if sc := verifC13Cur.Load(); sc != nil && sc.Word == p {
		sc.yield()
		sc.Loads++
	}
	return atomic.LoadUint32(p)
}
func verifC13Store(p *uint32, v uint32) {
	if sc := verifC13Cur.Load(); sc != nil && sc.Word == p {
		sc.yield()
		sc.Stores++
	}
	atomic.StoreUint32(p, v)
}
func verifC13CAS(p *uint32, o, n uint32) bool {
	sc := verifC13Cur.Load()
	if sc != nil && sc.Word == p {
		sc.yield()
	} else {
		sc = nil
	}
	ok := atomic.CompareAndSwapUint32(p, o, n)
	if sc != nil {
		if ok {
			sc.CASOk++
		} else {
			sc.CASFail++
		}
	}
	return ok
}

// VerifC13Run runs the thread bodies under the cooperative scheduler: entry t of sched lets thread
// t perform exactly one shared-memory access on *word (an entry for a finished thread is a
// stutter).  After the list is exhausted the remaining threads are run to completion one after
// the other (the drain suffix is appended to the returned schedule), at most maxDrain accesses.
// ok=false: a thread did not finish within maxDrain accesses.
func VerifC13Run(word *uint32, threads []func(), sched []int, maxDrain int) (executed []int, sc *VerifC13Sched, ok bool) {
	n := len(threads)
	sc = &VerifC13Sched{Word: word, grant: make([]chan struct{}, n), event: make(chan int)}
	verifC13Cur.Store(sc)
	defer verifC13Cur.Store(nil)
	done := make([]bool, n)
	for t := range threads {
		sc.grant[t] = make(chan struct{})
		sc.cur = t
		go func(t int) {
			defer func() {
				if e := recover(); e != nil {
					sc.Panics = append(sc.Panics, fmt.Sprint(e))
				}
				sc.event <- -1 - t
			}()
			threads[t]()
		}(t)
		if e := <-sc.event; e < 0 {
			done[t] = true
		}
	}
	step := func(t int) {
		sc.cur = t
		sc.grant[t] <- struct{}{}
		if e := <-sc.event; e < 0 {
			done[t] = true
		}
	}
	for _, t := range sched {
		if t < 0 || t >= n {
			continue
		}
		executed = append(executed, t)
		if !done[t] {
			step(t)
		}
	}
	ok = true
	for t := 0; t < n; t++ {
		for k := 0; !done[t]; k++ {
			if k >= maxDrain {
				// leave the goroutine parked; it is unreachable once the scheduler is uninstalled
				return executed, sc, false
			}
			step(t)
			executed = append(executed, t)
		}
	}
	return executed, sc, true
}
