//go:build verif

package c2

// Round s3 of C13: the cooperative scheduler of the run in progress (zz_verif_c13.go), so that a
// thread body of the harness can read its access counters (Loads, Stores, CASOk, CASFail) between
// two of its own accesses: number of shared-memory accesses performed so far = position of the
// next access.  Only the thread holding the grant runs, so the read is race-free.
func VerifC13S3Current() *VerifC13Sched { return verifC13Cur.Load() }
