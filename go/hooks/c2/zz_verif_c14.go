//go:build verif

package c2

// Verification hooks for property C14 (Job life cycle). Mounted by -overlay, never part of /repo.
//
// verifC14Yield / verifC14Recv / verifC14Rand are called from the rewritten copies of job.go and
// session_no_implant.go (see lib/props/C14.json "rewrites"). Without an installed scheduler they
// are no-ops / the direct primitive, so other properties sharing the binary are not affected.

import (
	"sync/atomic"
	"time"

	"github.com/iDigitalFlame/xmt/com"
	"github.com/iDigitalFlame/xmt/device"
	"github.com/iDigitalFlame/xmt/util"
)

// VerifC14Hooks is the cooperative scheduler interface installed by the harness.
type VerifC14Hooks struct {
	Yield func(label string) // park the calling (scheduled) goroutine at a yield point
	Rand  func() uint32      // scripted PRNG for newJobID
}

var verifC14H atomic.Value // *VerifC14Hooks

// VerifC14Install installs (or with nil removes) the scheduler hooks.
func VerifC14Install(h *VerifC14Hooks) {
	if h == nil {
		h = &VerifC14Hooks{}
	}
	verifC14H.Store(h)
}
func verifC14Get() *VerifC14Hooks {
	if v := verifC14H.Load(); v != nil {
		return v.(*VerifC14Hooks)
	}
	return nil
}
func verifC14Yield(label string) {
	if h := verifC14Get(); h != nil && h.Yield != nil {
		h.Yield(label)
	}
}

// verifC14Recv is `<-d` under the cooperative scheduler: a receive that would block parks the
// goroutine at label "Wb" (a no-op step) and polls again when scheduled. A nil channel never
// becomes ready, exactly as in Go.
func verifC14Recv(d chan struct{}) {
	h := verifC14Get()
	if h == nil || h.Yield == nil {
		<-d
		return
	}
	for {
		select {
		case <-d:
			return
		default:
		}
		h.Yield("Wb")
	}
}
func verifC14Rand() uint32 {
	if h := verifC14Get(); h != nil && h.Rand != nil {
		return h.Rand()
	}
	return util.FastRand()
}

// Status constants and literals for the facts.
const (
	VerifC14StatusWaiting   = uint64(StatusWaiting)
	VerifC14StatusAccepted  = uint64(StatusAccepted)
	VerifC14StatusReceiving = uint64(StatusReceiving)
	VerifC14StatusCompleted = uint64(StatusCompleted)
	VerifC14StatusError     = uint64(StatusError)
	VerifC14StatusCanceled  = uint64(StatusCanceled)
	VerifC14RvResult        = RvResult
)

// VerifC14NewSession builds a bare server-side Session (job table, send queue of the given
// capacity, a parent Listener so that it is not a client session). No goroutines are started.
func VerifC14NewSession(sendCap int) *Session {
	var id device.ID
	for i := range id {
		id[i] = byte(0xA0 + i)
	}
	s := &Session{
		ID:     id,
		jobs:   make(map[uint16]*Job),
		send:   make(chan *com.Packet, sendCap),
		parent: new(Listener),
	}
	s.Device.ID = id
	s.m = make(eventer, 64)
	return s
}

// VerifC14Device returns the device ID used by sessions of VerifC14NewSession.
func VerifC14Device(s *Session) device.ID { return s.ID }

func VerifC14Handle(s *Session, p *com.Packet) bool   { return s.handle(p) }
func VerifC14Accept(s *Session, i uint16)             { s.accept(i) }
func VerifC14Frag(s *Session, i, id, max, cur uint16) { s.frag(i, id, max, cur) }
func VerifC14HasJob(s *Session, i uint16) bool        { return s.hasJob(i) }
func VerifC14NewJobID(s *Session) uint16              { return s.newJobID() }
func VerifC14Done(j *Job) chan struct{}               { return j.done }
func VerifC14DoneNil(j *Job) bool                     { return j.done == nil }
func VerifC14JobSession(j *Job) *Session              { return j.s }

// VerifC14TableGet reads the pending table directly (under the lock).
func VerifC14TableGet(s *Session, i uint16) (*Job, bool) {
	s.lock.RLock()
	j, ok := s.jobs[i]
	s.lock.RUnlock()
	return j, ok
}

// VerifC14Table returns a copy of the pending table.
func VerifC14Table(s *Session) map[uint16]*Job {
	s.lock.RLock()
	m := make(map[uint16]*Job, len(s.jobs))
	for k, v := range s.jobs {
		m[k] = v
	}
	s.lock.RUnlock()
	return m
}

// VerifC14TableSet inserts directly into the pending table (used to pre-fill the table for the
// newJobID differential; never used for Jobs whose life cycle is checked).
func VerifC14TableSet(s *Session, i uint16) {
	s.lock.Lock()
	s.jobs[i] = &Job{ID: i, s: s, done: make(chan struct{})}
	s.lock.Unlock()
}

// VerifC14Fill puts n placeholder packets (Job 0, ID 0) on the send queue; VerifC14Drain removes
// everything queued and returns the Job numbers of the non-placeholder packets in queue order.
func VerifC14Fill(s *Session, n int) {
	for i := 0; i < n; i++ {
		select {
		case s.send <- &com.Packet{}:
		default:
			return
		}
	}
}
func VerifC14Drain(s *Session) []uint16 {
	var r []uint16
	for {
		select {
		case p := <-s.send:
			if p != nil && p.ID != 0 {
				r = append(r, p.Job)
			}
		default:
			return r
		}
	}
}

// VerifC14TryLock reports whether the session lock can be taken right now (it is released
// again at once); false means some goroutine died or parked while holding it.
func VerifC14TryLock(s *Session) bool {
	if !s.lock.TryLock() {
		return false
	}
	s.lock.Unlock()
	return true
}

// VerifC14Resync feeds an SvResync packet to the real system-packet handler (receiveSingle, the
// consumer of hasJob) and reports whether the Session's sleep / jitter changed.
func VerifC14Resync(s *Session, n *com.Packet) (applied bool) {
	sl, ji := s.sleep, s.jitter
	receiveSingle(s, n)
	return s.sleep != sl || s.jitter != ji
}

// VerifC14SetSleep sets the Session's sleep / jitter (the values an SvResync would replace).
func VerifC14SetSleep(s *Session, d time.Duration, j uint8) { s.sleep, s.jitter = d, j }

// VerifC14TableDel removes a number from the pending table (what a finished or cancelled Job leaves).
func VerifC14TableDel(s *Session, i uint16) {
	s.lock.Lock()
	delete(s.jobs, i)
	s.lock.Unlock()
}
