//go:build verif

package c2

// Verification hooks for property C14, sub-step extension (model XMT/JobSub.lean). Mounted by
// -overlay, never part of /repo.
//
// verifC14YieldS marks the yield points INSIDE locked regions (between the single writes of
// Job.Cancel and Session.frag) and in front of the reads that follow IsDone in IsError. They are
// only active while the sub-step scheduler is installed (VerifC14InstallS), so the schedules of the
// coarse model (one action per locked region) are executed exactly as before.
//
// verifC14Lock / verifC14RLock replace Lock / RLock in the rewritten copies: under the sub-step
// scheduler a thread that finds the lock held parks at label "Lb" (a no-op step of the model) and
// tries again when scheduled, instead of blocking the one goroutine the scheduler has released.

import (
	"sync"
	"sync/atomic"
)

var verifC14SOn atomic.Bool

// VerifC14InstallS switches the sub-step yield points on or off.
func VerifC14InstallS(on bool) { verifC14SOn.Store(on) }

func verifC14YieldS(label string) {
	if verifC14SOn.Load() {
		verifC14Yield(label)
	}
}

// VerifC14YieldPoint is a yield point of the harness' own reader threads (the reads of j.Status,
// j.Result, j.Error after Wait / IsDone).
func VerifC14YieldPoint(label string) { verifC14YieldS(label) }

func verifC14Lock(l *sync.RWMutex) {
	if !verifC14SOn.Load() {
		l.Lock()
		return
	}
	for !l.TryLock() {
		verifC14Yield("Lb")
	}
}
func verifC14RLock(l *sync.RWMutex) {
	if !verifC14SOn.Load() {
		l.RLock()
		return
	}
	for !l.TryRLock() {
		verifC14Yield("Lb")
	}
}

// VerifC14TablePeek copies the pending table WITHOUT taking the lock. Only for the cooperative
// scheduler (exactly one goroutine of the case runs at a time, the others are parked), where the
// lock may legitimately be held by a parked thread.
func VerifC14TablePeek(s *Session) map[uint16]*Job {
	m := make(map[uint16]*Job, len(s.jobs))
	for k, v := range s.jobs {
		m[k] = v
	}
	return m
}

// VerifC14LockFree reports whether the session lock is free right now.
func VerifC14LockFree(s *Session) bool {
	if !s.lock.TryLock() {
		return false
	}
	s.lock.Unlock()
	return true
}
