//go:build verif

package c2

import (
	"github.com/iDigitalFlame/xmt/c2/cout"
	"github.com/iDigitalFlame/xmt/com"
)

// VerifC14ReceiveVia feeds a packet to the real receive(s, s.parent, n) (the path of a packet read
// from a connection: single results are queued as events, batches are unpacked first).
func VerifC14ReceiveVia(s *Session, n *com.Packet) error { return receive(s, s.parent, n) }

// VerifC14ProcessEvents runs the real event.process on every event queued for the Session's mux
// (what the Server's event thread does) and returns how many it processed.
func VerifC14ProcessEvents(s *Session) int {
	m, ok := s.m.(eventer)
	if !ok {
		return 0
	}
	n := 0
	for len(m) > 0 {
		e := <-m
		e.process(cout.Log{})
		n++
	}
	return n
}
