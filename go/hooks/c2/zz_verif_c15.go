//go:build verif

package c2

// Verification hooks for property C15 (packets are only processed in the session of the device
// they name).  Nothing here changes behaviour: the hooks build a real Server + Listener (no
// socket), a real Proxy (no socket) and call the unexported entry points talk / talkSub /
// accept / resolve with packets built by the harness, and expose read-only snapshots.

import (
	"context"
	"sort"
	"sync"
	"time"

	"github.com/iDigitalFlame/xmt/com"
	"github.com/iDigitalFlame/xmt/data"
	"github.com/iDigitalFlame/xmt/device"
	"github.com/iDigitalFlame/xmt/device/local"
)

// VerifC15Recv is one "handler fired" observation: the Session whose Receive callback ran and the
// packet it ran for.
type VerifC15Recv struct {
	Sess device.ID
	Dev  device.ID
	ID   uint8
	Job  uint16
}

// VerifC15Sess is a read-only snapshot of one entry of Server.sessions.
type VerifC15Sess struct {
	Key     uint32
	ID      device.ID
	Host    string
	LastSet bool
	Pub     data.PublicKey
	Queued  int
	Ptr     *Session
}

// VerifC15Env is a real Server with one real Listener that has no socket.
type VerifC15Env struct {
	S    *Server
	L    *Listener
	mu   sync.Mutex
	recv []VerifC15Recv
	one  []device.ID
	news []device.ID
	shut []device.ID
}

// VerifC15Consts exposes the unexported/typed constants the model consumes.
func VerifC15Consts() map[string]uint64 {
	return map[string]uint64{
		"c15SvResync": uint64(SvResync), "c15SvHello": uint64(SvHello), "c15SvRegister": uint64(SvRegister),
		"c15SvComplete": uint64(SvComplete), "c15SvShutdown": uint64(SvShutdown), "c15SvDrop": uint64(SvDrop),
		"c15FlagFrag": uint64(com.FlagFrag), "c15FlagMulti": uint64(com.FlagMulti), "c15FlagProxy": uint64(com.FlagProxy),
		"c15FlagOneshot": uint64(com.FlagOneshot), "c15FlagMultiDevice": uint64(com.FlagMultiDevice),
		"c15FlagCrypt": uint64(com.FlagCrypt), "c15FlagChannel": uint64(com.FlagChannel),
		"c15FlagChannelEnd": uint64(com.FlagChannelEnd), "c15FlagError": uint64(com.FlagError),
		"c15PacketMaxTags": uint64(com.PacketMaxTags), "c15IDSize": uint64(device.IDSize),
	}
}

func VerifC15NewEnv() *VerifC15Env {
	s := NewServer(nil)
	s.Keys.Fill()
	e := &VerifC15Env{S: s}
	s.New = func(x *Session) {
		x.Receive = e.onRecv
		e.mu.Lock()
		e.news = append(e.news, x.ID)
		e.mu.Unlock()
	}
	s.Oneshot = func(p *com.Packet) {
		e.mu.Lock()
		e.one = append(e.one, p.Device)
		e.mu.Unlock()
	}
	s.Shutdown = func(x *Session) {
		e.mu.Lock()
		e.shut = append(e.shut, x.ID)
		e.mu.Unlock()
	}
	l := &Listener{ch: make(chan struct{}), name: "verif", connection: connection{s: s, m: s, log: s.log}}
	l.ctx, l.cancel = context.WithCancel(s.ctx)
	e.L = l
	s.init.Do(func() { go s.listen() })
	return e
}

func (e *VerifC15Env) onRecv(s *Session, p *com.Packet) {
	e.mu.Lock()
	e.recv = append(e.recv, VerifC15Recv{Sess: s.ID, Dev: p.Device, ID: p.ID, Job: p.Job})
	e.mu.Unlock()
}

// Sync waits until the Server's event goroutine has processed everything queued so far (events
// and pending session removals).
func (e *VerifC15Env) Sync() bool {
	for round := 0; round < 3; round++ {
		dl := time.Now().Add(5 * time.Second)
		for len(e.S.delSession) > 0 {
			if time.Now().After(dl) {
				return false
			}
			time.Sleep(50 * time.Microsecond)
		}
		done := make(chan struct{})
		e.S.queue(event{s: &Session{}, sf: func(*Session) { close(done) }})
		select {
		case <-done:
		case <-time.After(5 * time.Second):
			return false
		}
	}
	return true
}

// Close shuts the Server goroutine down.
func (e *VerifC15Env) Close() {
	e.S.cancel()
	select {
	case <-e.S.ch:
	case <-time.After(5 * time.Second):
	}
}

// Drain returns and clears the observations made so far.
func (e *VerifC15Env) Drain() (recv []VerifC15Recv, one, news, shut []device.ID) {
	e.mu.Lock()
	recv, one, news, shut = e.recv, e.one, e.news, e.shut
	e.recv, e.one, e.news, e.shut = nil, nil, nil, nil
	e.mu.Unlock()
	return
}

// Table returns a snapshot of Server.sessions sorted by key.
func (e *VerifC15Env) Table() []VerifC15Sess {
	e.S.lock.RLock()
	r := make([]VerifC15Sess, 0, len(e.S.sessions))
	for k, v := range e.S.sessions {
		r = append(r, VerifC15Sess{Key: k, ID: v.ID, Host: v.host.String(), LastSet: !v.Last.IsZero(), Pub: v.keys.Public, Queued: len(v.send) + verifC15B2I(v.peek != nil), Ptr: v})
	}
	e.S.lock.RUnlock()
	sort.Slice(r, func(i, j int) bool { return r[i].Key < r[j].Key })
	return r
}

// ClearMarks resets host / Last of every registered Session so that the next operation's
// touches are visible in the next snapshot.
func (e *VerifC15Env) ClearMarks() {
	e.S.lock.RLock()
	for _, v := range e.S.sessions {
		v.host.Set("")
		v.Last = time.Time{}
		for i := range v.keys.Public {
			v.keys.Public[i] = 0xA5 // sentinel: any keys.Read on this Session becomes visible
		}
	}
	e.S.lock.RUnlock()
}

// VerifC15Out is the result of one talk.
type VerifC15Out struct {
	Err     error
	OK      bool
	Next    *com.Packet
	HostNil bool
	HostID  device.ID
	Subs    []uint32
}

func (e *VerifC15Env) Talk(a string, n *com.Packet) VerifC15Out {
	c, ok, err := e.L.talk(a, n)
	o := VerifC15Out{Err: err, OK: ok}
	if c != nil {
		o.Next = c.next
		o.HostNil = c.host == nil
		if c.host != nil {
			o.HostID = c.host.clientID()
		}
		for k, v := range c.subs {
			if v {
				o.Subs = append(o.Subs, k)
			}
		}
		sort.Slice(o.Subs, func(i, j int) bool { return o.Subs[i] < o.Subs[j] })
	}
	return o
}

// TalkSub calls the real Listener.talkSub; returns the id of the returned host (if any), the
// returned hash, the returned packet and error.
func (e *VerifC15Env) TalkSub(a string, n *com.Packet, o bool) (bool, device.ID, uint32, *com.Packet, error) {
	h, q, r, err := e.L.talkSub(a, n, o)
	if h == nil {
		return false, device.ID{}, q, r, err
	}
	return true, h.clientID(), q, r, err
}

// QueueTo queues an outbound packet on a registered Session (found by pointer identity from
// Table) exactly as Session.Task / Send would: through the real Session.queue.
func (e *VerifC15Env) QueueTo(s *Session, n *com.Packet) { s.queue(n) }

// Lookup is the real Server.Session.
func (e *VerifC15Env) Lookup(i device.ID) (bool, device.ID) {
	v := e.S.Session(i)
	if v == nil {
		return false, device.ID{}
	}
	return true, v.ID
}

// Remove is the real Server.Remove(i, false) followed by a barrier.
func (e *VerifC15Env) Remove(i device.ID) bool {
	e.S.Remove(i, false)
	return e.Sync()
}

// VerifC15HelloPayload writes what a client puts into its first (hello) packet.
func VerifC15HelloPayload(n *com.Packet, id device.ID, key bool) {
	s := &Session{ID: id, Device: local.Device.Machine}
	s.Device.ID = id
	s.writeDeviceInfo(infoHello, n)
	if key {
		s.keySessionGenerate(n)
	}
}

// ---- proxy ------------------------------------------------------------------------------------

// VerifC15Proxy is a real Proxy (no socket) on top of a real client-side Session (no connection).
type VerifC15Proxy struct {
	P      *Proxy
	Parent *Session
}

type VerifC15Client struct {
	Key    uint32
	ID     device.ID
	Seen   bool
	Queued []VerifC15Leaf
}
type VerifC15Leaf struct {
	Dev device.ID
	ID  uint8
	Job uint16
}

func VerifC15NewProxy(parent device.ID) *VerifC15Proxy {
	s := &Session{ID: parent, send: make(chan *com.Packet, 128), wake: make(chan struct{}, 1), ch: make(chan struct{}),
		frags: make(map[uint16]*cluster)}
	s.ctx = context.Background()
	s.m = make(eventer, maxEvents)
	p := &Proxy{ch: make(chan struct{}), close: make(chan uint32, 16), parent: s, clients: make(map[uint32]*proxyClient), name: "vp",
		connection: connection{ctx: s.ctx, log: s.log}}
	p.ctx, p.cancel = context.WithCancel(s.ctx)
	s.proxy = &proxyBase{Proxy: p}
	return &VerifC15Proxy{P: p, Parent: s}
}

// Accept is the real Proxy.accept (called by receive for a packet that does not name the parent).
func (v *VerifC15Proxy) Accept(n *com.Packet) bool { return v.P.accept(n) }

// Talk is the real Proxy.talk.
func (v *VerifC15Proxy) Talk(a string, n *com.Packet) VerifC15Out {
	c, ok, err := v.P.talk(a, n)
	o := VerifC15Out{Err: err, OK: ok}
	if c != nil {
		o.Next = c.next
		o.HostNil = c.host == nil
		if c.host != nil {
			o.HostID = c.host.clientID()
		}
	}
	return o
}

// TalkSub is the real Proxy.talkSub.
func (v *VerifC15Proxy) TalkSub(a string, n *com.Packet, o bool) (bool, device.ID, uint32, *com.Packet, error) {
	h, q, r, err := v.P.talkSub(a, n, o)
	if h == nil {
		return false, device.ID{}, q, r, err
	}
	return true, h.clientID(), q, r, err
}

// Prune applies pending close requests exactly as Proxy.prune does (one pass, no goroutine).
func (v *VerifC15Proxy) Prune() []uint32 {
	var r []uint32
	for {
		select {
		case i := <-v.P.close:
			v.P.lock.RLock()
			if _, ok := v.P.clients[i]; ok {
				delete(v.P.clients, i)
				r = append(r, i)
			}
			v.P.lock.RUnlock()
		default:
			return r
		}
	}
}

// Clients snapshots the proxy's client table; the queued packets are peeked (taken out and put
// back in order).
func (v *VerifC15Proxy) Clients() []VerifC15Client {
	var r []VerifC15Client
	for k, c := range v.P.clients {
		x := VerifC15Client{Key: k, ID: c.ID, Seen: c.state.Seen()}
		if q := c.peek; q != nil { // the carried-over packet is the head of the queue
			x.Queued = append(x.Queued, VerifC15Leaf{Dev: q.Device, ID: q.ID, Job: q.Job})
		}
		n := len(c.send)
		for i := 0; i < n; i++ {
			q := <-c.send
			x.Queued = append(x.Queued, VerifC15Leaf{Dev: q.Device, ID: q.ID, Job: q.Job})
			c.send <- q
		}
		r = append(r, x)
	}
	sort.Slice(r, func(i, j int) bool { return r[i].Key < r[j].Key })
	return r
}

// ClearSeen resets the seen mark of every proxy client.
func (v *VerifC15Proxy) ClearSeen() {
	for _, c := range v.P.clients {
		c.state.Unset(stateSeen)
	}
}

// Upstream drains what the proxy forwarded to its parent Session (to be sent to the server).
func (v *VerifC15Proxy) Upstream() []VerifC15Leaf {
	var r []VerifC15Leaf
	for len(v.Parent.send) > 0 {
		q := <-v.Parent.send
		r = append(r, VerifC15Leaf{Dev: q.Device, ID: q.ID, Job: q.Job})
	}
	return r
}

// Receive is the real client-side receive() of the proxy's parent Session with the proxy
// attached (this is how packets coming down from the server reach Proxy.accept).
func (v *VerifC15Proxy) Receive(n *com.Packet) error {
	return receive(v.Parent, nil, n)
}

// ParentEvents drains the events queued for the parent Session's own mux (packets the parent
// handled itself).
func (v *VerifC15Proxy) ParentEvents() []VerifC15Leaf {
	var r []VerifC15Leaf
	m := v.Parent.m.(eventer)
	for len(m) > 0 {
		e := <-m
		if e.p != nil {
			r = append(r, VerifC15Leaf{Dev: e.p.Device, ID: e.p.ID, Job: e.p.Job})
		}
	}
	return r
}

func verifC15B2I(b bool) int {
	if b {
		return 1
	}
	return 0
}

// ---- channel mode (conn.resolve with o = true) --------------------------------------------------

// VerifC15Chan is one long-lived connection of the registered Session Host in channel mode.
type VerifC15Chan struct {
	E    *VerifC15Env
	C    *conn
	Host *Session
}

// NewChan returns a channel connection whose host is the registered Session of id (nil if none).
func (e *VerifC15Env) NewChan(id device.ID) *VerifC15Chan {
	s := e.S.Session(id)
	if s == nil {
		return nil
	}
	return &VerifC15Chan{E: e, C: &conn{host: s}, Host: s}
}

// Resolve is the real conn.resolve(…, tags, true): what channelRead does with the tags of every
// packet it reads.
func (v *VerifC15Chan) Resolve(tags []uint32) error {
	return v.C.resolve(v.E.L.log, v.Host, v.E.L, "A", tags, true)
}

// Redirected lists the Sessions whose outbound queue currently points at this connection.
func (v *VerifC15Chan) Redirected() []device.ID {
	var r []device.ID
	v.E.S.lock.RLock()
	for _, s := range v.E.S.sessions {
		if s.chn != nil && s.chn == v.Host.send {
			r = append(r, s.ID)
		}
	}
	v.E.S.lock.RUnlock()
	return r
}

// QueueFor queues a packet for the registered Session of id through the real Session.queue and
// reports whether it landed in the host's channel (true) or in the Session's own queue.
func (v *VerifC15Chan) QueueFor(id device.ID, n *com.Packet) (found, viaHost bool) {
	s := v.E.S.Session(id)
	if s == nil {
		return false, false
	}
	before := len(v.Host.send)
	s.queue(n)
	return true, len(v.Host.send) > before && s != v.Host
}

// VerifC15HelloKeys writes a hello like VerifC15HelloPayload(n, id, true) and returns the client's
// KeyPair completed with the server's public key (what keySessionSync does with the registration
// answer): the pair the client uses from then on.
func (e *VerifC15Env) VerifC15HelloKeys(n *com.Packet, id device.ID) (data.KeyPair, error) {
	s := &Session{ID: id, Device: local.Device.Machine}
	s.Device.ID = id
	s.writeDeviceInfo(infoHello, n)
	s.keySessionGenerate(n)
	k := s.keys
	if err := k.FillPublic(e.S.Keys.Public); err != nil {
		return k, err
	}
	return k, nil
}

// SessionOf returns the registered Session of a device (nil when there is none).
func (e *VerifC15Env) SessionOf(i device.ID) *Session { return e.S.Session(i) }
