//go:build verif

package c2

import "github.com/iDigitalFlame/xmt/com"

// Process is the real conn.process(…, n, true): what channelRead does with every packet it reads
// from a channel connection.
func (v *VerifC15Chan) Process(n *com.Packet) error {
	return v.C.process(v.E.L.log, v.E.L, "A", n, true)
}
