//go:build verif

package c2

// Verification hooks for property C16 (closing). Mounted by -overlay, never part of /repo.
//
// verifC16Yield / verifC16RecvCh are called from the rewritten copies of session.go, vars.go,
// channel.go and types.go (lib/props/C16.json "rewrites"); the integer label of a yield point IS
// the pc of the Lean model's action that follows it (XMT/Close.lean). Without an installed
// scheduler they are no-ops / the direct primitive, so the other properties that share the binary
// and the end-to-end runs are not affected.

import (
	"context"
	"fmt"
	"sync"
	"sync/atomic"
	"time"

	"github.com/iDigitalFlame/xmt/c2/cfg"
	"github.com/iDigitalFlame/xmt/c2/cout"
	"github.com/iDigitalFlame/xmt/com"
	"github.com/iDigitalFlame/xmt/device"
)

// VerifC16Hooks is the cooperative scheduler interface installed by the harness.
type VerifC16Hooks struct {
	Yield func(pc int) // park the calling (scheduled) goroutine in front of action pc
}

var verifC16H atomic.Value // *VerifC16Hooks

// VerifC16Install installs (or with nil removes) the scheduler hooks.
func VerifC16Install(h *VerifC16Hooks) {
	if h == nil {
		h = &VerifC16Hooks{}
	}
	verifC16H.Store(h)
}
func verifC16Get() *VerifC16Hooks {
	if v := verifC16H.Load(); v != nil {
		return v.(*VerifC16Hooks)
	}
	return nil
}
func verifC16Yield(pc int) {
	if h := verifC16Get(); h != nil && h.Yield != nil {
		h.Yield(pc)
	}
}

// VerifC16MaxErrors is the error budget of the client loop.
const VerifC16MaxErrors = maxErrors

// VerifC16SvShutdown is the id of the shutdown packet.
const VerifC16SvShutdown = SvShutdown

// VerifC16Session is a handle on a bare Session built for the schedule replay.
type VerifC16Session struct {
	S      *Session
	Srv    *Server
	Cancel context.CancelFunc
}

func verifC16ID() device.ID {
	var id device.ID
	for i := range id {
		id[i] = byte(0xC0 + i)
	}
	return id
}

// VerifC16NewServerSession builds a Server (no goroutine is started: its loop is not run, the
// requests to unlist stay observable in Server.delSession), a Listener and one registered
// server-side Session the way Listener.talk creates it, with q packets queued.
func VerifC16NewServerSession(hasRecv, canRecv bool, q int) *VerifC16Session {
	srv := NewServer(nil)
	l := &Listener{ch: make(chan struct{}), name: "c16", connection: connection{s: srv, m: srv, log: srv.log}}
	l.ctx, l.cancel = context.WithCancel(context.Background())
	id := verifC16ID()
	s := &Session{
		ch:         make(chan struct{}),
		ID:         id,
		jobs:       make(map[uint16]*Job),
		send:       make(chan *com.Packet, 128),
		wake:       make(chan struct{}, 1),
		frags:      make(map[uint16]*cluster),
		parent:     l,
		Created:    time.Now(),
		connection: connection{s: l.s, m: l.m, log: l.log, ctx: l.ctx},
	}
	s.Device.ID = id
	if hasRecv {
		s.recv = make(chan *com.Packet, 128)
	}
	if canRecv {
		s.state.Set(stateCanRecv)
	}
	srv.lock.Lock()
	srv.sessions[id.Hash()] = s
	srv.lock.Unlock()
	verifC16Fill(s, q)
	return &VerifC16Session{S: s, Srv: srv, Cancel: l.cancel}
}

// VerifC16NewClientSession builds a client-side Session exactly like the tail of
// connectContextInner does (keys are zero: packets go out unencrypted); no goroutine is started.
func VerifC16NewClientSession(p cfg.Profile, hasRecv, canRecv bool, q int) *VerifC16Session {
	x, cancel := context.WithCancel(context.Background())
	id := verifC16ID()
	s := &Session{ID: id}
	s.Device.ID = id
	s.log, s.sleep = cout.New(nil), 2*time.Millisecond
	var h string
	h, s.w, s.t = p.Next()
	s.host.Set(h)
	s.p, s.wake, s.ch = p, make(chan struct{}, 1), make(chan struct{})
	s.frags, s.m = make(map[uint16]*cluster), make(eventer, maxEvents)
	s.ctx, s.send, s.tick = x, make(chan *com.Packet, 128), newSleeper(s.sleep)
	if hasRecv {
		s.recv = make(chan *com.Packet, 128)
	}
	if canRecv {
		s.state.Set(stateCanRecv)
	}
	verifC16Fill(s, q)
	return &VerifC16Session{S: s, Cancel: cancel}
}

func verifC16Fill(s *Session, q int) {
	for i := 0; i < q; i++ {
		select {
		case s.send <- &com.Packet{ID: 0xC8, Job: uint16(100 + i), Device: s.ID}:
		default:
		}
	}
}

// entry points of the model's thread kinds (the real functions)
func (v *VerifC16Session) Close(w bool) { v.S.close(w) }
func (v *VerifC16Session) RecvShutdown() {
	receiveSingle(v.S, &com.Packet{ID: SvShutdown, Device: v.S.ID})
}
func (v *VerifC16Session) Listen()   { v.S.listen() }
func (v *VerifC16Session) WaitCh()   { v.S.Wait() }
func (v *VerifC16Session) Queue()    { v.S.queue(&com.Packet{ID: 0xC8, Job: 77, Device: v.S.ID}) }
func (v *VerifC16Session) Wake()     { v.S.Wake() }
func (v *VerifC16Session) ChanWake() { v.S.chanWake() }
func (v *VerifC16Session) EvLoop() {
	if e, ok := v.S.m.(eventer); ok {
		e.listen(v.S)
	}
}

// Next runs the real Session.next(false) (what a connection handler sends back) and reports whether
// the packet it hands to the wire is, or batches, the SvShutdown notification.
func (v *VerifC16Session) Next() bool {
	n := v.S.next(false)
	if n == nil {
		return false
	}
	if n.ID == SvShutdown {
		return true
	}
	if n.Flags&com.FlagMulti != 0 {
		for x := n.Flags.Len(); x > 0; x-- {
			var p com.Packet
			if err := p.UnmarshalStream(n); err != nil {
				break
			}
			if p.ID == SvShutdown {
				return true
			}
		}
	}
	return false
}

// VerifC16ShutdownPending reports, for a server-side Session, whether the operator's close request
// is still on its way: the SvShutdown packet is held in s.peek, or the Session is already closing.
func VerifC16ShutdownPending(s *Session) bool {
	return (s.peek != nil && s.peek.ID == SvShutdown) || s.state.Closing() || s.state.ShutdownWait()
}

// observations
type VerifC16Obs struct {
	Closing, Shutdown, Closed, SendClose, WakeClose, RecvClose, ShutdownWait bool
	Peek                                                                     bool
	SendLen, WakeLen, DelReq, Errors                                         int
	LockFree                                                                 bool
	ChClosed                                                                 bool
}

func (v *VerifC16Session) Obs() VerifC16Obs {
	s := v.S
	w := atomic.LoadUint32((*uint32)(&s.state))
	o := VerifC16Obs{
		Closing: w&stateClosing != 0, Shutdown: w&stateShutdown != 0, Closed: w&stateClosed != 0,
		SendClose: w&stateSendClose != 0, WakeClose: w&stateWakeClose != 0, RecvClose: w&stateRecvClose != 0,
		ShutdownWait: w&stateShutdownWait != 0,
		Peek:         s.peek != nil && s.peek.ID == SvShutdown,
		SendLen:      len(s.send), WakeLen: len(s.wake), Errors: int(s.errors),
	}
	if v.Srv != nil {
		o.DelReq = len(v.Srv.delSession)
	}
	if s.lock.TryLock() {
		o.LockFree = true
		s.lock.Unlock()
	}
	select {
	case <-s.ch:
		o.ChClosed = true
	default:
	}
	return o
}

// ShutdownFlag reports the Shutdown flag (set by the closing arm of the client loop).
func (v *VerifC16Session) ShutdownFlag() bool { return v.S.state.Shutdown() }

// LockFree: can the write lock be taken right now (no writer, no reader)?
func (v *VerifC16Session) LockFree() bool {
	if v.S.lock.TryLock() {
		v.S.lock.Unlock()
		return true
	}
	return false
}

// RLockFree: can a read lock be taken right now (no writer)?
func (v *VerifC16Session) RLockFree() bool {
	if v.S.lock.TryRLock() {
		v.S.lock.RUnlock()
		return true
	}
	return false
}
func (v *VerifC16Session) ChClosed() bool {
	select {
	case <-v.S.ch:
		return true
	default:
		return false
	}
}
func (v *VerifC16Session) CtxDone() bool {
	select {
	case <-v.S.ctx.Done():
		return true
	default:
		return false
	}
}

// EvClosed reports whether the client's event queue was closed (only valid once nothing is queued).
func (v *VerifC16Session) EvClosed() bool {
	e, ok := v.S.m.(eventer)
	if !ok {
		return false
	}
	if len(e) > 0 {
		return false
	}
	select {
	case _, ok := <-e:
		return !ok
	default:
		return false
	}
}

// ClosedChans drains the packet channels and reports which of send / wake / recv are closed
// (destructive: call once, at the end of a case).
func (v *VerifC16Session) ClosedChans() (send, wake, recv bool) {
	s := v.S
	for {
		select {
		case _, ok := <-s.send:
			if !ok {
				send = true
			} else {
				continue
			}
		default:
		}
		break
	}
	for {
		select {
		case _, ok := <-s.wake:
			if !ok {
				wake = true
			} else {
				continue
			}
		default:
		}
		break
	}
	if s.recv != nil {
		for {
			select {
			case _, ok := <-s.recv:
				if !ok {
					recv = true
				} else {
					continue
				}
			default:
			}
			break
		}
	}
	return
}

// Listed reports whether the Server still lists the Session; ServeDel runs the body of the
// Server.listen arm `case i := <-s.delSession` once (the loop itself is not running here).
func (v *VerifC16Session) Listed() bool {
	if v.Srv == nil {
		return false
	}
	return v.Srv.Session(v.S.ID) != nil
}
func (v *VerifC16Session) StopTick() {
	if v.S.tick != nil {
		v.S.tick.Stop()
	}
}

// VerifC16CloseWithoutSocket closes a Listener that has no socket: the state Listener.Replace leaves
// behind between dropping the old socket and binding the new one (stateReplacing set, listener nil),
// which is also the state in which Replace itself calls Close when the new address cannot be bound.
// The real listen() goroutine runs (it idles while replacing). Returns the panic text (if any) and
// whether Close returned with the Listener's Done channel closed.
func VerifC16CloseWithoutSocket(callers int) (panicked string, returned, closed bool) {
	e := VerifC15NewEnv()
	defer e.Close()
	l := e.L
	l.state.Set(stateReplacing)
	go l.listen()
	time.Sleep(2 * time.Millisecond)
	var mu sync.Mutex
	done := make(chan struct{}, callers)
	for i := 0; i < callers; i++ {
		go func() {
			defer func() {
				if r := recover(); r != nil {
					mu.Lock()
					panicked = fmt.Sprint(r)
					mu.Unlock()
				}
				done <- struct{}{}
			}()
			l.Close()
		}()
	}
	returned = true
	for i := 0; i < callers; i++ {
		select {
		case <-done:
		case <-time.After(5 * time.Second):
			returned = false
		}
	}
	select {
	case <-l.ch:
		closed = true
	default:
	}
	return
}
