//go:build verif

package c2

// Verification hooks for property C16, extension: Server / Listener teardown (XMT/Teardown.lean).
// verifC16S3Yield is called from the rewritten copies of server.go / listener.go (lib/props/C16.json
// "rewrites"); the label of a yield point IS the pc of the model action that follows it. Without an
// installed scheduler it is a no-op, so everything else that shares the binary is unaffected.

import (
	"context"
	"net"
	"strconv"
	"sync"
	"sync/atomic"
	"time"

	"github.com/iDigitalFlame/xmt/com"
	"github.com/iDigitalFlame/xmt/device"
)

// VerifC16S3Hooks is the cooperative scheduler interface of the teardown replay.
type VerifC16S3Hooks struct {
	Yield func(pc, listener int)
}

var verifC16S3H atomic.Value // *VerifC16S3Hooks

func VerifC16S3Install(h *VerifC16S3Hooks) {
	if h == nil {
		h = &VerifC16S3Hooks{}
	}
	verifC16S3H.Store(h)
}

// verifC16S3Yield parks the calling goroutine in front of action pc (always returns true so that it
// can be placed inside a condition).
func verifC16S3Yield(pc int, l *Listener) bool {
	v := verifC16S3H.Load()
	if v == nil {
		return true
	}
	h := v.(*VerifC16S3Hooks)
	if h.Yield == nil {
		return true
	}
	j := -1
	if l != nil && len(l.name) > 1 && l.name[0] == 'l' {
		if x, err := strconv.Atoi(l.name[1:]); err == nil {
			j = x
		}
	}
	h.Yield(pc, j)
	return true
}

// verifC16S3Sock is a socket-less net.Listener: Accept blocks until Close.
type verifC16S3Sock struct {
	once sync.Once
	ch   chan struct{}
}

func (k *verifC16S3Sock) Accept() (net.Conn, error) {
	<-k.ch
	return nil, net.ErrClosed
}
func (k *verifC16S3Sock) Close() error {
	k.once.Do(func() { close(k.ch) })
	return nil
}
func (k *verifC16S3Sock) Addr() net.Addr { return &net.TCPAddr{IP: net.IPv4(127, 0, 0, 1), Port: 16} }
func (k *verifC16S3Sock) closed() bool {
	select {
	case <-k.ch:
		return true
	default:
		return false
	}
}

// VerifC16S3Env is a real Server whose loop has NOT been started (run word 0), with nl Listeners in
// s.active (contexts derived from the Server's, as Server.Listen does) and ns registered Sessions.
type VerifC16S3Env struct {
	Srv    *Server
	Cancel context.CancelFunc
	L      []*Listener
	socks  []*verifC16S3Sock
	ids    []device.ID
}

func verifC16S3ID(i int) device.ID {
	var id device.ID
	for k := range id {
		id[k] = byte(0x40 + k)
	}
	id[0], id[1], id[device.IDSize-1] = byte(i+1), byte((i+1)>>8), byte(0xA0+i%64)
	return id
}

func VerifC16S3New(nl, ns, nsAll int) *VerifC16S3Env {
	x, cancel := context.WithCancel(context.Background())
	srv := NewServerContext(x, nil)
	e := &VerifC16S3Env{Srv: srv, Cancel: cancel}
	for j := 0; j < nl; j++ {
		k := &verifC16S3Sock{ch: make(chan struct{})}
		l := &Listener{ch: make(chan struct{}), name: "l" + strconv.Itoa(j), listener: k,
			connection: connection{s: srv, m: srv, log: srv.log}}
		l.ctx, l.cancel = context.WithCancel(srv.ctx)
		srv.active[l.name] = l
		e.L, e.socks = append(e.L, l), append(e.socks, k)
	}
	for i := 0; i < nsAll; i++ {
		e.ids = append(e.ids, verifC16S3ID(i))
	}
	for i := 0; i < ns && i < nsAll; i++ {
		var l *Listener
		if nl > 0 {
			l = e.L[0]
		} else {
			l = &Listener{ch: make(chan struct{}), name: "none", connection: connection{s: srv, m: srv, log: srv.log}}
			l.ctx, l.cancel = context.WithCancel(srv.ctx)
		}
		s := &Session{
			ch: make(chan struct{}), ID: e.ids[i], jobs: make(map[uint16]*Job), send: make(chan *com.Packet, 128),
			wake: make(chan struct{}, 1), frags: make(map[uint16]*cluster), parent: l, Created: time.Now(),
			connection: connection{s: srv, m: srv, log: srv.log, ctx: l.ctx},
		}
		s.Device.ID = e.ids[i]
		srv.sessions[e.ids[i].Hash()] = s
	}
	return e
}

// entry points: the real functions
func (e *VerifC16S3Env) Loop()         { e.Srv.listen() }
func (e *VerifC16S3Env) SClose()       { e.Srv.Close() }
func (e *VerifC16S3Env) LListen(j int) { e.L[j].listen() }
func (e *VerifC16S3Env) LClose(j int)  { e.L[j].Close() }
func (e *VerifC16S3Env) Remove(i int)  { e.Srv.Remove(e.ids[i], false) }

// Register runs the real Listener.talk on a hello packet of (unregistered) device i.
func (e *VerifC16S3Env) Register(j, i int) error {
	n := &com.Packet{ID: SvHello, Device: e.ids[i], Job: 7}
	VerifC15HelloPayload(n, e.ids[i], false)
	_, _, err := e.L[j].talk("verif:16", n)
	return err
}

// observations (only called while every scheduled goroutine is parked)
func (e *VerifC16S3Env) CtxDone() bool { return e.Srv.ctx.Err() != nil }
func (e *VerifC16S3Env) Run() uint32   { return atomic.LoadUint32(&e.Srv.run) }
func (e *VerifC16S3Env) ChClosed() bool {
	select {
	case <-e.Srv.ch:
		return true
	default:
		return false
	}
}
func (e *VerifC16S3Env) DLLen() int   { return len(e.Srv.delListener) }
func (e *VerifC16S3Env) DSLen() int   { return len(e.Srv.delSession) }
func (e *VerifC16S3Env) DLCap() int   { return cap(e.Srv.delListener) }
func (e *VerifC16S3Env) DSCap() int   { return cap(e.Srv.delSession) }
func (e *VerifC16S3Env) AnyActive() bool { return len(e.Srv.active) > 0 }
func (e *VerifC16S3Env) Active(j int) bool {
	_, ok := e.Srv.active[e.L[j].name]
	return ok
}
func (e *VerifC16S3Env) SockClosed(j int) bool { return e.socks[j].closed() }
func (e *VerifC16S3Env) LchClosed(j int) bool {
	select {
	case <-e.L[j].ch:
		return true
	default:
		return false
	}
}
func (e *VerifC16S3Env) LState(j int) (closing, closed, ctxDone bool) {
	w := atomic.LoadUint32((*uint32)(&e.L[j].state))
	return w&stateClosing != 0, w&stateClosed != 0, e.L[j].ctx.Err() != nil
}
func (e *VerifC16S3Env) Listed(i int) bool {
	e.Srv.lock.RLock()
	v, ok := e.Srv.sessions[e.ids[i].Hash()]
	e.Srv.lock.RUnlock()
	return ok && v.ID == e.ids[i]
}
func (e *VerifC16S3Env) Told(i int) bool {
	e.Srv.lock.RLock()
	v, ok := e.Srv.sessions[e.ids[i].Hash()]
	e.Srv.lock.RUnlock()
	return ok && v.peek != nil && v.peek.ID == SvShutdown
}

// Drain empties delListener / delSession / new / events (FINAL observation, destructive) and reports
// their contents and whether each was closed.
func (e *VerifC16S3Env) Drain() (dl []int, ds []int, newC, dlC, dsC, evC bool) {
	for {
		select {
		case n, ok := <-e.Srv.delListener:
			if !ok {
				dlC = true
				goto sessions
			}
			j := len(e.L)
			if len(n) > 1 {
				if x, err := strconv.Atoi(n[1:]); err == nil {
					j = x
				}
			}
			dl = append(dl, j)
			continue
		default:
		}
		break
	}
sessions:
	for {
		select {
		case d, ok := <-e.Srv.delSession:
			if !ok {
				dsC = true
				goto rest
			}
			k := -1
			for i := range e.ids {
				if e.ids[i] == d {
					k = i
				}
			}
			ds = append(ds, k)
			continue
		default:
		}
		break
	}
rest:
	select {
	case _, ok := <-e.Srv.new:
		newC = !ok
	default:
	}
	select {
	case _, ok := <-e.Srv.events:
		evC = !ok
	default:
	}
	return
}

// VerifC16S3FreeRun starts the real goroutines of a Server with nl Listeners (no scheduler), calls
// Server.Close() from `callers` goroutines and reports what had not happened after `budget`.
func VerifC16S3FreeRun(nl, callers int, budget time.Duration) string {
	e := VerifC16S3New(nl, 0, 0)
	e.Srv.init.Do(func() { go e.Srv.listen() })
	for i := 0; i < 2000 && atomic.LoadUint32(&e.Srv.run) == 0; i++ {
		time.Sleep(100 * time.Microsecond)
	}
	for _, l := range e.L {
		go l.listen()
	}
	done := make(chan struct{}, callers)
	for k := 0; k < callers; k++ {
		go func() {
			defer func() { recover() }()
			e.Srv.Close()
			done <- struct{}{}
		}()
	}
	t := time.After(budget)
	for k := 0; k < callers; k++ {
		select {
		case <-done:
		case <-t:
			open := 0
			for j := range e.L {
				if !e.LchClosed(j) {
					open++
				}
			}
			return "Server.Close() did not return within " + budget.String() + ": Server.Done() closed=" + strconv.FormatBool(e.ChClosed()) +
				", Listeners whose Done() is still open=" + strconv.Itoa(open) + ", len(delListener)=" + strconv.Itoa(len(e.Srv.delListener))
		}
	}
	if !e.ChClosed() {
		return "Server.Close() returned but Server.Done() is open"
	}
	for j := range e.L {
		if !e.LchClosed(j) {
			return "Server.Close() returned but Listener " + strconv.Itoa(j) + " is not closed"
		}
	}
	return "ok"
}

// VerifC16S3ProxyLateReader: a real Proxy (socket-less listener) on a bare client-side Session runs its
// real listen goroutine, is closed with the real Proxy.Close() (teardown of Proxy.listen), and then the
// calls a still-running connection thread of a proxied client makes (conn.channelRead / channelWrite /
// handle log through h.prefix(); talk reads p.parent.state) are made on it. Returns "ok" or the panic.
func VerifC16S3ProxyLateReader() (res string) {
	s := &Session{ID: verifC16S3ID(7), send: make(chan *com.Packet, 128), wake: make(chan struct{}, 1), ch: make(chan struct{}),
		frags: make(map[uint16]*cluster)}
	s.ctx = context.Background()
	s.m = make(eventer, maxEvents)
	k := &verifC16S3Sock{ch: make(chan struct{})}
	p := &Proxy{ch: make(chan struct{}), close: make(chan uint32, 16), parent: s, clients: make(map[uint32]*proxyClient), name: "vp",
		listener: k, connection: connection{ctx: s.ctx, log: s.log}}
	p.ctx, p.cancel = context.WithCancel(s.ctx)
	go p.listen()
	done := make(chan struct{})
	go func() { p.Close(); close(done) }()
	select {
	case <-done:
	case <-time.After(3 * time.Second):
		return "hang: Proxy.Close() did not return"
	}
	defer func() {
		if e := recover(); e != nil {
			res = "panic: " + fmtAny(e)
		}
	}()
	var h connServer = p
	_ = h.prefix()
	n := &com.Packet{ID: SvHello, Device: verifC16S3ID(9), Job: 3}
	_, _, _ = p.talk("verif:16", n)
	return "ok"
}

func fmtAny(e interface{}) string {
	if err, ok := e.(error); ok {
		return err.Error()
	}
	if s, ok := e.(string); ok {
		return s
	}
	return "panic"
}
