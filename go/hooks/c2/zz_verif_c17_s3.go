//go:build verif

package c2

import (
	"net"
	"time"

	"github.com/iDigitalFlame/xmt/c2/cfg"
	"github.com/iDigitalFlame/xmt/com"
	"github.com/iDigitalFlame/xmt/device"
)

// Hooks for property C17, extension s3 (the connection loop composed with a multi-group profile).
// Nothing here changes the behaviour of the package.

// WT returns the Wrapper and Transform the Session currently uses (s.w, s.t).
func (v *VerifC19Session) WT() (cfg.Wrapper, cfg.Transform) { return v.s.w, v.s.t }

// Host returns the Session's current host string (s.host).
func (v *VerifC19Session) Host() string { return v.s.host.String() }

type verifC17Sink struct{ b []byte }

func (s *verifC17Sink) Read([]byte) (int, error)       { return 0, net.ErrClosed }
func (s *verifC17Sink) Write(b []byte) (int, error)    { s.b = append(s.b, b...); return len(b), nil }
func (*verifC17Sink) Close() error                     { return nil }
func (*verifC17Sink) LocalAddr() net.Addr              { return nil }
func (*verifC17Sink) RemoteAddr() net.Addr             { return nil }
func (*verifC17Sink) SetDeadline(time.Time) error      { return nil }
func (*verifC17Sink) SetReadDeadline(time.Time) error  { return nil }
func (*verifC17Sink) SetWriteDeadline(time.Time) error { return nil }

// VerifC17Reply is a well-formed server answer (SvComplete, no payload) for the device id, encoded
// with the given Wrapper and Transform by the package's own writePacket.
func VerifC17Reply(id device.ID, w cfg.Wrapper, t cfg.Transform) ([]byte, error) {
	var s verifC17Sink
	if err := writePacket(&s, w, t, &com.Packet{ID: SvComplete, Device: id}); err != nil {
		return nil, err
	}
	return s.b, nil
}
