//go:build verif

package c2

import (
	"context"
	"time"

	"github.com/PurpleSec/logx"
	"github.com/iDigitalFlame/xmt/c2/cfg"
	"github.com/iDigitalFlame/xmt/c2/cout"
	"github.com/iDigitalFlame/xmt/com"
	"github.com/iDigitalFlame/xmt/data"
	"github.com/iDigitalFlame/xmt/device"
)

// Hooks for property C19 (sleep / jitter / work hours / kill date).  Nothing here changes the
// behaviour of the package; the functions only construct a client Session the way
// connectContextInner does and call the unexported (*Session).wait / (*Session).listen /
// connectContextInner.

// verifNow is what the kill-date guards read after the C19 overlay rewrite
// (`time.Now().After(s.kill)` -> `verifNow().After(s.kill)`); it is the clock injected into
// package cfg, or time.Now when none is injected.
func verifNow() time.Time { return cfg.VerifClock() }

// verifSleep replaces `time.Sleep(v)` in connectContextInner after the C19 overlay rewrite.
func verifSleep(d time.Duration) {
	if f := cfg.VerifSleep; f != nil {
		f(d)
		return
	}
	time.Sleep(d)
}

// VerifC19MaxErrors exposes the unexported error budget of the client loop.
const VerifC19MaxErrors = maxErrors

// VerifC19Session is a handle on a client Session built for the harness.
type VerifC19Session struct{ s *Session }

// VerifC19New builds a client-side Session exactly like the tail of connectContextInner does
// (no network traffic has happened; keys are zero, so packets are sent unencrypted).
func VerifC19New(x context.Context, l logx.Log, p cfg.Profile, id device.ID, sleep time.Duration, jitter uint8, kill time.Time, work *cfg.WorkHours) *VerifC19Session {
	s := &Session{ID: id}
	s.log, s.sleep, s.jitter, s.kill, s.work = cout.New(l), sleep, jitter, kill, work
	if p != nil {
		var h string
		h, s.w, s.t = p.Next()
		s.host.Set(h)
	}
	s.p, s.wake, s.ch = p, make(chan struct{}, 1), make(chan struct{})
	s.frags, s.m = make(map[uint16]*cluster), make(eventer, maxEvents)
	s.ctx, s.send = x, make(chan *com.Packet, 128)
	if sleep > 0 {
		s.tick = newSleeper(sleep)
	}
	return &VerifC19Session{s: s}
}

// Wake makes the next (or current) select in wait return at once (non-blocking, like Session.Wake
// without the state checks).
func (v *VerifC19Session) Wake() {
	select {
	case v.s.wake <- wake:
	default:
	}
}

// Swap stores a Profile to be swapped in by the next turn of listen (what a MvProfile order does).
func (v *VerifC19Session) Swap(p cfg.Profile) { v.s.swap = p }

// Order hands a settings packet (MvTime ...) to the client's real internal task handler.
func (v *VerifC19Session) Order(n *com.Packet) error {
	return muxHandleInternal(v.s, n, &com.Packet{})
}

// Sleep returns the Session's current sleep setting.
func (v *VerifC19Session) Sleep() time.Duration { return v.s.sleep }

// Wait calls the real (*Session).wait once.
func (v *VerifC19Session) Wait() { v.s.wait() }

// Listen runs the real client loop (*Session).listen in the calling goroutine until it ends.
func (v *VerifC19Session) Listen() { v.s.listen() }

// Closing reports the closing flag.
func (v *VerifC19Session) Closing() bool { return v.s.state.Closing() }

// ShutdownFlag reports the shutdown flag.
func (v *VerifC19Session) ShutdownFlag() bool { return v.s.state.Shutdown() }

// Errors returns the loop's error counter.
func (v *VerifC19Session) Errors() uint8 { return v.s.errors }

// StopTick releases the sleeper created by wait.
func (v *VerifC19Session) StopTick() {
	if v.s.tick != nil {
		v.s.tick.Stop()
	}
}

// VerifC19Connect calls the real connectContextInner (first contact of a client).
func VerifC19Connect(x context.Context, l logx.Log, p cfg.Profile) (bool, error) {
	s, err := connectContextInner(x, nil, l, p)
	return s != nil, err
}

// VerifC19Reply is a well-formed server answer (SvComplete, no payload) for the device id.
func VerifC19Reply(id device.ID) []byte {
	var c data.Chunk
	n := &com.Packet{ID: SvComplete, Device: id}
	n.Marshal(&c)
	return append([]byte(nil), c.Payload()...)
}

// VerifC19PacketID decodes the ID of the first packet in b (0xFF if it does not parse).
func VerifC19PacketID(b []byte) uint8 {
	var n com.Packet
	c := data.Chunk{}
	c.Write(b)
	if err := n.Unmarshal(&c); err != nil {
		return 0xFF
	}
	return n.ID
}

// VerifC19SvShutdown is the packet id of the shutdown notification.
const VerifC19SvShutdown = SvShutdown

// Work returns a copy of the work-hours rule the Session has in force (nil: none).
func (v *VerifC19Session) Work() *cfg.WorkHours {
	if v.s.work == nil {
		return nil
	}
	w := *v.s.work
	return &w
}

// SetWork calls the real (*Session).SetWorkHours (the local setter; on a client Session it installs
// the rule directly and reports ErrNoTask, an invalid rule is rejected with the Verify error).
func (v *VerifC19Session) SetWork(w *cfg.WorkHours) error {
	_, err := v.s.SetWorkHours(w)
	return err
}
