//go:build verif

package com

import (
	"crypto/tls"
	"strconv"
)

// VerifConn describes a connector built by c2/cfg (verification harness only; C08).
func VerifConn(c interface{}) string {
	t := func(x *tls.Config) string {
		if x == nil {
			return "nil"
		}
		return "tlsc(min=" + strconv.Itoa(int(x.MinVersion)) + ",certs=" + strconv.Itoa(len(x.Certificates)) +
			",roots=" + strconv.FormatBool(x.RootCAs != nil) + ",mu=" + strconv.FormatBool(x.ClientAuth == tls.RequireAndVerifyClientCert && x.ClientCAs != nil) + ")"
	}
	switch v := c.(type) {
	case *tcpConnector:
		if v == TCP.(*tcpConnector) {
			return "tcp"
		}
		if v.tls == nil {
			return "tcp-other"
		}
		return t(v.tls)
	case tcpClient:
		if v.c.tls == TLS.c.tls {
			return "tls"
		}
		if v.c.tls == TLSInsecure.c.tls {
			return "tlsnv"
		}
		return "tcpclient-other"
	case *udpConnector:
		if v == UDP.(*udpConnector) {
			return "udp"
		}
		return "udp-other"
	case *ipConnector:
		if v == ICMP.(*ipConnector) {
			return "icmp"
		}
		return "ip(" + strconv.Itoa(int(v.proto)) + ")"
	}
	return ""
}
