//go:build verif

package crypto

// VerifCBKSize exposes the CBK table/block constant.
const VerifCBKSize = size
