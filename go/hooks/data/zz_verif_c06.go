//go:build verif

package data

// Verification hooks for property C06 (session keys). Mounted by -overlay, never part of a
// normal build.

// Sizes of the fixed KeyPair arrays (unexported constants).
const (
	VerifC06SharedKeySize  = sharedKeySize
	VerifC06PublicKeySize  = publicKeySize
	VerifC06PrivateKeySize = privateKeySize
)

// VerifC06SetShare overwrites the shared-secret buffer (to start fillShared from a chosen
// previous content, e.g. a stale secret).
func VerifC06SetShare(k *KeyPair, s []byte) {
	for i := range k.share {
		k.share[i] = 0
	}
	copy(k.share[:], s)
}

// VerifC06Buf returns the whole backing buffer of a Chunk (KeyCrypt works on all of it, not only
// on the unread part).
func VerifC06Buf(c *Chunk) []byte { return c.buf }
