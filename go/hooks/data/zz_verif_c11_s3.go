//go:build verif

package data

// VerifC11Buf returns a copy of the retained bytes c.buf (read and unread).
func (c *Chunk) VerifC11Buf() []byte { return append([]byte(nil), c.buf...) }

// VerifC11Rpos returns the read cursor.
func (c *Chunk) VerifC11Rpos() int { return c.rpos }
