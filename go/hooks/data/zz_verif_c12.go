//go:build verif

package data

// Key sizes and access to the unexported shared-key field (property C12: the migration hand-off
// carries all three arrays).
const (
	VerifC12PublicKeySize  = publicKeySize
	VerifC12PrivateKeySize = privateKeySize
	VerifC12SharedKeySize  = sharedKeySize
)

func (k *KeyPair) VerifC12SetShare(b []byte) { copy(k.share[:], b) }
