//go:build verif

package data

// VerifBufSize exposes the unexported transfer buffer size to the verification harness.
const VerifBufSize = bufSize
