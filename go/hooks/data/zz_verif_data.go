//go:build verif

package data

// VerifBufSize exposes the unexported transfer buffer size to the verification harness.
const VerifBufSize = bufSize

// VerifCap exposes cap(c.buf) (the allocator-dependent part of the Chunk state).
func (c *Chunk) VerifCap() int { return cap(c.buf) }
