//go:build verif

package winapi

// Unexported UTF-16 constants of utf16.go, exposed to the verification harness (facts for the
// Lean model, C20).
const (
	VerifUtfSelf        = utfSelf
	VerifUtfSurgA       = utfSurgA
	VerifUtfSurgB       = utfSurgB
	VerifUtfSurgC       = utfSurgC
	VerifUtfRuneMax     = int64(utfRuneMax)
	VerifUtfReplacement = int64(utfReplacement)
)

// VerifUTF16Encode exposes utf16Encode (the encoder under UTF16FromString) on arbitrary rune slices.
func VerifUTF16Encode(s []rune) ([]uint16, error) { return utf16Encode(s) }

// VerifUTF16EncodeRune exposes utf16EncodeRune.
func VerifUTF16EncodeRune(r rune) (uint16, uint16) { return utf16EncodeRune(r) }

// VerifUTF16DecodeRune exposes utf16DecodeRune.
func VerifUTF16DecodeRune(a, b rune) rune { return utf16DecodeRune(a, b) }
