//go:build verif

package device

import "unsafe"

// Element sizes of the slices the decoders allocate (consumed by the facts generator, property C04).
const (
	VerifC04SizeofIface   = unsafe.Sizeof(device{})
	VerifC04SizeofAddress = unsafe.Sizeof(Address{})
	VerifC04SizeofLogin   = unsafe.Sizeof(Login{})
)
