//go:build verif

package device

// Construction / inspection of Network values (unexported element types) for property C12.

type VerifC12Iface struct {
	Name  string
	Mac   uint64
	Addrs [][2]uint64 // hi, low
}

func VerifC12Network(l []VerifC12Iface) Network {
	if l == nil {
		return nil
	}
	n := make(Network, len(l))
	for i := range l {
		n[i].Name, n[i].Mac = l[i].Name, hardware(l[i].Mac)
		if l[i].Addrs != nil {
			n[i].Address = make([]Address, len(l[i].Addrs))
			for j := range l[i].Addrs {
				n[i].Address[j] = Address{hi: l[i].Addrs[j][0], low: l[i].Addrs[j][1]}
			}
		}
	}
	return n
}

func VerifC12NetworkDump(n Network) []VerifC12Iface {
	l := make([]VerifC12Iface, len(n))
	for i := range n {
		l[i].Name, l[i].Mac = n[i].Name, uint64(n[i].Mac)
		for j := range n[i].Address {
			l[i].Addrs = append(l[i].Addrs, [2]uint64{n[i].Address[j].hi, n[i].Address[j].low})
		}
	}
	return l
}
