//go:build verif

package man

// Verification shims for property C18 (mounted with -overlay, never part of /repo).

// VerifSentPathDownload exposes the guard constant of the sentinelPath codec.
const VerifSentPathDownload = sentPathDownload

// VerifSentPathZombie is the highest path kind.
const VerifSentPathZombie = sentPathZombie

// VerifPath is an exported copy of one launcher path.
type VerifPath struct {
	T     uint8
	Path  string
	Extra []string
}

// VerifPaths returns a copy of the (unexported) path list of the Sentinel.
func (s *Sentinel) VerifPaths() []VerifPath {
	o := make([]VerifPath, len(s.paths))
	for i := range s.paths {
		o[i] = VerifPath{T: s.paths[i].t, Path: s.paths[i].path, Extra: s.paths[i].extra}
	}
	return o
}

// VerifAddRaw appends a path of arbitrary kind (used only for the malformed / out-of-domain stream).
func (s *Sentinel) VerifAddRaw(t uint8, path string, extra []string) {
	s.paths = append(s.paths, sentinelPath{t: t, path: path, extra: extra})
}
