//go:build verif

package util

// VerifFastRand, when non-nil, replaces the runtime PRNG word behind FastRand / FastRandN / Rand.*
// (the call sites in rand.go are redirected to verifFastRand by the C19 overlay rewrite; with the
// variable unset the behaviour is unchanged).  Used by the verification harness (property C19) to
// script the draws of (*c2.Session).wait.
var VerifFastRand func() uint32

func verifFastRand() uint32 {
	if f := VerifFastRand; f != nil {
		return f()
	}
	return fastRand()
}
