import XMT.Drv.C01
import XMT.Drv.C02
import XMT.Drv.C03
import XMT.Drv.C04
import XMT.Drv.C05
import XMT.Drv.C06
import XMT.Drv.C07
import XMT.Drv.C08
import XMT.Drv.C09
import XMT.Drv.C10
import XMT.Drv.C11
import XMT.Drv.C12
import XMT.Drv.C13
import XMT.Drv.C14
import XMT.Drv.C15
import XMT.Drv.C16
import XMT.Drv.C17
import XMT.Drv.C18
import XMT.Drv.C19
import XMT.Drv.C20

def dispatch (line : String) : String :=
  match (line.trimAscii.toString.splitOn " ").filter (· ≠ "") with
  | "C01" :: args => XMT.Drv.C01.handle args
  | "C02" :: args => XMT.Drv.C02.handle args
  | "C03" :: args => XMT.Drv.C03.handle args
  | "C04" :: args => XMT.Drv.C04.handle args
  | "C05" :: args => XMT.Drv.C05.handle args
  | "C06" :: args => XMT.Drv.C06.handle args
  | "C07" :: args => XMT.Drv.C07.handle args
  | "C08" :: args => XMT.Drv.C08.handle args
  | "C09" :: args => XMT.Drv.C09.handle args
  | "C10" :: args => XMT.Drv.C10.handle args
  | "C11" :: args => XMT.Drv.C11.handle args
  | "C12" :: args => XMT.Drv.C12.handle args
  | "C13" :: args => XMT.Drv.C13.handle args
  | "C14" :: args => XMT.Drv.C14.handle args
  | "C15" :: args => XMT.Drv.C15.handle args
  | "C16" :: args => XMT.Drv.C16.handle args
  | "C17" :: args => XMT.Drv.C17.handle args
  | "C18" :: args => XMT.Drv.C18.handle args
  | "C19" :: args => XMT.Drv.C19.handle args
  | "C20" :: args => XMT.Drv.C20.handle args
  | _ => "bad-op"

partial def loop (h : IO.FS.Stream) (out : IO.FS.Stream) : IO Unit := do
  let line ← h.getLine
  if line.isEmpty then return ()
  out.putStrLn (dispatch line)
  loop h out

def main : IO Unit := do
  let out ← IO.getStdout
  loop (← IO.getStdin) out
  out.flush
