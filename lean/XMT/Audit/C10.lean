import XMT.Props.C10
open XMT.Props.C10
#print axioms writers_agree
#print axioms writers_agree_all
#print axioms roundtrip_chunkReader
#print axioms roundtrip_streamReader
#print axioms truncated_chunkReader
#print axioms truncated_streamReader
