import XMT.Props.C10
#print axioms XMT.Props.C10.writers_agree
#print axioms XMT.Props.C10.writers_agree_all
#print axioms XMT.Props.C10.roundtrip_chunkReader
#print axioms XMT.Props.C10.roundtrip_streamReader
#print axioms XMT.Props.C10.truncated_chunkReader
#print axioms XMT.Props.C10.truncated_streamReader
