/-
  XMT.B64Codec — model of encoding/base64 `StdEncoding` (alphabet A–Z a–z 0–9 + /, padding `=`,
  not strict) as used by

      c2/wrapper/simple.go     Base64.Wrap(w)   = base64.NewEncoder(base64.StdEncoding, w)
                               Base64.Unwrap(r) = base64.NewDecoder(base64.StdEncoding, r)
      c2/transform/base64.go   B64.Write: NewEncoder + one Write + Close;  B64.Read: StdEncoding.Decode

  Modelled from the Go standard library source (encoding/base64/base64.go): `Encode`,
  `(*encoder).Write` (leading fringe / interior chunks of len(out)/4*3 bytes / trailing fringe kept in
  `buf`) and `Close` (the only place a partial group is flushed, padded), `Decode`/`decodeQuantum`
  (new-line skipping, padding rules, trailing garbage), `newlineFilteringReader.Read`,
  `(*decoder).Read` (refill until 4 characters, decode whole quanta, left-over output in `out`,
  `io.ErrUnexpectedEOF` for a dangling partial quantum).

  Departures from the text of the Go code, each semantically neutral:
  * shifts/ors of disjoint bit fields are written with `*`, `+`, `/`, `%` on `Nat`;
  * `Decode`'s `assemble64`/`assemble32` fast paths (taken only for 8/4 valid digits, same result as
    `decodeQuantum`) are not separate; `decodeQuantum`'s `j` loop and `Decode`'s outer loop are one
    structural recursion over the source (`decodeAux`), branch for branch;
  * `CorruptInputError` carries no offset here (error class only);
  * `dst` is taken to be large enough (`DecodedLen(len(src))`, as every caller in scope provides).
  The sizes of the encoder's `out` and the decoder's `buf` arrays are regenerated facts.
-/
import XMT.Base
import XMT.Wrap
import XMT.HexCodec
import XMT.Generated.Facts
namespace XMT.B64Codec
open XMT
open XMT.HexCodec (Src)

/-! ### Alphabet -/

/-- `encodeStd[n]` for `n < 64` -/
def alphabet (n : Nat) : UInt8 :=
  if n < 26 then UInt8.ofNat (65 + n)
  else if n < 52 then UInt8.ofNat (71 + n)
  else if n < 62 then UInt8.ofNat (n - 4)
  else if n = 62 then 43 else 47

/-- `enc.decodeMap[c]`; `none` = `0xff` -/
def decodeMap (c : UInt8) : Option Nat :=
  let n := c.toNat
  if 65 ≤ n ∧ n ≤ 90 then some (n - 65)
  else if 97 ≤ n ∧ n ≤ 122 then some (n - 71)
  else if 48 ≤ n ∧ n ≤ 57 then some (n + 4)
  else if n = 43 then some 62
  else if n = 47 then some 63
  else none

def padChar : UInt8 := 61

/-! ### Encode -/

/-- one full group: `val := a<<16 | b<<8 | c`; digits `val>>18&0x3F`, `val>>12&0x3F`, `val>>6&0x3F`, `val&0x3F` -/
def enc3 (a b c : UInt8) : Bytes :=
  let val := a.toNat * 65536 + b.toNat * 256 + c.toNat
  [alphabet (val / 262144 % 64), alphabet (val / 4096 % 64), alphabet (val / 64 % 64), alphabet (val % 64)]

/-- `enc.Encode(dst, src)` (with padding) -/
def encode : Bytes → Bytes
  | [] => []
  | [a] =>
    let val := a.toNat * 65536
    [alphabet (val / 262144 % 64), alphabet (val / 4096 % 64), padChar, padChar]
  | [a, b] =>
    let val := a.toNat * 65536 + b.toNat * 256
    [alphabet (val / 262144 % 64), alphabet (val / 4096 % 64), alphabet (val / 64 % 64), padChar]
  | a :: b :: c :: r => enc3 a b c ++ encode r

/-! ### Streaming encoder -/

/-- `len(e.out)` -/
def encOut : Nat := Facts.b64EncOut

/-- `encoder{buf[:nbuf]}` (`err` stays nil: in-memory writers do not fail) -/
structure Enc where
  buf : Bytes

/-- the "large interior chunks" loop: `for len(p) >= 3 { nn := len(e.out)/4*3; if nn > len(p) { nn = len(p); nn -= nn % 3 };
w.Write(Encode(p[:nn])); p = p[nn:] }` — the Writes and the rest of `p` (fuel: each round takes ≥ 3 bytes) -/
def interior : Nat → Bytes → List Bytes × Bytes
  | 0, p => ([], p)
  | f + 1, p =>
    if p.length ≥ 3 then
      let nn := encOut / 4 * 3
      let nn := if nn > p.length then p.length - p.length % 3 else nn
      let t := interior f (p.drop nn)
      (encode (p.take nn) :: t.1, t.2)
    else ([], p)

/-- `(*encoder).Write(p)`: new state and the `Write` calls made below -/
def Enc.write (e : Enc) (p : Bytes) : Enc × List Bytes :=
  if e.buf.length > 0 then
    -- leading fringe: for i = 0; i < len(p) && e.nbuf < 3; i++ { e.buf[e.nbuf] = p[i]; e.nbuf++ }
    let i := if p.length < 3 - e.buf.length then p.length else 3 - e.buf.length
    let buf := e.buf ++ p.take i
    let p := p.drop i
    if buf.length < 3 then ({ buf := buf }, [])
    else
      let t := interior p.length p
      ({ buf := t.2 }, encode buf :: t.1)
  else
    let t := interior p.length p
    ({ buf := t.2 }, t.1)

/-- `(*encoder).Close()`: flush the partial group, padded -/
def Enc.close (e : Enc) : Enc × List Bytes :=
  if e.buf.length > 0 then ({ buf := [] }, [encode e.buf]) else (e, [])

/-! ### Decode -/

inductive BErr
  | corrupt      -- base64.CorruptInputError
  | ueof         -- io.ErrUnexpectedEOF
  | eof          -- io.EOF
  deriving DecidableEq, Repr

def isNL (c : UInt8) : Bool := c == 10 || c == 13

/-- `for si < len(src) && (src[si] == '\n' || src[si] == '\r') { si++ }` -/
def skipNL : Bytes → Bytes
  | [] => []
  | c :: r => if isNL c then skipNL r else c :: r

/-- "Convert 4x 6bit source bytes into 3 bytes": `dlen - 1` bytes of `val = d0<<18 | d1<<12 | d2<<6 | d3` -/
def assemble (dbuf : List Nat) : Bytes :=
  let val := dbuf.getD 0 0 * 262144 + dbuf.getD 1 0 * 4096 + dbuf.getD 2 0 * 64 + dbuf.getD 3 0
  [UInt8.ofNat (val / 65536 % 256), UInt8.ofNat (val / 256 % 256), UInt8.ofNat (val % 256)].take (dbuf.length - 1)

/-- `enc.Decode(dst, src)`: `acc` = bytes decoded so far, `dbuf` = digits of the current quantum
(`j = dbuf.length`). Result: all bytes decoded (also those before an error) and the error. -/
def decodeAux (acc : Bytes) : Bytes → List Nat → Bytes × Option BErr
  | [], dbuf =>
    -- len(src) == si: j == 0 → (si, 0, nil); otherwise (padded encoding) CorruptInputError
    if dbuf.length = 0 then (acc, none) else (acc, some .corrupt)
  | c :: src, dbuf =>
    match decodeMap c with
    | some v =>
      -- dbuf[j] = out; continue — the quantum is complete after the fourth digit
      if dbuf.length = 3 then decodeAux (acc ++ assemble (dbuf ++ [v])) src []
      else decodeAux acc src (dbuf ++ [v])
    | none =>
      if isNL c then decodeAux acc src dbuf                 -- j--; continue
      else if c ≠ padChar then (acc, some .corrupt)         -- CorruptInputError(si - 1)
      else
        -- We've reached the end and there's padding
        if dbuf.length < 2 then (acc, some .corrupt)        -- case 0, 1: incorrect padding
        else if dbuf.length = 2 then
          -- "==" is expected, the first "=" is already consumed; skip over newlines
          match skipNL src with
          | [] => (acc, some .corrupt)                      -- not enough padding
          | c2 :: s2 =>
            if c2 ≠ padChar then (acc, some .corrupt)       -- incorrect padding
            else
              -- skip over newlines; si < len(src): trailing garbage (the quantum is still delivered)
              (acc ++ assemble dbuf, if (skipNL s2).isEmpty then none else some .corrupt)
        else (acc ++ assemble dbuf, if (skipNL src).isEmpty then none else some .corrupt)

def decode (src : Bytes) : Bytes × Option BErr := decodeAux [] src []

/-! ### Streaming decoder -/

/-- `len(d.buf)` -/
def decBuf : Nat := Facts.b64DecBuf

/-- total work left in a reader: bounds every loop over it -/
def srcFuel (s : Src) : Nat := s.pieces.flatten.length + s.pieces.length + 1

/-- `newlineFilteringReader.Read(p)`, `len(p) = cap`: strip `\r`/`\n`; a buffer that was entirely
white space is read again (the error that came with it is dropped, as in the Go code). -/
def nlRead : Nat → Nat → Src → Bytes × Src × Bool
  | 0, _, s => ([], s, false)
  | f + 1, cap, s =>
    let x := s.read cap
    if x.1.length > 0 then
      let y := x.1.filter fun b => !isNL b
      if y.length > 0 then (y, x.2.1, x.2.2) else nlRead f cap x.2.1
    else ([], x.2.1, x.2.2)

structure Dec where
  err : Option BErr
  /-- `d.readErr == io.EOF` -/
  readErr : Bool
  /-- `d.buf[:d.nbuf]` -/
  buf : Bytes
  out : Bytes

def Dec.init : Dec := { err := none, readErr := false, buf := [], out := [] }

/-- `nn := len(p) / 3 * 4; if nn < 4 { nn = 4 }; if nn > len(d.buf) { nn = len(d.buf) }` -/
def wantLen (k : Nat) : Nat :=
  let nn := k / 3 * 4
  let nn := if nn < 4 then 4 else nn
  if nn > decBuf then decBuf else nn

/-- `for d.nbuf < 4 && d.readErr == nil { nn := wantLen(len(p)); nn, d.readErr = d.r.Read(d.buf[d.nbuf:nn]); d.nbuf += nn }` -/
def refill (k : Nat) : Nat → Dec → Src → Dec × Src
  | 0, d, s => (d, s)
  | f + 1, d, s =>
    if d.buf.length < 4 ∧ d.readErr = false then
      let x := nlRead (srcFuel s) (wantLen k - d.buf.length) s
      refill k f { d with buf := d.buf ++ x.1, readErr := x.2.2 } x.2.1
    else (d, s)

/-- `(*decoder).Read(p)` with `len(p) = k` -/
def Dec.read (d : Dec) (s : Src) (k : Nat) : Dec × Src × Bytes × Option BErr :=
  -- Use leftover decoded output from last read.
  if d.out.length > 0 then
    ({ d with out := d.out.drop k }, s, d.out.take k, none)
  else if d.err.isSome then (d, s, [], d.err)
  else
    let ds := refill k (srcFuel s) d s
    let d := ds.1
    let s := ds.2
    if d.buf.length < 4 then
      -- (padded encoding: no final fragment) d.err = d.readErr; EOF with a dangling partial quantum is unexpected
      let err : Option BErr := if d.readErr then (if d.buf.length > 0 then some .ueof else some .eof) else none
      ({ d with err := err }, s, [], err)
    else
      let nr := d.buf.length / 4 * 4
      let nw := d.buf.length / 4 * 3
      let t := decode (d.buf.take nr)
      if nw > k then
        -- decode into d.outbuf, copy what fits
        ({ d with err := t.2, out := t.1.drop k, buf := d.buf.drop nr }, s, t.1.take k, t.2)
      else
        ({ d with err := t.2, buf := d.buf.drop nr }, s, t.1, t.2)

def readSeq (d : Dec) (s : Src) : List Nat → List Bytes × Option BErr
  | [] => ([], none)
  | k :: ks =>
    let x := d.read s k
    match x.2.2.2 with
    | some e => ([x.2.2.1], some e)
    | none =>
      let t := readSeq x.1 x.2.1 ks
      (x.2.2.1 :: t.1, t.2)

def readAll (k : Nat) : Nat → Dec → Src → Bytes × Option BErr
  | 0, _, _ => ([], none)
  | fuel + 1, d, s =>
    let x := d.read s k
    match x.2.2.2 with
    | some e => (x.2.2.1, some e)
    | none =>
      let t := readAll k fuel x.1 x.2.1
      (x.2.2.1 ++ t.1, t.2)

/-- everything the `Unwrap` reader delivers over the complete wire (512-byte Reads until `io.EOF`) -/
def decAll (wire : Bytes) : Option Bytes :=
  match readAll 512 (wire.length + 3) Dec.init { pieces := [wire], withEOF := false } with
  | (b, some .eof) => some b
  | _ => none

/-- The `Base64` wrapper as a layer of the stack model. `Close` flushes the partial group and does
not close the writer below. -/
def b64Layer : Wrap.Layer where
  σ := Enc
  init := { buf := [] }
  write := Enc.write
  close := Enc.close
  closesUnder := false
  dec := decAll

/-! ### The Base64 transform with the concrete codec (c2/transform/base64.go) -/

/-- `B64.Write(p, w)`: shift, `NewEncoder(w)`, one `Write`, `Close` — the bytes that reach `w` -/
def transformWrite (shift : UInt8) (p : Bytes) : Bytes :=
  let p := if shift ≠ 0 then p.map (· + shift) else p
  let e : Enc := { buf := [] }
  let r := e.write p
  (r.2 ++ (r.1.close).2).flatten

/-- `B64.Read(p, w)` / `decodeShift`: `StdEncoding.Decode`; on an error nothing is written -/
def transformRead (shift : UInt8) (p : Bytes) : Option Bytes :=
  match decode p with
  | (o, none) => some (if shift ≠ 0 then o.map (· - shift) else o)
  | _ => none

end XMT.B64Codec
