/-
  XMT.B64Lemmas — round trip of the encoding/base64 model (XMT/B64Codec.lean): `Decode ∘ Encode = id`
  for every byte string, the streaming encoder (Write/Close) produces the encoding of the
  concatenation for every write chunking, the streaming decoder returns the payload and then EOF for
  every chunking of the wire and every sequence of Read sizes; the `Base64` wrapper is a good layer
  and the Base64(-shift) transform with the concrete codec round-trips.
-/
import XMT.B64Codec
import XMT.WrapLemmas
namespace XMT.B64Codec
open XMT XMT.Wrap
open XMT.HexCodec (Src)

/-! ### Alphabet -/

theorem alpha_all : ∀ k : Fin 64,
    decodeMap (alphabet k.val) = some k.val ∧ isNL (alphabet k.val) = false ∧ alphabet k.val ≠ padChar := by
  decide

theorem alpha {n : Nat} (h : n < 64) :
    decodeMap (alphabet n) = some n ∧ isNL (alphabet n) = false ∧ alphabet n ≠ padChar :=
  alpha_all ⟨n, h⟩

theorem pad_facts : decodeMap padChar = none ∧ isNL padChar = false := by decide

/-! ### Decode of an encoding -/

theorem step0 (acc : Bytes) (c : UInt8) (src : Bytes) (v : Nat) (h : decodeMap c = some v) :
    decodeAux acc (c :: src) [] = decodeAux acc src [v] := by simp [decodeAux, h]

theorem step1 (acc : Bytes) (c : UInt8) (src : Bytes) (v0 v : Nat) (h : decodeMap c = some v) :
    decodeAux acc (c :: src) [v0] = decodeAux acc src [v0, v] := by simp [decodeAux, h]

theorem step2 (acc : Bytes) (c : UInt8) (src : Bytes) (v0 v1 v : Nat) (h : decodeMap c = some v) :
    decodeAux acc (c :: src) [v0, v1] = decodeAux acc src [v0, v1, v] := by simp [decodeAux, h]

theorem step3 (acc : Bytes) (c : UInt8) (src : Bytes) (v0 v1 v2 v : Nat) (h : decodeMap c = some v) :
    decodeAux acc (c :: src) [v0, v1, v2] = decodeAux (acc ++ assemble [v0, v1, v2, v]) src [] := by
  simp [decodeAux, h]

theorem pad2 (acc : Bytes) (v0 v1 : Nat) :
    decodeAux acc [padChar, padChar] [v0, v1] = (acc ++ assemble [v0, v1], none) := by
  simp [decodeAux, pad_facts.1, pad_facts.2, skipNL]

theorem pad1 (acc : Bytes) (v0 v1 v2 : Nat) :
    decodeAux acc [padChar] [v0, v1, v2] = (acc ++ assemble [v0, v1, v2], none) := by
  simp [decodeAux, pad_facts.1, pad_facts.2, skipNL]

theorem asm3 (a b c : UInt8) :
    assemble [(a.toNat * 65536 + b.toNat * 256 + c.toNat) / 262144 % 64,
      (a.toNat * 65536 + b.toNat * 256 + c.toNat) / 4096 % 64,
      (a.toNat * 65536 + b.toNat * 256 + c.toNat) / 64 % 64,
      (a.toNat * 65536 + b.toNat * 256 + c.toNat) % 64] = [a, b, c] := by
  have ha := UInt8.toNat_lt a; have hb := UInt8.toNat_lt b; have hc := UInt8.toNat_lt c
  simp only [assemble, List.getD_cons_zero, List.getD_cons_succ, List.length_cons, List.length_nil]
  have e : (a.toNat * 65536 + b.toNat * 256 + c.toNat) / 262144 % 64 * 262144 +
      (a.toNat * 65536 + b.toNat * 256 + c.toNat) / 4096 % 64 * 4096 +
      (a.toNat * 65536 + b.toNat * 256 + c.toNat) / 64 % 64 * 64 +
      (a.toNat * 65536 + b.toNat * 256 + c.toNat) % 64 = a.toNat * 65536 + b.toNat * 256 + c.toNat := by omega
  rw [e]
  have e1 : (a.toNat * 65536 + b.toNat * 256 + c.toNat) / 65536 % 256 = a.toNat := by omega
  have e2 : (a.toNat * 65536 + b.toNat * 256 + c.toNat) / 256 % 256 = b.toNat := by omega
  have e3 : (a.toNat * 65536 + b.toNat * 256 + c.toNat) % 256 = c.toNat := by omega
  rw [e1, e2, e3]
  simp

theorem asm2 (a b : UInt8) :
    assemble [(a.toNat * 65536 + b.toNat * 256) / 262144 % 64,
      (a.toNat * 65536 + b.toNat * 256) / 4096 % 64,
      (a.toNat * 65536 + b.toNat * 256) / 64 % 64] = [a, b] := by
  have ha := UInt8.toNat_lt a; have hb := UInt8.toNat_lt b
  simp only [assemble, List.getD_cons_zero, List.getD_cons_succ, List.length_cons, List.length_nil,
    List.getD_nil]
  have e1 : ((a.toNat * 65536 + b.toNat * 256) / 262144 % 64 * 262144 +
      (a.toNat * 65536 + b.toNat * 256) / 4096 % 64 * 4096 +
      (a.toNat * 65536 + b.toNat * 256) / 64 % 64 * 64 + 0) / 65536 % 256 = a.toNat := by omega
  have e2 : ((a.toNat * 65536 + b.toNat * 256) / 262144 % 64 * 262144 +
      (a.toNat * 65536 + b.toNat * 256) / 4096 % 64 * 4096 +
      (a.toNat * 65536 + b.toNat * 256) / 64 % 64 * 64 + 0) / 256 % 256 = b.toNat := by omega
  rw [e1, e2]
  simp

theorem asm1 (a : UInt8) :
    assemble [(a.toNat * 65536) / 262144 % 64, (a.toNat * 65536) / 4096 % 64] = [a] := by
  have ha := UInt8.toNat_lt a
  simp only [assemble, List.getD_cons_zero, List.getD_cons_succ, List.length_cons, List.length_nil,
    List.getD_nil]
  have e1 : ((a.toNat * 65536) / 262144 % 64 * 262144 +
      (a.toNat * 65536) / 4096 % 64 * 4096 + 0 * 64 + 0) / 65536 % 256 = a.toNat := by omega
  rw [e1]
  simp

theorem decodeAux_encode : ∀ (x acc : Bytes), decodeAux acc (encode x) [] = (acc ++ x, none)
  | [], acc => by simp [encode, decodeAux]
  | [a], acc => by
    obtain ⟨p1, _, _⟩ := alpha (n := a.toNat * 65536 / 262144 % 64) (by omega)
    obtain ⟨p2, _, _⟩ := alpha (n := a.toNat * 65536 / 4096 % 64) (by omega)
    simp only [encode]
    rw [step0 _ _ _ _ p1, step1 _ _ _ _ _ p2, pad2, asm1]
  | [a, b], acc => by
    obtain ⟨p1, _, _⟩ := alpha (n := (a.toNat * 65536 + b.toNat * 256) / 262144 % 64) (by omega)
    obtain ⟨p2, _, _⟩ := alpha (n := (a.toNat * 65536 + b.toNat * 256) / 4096 % 64) (by omega)
    obtain ⟨p3, _, _⟩ := alpha (n := (a.toNat * 65536 + b.toNat * 256) / 64 % 64) (by omega)
    simp only [encode]
    rw [step0 _ _ _ _ p1, step1 _ _ _ _ _ p2, step2 _ _ _ _ _ _ p3, pad1, asm2]
  | a :: b :: c :: r, acc => by
    obtain ⟨p1, _, _⟩ := alpha (n := (a.toNat * 65536 + b.toNat * 256 + c.toNat) / 262144 % 64) (by omega)
    obtain ⟨p2, _, _⟩ := alpha (n := (a.toNat * 65536 + b.toNat * 256 + c.toNat) / 4096 % 64) (by omega)
    obtain ⟨p3, _, _⟩ := alpha (n := (a.toNat * 65536 + b.toNat * 256 + c.toNat) / 64 % 64) (by omega)
    obtain ⟨p4, _, _⟩ := alpha (n := (a.toNat * 65536 + b.toNat * 256 + c.toNat) % 64) (by omega)
    simp only [encode, enc3, List.cons_append, List.nil_append]
    rw [step0 _ _ _ _ p1, step1 _ _ _ _ _ p2, step2 _ _ _ _ _ _ p3, step3 _ _ _ _ _ _ _ p4, asm3,
      decodeAux_encode r (acc ++ [a, b, c])]
    simp

/-- `StdEncoding.Decode(StdEncoding.Encode(x)) = x`, no error, for every byte string. -/
theorem decode_encode (x : Bytes) : decode (encode x) = (x, none) := by
  unfold decode; rw [decodeAux_encode]; simp

/-! ### Structure of an encoding -/

theorem encode_append : ∀ (x y : Bytes), x.length % 3 = 0 → encode (x ++ y) = encode x ++ encode y
  | [], y, _ => by simp [encode]
  | [_], _, h => by simp at h
  | [_, _], _, h => by simp at h
  | a :: b :: c :: r, y, h => by
    have := encode_append r y (by simp at h; omega)
    simp [encode, this]

theorem encode_length : ∀ x : Bytes, (encode x).length = 4 * ((x.length + 2) / 3)
  | [] => by simp [encode]
  | [_] => by simp [encode]
  | [_, _] => by simp [encode]
  | a :: b :: c :: r => by
    have := encode_length r
    simp only [encode, enc3, List.length_append, List.length_cons, List.length_nil, this]
    omega

theorem encode_take (x : Bytes) (m : Nat) : (encode x).take (4 * m) = encode (x.take (3 * m)) := by
  by_cases h : 3 * m ≤ x.length
  · have hx : x = x.take (3 * m) ++ x.drop (3 * m) := (List.take_append_drop _ _).symm
    have hl : (x.take (3 * m)).length = 3 * m := by rw [List.length_take]; omega
    rw [hx, encode_append _ _ (by omega), List.take_append_of_le_length (by rw [encode_length, hl]; omega),
      List.take_of_length_le (by rw [encode_length, hl]; omega)]
    rw [← hx]
  · have h1 : (encode x).length ≤ 4 * m := by rw [encode_length]; omega
    rw [List.take_of_length_le h1, List.take_of_length_le (by omega : x.length ≤ 3 * m)]

theorem encode_drop (x : Bytes) (m : Nat) : (encode x).drop (4 * m) = encode (x.drop (3 * m)) := by
  by_cases h : 3 * m ≤ x.length
  · have hx : x = x.take (3 * m) ++ x.drop (3 * m) := (List.take_append_drop _ _).symm
    have hl : (x.take (3 * m)).length = 3 * m := by rw [List.length_take]; omega
    have hel : (encode (x.take (3 * m))).length = 4 * m := by rw [encode_length, hl]; omega
    conv => lhs; rw [hx, encode_append _ _ (by omega)]
    rw [List.drop_append_of_le_length (by omega), List.drop_of_length_le (by omega)]
    simp
  · have h1 : (encode x).length ≤ 4 * m := by rw [encode_length]; omega
    rw [List.drop_of_length_le h1, List.drop_of_length_le (by omega : x.length ≤ 3 * m)]
    simp [encode]

theorem encode_eq_nil {x : Bytes} (h : (encode x).length = 0) : x = [] := by
  rw [encode_length] at h
  exact List.eq_nil_of_length_eq_zero (by omega)

theorem encode_clean : ∀ (x : Bytes) (c : UInt8), c ∈ encode x → isNL c = false
  | [], c, h => by simp [encode] at h
  | [a], c, h => by
    simp only [encode, List.mem_cons, List.not_mem_nil, or_false] at h
    rcases h with h | h | h | h <;> subst h
    · exact (alpha (by omega)).2.1
    · exact (alpha (by omega)).2.1
    · exact pad_facts.2
    · exact pad_facts.2
  | [a, b], c, h => by
    simp only [encode, List.mem_cons, List.not_mem_nil, or_false] at h
    rcases h with h | h | h | h <;> subst h
    · exact (alpha (by omega)).2.1
    · exact (alpha (by omega)).2.1
    · exact (alpha (by omega)).2.1
    · exact pad_facts.2
  | a :: b :: d :: r, c, h => by
    simp only [encode, enc3, List.mem_append, List.mem_cons, List.not_mem_nil, or_false] at h
    rcases h with (h | h | h | h) | h
    · subst h; exact (alpha (by omega)).2.1
    · subst h; exact (alpha (by omega)).2.1
    · subst h; exact (alpha (by omega)).2.1
    · subst h; exact (alpha (by omega)).2.1
    · exact encode_clean r c h

/-! ### Streaming encoder -/

theorem interior_chunk : encOut / 4 * 3 = 768 := by decide

theorem interior_spec (f : Nat) (p : Bytes) (h : p.length ≤ f) :
    ∃ X, (interior f p).1.flatten = encode X ∧ X.length % 3 = 0 ∧ p = X ++ (interior f p).2 ∧
      (interior f p).2.length < 3 := by
  induction f generalizing p with
  | zero =>
    have : p = [] := List.eq_nil_of_length_eq_zero (by omega)
    subst this
    exact ⟨[], by simp [interior, encode], by simp, by simp [interior], by simp [interior]⟩
  | succ f ih =>
    unfold interior
    split
    · rename_i hp
      rw [interior_chunk]
      -- the chunk length
      have hnn : ∃ nn, (if 768 > p.length then p.length - p.length % 3 else 768) = nn ∧ nn % 3 = 0 ∧
          3 ≤ nn ∧ nn ≤ p.length := by
        refine ⟨_, rfl, ?_, ?_, ?_⟩ <;> split <;> omega
      obtain ⟨nn, hnn, h3, hge, hle⟩ := hnn
      simp only [hnn]
      obtain ⟨X, e1, e2, e3, e4⟩ := ih (p.drop nn) (by rw [List.length_drop]; omega)
      have hl : (p.take nn).length = nn := by rw [List.length_take]; omega
      refine ⟨p.take nn ++ X, ?_, ?_, ?_, e4⟩
      · rw [List.flatten_cons, e1, encode_append _ _ (by omega)]
      · rw [List.length_append]; omega
      · rw [List.append_assoc, ← e3, List.take_append_drop]
    · exact ⟨[], by simp [encode], by simp, by simp, by show p.length < 3; omega⟩

theorem write_spec (e : Enc) (p : Bytes) (h : e.buf.length < 3) :
    ∃ X, (e.write p).2.flatten = encode X ∧ X.length % 3 = 0 ∧ e.buf ++ p = X ++ (e.write p).1.buf ∧
      (e.write p).1.buf.length < 3 := by
  unfold Enc.write
  split
  · rename_i hb
    have hi : ∃ i, (if p.length < 3 - e.buf.length then p.length else 3 - e.buf.length) = i ∧
        i ≤ p.length ∧ i ≤ 3 - e.buf.length ∧ (i < 3 - e.buf.length → i = p.length) := by
      refine ⟨_, rfl, ?_, ?_, ?_⟩ <;> split <;> omega
    obtain ⟨i, hi, h1, h2, h3⟩ := hi
    simp only [hi]
    have hl : (e.buf ++ p.take i).length = e.buf.length + i := by
      rw [List.length_append, List.length_take]; omega
    split
    · rename_i hlt
      have : i = p.length := h3 (by omega)
      refine ⟨[], by simp [encode], by simp, ?_, hlt⟩
      simp [this]
    · rename_i hge
      obtain ⟨X, e1, e2, e3, e4⟩ := interior_spec (p.drop i).length (p.drop i) (Nat.le_refl _)
      refine ⟨(e.buf ++ p.take i) ++ X, ?_, ?_, ?_, e4⟩
      · rw [List.flatten_cons, e1]; exact (encode_append _ X (by omega)).symm
      · rw [List.length_append]; omega
      · rw [List.append_assoc (e.buf ++ p.take i), ← e3, List.append_assoc, List.take_append_drop]
  · rename_i hb
    have : e.buf = [] := List.eq_nil_of_length_eq_zero (by omega)
    obtain ⟨X, e1, e2, e3, e4⟩ := interior_spec p.length p (Nat.le_refl _)
    exact ⟨X, e1, e2, by rw [this]; simpa using e3, e4⟩

theorem writes_spec (ws : List Bytes) (e : Enc) (h : e.buf.length < 3) :
    ∃ X, (b64Layer.writes e ws).2.flatten = encode X ∧ X.length % 3 = 0 ∧
      e.buf ++ ws.flatten = X ++ (b64Layer.writes e ws).1.buf ∧ (b64Layer.writes e ws).1.buf.length < 3 := by
  induction ws generalizing e with
  | nil => exact ⟨[], by simp [Layer.writes, encode], by simp, by simp [Layer.writes], by simpa [Layer.writes] using h⟩
  | cons c cs ih =>
    obtain ⟨X, e1, e2, e3, e4⟩ := write_spec e c h
    obtain ⟨Y, f1, f2, f3, f4⟩ := ih (e.write c).1 e4
    refine ⟨X ++ Y, ?_, ?_, ?_, f4⟩
    · show ((e.write c).2 ++ (b64Layer.writes (e.write c).1 cs).2).flatten = _
      rw [List.flatten_append, e1, f1, encode_append _ _ e2]
    · rw [List.length_append]; omega
    · show e.buf ++ (c :: cs).flatten = X ++ Y ++ (b64Layer.writes (e.write c).1 cs).1.buf
      rw [List.flatten_cons, ← List.append_assoc, e3, List.append_assoc, f3, List.append_assoc]

/-- Whatever the write chunking, what the `Base64` wrapper has put below after `Close` is the
base64 encoding of the concatenation. -/
theorem b64Layer_run (ws : List Bytes) : (b64Layer.run ws).flatten = encode ws.flatten := by
  obtain ⟨X, e1, e2, e3, e4⟩ := writes_spec ws { buf := [] } (by simp)
  show ((b64Layer.writes { buf := [] } ws).2 ++ (Enc.close (b64Layer.writes { buf := [] } ws).1).2).flatten = _
  simp only [List.nil_append] at e3
  rw [List.flatten_append, e1, e3]
  unfold Enc.close
  split
  · simp [encode_append _ _ e2]
  · rename_i hb
    have : (b64Layer.writes { buf := [] } ws).1.buf = [] := List.eq_nil_of_length_eq_zero (by omega)
    simp [this]

theorem close_done (e : Enc) : (Enc.close e).1.buf = [] := by
  unfold Enc.close
  split
  · rfl
  · rename_i hb
    show e.buf = []
    exact List.eq_nil_of_length_eq_zero (by omega)

/-! ### The reader below -/

theorem read_flatten (s : Src) (cap : Nat) :
    (s.read cap).1 ++ (s.read cap).2.1.pieces.flatten = s.pieces.flatten := by
  unfold Src.read
  cases h : s.pieces with
  | nil => simp [h]
  | cons p ps =>
    simp only []
    split
    · simp
    · simp only [List.flatten_cons]
      rw [← List.append_assoc, List.take_append_drop]

theorem read_eof (s : Src) (cap : Nat) (he : (s.read cap).2.2 = true) : (s.read cap).2.1.pieces = [] := by
  unfold Src.read at he ⊢
  cases h : s.pieces with
  | nil => simp [h]
  | cons p ps =>
    rw [h] at he
    simp only [] at he ⊢
    split at he
    · rename_i hle
      rw [if_pos hle]
      simp only [Bool.and_eq_true, List.isEmpty_iff] at he
      simpa using he.2
    · simp at he

theorem read_measure (s : Src) (cap : Nat) (hc : 1 ≤ cap) (he : (s.read cap).2.2 = false) :
    (s.read cap).2.1.pieces.flatten.length + (s.read cap).2.1.pieces.length <
      s.pieces.flatten.length + s.pieces.length := by
  unfold Src.read at he ⊢
  cases h : s.pieces with
  | nil => rw [h] at he; simp at he
  | cons p ps =>
    simp only []
    split
    · simp only [List.flatten_cons, List.length_append, List.length_cons]; omega
    · rename_i hgt
      simp only [List.flatten_cons, List.length_append, List.length_cons, List.length_drop]; omega

theorem nlRead_clean (f cap : Nat) (s : Src) (hc : ∀ b ∈ s.pieces.flatten, isNL b = false) :
    nlRead (f + 1) cap s = s.read cap := by
  have hsub : ∀ b ∈ (s.read cap).1, isNL b = false := fun b hb =>
    hc b (by rw [← read_flatten s cap]; exact List.mem_append_left _ hb)
  have hfil : (s.read cap).1.filter (fun b => !isNL b) = (s.read cap).1 :=
    List.filter_eq_self.mpr (fun b hb => by simp [hsub b hb])
  simp only [nlRead, hfil]
  split
  · rfl
  · rename_i hp
    have : (s.read cap).1 = [] := List.eq_nil_of_length_eq_zero (by omega)
    apply Prod.ext
    · exact this.symm
    · rfl

/-! ### Streaming decoder -/

theorem wantLen_ge (k : Nat) : 4 ≤ wantLen k := by
  have : decBuf = 1024 := by decide
  unfold wantLen
  simp only []
  split <;> split <;> omega

theorem refill_spec (k : Nat) (W : Bytes) (hW : ∀ b ∈ W, isNL b = false) :
    ∀ (f : Nat) (d : Dec) (s : Src),
      d.buf ++ s.pieces.flatten = W → (d.readErr = true → s.pieces = []) →
      (d.readErr = true ∨ 4 ≤ d.buf.length ∨ s.pieces.flatten.length + s.pieces.length < f) →
      (refill k f d s).1.buf ++ (refill k f d s).2.pieces.flatten = W ∧
      ((refill k f d s).1.readErr = true → (refill k f d s).2.pieces = []) ∧
      ((refill k f d s).1.readErr = true ∨ 4 ≤ (refill k f d s).1.buf.length) ∧
      (refill k f d s).1.err = d.err ∧ (refill k f d s).1.out = d.out := by
  intro f
  induction f with
  | zero =>
    intro d s h1 h2 h3
    refine ⟨h1, h2, ?_, rfl, rfl⟩
    rcases h3 with h3 | h3 | h3
    · exact Or.inl h3
    · exact Or.inr h3
    · omega
  | succ f ih =>
    intro d s h1 h2 h3
    unfold refill
    split
    · rename_i hc
      obtain ⟨hb, hre⟩ := hc
      have hclean : ∀ b ∈ s.pieces.flatten, isNL b = false := fun b hb =>
        hW b (by rw [← h1]; exact List.mem_append_right _ hb)
      have hcap : 1 ≤ wantLen k - d.buf.length := by have := wantLen_ge k; omega
      have hnl : nlRead (srcFuel s) (wantLen k - d.buf.length) s = s.read (wantLen k - d.buf.length) :=
        nlRead_clean _ _ s hclean
      simp only [hnl]
      have hfl := read_flatten s (wantLen k - d.buf.length)
      apply ih
      · show (d.buf ++ (s.read (wantLen k - d.buf.length)).1) ++ _ = W
        rw [List.append_assoc, hfl, h1]
      · intro he
        exact read_eof s _ he
      · show (s.read (wantLen k - d.buf.length)).2.2 = true ∨ _
        cases he : (s.read (wantLen k - d.buf.length)).2.2 with
        | true => exact Or.inl rfl
        | false =>
          right; right
          have := read_measure s _ hcap he
          rcases h3 with h3 | h3 | h3
          · rw [hre] at h3; cases h3
          · omega
          · omega
    · rename_i hc
      refine ⟨h1, h2, ?_, rfl, rfl⟩
      cases hr : d.readErr with
      | true => exact Or.inl rfl
      | false =>
        right
        show 4 ≤ d.buf.length
        have : ¬ d.buf.length < 4 := fun hb => hc ⟨hb, hr⟩
        omega

/-- what is buffered (decoded and not) plus what the reader below still holds is the encoding of the
bytes not yet delivered; an error is latched only as EOF after everything has been decoded -/
def InvB (d : Dec) (s : Src) (rest : Bytes) : Prop :=
  ∃ X, rest = d.out ++ X ∧ d.buf ++ s.pieces.flatten = encode X ∧ (d.readErr = true → s.pieces = []) ∧
    (d.err = none ∨ (d.err = some .eof ∧ X = []))

theorem read_spec (d : Dec) (s : Src) (rest : Bytes) (k : Nat) (h : InvB d s rest) :
    ∃ rest', rest = (d.read s k).2.2.1 ++ rest' ∧ InvB (d.read s k).1 (d.read s k).2.1 rest' ∧
      ((d.read s k).2.2.2 = none ∨ ((d.read s k).2.2.2 = some .eof ∧ rest' = [])) ∧
      (0 < k → (d.read s k).2.2.2 = none → rest'.length < rest.length) := by
  obtain ⟨X, hr, hw, hre, he⟩ := h
  unfold Dec.read
  split
  · -- leftover output
    rename_i ho
    refine ⟨d.out.drop k ++ X, ?_, ⟨X, rfl, hw, hre, he⟩, Or.inl rfl, ?_⟩
    · show rest = d.out.take k ++ (d.out.drop k ++ X)
      rw [← List.append_assoc, List.take_append_drop]; exact hr
    · intro hk _
      rw [hr, List.length_append, List.length_append, List.length_drop]; omega
  · rename_i ho
    have hout : d.out = [] := List.eq_nil_of_length_eq_zero (by omega)
    split
    · -- latched error
      rename_i hs
      rcases he with he | ⟨he, hx⟩
      · rw [he] at hs; simp at hs
      · refine ⟨[], ?_, ⟨X, by rw [hout, hx]; rfl, hw, hre, Or.inr ⟨he, hx⟩⟩, Or.inr ⟨he, rfl⟩, ?_⟩
        · rw [hr, hout, hx]
        · intro _ hn; rw [he] at hn; cases hn
    · rename_i hs
      have herr : d.err = none := by
        cases hd : d.err with
        | none => rfl
        | some e => rw [hd] at hs; simp at hs
      have hclean : ∀ b ∈ encode X, isNL b = false := encode_clean X
      obtain ⟨r1, r2, r3, r4, r5⟩ := refill_spec k (encode X) hclean (srcFuel s) d s hw hre
        (Or.inr (Or.inr (by unfold srcFuel; omega)))
      simp only []
      split
      · -- fewer than 4 characters and the reader below is exhausted: they are none
        rename_i hlt
        have hre' : (refill k (srcFuel s) d s).1.readErr = true := by
          rcases r3 with r3 | r3
          · exact r3
          · omega
        have hp := r2 hre'
        rw [hp] at r1
        simp only [List.flatten_nil, List.append_nil] at r1
        have hl : (refill k (srcFuel s) d s).1.buf.length = 0 := by
          have := encode_length X
          rw [← r1] at this; omega
        have hX : X = [] := encode_eq_nil (by rw [← r1]; exact hl)
        simp only [hre', hl, if_true]
        refine ⟨[], ?_, ⟨[], ?_, ?_, fun _ => hp, Or.inr ⟨rfl, rfl⟩⟩, Or.inr ⟨by simp, rfl⟩, ?_⟩
        · rw [hr, hout, hX]
        · show [] = (refill k (srcFuel s) d s).1.out ++ []
          rw [r5, hout]; rfl
        · show (refill k (srcFuel s) d s).1.buf ++ _ = encode []
          rw [hp, List.eq_nil_of_length_eq_zero hl]; rfl
        · intro _ hn; simp at hn
      · rename_i hge
        -- whole quanta are decoded
        have hm : ∃ m, (refill k (srcFuel s) d s).1.buf.length / 4 = m ∧ 1 ≤ m ∧
            4 * m ≤ (refill k (srcFuel s) d s).1.buf.length := ⟨_, rfl, by omega, by omega⟩
        obtain ⟨m, hm, hm1, hm4⟩ := hm
        have htake : (refill k (srcFuel s) d s).1.buf.take (4 * m) = encode (X.take (3 * m)) := by
          rw [← encode_take, ← r1, List.take_append_of_le_length hm4]
        have hdrop : (refill k (srcFuel s) d s).1.buf.drop (4 * m) ++
            (refill k (srcFuel s) d s).2.pieces.flatten = encode (X.drop (3 * m)) := by
          rw [← encode_drop, ← r1, List.drop_append_of_le_length hm4]
        have hXl : 1 ≤ X.length := by
          have h1 := encode_length X
          have h2 := congrArg List.length r1
          rw [List.length_append] at h2
          omega
        simp only [hm, Nat.mul_comm m 4, Nat.mul_comm m 3, htake, decode_encode]
        split
        · -- more than fits: the rest is kept in `out`
          refine ⟨(X.take (3 * m)).drop k ++ X.drop (3 * m), ?_,
            ⟨X.drop (3 * m), rfl, hdrop, r2, Or.inl rfl⟩, Or.inl rfl, ?_⟩
          · show rest = (X.take (3 * m)).take k ++ ((X.take (3 * m)).drop k ++ X.drop (3 * m))
            rw [← List.append_assoc, List.take_append_drop, List.take_append_drop, hr, hout]; rfl
          · intro hk _
            rw [hr, hout]
            simp only [List.nil_append, List.length_append, List.length_drop, List.length_take]
            omega
        · refine ⟨X.drop (3 * m), ?_, ⟨X.drop (3 * m), ?_, hdrop, r2, Or.inl rfl⟩, Or.inl rfl, ?_⟩
          · show rest = X.take (3 * m) ++ X.drop (3 * m)
            rw [List.take_append_drop, hr, hout]; rfl
          · show X.drop (3 * m) = (refill k (srcFuel s) d s).1.out ++ X.drop (3 * m)
            rw [r5, hout]; rfl
          · intro hk _
            rw [hr, hout]
            simp only [List.nil_append, List.length_drop]
            omega

theorem readSeq_spec (ks : List Nat) (d : Dec) (s : Src) (rest : Bytes) (h : InvB d s rest) :
    ∃ rest', rest = (readSeq d s ks).1.flatten ++ rest' ∧
      ((readSeq d s ks).2 = none ∨ ((readSeq d s ks).2 = some .eof ∧ rest' = [])) := by
  induction ks generalizing d s rest with
  | nil => exact ⟨rest, by simp [readSeq], Or.inl rfl⟩
  | cons k ks ih =>
    obtain ⟨rest', e1, i1, e2, _⟩ := read_spec d s rest k h
    unfold readSeq
    rcases e2 with e2 | ⟨e2, e3⟩
    · simp only [e2]
      obtain ⟨rest'', f1, f2⟩ := ih _ _ rest' i1
      refine ⟨rest'', ?_, f2⟩
      rw [List.flatten_cons, List.append_assoc, ← f1]; exact e1
    · simp only [e2]
      exact ⟨rest', by simpa using e1, by simp [e3]⟩

theorem readAll_spec (k : Nat) (hk : 0 < k) (fuel : Nat) (d : Dec) (s : Src) (rest : Bytes) (h : InvB d s rest)
    (hf : rest.length + 1 < fuel) : readAll k fuel d s = (rest, some .eof) := by
  induction fuel generalizing d s rest with
  | zero => omega
  | succ fuel ih =>
    obtain ⟨rest', e1, i1, e2, e3⟩ := read_spec d s rest k h
    unfold readAll
    rcases e2 with e2 | ⟨e2, e4⟩
    · simp only [e2]
      have hlt := e3 hk e2
      rw [ih _ _ rest' i1 (by omega)]
      simp [← e1]
    · simp only [e2]
      rw [e4, List.append_nil] at e1
      rw [← e1]

theorem invB_init (wire : List Bytes) (we : Bool) (x : Bytes) (h : wire.flatten = encode x) :
    InvB Dec.init { pieces := wire, withEOF := we } x :=
  ⟨x, by simp [Dec.init], by simpa [Dec.init] using h, by simp [Dec.init], Or.inl rfl⟩

/-- The `Base64` wrapper is a lossless layer. -/
theorem b64Layer_good : LGood b64Layer := by
  refine ⟨fun e => e.buf = [], ?_, fun ws => ⟨close_done _, ?_⟩⟩
  · intro e he
    refine ⟨?_, close_done e⟩
    show (Enc.close e).2 = []
    unfold Enc.close
    rw [he]; rfl
  · have hr := b64Layer_run ws
    have hi := invB_init [(b64Layer.run ws).flatten] false ws.flatten (by simpa using hr)
    have hl : ws.flatten.length ≤ ((b64Layer.run ws).flatten).length := by
      rw [hr, encode_length]; omega
    have := readAll_spec 512 (by decide) ((b64Layer.run ws).flatten.length + 3) Dec.init
      { pieces := [(b64Layer.run ws).flatten], withEOF := false } ws.flatten hi (by omega)
    show decAll (b64Layer.run ws).flatten = some ws.flatten
    unfold decAll
    rw [this]

/-! ### The transform with the concrete codec -/

theorem transformWrite_eq (shift : UInt8) (p : Bytes) :
    transformWrite shift p = encode (if shift ≠ 0 then p.map (· + shift) else p) := by
  have h := b64Layer_run [if shift ≠ 0 then p.map (· + shift) else p]
  rw [List.flatten_cons, List.flatten_nil, List.append_nil] at h
  rw [← h]
  unfold transformWrite
  simp only [Layer.run, Layer.writes, b64Layer, List.append_nil]

theorem transform_roundtrip (shift : UInt8) (p : Bytes) :
    transformRead shift (transformWrite shift p) = some p := by
  rw [transformWrite_eq]
  unfold transformRead
  rw [decode_encode]
  by_cases h : shift = 0
  · simp [h]
  · simp only [ne_eq, h, not_false_eq_true, if_true, List.map_map, Option.some.injEq]
    have : ((fun x => x - shift) ∘ fun x => x + shift) = id := by
      funext x; simp [UInt8.add_sub_cancel]
    rw [this]; simp

end XMT.B64Codec
