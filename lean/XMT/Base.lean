/-
  XMT.Base — bytes, big-endian integers, chunked streams (Go io.Reader semantics).
  Core-only (no Mathlib) so that the driver can be compiled as a lean_exe.
-/
namespace XMT

abbrev Bytes := List UInt8

/-- `byteOf n` is Go's `byte(n)` conversion on a non-negative integer. -/
def byteOf (n : Nat) : UInt8 := UInt8.ofNat (n % 256)

@[simp] theorem byteOf_toNat (n : Nat) : (byteOf n).toNat = n % 256 := by
  simp [byteOf]

theorem byteOf_toNat_eq (b : UInt8) : byteOf b.toNat = b := by
  apply UInt8.toNat_inj.mp
  simp [byteOf]

/-! ### Big-endian fixed-width integers (written byte by byte exactly as the Go code does) -/

def be16 (n : Nat) : Bytes := [byteOf (n >>> 8), byteOf n]
def be32 (n : Nat) : Bytes := [byteOf (n >>> 24), byteOf (n >>> 16), byteOf (n >>> 8), byteOf n]
def be64 (n : Nat) : Bytes :=
  [byteOf (n >>> 56), byteOf (n >>> 48), byteOf (n >>> 40), byteOf (n >>> 32),
   byteOf (n >>> 24), byteOf (n >>> 16), byteOf (n >>> 8), byteOf n]

/-- Go: `uint16(b1) | uint16(b0)<<8` -/
def ofBe16 (b0 b1 : UInt8) : Nat := b1.toNat ||| (b0.toNat <<< 8)
def ofBe32 (b0 b1 b2 b3 : UInt8) : Nat :=
  b3.toNat ||| (b2.toNat <<< 8) ||| (b1.toNat <<< 16) ||| (b0.toNat <<< 24)
def ofBe64 (b0 b1 b2 b3 b4 b5 b6 b7 : UInt8) : Nat :=
  b7.toNat ||| (b6.toNat <<< 8) ||| (b5.toNat <<< 16) ||| (b4.toNat <<< 24) |||
  (b3.toNat <<< 32) ||| (b2.toNat <<< 40) ||| (b1.toNat <<< 48) ||| (b0.toNat <<< 56)

/-- `x ||| (y <<< k) = x + y * 2^k` when `x < 2^k` (the bridging lemma of DESIGN §4). -/
theorem or_shl_eq_add (x y k : Nat) (h : x < 2 ^ k) : x ||| (y <<< k) = x + y * 2 ^ k := by
  rw [Nat.or_comm, ← Nat.shiftLeft_add_eq_or_of_lt h, Nat.shiftLeft_eq]; omega

theorem ofBe16_eq (b0 b1 : UInt8) : ofBe16 b0 b1 = b1.toNat + b0.toNat * 256 := by
  have h1 := UInt8.toNat_lt b1
  unfold ofBe16
  rw [or_shl_eq_add _ _ 8 (by omega)]

theorem ofBe32_eq (b0 b1 b2 b3 : UInt8) :
    ofBe32 b0 b1 b2 b3 = b3.toNat + b2.toNat * 2^8 + b1.toNat * 2^16 + b0.toNat * 2^24 := by
  have h0 := UInt8.toNat_lt b0; have h1 := UInt8.toNat_lt b1
  have h2 := UInt8.toNat_lt b2; have h3 := UInt8.toNat_lt b3
  unfold ofBe32
  rw [or_shl_eq_add _ _ 8 (by omega), or_shl_eq_add _ _ 16 (by omega), or_shl_eq_add _ _ 24 (by omega)]

theorem ofBe64_eq (b0 b1 b2 b3 b4 b5 b6 b7 : UInt8) :
    ofBe64 b0 b1 b2 b3 b4 b5 b6 b7 =
      b7.toNat + b6.toNat * 2^8 + b5.toNat * 2^16 + b4.toNat * 2^24 +
      b3.toNat * 2^32 + b2.toNat * 2^40 + b1.toNat * 2^48 + b0.toNat * 2^56 := by
  have h0 := UInt8.toNat_lt b0; have h1 := UInt8.toNat_lt b1
  have h2 := UInt8.toNat_lt b2; have h3 := UInt8.toNat_lt b3
  have h4 := UInt8.toNat_lt b4; have h5 := UInt8.toNat_lt b5
  have h6 := UInt8.toNat_lt b6; have h7 := UInt8.toNat_lt b7
  unfold ofBe64
  rw [or_shl_eq_add _ _ 8 (by omega), or_shl_eq_add _ _ 16 (by omega), or_shl_eq_add _ _ 24 (by omega),
      or_shl_eq_add _ _ 32 (by omega), or_shl_eq_add _ _ 40 (by omega), or_shl_eq_add _ _ 48 (by omega),
      or_shl_eq_add _ _ 56 (by omega)]

theorem ofBe16_be16 (n : Nat) (h : n < 2^16) :
    ofBe16 (byteOf (n >>> 8)) (byteOf n) = n := by
  rw [ofBe16_eq]; simp [Nat.shiftRight_eq_div_pow]; omega

theorem ofBe32_be32 (n : Nat) (h : n < 2^32) :
    ofBe32 (byteOf (n >>> 24)) (byteOf (n >>> 16)) (byteOf (n >>> 8)) (byteOf n) = n := by
  rw [ofBe32_eq]; simp [Nat.shiftRight_eq_div_pow]; omega

theorem ofBe64_be64 (n : Nat) (h : n < 2^64) :
    ofBe64 (byteOf (n >>> 56)) (byteOf (n >>> 48)) (byteOf (n >>> 40)) (byteOf (n >>> 32))
           (byteOf (n >>> 24)) (byteOf (n >>> 16)) (byteOf (n >>> 8)) (byteOf n) = n := by
  rw [ofBe64_eq]; simp [Nat.shiftRight_eq_div_pow]; omega

theorem ofBe16_lt (b0 b1 : UInt8) : ofBe16 b0 b1 < 2^16 := by
  have h0 := UInt8.toNat_lt b0; have h1 := UInt8.toNat_lt b1
  rw [ofBe16_eq]; omega
theorem ofBe32_lt (b0 b1 b2 b3 : UInt8) : ofBe32 b0 b1 b2 b3 < 2^32 := by
  have h0 := UInt8.toNat_lt b0; have h1 := UInt8.toNat_lt b1
  have h2 := UInt8.toNat_lt b2; have h3 := UInt8.toNat_lt b3
  rw [ofBe32_eq]; omega
theorem ofBe64_lt (b0 b1 b2 b3 b4 b5 b6 b7 : UInt8) : ofBe64 b0 b1 b2 b3 b4 b5 b6 b7 < 2^64 := by
  have h0 := UInt8.toNat_lt b0; have h1 := UInt8.toNat_lt b1
  have h2 := UInt8.toNat_lt b2; have h3 := UInt8.toNat_lt b3
  have h4 := UInt8.toNat_lt b4; have h5 := UInt8.toNat_lt b5
  have h6 := UInt8.toNat_lt b6; have h7 := UInt8.toNat_lt b7
  rw [ofBe64_eq]; omega

/-! ### Hex encoding (driver I/O only; no theorem depends on it) -/

def hexDigit (n : Nat) : Char :=
  if n < 10 then Char.ofNat (48 + n) else Char.ofNat (87 + n)

def toHex (b : Bytes) : String :=
  String.ofList (b.flatMap fun x => [hexDigit (x.toNat / 16), hexDigit (x.toNat % 16)])

def hexVal (c : Char) : Option Nat :=
  if '0' ≤ c ∧ c ≤ '9' then some (c.toNat - 48)
  else if 'a' ≤ c ∧ c ≤ 'f' then some (c.toNat - 87)
  else if 'A' ≤ c ∧ c ≤ 'F' then some (c.toNat - 55)
  else none

def ofHexChars : List Char → Option Bytes
  | [] => some []
  | [_] => none
  | a :: b :: rest => do
    let x ← hexVal a
    let y ← hexVal b
    let r ← ofHexChars rest
    pure (UInt8.ofNat (x * 16 + y) :: r)

/-- `-` denotes the empty byte string on the wire protocol. -/
def ofHex (s : String) : Option Bytes :=
  if s = "-" then some [] else ofHexChars s.toList

def hexOrDash (b : Bytes) : String := if b.isEmpty then "-" else toHex b

end XMT
