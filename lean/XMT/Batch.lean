/-
  XMT.Batch — model of packet batching:
    send side    c2/session.go (*Session).next / pick (non-blocking arms), c2/vars.go nextPacket,
                 writeUnpack, verifyPacket, isPacketNoP, mergeTags
    receive side c2/vars.go receive (FlagMulti arm): nested `UnmarshalStream` of `Len` packets
  Budgets `limits.Packets` / `limits.Frag` are parameters (`P`, `F`).
-/
import XMT.Packet
import XMT.Flag
import XMT.Generated.Facts

namespace XMT.Batch
open XMT XMT.Packet XMT.Codec

abbrev Pkt := Packet.Packet

inductive Err | count | tooMany
  deriving Repr, DecidableEq

def devEmpty (d : Bytes) : Bool := d.head? = some 0 || d.isEmpty

/-- `isPacketNoP` -/
def isNoP (n : Pkt) : Bool :=
  n.id.toNat < 2 && n.payload.isEmpty && (n.flags = 0 || n.flags = Facts.flagProxy)

/-- `verifyPacket(n, i)` for packets that already carry a job number (`n.Job == 0` with `ID > 1`
draws a random job — excluded from the model's domain, see `Props.C03`). -/
def verify (n : Pkt) (i : Bytes) : Pkt × Bool :=
  if devEmpty n.dev then ({ n with dev := i }, true) else (n, n.dev = i)

def hasFlag (f b : Nat) : Bool := f &&& b ≠ 0

/-- `writeUnpack(dst, src, true, true)` -/
def writeUnpack (dst src : Pkt) : Except Err Pkt :=
  if hasFlag src.flags Facts.flagMulti || hasFlag src.flags Facts.flagMultiDevice then
    let x := Flag.len src.flags
    if x = 0 then .error .count
    else if x + Flag.len dst.flags > Facts.fragMax then .error .tooMany
    else .ok { dst with payload := dst.payload ++ src.payload,
                        flags := Flag.setLen dst.flags ((Flag.len dst.flags + x) % 2^16) }
  else if Flag.len dst.flags + 1 > Facts.fragMax then .error .tooMany
  else
    let f := Flag.setLen dst.flags ((Flag.len dst.flags + 1) % 2^16)
    let f := if hasFlag src.flags Facts.flagChannel then f ||| Facts.flagChannel else f
    .ok { dst with payload := dst.payload ++ marshalStream src, flags := f ||| Facts.flagMulti,
                   tags := dst.tags ++ src.tags }

/-- `mergeTags` (the Go code builds the union through a map: the order is unspecified; the model
returns it sorted, the harness compares tag *sets*) -/
def mergeTags (one two : List Nat) : List Nat :=
  if one.isEmpty && two.isEmpty then []
  else if one.isEmpty then two
  else if two.isEmpty then one
  else ((one ++ two).eraseDups).toArray.qsort (· < ·) |>.toList

section
variable (P F : Nat)   -- limits.Packets, limits.Frag

/-- `if n == nil { n = <-q }` -/
def takeNext (o : Pkt) : Option Pkt → List Pkt → Pkt × List Pkt
  | some n, q => (n, q)
  | none, h :: t => (h, t)
  | none, [] => (o, [])      -- unreachable (the loop condition has `len(q) > 0`)

/-- the keep-alive elision test of the loop -/
def elide (i : Bytes) (s : Nat) (m : Bool) (n : Pkt) : Bool :=
  isNoP n && ((decide (s > 0) && !m) || (devEmpty n.dev || decide (n.dev = i)))

/-- `!verifyPacket(n, i) && !m → o.Flags |= FlagMultiDevice; m = true` -/
def markMD (i : Bytes) (m : Bool) (o n : Pkt) : Pkt × Bool :=
  if !(verify n i).2 && !m then ({ o with flags := o.flags ||| Facts.flagMultiDevice }, true) else (o, m)

/-- `verifyPacket`, the multi-device mark, `writeUnpack` (its error is ignored by the code) -/
def packOne (i : Bytes) (m : Bool) (o n : Pkt) : Pkt × Bool :=
  (match writeUnpack (markMD i m o n).1 (verify n i).1 with
   | .ok o' => o'
   | .error _ => (markMD i m o n).1, (markMD i m o n).2)

/-- the batching loop of `nextPacket`: `x` iterations so far, `s` bytes so far, `m` = multi-device
marked; `n` = packet in hand. Returns (batch, carry-over, remaining queue). -/
def loop (i : Bytes) : Nat → Nat → Nat → Bool → Pkt → Option Pkt → List Pkt → Pkt × Option Pkt × List Pkt
  | 0, _, _, _, o, n, q => (o, n, q)        -- (fuel exhausted: not reached, fuel = P + 1)
  | fuel + 1, x, s, m, o, n, q =>
    if x < P ∧ q ≠ [] then
      -- a packet that carries key material is never packed behind others: kept back
      if hasFlag (takeNext o n q).1.flags Facts.flagCrypt ∧ Flag.len o.flags > 0 then
        (o, some (takeNext o n q).1, (takeNext o n q).2)
      else if elide i s m (takeNext o n q).1 then
        loop i fuel (x + 1) s m o none (takeNext o n q).2
      else if s > 0 ∧ s + Packet.size (takeNext o n q).1 > F then
        (o, some (takeNext o n q).1, (takeNext o n q).2)       -- does not fit: carried over
      else
        loop i fuel (x + 1) (s + Packet.size (takeNext o n q).1) (packOne i m o (takeNext o n q).1).2
          (packOne i m o (takeNext o n q).1).1 none (takeNext o n q).2
    else (o, n, q)

def emptyBatch (i : Bytes) (fl : Nat) : Pkt :=
  { id := 0, job := 0, flags := fl, tags := [], dev := i, payload := [] }

/-- the branch of `nextPacket` that sends one packet on its own -/
def single (i : Bytes) (t : List Nat) (n : Pkt) (q : List Pkt) : Option Pkt × Option Pkt × List Pkt :=
  if (verify n i).2 then (some { (verify n i).1 with tags := (verify n i).1.tags ++ t }, none, q)
  else
    (some { (match writeUnpack (emptyBatch i (Facts.flagMulti ||| Facts.flagMultiDevice)) (verify n i).1 with
            | .ok o' => o'
            | .error _ => emptyBatch i (Facts.flagMulti ||| Facts.flagMultiDevice)) with
          tags := (match writeUnpack (emptyBatch i (Facts.flagMulti ||| Facts.flagMultiDevice)) (verify n i).1 with
                   | .ok o' => o'
                   | .error _ => emptyBatch i (Facts.flagMulti ||| Facts.flagMultiDevice)).tags ++ t },
     none, q)

/-- only keep-alives were queued: send one keep-alive instead of an empty batch (repair) -/
def normEmpty (o : Pkt) : Pkt := if Flag.len o.flags = 0 then { o with id := 0, flags := 0 } else o

/-- a batch of one own packet is sent as that packet -/
def unwrapOne (o : Pkt) : Pkt :=
  if Flag.len o.flags = 1 ∧ ¬ hasFlag o.flags Facts.flagMultiDevice ∧ o.id = 0 then
    match unmarshalStream chunkPrim devReadChunk o.payload with
    | .ok (v, _) => v
    | .error _ => emptyBatch (List.replicate Facts.idSize 0) 0
  else o

/-- what `nextPacket` does with the batch after the loop -/
def finishBatch (o : Pkt) : Pkt := unwrapOne (normEmpty o)

/-- `nextPacket(a, q, n, i, t)` : (packet to send, carry-over, remaining queue) -/
def nextPacket (q : List Pkt) (n : Option Pkt) (i : Bytes) (t : List Nat) :
    Option Pkt × Option Pkt × List Pkt :=
  match n, q with
  | none, [] => (none, none, [])
  | some n0, [] => single i t n0 []
  | n, h :: tl =>
    if P ≤ 1 then
      match n with
      | some n0 => single i t n0 (h :: tl)
      | none => single i t h tl
    else
      (some (finishBatch (loop P F i (P + 1) 0 0 false (emptyBatch i Facts.flagMulti) n (h :: tl)).1),
       (loop P F i (P + 1) 0 0 false (emptyBatch i Facts.flagMulti) n (h :: tl)).2.1,
       (loop P F i (P + 1) 0 0 false (emptyBatch i Facts.flagMulti) n (h :: tl)).2.2)

structure St where
  q : List Pkt
  peek : Option Pkt
  last : Nat
  deriving Repr

/-- `pick(true)`: the carried-over packet, else the head of the queue -/
def pick (st : St) : Option Pkt × List Pkt :=
  match st.peek, st.q with
  | some n, q => (some n, q)
  | none, h :: t => (some h, t)
  | none, [] => (none, [])

/-- `for n.Flags.Group() == l && len(s.send) > 0 { n = <-s.send }` -/
def skipGroup (last : Nat) : Pkt → List Pkt → Pkt × List Pkt
  | n, [] => (n, [])
  | n, h :: tl => if Flag.group n.flags = last then skipGroup last h tl else (n, h :: tl)

/-- a packet that carries key material (re-key announcement, re-registration hello) -/
def isRekey (n : Pkt) : Bool := hasFlag n.flags Facts.flagCrypt

/-- the rest of `next` once a packet `n` has been picked and `q` is what is left in the queue -/
def nextFrom (last : Nat) (i : Bytes) (n : Pkt) (q : List Pkt) : Option Pkt × St :=
  -- a packet with key material (Crypt flag) is always sent on its own
  if (q = [] ∨ isRekey n) ∧ (verify n i).2 then
    (some (verify n i).1, { q := q, peek := none, last := 0 })
  else if last > 0 then
    -- skip queued packets of the group the peer asked to abandon
    if Flag.group (skipGroup last n q).1.flags = last then
      (some { id := 0, job := 0, flags := 0, tags := n.tags, dev := i, payload := [] },
       { q := (skipGroup last n q).2, peek := none, last := 0 })
    else
      ((nextPacket P F (skipGroup last n q).2 (some (skipGroup last n q).1) i n.tags).1.map
          fun o => { o with tags := mergeTags o.tags n.tags },
       { q := (nextPacket P F (skipGroup last n q).2 (some (skipGroup last n q).1) i n.tags).2.2,
         peek := (nextPacket P F (skipGroup last n q).2 (some (skipGroup last n q).1) i n.tags).2.1,
         last := 0 })
  else
    ((nextPacket P F q (some n) i n.tags).1.map fun o => { o with tags := mergeTags o.tags n.tags },
     { q := (nextPacket P F q (some n) i n.tags).2.2, peek := (nextPacket P F q (some n) i n.tags).2.1,
       last := last })

/-- `(*Session).next(true)` on the non-blocking arms (no proxy attached): returns the packet for
this transmission (or none when there is nothing to send) and the new state. -/
def next (st : St) (i : Bytes) : Option Pkt × St :=
  match (pick st).1 with
  | none => (none, { st with peek := none })
  | some n => nextFrom P F st.last i n (pick st).2

end

/-! ### receive side -/

/-- read `k` nested packets from `bs`, unpacking each with `rec` -/
def unpackLevel (rec : Pkt → Except PErr (List Pkt)) : Nat → Bytes → Except PErr (List Pkt)
  | 0, _ => .ok []
  | k + 1, bs =>
    match unmarshalStream chunkPrim devReadChunk bs with
    | .error e => .error e
    | .ok (v, rest) =>
      match rec v with
      | .error e => .error e
      | .ok vs =>
        match unpackLevel rec k rest with
        | .error e => .error e
        | .ok ws => .ok (vs ++ ws)

/-- unpack what a transmission carries: the `FlagMulti` arm of `receive` (`Len` nested packets, each
of which may again be a batch; `fuel` bounds the nesting depth) -/
def unpack : Nat → Pkt → Except PErr (List Pkt)
  | 0, _ => .ok []
  | fuel + 1, n =>
    if hasFlag n.flags Facts.flagMulti then
      if Flag.len n.flags = 0 then .error .invalidType     -- ErrInvalidPacketCount
      else unpackLevel (unpack fuel) (Flag.len n.flags) n.payload
    else .ok [n]

end XMT.Batch
