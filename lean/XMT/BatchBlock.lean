/-
  XMT.BatchBlock — all arms of `(*Session).pick(i)` / `next(i)` (c2/session.go), C03 round s3.

      if s.peek != nil { … return peek }
      if len(s.send) > 0 { return <-s.send }
      switch {
      case !s.IsClient() && s.state.Channel():      select { case <-s.wake: return nil; case n := <-s.send: return n }
      case !i && s.parent == nil && s.state.Channel(): go s.pickWait(&o); n := <-s.send; …; return n
      case i:                                       return nil
      }
      if n := s.keyNextSync(); n != nil { return n }
      return &com.Packet{Device: s.ID}

  The model is sequential (nobody queues while the call runs). Then
  * the first arm finds nothing to receive: the call does not return (`Tx.blocked`) until a packet is
    queued (`resume`: it is then received and goes through the rest of `next`) — a wake-up makes it
    return nil, which is `Tx.nothing`;
  * the second arm receives what its own `pickWait` goroutine sends after `s.wait()`:
    `keyNextSync()` or, without one, `&com.Packet{Device: s.ID}` — the same packet the fall-through
    produces, later (time is not modelled);
  * `keyNextSync()` is an input: `ks = some payload` is the re-key announcement
    `&com.Packet{Device: s.ID, Flags: FlagCrypt}` with the new public key as payload.
-/
import XMT.Batch
namespace XMT.Batch
open XMT XMT.Packet XMT.Codec

structure Mode where
  client : Bool      -- s.IsClient(): parent == nil && s.s == nil
  parentNil : Bool   -- s.parent == nil
  channel : Bool     -- s.state.Channel()
  deriving Repr, DecidableEq

inductive Picked
  | pkt (n : Pkt) (q : List Pkt)
  | nothing
  | blocked
  deriving Repr

/-- `&com.Packet{Device: s.ID}` or the re-key announcement of `keyNextSync` -/
def idlePkt (i : Bytes) (ks : Option Bytes) : Pkt :=
  match ks with
  | some key => { id := 0, job := 0, flags := Facts.flagCrypt, tags := [], dev := i, payload := key }
  | none => { id := 0, job := 0, flags := 0, tags := [], dev := i, payload := [] }

/-- `pick(i)`, every arm -/
def pickB (md : Mode) (ib : Bool) (ks : Option Bytes) (i : Bytes) (st : St) : Picked :=
  match st.peek, st.q with
  | some n, q => .pkt n q
  | none, h :: t => .pkt h t
  | none, [] =>
    if !md.client && md.channel then .blocked
    else if !ib && md.parentNil && md.channel then .pkt (idlePkt i ks) []
    else if ib then .nothing
    else .pkt (idlePkt i ks) []

inductive Tx
  | sent (o : Pkt)
  | nothing
  | blocked
  deriving Repr

def Tx.ofOption : Option Pkt → Tx
  | some o => .sent o
  | none => .nothing

section
variable (P F : Nat)

/-- `next(i)`, every arm of `pick` -/
def nextB (md : Mode) (ib : Bool) (ks : Option Bytes) (st : St) (i : Bytes) : Tx × St :=
  match pickB md ib ks i st with
  | .nothing => (.nothing, { st with peek := none })
  | .blocked => (.blocked, st)
  | .pkt n q => (Tx.ofOption (nextFrom P F st.last i n q).1, (nextFrom P F st.last i n q).2)

/-- a blocked call (first arm) completes when `p` is queued: `n := <-s.send` -/
def resume (st : St) (i : Bytes) (p : Pkt) : Tx × St :=
  (Tx.ofOption (nextFrom P F st.last i p st.q).1, (nextFrom P F st.last i p st.q).2)

end
end XMT.Batch
