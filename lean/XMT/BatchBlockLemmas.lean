/-
  XMT.BatchBlockLemmas — histories that mix `next(true)`, `next(false)` (in every session mode) and
  `queue` lose nothing: see `mixed_history_lossless`.
-/
import XMT.BatchBlock
import XMT.BatchLast
namespace XMT.Batch
open XMT XMT.Packet XMT.Codec

/-- one event at the sending session -/
inductive Ev
  | call (md : Mode) (ib : Bool) (ks : Option Bytes)   -- `s.next(ib)` in mode `md`
  | queue (p : Pkt)                                     -- `s.queue(p)`: `s.send <- p`

def queuedOf : List Ev → List Pkt
  | [] => []
  | .queue p :: es => p :: queuedOf es
  | .call .. :: es => queuedOf es

theorem verify_idle (i : Bytes) (ks : Option Bytes) :
    verify (idlePkt i ks) i = (idlePkt i ks, true) := by
  unfold verify
  by_cases h : devEmpty (idlePkt i ks).dev = true
  · rw [if_pos h]; cases ks <;> rfl
  · rw [if_neg h]
    have : (idlePkt i ks).dev = i := by cases ks <;> rfl
    simp [this]

section
variable (P F : Nat)

theorem nextFrom_idle (last : Nat) (i : Bytes) (ks : Option Bytes) :
    nextFrom P F last i (idlePkt i ks) [] = (some (idlePkt i ks), { q := [], peek := none, last := 0 }) := by
  unfold nextFrom
  rw [verify_idle, if_pos ⟨Or.inl rfl, rfl⟩]

/-- with something to send every arm of `pick` is the non-blocking one: `next(i)` = the model `next` -/
theorem nextB_nonempty (md : Mode) (ib : Bool) (ks : Option Bytes) (st : St) (i : Bytes)
    (h : content st ≠ []) :
    nextB P F md ib ks st i = (Tx.ofOption (next P F st i).1, (next P F st i).2) := by
  unfold nextB pickB next pick
  cases hp : st.peek with
  | some n => rfl
  | none =>
    cases hq : st.q with
    | nil => exact absurd (by simp [content, hp, hq]) h
    | cons a t => rfl

/-- with nothing to send: blocked (state untouched), nothing, or the idle packet -/
theorem nextB_empty (md : Mode) (ib : Bool) (ks : Option Bytes) (st : St) (i : Bytes)
    (h : content st = []) :
    (nextB P F md ib ks st i = (.blocked, st)) ∨
    (nextB P F md ib ks st i = (.nothing, { st with peek := none })) ∨
    (nextB P F md ib ks st i = (.sent (idlePkt i ks), { q := [], peek := none, last := 0 })) := by
  have hp : st.peek = none := by
    cases hp : st.peek with
    | none => rfl
    | some n => simp [content, hp] at h
  have hq : st.q = [] := by simpa [content, hp] using h
  unfold nextB pickB
  rw [hp, hq]
  simp only
  by_cases c1 : (!md.client && md.channel) = true
  · rw [if_pos c1]; exact Or.inl rfl
  · rw [if_neg c1]
    by_cases c2 : (!ib && md.parentNil && md.channel) = true
    · rw [if_pos c2]; simp only [nextFrom_idle]; exact Or.inr (Or.inr rfl)
    · rw [if_neg c2]
      by_cases c3 : ib = true
      · rw [if_pos c3]; exact Or.inr (Or.inl rfl)
      · rw [if_neg c3]; simp only [nextFrom_idle]; exact Or.inr (Or.inr rfl)

/-- a blocked call that completes because `p` was queued is a call on the queue `[p]` -/
theorem resume_eq (st : St) (i : Bytes) (p : Pkt) (hp : st.peek = none) :
    resume P F st i p =
      (Tx.ofOption (next P F { st with q := p :: st.q } i).1, (next P F { st with q := p :: st.q } i).2) := by
  unfold resume next pick
  simp only [hp]

/-- one event: the transmission it produces (`true` = the idle packet of an empty session) -/
def stepB (i : Bytes) (e : Ev) (st : St) : Option (Pkt × Bool) × St :=
  match e with
  | .queue p => (none, { st with q := st.q ++ [p] })
  | .call md ib ks =>
    match nextB P F md ib ks st i with
    | (.sent o, st') => (some (o, decide (content st = [])), st')
    | (_, st') => (none, st')

def runB (i : Bytes) : List Ev → St → List (Pkt × Bool) × St
  | [], st => ([], st)
  | e :: es, st => ((stepB P F i e st).1.toList ++ (runB i es (stepB P F i e st).2).1,
                    (runB i es (stepB P F i e st).2).2)

/-- the transmissions that carry queued packets -/
def carrying (l : List (Pkt × Bool)) : List Pkt := (l.filter (fun x => !x.2)).map (·.1)

theorem observe_cons_ok (o : Pkt) (os : List Pkt) (a b : List Pkt) (h1 : unpack 3 o = .ok a)
    (h2 : observe os = .ok b) : observe (o :: os) = .ok (a ++ b) := by
  unfold observe; rw [h1, h2]

/-- **Histories mixing `next(true)`, `next(false)` and `queue` lose nothing**: for every budget,
every session mode per call (client / server side, channel mode on or off), every `keyNextSync`
outcome per call and every interleaving of calls with `queue` events, starting from any content of
queueable packets: what the peer unpacks from the transmissions that were made with something to
send, followed by what the session still holds at the end, is — keep-alives and tag lists aside —
exactly what it held at the start followed by what was queued since, each once, in order. A call
with nothing to send blocks (state untouched), returns nothing, or sends the idle packet (a bare
keep-alive or the re-key announcement) and never touches a queued packet. -/
theorem mixed_history_lossless (hP : P < Facts.fragMax) (hP2 : 2 ≤ P) (i : Bytes) :
    ∀ (es : List Ev) (st : St), st.last = 0 → (∀ a ∈ content st, QWF a) → (∀ a ∈ queuedOf es, QWF a) →
      ∃ obs, observe (carrying (runB P F i es st).1) = .ok obs ∧
        (keepF (obs ++ content (runB P F i es st).2)).map core
          = (keepF (content st ++ queuedOf es)).map core ∧
        (∀ x ∈ (runB P F i es st).1, x.2 = true → ∃ ks, x.1 = idlePkt i ks) := by
  intro es
  induction es with
  | nil =>
    intro st _ _ _
    exact ⟨[], rfl, by simp [runB, queuedOf], by intro x hx; simp [runB] at hx⟩
  | cons e es ih =>
    intro st hl hq hqe
    cases e with
    | queue p =>
      have hp : QWF p := hqe p (by simp [queuedOf])
      have hc : content { st with q := st.q ++ [p] } = content st ++ [p] := by
        simp [content, List.append_assoc]
      obtain ⟨obs, h1, h2, h3⟩ := ih { st with q := st.q ++ [p] } hl
        (by intro a ha; rw [hc] at ha
            rcases List.mem_append.mp ha with ha | ha
            · exact hq a ha
            · simp at ha; rw [ha]; exact hp)
        (by intro a ha; exact hqe a (by simp [queuedOf, ha]))
      refine ⟨obs, ?_, ?_, ?_⟩
      · simpa [runB, stepB] using h1
      · simp only [runB, stepB, queuedOf]
        rw [h2, hc, List.append_assoc]; rfl
      · intro x hx; exact h3 x (by simpa [runB, stepB] using hx)
    | call md ib ks =>
      have hqe' : ∀ a ∈ queuedOf es, QWF a := by intro a ha; exact hqe a (by simpa [queuedOf] using ha)
      by_cases hc : content st = []
      · -- nothing to send
        have hcases := nextB_empty P F md ib ks st i hc
        have hpn : st.peek = none := by
          cases hp : st.peek with
          | none => rfl
          | some n => simp [content, hp] at hc
        have hqn : st.q = [] := by simpa [content, hpn] using hc
        rcases hcases with h | h | h
        · obtain ⟨obs, h1, h2, h3⟩ := ih st hl hq hqe'
          refine ⟨obs, ?_, ?_, ?_⟩
          · simpa [runB, stepB, h] using h1
          · simpa [runB, stepB, h, queuedOf] using h2
          · intro x hx; exact h3 x (by simpa [runB, stepB, h] using hx)
        · have hc' : content { st with peek := none } = [] := by simp [content, hqn]
          obtain ⟨obs, h1, h2, h3⟩ := ih { st with peek := none } hl
            (by intro a ha; rw [hc'] at ha; cases ha) hqe'
          refine ⟨obs, ?_, ?_, ?_⟩
          · simpa [runB, stepB, h] using h1
          · simp only [runB, stepB, h, queuedOf]
            rw [h2, hc', hc]
          · intro x hx; exact h3 x (by simpa [runB, stepB, h] using hx)
        · have hc' : content ({ q := [], peek := none, last := 0 } : St) = [] := rfl
          obtain ⟨obs, h1, h2, h3⟩ := ih { q := [], peek := none, last := 0 } rfl
            (by intro a ha; rw [hc'] at ha; cases ha) hqe'
          refine ⟨obs, ?_, ?_, ?_⟩
          · simpa [runB, stepB, h, hc, carrying] using h1
          · simp only [runB, stepB, h, queuedOf]
            rw [h2, hc', hc]
          · intro x hx
            simp only [runB, stepB, h, hc, decide_true, Option.toList, List.cons_append, List.nil_append,
              List.mem_cons] at hx
            rcases hx with rfl | hx
            · intro _; exact ⟨ks, rfl⟩
            · exact h3 x hx
      · -- something to send: the model `next`
        have hn := nextB_nonempty P F md ib ks st i hc
        obtain ⟨hnone, hsome⟩ := next_spec P F hP hP2 i st hl hq
        cases ho : (next P F st i).1 with
        | none => exact absurd (hnone ho) hc
        | some o =>
          obtain ⟨obs1, hu, hk, hl', _, hq'⟩ := hsome o ho
          obtain ⟨obs2, h1, h2, h3⟩ := ih (next P F st i).2 hl' hq' hqe'
          have hstep : stepB P F i (.call md ib ks) st = (some (o, false), (next P F st i).2) := by
            simp [stepB, hn, ho, Tx.ofOption, hc]
          refine ⟨obs1 ++ obs2, ?_, ?_, ?_⟩
          · simp only [runB, hstep, Option.toList, List.cons_append, List.nil_append]
            show observe (o :: carrying (runB P F i es (next P F st i).2).1) = _
            exact observe_cons_ok o _ obs1 obs2 hu h1
          · simp only [runB, hstep, queuedOf]
            rw [List.append_assoc, keepF_append, List.map_append, h2, keepF_append, List.map_append,
              ← List.append_assoc, ← List.map_append, ← keepF_append, hk, ← List.map_append, ← keepF_append]
          · intro x hx
            simp only [runB, hstep, Option.toList, List.cons_append, List.nil_append, List.mem_cons] at hx
            rcases hx with rfl | hx
            · intro h; cases h
            · exact h3 x hx

end
end XMT.Batch
