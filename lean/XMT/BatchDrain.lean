import XMT.BatchNext
namespace XMT.Batch
open XMT XMT.Packet XMT.Codec XMT.Flag

section
variable (P F : Nat)

/-- what the loop leaves behind (carry-over and remaining queue) is a sub-multiset of what it was
given, never longer, and strictly shorter when the loop runs at all from an empty batch -/
theorem loop_rest (i : Bytes) :
    ∀ (fuel x s : Nat) (m : Bool) (o : Pkt) (n : Option Pkt) (q : List Pkt), (n = none ∨ q ≠ []) →
      (∀ a ∈ (loop P F i fuel x s m o n q).2.1.toList ++ (loop P F i fuel x s m o n q).2.2,
          a ∈ n.toList ++ q) ∧
      ((loop P F i fuel x s m o n q).2.1.toList ++ (loop P F i fuel x s m o n q).2.2).length
          ≤ (n.toList ++ q).length ∧
      (0 < fuel → x < P → q ≠ [] → s = 0 → Flag.len o.flags = 0 →
        ((loop P F i fuel x s m o n q).2.1.toList ++ (loop P F i fuel x s m o n q).2.2).length
          < (n.toList ++ q).length) := by
  intro fuel
  induction fuel with
  | zero => intro x s m o n q _; simp [loop]
  | succ fuel ih =>
    intro x s m o n q hnq
    unfold loop
    by_cases hcond : x < P ∧ q ≠ []
    · rw [if_pos hcond]
      have hin := takeNext_spec o n q hcond.2 hnq
      generalize takeNext o n q = nq at hin
      obtain ⟨n1, q1⟩ := nq
      simp only at hin ⊢
      have hlen : (n.toList ++ q).length = q1.length + 1 := by rw [hin]; simp
      by_cases hkey : hasFlag n1.flags Facts.flagCrypt = true ∧ Flag.len o.flags > 0
      · rw [if_pos hkey]
        refine ⟨fun a ha => by rw [hin]; simpa using ha, by simp [hlen], fun _ _ _ _ hl0 => ?_⟩
        have := hkey.2; omega
      rw [if_neg hkey]
      by_cases hnop : elide i s m n1 = true
      · rw [if_pos hnop]
        obtain ⟨h1, h2, _⟩ := ih (x + 1) s m o none q1 (Or.inl rfl)
        rw [show (none : Option Pkt).toList = [] from rfl, List.nil_append] at h1 h2
        refine ⟨fun a ha => by rw [hin]; exact List.mem_cons_of_mem _ (h1 a ha), by omega,
          fun _ _ _ _ _ => by omega⟩
      · rw [if_neg hnop]
        by_cases hfit : s > 0 ∧ s + Packet.size n1 > F
        · rw [if_pos hfit]
          refine ⟨fun a ha => by rw [hin]; simpa using ha, by simp [hlen], fun _ _ _ hs _ => by omega⟩
        · rw [if_neg hfit]
          obtain ⟨h1, h2, _⟩ := ih (x + 1) (s + Packet.size n1) (packOne i m o n1).2 (packOne i m o n1).1
            none q1 (Or.inl rfl)
          rw [show (none : Option Pkt).toList = [] from rfl, List.nil_append] at h1 h2
          refine ⟨fun a ha => by rw [hin]; exact List.mem_cons_of_mem _ (h1 a ha), by omega,
            fun _ _ _ _ _ => by omega⟩
    · rw [if_neg hcond]
      refine ⟨fun a ha => ha, Nat.le_refl _, fun _ hx hq _ _ => absurd ⟨hx, hq⟩ hcond⟩

end
end XMT.Batch

namespace XMT.Batch
open XMT XMT.Packet XMT.Codec XMT.Flag

/-- everything a session still has to send: the carried-over packet, then the queue -/
def content (st : St) : List Pkt := st.peek.toList ++ st.q

theorem pick_content (st : St) : (pick st).1.toList ++ (pick st).2 = content st := by
  unfold pick content
  cases hp : st.peek with
  | some n => rfl
  | none =>
    cases hq : st.q with
    | nil => rfl
    | cons h t => rfl

theorem single_rest (i : Bytes) (t : List Nat) (n : Pkt) (q : List Pkt) :
    (single i t n q).2.1 = none ∧ (single i t n q).2.2 = q := by
  unfold single; split <;> exact ⟨rfl, rfl⟩

section
variable (P F : Nat)

theorem nextPacket_rest (hP2 : 2 ≤ P) (i : Bytes) (t : List Nat) (n : Option Pkt) (q : List Pkt)
    (hne : n.toList ++ q ≠ []) :
    (∀ a ∈ (nextPacket P F q n i t).2.1.toList ++ (nextPacket P F q n i t).2.2, a ∈ n.toList ++ q) ∧
    ((nextPacket P F q n i t).2.1.toList ++ (nextPacket P F q n i t).2.2).length
      < (n.toList ++ q).length := by
  unfold nextPacket
  match n, q, hne with
  | none, [], hne => exact absurd rfl hne
  | some n0, [], _ =>
    obtain ⟨h1, h2⟩ := single_rest i t n0 []
    simp only [h1, h2]
    exact ⟨fun a ha => by simp at ha, by simp⟩
  | n, h :: tl, _ =>
    simp only
    rw [if_neg (by omega)]
    obtain ⟨h1, _, h3⟩ := loop_rest P F i (P + 1) 0 0 false (emptyBatch i Facts.flagMulti) n (h :: tl)
      (Or.inr (by simp))
    have hl0 : Flag.len (emptyBatch i Facts.flagMulti).flags = 0 := by
      show Flag.len Facts.flagMulti = 0
      rw [flagsOK.multi]; decide
    exact ⟨h1, h3 (by omega) (by omega) (by simp) rfl hl0⟩

/-- **`Session.next`, one call** (no abandoned group pending): nothing to send only when there is
nothing left; otherwise what the peer unpacks from the transmission followed by what the session
still holds is — keep-alives and tag lists aside — what it held before, it holds strictly less than
before, and what it holds is still made of the queued packets. -/
theorem next_spec (hP : P < Facts.fragMax) (hP2 : 2 ≤ P) (i : Bytes) (st : St) (hlast : st.last = 0)
    (hq : ∀ a ∈ content st, QWF a) :
    ((next P F st i).1 = none → content st = []) ∧
    (∀ o, (next P F st i).1 = some o →
      ∃ obs, unpack 3 o = .ok obs ∧
        (keepF (obs ++ content (next P F st i).2)).map core = (keepF (content st)).map core ∧
        (next P F st i).2.last = 0 ∧ (content (next P F st i).2).length < (content st).length ∧
        (∀ a ∈ content (next P F st i).2, QWF a)) := by
  have hpc := pick_content st
  unfold next
  cases hpk : (pick st).1 with
  | none =>
    rw [hpk] at hpc
    have : (pick st).2 = [] := by
      unfold pick at hpk ⊢
      cases hp : st.peek with
      | some n => rw [hp] at hpk; simp at hpk
      | none =>
        cases hq' : st.q with
        | nil => rfl
        | cons h t => rw [hp, hq'] at hpk; simp at hpk
    rw [this] at hpc
    exact ⟨fun _ => hpc.symm, fun o ho => by simp at ho⟩
  | some n =>
    rw [hpk] at hpc
    simp only [Option.toList] at hpc
    have hn : QWF n := hq n (by rw [← hpc]; exact List.mem_cons_self)
    have hqq : ∀ a ∈ (pick st).2, QWF a := fun a ha => hq a (by rw [← hpc]; exact List.mem_cons_of_mem _ ha)
    simp only
    refine ⟨?_, ?_⟩
    · -- never `none` once something was picked
      unfold nextFrom
      split
      · intro h; simp at h
      · rw [hlast, if_neg (by omega)]
        obtain ⟨o, ho, _⟩ := nextPacket_spec P F hP i n.tags (some n) (pick st).2
          (by intro a ha; rw [show (some n).toList ++ (pick st).2 = n :: (pick st).2 from rfl] at ha
              rcases List.mem_cons.mp ha with rfl | ha
              · exact hn
              · exact hqq a ha) (by simp) []
        intro h
        rw [ho] at h
        simp at h
    · intro o ho
      unfold nextFrom at ho ⊢
      by_cases halone : ((pick st).2 = [] ∨ isRekey n = true) ∧ (verify n i).2 = true
      · -- sent on its own
        rw [if_pos halone] at ho ⊢
        simp only [Option.some.injEq] at ho
        rw [qwf_verify n hn i] at ho
        subst ho
        refine ⟨[n], unpack_plain 2 n hn.plain, ?_, rfl, ?_, ?_⟩
        · show (keepF ([n] ++ (none : Option Pkt).toList ++ (pick st).2)).map core = _
          rw [← hpc]; rfl
        · show ((none : Option Pkt).toList ++ (pick st).2).length < _
          rw [← hpc]; simp
        · intro a ha
          exact hqq a (by simpa [content] using ha)
      · rw [if_neg halone] at ho ⊢
        rw [hlast] at ho ⊢
        rw [if_neg (by omega)] at ho ⊢
        have hall : ∀ a ∈ (some n).toList ++ (pick st).2, QWF a := by
          intro a ha
          rw [show (some n).toList ++ (pick st).2 = n :: (pick st).2 from rfl] at ha
          rcases List.mem_cons.mp ha with rfl | ha
          · exact hn
          · exact hqq a ha
        obtain ⟨o1, ho1, _⟩ := nextPacket_spec P F hP i n.tags (some n) (pick st).2 hall (by simp) []
        rw [ho1] at ho
        simp only [Option.map_some, Option.some.injEq] at ho
        subst ho
        obtain ⟨o2, ho2, obs, hu, hk⟩ := nextPacket_spec P F hP i n.tags (some n) (pick st).2 hall (by simp)
          (mergeTags o1.tags n.tags)
        rw [ho1] at ho2
        have : o2 = o1 := (Option.some.inj ho2).symm
        subst this
        obtain ⟨hr1, hr2⟩ := nextPacket_rest P F hP2 i n.tags (some n) (pick st).2 (by simp)
        refine ⟨obs, hu, ?_, rfl, ?_, ?_⟩
        · show (keepF (obs ++ ((nextPacket P F (pick st).2 (some n) i n.tags).2.1.toList ++
              (nextPacket P F (pick st).2 (some n) i n.tags).2.2))).map core = _
          rw [← List.append_assoc, hk, ← hpc]; rfl
        · show ((nextPacket P F (pick st).2 (some n) i n.tags).2.1.toList ++
              (nextPacket P F (pick st).2 (some n) i n.tags).2.2).length < _
          rw [← hpc]; exact hr2
        · intro a ha
          exact hall a (hr1 a ha)

/-- successive transmissions until there is nothing left to send -/
def drain (i : Bytes) : Nat → St → List Pkt
  | 0, _ => []
  | fuel + 1, st =>
    match (next P F st i).1 with
    | none => []
    | some o => o :: drain i fuel (next P F st i).2

/-- what the peer's handlers observe over a sequence of transmissions -/
def observe : List Pkt → Except PErr (List Pkt)
  | [] => .ok []
  | o :: os =>
    match unpack 3 o with
    | .error e => .error e
    | .ok obs => match observe os with
      | .error e => .error e
      | .ok rest => .ok (obs ++ rest)

/-- **Draining the queue loses, duplicates and reorders nothing**: for every queue content and
every budget, the sequence of packets the peer observes over all successive transmissions until the
queue drains is — keep-alives and tag lists aside — exactly the queued sequence (carried-over packet
first), each once, in order, fields intact. -/
theorem drain_spec (hP : P < Facts.fragMax) (hP2 : 2 ≤ P) (i : Bytes) :
    ∀ (fuel : Nat) (st : St), (content st).length < fuel → st.last = 0 → (∀ a ∈ content st, QWF a) →
      ∃ obs, observe (drain P F i fuel st) = .ok obs ∧
        (keepF obs).map core = (keepF (content st)).map core := by
  intro fuel
  induction fuel with
  | zero => intro st h; omega
  | succ fuel ih =>
    intro st hf hlast hq
    obtain ⟨hnone, hsome⟩ := next_spec P F hP hP2 i st hlast hq
    unfold drain
    cases hn : (next P F st i).1 with
    | none =>
      have := hnone hn
      exact ⟨[], rfl, by rw [this]⟩
    | some o =>
      obtain ⟨obs, hu, hk, hl, hlt, hqq⟩ := hsome o hn
      obtain ⟨obs2, ho2, hk2⟩ := ih (next P F st i).2 (by omega) hl hqq
      refine ⟨obs ++ obs2, by simp only [observe, hu, ho2], ?_⟩
      rw [keepF_append, List.map_append, hk2, ← List.map_append, ← keepF_append, hk]

end
end XMT.Batch
