/-
  XMT.BatchDraw — `Session.next` with the PRNG draws of `verifyPacket` as an input (C03, round s3).

  c2/vars.go verifyPacket:
      if n.Job == 0 && n.Flags&com.FlagProxy == 0 && n.ID > 1 { n.Job = uint16(util.FastRand()) }
      if n.Device.Empty() { n.Device = i; return true }
      return n.Device == i
  The PRNG is an infinite stream of 32-bit words `w : Nat → Nat`; `k` counts the words consumed
  (as C17 / C19 do). `verifyPacket` is called by `Session.next` (only when the queue is empty or the
  packet carries key material: `&&` short-circuits), by the single-packet path of `nextPacket` and by
  the batching loop for every packet it packs (after the Crypt / keep-alive / size tests, so a
  carried-over packet has not been stamped yet). Everything else is XMT/Batch.lean, literally.
-/
import XMT.Batch
namespace XMT.Batch
open XMT XMT.Packet XMT.Codec

/-- `n.Job == 0 && n.Flags&FlagProxy == 0 && n.ID > 1` -/
def needsJob (n : Pkt) : Bool := n.job = 0 && !hasFlag n.flags Facts.flagProxy && decide (n.id.toNat > 1)

/-- the Job assignment of `verifyPacket`: `uint16(util.FastRand())` -/
def stamp (w : Nat → Nat) (k : Nat) (n : Pkt) : Pkt × Nat :=
  if needsJob n then ({ n with job := w k % 2^16 }, k + 1) else (n, k)

/-- `verifyPacket(n, i)` : (the packet afterwards, the result, words consumed so far) -/
def verifyD (w : Nat → Nat) (n : Pkt) (i : Bytes) (k : Nat) : Pkt × Bool × Nat :=
  ((verify (stamp w k n).1 i).1, (verify (stamp w k n).1 i).2, (stamp w k n).2)

section
variable (w : Nat → Nat) (P F : Nat)

/-- the batching loop of `nextPacket` with the draws threaded through -/
def loopD (i : Bytes) : Nat → Nat → Nat → Bool → Pkt → Option Pkt → List Pkt → Nat →
    Pkt × Option Pkt × List Pkt × Nat
  | 0, _, _, _, o, n, q, k => (o, n, q, k)
  | fuel + 1, x, s, m, o, n, q, k =>
    if x < P ∧ q ≠ [] then
      if hasFlag (takeNext o n q).1.flags Facts.flagCrypt ∧ Flag.len o.flags > 0 then
        (o, some (takeNext o n q).1, (takeNext o n q).2, k)
      else if elide i s m (takeNext o n q).1 then
        loopD i fuel (x + 1) s m o none (takeNext o n q).2 k
      else if s > 0 ∧ s + Packet.size (takeNext o n q).1 > F then
        (o, some (takeNext o n q).1, (takeNext o n q).2, k)
      else
        -- `verifyPacket(n, i)` stamps the Job, then the multi-device mark and `writeUnpack`
        loopD i fuel (x + 1) (s + Packet.size (takeNext o n q).1)
          (packOne i m o (stamp w k (takeNext o n q).1).1).2
          (packOne i m o (stamp w k (takeNext o n q).1).1).1 none (takeNext o n q).2
          (stamp w k (takeNext o n q).1).2
    else (o, n, q, k)

/-- the single-packet branch of `nextPacket` -/
def singleD (i : Bytes) (t : List Nat) (n : Pkt) (q : List Pkt) (k : Nat) :
    Option Pkt × Option Pkt × List Pkt × Nat :=
  ((single i t (stamp w k n).1 q).1, (single i t (stamp w k n).1 q).2.1, (single i t (stamp w k n).1 q).2.2,
   (stamp w k n).2)

/-- `nextPacket` with draws -/
def nextPacketD (q : List Pkt) (n : Option Pkt) (i : Bytes) (t : List Nat) (k : Nat) :
    Option Pkt × Option Pkt × List Pkt × Nat :=
  match n, q with
  | none, [] => (none, none, [], k)
  | some n0, [] => singleD w i t n0 [] k
  | n, h :: tl =>
    if P ≤ 1 then
      match n with
      | some n0 => singleD w i t n0 (h :: tl) k
      | none => singleD w i t h tl k
    else
      (some (finishBatch (loopD w P F i (P + 1) 0 0 false (emptyBatch i Facts.flagMulti) n (h :: tl) k).1),
       (loopD w P F i (P + 1) 0 0 false (emptyBatch i Facts.flagMulti) n (h :: tl) k).2.1,
       (loopD w P F i (P + 1) 0 0 false (emptyBatch i Facts.flagMulti) n (h :: tl) k).2.2.1,
       (loopD w P F i (P + 1) 0 0 false (emptyBatch i Facts.flagMulti) n (h :: tl) k).2.2.2)

/-- the rest of `next` after the "sent on its own" test, `n` as that test left it -/
def nextRestD (last : Nat) (i : Bytes) (n : Pkt) (q : List Pkt) (k : Nat) : Option Pkt × St × Nat :=
  if last > 0 then
    if Flag.group (skipGroup last n q).1.flags = last then
      (some { id := 0, job := 0, flags := 0, tags := n.tags, dev := i, payload := [] },
       { q := (skipGroup last n q).2, peek := none, last := 0 }, k)
    else
      ((nextPacketD w P F (skipGroup last n q).2 (some (skipGroup last n q).1) i n.tags k).1.map
          fun o => { o with tags := mergeTags o.tags n.tags },
       { q := (nextPacketD w P F (skipGroup last n q).2 (some (skipGroup last n q).1) i n.tags k).2.2.1,
         peek := (nextPacketD w P F (skipGroup last n q).2 (some (skipGroup last n q).1) i n.tags k).2.1,
         last := 0 },
       (nextPacketD w P F (skipGroup last n q).2 (some (skipGroup last n q).1) i n.tags k).2.2.2)
  else
    ((nextPacketD w P F q (some n) i n.tags k).1.map fun o => { o with tags := mergeTags o.tags n.tags },
     { q := (nextPacketD w P F q (some n) i n.tags k).2.2.1, peek := (nextPacketD w P F q (some n) i n.tags k).2.1,
       last := last },
     (nextPacketD w P F q (some n) i n.tags k).2.2.2)

/-- `next` once a packet has been picked:
`if (len(s.send) == 0 || n.Flags&FlagCrypt != 0) && verifyPacket(n, s.ID) { return n }` — the
verification (and its draw) only happens when the first operand holds; when it then fails (a packet
of another device) the packet goes on with the Job it was given. -/
def nextFromD (last : Nat) (i : Bytes) (n : Pkt) (q : List Pkt) (k : Nat) : Option Pkt × St × Nat :=
  if q = [] ∨ isRekey n then
    if (verifyD w n i k).2.1 then
      (some (verifyD w n i k).1, { q := q, peek := none, last := 0 }, (verifyD w n i k).2.2)
    else nextRestD w P F last i (stamp w k n).1 q (stamp w k n).2
  else nextRestD w P F last i n q k

/-- `(*Session).next(true)` with draws: (transmission, new state, words consumed so far) -/
def nextD (st : St) (i : Bytes) (k : Nat) : Option Pkt × St × Nat :=
  match (pick st).1 with
  | none => (none, { st with peek := none }, k)
  | some n => nextFromD w P F st.last i n (pick st).2 k

end

/-! ### what the draw changes -/

/-- **The drawn Job is what the peer observes; nothing else changes**: `verifyPacket` with word `w k`
gives a packet queued without a Job (ID above 1, no Proxy flag) the Job `w k mod 2^16` and consumes
that one word; any other packet keeps its Job and consumes nothing. ID, flags, tags and payload are
never touched, the device as in `verify`. -/
theorem verifyD_spec (w : Nat → Nat) (n : Pkt) (i : Bytes) (k : Nat) :
    ((verifyD w n i k).1.job = if needsJob n then w k % 2^16 else n.job) ∧
    ((verifyD w n i k).2.2 = if needsJob n then k + 1 else k) ∧
    (verifyD w n i k).1.id = n.id ∧ (verifyD w n i k).1.flags = n.flags ∧
    (verifyD w n i k).1.tags = n.tags ∧ (verifyD w n i k).1.payload = n.payload ∧
    (verifyD w n i k).1.dev = (verify n i).1.dev ∧ (verifyD w n i k).2.1 = (verify n i).2 := by
  unfold verifyD stamp verify
  by_cases h : needsJob n = true
  · simp only [h, if_true]
    by_cases hd : devEmpty n.dev = true <;> simp [hd]
  · simp only [h]
    by_cases hd : devEmpty n.dev = true <;> simp [hd]

theorem stamp_of_not_needs (w : Nat → Nat) (k : Nat) (n : Pkt) (h : needsJob n = false) :
    stamp w k n = (n, k) := by
  unfold stamp; rw [h]; rfl

section
variable (w : Nat → Nat) (P F : Nat)

theorem loopD_no_draw (i : Bytes) :
    ∀ (fuel x s : Nat) (m : Bool) (o : Pkt) (n : Option Pkt) (q : List Pkt) (k : Nat),
      (∀ a ∈ n.toList ++ q, needsJob a = false) →
      loopD w P F i fuel x s m o n q k =
        ((loop P F i fuel x s m o n q).1, (loop P F i fuel x s m o n q).2.1,
         (loop P F i fuel x s m o n q).2.2, k) := by
  intro fuel
  induction fuel with
  | zero => intro x s m o n q k _; rfl
  | succ fuel ih =>
    intro x s m o n q k hq
    unfold loopD loop
    by_cases hcond : x < P ∧ q ≠ []
    · rw [if_pos hcond, if_pos hcond]
      have hnq : n.toList ++ q = (takeNext o n q).1 :: (takeNext o n q).2 := by
        cases n with
        | some n0 => rfl
        | none =>
          cases q with
          | nil => exact absurd rfl hcond.2
          | cons a t => rfl
      have h1 : needsJob (takeNext o n q).1 = false := hq _ (by rw [hnq]; exact List.mem_cons_self)
      have h2 : ∀ a ∈ (none : Option Pkt).toList ++ (takeNext o n q).2, needsJob a = false :=
        fun a ha => hq a (by rw [hnq]; exact List.mem_cons_of_mem _ (by simpa using ha))
      split
      · rfl
      · split
        · exact ih _ _ _ _ _ _ _ h2
        · split
          · rfl
          · rw [stamp_of_not_needs w k _ h1]
            exact ih _ _ _ _ _ _ _ h2
    · rw [if_neg hcond, if_neg hcond]

theorem nextPacketD_no_draw (i : Bytes) (t : List Nat) (n : Option Pkt) (q : List Pkt) (k : Nat)
    (hq : ∀ a ∈ n.toList ++ q, needsJob a = false) :
    nextPacketD w P F q n i t k =
      ((nextPacket P F q n i t).1, (nextPacket P F q n i t).2.1, (nextPacket P F q n i t).2.2, k) := by
  unfold nextPacketD nextPacket
  match n, q, hq with
  | none, [], _ => rfl
  | some n0, [], hq =>
    simp only [singleD]
    rw [stamp_of_not_needs w k n0 (hq n0 (by simp))]
  | n, h :: tl, hq =>
    simp only
    by_cases hP1 : P ≤ 1
    · rw [if_pos hP1, if_pos hP1]
      cases n with
      | some n0 =>
        simp only [singleD]
        rw [stamp_of_not_needs w k n0 (hq n0 (by simp))]
      | none =>
        simp only [singleD]
        rw [stamp_of_not_needs w k h (hq h (by simp))]
    · rw [if_neg hP1, if_neg hP1]
      rw [loopD_no_draw w P F i _ _ _ _ _ _ _ _ hq]

end

end XMT.Batch
