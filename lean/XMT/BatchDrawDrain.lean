/-
  XMT.BatchDrawDrain — successive transmissions with Job draws until the queue drains lose nothing:
  `drainD_spec` (from `nextD_sim`, the draw-free `next_spec`, and the fact that `next` consumes a
  prefix of what the session holds).
-/
import XMT.BatchDrawSim
namespace XMT.Batch
open XMT XMT.Packet XMT.Codec XMT.Flag

theorem LR.length {w : Nat → Nat} {a b : List Pkt} (h : LR w a b) : a.length = b.length := by
  induction h with
  | nil => rfl
  | cons _ _ ih => simp [ih]

theorem LR.trans {w : Nat → Nat} {a b c : List Pkt} (h1 : LR w a b) (h2 : LR w b c) : LR w a c := by
  induction h1 generalizing c with
  | nil => cases h2; exact .nil
  | cons hj _ ih => cases h2 with | cons hj2 h2 => exact .cons (hj.trans hj2) (ih h2)

theorem LR.replace_suffix {w : Nat → Nat} : ∀ (pre : List Pkt) {x y z : List Pkt},
    LR w x (pre ++ y) → LR w y z → LR w x (pre ++ z)
  | [], _, _, _, h1, h2 => h1.trans h2
  | _ :: ps, _, _, _, h1, h2 => by
    cases h1 with
    | cons hj h1 => exact .cons hj (LR.replace_suffix ps h1 h2)

theorem observe_cons_ok' (o : Pkt) (os : List Pkt) (a b : List Pkt) (h1 : unpack 3 o = .ok a)
    (h2 : observe os = .ok b) : observe (o :: os) = .ok (a ++ b) := by
  unfold observe; rw [h1, h2]

section
variable (P F : Nat)

/-- the loop leaves a suffix of what it was given -/
theorem loop_suffix (i : Bytes) :
    ∀ (fuel x s : Nat) (m : Bool) (o : Pkt) (n : Option Pkt) (q : List Pkt), (n = none ∨ q ≠ []) →
      ((loop P F i fuel x s m o n q).2.1.toList ++ (loop P F i fuel x s m o n q).2.2) <:+ (n.toList ++ q) := by
  intro fuel
  induction fuel with
  | zero => intro x s m o n q _; simp [loop]
  | succ fuel ih =>
    intro x s m o n q hnq
    unfold loop
    by_cases hcond : x < P ∧ q ≠ []
    · rw [if_pos hcond]
      have hin := takeNext_spec o n q hcond.2 hnq
      generalize takeNext o n q = nq at hin
      obtain ⟨n1, q1⟩ := nq
      simp only at hin ⊢
      by_cases hkey : hasFlag n1.flags Facts.flagCrypt = true ∧ Flag.len o.flags > 0
      · rw [if_pos hkey, hin]; exact List.suffix_refl _
      rw [if_neg hkey]
      by_cases hnop : elide i s m n1 = true
      · rw [if_pos hnop, hin]
        exact (ih (x + 1) s m o none q1 (Or.inl rfl)).trans (List.suffix_cons _ _)
      · rw [if_neg hnop]
        by_cases hfit : s > 0 ∧ s + Packet.size n1 > F
        · rw [if_pos hfit, hin]; exact List.suffix_refl _
        · rw [if_neg hfit, hin]
          exact (ih (x + 1) (s + Packet.size n1) (packOne i m o n1).2 (packOne i m o n1).1 none q1
            (Or.inl rfl)).trans (List.suffix_cons _ _)
    · rw [if_neg hcond]; exact List.suffix_refl _

theorem nextPacket_suffix (hP2 : 2 ≤ P) (i : Bytes) (t : List Nat) (n : Option Pkt) (q : List Pkt) :
    ((nextPacket P F q n i t).2.1.toList ++ (nextPacket P F q n i t).2.2) <:+ (n.toList ++ q) := by
  unfold nextPacket
  match n, q with
  | none, [] => exact List.suffix_refl _
  | some n0, [] =>
    obtain ⟨h1, h2⟩ := single_rest i t n0 []
    simp only [h1, h2]
    exact List.nil_suffix
  | n, h :: tl =>
    simp only
    rw [if_neg (by omega)]
    exact loop_suffix P F i (P + 1) 0 0 false (emptyBatch i Facts.flagMulti) n (h :: tl) (Or.inr (by simp))

/-- `Session.next` consumes a prefix of what the session holds -/
theorem next_suffix (hP2 : 2 ≤ P) (i : Bytes) (st : St) (hl : st.last = 0) :
    content (next P F st i).2 <:+ content st := by
  have hpc := pick_content st
  unfold next
  cases hpk : (pick st).1 with
  | none =>
    simp only
    show (none : Option Pkt).toList ++ st.q <:+ st.peek.toList ++ st.q
    exact List.suffix_append _ _
  | some n =>
    rw [hpk] at hpc
    simp only [Option.toList] at hpc
    simp only
    rw [← hpc, hl]
    unfold nextFrom
    split
    · show (none : Option Pkt).toList ++ (pick st).2 <:+ _
      exact List.suffix_cons _ _
    · rw [if_neg (by omega)]
      exact nextPacket_suffix P F hP2 i n.tags (some n) (pick st).2

variable (w : Nat → Nat)

/-- successive transmissions with Job draws -/
def drainD (i : Bytes) : Nat → St → Nat → List Pkt
  | 0, _, _ => []
  | fuel + 1, st, k =>
    match (nextD w P F st i k).1 with
    | none => []
    | some o => o :: drainD i fuel (nextD w P F st i k).2.1 (nextD w P F st i k).2.2

/-- **Draining with Job draws loses nothing**: for every word stream, what the peer observes over
the successive transmissions is — keep-alives and tag lists aside — a list `L` that is the queued
sequence, packet for packet, in which only packets that needed a Job may differ, and only in that
their Job is the low 16 bits of a drawn word. -/
theorem drainD_spec (hP : P < Facts.fragMax) (hP2 : 2 ≤ P) (i : Bytes) :
    ∀ (fuel : Nat) (st : St) (k : Nat), (content st).length < fuel → st.last = 0 →
      (∀ a ∈ content st, QWF a) →
      ∃ obs L, observe (drainD P F w i fuel st k) = .ok obs ∧ LR w (content st) L ∧
        (keepF obs).map core = (keepF L).map core := by
  intro fuel
  induction fuel with
  | zero => intro st k h; omega
  | succ fuel ih =>
    intro st k hlen hl hq
    obtain ⟨st₁, hLR, hl₁, hs1, hs2⟩ := nextD_sim w P F st i k hl
    have hq₁ : ∀ a ∈ content st₁, QWF a := hLR.qwf hq
    obtain ⟨hnone, hsome⟩ := next_spec P F hP hP2 i st₁ hl₁ hq₁
    unfold drainD
    cases ho : (next P F st₁ i).1 with
    | none =>
      have hc1 : content st₁ = [] := hnone ho
      rw [hs1, ho]
      refine ⟨[], [], rfl, ?_, rfl⟩
      rw [hc1] at hLR; exact hLR
    | some o =>
      rw [hs1, ho]
      simp only
      obtain ⟨obs1, hu, hk, hl', hlt, hq'⟩ := hsome o ho
      rw [hs2]
      obtain ⟨obs2, L', h1, hLR', h2⟩ := ih (next P F st₁ i).2 (nextD w P F st i k).2.2
        (by have := hLR.length; omega) hl' hq'
      obtain ⟨pre, hpre⟩ := next_suffix P F hP2 i st₁ hl₁
      refine ⟨obs1 ++ obs2, pre ++ L', observe_cons_ok' o _ obs1 obs2 hu h1, ?_, ?_⟩
      · rw [← hpre] at hLR
        exact LR.replace_suffix pre hLR hLR'
      · rw [← hpre, keepF_append, keepF_append, List.map_append, List.map_append] at hk
        have hpre1 : (keepF obs1).map core = (keepF pre).map core := List.append_cancel_right hk
        rw [keepF_append, keepF_append, List.map_append, List.map_append, hpre1, h2]

end
end XMT.Batch
