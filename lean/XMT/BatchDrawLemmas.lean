/-
  XMT.BatchDrawLemmas — `nextD` (Session.next with the draws of verifyPacket as input) against the
  draw-free model `next`: on queues where no packet needs a Job the two agree and no word is consumed.
-/
import XMT.BatchDraw
import XMT.BatchTags
namespace XMT.Batch
open XMT XMT.Packet XMT.Codec

section
variable (w : Nat → Nat) (P F : Nat)

theorem verifyD_no_draw (n : Pkt) (i : Bytes) (k : Nat) (h : needsJob n = false) :
    verifyD w n i k = ((verify n i).1, (verify n i).2, k) := by
  unfold verifyD; rw [stamp_of_not_needs w k n h]

theorem nextRestD_no_draw (last : Nat) (i : Bytes) (n : Pkt) (q : List Pkt) (k : Nat)
    (hq : ∀ a ∈ n :: q, needsJob a = false) :
    nextRestD w P F last i n q k =
      (if last > 0 then
        if Flag.group (skipGroup last n q).1.flags = last then
          (some { id := 0, job := 0, flags := 0, tags := n.tags, dev := i, payload := [] },
           { q := (skipGroup last n q).2, peek := none, last := 0 }, k)
        else
          ((nextPacket P F (skipGroup last n q).2 (some (skipGroup last n q).1) i n.tags).1.map
              fun o => { o with tags := mergeTags o.tags n.tags },
           { q := (nextPacket P F (skipGroup last n q).2 (some (skipGroup last n q).1) i n.tags).2.2,
             peek := (nextPacket P F (skipGroup last n q).2 (some (skipGroup last n q).1) i n.tags).2.1,
             last := 0 }, k)
      else
        ((nextPacket P F q (some n) i n.tags).1.map fun o => { o with tags := mergeTags o.tags n.tags },
         { q := (nextPacket P F q (some n) i n.tags).2.2, peek := (nextPacket P F q (some n) i n.tags).2.1,
           last := last }, k)) := by
  unfold nextRestD
  have hsk : ∀ a ∈ (some (skipGroup last n q).1).toList ++ (skipGroup last n q).2, needsJob a = false :=
    fun a ha => hq a ((skipGroup_sublist last q n).subset (by simpa using ha))
  rw [nextPacketD_no_draw w P F i n.tags _ _ k hsk,
      nextPacketD_no_draw w P F i n.tags (some n) q k (by simpa using hq)]

/-- **On the draw-free domain the two models agree**: when no packet held by the session needs a Job
(`Job ≠ 0`, or `ID ≤ 1`, or the Proxy flag) `nextD` hands out what `next` hands out, leaves the same
state, and consumes no PRNG word — so every C03 theorem about `next` is a theorem about `nextD`
there, for every word stream. -/
theorem nextD_no_draw (st : St) (i : Bytes) (k : Nat) (hq : ∀ a ∈ content st, needsJob a = false) :
    nextD w P F st i k = ((next P F st i).1, (next P F st i).2, k) := by
  have hpc := pick_content st
  unfold nextD next
  cases hpk : (pick st).1 with
  | none => rfl
  | some n =>
    rw [hpk] at hpc
    simp only [Option.toList] at hpc
    have hall : ∀ a ∈ n :: (pick st).2, needsJob a = false := by
      intro a ha; exact hq a (by rw [← hpc]; simpa using ha)
    simp only
    unfold nextFromD nextFrom
    rw [verifyD_no_draw w n i k (hall n List.mem_cons_self),
        stamp_of_not_needs w k n (hall n List.mem_cons_self),
        nextRestD_no_draw w P F st.last i n (pick st).2 k hall]
    by_cases h1 : (pick st).2 = [] ∨ isRekey n = true <;>
    by_cases h2 : (verify n i).2 = true <;>
    by_cases hl : st.last > 0 <;>
    by_cases hg : Flag.group (skipGroup st.last n (pick st).2).1.flags = st.last <;>
    simp only [h1, h2, hl, hg, if_true, if_false, and_self, and_true, and_false, Bool.false_eq_true]

end
end XMT.Batch
