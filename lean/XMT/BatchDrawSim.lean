/-
  XMT.BatchDrawSim — `Session.next` with Job draws (`nextD`, XMT/BatchDraw.lean) IS the draw-free
  `next` on the same session in which the packets that are stamped by this call already carry the
  drawn Job: the batching code never looks at the Job field.  `JR a b`: `b` is `a`, or `a` needed a
  Job and `b` is `a` with a drawn word's low 16 bits as Job.
-/
import XMT.BatchDrawLemmas
namespace XMT.Batch
open XMT XMT.Packet XMT.Codec

/-- `b` is what `a` may look like after `verifyPacket` ran on it (any number of times) -/
def JR (w : Nat → Nat) (a b : Pkt) : Prop :=
  b = a ∨ (needsJob a = true ∧ ∃ j, b = { a with job := w j % 2^16 })

inductive LR (w : Nat → Nat) : List Pkt → List Pkt → Prop
  | nil : LR w [] []
  | cons {a b : Pkt} {as bs : List Pkt} : JR w a b → LR w as bs → LR w (a :: as) (b :: bs)

def OR (w : Nat → Nat) : Option Pkt → Option Pkt → Prop
  | none, none => True
  | some a, some b => JR w a b
  | _, _ => False

theorem JR.refl (w : Nat → Nat) (a : Pkt) : JR w a a := Or.inl rfl

theorem LR.refl (w : Nat → Nat) : ∀ l : List Pkt, LR w l l
  | [] => .nil
  | a :: l => .cons (JR.refl w a) (LR.refl w l)

theorem OR.refl (w : Nat → Nat) : ∀ n : Option Pkt, OR w n n
  | none => trivial
  | some a => JR.refl w a

theorem LR.ne_nil {w : Nat → Nat} {a b : List Pkt} (h : LR w a b) : a ≠ [] → b ≠ [] := by
  cases h with
  | nil => intro h; exact absurd rfl h
  | cons _ _ => intro _ h; cases h

theorem stamp_JR (w : Nat → Nat) (k : Nat) (n : Pkt) : JR w n (stamp w k n).1 := by
  unfold stamp
  by_cases h : needsJob n = true
  · rw [if_pos h]; exact Or.inr ⟨h, k, rfl⟩
  · rw [if_neg h]; exact Or.inl rfl

theorem JR.trans {w : Nat → Nat} {a b c : Pkt} (h1 : JR w a b) (h2 : JR w b c) : JR w a c := by
  rcases h1 with rfl | ⟨hn, j, rfl⟩
  · exact h2
  · rcases h2 with rfl | ⟨_, j', rfl⟩
    · exact Or.inr ⟨hn, j, rfl⟩
    · exact Or.inr ⟨hn, j', rfl⟩

/-- the fields the batching code looks at -/
theorem JR.fields {w : Nat → Nat} {a b : Pkt} (h : JR w a b) :
    b.id = a.id ∧ b.flags = a.flags ∧ b.tags = a.tags ∧ b.dev = a.dev ∧ b.payload = a.payload := by
  rcases h with rfl | ⟨_, j, rfl⟩ <;> exact ⟨rfl, rfl, rfl, rfl, rfl⟩

theorem JR.isNoP_eq {w : Nat → Nat} {a b : Pkt} (h : JR w a b) : isNoP b = isNoP a := by
  obtain ⟨h1, h2, _, _, h5⟩ := h.fields; unfold isNoP; rw [h1, h2, h5]
theorem JR.size_eq {w : Nat → Nat} {a b : Pkt} (h : JR w a b) : Packet.size b = Packet.size a := by
  obtain ⟨_, _, h3, _, h5⟩ := h.fields; unfold Packet.size; rw [h3, h5]
theorem JR.elide_eq {w : Nat → Nat} {a b : Pkt} (h : JR w a b) (i : Bytes) (s : Nat) (m : Bool) :
    elide i s m b = elide i s m a := by
  unfold Batch.elide; rw [h.isNoP_eq, h.fields.2.2.2.1]
theorem JR.verify2 {w : Nat → Nat} {a b : Pkt} (h : JR w a b) (i : Bytes) :
    (verify b i).2 = (verify a i).2 := by
  unfold verify; rw [h.fields.2.2.2.1]; split <;> rfl
theorem JR.isRekey_eq {w : Nat → Nat} {a b : Pkt} (h : JR w a b) : isRekey b = isRekey a := by
  unfold Batch.isRekey; rw [h.fields.2.1]

theorem JR.qwf {w : Nat → Nat} {a b : Pkt} (h : JR w a b) (ha : QWF a) : QWF b := by
  rcases h with rfl | ⟨_, j, rfl⟩
  · exact ha
  · exact ⟨⟨Nat.mod_lt _ (by decide), ha.wf.flags, ha.wf.ntags, ha.wf.tags, ha.wf.devLen, ha.wf.devNZ,
      ha.wf.pay⟩, ha.plain⟩

theorem LR.qwf {w : Nat → Nat} {a b : List Pkt} (h : LR w a b) (ha : ∀ x ∈ a, QWF x) : ∀ x ∈ b, QWF x := by
  induction h with
  | nil => intro x hx; cases hx
  | cons hj _ ih =>
    intro x hx
    rcases List.mem_cons.mp hx with rfl | hx
    · exact hj.qwf (ha _ List.mem_cons_self)
    · exact ih (fun y hy => ha y (List.mem_cons_of_mem _ hy)) x hx

theorem LR.append {w : Nat → Nat} {a b c d : List Pkt} (h1 : LR w a b) (h2 : LR w c d) :
    LR w (a ++ c) (b ++ d) := by
  induction h1 with
  | nil => exact h2
  | cons hj _ ih => exact .cons hj ih

section
variable (w : Nat → Nat) (P F : Nat)

/-- the batching loop with draws is the draw-free loop on the pre-stamped packets -/
theorem loopD_sim (i : Bytes) :
    ∀ (fuel x s : Nat) (m : Bool) (o : Pkt) (n : Option Pkt) (q : List Pkt) (k : Nat),
      ∃ n' q', OR w n n' ∧ LR w q q' ∧
        (loopD w P F i fuel x s m o n q k).1 = (loop P F i fuel x s m o n' q').1 ∧
        (loopD w P F i fuel x s m o n q k).2.1 = (loop P F i fuel x s m o n' q').2.1 ∧
        (loopD w P F i fuel x s m o n q k).2.2.1 = (loop P F i fuel x s m o n' q').2.2 := by
  intro fuel
  induction fuel with
  | zero => intro x s m o n q k; exact ⟨n, q, OR.refl w n, LR.refl w q, rfl, rfl, rfl⟩
  | succ fuel ih =>
    intro x s m o n q k
    by_cases hcond : x < P ∧ q ≠ []
    · -- the packet looked at and what is behind it
      cases n with
      | some n0 =>
        -- takeNext = (n0, q)
        by_cases hkey : hasFlag n0.flags Facts.flagCrypt = true ∧ Flag.len o.flags > 0
        · refine ⟨some n0, q, JR.refl w n0, LR.refl w q, ?_, ?_, ?_⟩ <;>
            simp [loopD, loop, hcond, takeNext, hkey]
        · by_cases hnop : elide i s m n0 = true
          · obtain ⟨n', q', hn, hq, h1, h2, h3⟩ := ih (x + 1) s m o none q k
            cases n' with
            | some _ => exact absurd hn (by simp [OR])
            | none =>
              have hne : q' ≠ [] := hq.ne_nil hcond.2
              refine ⟨some n0, q', JR.refl w n0, hq, ?_, ?_, ?_⟩ <;>
                simp [loopD, loop, hcond, hne, takeNext, hkey, hnop, h1, h2, h3]
          · by_cases hfit : s > 0 ∧ s + Packet.size n0 > F
            · refine ⟨some n0, q, JR.refl w n0, LR.refl w q, ?_, ?_, ?_⟩ <;>
                simp [loopD, loop, hcond, takeNext, hkey, hnop, hfit]
            · have hj := stamp_JR w k n0
              obtain ⟨n', q', hn, hq, h1, h2, h3⟩ := ih (x + 1) (s + Packet.size n0)
                (packOne i m o (stamp w k n0).1).2 (packOne i m o (stamp w k n0).1).1 none q (stamp w k n0).2
              cases n' with
              | some _ => exact absurd hn (by simp [OR])
              | none =>
                have hne : q' ≠ [] := hq.ne_nil hcond.2
                have hkey' : ¬ (hasFlag (stamp w k n0).1.flags Facts.flagCrypt = true ∧ Flag.len o.flags > 0) := by
                  rw [hj.fields.2.1]; exact hkey
                have hnop' : ¬ elide i s m (stamp w k n0).1 = true := by rw [hj.elide_eq]; exact hnop
                have hfit' : ¬ (s > 0 ∧ s + Packet.size (stamp w k n0).1 > F) := by rw [hj.size_eq]; exact hfit
                refine ⟨some (stamp w k n0).1, q', hj, hq, ?_, ?_, ?_⟩
                · simp [loopD, loop, hcond, hne, takeNext, hkey, hkey', hnop, hnop', hfit, hj.size_eq, h1]
                · simp [loopD, loop, hcond, hne, takeNext, hkey, hkey', hnop, hnop', hfit, hj.size_eq, h2]
                · simp [loopD, loop, hcond, hne, takeNext, hkey, hkey', hnop, hnop', hfit, hj.size_eq, h3]
      | none =>
        cases q with
        | nil => exact absurd rfl hcond.2
        | cons n0 q1 =>
          by_cases hkey : hasFlag n0.flags Facts.flagCrypt = true ∧ Flag.len o.flags > 0
          · refine ⟨none, n0 :: q1, trivial, LR.refl w _, ?_, ?_, ?_⟩ <;>
              simp [loopD, loop, hcond, takeNext, hkey]
          · by_cases hnop : elide i s m n0 = true
            · obtain ⟨n', q', hn, hq, h1, h2, h3⟩ := ih (x + 1) s m o none q1 k
              cases n' with
              | some _ => exact absurd hn (by simp [OR])
              | none =>
                refine ⟨none, n0 :: q', trivial, .cons (JR.refl w n0) hq, ?_, ?_, ?_⟩ <;>
                  simp [loopD, loop, hcond, takeNext, hkey, hnop, h1, h2, h3]
            · by_cases hfit : s > 0 ∧ s + Packet.size n0 > F
              · refine ⟨none, n0 :: q1, trivial, LR.refl w _, ?_, ?_, ?_⟩ <;>
                  simp [loopD, loop, hcond, takeNext, hkey, hnop, hfit]
              · have hj := stamp_JR w k n0
                obtain ⟨n', q', hn, hq, h1, h2, h3⟩ := ih (x + 1) (s + Packet.size n0)
                  (packOne i m o (stamp w k n0).1).2 (packOne i m o (stamp w k n0).1).1 none q1 (stamp w k n0).2
                cases n' with
                | some _ => exact absurd hn (by simp [OR])
                | none =>
                  have hkey' : ¬ (hasFlag (stamp w k n0).1.flags Facts.flagCrypt = true ∧ Flag.len o.flags > 0) := by
                    rw [hj.fields.2.1]; exact hkey
                  have hnop' : ¬ elide i s m (stamp w k n0).1 = true := by rw [hj.elide_eq]; exact hnop
                  have hfit' : ¬ (s > 0 ∧ s + Packet.size (stamp w k n0).1 > F) := by rw [hj.size_eq]; exact hfit
                  have hc' : x < P ∧ (stamp w k n0).1 :: q' ≠ [] := ⟨hcond.1, by simp⟩
                  refine ⟨none, (stamp w k n0).1 :: q', trivial, .cons hj hq, ?_, ?_, ?_⟩
                  · simp [loopD, loop, hcond, takeNext, hkey, hkey', hnop, hnop', hfit, hj.size_eq, h1]
                  · simp [loopD, loop, hcond, takeNext, hkey, hkey', hnop, hnop', hfit, hj.size_eq, h2]
                  · simp [loopD, loop, hcond, takeNext, hkey, hkey', hnop, hnop', hfit, hj.size_eq, h3]
    · refine ⟨n, q, OR.refl w n, LR.refl w q, ?_, ?_, ?_⟩ <;> simp [loopD, loop, hcond]

/-- `nextPacket` with draws is the draw-free `nextPacket` on the pre-stamped packets -/
theorem nextPacketD_sim (i : Bytes) (t : List Nat) (n : Option Pkt) (q : List Pkt) (k : Nat) :
    ∃ n' q', OR w n n' ∧ LR w q q' ∧
      (nextPacketD w P F q n i t k).1 = (nextPacket P F q' n' i t).1 ∧
      (nextPacketD w P F q n i t k).2.1 = (nextPacket P F q' n' i t).2.1 ∧
      (nextPacketD w P F q n i t k).2.2.1 = (nextPacket P F q' n' i t).2.2 := by
  match n, q with
  | none, [] => exact ⟨none, [], trivial, .nil, rfl, rfl, rfl⟩
  | some n0, [] =>
    exact ⟨some (stamp w k n0).1, [], stamp_JR w k n0, .nil, rfl, rfl, rfl⟩
  | n, h :: tl =>
    by_cases hP1 : P ≤ 1
    · cases n with
      | some n0 =>
        refine ⟨some (stamp w k n0).1, h :: tl, stamp_JR w k n0, LR.refl w _, ?_, ?_, ?_⟩ <;>
          simp [nextPacketD, nextPacket, hP1, singleD]
      | none =>
        refine ⟨none, (stamp w k h).1 :: tl, trivial, .cons (stamp_JR w k h) (LR.refl w _), ?_, ?_, ?_⟩ <;>
          simp [nextPacketD, nextPacket, hP1, singleD]
    · obtain ⟨n', q', hn, hq, h1, h2, h3⟩ := loopD_sim w P F i (P + 1) 0 0 false (emptyBatch i Facts.flagMulti) n (h :: tl) k
      cases hq with
      | cons hj hq1 =>
        refine ⟨n', _, hn, .cons hj hq1, ?_, ?_, ?_⟩ <;>
          simp [nextPacketD, nextPacket, hP1, h1, h2, h3]

/-- `next` after a packet was picked, no abandoned group pending -/
theorem nextFromD_sim (i : Bytes) (n : Pkt) (q : List Pkt) (k : Nat) :
    ∃ n' q', JR w n n' ∧ LR w q q' ∧
      (nextFromD w P F 0 i n q k).1 = (nextFrom P F 0 i n' q').1 ∧
      (nextFromD w P F 0 i n q k).2.1 = (nextFrom P F 0 i n' q').2 := by
  have rest : ∀ (a : Pkt) (ka : Nat), JR w n a → ¬ ((q = [] ∨ isRekey a = true) ∧ (verify a i).2 = true) →
      ∃ n' q', JR w n n' ∧ LR w q q' ∧
        (nextRestD w P F 0 i a q ka).1 = (nextFrom P F 0 i n' q').1 ∧
        (nextRestD w P F 0 i a q ka).2.1 = (nextFrom P F 0 i n' q').2 := by
    intro a ka hja hna
    obtain ⟨n2, q2, hn2, hq2, h1, h2, h3⟩ := nextPacketD_sim w P F i a.tags (some a) q ka
    cases n2 with
    | none => exact absurd hn2 (by simp [OR])
    | some n2 =>
      have hj2 : JR w a n2 := hn2
      have hqe : (q2 = []) ↔ (q = []) := by
        cases hq2 with
        | nil => simp
        | cons _ _ => simp
      have hna2 : ¬ ((q2 = [] ∨ isRekey n2 = true) ∧ (verify n2 i).2 = true) := by
        rw [hqe, hj2.isRekey_eq, hj2.verify2]; exact hna
      refine ⟨n2, q2, hja.trans hj2, hq2, ?_, ?_⟩
      · simp only [nextRestD, nextFrom, if_neg hna2, Nat.lt_irrefl, if_false, gt_iff_lt, h1, hj2.fields.2.2.1]
      · simp only [nextRestD, nextFrom, if_neg hna2, Nat.lt_irrefl, if_false, gt_iff_lt, h2, h3, hj2.fields.2.2.1]
  unfold nextFromD
  by_cases hc : q = [] ∨ isRekey n = true
  · rw [if_pos hc]
    have hj := stamp_JR w k n
    by_cases hv : (verifyD w n i k).2.1 = true
    · rw [if_pos hv]
      have hv' : (verify (stamp w k n).1 i).2 = true := hv
      have hc' : (q = [] ∨ isRekey (stamp w k n).1 = true) := by rw [hj.isRekey_eq]; exact hc
      refine ⟨(stamp w k n).1, q, hj, LR.refl w q, ?_, ?_⟩ <;>
        simp only [nextFrom, if_pos (And.intro hc' hv'), verifyD]
    · rw [if_neg hv]
      have hv' : ¬ (verify (stamp w k n).1 i).2 = true := hv
      exact rest (stamp w k n).1 (stamp w k n).2 hj (fun h => hv' h.2)
  · rw [if_neg hc]
    exact rest n k (JR.refl w n) (fun h => hc h.1)

/-- **`Session.next` with Job draws is `Session.next` on the pre-stamped session**: for every word
stream there is a session `st₁` that differs from `st` only in that packets which needed a Job
carry a drawn word's low 16 bits, such that `nextD` hands out exactly what the draw-free `next`
hands out on `st₁` and leaves exactly the same state. -/
theorem nextD_sim (st : St) (i : Bytes) (k : Nat) (hl : st.last = 0) :
    ∃ st₁ : St, LR w (content st) (content st₁) ∧ st₁.last = 0 ∧
      (nextD w P F st i k).1 = (next P F st₁ i).1 ∧ (nextD w P F st i k).2.1 = (next P F st₁ i).2 := by
  obtain ⟨q, pk, last⟩ := st
  simp only at hl
  subst hl
  cases pk with
  | some n =>
    obtain ⟨n', q', hn, hq, h1, h2⟩ := nextFromD_sim w P F i n q k
    refine ⟨{ q := q', peek := some n', last := 0 }, .cons hn hq, rfl, ?_, ?_⟩ <;>
      simp [nextD, next, pick, h1, h2]
  | none =>
    cases q with
    | nil => exact ⟨{ q := [], peek := none, last := 0 }, .nil, rfl, rfl, rfl⟩
    | cons h t =>
      obtain ⟨n', q', hn, hq, h1, h2⟩ := nextFromD_sim w P F i h t k
      refine ⟨{ q := n' :: q', peek := none, last := 0 }, .cons hn hq, rfl, ?_, ?_⟩ <;>
        simp [nextD, next, pick, h1, h2]

end
end XMT.Batch
