import XMT.BatchDrain
namespace XMT.Batch
open XMT XMT.Packet XMT.Codec XMT.Flag

/-- the skip loop drops a prefix of packets that all belong to the abandoned group -/
theorem skipGroup_spec (last : Nat) : ∀ (q : List Pkt) (n : Pkt),
    ∃ dropped, n :: q = dropped ++ (skipGroup last n q).1 :: (skipGroup last n q).2 ∧
      (∀ d ∈ dropped, Flag.group d.flags = last) ∧
      (Flag.group (skipGroup last n q).1.flags = last → (skipGroup last n q).2 = []) := by
  intro q
  induction q with
  | nil => intro n; exact ⟨[], rfl, by simp, fun _ => rfl⟩
  | cons h tl ih =>
    intro n
    unfold skipGroup
    split
    · rename_i hg
      obtain ⟨dr, h1, h2, h3⟩ := ih h
      refine ⟨n :: dr, by rw [List.cons_append, ← h1], ?_, h3⟩
      intro d hd
      rcases List.mem_cons.mp hd with rfl | hd
      · exact hg
      · exact h2 d hd
    · rename_i hg
      exact ⟨[], rfl, by simp, fun h => absurd h hg⟩

section
variable (P F : Nat)

/-- **`Session.next` with an abandoned fragment group pending** (`Last = l > 0`): the packets
skipped are a prefix of what the session held, all of the abandoned group; for the rest the
statement of `next_spec` holds, and afterwards no group is pending any more. -/
theorem next_spec_last (hP : P < Facts.fragMax) (hP2 : 2 ≤ P) (i : Bytes) (st : St)
    (hq : ∀ a ∈ content st, QWF a) (o : Pkt) (ho : (next P F st i).1 = some o) :
    ∃ dropped rest, content st = dropped ++ rest ∧
      (∀ d ∈ dropped, 0 < st.last ∧ Flag.group d.flags = st.last) ∧
      ∃ obs, unpack 3 o = .ok obs ∧
        (keepF (obs ++ content (next P F st i).2)).map core = (keepF rest).map core ∧
        (st.last > 0 → (next P F st i).2.last = 0) ∧ (next P F st i).2.last ≤ st.last ∧
        (content (next P F st i).2).length < (content st).length ∧
        (∀ a ∈ content (next P F st i).2, QWF a) := by
  by_cases hl0 : st.last = 0
  · -- nothing pending: the plain statement
    obtain ⟨obs, h1, h2, h3, h4, h5⟩ := (next_spec P F hP hP2 i st hl0 hq).2 o ho
    exact ⟨[], content st, rfl, by simp, obs, h1, h2, fun h => by omega, by omega, h4, h5⟩
  · have hlpos : st.last > 0 := by omega
    have hpc := pick_content st
    unfold next at ho ⊢
    cases hpk : (pick st).1 with
    | none => rw [hpk] at ho; simp at ho
    | some n =>
      rw [hpk] at hpc ho
      replace hpc : n :: (pick st).2 = content st := hpc
      simp only at ho ⊢
      have hn : QWF n := hq n (by rw [← hpc]; exact List.mem_cons_self)
      have hqq : ∀ a ∈ (pick st).2, QWF a := fun a ha => hq a (by rw [← hpc]; exact List.mem_cons_of_mem _ ha)
      unfold nextFrom at ho ⊢
      by_cases halone : ((pick st).2 = [] ∨ isRekey n = true) ∧ (verify n i).2 = true
      · rw [if_pos halone] at ho ⊢
        simp only [Option.some.injEq] at ho
        rw [qwf_verify n hn i] at ho
        subst ho
        refine ⟨[], content st, rfl, by simp, [n], unpack_plain 2 n hn.plain, ?_, fun _ => rfl,
          Nat.zero_le _, ?_, ?_⟩
        · show (keepF ([n] ++ (none : Option Pkt).toList ++ (pick st).2)).map core = _
          rw [← hpc]; rfl
        · show ((none : Option Pkt).toList ++ (pick st).2).length < _
          rw [← hpc]; simp
        · intro a ha
          exact hqq a (by simpa [content] using ha)
      · rw [if_neg halone] at ho ⊢
        rw [if_pos hlpos] at ho ⊢
        obtain ⟨dr, hd1, hd2, hd3⟩ := skipGroup_spec st.last (pick st).2 n
        have hall' : ∀ a ∈ (skipGroup st.last n (pick st).2).1 :: (skipGroup st.last n (pick st).2).2, QWF a := by
          intro a ha
          have : a ∈ n :: (pick st).2 := by rw [hd1]; exact List.mem_append_right _ ha
          rcases List.mem_cons.mp this with rfl | h
          · exact hn
          · exact hqq a h
        by_cases hgl : Flag.group (skipGroup st.last n (pick st).2).1.flags = st.last
        · -- everything that was left belonged to the abandoned group: a keep-alive goes out
          rw [if_pos hgl] at ho ⊢
          simp only [Option.some.injEq] at ho
          subst ho
          have hq2 := hd3 hgl
          refine ⟨dr ++ [(skipGroup st.last n (pick st).2).1], [], ?_, ?_, ?_⟩
          · rw [← hpc, hd1, hq2]; simp
          · intro d hd
            rcases List.mem_append.mp hd with h | h
            · exact ⟨hlpos, hd2 d h⟩
            · have : d = (skipGroup st.last n (pick st).2).1 := by simpa using h
              rw [this]; exact ⟨hlpos, hgl⟩
          · refine ⟨[{ id := 0, job := 0, flags := 0, tags := n.tags, dev := i, payload := [] }],
              unpack_plain 2 _ ⟨(by decide : hasFlag 0 Facts.flagMulti = false),
                (by decide : hasFlag 0 Facts.flagMultiDevice = false)⟩, ?_, fun _ => rfl, Nat.zero_le _, ?_, ?_⟩
            · show (keepF ([_] ++ ((none : Option Pkt).toList ++ (skipGroup st.last n (pick st).2).2))).map core = _
              rw [hq2]
              have : isNoP { id := 0, job := 0, flags := 0, tags := n.tags, dev := i, payload := [] } = true := by
                simp [isNoP]
              simp [keepF_singleton, this, keepF]
            · show ((none : Option Pkt).toList ++ (skipGroup st.last n (pick st).2).2).length < _
              rw [hq2, ← hpc]; simp
            · intro a ha
              have : a ∈ (skipGroup st.last n (pick st).2).2 := by simpa [content] using ha
              rw [hq2] at this; simp at this
        · rw [if_neg hgl] at ho ⊢
          have hall : ∀ a ∈ (some (skipGroup st.last n (pick st).2).1).toList ++ (skipGroup st.last n (pick st).2).2,
              QWF a := hall'
          obtain ⟨o1, ho1, _⟩ := nextPacket_spec P F hP i n.tags (some (skipGroup st.last n (pick st).2).1)
            (skipGroup st.last n (pick st).2).2 hall (by simp) []
          rw [ho1] at ho
          simp only [Option.map_some, Option.some.injEq] at ho
          subst ho
          obtain ⟨o2, ho2, obs, hu, hk⟩ := nextPacket_spec P F hP i n.tags
            (some (skipGroup st.last n (pick st).2).1) (skipGroup st.last n (pick st).2).2 hall (by simp)
            (mergeTags o1.tags n.tags)
          rw [ho1] at ho2
          have : o2 = o1 := (Option.some.inj ho2).symm
          subst this
          obtain ⟨hr1, hr2⟩ := nextPacket_rest P F hP2 i n.tags (some (skipGroup st.last n (pick st).2).1)
            (skipGroup st.last n (pick st).2).2 (by simp)
          refine ⟨dr, (skipGroup st.last n (pick st).2).1 :: (skipGroup st.last n (pick st).2).2,
            by rw [← hpc, hd1], fun d hd => ⟨hlpos, hd2 d hd⟩, obs, hu, ?_, fun _ => rfl, Nat.zero_le _, ?_, ?_⟩
          · show (keepF (obs ++ (_ ++ _))).map core = _
            rw [← List.append_assoc, hk]; rfl
          · show ((nextPacket P F (skipGroup st.last n (pick st).2).2 (some (skipGroup st.last n (pick st).2).1) i
                n.tags).2.1.toList ++ (nextPacket P F (skipGroup st.last n (pick st).2).2
                (some (skipGroup st.last n (pick st).2).1) i n.tags).2.2).length < (content st).length
            have hlen : (content st).length = dr.length + ((skipGroup st.last n (pick st).2).2.length + 1) := by
              rw [← hpc, hd1]; simp
            have h3 : ((some (skipGroup st.last n (pick st).2).1).toList ++ (skipGroup st.last n (pick st).2).2).length
                = (skipGroup st.last n (pick st).2).2.length + 1 := by
              show ([_] ++ _ : List Pkt).length = _
              simp
            rw [h3] at hr2
            omega
          · intro a ha
            exact hall a (hr1 a ha)

/-- **Draining, with or without an abandoned group pending**: the observed sequence is — keep-alives
and tag lists aside — the queued sequence minus a *prefix* of packets that all belong to the
fragment group the peer asked to abandon (and nothing else is ever missing). -/
theorem drain_spec_last (hP : P < Facts.fragMax) (hP2 : 2 ≤ P) (i : Bytes) (st : St)
    (hq : ∀ a ∈ content st, QWF a) :
    ∃ dropped rest, content st = dropped ++ rest ∧
      (∀ d ∈ dropped, 0 < st.last ∧ Flag.group d.flags = st.last) ∧
      ∃ obs, observe (drain P F i ((content st).length + 1) st) = .ok obs ∧
        (keepF obs).map core = (keepF rest).map core := by
  unfold drain
  cases hn : (next P F st i).1 with
  | none =>
    by_cases hl0 : st.last = 0
    · have := (next_spec P F hP hP2 i st hl0 hq).1 hn
      exact ⟨[], [], by rw [this]; rfl, by simp, [], rfl, rfl⟩
    · -- `next` returns none only when nothing was picked
      have hpc := pick_content st
      unfold next at hn
      cases hpk : (pick st).1 with
      | none =>
        rw [hpk] at hpc
        have : (pick st).2 = [] := by
          unfold pick at hpk ⊢
          cases hp : st.peek with
          | some n => rw [hp] at hpk; simp at hpk
          | none =>
            cases hq' : st.q with
            | nil => rfl
            | cons h t => rw [hp, hq'] at hpk; simp at hpk
        rw [this] at hpc
        exact ⟨[], [], by rw [← hpc]; rfl, by simp, [], rfl, rfl⟩
      | some n =>
        exfalso
        rw [hpk] at hn hpc
        replace hpc : n :: (pick st).2 = content st := hpc
        have hn' : QWF n := hq n (by rw [← hpc]; exact List.mem_cons_self)
        have hqq : ∀ a ∈ (pick st).2, QWF a := fun a ha => hq a (by rw [← hpc]; exact List.mem_cons_of_mem _ ha)
        simp only at hn
        unfold nextFrom at hn
        split at hn
        · simp at hn
        · split at hn
          · split at hn
            · simp at hn
            · obtain ⟨dr, hd1, _, _⟩ := skipGroup_spec st.last (pick st).2 n
              obtain ⟨o1, ho1, _⟩ := nextPacket_spec P F hP i n.tags (some (skipGroup st.last n (pick st).2).1)
                (skipGroup st.last n (pick st).2).2 (by
                  intro a ha
                  have : a ∈ n :: (pick st).2 := by rw [hd1]; exact List.mem_append_right _ (by simpa using ha)
                  rcases List.mem_cons.mp this with rfl | h
                  · exact hn'
                  · exact hqq a h) (by simp) []
              rw [ho1] at hn; simp at hn
          · obtain ⟨o1, ho1, _⟩ := nextPacket_spec P F hP i n.tags (some n) (pick st).2 (by
                intro a ha
                rcases List.mem_cons.mp (by simpa using ha) with rfl | h
                · exact hn'
                · exact hqq a h) (by simp) []
            rw [ho1] at hn; simp at hn
  | some o =>
    obtain ⟨dr, rest, h1, h2, obs, hu, hk, hl, hle, hlt, hqq⟩ := next_spec_last P F hP hP2 i st hq o hn
    have hlast0 : (next P F st i).2.last = 0 := by
      by_cases h0 : st.last = 0
      · omega
      · exact hl (by omega)
    obtain ⟨obs2, ho2, hk2⟩ := drain_spec P F hP hP2 i (content st).length (next P F st i).2 hlt hlast0 hqq
    refine ⟨dr, rest, h1, h2, obs ++ obs2, by simp only [observe, hu, ho2], ?_⟩
    rw [keepF_append, List.map_append, hk2, ← List.map_append, ← keepF_append, hk]

end
end XMT.Batch
