import XMT.Batch
import XMT.PacketLemmas
import XMT.FlagLemmas
namespace XMT.Batch
open XMT XMT.Packet XMT.Codec XMT.Flag

/-- obligations on the regenerated flag constants -/
structure FlagsOK : Prop where
  multi : Facts.flagMulti = 2^1
  multiDevice : Facts.flagMultiDevice = 2^7
  channel : Facts.flagChannel = 2^4
  proxy : Facts.flagProxy = 2^2
  fragMax : Facts.fragMax = 65535

theorem flagsOK : FlagsOK := by constructor <;> decide

theorem hasFlag_pow (f k : Nat) : hasFlag f (2^k) = f.testBit k := by
  unfold hasFlag
  cases h : f.testBit k with
  | true =>
    have : (f &&& 2^k).testBit k = true := by
      rw [Nat.testBit_and, h, Nat.testBit_two_pow]; simp
    have hne : f &&& 2^k ≠ 0 := by
      intro h0; rw [h0] at this; simp at this
    simpa using hne
  | false =>
    have : f &&& 2^k = 0 := by
      apply Nat.eq_of_testBit_eq; intro i
      rw [Nat.testBit_and, Nat.testBit_two_pow, Nat.zero_testBit]
      by_cases hki : k = i
      · subst hki; simp [h]
      · simp [hki]
    simp [this]

/-- or-ing in bits below 2^16 does not touch the fragment-count field -/
theorem len_or_low (f b : Nat) (hb : b < 2^16) : len (f ||| b) = len f := by
  unfold len u16
  rw [Nat.shiftRight_or_distrib]
  have : b >>> 48 = 0 := by
    rw [Nat.shiftRight_eq_div_pow]; omega
  rw [this, Nat.or_zero]

theorem testBit_div (x k : Nat) : x.testBit k = decide (x / 2^k % 2 = 1) := by
  rw [Nat.testBit_eq_decide_div_mod_eq]

/-- `SetLen` keeps the flag bits 1, 4 and 7 (Multi, Channel, MultiDevice) -/
theorem testBit_setLen (f n : Nat) (hn : n < 2^16) :
    (setLen f n).testBit 1 = f.testBit 1 ∧ (setLen f n).testBit 4 = f.testBit 4 ∧
    (setLen f n).testBit 7 = f.testBit 7 := by
  obtain ⟨r, hr, h1, h2⟩ := setLen_eq f n hn
  have hp : position f < 2^16 := Nat.mod_lt _ (by decide)
  rw [hr]
  simp only [testBit_div]
  refine ⟨?_, ?_, ?_⟩ <;> congr 1 <;> apply propext <;> omega

theorem len_setLen' (f n : Nat) (hn : n < 2^16) : len (setLen f n) = n := by
  obtain ⟨r, hr, h1, h2⟩ := setLen_eq f n hn
  have hp : position f < 2^16 := Nat.mod_lt _ (by decide)
  rw [hr]; unfold len u16; simp only [Nat.shiftRight_eq_div_pow]; omega

/-- a queued packet that is not itself a batch -/
def Plain (n : Pkt) : Prop :=
  hasFlag n.flags Facts.flagMulti = false ∧ hasFlag n.flags Facts.flagMultiDevice = false

/-- the flag word `writeUnpack` leaves on the batch after packing a plain packet -/
def packedFlags (df sf : Nat) : Nat :=
  (if hasFlag sf Facts.flagChannel then
      setLen df ((len df + 1) % 2^16) ||| Facts.flagChannel
    else setLen df ((len df + 1) % 2^16)) ||| Facts.flagMulti

theorem writeUnpack_plain (dst src : Pkt) (hp : Plain src) (hl : len dst.flags + 1 ≤ Facts.fragMax) :
    writeUnpack dst src = .ok { dst with payload := dst.payload ++ marshalStream src,
                                         flags := packedFlags dst.flags src.flags,
                                         tags := dst.tags ++ src.tags } := by
  unfold writeUnpack
  rw [hp.1, hp.2]
  simp only [Bool.or_self, Bool.false_eq_true, if_false]
  rw [if_neg (by omega)]
  rfl

theorem packedFlags_fields (df sf : Nat) (hl : len df + 1 ≤ Facts.fragMax) :
    len (packedFlags df sf) = len df + 1 ∧ hasFlag (packedFlags df sf) Facts.flagMulti = true ∧
    hasFlag (packedFlags df sf) Facts.flagMultiDevice = hasFlag df Facts.flagMultiDevice := by
  have K := flagsOK
  have hlen16 : (len df + 1) % 2^16 = len df + 1 := by have := K.fragMax; omega
  have hn : len df + 1 < 2^16 := by have := K.fragMax; omega
  obtain ⟨t1, t4, t7⟩ := testBit_setLen df (len df + 1) hn
  unfold packedFlags
  rw [hlen16, K.multi, K.multiDevice, K.channel]
  refine ⟨?_, ?_, ?_⟩
  · split
    · rw [len_or_low _ _ (by decide), len_or_low _ _ (by decide), len_setLen' _ _ hn]
    · rw [len_or_low _ _ (by decide), len_setLen' _ _ hn]
  · rw [hasFlag_pow, Nat.testBit_or, Nat.testBit_two_pow]
    simp
  · rw [hasFlag_pow, hasFlag_pow]
    split
    · rw [Nat.testBit_or, Nat.testBit_or, t7, Nat.testBit_two_pow, Nat.testBit_two_pow]
      simp
      exact (hasFlag_pow df 7).symm
    · rw [Nat.testBit_or, t7, Nat.testBit_two_pow]
      simp
      exact (hasFlag_pow df 7).symm

end XMT.Batch

namespace XMT.Batch
open XMT XMT.Packet XMT.Codec XMT.Flag

/-- a queued packet the model's theorems cover: a well-formed packet (C01) that is not itself a
batch -/
structure QWF (n : Pkt) : Prop where
  wf : Packet.WF n
  plain : Plain n

/-- the batch `o` carries exactly the packets `acc`, in order -/
structure Carries (o : Pkt) (acc : List Pkt) : Prop where
  pay : o.payload = (acc.map marshalStream).flatten
  len : Flag.len o.flags = acc.length
  multi : acc ≠ [] → hasFlag o.flags Facts.flagMulti = true

theorem unpack_plain (fuel : Nat) (n : Pkt) (h : Plain n) : unpack (fuel + 1) n = .ok [n] := by
  unfold unpack
  rw [h.1]; rfl

/-- reading back the nested encodings of plain packets -/
theorem unpackLevel_ok (fuel : Nat) (acc : List Pkt) (hacc : ∀ a ∈ acc, QWF a) (rest : Bytes) :
    unpackLevel (unpack (fuel + 1)) acc.length ((acc.map marshalStream).flatten ++ rest) = .ok acc := by
  induction acc with
  | nil => rfl
  | cons a acc ih =>
    have ha := hacc a List.mem_cons_self
    simp only [List.map_cons, List.flatten_cons, List.append_assoc, List.length_cons]
    unfold unpackLevel
    rw [Props_stream a ha.wf]
    simp only [unpack_plain fuel a ha.plain]
    rw [ih (fun x hx => hacc x (List.mem_cons_of_mem _ hx))]
    rfl
where
  Props_stream (p : Pkt) (hp : Packet.WF p) {r : Bytes} :
      unmarshalStream chunkPrim devReadChunk (marshalStream p ++ r) = .ok (p, r) := by
    obtain ⟨s', h1, h2, _⟩ := unmarshalStream_ok chunk_lawful devReadChunk devReadChunk_lawful p hp
      (marshalStream p ++ r) r trivial rfl
    simp only [id] at h2; subst h2; exact h1

/-- **what a batch carries is what the receiver unpacks** -/
theorem unpack_carries (fuel : Nat) (o : Pkt) (acc : List Pkt) (hc : Carries o acc) (hne : acc ≠ [])
    (hacc : ∀ a ∈ acc, QWF a) : unpack (fuel + 2) o = .ok acc := by
  unfold unpack
  rw [hc.multi hne, hc.len]
  simp only [if_true]
  rw [if_neg (by intro h; exact hne (List.length_eq_zero_iff.mp h))]
  have := unpackLevel_ok fuel acc hacc []
  rw [List.append_nil] at this
  rw [hc.pay]; exact this

/-- packing one more plain packet -/
theorem carries_snoc (o : Pkt) (acc : List Pkt) (hc : Carries o acc) (n : Pkt) (hn : Plain n)
    (hl : acc.length + 1 ≤ Facts.fragMax) :
    ∃ o', writeUnpack o n = .ok o' ∧ Carries o' (acc ++ [n]) ∧ o'.id = o.id ∧ o'.dev = o.dev ∧
      hasFlag o'.flags Facts.flagMultiDevice = hasFlag o.flags Facts.flagMultiDevice := by
  have hl' : Flag.len o.flags + 1 ≤ Facts.fragMax := by rw [hc.len]; exact hl
  obtain ⟨f1, f2, f3⟩ := packedFlags_fields o.flags n.flags hl'
  refine ⟨_, writeUnpack_plain o n hn hl', ⟨?_, ?_, fun _ => f2⟩, rfl, rfl, f3⟩
  · simp only [List.map_append, List.flatten_append, hc.pay, List.map_cons, List.map_nil,
      List.flatten_cons, List.flatten_nil, List.append_nil]
  · simp only [f1, hc.len, List.length_append, List.length_singleton]

end XMT.Batch
