import XMT.BatchLemmas
namespace XMT.Batch
open XMT XMT.Packet XMT.Codec XMT.Flag

/-- drop keep-alives -/
def keepF (l : List Pkt) : List Pkt := l.filter (fun n => !isNoP n)

theorem keepF_append (a b : List Pkt) : keepF (a ++ b) = keepF a ++ keepF b := by
  simp [keepF, List.filter_append]

theorem keepF_cons_nop (n : Pkt) (l : List Pkt) (h : isNoP n = true) : keepF (n :: l) = keepF l := by
  simp [keepF, List.filter_cons, h]

theorem qwf_devEmpty (n : Pkt) (h : QWF n) : devEmpty n.dev = false := by
  have hz := h.wf.devNZ
  have hl := h.wf.devLen
  have K := constOK
  unfold devEmpty
  have h1 : (decide (n.dev.head? = some 0)) = false := by simpa using hz
  have h2 : n.dev.isEmpty = false := by
    cases hd : n.dev with
    | nil => rw [hd] at hl; simp at hl; have := K.idPos; omega
    | cons _ _ => rfl
  rw [h1, h2]; rfl

theorem qwf_verify (n : Pkt) (h : QWF n) (i : Bytes) : (verify n i).1 = n := by
  unfold verify
  rw [qwf_devEmpty n h]
  rfl

theorem hasFlag_or_mono (f b x : Nat) (h : hasFlag f b = true) : hasFlag (f ||| x) b = true := by
  unfold hasFlag at h ⊢
  have h' : f &&& b ≠ 0 := by simpa using h
  have : (f ||| x) &&& b ≠ 0 := by
    intro h0
    apply h'
    apply Nat.eq_of_testBit_eq; intro j
    have hj := congrArg (fun v => Nat.testBit v j) h0
    simp only [Nat.testBit_and, Nat.testBit_or, Nat.zero_testBit] at hj ⊢
    cases hf : f.testBit j <;> cases hb : b.testBit j <;> simp [hf, hb] at hj ⊢
  simpa using this

theorem carries_markMD (o : Pkt) (acc : List Pkt) (hc : Carries o acc) :
    Carries { o with flags := o.flags ||| Facts.flagMultiDevice } acc := by
  have K := flagsOK
  refine ⟨hc.pay, ?_, fun h => hasFlag_or_mono _ _ _ (hc.multi h)⟩
  show len (o.flags ||| Facts.flagMultiDevice) = acc.length
  rw [K.multiDevice, len_or_low _ _ (by decide), hc.len]

theorem takeNext_spec (o : Pkt) (n : Option Pkt) (q : List Pkt) (h : q ≠ []) (hn : n = none ∨ q ≠ []) :
    n.toList ++ q = (takeNext o n q).1 :: (takeNext o n q).2 := by
  cases n with
  | some n0 => rfl
  | none =>
    cases q with
    | nil => exact absurd rfl h
    | cons a t => rfl

theorem keepF_cons (n : Pkt) (l : List Pkt) :
    keepF (n :: l) = (if isNoP n then [] else [n]) ++ keepF l := by
  unfold keepF
  cases h : isNoP n <;> simp [List.filter_cons, h]

theorem markMD_spec (i : Bytes) (m : Bool) (o n : Pkt) (acc : List Pkt) (hc : Carries o acc) :
    Carries (markMD i m o n).1 acc ∧ (markMD i m o n).1.id = o.id ∧ (markMD i m o n).1.dev = o.dev := by
  unfold markMD
  split
  · exact ⟨carries_markMD o acc hc, rfl, rfl⟩
  · exact ⟨hc, rfl, rfl⟩

/-- packing a queued (plain, well-formed) packet into a batch that has room -/
theorem packOne_spec (i : Bytes) (m : Bool) (o n : Pkt) (acc : List Pkt) (hc : Carries o acc)
    (hn : QWF n) (hl : acc.length + 1 ≤ Facts.fragMax) :
    Carries (packOne i m o n).1 (acc ++ [n]) ∧ (packOne i m o n).1.id = o.id ∧
    (packOne i m o n).1.dev = o.dev := by
  obtain ⟨hm1, hm2, hm3⟩ := markMD_spec i m o n acc hc
  unfold packOne
  rw [qwf_verify n hn i]
  generalize markMD i m o n = om at hm1 hm2 hm3
  obtain ⟨o2, hw, hc2, hid2, hdev2, _⟩ := carries_snoc om.1 acc hm1 n hn.plain hl
  simp only [hw]
  exact ⟨hc2, by rw [hid2, hm2], by rw [hdev2, hm3]⟩

section
variable (P F : Nat)

/-- **The batching loop loses nothing**: whatever it does with the packet in hand `n` and the
queue `q`, the batch ends up carrying `acc ++ taken`, and — keep-alives aside — what was taken, what
is carried over (`k`) and what is left in the queue (`q'`) is exactly `n` followed by `q`, in
order, each once. -/
theorem loop_spec (i : Bytes) (hP : P < Facts.fragMax) :
    ∀ (fuel x s : Nat) (m : Bool) (o : Pkt) (n : Option Pkt) (q : List Pkt) (acc : List Pkt),
      Carries o acc → acc.length ≤ x → (∀ a ∈ n.toList ++ q, QWF a) → (n = none ∨ q ≠ []) →
      ∃ taken, Carries (loop P F i fuel x s m o n q).1 (acc ++ taken) ∧
        keepF (taken ++ (loop P F i fuel x s m o n q).2.1.toList ++ (loop P F i fuel x s m o n q).2.2)
          = keepF (n.toList ++ q) ∧
        (loop P F i fuel x s m o n q).1.id = o.id ∧ (loop P F i fuel x s m o n q).1.dev = o.dev ∧
        (∀ t ∈ taken, QWF t) := by
  intro fuel
  induction fuel with
  | zero =>
    intro x s m o n q acc hc _ _ _
    exact ⟨[], by simpa [loop] using hc, by simp [loop], rfl, rfl, by simp⟩
  | succ fuel ih =>
    intro x s m o n q acc hc hx hq hnq
    unfold loop
    by_cases hcond : x < P ∧ q ≠ []
    · rw [if_pos hcond]
      have hin := takeNext_spec o n q hcond.2 hnq
      generalize takeNext o n q = nq at hin
      obtain ⟨n1, q1⟩ := nq
      simp only at hin ⊢
      have hn1 : QWF n1 := hq n1 (by rw [hin]; exact List.mem_cons_self)
      have hq1 : ∀ a ∈ (none : Option Pkt).toList ++ q1, QWF a := by
        intro a ha; exact hq a (by rw [hin]; exact List.mem_cons_of_mem _ (by simpa using ha))
      by_cases hkey : hasFlag n1.flags Facts.flagCrypt = true ∧ Flag.len o.flags > 0
      · -- key material behind other packets: kept back as carry-over, nothing lost
        rw [if_pos hkey]
        exact ⟨[], by simpa using hc, by simp [hin], rfl, rfl, by simp⟩
      rw [if_neg hkey]
      by_cases hnop : elide i s m n1 = true
      · -- an elided keep-alive
        rw [if_pos hnop]
        obtain ⟨taken, h1, h2, h3, h4, h5⟩ := ih (x + 1) s m o none q1 acc hc (by omega) hq1 (Or.inl rfl)
        refine ⟨taken, h1, ?_, h3, h4, h5⟩
        rw [h2, hin]
        have : isNoP n1 = true := by
          unfold elide at hnop
          simp only [Bool.and_eq_true] at hnop; exact hnop.1
        simp [keepF_cons_nop n1 q1 this]
      · rw [if_neg hnop]
        by_cases hfit : s > 0 ∧ s + Packet.size n1 > F
        · -- does not fit: carried over, nothing lost
          rw [if_pos hfit]
          exact ⟨[], by simpa using hc, by simp [hin], rfl, rfl, by simp⟩
        · rw [if_neg hfit]
          obtain ⟨hc2, hid2, hdev2⟩ := packOne_spec i m o n1 acc hc hn1 (by omega)
          obtain ⟨taken, h1, h2, h3, h4, h5⟩ :=
            ih (x + 1) (s + Packet.size n1) (packOne i m o n1).2 (packOne i m o n1).1 none q1
              (acc ++ [n1]) hc2 (by simp; omega) hq1 (Or.inl rfl)
          refine ⟨n1 :: taken, by simpa [List.append_assoc] using h1, ?_, by rw [h3, hid2],
            by rw [h4, hdev2], ?_⟩
          · rw [hin]
            rw [show (none : Option Pkt).toList = [] from rfl, List.nil_append] at h2
            rw [List.cons_append, List.cons_append, keepF_cons, keepF_cons, h2]
          · intro t ht
            rcases List.mem_cons.mp ht with rfl | ht
            · exact hn1
            · exact h5 t ht
    · rw [if_neg hcond]
      refine ⟨[], by simpa using hc, by simp, rfl, rfl, by simp⟩

end
end XMT.Batch
