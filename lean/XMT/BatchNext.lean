import XMT.BatchLoop
namespace XMT.Batch
open XMT XMT.Packet XMT.Codec XMT.Flag

/-- a packet without its tag list (tags are merged / re-stamped per transmission and are not part
of what the property compares) -/
def core (p : Pkt) : Pkt := { p with tags := [] }

theorem isNoP_tags (p : Pkt) (X : List Nat) : isNoP { p with tags := X } = isNoP p := rfl

theorem keepF_singleton (p : Pkt) : keepF [p] = if isNoP p then [] else [p] := by
  have := keepF_cons p []
  simpa [keepF] using this

theorem keepF_core_single (p : Pkt) (X : List Nat) :
    (keepF [{ p with tags := X }]).map core = (keepF [p]).map core := by
  rw [keepF_singleton, keepF_singleton, isNoP_tags]
  cases isNoP p <;> rfl

theorem carries_tags (o : Pkt) (acc : List Pkt) (X : List Nat) (h : Carries o acc) :
    Carries { o with tags := X } acc := ⟨h.pay, h.len, h.multi⟩

theorem carries_empty (i : Bytes) (fl : Nat) (h : len fl = 0) : Carries (emptyBatch i fl) [] :=
  ⟨rfl, h, fun h => absurd rfl h⟩

theorem stream_self (p : Pkt) (hp : Packet.WF p) :
    unmarshalStream chunkPrim devReadChunk (marshalStream p) = .ok (p, []) := by
  have := unpackLevel_ok.Props_stream p hp (r := [])
  rwa [List.append_nil] at this

/-- what goes out after the loop, whatever tags `next` stamps on it (`X`): the receiver unpacks —
keep-alives and tag lists aside — exactly what the batch carried -/
theorem finishBatch_spec (o : Pkt) (acc : List Pkt) (hc : Carries o acc) (hid : o.id = 0)
    (hacc : ∀ a ∈ acc, QWF a) (X : List Nat) :
    ∃ obs, unpack 3 { finishBatch o with tags := X } = .ok obs ∧
      (keepF obs).map core = (keepF acc).map core := by
  have K := flagsOK
  unfold finishBatch
  match acc, hc, hacc with
  | [], hc, _ =>
    -- only keep-alives: one plain keep-alive goes out
    have hl : len o.flags = 0 := hc.len
    have hp : o.payload = [] := hc.pay
    have hn : normEmpty o = { o with id := 0, flags := 0 } := by unfold normEmpty; rw [if_pos hl]
    have hu : unwrapOne { o with id := 0, flags := 0 } = { o with id := 0, flags := 0 } := by
      unfold unwrapOne
      rw [if_neg]
      intro h
      have : len 0 = 0 := by decide
      simp only at h
      omega
    rw [hn, hu]
    refine ⟨[{ o with id := 0, flags := 0, tags := X }], ?_, ?_⟩
    · exact unpack_plain 2 _ ⟨(by decide : hasFlag 0 Facts.flagMulti = false),
        (by decide : hasFlag 0 Facts.flagMultiDevice = false)⟩
    · have : isNoP { o with id := 0, flags := 0, tags := X } = true := by
        simp [isNoP, hp]
      rw [keepF_singleton, this]
      rfl
  | [a], hc, hacc =>
    have ha := hacc a List.mem_cons_self
    have hl : len o.flags = 1 := hc.len
    have hp : o.payload = marshalStream a := by simpa using hc.pay
    have hn : normEmpty o = o := by unfold normEmpty; rw [if_neg (by omega)]
    rw [hn]
    by_cases hmd : hasFlag o.flags Facts.flagMultiDevice = true
    · -- marked multi-device: stays a batch of one
      have hu : unwrapOne o = o := by
        unfold unwrapOne; rw [if_neg (by simp [hmd])]
      rw [hu]
      exact ⟨[a], unpack_carries 1 _ [a] (carries_tags o [a] X hc) (by simp) hacc, rfl⟩
    · have hu : unwrapOne o = a := by
        unfold unwrapOne
        rw [if_pos ⟨hl, by simpa using hmd, hid⟩, hp, stream_self a ha.wf]
      rw [hu]
      exact ⟨[{ a with tags := X }], unpack_plain 2 _ ha.plain, keepF_core_single a X⟩
  | a :: b :: rest, hc, hacc =>
    have hl : len o.flags = rest.length + 2 := by simpa using hc.len
    have hn : normEmpty o = o := by unfold normEmpty; rw [if_neg (by omega)]
    have hu : unwrapOne o = o := by
      unfold unwrapOne; rw [if_neg (by omega)]
    rw [hn, hu]
    exact ⟨a :: b :: rest, unpack_carries 1 _ _ (carries_tags o _ X hc) (by simp) hacc, rfl⟩

/-- the single-packet branch -/
theorem single_spec (i : Bytes) (t : List Nat) (n : Pkt) (q : List Pkt) (hn : QWF n) (X : List Nat) :
    ∃ o, single i t n q = (some o, none, q) ∧
      ∃ obs, unpack 3 { o with tags := X } = .ok obs ∧ (keepF obs).map core = (keepF [n]).map core := by
  have K := flagsOK
  unfold single
  rw [qwf_verify n hn i]
  by_cases hv : (verify n i).2 = true
  · rw [if_pos hv]
    exact ⟨_, rfl, [{ n with tags := X }], unpack_plain 2 _ hn.plain, keepF_core_single n X⟩
  · rw [if_neg hv]
    have hce : Carries (emptyBatch i (Facts.flagMulti ||| Facts.flagMultiDevice)) [] :=
      carries_empty i _ (by rw [K.multi, K.multiDevice]; decide)
    obtain ⟨o2, hw, hc2, _, _, _⟩ := carries_snoc _ [] hce n hn.plain (by rw [K.fragMax]; decide)
    simp only [hw]
    refine ⟨_, rfl, [n], ?_, rfl⟩
    exact unpack_carries 1 _ [n] (carries_tags _ [n] X (carries_tags o2 [n] _ hc2)) (by simp) (by simpa using hn)

section
variable (P F : Nat)

/-- **One transmission loses nothing**: `nextPacket` turns the packet in hand and the queue into a
transmission, a carry-over and a remaining queue such that — keep-alives and tag lists aside — what
the receiver unpacks, followed by the carry-over and the remaining queue, is exactly the packet in
hand followed by the queue: each packet once, in order, ID, job, device, flags and payload intact. -/
theorem nextPacket_spec (hP : P < Facts.fragMax) (i : Bytes) (t : List Nat) (n : Option Pkt)
    (q : List Pkt) (hq : ∀ a ∈ n.toList ++ q, QWF a) (hne : n.toList ++ q ≠ []) (X : List Nat) :
    ∃ o, (nextPacket P F q n i t).1 = some o ∧
      ∃ obs, unpack 3 { o with tags := X } = .ok obs ∧
        (keepF (obs ++ (nextPacket P F q n i t).2.1.toList ++ (nextPacket P F q n i t).2.2)).map core
          = (keepF (n.toList ++ q)).map core := by
  have K := flagsOK
  unfold nextPacket
  match n, q, hq, hne with
  | none, [], _, hne => exact absurd rfl hne
  | some n0, [], hq, _ =>
    have hn0 : QWF n0 := hq n0 (by simp)
    obtain ⟨o, hs, obs, hu, hk⟩ := single_spec i t n0 [] hn0 X
    simp only [hs]
    exact ⟨o, rfl, obs, hu, by simpa [keepF_append] using hk⟩
  | n, h :: tl, hq, _ =>
    simp only
    by_cases hP1 : P ≤ 1
    · rw [if_pos hP1]
      cases n with
      | some n0 =>
        have hn0 : QWF n0 := hq n0 (by simp)
        obtain ⟨o, hs, obs, hu, hk⟩ := single_spec i t n0 (h :: tl) hn0 X
        simp only [hs]
        refine ⟨o, rfl, obs, hu, ?_⟩
        simp only [Option.toList, List.append_nil, keepF_append, List.map_append, hk]
      | none =>
        have hh : QWF h := hq h (by simp)
        obtain ⟨o, hs, obs, hu, hk⟩ := single_spec i t h tl hh X
        simp only [hs]
        refine ⟨o, rfl, obs, hu, ?_⟩
        simp only [Option.toList, List.append_nil, List.nil_append, keepF_append, List.map_append, hk]
        rw [show h :: tl = [h] ++ tl from rfl, keepF_append, List.map_append]
    · rw [if_neg hP1]
      have hce : Carries (emptyBatch i Facts.flagMulti) [] :=
        carries_empty i _ (by rw [K.multi]; decide)
      obtain ⟨taken, h1, h2, h3, _, h5⟩ := loop_spec P F i hP (P + 1) 0 0 false
        (emptyBatch i Facts.flagMulti) n (h :: tl) [] hce (by simp) hq (Or.inr (by simp))
      simp only [List.nil_append] at h1
      obtain ⟨obs, hu, hk⟩ := finishBatch_spec _ taken h1 (by rw [h3]; rfl) h5 X
      refine ⟨_, rfl, obs, hu, ?_⟩
      rw [List.append_assoc, keepF_append, List.map_append, hk, ← List.map_append, ← keepF_append,
        ← List.append_assoc, h2]

end
end XMT.Batch
