/-
  Driver helpers for the C03 extension ops (drainT / drainJ / nextB): packet tokens whose tag list
  is written as runs `lo-hi;lo-hi`, and the one-line summary of a transmission.
-/
import XMT.Drv.Util
import XMT.Drv.C01
import XMT.Batch
import XMT.BatchDraw
import XMT.BatchBlock
namespace XMT.BatchS3Drv
open XMT XMT.Drv XMT.Batch

def parseRun (s : String) : Option (List Nat) :=
  match splitOn1 s '-' with
  | [a, b] => do
    let a ← natOf a; let b ← natOf b
    if a ≤ b then pure (List.range' a (b - a + 1)) else none
  | _ => none

/-- `id,job,flags,runs,dev,payload` with `runs` = `.` or `lo-hi;lo-hi;…` -/
def parsePktR (s : String) : Option Pkt :=
  match splitOn1 s ',' with
  | [i, j, f, tg, d, pl] => do
    let i ← natOf i; let j ← natOf j; let f ← natOf f
    let tags ← if tg = "." then some [] else (splitOn1 tg ';').mapM parseRun
    let d ← ofHex d; let pl ← ofHex pl
    pure { id := UInt8.ofNat i, job := j, flags := f, tags := tags.flatten, dev := d, payload := pl }
  | _ => none

/-- the packet without its tag list, the number of tags, their sum, and what `Marshal` says -/
def txSummary (o : Pkt) : String :=
  let m := match Packet.marshalWrites o with
    | .ok _ => "nil"
    | .error e => XMT.Drv.C01.showPErr e
  s!"{XMT.Drv.C01.showPkt { o with tags := [] }} n={o.tags.length} s={o.tags.foldl (· + ·) 0} m={m}"

def drainT (P F : Nat) (i : Bytes) : Nat → St → List String → List String
  | 0, _, acc => acc ++ ["fuel"]
  | fuel + 1, st, acc =>
    match next P F st i with
    | (none, _) => acc
    | (some o, st') => drainT P F i fuel st' (acc ++ [txSummary o])

def sortTags (p : Pkt) : Pkt := { p with tags := (p.tags.toArray.qsort (· < ·)).toList }

/-- the word stream of op drainJ: the listed words, cycled -/
def wordsOf (ws : Array Nat) (k : Nat) : Nat := if ws.size = 0 then 0 else ws[k % ws.size]!

def drainJ (w : Nat → Nat) (P F : Nat) (i : Bytes) : Nat → St → Nat → List String → List String
  | 0, _, _, acc => acc ++ ["fuel"]
  | fuel + 1, st, k, acc =>
    match nextD w P F st i k with
    | (none, _, k') => acc ++ [s!"k={k'}"]
    | (some o, st', k') => drainJ w P F i fuel st' k' (acc ++ [XMT.Drv.C01.showPkt (sortTags o)])

def showTx : Tx → String
  | .sent o => XMT.Drv.C01.showPkt (sortTags o)
  | .nothing => "-"
  | .blocked => "B"

def bit (c : Char) : Option Bool := if c = '1' then some true else if c = '0' then some false else none

/-- op histB: events `Q<pkt>` (queue), `N<i><channel>` / `N<i><channel>K<hex key>` (a `next(i)` call),
`R<pkt>` (a packet is queued while a call is blocked: the call completes with it) -/
def histB (P F : Nat) (i : Bytes) (cl pn : Bool) : List String → St → List String → Option (List String)
  | [], _, acc => some acc
  | e :: es, st, acc =>
    match e.toList with
    | 'Q' :: r =>
      match XMT.Drv.C01.parsePkt (String.ofList r) with
      | some p => histB P F i cl pn es { st with q := st.q ++ [p] } acc
      | none => none
    | 'R' :: r =>
      match XMT.Drv.C01.parsePkt (String.ofList r) with
      | some p => let t := resume P F st i p; histB P F i cl pn es t.2 (acc ++ [showTx t.1])
      | none => none
    | 'N' :: a :: b :: r =>
      match bit a, bit b with
      | some ib, some ch =>
        let ks : Option (Option Bytes) := match r with
          | [] => some none
          | 'K' :: h => (ofHex (String.ofList h)).map some
          | _ => none
        match ks with
        | some ks =>
          let t := nextB P F { client := cl, parentNil := pn, channel := ch } ib ks st i
          histB P F i cl pn es t.2 (acc ++ [showTx t.1])
        | none => none
      | _, _ => none
    | _ => none

end XMT.BatchS3Drv
