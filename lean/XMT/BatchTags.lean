/-
  XMT.BatchTags — the tag list of a transmission (extension of the C03 model, round s3).

  `writeUnpack(o, n, true, true)` appends the tag list of every packed packet to the batch
  (`dst.Tags = append(dst.Tags, src.Tags...)`, c2/vars.go), `Session.next` then stamps
  `mergeTags(n.Tags, t)` (t = tag list of the packet that was picked first) on what goes out, and
  `(*Packet).Marshal` (com/packet.go writeHeader) refuses a packet with more than `PacketMaxTags`
  tags ("tags list is too large"): AFTER the packets were dequeued.

  This file proves what the tag list of a transmission is (`loop_spec_tags`, `nextPacket_tags`),
  that a transmission marshals whenever the tag lists of the queued packets together stay within
  `PacketMaxTags` (`nextFromM_marshals`) and exhibits the queue of three well-formed packets whose
  batch `Marshal` refuses (`tags_overflow_witness`).

  `mergeTags` builds the union through a Go map: the order of the result is unspecified. The
  theorems therefore quantify over EVERY merge function that satisfies `IsMerge` (the three
  short-cuts of the Go function literally, else: no duplicates, the union as a set).
-/
import XMT.BatchLast
namespace XMT.Batch
open XMT XMT.Packet XMT.Codec XMT.Flag

/-- all tags of a list of packets, in order -/
def tagsOf (l : List Pkt) : List Nat := (l.map (·.tags)).flatten

/-- number of tags of a list of packets -/
def tagSum (l : List Pkt) : Nat := (tagsOf l).length

theorem tagsOf_nil : tagsOf [] = [] := rfl
theorem tagsOf_cons (a : Pkt) (l : List Pkt) : tagsOf (a :: l) = a.tags ++ tagsOf l := rfl
theorem tagsOf_append (a b : List Pkt) : tagsOf (a ++ b) = tagsOf a ++ tagsOf b := by
  simp [tagsOf]

theorem tagsOf_sublist {a b : List Pkt} (h : a.Sublist b) : (tagsOf a).Sublist (tagsOf b) := by
  induction h with
  | slnil => exact List.Sublist.refl _
  | cons x _ ih => rw [tagsOf_cons]; exact ih.trans (List.sublist_append_right _ _)
  | cons_cons x _ ih => rw [tagsOf_cons, tagsOf_cons]; exact List.Sublist.append (List.Sublist.refl _) ih

theorem tagSum_sublist {a b : List Pkt} (h : a.Sublist b) : tagSum a ≤ tagSum b :=
  (tagsOf_sublist h).length_le

theorem mem_tagsOf_of_mem {a : Pkt} {l : List Pkt} (h : a ∈ l) : ∀ x ∈ a.tags, x ∈ tagsOf l := by
  intro x hx
  unfold tagsOf
  exact List.mem_flatten.mpr ⟨a.tags, List.mem_map.mpr ⟨a, h, rfl⟩, hx⟩

theorem tags_length_le_of_mem {a : Pkt} {l : List Pkt} (h : a ∈ l) : a.tags.length ≤ tagSum l := by
  induction l with
  | nil => cases h
  | cons b l ih =>
    unfold tagSum; rw [tagsOf_cons, List.length_append]
    rcases List.mem_cons.mp h with rfl | h
    · omega
    · have := ih h; unfold tagSum at this; omega

theorem mem_tagsOf_qwf {l : List Pkt} (h : ∀ a ∈ l, QWF a) : ∀ x ∈ tagsOf l, x ≠ 0 := by
  intro x hx
  unfold tagsOf at hx
  obtain ⟨ts, hts, hx⟩ := List.mem_flatten.mp hx
  obtain ⟨a, ha, rfl⟩ := List.mem_map.mp hts
  have := ((h a ha).wf.tags x hx).1
  omega

/-! ### the batching loop -/

theorem markMD_tags (i : Bytes) (m : Bool) (o n : Pkt) : (markMD i m o n).1.tags = o.tags := by
  unfold markMD; split <;> rfl

/-- packing a queued packet appends its tag list to the batch's (`writeUnpack`, `tags = true`) -/
theorem packOne_tags (i : Bytes) (m : Bool) (o n : Pkt) (acc : List Pkt) (hc : Carries o acc)
    (hn : QWF n) (hl : acc.length + 1 ≤ Facts.fragMax) :
    (packOne i m o n).1.tags = o.tags ++ n.tags := by
  obtain ⟨hm1, _, _⟩ := markMD_spec i m o n acc hc
  have ht := markMD_tags i m o n
  unfold packOne
  rw [qwf_verify n hn i]
  generalize markMD i m o n = om at hm1 ht
  have hl' : len om.1.flags + 1 ≤ Facts.fragMax := by rw [hm1.len]; exact hl
  rw [writeUnpack_plain om.1 n hn.plain hl']
  simp only [ht]

section
variable (P F : Nat)

/-- `loop_spec` with the tag list: the batch's tags are the tags it had followed by the tag lists
of the packets taken, in order; what is taken, carried over and left is a sublist of what there was
(the only packets that disappear are the elided keep-alives). -/
theorem loop_spec_tags (i : Bytes) (hP : P < Facts.fragMax) :
    ∀ (fuel x s : Nat) (m : Bool) (o : Pkt) (n : Option Pkt) (q : List Pkt) (acc : List Pkt),
      Carries o acc → acc.length ≤ x → (∀ a ∈ n.toList ++ q, QWF a) → (n = none ∨ q ≠ []) →
      ∃ taken, Carries (loop P F i fuel x s m o n q).1 (acc ++ taken) ∧
        (loop P F i fuel x s m o n q).1.tags = o.tags ++ tagsOf taken ∧
        (taken ++ (loop P F i fuel x s m o n q).2.1.toList ++ (loop P F i fuel x s m o n q).2.2).Sublist
          (n.toList ++ q) ∧
        (loop P F i fuel x s m o n q).1.id = o.id ∧ (∀ t ∈ taken, QWF t) := by
  intro fuel
  induction fuel with
  | zero =>
    intro x s m o n q acc hc _ _ _
    exact ⟨[], by simpa [loop] using hc, by simp [loop, tagsOf_nil], by simp [loop], rfl, by simp⟩
  | succ fuel ih =>
    intro x s m o n q acc hc hx hq hnq
    unfold loop
    by_cases hcond : x < P ∧ q ≠ []
    · rw [if_pos hcond]
      have hin := takeNext_spec o n q hcond.2 hnq
      generalize takeNext o n q = nq at hin
      obtain ⟨n1, q1⟩ := nq
      simp only at hin ⊢
      have hn1 : QWF n1 := hq n1 (by rw [hin]; exact List.mem_cons_self)
      have hq1 : ∀ a ∈ (none : Option Pkt).toList ++ q1, QWF a := by
        intro a ha; exact hq a (by rw [hin]; exact List.mem_cons_of_mem _ (by simpa using ha))
      by_cases hkey : hasFlag n1.flags Facts.flagCrypt = true ∧ Flag.len o.flags > 0
      · rw [if_pos hkey]
        exact ⟨[], by simpa using hc, by simp [tagsOf_nil], by simp [hin], rfl, by simp⟩
      rw [if_neg hkey]
      by_cases hnop : elide i s m n1 = true
      · rw [if_pos hnop]
        obtain ⟨taken, h1, h2, h3, h4, h5⟩ := ih (x + 1) s m o none q1 acc hc (by omega) hq1 (Or.inl rfl)
        refine ⟨taken, h1, h2, ?_, h4, h5⟩
        rw [hin]
        rw [show (none : Option Pkt).toList ++ q1 = q1 from rfl] at h3
        exact List.Sublist.cons _ h3
      · rw [if_neg hnop]
        by_cases hfit : s > 0 ∧ s + Packet.size n1 > F
        · rw [if_pos hfit]
          exact ⟨[], by simpa using hc, by simp [tagsOf_nil], by simp [hin], rfl, by simp⟩
        · rw [if_neg hfit]
          obtain ⟨hc2, hid2, _⟩ := packOne_spec i m o n1 acc hc hn1 (by omega)
          have ht2 := packOne_tags i m o n1 acc hc hn1 (by omega)
          obtain ⟨taken, h1, h2, h3, h4, h5⟩ :=
            ih (x + 1) (s + Packet.size n1) (packOne i m o n1).2 (packOne i m o n1).1 none q1
              (acc ++ [n1]) hc2 (by simp; omega) hq1 (Or.inl rfl)
          refine ⟨n1 :: taken, by simpa [List.append_assoc] using h1, ?_, ?_, by rw [h4, hid2], ?_⟩
          · rw [h2, ht2, tagsOf_cons, List.append_assoc]
          · rw [hin]
            rw [show (none : Option Pkt).toList ++ q1 = q1 from rfl] at h3
            simpa using List.Sublist.cons_cons n1 h3
          · intro t ht
            rcases List.mem_cons.mp ht with rfl | ht
            · exact hn1
            · exact h5 t ht
    · rw [if_neg hcond]
      refine ⟨[], by simpa using hc, by simp [tagsOf_nil], by simp, rfl, by simp⟩

end

/-- what goes out after the loop carries the tag lists of the packets it carries -/
theorem finishBatch_tags (o : Pkt) (acc : List Pkt) (hc : Carries o acc) (hid : o.id = 0)
    (hacc : ∀ a ∈ acc, QWF a) (ht : o.tags = tagsOf acc) : (finishBatch o).tags = tagsOf acc := by
  unfold finishBatch
  match acc, hc, hacc, ht with
  | [], hc, _, ht =>
    have hl : len o.flags = 0 := hc.len
    have hn : normEmpty o = { o with id := 0, flags := 0 } := by unfold normEmpty; rw [if_pos hl]
    have hu : unwrapOne { o with id := 0, flags := 0 } = { o with id := 0, flags := 0 } := by
      unfold unwrapOne
      rw [if_neg]
      intro h
      have : len 0 = 0 := by decide
      simp only at h
      omega
    rw [hn, hu]; exact ht
  | [a], hc, hacc, ht =>
    have ha := hacc a List.mem_cons_self
    have hl : len o.flags = 1 := hc.len
    have hp : o.payload = marshalStream a := by simpa using hc.pay
    have hn : normEmpty o = o := by unfold normEmpty; rw [if_neg (by omega)]
    rw [hn]
    by_cases hmd : hasFlag o.flags Facts.flagMultiDevice = true
    · have hu : unwrapOne o = o := by
        unfold unwrapOne; rw [if_neg (by simp [hmd])]
      rw [hu]; exact ht
    · have hu : unwrapOne o = a := by
        unfold unwrapOne
        rw [if_pos ⟨hl, by simpa using hmd, hid⟩, hp, stream_self a ha.wf]
      rw [hu]; simp [tagsOf]
  | a :: b :: rest, hc, _, ht =>
    have hl : len o.flags = rest.length + 2 := by simpa using hc.len
    have hn : normEmpty o = o := by unfold normEmpty; rw [if_neg (by omega)]
    have hu : unwrapOne o = o := by
      unfold unwrapOne; rw [if_neg (by omega)]
    rw [hn, hu]; exact ht

/-- the single-packet branch: the packet's own tags followed by `t` -/
theorem single_tags (i : Bytes) (t : List Nat) (n : Pkt) (q : List Pkt) (hn : QWF n) :
    ∃ o, single i t n q = (some o, none, q) ∧ o.tags = n.tags ++ t := by
  have K := flagsOK
  unfold single
  rw [qwf_verify n hn i]
  by_cases hv : (verify n i).2 = true
  · rw [if_pos hv]; exact ⟨_, rfl, rfl⟩
  · rw [if_neg hv]
    have hl : len (emptyBatch i (Facts.flagMulti ||| Facts.flagMultiDevice)).flags + 1 ≤ Facts.fragMax := by
      show len (Facts.flagMulti ||| Facts.flagMultiDevice) + 1 ≤ Facts.fragMax
      rw [K.multi, K.multiDevice, K.fragMax]; decide
    rw [writeUnpack_plain _ n hn.plain hl]
    exact ⟨_, rfl, by simp [emptyBatch]⟩

section
variable (P F : Nat)

/-- **The tag list of one transmission** as `nextPacket` builds it: the tag lists of the packets it
carries, in order (followed by `t` on the single-packet path); what it carries, the carry-over and
the remaining queue together are a sublist of the packet in hand followed by the queue. -/
theorem nextPacket_tags (hP : P < Facts.fragMax) (i : Bytes) (t : List Nat) (n : Option Pkt)
    (q : List Pkt) (hq : ∀ a ∈ n.toList ++ q, QWF a) (hne : n.toList ++ q ≠ []) :
    ∃ o taken, (nextPacket P F q n i t).1 = some o ∧
      (o.tags = tagsOf taken ∨ o.tags = tagsOf taken ++ t) ∧
      (taken ++ (nextPacket P F q n i t).2.1.toList ++ (nextPacket P F q n i t).2.2).Sublist (n.toList ++ q) := by
  have K := flagsOK
  unfold nextPacket
  match n, q, hq, hne with
  | none, [], _, hne => exact absurd rfl hne
  | some n0, [], hq, _ =>
    have hn0 : QWF n0 := hq n0 (by simp)
    obtain ⟨o, hs, ht⟩ := single_tags i t n0 [] hn0
    simp only [hs]
    exact ⟨o, [n0], rfl, Or.inr (by simp [ht, tagsOf]), by simp⟩
  | n, h :: tl, hq, _ =>
    simp only
    by_cases hP1 : P ≤ 1
    · rw [if_pos hP1]
      cases n with
      | some n0 =>
        have hn0 : QWF n0 := hq n0 (by simp)
        obtain ⟨o, hs, ht⟩ := single_tags i t n0 (h :: tl) hn0
        simp only [hs]
        exact ⟨o, [n0], rfl, Or.inr (by simp [ht, tagsOf]), by simp⟩
      | none =>
        have hh : QWF h := hq h (by simp)
        obtain ⟨o, hs, ht⟩ := single_tags i t h tl hh
        simp only [hs]
        exact ⟨o, [h], rfl, Or.inr (by simp [ht, tagsOf]), by simp⟩
    · rw [if_neg hP1]
      have hce : Carries (emptyBatch i Facts.flagMulti) [] :=
        carries_empty i _ (by rw [K.multi]; decide)
      obtain ⟨taken, h1, h2, h3, h4, h5⟩ := loop_spec_tags P F i hP (P + 1) 0 0 false
        (emptyBatch i Facts.flagMulti) n (h :: tl) [] hce (by simp) hq (Or.inr (by simp))
      simp only [List.nil_append] at h1
      have hft := finishBatch_tags _ taken h1 (by rw [h4]; rfl) h5 (by rw [h2]; simp [emptyBatch])
      exact ⟨_, taken, rfl, Or.inl hft, h3⟩

end

/-! ### `mergeTags` as a specification, `Session.next` over any merge function -/

/-- what `mergeTags(one, two)` may return: the three short-cuts literally, otherwise the union as a
set, without duplicates, in ANY order (the Go code ranges over a map) -/
def IsMerge (one two r : List Nat) : Prop :=
  if one = [] ∧ two = [] then r = []
  else if one = [] then r = two
  else if two = [] then r = one
  else r.Nodup ∧ ∀ x, x ∈ r ↔ (x ∈ one ∨ x ∈ two)

instance (one two r : List Nat) : Decidable (IsMerge one two r) := by
  unfold IsMerge
  by_cases h1 : one = [] ∧ two = []
  · rw [if_pos h1]; infer_instance
  · rw [if_neg h1]
    by_cases h2 : one = []
    · rw [if_pos h2]; infer_instance
    · rw [if_neg h2]
      by_cases h3 : two = []
      · rw [if_pos h3]; infer_instance
      · rw [if_neg h3]
        exact decidable_of_iff (r.Nodup ∧ (∀ x ∈ r, x ∈ one ∨ x ∈ two) ∧ (∀ x ∈ one, x ∈ r) ∧ (∀ x ∈ two, x ∈ r))
          ⟨fun ⟨a, b, c, d⟩ => ⟨a, fun x => ⟨b x, fun h => h.elim (c x) (d x)⟩⟩,
           fun ⟨a, b⟩ => ⟨a, fun x hx => (b x).mp hx, fun x hx => (b x).mpr (Or.inl hx),
             fun x hx => (b x).mpr (Or.inr hx)⟩⟩

/-- a reference merge function (keeps the last occurrence of every tag): shows `IsMerge` is
satisfiable for all arguments -/
def dedup : List Nat → List Nat
  | [] => []
  | x :: xs => if x ∈ dedup xs then dedup xs else x :: dedup xs

theorem mem_dedup (x : Nat) : ∀ l : List Nat, x ∈ dedup l ↔ x ∈ l := by
  intro l
  induction l with
  | nil => simp [dedup]
  | cons y ys ih =>
    unfold dedup
    by_cases h : y ∈ dedup ys
    · rw [if_pos h, List.mem_cons, ih]
      constructor
      · exact Or.inr
      · rintro (rfl | h')
        · exact ih.mp h
        · exact h'
    · rw [if_neg h, List.mem_cons, List.mem_cons, ih]

theorem nodup_dedup : ∀ l : List Nat, (dedup l).Nodup := by
  intro l
  induction l with
  | nil => simp [dedup]
  | cons y ys ih =>
    unfold dedup
    by_cases h : y ∈ dedup ys
    · rw [if_pos h]; exact ih
    · rw [if_neg h]; exact List.nodup_cons.mpr ⟨h, ih⟩

def mergeRef (one two : List Nat) : List Nat :=
  if one = [] ∧ two = [] then []
  else if one = [] then two
  else if two = [] then one
  else dedup (one ++ two)

theorem mergeRef_isMerge (one two : List Nat) : IsMerge one two (mergeRef one two) := by
  unfold IsMerge mergeRef
  by_cases c1 : one = [] ∧ two = []
  · rw [if_pos c1, if_pos c1]
  · rw [if_neg c1, if_neg c1]
    by_cases c2 : one = []
    · rw [if_pos c2, if_pos c2]
    · rw [if_neg c2, if_neg c2]
      by_cases c3 : two = []
      · rw [if_pos c3, if_pos c3]
      · rw [if_neg c3, if_neg c3]
        exact ⟨nodup_dedup _, fun x => by rw [mem_dedup, List.mem_append]⟩

/-- the size and content of a merged tag list inside a pool `A` of tags -/
theorem merge_bound (A one two r : List Nat) (h1 : ∀ x ∈ one, x ∈ A) (h2 : ∀ x ∈ two, x ∈ A)
    (hl1 : two = [] → one.length ≤ A.length) (hl2 : two.length ≤ A.length) (hm : IsMerge one two r) :
    r.length ≤ A.length ∧ ∀ x ∈ r, x ∈ A := by
  unfold IsMerge at hm
  by_cases c1 : one = [] ∧ two = []
  · rw [if_pos c1] at hm; subst hm; exact ⟨Nat.zero_le _, fun x hx => by cases hx⟩
  · rw [if_neg c1] at hm
    by_cases c2 : one = []
    · rw [if_pos c2] at hm; subst hm; exact ⟨hl2, h2⟩
    · rw [if_neg c2] at hm
      by_cases c3 : two = []
      · rw [if_pos c3] at hm; subst hm; exact ⟨hl1 c3, h1⟩
      · rw [if_neg c3] at hm
        have hsub : ∀ x ∈ r, x ∈ A := fun x hx => ((hm.2 x).mp hx).elim (h1 x) (h2 x)
        exact ⟨hm.1.length_le_of_subset hsub, hsub⟩

section
variable (mg : List Nat → List Nat → List Nat) (P F : Nat)

/-- `nextFrom` with the merge function as a parameter (`nextFrom = nextFromM mergeTags`) -/
def nextFromM (last : Nat) (i : Bytes) (n : Pkt) (q : List Pkt) : Option Pkt × St :=
  if (q = [] ∨ isRekey n) ∧ (verify n i).2 then
    (some (verify n i).1, { q := q, peek := none, last := 0 })
  else if last > 0 then
    if Flag.group (skipGroup last n q).1.flags = last then
      (some { id := 0, job := 0, flags := 0, tags := n.tags, dev := i, payload := [] },
       { q := (skipGroup last n q).2, peek := none, last := 0 })
    else
      ((nextPacket P F (skipGroup last n q).2 (some (skipGroup last n q).1) i n.tags).1.map
          fun o => { o with tags := mg o.tags n.tags },
       { q := (nextPacket P F (skipGroup last n q).2 (some (skipGroup last n q).1) i n.tags).2.2,
         peek := (nextPacket P F (skipGroup last n q).2 (some (skipGroup last n q).1) i n.tags).2.1,
         last := 0 })
  else
    ((nextPacket P F q (some n) i n.tags).1.map fun o => { o with tags := mg o.tags n.tags },
     { q := (nextPacket P F q (some n) i n.tags).2.2, peek := (nextPacket P F q (some n) i n.tags).2.1,
       last := last })

/-- `Session.next` over any merge function -/
def nextM (st : St) (i : Bytes) : Option Pkt × St :=
  match (pick st).1 with
  | none => (none, { st with peek := none })
  | some n => nextFromM mg P F st.last i n (pick st).2

end

theorem nextFromM_mergeTags (P F last : Nat) (i : Bytes) (n : Pkt) (q : List Pkt) :
    nextFromM mergeTags P F last i n q = nextFrom P F last i n q := rfl

theorem nextM_mergeTags (P F : Nat) (st : St) (i : Bytes) : nextM mergeTags P F st i = next P F st i := rfl

/-- the state after the call does not depend on the merge function -/
theorem nextFromM_state (mg : List Nat → List Nat → List Nat) (P F last : Nat) (i : Bytes) (n : Pkt)
    (q : List Pkt) : (nextFromM mg P F last i n q).2 = (nextFrom P F last i n q).2 := by
  unfold nextFromM nextFrom
  split
  · rfl
  · split
    · split <;> rfl
    · rfl

theorem nextM_state (mg : List Nat → List Nat → List Nat) (P F : Nat) (st : St) (i : Bytes) :
    (nextM mg P F st i).2 = (next P F st i).2 := by
  unfold nextM next
  cases (pick st).1 with
  | none => rfl
  | some n => exact nextFromM_state mg P F st.last i n _

theorem skipGroup_sublist (last : Nat) : ∀ (q : List Pkt) (n : Pkt),
    ((skipGroup last n q).1 :: (skipGroup last n q).2).Sublist (n :: q) := by
  intro q
  induction q with
  | nil => intro n; exact List.Sublist.refl _
  | cons h tl ih =>
    intro n
    unfold skipGroup
    split
    · exact List.Sublist.cons _ (ih h)
    · exact List.Sublist.refl _

/-- `Marshal` (com/packet.go writeHeader / writeBody) succeeds exactly when the tag list is within
`PacketMaxTags` and holds no zero tag -/
theorem marshalWrites_ok_iff (p : Pkt) :
    (∃ w, marshalWrites p = .ok w) ↔ (p.tags.length ≤ Facts.packetMaxTags ∧ ∀ t ∈ p.tags, t ≠ 0) := by
  unfold marshalWrites
  constructor
  · rintro ⟨w, hw⟩
    by_cases h1 : p.tags.length > Facts.packetMaxTags
    · rw [if_pos h1] at hw; cases hw
    · rw [if_neg h1] at hw
      by_cases h2 : p.tags.any (· = 0) = true
      · rw [if_pos h2] at hw; cases hw
      · refine ⟨by omega, fun t ht h0 => h2 ?_⟩
        exact List.any_eq_true.mpr ⟨t, ht, by simpa using h0⟩
  · rintro ⟨h1, h2⟩
    rw [if_neg (by omega)]
    have : ¬ (p.tags.any (· = 0) = true) := by
      intro h
      obtain ⟨t, ht, h0⟩ := List.any_eq_true.mp h
      exact h2 t ht (by simpa using h0)
    rw [if_neg this]
    exact ⟨_, rfl⟩

section
variable (mg : List Nat → List Nat → List Nat) (P F : Nat)

/-- **Every transmission marshals when the queued tag lists together fit**: for every merge
function, every budget, every abandoned-group state, every packet in hand `n` and queue `q` of
queueable packets whose tag lists together hold at most `PacketMaxTags` tags, the packet handed out
has at most `tagSum (n :: q)` tags, none of them zero, and what the session still holds is a sublist
of what it held (so the bound is inherited by every later transmission). -/
theorem nextFromM_marshals (hmg : ∀ a b, IsMerge a b (mg a b)) (hP : P < Facts.fragMax) (last : Nat)
    (i : Bytes) (n : Pkt) (q : List Pkt) (hq : ∀ a ∈ n :: q, QWF a) :
    (content (nextFromM mg P F last i n q).2).Sublist (n :: q) ∧
    ∀ o, (nextFromM mg P F last i n q).1 = some o →
      o.tags.length ≤ tagSum (n :: q) ∧ ∀ t ∈ o.tags, t ≠ 0 := by
  have hn : QWF n := hq n List.mem_cons_self
  have hnz := mem_tagsOf_qwf hq
  have hnt : ∀ x ∈ n.tags, x ∈ tagsOf (n :: q) := mem_tagsOf_of_mem List.mem_cons_self
  have hnl : n.tags.length ≤ tagSum (n :: q) := tags_length_le_of_mem List.mem_cons_self
  -- the batching branch, for any sublist `n' :: q'` of `n :: q`
  have batch : ∀ (n' : Pkt) (q' : List Pkt), (n' :: q').Sublist (n :: q) →
      (((nextPacket P F q' (some n') i n.tags).2.1.toList ++ (nextPacket P F q' (some n') i n.tags).2.2).Sublist (n :: q)) ∧
      ∀ o, (nextPacket P F q' (some n') i n.tags).1.map (fun o => { o with tags := mg o.tags n.tags }) = some o →
        o.tags.length ≤ tagSum (n :: q) ∧ ∀ t ∈ o.tags, t ≠ 0 := by
    intro n' q' hs
    have hq' : ∀ a ∈ (some n').toList ++ q', QWF a := fun a ha => hq a (hs.subset (by simpa using ha))
    obtain ⟨o1, taken, ho1, htags, hsub⟩ := nextPacket_tags P F hP i n.tags (some n') q' hq' (by simp)
    have hsub' : (taken ++ (nextPacket P F q' (some n') i n.tags).2.1.toList ++
        (nextPacket P F q' (some n') i n.tags).2.2).Sublist (n :: q) := hsub.trans (by simpa using hs)
    have htk : taken.Sublist (n :: q) := by
      rw [List.append_assoc] at hsub'
      exact (List.sublist_append_left _ _).trans hsub'
    refine ⟨?_, ?_⟩
    · rw [List.append_assoc] at hsub'
      exact (List.sublist_append_right _ _).trans hsub'
    · intro o ho
      rw [ho1] at ho
      simp only [Option.map_some, Option.some.injEq] at ho
      subst ho
      have htkm : ∀ x ∈ tagsOf taken, x ∈ tagsOf (n :: q) := (tagsOf_sublist htk).subset
      have h1 : ∀ x ∈ o1.tags, x ∈ tagsOf (n :: q) := by
        intro x hx
        rcases htags with h | h
        · rw [h] at hx; exact htkm x hx
        · rw [h] at hx
          rcases List.mem_append.mp hx with hx | hx
          · exact htkm x hx
          · exact hnt x hx
      have hl1 : n.tags = [] → o1.tags.length ≤ (tagsOf (n :: q)).length := by
        intro hz
        have : o1.tags = tagsOf taken := by
          rcases htags with h | h
          · exact h
          · rw [h, hz, List.append_nil]
        rw [this]; exact tagSum_sublist htk
      obtain ⟨hb, hm⟩ := merge_bound (tagsOf (n :: q)) o1.tags n.tags _ h1 hnt hl1 hnl (hmg o1.tags n.tags)
      exact ⟨hb, fun t ht => hnz t (hm t ht)⟩
  unfold nextFromM
  by_cases halone : (q = [] ∨ isRekey n = true) ∧ (verify n i).2 = true
  · rw [if_pos halone]
    refine ⟨?_, ?_⟩
    · show ((none : Option Pkt).toList ++ q).Sublist (n :: q)
      exact List.Sublist.cons _ (List.Sublist.refl _)
    · intro o ho
      simp only [Option.some.injEq] at ho
      rw [qwf_verify n hn i] at ho
      subst ho
      exact ⟨hnl, fun t ht => hnz t (hnt t ht)⟩
  · rw [if_neg halone]
    by_cases hl : last > 0
    · rw [if_pos hl]
      have hsk := skipGroup_sublist last q n
      by_cases hg : Flag.group (skipGroup last n q).1.flags = last
      · rw [if_pos hg]
        refine ⟨?_, ?_⟩
        · show ((none : Option Pkt).toList ++ (skipGroup last n q).2).Sublist (n :: q)
          exact (List.Sublist.cons _ (List.Sublist.refl _)).trans hsk
        · intro o ho
          simp only [Option.some.injEq] at ho
          subst ho
          exact ⟨hnl, fun t ht => hnz t (hnt t ht)⟩
      · rw [if_neg hg]
        exact batch _ _ hsk
    · rw [if_neg hl]
      exact batch n q (List.Sublist.refl _)

/-- `Session.next`, one call, for every merge function: what goes out marshals when the tag lists of
everything the session holds fit `PacketMaxTags` together; the session afterwards holds a sublist of
what it held. -/
theorem nextM_marshals (hmg : ∀ a b, IsMerge a b (mg a b)) (hP : P < Facts.fragMax) (i : Bytes) (st : St)
    (hq : ∀ a ∈ content st, QWF a) :
    (content (nextM mg P F st i).2).Sublist (content st) ∧
    ∀ o, (nextM mg P F st i).1 = some o → o.tags.length ≤ tagSum (content st) ∧ ∀ t ∈ o.tags, t ≠ 0 := by
  have hpc := pick_content st
  unfold nextM
  cases hpk : (pick st).1 with
  | none =>
    rw [hpk] at hpc
    simp only
    refine ⟨?_, fun o ho => by simp at ho⟩
    show ((none : Option Pkt).toList ++ st.q).Sublist (st.peek.toList ++ st.q)
    exact List.Sublist.append (by simp) (List.Sublist.refl _)
  | some n =>
    rw [hpk] at hpc
    simp only [Option.toList] at hpc
    simp only
    rw [← hpc] at hq ⊢
    exact nextFromM_marshals mg P F hmg hP st.last i n (pick st).2 (by simpa using hq)

/-- successive transmissions, any merge function -/
def drainM (i : Bytes) : Nat → St → List Pkt
  | 0, _ => []
  | fuel + 1, st =>
    match (nextM mg P F st i).1 with
    | none => []
    | some o => o :: drainM i fuel (nextM mg P F st i).2

theorem drainM_marshals (hmg : ∀ a b, IsMerge a b (mg a b)) (hP : P < Facts.fragMax) (i : Bytes) :
    ∀ (fuel : Nat) (st : St), (∀ a ∈ content st, QWF a) →
      ∀ o ∈ drainM mg P F i fuel st, o.tags.length ≤ tagSum (content st) ∧ ∀ t ∈ o.tags, t ≠ 0 := by
  intro fuel
  induction fuel with
  | zero => intro st _ o ho; simp [drainM] at ho
  | succ fuel ih =>
    intro st hq o ho
    obtain ⟨hs, hm⟩ := nextM_marshals mg P F hmg hP i st hq
    unfold drainM at ho
    cases h1 : (nextM mg P F st i).1 with
    | none => rw [h1] at ho; simp at ho
    | some o1 =>
      rw [h1] at ho
      simp only at ho
      rcases List.mem_cons.mp ho with rfl | ho
      · exact hm _ h1
      · have := ih (nextM mg P F st i).2 (fun a ha => hq a (hs.subset ha)) o ho
        exact ⟨Nat.le_trans this.1 (tagSum_sublist hs), this.2⟩

end

end XMT.Batch
