/-
  XMT.BatchTagsWitness — the queue whose batch `Marshal` refuses (see XMT/BatchTags.lean):
  three well-formed packets of the session's own device, the first without tags, the other two with
  16385 tags each. One `Session.next` call packs all three; the batch carries 32770 > PacketMaxTags
  tags. Payloads are empty and the ID is a data ID (so none is a keep-alive).
-/
import XMT.BatchTags
namespace XMT.Batch
open XMT XMT.Packet XMT.Codec XMT.Flag

def witnessDev : Bytes := 3 :: List.replicate 31 0
def wTags : List Nat := List.replicate 16385 7
def wPkt (j : Nat) (ts : List Nat) : Pkt :=
  { id := 0x20, job := j, flags := 0, tags := ts, dev := witnessDev, payload := [] }
def witnessSt : St := { q := [wPkt 5 [], wPkt 6 wTags, wPkt 7 wTags], peek := none, last := 0 }

theorem wPkt_qwf (j : Nat) (hj : j < 2^16) (ts : List Nat) (hl : ts.length ≤ Facts.packetMaxTags)
    (ht : ∀ t ∈ ts, 0 < t ∧ t < 2^32) : QWF (wPkt j ts) :=
  ⟨⟨hj, (by decide : (0 : Nat) < 2^64), hl, ht, (by decide : witnessDev.length = Facts.idSize),
    (by decide : witnessDev.head? ≠ some 0), (by decide : ([] : Bytes).length ≤ Facts.maxSlice)⟩,
   (by decide : hasFlag 0 Facts.flagMulti = false), (by decide : hasFlag 0 Facts.flagMultiDevice = false)⟩

theorem wTags_ok : wTags.length ≤ Facts.packetMaxTags ∧ ∀ t ∈ wTags, 0 < t ∧ t < 2^32 := by
  refine ⟨?_, ?_⟩
  · unfold wTags; rw [List.length_replicate]; decide
  · intro t ht
    have : t = 7 := List.eq_of_mem_replicate ht
    subst this; decide

theorem witness_qwf : ∀ a ∈ content witnessSt, QWF a := by
  intro a ha
  have : a = wPkt 5 [] ∨ a = wPkt 6 wTags ∨ a = wPkt 7 wTags := by
    simpa [content, witnessSt] using ha
  rcases this with rfl | rfl | rfl
  · exact wPkt_qwf 5 (by decide) [] (by decide) (by intro t ht; cases ht)
  · exact wPkt_qwf 6 (by decide) wTags wTags_ok.1 wTags_ok.2
  · exact wPkt_qwf 7 (by decide) wTags wTags_ok.1 wTags_ok.2

theorem witness_tags :
    (next 256 33554432 witnessSt witnessDev).1.map (·.tags) = some (wTags ++ wTags) := by rfl

theorem witness_rest : content (next 256 33554432 witnessSt witnessDev).2 = [] := by rfl

theorem witness_overflow :
    ∃ o, (next 256 33554432 witnessSt witnessDev).1 = some o ∧
      o.tags.length = 32770 ∧ marshalWrites o = .error .tooManyTags ∧
      content (next 256 33554432 witnessSt witnessDev).2 = [] := by
  have ht := witness_tags
  cases h : (next 256 33554432 witnessSt witnessDev).1 with
  | none => rw [h] at ht; simp at ht
  | some o =>
    rw [h] at ht
    have hto : o.tags = wTags ++ wTags := by simpa using ht
    have hl : o.tags.length = 32770 := by
      rw [hto, List.length_append]; unfold wTags; rw [List.length_replicate]
    refine ⟨o, rfl, hl, ?_, witness_rest⟩
    unfold marshalWrites
    rw [if_pos (by rw [hl]; decide)]

end XMT.Batch
