/-
  XMT.Cbk — executable model of the CBK block cipher (data/crypto/cbk.go) as used by the CBK
  wrapper (c2/wrapper/crypto.go: `crypto.NewCBKSource(a,b,c,d,size)`, `Source == nil`).

  Go's `byte`/`uint16` arithmetic is written with Lean's wrapping `UInt8`/`UInt16` operators in the
  same shape as the source.  A run-time panic (index out of range, integer divide by zero) is the
  value `none`.  Core-only.
-/
import XMT.Base
import XMT.Codec
import XMT.Wrap
namespace XMT.Cbk
open XMT

/-- `Facts.cbkSize` is checked against this by `decide` in the Props file. -/
def size : Nat := 128

structure Key where
  a : UInt8
  b : UInt8
  c : UInt8
  d : UInt8
  deriving DecidableEq, Repr

abbrev u16 (x : UInt8) : UInt16 := x.toUInt16
abbrev u8 (x : UInt16) : UInt8 := x.toUInt8

/-- `(*CBK).adjust` with `Source == nil`. -/
def adjust (k : Key) (i : UInt16) : UInt16 :=
  let n := ((u16 k.a ^^^ u16 k.b) - u16 k.c) * (i + 1)
  if n > 1 then n else 1

/-- Go's `/` on `uint16`: a zero divisor is a run-time panic. -/
def cdiv (x y : UInt16) : Option UInt16 := if y = 0 then none else some (x / y)

/-- `div` helper of cbk.go (the repaired divisions): `a / b`, or `a` when `b == 0`. -/
def div16 (x y : UInt16) : UInt16 := if y = 0 then x else x / y

/-- `(*CBK).blockIndex`. Divisions by a constant are plain `/`; by a key-dependent value they are
`cdiv` (panic on zero) or — at the four repaired sites — `div16`. -/
def blockIndex (k : Key) (a : Bool) (t i : UInt16) : Option UInt8 :=
  let A := k.a; let B := k.b; let C := k.c; let D := k.d
  match (t % 8).toNat, a with
  | 0, true => some (u8 ((((t+1)*(1+i+u16 A*t) + t + 5) / 3) + 4 + (5*t) + (i/5)))
  | 1, true => some (u8 ((t/5) + i + ((i+1)*7) + ((1+t)*3) + (i/2) + t))
  | 2, true => some (u8 ((((3+t+u16 (B+C))/4+1)+i)/2 + (3*t) + (t/5) + i + 3))
  | 3, true => some (u8 (((t/2)*3) + 7 + ((t+i)*3) - 2 + ((t*(i+5+u16 D))*3)))
  | 4, true => some (u8 ((((i*6)+2)/5)*3 + ((4*i)/5) + 3 + (t/4)))
  | 5, true => do
    let q ← cdiv i (t+1)
    some (u8 ((((t*3)/5)+(5+i))*3 + (t*(2 - u16 (A*D))) + q + (6+t)))
  | 6, true => do
    let q1 ← cdiv ((((i+5)/3)*7) + 3 + u16 B) (t+1)
    let q2 ← cdiv t (i+1)
    some (u8 (q1 + 3 + q2*3))
  | 7, true => do
    let q ← cdiv t (i+1)
    some (u8 (((((q*2) + 5)/4) + 10) + (3*t) + ((i/2) + (t*3)) + 4))
  | 0, false => do
    let q ← cdiv (div16 3 (2+i) + 3) (t+1)
    some (u8 ((q*9) + 6 - u16 (A*C) + i))
  | 1, false => some (u8 (((((4*i)/3 + (t*2))/3) + 8)/3))
  | 2, false => do
    let q1 ← cdiv (i+3) (5+t)
    let q ← cdiv (((9+i+u16 (A*D))/4) + (t/2) + (2*i+1+u16 D)) (q1 + 6)
    some (u8 q)
  | 3, false => some (u8 (((((4+(t-5)/2)/6)+3)*2)*((5+i)/3) + 4))
  | 4, false => do
    let q ← cdiv (5+i) (3+t)
    some (u8 ((((((div16 (t/3) (3+i)) + u16 C)/9)*2) + 8) + q))
  | 5, false =>
    some (u8 (((i*4) + (t/3) - u16 (A*u8 (1+t)) + (div16 6 (1+i))) + (div16 6 (3+t)) + (i*3)))
  | 6, false => some (u8 ((((((t*9)/6)+(i*3)/9)*5 + i) - u16 (D*u8 i)) + (t+2)/4))
  | 7, false => some (u8 ((((((i/3)*7)+3-u16 B)*5 + t)*(t+3)/7) + u16 (D*B)))
  | _, _ => some 0

/-- The three key/index constants of `scramble`. -/
def xyz (k : Key) (index : UInt8) : UInt16 × UInt16 × UInt16 :=
  let x := adjust k (u16 (k.a*k.b) + u16 k.d)
  let y := adjust k (u16 ((k.c-k.d)*k.a) + x + adjust k (u16 index))
  let z := adjust k (u16 (u8 (x*y) + k.b - k.d*index))
  (x, y, z)

/-- `g`,`h` of round `i` (0..5) in `scramble`. -/
def gh (k : Key) (index : UInt8) (i : Nat) : Option (UInt8 × UInt8) := do
  let (x, y, z) := xyz k index
  let i16 := UInt16.ofNat i
  let bg ← blockIndex k true (u16 (k.d*k.a) + i16 + x) (u16 k.d + u16 index)
  let bh ← blockIndex k false (y + u16 k.d + u16 (index * UInt8.ofNat (i+1)))
              (u16 k.d + x + u16 (u8 (i16*z) * k.a))
  some ((u8 (z*y) + bg) % 8, (u8 y - bh) % 8)

/-- `(b[g]&0xF)<<4 | (b[h]&0xF)` — the new `b[h]`. -/
def nibA (bg bh : UInt8) : UInt8 := ((bg &&& 0xF) <<< 4) ||| (bh &&& 0xF)
/-- `(b[g]>>4)<<4 | ((b[h]>>4)&0xF)` — the new `b[g]`. -/
def nibB (bg bh : UInt8) : UInt8 := ((bg >>> 4) <<< 4) ||| ((bh >>> 4) &&& 0xF)

/-- `b[h], b[g] = (b[g]&0xF)<<4|(b[h]&0xF), (b[g]>>4)<<4|((b[h]>>4)&0xF)` -/
def nibStep (h g : Nat) (b : Bytes) : Option Bytes :=
  match b[g]?, b[h]? with
  | some x, some y => some ((b.set h (nibA x y)).set g (nibB x y))
  | _, _ => none

/-- The three `copy` calls: exchange the byte pairs at `2g` and `2h`. -/
def pairSwap (g h : Nat) (b : Bytes) : Option Bytes :=
  match b[2*g]?, b[2*g+1]?, b[2*h]?, b[2*h+1]? with
  | some g0, some g1, some h0, some h1 =>
    some ((((b.set (2*g) h0).set (2*g+1) h1).set (2*h) g0).set (2*h+1) g1)
  | _, _, _, _ => none

def encRound (g h : Nat) (b : Bytes) : Option Bytes :=
  if g = h then some b else do
    let b ← nibStep h g b
    let b ← nibStep (h+1) (g+1) b
    pairSwap g h b

def decRound (g h : Nat) (b : Bytes) : Option Bytes :=
  if g = h then some b else do
    let b ← pairSwap g h b
    let b ← nibStep h g b
    nibStep (h+1) (g+1) b

/-- `scramble(b, false)` = rounds 0,1,…,5 ; `scramble(b, true)` = rounds 5,4,…,0. -/
def scrambleRounds (k : Key) (index : UInt8) (dec : Bool) (b : Bytes) : List Nat → Option Bytes
  | [] => some b
  | i :: is => do
    let (g, h) ← gh k index i
    let b ← if dec then decRound g.toNat h.toNat b else encRound g.toNat h.toNat b
    scrambleRounds k index dec b is

def scramble (k : Key) (index : UInt8) (dec : Bool) (b : Bytes) : Option Bytes :=
  scrambleRounds k index dec b (if dec then [5,4,3,2,1,0] else [0,1,2,3,4,5])

/-- The constant `Shuffle` adds to position `i` (besides the extra `b[0] += A`). -/
def shuffleK (k : Key) (i : UInt8) : UInt8 :=
  if i % k.a = 0 then k.a - i
  else if k.c % i = 0 then k.b - k.d
  else if i = k.d then 0 - (k.a + i)
  else if i % 2 = 0 then k.b / 3 else k.c / 5

/-- `(*CBK).Shuffle`: `b[0] += A` when `len(b) > 1`, then position `i` gets its constant added
(`b[i] -= A+i` is the addition of `-(A+i)`). -/
def shuffle (k : Key) (b : Bytes) : Bytes :=
  let b := if b.length > 1 then b.modifyHead (· + k.a) else b
  b.mapIdx fun i v => v + shuffleK k (UInt8.ofNat i)

/-- `(*CBK).Deshuffle`. -/
def deshuffle (k : Key) (b : Bytes) : Bytes :=
  let b := if b.length > 1 then b.modifyHead (· - k.a) else b
  b.mapIdx fun i v => v - shuffleK k (UInt8.ofNat i)

/-- `(*CBK).cipherTable`, entries 0..15 (the only ones indexed, by `i&0xF`). `len(*b)-1 = size`. -/
def cipherTable (k : Key) (index : UInt8) (i : UInt8) : UInt8 :=
  let A := k.a; let B := k.b; let C := k.c; let D := k.d
  let sz : UInt16 := UInt16.ofNat size
  if i = 0 then u8 (u16 (index+1) * u16 (D+1) + adjust k (u16 D))
  else if i ≤ 6 then
    if i % 2 = 0 then u8 (u16 index - u16 A + u16 (B-(i-C)) + u16 i - adjust k (u16 A))
    else u8 (u16 index - u16 A + u16 (B-(i-3)) + u16 i - adjust k (u16 A))
  else if i ≤ 11 then u8 (u16 C - u16 B + u16 ((index+1)*i) + adjust k (u16 C))
  else u8 (adjust k (u16 (B+C)) + u16 D - sz - u16 D + u16 (A-C))

/-- The substitution of `flushOutput`: the table built there is `c[x][z] = t[x] + z`, applied as
`buf[i] = c[i&0xF][buf[i]]`. -/
def subst (k : Key) (index : UInt8) (b : Bytes) : Bytes :=
  b.mapIdx fun i v => cipherTable k index (UInt8.ofNat i &&& 0xF) + v

/-- The inverse table of `readInput`: `c[x][t[x]+z] = z`, i.e. `v ↦ v - t[x]`. -/
def unsubst (k : Key) (index : UInt8) (b : Bytes) : Bytes :=
  b.mapIdx fun i v => v - cipherTable k index (UInt8.ofNat i &&& 0xF)

/-- `if e.index++; e.index > 30 { e.index = 0 }` -/
def bump (index : UInt8) : UInt8 := if index + 1 > 30 then 0 else index + 1

/-- Block transform of `flushOutput` after the count byte is stored. -/
def encBlock (k : Key) (index : UInt8) (b : Bytes) : Option Bytes := do
  let b ← scramble k index false (subst k index b)
  some (shuffle k b)

/-- Block transform of `readInput`. -/
def decBlock (k : Key) (index : UInt8) (b : Bytes) : Option Bytes := do
  let b ← scramble k index true (deshuffle k b)
  some (unsubst k index b)

/-! ### Stream state machines -/

structure St where
  key : Key
  buf : Bytes
  pos : Int
  total : Int
  index : UInt8
  deriving Repr

/-- `crypto.NewCBKSource(a, b, c, d, sz)`; `none` = the "block size" error. -/
def newSource (a b c d sz : UInt8) : Option St :=
  let n : Option Nat :=
    if sz = 0 then some size
    else if sz = 16 ∨ sz = 32 ∨ sz = 64 ∨ sz = 128 then some sz.toNat else none
  n.map fun n => { key := ⟨if a = 0 then 1 else a, b, c, d⟩, buf := List.replicate (n+1) 0,
                   pos := 0, total := -1, index := 0 }

/-- `flushOutput`: new state and the `Write` calls made on the underlying writer. -/
def flushOutput (s : St) : Option (St × List Bytes) :=
  if s.pos = 0 then some (s, [])
  else
    let index := bump s.index
    if s.total < 0 ∨ s.total ≥ s.buf.length then none   -- e.buf[e.total] out of range
    else do
      let b := s.buf.set s.total.toNat (byteOf s.pos.toNat)
      let b ← encBlock s.key index b
      some ({ s with buf := b, index := index, pos := 0 }, [b])

/-- The `for n < len(b)` loop of `Write`; `fuel` bounds the iterations (a non-progressing
iteration — a hang in Go — is `none`). -/
def writeLoop : Nat → St → Bytes → List Bytes → Option (St × List Bytes)
  | 0, _, _, _ => none
  | fuel+1, s, rest, out =>
    if rest.isEmpty then some (s, out) else do
      let (s, o) ← if s.pos ≥ s.total then flushOutput s else some (s, [])
      if s.pos < 0 ∨ s.pos > s.total ∨ s.total > s.buf.length then none   -- e.buf[e.pos:e.total]
      else
        let i := min (s.total - s.pos).toNat rest.length
        let buf := s.buf.take s.pos.toNat ++ rest.take i ++ s.buf.drop (s.pos.toNat + i)
        writeLoop fuel { s with buf := buf, pos := s.pos + i } (rest.drop i) (out ++ o)

/-- `(*CBK).Write(w, b)`. -/
def write (s : St) (b : Bytes) : Option (St × List Bytes) := do
  let s := if s.total = -1 then { s with total := (s.buf.length : Int) - 1 } else s
  let (s, out) ← writeLoop (b.length + 1) s b []
  if s.pos < s.total then some (s, out)
  else do
    let (s, o) ← flushOutput s
    some (s, out ++ o)

/-- Wrapper writer: `Write` for every chunk, then `Close` (= `Flush`). Returns the `Write` calls
made on the underlying writer. -/
def writeAll (s : St) : List Bytes → Option (List Bytes)
  | [] => (flushOutput s).map (·.2)
  | c :: cs => do
    let (s, o) ← write s c
    let r ← writeAll s cs
    some (o ++ r)

inductive RErr | eof | unexpectedEOF | shortBuffer
  deriving DecidableEq, Repr

/-- `readInput`: `(state, rest of the stream, n, err)`. -/
def readInput (s : St) (r : Codec.Stream) : Option (St × Codec.Stream × Nat × Option RErr) :=
  let (got, r) := Codec.readFull s.buf.length r
  let n := got.length
  if n = 0 then some ({ s with total := 0 }, r, 0, some .eof)
  else if n ≠ s.buf.length then
    some ({ s with buf := got ++ s.buf.drop n }, r, 0, some .unexpectedEOF)
  else do
    let index := bump s.index
    let b ← decBlock s.key index got
    let last ← b[b.length - 1]?
    let s := { s with buf := b, index := index, total := last.toNat, pos := 0 }
    if s.total = 0 then some (s, r, 0, some .eof)
    else if s.total > (s.buf.length : Int) - 1 then some (s, r, n, some .shortBuffer)
    else some (s, r, n, none)

/-- The copy loop of `Read` (`n` bytes already delivered in `acc`, `k = len(b)`). -/
def readLoop : Nat → St → Codec.Stream → Nat → Bytes → Option (St × Codec.Stream × Bytes × Option RErr)
  | 0, _, _, _, _ => none
  | fuel+1, s, r, k, acc =>
    if acc.length < k ∧ s.pos < s.total ∧ s.total < s.buf.length then
      if s.total ≤ 0 then some (s, r, acc, some .eof)
      else if s.pos < 0 then none
      else
        let i := min (k - acc.length) (s.total - s.pos).toNat
        let acc' := acc ++ (s.buf.drop s.pos.toNat).take i
        let s := { s with pos := s.pos + i }
        if s.pos ≥ s.total ∧ s.total ≥ (s.buf.length : Int) - 1 then do
          let (s, r, _, e) ← readInput s r
          -- `return n, err` happens before the post statement `n += i`
          if e.isSome ∧ e ≠ some .eof then some (s, r, acc, e)
          else readLoop fuel s r k acc'
        else readLoop fuel s r k acc'
    else if s.total > s.buf.length then some (s, r, acc, some .eof)
    else some (s, r, acc, none)

/-- `(*CBK).Read(r, b)` with `len(b) = k`: state, rest of the stream, bytes delivered, error. -/
def read (s : St) (r : Codec.Stream) (k : Nat) : Option (St × Codec.Stream × Bytes × Option RErr) :=
  if s.total - s.pos > k then
    if s.pos + k > s.buf.length then some (s, r, [], some .shortBuffer)
    else if s.pos < 0 then none
    else some ({ s with pos := s.pos + k }, r, (s.buf.drop s.pos.toNat).take k, none)
  else do
    let (s, r, stop) ←
      if s.pos ≥ s.total then do
        let (s, r, o, e) ← readInput s r
        if e.isSome ∧ (e ≠ some .eof ∨ o = 0) then some (s, r, e) else some (s, r, none)
      else some (s, r, none)
    match stop with
    | some e => some (s, r, [], some e)
    | none => readLoop (k + 1) s r k []

/-- A consumer issuing `Read`s with the given buffer sizes until an error (EOF) or the requests
run out: the delivered pieces and the terminating error, if any. -/
def readSeq (s : St) (r : Codec.Stream) : List Nat → Option (List Bytes × Option RErr)
  | [] => some ([], none)
  | k :: ks => do
    let (s, r, got, e) ← read s r k
    match e with
    | some e => some ([got], some e)
    | none => do
      let (rest, e) ← readSeq s r ks
      some (got :: rest, e)

/-- `io.ReadAll`-style consumer (512-byte reads until an error; EOF is success). -/
def readAll : Nat → St → Codec.Stream → Option (Bytes × Option RErr)
  | 0, _, _ => none
  | fuel+1, s, r => do
    let (s, r, got, e) ← read s r 512
    match e with
    | some .eof => some (got, none)
    | some e => some (got, some e)
    | none => do
      let (rest, e) ← readAll fuel s r
      some (got ++ rest, e)

/-- The CBK wrapper (`wrapper.CBK.Wrap/Unwrap`) as a layer of the stack model; state `none` = the
writer panicked. `crypto.writer.Close` flushes and closes the writer below. -/
def cbkLayer (s0 : St) : Wrap.Layer where
  σ := Option St
  init := some s0
  write := fun s b =>
    match s.bind (write · b) with
    | none => (none, [])
    | some r => (some r.1, r.2)
  close := fun s =>
    match s.bind flushOutput with
    | none => (none, [])
    | some r => (some r.1, r.2)
  closesUnder := true
  dec := fun wire =>
    match readAll (wire.length + 2) s0 [wire] with
    | some (b, none) => some b
    | _ => none

end XMT.Cbk
