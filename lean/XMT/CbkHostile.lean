/-
  XMT.CbkHostile — the CBK stream reader (`(*CBK).Read` of data/crypto/cbk.go, model XMT/Cbk.lean) on
  ARBITRARY wire bytes: no panic, output bounded by the bytes consumed, termination; and the
  Base64-shift transform reader (`Wrap.b64Read`).  Core-only; no definition of XMT/Cbk.lean or
  XMT/Wrap.lean is changed.

  Invariant (`HInv n s`): `len(buf) = n+1` and `0 ≤ pos` — nothing about `total`, which is the
  attacker's count byte.  `newSource` establishes it (`init_hostile`), every `Read` preserves it
  whatever the outcome (`read_hostile`).

  Main statements: `decBlock_total`, `readInput_cases`, `readLoop_hostile`, `read_hostile`,
  `readSeq_hostile`/`readSeq_tight`, `readAll_total`/`readAll_bound`/`readAll_tight`/
  `readAll_fuel_indep`, and for the state `NewCBKSource` returns: `cbk_readSeq_hostile`,
  `cbk_readSeq_no_panic`, `cbk_readAll_hostile_partial`, `cbkLayer_dec_no_panic`.

  The only statement that is false as first written is `∀ fuel, readAll fuel s0 cs ≠ none`
  (`readAll 0 _ _ = none` by definition — fuel, not a panic); the `_partial` theorem shows `none` is
  fuel exhaustion only and cannot happen with fuel above the number of wire bytes.
-/
import XMT.CbkStream
namespace XMT.Cbk
open XMT

/-! ### The block transform of `readInput` is total on every block of at least 16 bytes -/

theorem decRound_total {g h : Nat} {b : Bytes} (hg : g < 8) (hh : h < 8) (hl : 16 ≤ b.length) :
    ∃ b', decRound g h b = some b' ∧ b'.length = b.length := by
  unfold decRound
  by_cases e : g = h
  · simp [e]
  · simp only [e, if_false]
    obtain ⟨b1, e1⟩ : ∃ b1, pairSwap g h b = some b1 := ⟨_, pairSwap_eq (by omega) (by omega)⟩
    have l1 := pairSwap_length e1
    obtain ⟨b2, e2⟩ : ∃ b2, nibStep h g b1 = some b2 := ⟨_, nibStep_eq (by omega) (by omega)⟩
    have l2 := nibStep_length e2
    obtain ⟨b3, e3⟩ : ∃ b3, nibStep (h+1) (g+1) b2 = some b3 := ⟨_, nibStep_eq (by omega) (by omega)⟩
    have l3 := nibStep_length e3
    exact ⟨b3, by simp [e1, e2, e3], by omega⟩

theorem scrambleRounds_dec_total (k : Key) (index : UInt8) (is : List Nat) (b : Bytes)
    (hl : 16 ≤ b.length) :
    ∃ b', scrambleRounds k index true b is = some b' ∧ b'.length = b.length := by
  induction is generalizing b with
  | nil => exact ⟨b, rfl, rfl⟩
  | cons i is ih =>
    obtain ⟨g, h, e, hg, hh⟩ := gh_some k index i
    obtain ⟨b1, e1, l1⟩ := decRound_total (g := g.toNat) (h := h.toNat) (b := b) hg hh hl
    obtain ⟨b2, e2, l2⟩ := ih b1 (by omega)
    exact ⟨b2, by simp [scrambleRounds, e, e1, e2], by omega⟩

theorem unsubst_length (k : Key) (index : UInt8) (b : Bytes) : (unsubst k index b).length = b.length := by
  simp [unsubst]

/-- **`decBlock` never fails** on a block of at least 16 bytes, whatever the bytes, and keeps the
length. -/
theorem decBlock_total (k : Key) (index : UInt8) (b : Bytes) (hl : 16 ≤ b.length) :
    ∃ c, decBlock k index b = some c ∧ c.length = b.length := by
  obtain ⟨s, e, l⟩ := scrambleRounds_dec_total k index [5,4,3,2,1,0] (deshuffle k b)
    (by rw [deshuffle_length]; exact hl)
  refine ⟨unsubst k index s, by simp [decBlock, scramble, e], ?_⟩
  rw [unsubst_length, l, deshuffle_length]

/-! ### The reader invariant on hostile input -/

/-- The only facts `Read` needs in order not to panic: the buffer has the size `newSource` gave it
(block size + count byte, block size ≥ 16) and the read position is not negative.  Nothing is
assumed about `total` (it is the attacker's count byte). -/
structure HInv (n : Nat) (s : St) : Prop where
  len : s.buf.length = n + 1
  pos : 0 ≤ s.pos

/-- Bytes of the current buffer a `Read` can still hand out: `buf[pos : min total len]`. -/
def avail (s : St) : Nat := (min s.total (s.buf.length : Int) - s.pos).toNat

/-- Payload bytes of the current block still to hand out when the count is honest: `buf[pos :
min total n]` — the count byte `buf[n]` itself is never payload. Equal to `avail` when `total ≤ n`. -/
def availT (n : Nat) (s : St) : Nat := (min s.total (n : Int) - s.pos).toNat

/-- Payload capacity of the wire still unread: `n` bytes for every whole block of `n+1` bytes. -/
def cap (n : Nat) (r : Codec.Stream) : Nat := n * (r.flatten.length / (n + 1))

theorem cap_block {n : Nat} {r r' : Codec.Stream} (h : r'.flatten.length + (n + 1) = r.flatten.length) :
    cap n r = cap n r' + n := by
  simp only [cap]
  rw [← h, Nat.add_div_right _ (by omega : 0 < n + 1), Nat.mul_succ]

theorem cap_nil {n : Nat} {r : Codec.Stream} (h : r.flatten = []) : cap n r = 0 := by
  simp [cap, h]

theorem cap_le (n : Nat) (r : Codec.Stream) : cap n r ≤ r.flatten.length := by
  simp only [cap]
  calc n * (r.flatten.length / (n + 1)) ≤ (n + 1) * (r.flatten.length / (n + 1)) :=
        Nat.mul_le_mul_right _ (Nat.le_succ n)
    _ ≤ r.flatten.length := Nat.mul_div_le _ _

/-- The three outcomes of `readInput` on arbitrary input: nothing left (EOF), a truncated block
(`ErrUnexpectedEOF`), or a whole block of `n+1` bytes whose decrypted count byte `c` is anything in
`0..255` (`c = 0`: EOF, `c > n`: `ErrShortBuffer`, else success). -/
inductive RICase (n : Nat) (s : St) (r : Codec.Stream) : St × Codec.Stream × Nat × Option RErr → Prop
  | eof (r' : Codec.Stream) : r.flatten = [] → r'.flatten = [] →
      RICase n s r ({ s with total := 0 }, r', 0, some .eof)
  | short (b : Bytes) (r' : Codec.Stream) : b.length = n + 1 → r'.flatten = [] →
      0 < r.flatten.length → r.flatten.length < n + 1 →
      RICase n s r ({ s with buf := b }, r', 0, some .unexpectedEOF)
  | block (b : Bytes) (r' : Codec.Stream) (c : Nat) : b.length = n + 1 →
      r'.flatten.length + (n + 1) = r.flatten.length → c < 256 →
      RICase n s r ({ s with buf := b, index := bump s.index, total := (c : Int), pos := 0 }, r',
        if c = 0 then 0 else n + 1,
        if c = 0 then some .eof else if c > n then some .shortBuffer else none)

/-- **`readInput` never panics**, whatever the stream holds, and has one of the three outcomes. -/
theorem readInput_cases {n : Nat} (hn : 16 ≤ n) {s : St} (r : Codec.Stream) (hl : s.buf.length = n + 1) :
    ∃ res, readInput s r = some res ∧ RICase n s r res := by
  unfold readInput
  have h1 := Codec.readFull_fst s.buf.length r
  have h2 := Codec.readFull_snd s.buf.length r
  generalize Codec.readFull s.buf.length r = q at h1 h2
  obtain ⟨got, r'⟩ := q
  simp only [hl] at h1 h2 ⊢
  have hgl : got.length = min (n + 1) r.flatten.length := by rw [h1, List.length_take]
  have hrl : r'.flatten.length = r.flatten.length - (n + 1) := by rw [h2, List.length_drop]
  by_cases h0 : got.length = 0
  · rw [if_pos h0]
    refine ⟨_, rfl, RICase.eof r' ?_ ?_⟩
    · apply List.eq_nil_of_length_eq_zero; omega
    · apply List.eq_nil_of_length_eq_zero; omega
  · rw [if_neg h0]
    by_cases h3 : got.length ≠ n + 1
    · rw [if_pos h3]
      refine ⟨_, rfl, RICase.short _ r' ?_ ?_ (by omega) (by omega)⟩
      · simp only [List.length_append, List.length_drop, hl]; omega
      · apply List.eq_nil_of_length_eq_zero; omega
    · rw [if_neg h3]
      have h3' : got.length = n + 1 := by omega
      obtain ⟨b, eb, lb⟩ := decBlock_total s.key (bump s.index) got (by omega)
      have hlast : b[b.length - 1]? = some (b[b.length - 1]'(by omega)) :=
        List.getElem?_eq_getElem (by omega)
      generalize b[b.length - 1]'(by omega) = last at hlast
      simp only [eb, hlast, Option.bind_eq_bind, Option.bind_some]
      have hc := UInt8.toNat_lt last
      have hb : b.length = n + 1 := by omega
      by_cases c0 : last.toNat = 0
      · rw [if_pos (by omega)]
        refine ⟨_, rfl, ?_⟩
        have := RICase.block (s := s) (r := r) b r' last.toNat hb (by omega) hc
        simpa [c0] using this
      · rw [if_neg (by omega)]
        by_cases c1 : last.toNat > n
        · rw [if_pos (by simp only [hb]; omega)]
          refine ⟨_, rfl, ?_⟩
          have := RICase.block (s := s) (r := r) b r' last.toNat hb (by omega) hc
          simpa [c0, c1, h3'] using this
        · rw [if_neg (by simp only [hb]; omega)]
          refine ⟨_, rfl, ?_⟩
          have := RICase.block (s := s) (r := r) b r' last.toNat hb (by omega) hc
          simpa [c0, c1, h3'] using this

/-- `readInput` in the form the loops use it: total, keeps the invariant, never makes more bytes
available than it took from the wire; success means a count in `1..n`. -/
theorem readInput_hostile {n : Nat} (hn : 16 ≤ n) {s : St} (r : Codec.Stream) (h : HInv n s) :
    ∃ s' r' o e, readInput s r = some (s', r', o, e) ∧ HInv n s' ∧ s'.key = s.key ∧
      avail s' + r'.flatten.length ≤ avail s + r.flatten.length ∧
      (e = none → 0 < s'.total ∧ s'.total ≤ n ∧ s'.pos = 0) ∧
      (e = some .eof → o = 0) ∧
      (e ≠ some .shortBuffer → s.total ≤ n → s'.total ≤ n) ∧
      availT n s' + cap n r' ≤ availT n s + cap n r := by
  obtain ⟨hl, hp⟩ := h
  obtain ⟨res, e, hc⟩ := readInput_cases hn r hl
  cases hc with
  | eof r' h1 h2 =>
    refine ⟨_, _, _, _, e, ⟨hl, hp⟩, rfl, ?_, by simp, by simp, fun _ _ => ?_, ?_⟩
    · simp only [avail, h1, h2, List.length_nil]; omega
    · show (0 : Int) ≤ n; omega
    · rw [cap_nil h1, cap_nil h2]; simp only [availT]; omega
  | short b r' h1 h2 h3 h4 =>
    refine ⟨_, _, _, _, e, ⟨h1, hp⟩, rfl, ?_, by simp, by simp, fun _ h => h, ?_⟩
    · simp only [avail, h1, hl, h2, List.length_nil]; omega
    · rw [cap_nil h2]; simp only [availT]; omega
  | block b r' c h1 h2 h3 =>
    refine ⟨_, _, _, _, e, ⟨h1, Int.le_refl 0⟩, rfl, ?_, ?_, ?_, ?_, ?_⟩
    · simp only [avail, h1]; omega
    · intro he
      by_cases c0 : c = 0
      · simp [c0] at he
      · by_cases c1 : c > n
        · simp [c0, c1] at he
        · refine ⟨?_, ?_, rfl⟩
          · show (0 : Int) < c; omega
          · show (c : Int) ≤ n; omega
    · intro he
      by_cases c0 : c = 0
      · simp [c0]
      · by_cases c1 : c > n
        · simp [c0, c1] at he
        · simp [c0, c1] at he
    · intro he _
      show (c : Int) ≤ n
      by_cases c0 : c = 0
      · omega
      · by_cases c1 : c > n
        · simp [c0, c1] at he
        · omega
    · rw [cap_block h2]; simp only [availT]; omega

/-- **The copy loop of `Read` on hostile input**: with the fuel `Read` gives it, it never panics and
never runs out of fuel; it keeps the invariant; the bytes delivered plus the bytes still available
never exceed what was available plus what was taken from the wire; at most `k` bytes are delivered;
a loop entered with room and data that ends without error delivered at least one byte. -/
theorem readLoop_hostile {n : Nat} (hn : 16 ≤ n) (k : Nat) :
    ∀ (fuel : Nat) (s : St) (r : Codec.Stream) (acc : Bytes), HInv n s → k - acc.length < fuel →
    ∃ s' r' out e, readLoop fuel s r k acc = some (s', r', out, e) ∧ HInv n s' ∧ s'.key = s.key ∧
      out.length + avail s' + r'.flatten.length ≤ acc.length + avail s + r.flatten.length ∧
      acc.length ≤ out.length ∧ (out.length ≤ k ∨ out = acc) ∧
      (e = none → acc.length < k → s.pos < s.total → s.total ≤ n → acc.length < out.length) ∧
      (e ≠ some .shortBuffer → s.total ≤ n → s'.total ≤ n) ∧
      out.length + availT n s' + cap n r' ≤ acc.length + availT n s + cap n r := by
  intro fuel
  induction fuel with
  | zero => intro s r acc _ hf; omega
  | succ fuel ih =>
    intro s r acc h hf
    obtain ⟨hl, hp0⟩ := h
    rw [readLoop]
    by_cases hC : acc.length < k ∧ s.pos < s.total ∧ s.total < s.buf.length
    · rw [if_pos hC]
      obtain ⟨hC1, hC2, hC3⟩ := hC
      rw [if_neg (by omega : ¬ s.total ≤ 0), if_neg (by omega : ¬ s.pos < 0)]
      simp only []
      generalize hI : min (k - acc.length) (s.total - s.pos).toNat = i
      have hi1 : 1 ≤ i := by omega
      have hi2 : i ≤ k - acc.length := by omega
      have hi3 : i ≤ (s.total - s.pos).toNat := by omega
      have hX : ((s.buf.drop s.pos.toNat).take i).length = i := by
        simp only [List.length_take, List.length_drop]; omega
      generalize (s.buf.drop s.pos.toNat).take i = X at hX ⊢
      have hlen' : (acc ++ X).length = acc.length + i := by rw [List.length_append, hX]
      have hinv1 : HInv n { s with pos := s.pos + i } := ⟨hl, by show 0 ≤ s.pos + (i : Int); omega⟩
      have hav : avail s = avail { s with pos := s.pos + i } + i := by
        simp only [avail]; omega
      have havT : availT n s = availT n { s with pos := s.pos + i } + i := by
        simp only [availT]; omega
      by_cases hA : s.pos + (i : Int) ≥ s.total ∧ s.total ≥ (s.buf.length : Int) - 1
      · rw [if_pos hA]
        obtain ⟨s2, r2, o, e2, hre, hinv2, hkey2, hpot2, _, _, htot2, hpT2⟩ := readInput_hostile hn r hinv1
        simp only [hre, Option.bind_eq_bind, Option.bind_some]
        by_cases hE : e2.isSome = true ∧ e2 ≠ some .eof
        · rw [if_pos hE]
          refine ⟨s2, r2, acc, e2, rfl, hinv2, hkey2, by omega, Nat.le_refl _, Or.inr rfl, ?_, ?_, by omega⟩
          · intro he; rw [he] at hE; simp at hE
          · intro he ht; exact htot2 he ht
        · rw [if_neg hE]
          obtain ⟨s', r', out, e, hrl, hinv', hkey', hpot', hmono', hk', _, htot', hpT'⟩ :=
            ih s2 r2 (acc ++ X) hinv2 (by omega)
          refine ⟨s', r', out, e, hrl, hinv', by rw [hkey', hkey2], by omega, by omega, ?_, ?_, ?_, by omega⟩
          · rcases hk' with h | h
            · exact Or.inl h
            · left; rw [h, hlen']; omega
          · intro _ _ _ _; omega
          · intro he ht
            refine htot' he (htot2 ?_ ht)
            intro hs; apply hE; rw [hs]; simp
      · rw [if_neg hA]
        obtain ⟨s', r', out, e, hrl, hinv', hkey', hpot', hmono', hk', _, htot', hpT'⟩ :=
          ih { s with pos := s.pos + i } r (acc ++ X) hinv1 (by omega)
        refine ⟨s', r', out, e, hrl, hinv', hkey', by omega, by omega, ?_, ?_, ?_, by omega⟩
        · rcases hk' with h | h
          · exact Or.inl h
          · left; rw [h, hlen']; omega
        · intro _ _ _ _; omega
        · intro he ht; exact htot' he ht
    · rw [if_neg hC]
      by_cases hT : s.total > s.buf.length
      · rw [if_pos hT]
        exact ⟨s, r, acc, _, rfl, ⟨hl, hp0⟩, rfl, Nat.le_refl _, Nat.le_refl _, Or.inr rfl,
          by simp, fun _ h => h, Nat.le_refl _⟩
      · rw [if_neg hT]
        refine ⟨s, r, acc, _, rfl, ⟨hl, hp0⟩, rfl, Nat.le_refl _, Nat.le_refl _, Or.inr rfl,
          ?_, fun _ h => h, Nat.le_refl _⟩
        intro _ h1 h2 h3
        exfalso; apply hC; exact ⟨h1, h2, by omega⟩

theorem read_err {s s2 : St} {r r' : Codec.Stream} {kk o : Nat} {x : RErr} (h : ¬ s.total - s.pos > kk)
    (hp : s.pos ≥ s.total) (e : readInput s r = some (s2, r', o, some x)) (hx : x ≠ .eof ∨ o = 0) :
    Cbk.read s r kk = some (s2, r', [], some x) := by
  unfold Cbk.read
  rw [if_neg h]
  simp only [if_pos hp, e, Option.bind_eq_bind, Option.bind_some]
  have : (some x).isSome = true ∧ (some x ≠ some RErr.eof ∨ o = 0) := by
    refine ⟨rfl, ?_⟩
    rcases hx with h | h
    · left; intro e; apply h; cases e; rfl
    · right; exact h
  rw [if_pos this]

/-- **One `Read` of any size `k`, in any state satisfying `HInv`, on any stream**: it does not
panic; the invariant holds afterwards whatever the outcome (also after an error); at most `k` bytes
are delivered (no write beyond the caller's buffer); delivered + still available ≤ previously
available + taken from the wire; a `Read` with `k > 0` from a state whose count is within the block
that reports no error delivered at least one byte; and the count stays within the block unless
`ErrShortBuffer` is reported. -/
theorem read_hostile {n : Nat} (hn : 16 ≤ n) {s : St} (r : Codec.Stream) (k : Nat) (h : HInv n s) :
    ∃ s' r' got e, Cbk.read s r k = some (s', r', got, e) ∧ HInv n s' ∧ s'.key = s.key ∧
      got.length + avail s' + r'.flatten.length ≤ avail s + r.flatten.length ∧
      got.length ≤ k ∧
      (e = none → 0 < k → s.total ≤ n → 0 < got.length) ∧
      (e ≠ some .shortBuffer → s.total ≤ n → s'.total ≤ n) ∧
      (s.total ≤ n → got.length + availT n s' + cap n r' ≤ availT n s + cap n r) := by
  have hinv := h
  obtain ⟨hl, hp0⟩ := h
  by_cases hfast : s.total - s.pos > k
  · by_cases hsb : s.pos + k > s.buf.length
    · refine ⟨s, r, [], some .shortBuffer, ?_, hinv, rfl, by simp, by simp, by simp, ?_, by simp⟩
      · unfold Cbk.read; rw [if_pos hfast, if_pos hsb]
      · intro he; exact absurd rfl he
    · rw [read_fast hfast hp0 (by omega)]
      have hX : ((s.buf.drop s.pos.toNat).take k).length = k := by
        simp only [List.length_take, List.length_drop]; omega
      refine ⟨_, _, _, _, rfl, ⟨hl, by show 0 ≤ s.pos + (k : Int); omega⟩, rfl, ?_, by omega,
        fun _ hk _ => by omega, fun _ h => h, fun ht => ?_⟩
      · rw [hX]; simp only [avail]; omega
      · rw [hX]; simp only [availT]; omega
  · by_cases hge : s.pos ≥ s.total
    · have hav0 : avail s = 0 := by simp only [avail]; omega
      have havT0 : availT n s = 0 := by simp only [availT]; omega
      obtain ⟨s2, r2, o, e2, hre, hinv2, hkey2, hpot2, hok2, heof2, htot2, hpT2⟩ := readInput_hostile hn r hinv
      cases e2 with
      | some x =>
        have hx : x ≠ .eof ∨ o = 0 := by
          by_cases hx : x = .eof
          · right; exact heof2 (by rw [hx])
          · left; exact hx
        rw [read_err hfast hge hre hx]
        exact ⟨s2, r2, [], some x, rfl, hinv2, hkey2, by simpa using hpot2, by simp, by simp, htot2,
          fun _ => by simpa using hpT2⟩
      | none =>
        rw [read_load hfast hge hre]
        obtain ⟨ht1, ht2, hp2⟩ := hok2 rfl
        obtain ⟨s', r', out, e, hrl, hinv', hkey', hpot', _, hk', hprog', htot', hpT'⟩ :=
          readLoop_hostile hn k (k + 1) s2 r2 [] hinv2 (by simp)
        refine ⟨s', r', out, e, hrl, hinv', by rw [hkey', hkey2], ?_, ?_, ?_, ?_, ?_⟩
        · simp only [List.length_nil] at hpot'; omega
        · rcases hk' with h | h
          · exact h
          · rw [h]; simp
        · intro he hk _
          have := hprog' he (by simpa using hk) (by omega) ht2
          simpa using this
        · intro he _; exact htot' he ht2
        · intro _; simp only [List.length_nil] at hpT'; omega
    · rw [read_cont hfast hge]
      obtain ⟨s', r', out, e, hrl, hinv', hkey', hpot', _, hk', hprog', htot', hpT'⟩ :=
        readLoop_hostile hn k (k + 1) s r [] hinv (by simp)
      refine ⟨s', r', out, e, hrl, hinv', hkey', ?_, ?_, ?_, htot', ?_⟩
      · simp only [List.length_nil] at hpot'; omega
      · rcases hk' with h | h
        · exact h
        · rw [h]; simp
      · intro he hk ht
        have := hprog' he (by simpa using hk) (by omega) ht
        simpa using this
      · intro _; simp only [List.length_nil] at hpT'; omega

/-! ### Consumers: any sequence of `Read`s, and `io.ReadAll` -/

/-- **Any sequence of `Read` sizes on any stream, from any state satisfying `HInv`**: no panic; the
pieces together are no longer than what was available plus the wire, and no longer than asked. -/
theorem readSeq_hostile {n : Nat} (hn : 16 ≤ n) (ks : List Nat) :
    ∀ {s : St} (r : Codec.Stream), HInv n s →
      ∃ pieces e, readSeq s r ks = some (pieces, e) ∧
        pieces.flatten.length ≤ avail s + r.flatten.length ∧
        pieces.flatten.length ≤ ks.sum ∧ pieces.length ≤ ks.length := by
  induction ks with
  | nil => intro s r _; exact ⟨[], none, rfl, by simp, by simp, by simp⟩
  | cons k ks ih =>
    intro s r h
    obtain ⟨s', r', got, e, hrd, hinv', _, hpot, hk, _, _, _⟩ := read_hostile hn r k h
    unfold readSeq
    simp only [hrd, Option.bind_eq_bind, Option.bind_some]
    cases e with
    | some x =>
      refine ⟨[got], some x, rfl, ?_, ?_, by simp⟩
      · simp only [List.flatten_cons, List.flatten_nil, List.append_nil]; omega
      · simp only [List.flatten_cons, List.flatten_nil, List.append_nil, List.sum_cons]; omega
    | none =>
      obtain ⟨rest, e', hrs, hb1, hb2, hb3⟩ := ih r' hinv'
      simp only [hrs, Option.bind_some]
      refine ⟨got :: rest, e', rfl, ?_, ?_, by simp; omega⟩
      · simp only [List.flatten_cons, List.length_append]; omega
      · simp only [List.flatten_cons, List.length_append, List.sum_cons]; omega

/-- **Bounded output of `io.ReadAll`**: whatever the fuel, a result is no longer than what was
available plus the wire. -/
theorem readAll_bound {n : Nat} (hn : 16 ≤ n) :
    ∀ (fuel : Nat) {s : St} (r : Codec.Stream), HInv n s → ∀ out e,
      readAll fuel s r = some (out, e) → out.length ≤ avail s + r.flatten.length := by
  intro fuel
  induction fuel with
  | zero => intro s r _ out e h; simp [readAll] at h
  | succ fuel ih =>
    intro s r h out e hra
    obtain ⟨s', r', got, e1, hrd, hinv', _, hpot, _, _, _, _⟩ := read_hostile hn r 512 h
    unfold readAll at hra
    simp only [hrd, Option.bind_eq_bind, Option.bind_some] at hra
    cases e1 with
    | some x =>
      cases x <;> (simp only [Option.some.injEq, Prod.mk.injEq] at hra; obtain ⟨rfl, _⟩ := hra; omega)
    | none =>
      simp only [Option.bind_eq_some_iff] at hra
      obtain ⟨⟨rest, e'⟩, hrs, heq⟩ := hra
      simp only [Option.some.injEq, Prod.mk.injEq] at heq
      obtain ⟨rfl, _⟩ := heq
      have := ih r' hinv' rest e' hrs
      rw [List.length_append]; omega

/-- **`io.ReadAll` terminates without panic**: from a state whose count is within the block, one
unit of fuel per available/wire byte plus one is enough — every `Read` that reports no error
delivers at least one byte.  `io.EOF` is never the reported error (it is success). -/
theorem readAll_total {n : Nat} (hn : 16 ≤ n) :
    ∀ (fuel : Nat) {s : St} (r : Codec.Stream), HInv n s → s.total ≤ n →
      avail s + r.flatten.length < fuel → ∃ out e, readAll fuel s r = some (out, e) ∧ e ≠ some .eof := by
  intro fuel
  induction fuel with
  | zero => intro s r _ _ hf; omega
  | succ fuel ih =>
    intro s r h ht hf
    obtain ⟨s', r', got, e1, hrd, hinv', _, hpot, _, hprog, htot, _⟩ := read_hostile hn r 512 h
    unfold readAll
    simp only [hrd, Option.bind_eq_bind, Option.bind_some]
    cases e1 with
    | some x => cases x <;> exact ⟨_, _, rfl, by simp⟩
    | none =>
      have hg := hprog rfl (by omega) ht
      obtain ⟨rest, e', hrs, he'⟩ := ih r' hinv' (htot (by simp) ht) (by omega)
      simp only [hrs, Option.bind_some]
      exact ⟨_, _, rfl, he'⟩

/-- More fuel never changes a result. -/
theorem readAll_mono : ∀ (fuel : Nat) (s : St) (r : Codec.Stream) (x : Bytes × Option RErr),
    readAll fuel s r = some x → readAll (fuel + 1) s r = some x := by
  intro fuel
  induction fuel with
  | zero => intro s r x h; simp [readAll] at h
  | succ fuel ih =>
    intro s r x h
    rw [readAll] at h ⊢
    cases hrd : Cbk.read s r 512 with
    | none => rw [hrd] at h; simp at h
    | some q =>
      obtain ⟨s', r', got, e⟩ := q
      rw [hrd] at h
      simp only [Option.bind_eq_bind, Option.bind_some] at h ⊢
      cases e with
      | some y => cases y <;> exact h
      | none =>
        simp only [Option.bind_eq_some_iff] at h
        obtain ⟨⟨rest, e'⟩, hrs, heq⟩ := h
        simp only [ih s' r' _ hrs, Option.bind_some]
        exact heq

theorem readAll_mono_le {f1 f2 : Nat} (hle : f1 ≤ f2) (s : St) (r : Codec.Stream)
    (x : Bytes × Option RErr) (h : readAll f1 s r = some x) : readAll f2 s r = some x := by
  induction hle with
  | refl => exact h
  | step _ ih => exact readAll_mono _ s r x ih

/-- **The result does not depend on the fuel** once it exceeds the number of available/wire bytes:
the loop ends by EOF or an error, not by fuel. -/
theorem readAll_fuel_indep {n : Nat} (hn : 16 ≤ n) {s : St} (r : Codec.Stream) (h : HInv n s)
    (ht : s.total ≤ n) {f1 f2 : Nat} (h1 : avail s + r.flatten.length < f1)
    (h2 : avail s + r.flatten.length < f2) : readAll f1 s r = readAll f2 s r := by
  obtain ⟨o1, e1, q1, _⟩ := readAll_total hn f1 r h ht h1
  obtain ⟨o2, e2, q2, _⟩ := readAll_total hn f2 r h ht h2
  rcases Nat.le_total f1 f2 with hle | hle
  · rw [q1, readAll_mono_le hle s r _ q1]
  · rw [q2, readAll_mono_le hle s r _ q2]

/-! ### The sharp bound: `n` payload bytes at most for every whole block of `n+1` wire bytes -/

theorem readSeq_tight {n : Nat} (hn : 16 ≤ n) (ks : List Nat) :
    ∀ {s : St} (r : Codec.Stream), HInv n s → s.total ≤ n → ∀ pieces e,
      readSeq s r ks = some (pieces, e) → pieces.flatten.length ≤ availT n s + cap n r := by
  induction ks with
  | nil => intro s r _ _ pieces e h; simp only [readSeq, Option.some.injEq, Prod.mk.injEq] at h; simp [← h.1]
  | cons k ks ih =>
    intro s r h ht pieces e hrs
    obtain ⟨s', r', got, e1, hrd, hinv', _, _, _, _, htot, hpT⟩ := read_hostile hn r k h
    have hpT := hpT ht
    unfold readSeq at hrs
    simp only [hrd, Option.bind_eq_bind, Option.bind_some] at hrs
    cases e1 with
    | some x =>
      simp only [Option.some.injEq, Prod.mk.injEq] at hrs
      obtain ⟨rfl, _⟩ := hrs
      simp only [List.flatten_cons, List.flatten_nil, List.append_nil]; omega
    | none =>
      simp only [Option.bind_eq_some_iff] at hrs
      obtain ⟨⟨rest, e'⟩, hrs', heq⟩ := hrs
      simp only [Option.some.injEq, Prod.mk.injEq] at heq
      obtain ⟨rfl, _⟩ := heq
      have := ih r' hinv' (htot (by simp) ht) rest e' hrs'
      simp only [List.flatten_cons, List.length_append]; omega

theorem readAll_tight {n : Nat} (hn : 16 ≤ n) :
    ∀ (fuel : Nat) {s : St} (r : Codec.Stream), HInv n s → s.total ≤ n → ∀ out e,
      readAll fuel s r = some (out, e) → out.length ≤ availT n s + cap n r := by
  intro fuel
  induction fuel with
  | zero => intro s r _ _ out e h; simp [readAll] at h
  | succ fuel ih =>
    intro s r h ht out e hra
    obtain ⟨s', r', got, e1, hrd, hinv', _, _, _, _, htot, hpT⟩ := read_hostile hn r 512 h
    have hpT := hpT ht
    unfold readAll at hra
    simp only [hrd, Option.bind_eq_bind, Option.bind_some] at hra
    cases e1 with
    | some x =>
      cases x <;> (simp only [Option.some.injEq, Prod.mk.injEq] at hra; obtain ⟨rfl, _⟩ := hra; omega)
    | none =>
      simp only [Option.bind_eq_some_iff] at hra
      obtain ⟨⟨rest, e'⟩, hrs, heq⟩ := hra
      simp only [Option.some.injEq, Prod.mk.injEq] at heq
      obtain ⟨rfl, _⟩ := heq
      have := ih r' hinv' (htot (by simp) ht) rest e' hrs
      rw [List.length_append]; omega

/-! ### Why the progress statements ask for `total ≤ n` -/

/-- A state with `total = len(buf)` (count byte `n+1`; `readInput` reports `ErrShortBuffer` when it
creates it, so it is only met by a consumer that goes on reading after that error): every `Read`
asking for at least the rest of the buffer returns `(0, nil)` and changes nothing — no panic, but no
progress either.  This is why `readAll_total` / `read_hostile`'s progress clause assume
`s.total ≤ n`, which holds initially and after every `Read` that did not report `ErrShortBuffer`. -/
theorem read_stuck {n : Nat} {s : St} (r : Codec.Stream) (k : Nat) (hl : s.buf.length = n + 1)
    (hp' : s.pos ≤ n) (ht : s.total = n + 1) (hk : (n : Int) + 1 - s.pos ≤ k) :
    Cbk.read s r k = some (s, r, [], none) := by
  rw [read_cont (by omega) (by omega), readLoop]
  rw [if_neg (by omega), if_neg (by omega)]

/-! ### The statements for the state `NewCBKSource` returns -/

/-- What `newSource` establishes: a block size `n ∈ 16..255`, the invariant, a count within the
block, nothing available yet. -/
theorem init_hostile {a b c d sz : UInt8} {s0 : St} (h : newSource a b c d sz = some s0) :
    ∃ n, 16 ≤ n ∧ n < 256 ∧ HInv n s0 ∧ s0.total ≤ n ∧ avail s0 = 0 ∧ availT n s0 = 0 := by
  obtain ⟨n, hn, hb, hl, hp, ht, _⟩ := newSource_spec h
  refine ⟨n, hn, hb, ⟨hl, by omega⟩, by omega, ?_, ?_⟩
  · simp only [avail]; omega
  · simp only [availT]; omega

/-- **No panic, any sequence of `Read`s** (every key and accepted block size, EVERY piece stream —
any bytes, any chunking, empty pieces, truncation anywhere, any count byte — and every list of
`Read` buffer sizes, zero included): the model never reaches `none`; the bytes delivered are no more
than the wire bytes, no more than `n` for every whole `n+1`-byte block on the wire, and no more than
was asked for. -/
theorem cbk_readSeq_hostile (a b c d sz : UInt8) (s0 : St) (h : newSource a b c d sz = some s0)
    (cs : Codec.Stream) (ks : List Nat) :
    ∃ pieces e, readSeq s0 cs ks = some (pieces, e) ∧
      pieces.flatten.length ≤ cs.flatten.length ∧
      pieces.flatten.length ≤ (s0.buf.length - 1) * (cs.flatten.length / s0.buf.length) ∧
      pieces.flatten.length ≤ ks.sum ∧ pieces.length ≤ ks.length := by
  obtain ⟨n, hn, _, hinv, ht, ha, haT⟩ := init_hostile h
  obtain ⟨pieces, e, hrs, h1, h2, h3⟩ := readSeq_hostile hn ks cs hinv
  refine ⟨pieces, e, hrs, by omega, ?_, h2, h3⟩
  have := readSeq_tight hn ks cs hinv ht pieces e hrs
  rw [haT, cap] at this
  rw [hinv.len]; simpa using this

theorem cbk_readSeq_no_panic (a b c d sz : UInt8) (s0 : St) (h : newSource a b c d sz = some s0)
    (cs : Codec.Stream) (ks : List Nat) : readSeq s0 cs ks ≠ none := by
  obtain ⟨_, _, e, _⟩ := cbk_readSeq_hostile a b c d sz s0 h cs ks
  rw [e]; simp

/-- **`io.ReadAll` on hostile bytes.**  The statement "`readAll fuel s0 cs ≠ none` for every fuel" is
FALSE as written only because of the model's fuel (`readAll 0 _ _ = none` by definition; it stands
for "still looping", not for a panic).  What holds, for every key, accepted block size and EVERY
piece stream `cs`:
* with fuel above the number of wire bytes the model returns a result (no panic, no hang), the error
  is never `io.EOF` (EOF is success);
* every result, whatever the fuel, is no longer than the wire, and no longer than `n` bytes per whole
  `n+1`-byte block of the wire;
* `none` can only be fuel exhaustion: it implies `fuel ≤` the number of wire bytes;
* the result is the same for all fuels above the number of wire bytes. -/
theorem cbk_readAll_hostile_partial (a b c d sz : UInt8) (s0 : St) (h : newSource a b c d sz = some s0)
    (cs : Codec.Stream) :
    (∀ fuel, cs.flatten.length < fuel → ∃ out e, readAll fuel s0 cs = some (out, e) ∧ e ≠ some .eof) ∧
    (∀ fuel out e, readAll fuel s0 cs = some (out, e) →
      out.length ≤ cs.flatten.length ∧
      out.length ≤ (s0.buf.length - 1) * (cs.flatten.length / s0.buf.length)) ∧
    (∀ fuel, readAll fuel s0 cs = none → fuel ≤ cs.flatten.length) ∧
    (∀ f1 f2, cs.flatten.length < f1 → cs.flatten.length < f2 → readAll f1 s0 cs = readAll f2 s0 cs) := by
  obtain ⟨n, hn, _, hinv, ht, ha, haT⟩ := init_hostile h
  have tot : ∀ fuel, cs.flatten.length < fuel →
      ∃ out e, readAll fuel s0 cs = some (out, e) ∧ e ≠ some .eof :=
    fun fuel hf => readAll_total hn fuel cs hinv ht (by omega)
  refine ⟨tot, ?_, ?_, ?_⟩
  · intro fuel out e hra
    have h1 := readAll_bound hn fuel cs hinv out e hra
    have h2 := readAll_tight hn fuel cs hinv ht out e hra
    rw [haT, cap] at h2
    refine ⟨by omega, ?_⟩
    rw [hinv.len]; simpa using h2
  · intro fuel hnone
    apply Classical.byContradiction
    intro hlt
    obtain ⟨out, e, hra, _⟩ := tot fuel (by omega)
    rw [hra] at hnone; cases hnone
  · intro f1 f2 h1 h2
    exact readAll_fuel_indep hn cs hinv ht (by omega) (by omega)

/-- The full statement asked for, `∀ fuel, readAll fuel s0 cs ≠ none`, fails at `fuel = 0` for every
input (fuel artefact of the model, not a behaviour of the Go code). -/
theorem cbk_readAll_fuel_zero (s : St) (cs : Codec.Stream) : readAll 0 s cs = none := rfl

/-- The reader of the CBK layer of the wrapper stack (`cbkLayer.dec`, fuel `len + 2`) never hits the
model's panic/fuel value on any wire: `none` from `dec` is always an error *return* of `Read`. -/
theorem cbkLayer_dec_no_panic (a b c d sz : UInt8) (s0 : St) (h : newSource a b c d sz = some s0)
    (wire : Bytes) : ∃ out e, readAll (wire.length + 2) s0 [wire] = some (out, e) ∧
      out.length ≤ wire.length := by
  obtain ⟨tot, bnd, _, _⟩ := cbk_readAll_hostile_partial a b c d sz s0 h [wire]
  obtain ⟨out, e, hra, _⟩ := tot (wire.length + 2) (by simp)
  exact ⟨out, e, hra, by simpa using (bnd _ out e hra).1⟩

/-- **One `Read` never panics and never overruns the caller's buffer, from every reachable state**:
the invariant `HInv` is established by `newSource` (`init_hostile`) and preserved by every `Read`,
whatever its outcome (`read_hostile`) — so also for a consumer that goes on reading after an
error. -/
theorem cbk_read_no_panic {n : Nat} (hn : 16 ≤ n) {s : St} (h : HInv n s) (r : Codec.Stream) (k : Nat) :
    ∃ s' r' got e, Cbk.read s r k = some (s', r', got, e) ∧ HInv n s' ∧ got.length ≤ k := by
  obtain ⟨s', r', got, e, hrd, hinv', _, _, hk, _⟩ := read_hostile hn r k h
  exact ⟨s', r', got, e, hrd, hinv', hk⟩

end XMT.Cbk

/-! ### The Base64-shift transform reader -/
namespace XMT.Wrap
open XMT

/-- `b64Read` fails exactly when the Base64 decoder fails. -/
theorem b64Read_eq_none (dec64 : Bytes → Option Bytes) (shift : UInt8) (p : Bytes) :
    b64Read dec64 shift p = none ↔ dec64 p = none := by
  simp [b64Read]

/-- `b64Read` is the decoder followed by a length-preserving byte map. -/
theorem b64Read_eq (dec64 : Bytes → Option Bytes) (shift : UInt8) (p : Bytes) :
    b64Read dec64 shift p = (dec64 p).map (fun o => o.map (· - shift)) := by
  unfold b64Read
  by_cases h : shift = 0
  · subst h
    cases dec64 p with
    | none => rfl
    | some o =>
      simp only [Option.map_some, ne_eq, not_true_eq_false, if_false]
      congr 1
      symm
      apply List.map_id''
      intro x; exact UInt8.sub_zero x
  · simp [h]

/-- **Totality and length**: for an arbitrary decoder and arbitrary (hostile) input, a result of
`b64Read` comes from a result of the decoder on the same input and has exactly its length — the
shift step cannot fail, grow or shrink anything. -/
theorem b64Read_some (dec64 : Bytes → Option Bytes) (shift : UInt8) (p out : Bytes)
    (h : b64Read dec64 shift p = some out) :
    ∃ raw, dec64 p = some raw ∧ out.length = raw.length ∧ out = raw.map (· - shift) := by
  rw [b64Read_eq] at h
  simp only [Option.map_eq_some_iff] at h
  obtain ⟨raw, e, rfl⟩ := h
  exact ⟨raw, e, by simp, rfl⟩

/-- Conversely, whenever the decoder succeeds so does `b64Read`. -/
theorem b64Read_total (dec64 : Bytes → Option Bytes) (shift : UInt8) (p raw : Bytes)
    (h : dec64 p = some raw) : b64Read dec64 shift p = some (raw.map (· - shift)) := by
  rw [b64Read_eq, h]; rfl

end XMT.Wrap
