/- Lemmas about the CBK block cipher model (XMT.Cbk): the block transform is invertible and total. -/
import XMT.Cbk
namespace XMT.Cbk
open XMT

/-- bit-blast an identity between `UInt8` and/or/shift-by-constant expressions -/
macro "bits8" : tactic => `(tactic| (
  apply UInt8.eq_of_toBitVec_eq
  simp only [UInt8.toBitVec_or, UInt8.toBitVec_and, UInt8.toBitVec_shiftLeft, UInt8.toBitVec_shiftRight,
    UInt8.toBitVec_ofNat]
  ext i hi
  have h8 : i = 0 ∨ i = 1 ∨ i = 2 ∨ i = 3 ∨ i = 4 ∨ i = 5 ∨ i = 6 ∨ i = 7 := by omega
  rcases h8 with h | h | h | h | h | h | h | h <;> subst h <;> simp <;> (try decide)))

theorem nibA_invol (x y : UInt8) : nibA (nibB x y) (nibA x y) = y := by
  simp only [nibA, nibB]; bits8
theorem nibB_invol (x y : UInt8) : nibB (nibB x y) (nibA x y) = x := by
  simp only [nibA, nibB]; bits8
theorem nib_c1 (x y z : UInt8) : nibA z (nibB x y) = nibB (nibA z x) y := by
  simp only [nibA, nibB]; bits8
theorem nib_c2 (x y z : UInt8) : nibB z (nibB x y) = nibB z x := by
  simp only [nibB]; bits8
theorem nib_c3 (x y z : UInt8) : nibA (nibA z x) y = nibA x y := by
  simp only [nibA]; bits8
/-- `nibStep` as a total function when both positions exist. -/
theorem nibStep_eq {h g : Nat} {b : Bytes} (hh : h < b.length) (hg : g < b.length) :
    nibStep h g b = some ((b.set h (nibA b[g] b[h])).set g (nibB b[g] b[h])) := by
  simp [nibStep, List.getElem?_eq_getElem hh, List.getElem?_eq_getElem hg]

theorem nibStep_invol {h g : Nat} {b : Bytes} (hne : h ≠ g) (hh : h < b.length) (hg : g < b.length) :
    (nibStep h g b).bind (nibStep h g) = some b := by
  rw [nibStep_eq hh hg, Option.bind_some, nibStep_eq (by simpa using hh) (by simpa using hg)]
  congr 1
  apply List.ext_getElem (by simp)
  intro i h1 h2
  simp only [List.getElem_set] at *
  grind [nibA_invol, nibB_invol]

theorem nibStep_length {h g : Nat} {b b' : Bytes} (e : nibStep h g b = some b') : b'.length = b.length := by
  unfold nibStep at e
  split at e
  · cases e; simp
  · cases e

/-- The two nibble exchanges of a round act on different nibbles, so they commute (even when
they share a byte, i.e. `g = h+1` or `h = g+1`). -/
theorem nibStep_comm {h g : Nat} {b : Bytes} (hne : h ≠ g) (hh : h + 1 < b.length) (hg : g + 1 < b.length) :
    (nibStep h g b).bind (nibStep (h+1) (g+1)) = (nibStep (h+1) (g+1) b).bind (nibStep h g) := by
  rw [nibStep_eq (by omega) (by omega), nibStep_eq hh hg, Option.bind_some, Option.bind_some,
    nibStep_eq (by simpa using hh) (by simpa using hg),
    nibStep_eq (by simp; omega) (by simp; omega)]
  congr 1
  apply List.ext_getElem (by simp)
  intro i h1 h2
  simp only [List.getElem_set] at *
  grind [nib_c1, nib_c2, nib_c3]

theorem pairSwap_eq {g h : Nat} {b : Bytes} (hg : 2*g+1 < b.length) (hh : 2*h+1 < b.length) :
    pairSwap g h b = some ((((b.set (2*g) b[2*h]).set (2*g+1) b[2*h+1]).set (2*h) b[2*g]).set (2*h+1) b[2*g+1]) := by
  have h0 : 2*g < b.length := by omega
  have h1 : 2*h < b.length := by omega
  simp [pairSwap, List.getElem?_eq_getElem hg, List.getElem?_eq_getElem hh,
    List.getElem?_eq_getElem h0, List.getElem?_eq_getElem h1]

theorem pairSwap_length {g h : Nat} {b b' : Bytes} (e : pairSwap g h b = some b') : b'.length = b.length := by
  unfold pairSwap at e
  split at e
  · cases e; simp
  · cases e

theorem pairSwap_invol {g h : Nat} {b : Bytes} (hne : g ≠ h) (hg : 2*g+1 < b.length) (hh : 2*h+1 < b.length) :
    (pairSwap g h b).bind (pairSwap g h) = some b := by
  rw [pairSwap_eq hg hh, Option.bind_some, pairSwap_eq (by simpa using hg) (by simpa using hh)]
  congr 1
  apply List.ext_getElem (by simp)
  intro i h1 h2
  simp only [List.getElem_set] at *
  grind

/-- One round of `scramble(…, true)` undoes the same round of `scramble(…, false)`. -/
theorem round_inv {g h : Nat} {b : Bytes} (hg : g < 8) (hh : h < 8) (hl : 16 ≤ b.length) :
    ∃ b', encRound g h b = some b' ∧ b'.length = b.length ∧ decRound g h b' = some b := by
  unfold encRound decRound
  by_cases e : g = h
  · simp [e]
  · simp only [e, if_false]
    have hne : h ≠ g := fun x => e x.symm
    obtain ⟨b1, e1⟩ : ∃ b1, nibStep h g b = some b1 := ⟨_, nibStep_eq (by omega) (by omega)⟩
    have l1 := nibStep_length e1
    obtain ⟨b2, e2⟩ : ∃ b2, nibStep (h+1) (g+1) b1 = some b2 := ⟨_, nibStep_eq (by omega) (by omega)⟩
    have l2 := nibStep_length e2
    obtain ⟨b3, e3⟩ : ∃ b3, pairSwap g h b2 = some b3 := ⟨_, pairSwap_eq (by omega) (by omega)⟩
    have l3 := pairSwap_length e3
    refine ⟨b3, by simp [e1, e2, e3], by omega, ?_⟩
    have p1 := pairSwap_invol (b := b2) e (by omega) (by omega)
    rw [e3, Option.bind_some] at p1
    have c := nibStep_comm (b := b1) hne (by omega) (by omega)
    rw [e2, Option.bind_some] at c
    have i1 := nibStep_invol (b := b) hne (by omega) (by omega)
    rw [e1, Option.bind_some] at i1
    rw [i1, Option.bind_some] at c
    have i2 := nibStep_invol (h := h+1) (g := g+1) (b := b) (by omega) (by omega) (by omega)
    obtain ⟨c2, ec2⟩ : ∃ c2, nibStep (h+1) (g+1) b = some c2 := ⟨_, nibStep_eq (by omega) (by omega)⟩
    rw [ec2, Option.bind_some] at i2
    rw [ec2] at c
    simp [p1, ← c, i2]

/-! ### Shuffle / substitution -/

theorem shuffle_length (k : Key) (b : Bytes) : (shuffle k b).length = b.length := by
  unfold shuffle; split <;> simp

theorem deshuffle_length (k : Key) (b : Bytes) : (deshuffle k b).length = b.length := by
  unfold deshuffle; split <;> simp

theorem deshuffle_shuffle (k : Key) (b : Bytes) : deshuffle k (shuffle k b) = b := by
  apply List.ext_getElem (by rw [deshuffle_length, shuffle_length])
  intro i h1 h2
  have hl : (shuffle k b).length = b.length := shuffle_length k b
  unfold deshuffle
  by_cases h : b.length > 1
  · simp only [hl, h, if_true, List.getElem_mapIdx, List.getElem_modifyHead]
    unfold shuffle
    simp only [h, if_true, List.getElem_mapIdx, List.getElem_modifyHead]
    split
    · rename_i h0; subst h0
      have : UInt8.ofNat 0 = 0 := rfl
      simp only [this]; grind
    · grind
  · simp only [hl, h, if_false, List.getElem_mapIdx]
    unfold shuffle
    simp only [h, if_false, List.getElem_mapIdx]
    grind

theorem unsubst_subst (k : Key) (index : UInt8) (b : Bytes) : unsubst k index (subst k index b) = b := by
  apply List.ext_getElem (by simp [unsubst, subst])
  intro i h1 h2
  simp only [unsubst, subst, List.getElem_mapIdx]
  grind

theorem subst_length (k : Key) (index : UInt8) (b : Bytes) : (subst k index b).length = b.length := by
  simp [subst]

/-! ### `blockIndex` never divides by zero (after the repair) -/

theorem cdiv_some {x y : UInt16} (h : y ≠ 0) : cdiv x y = some (x / y) := by simp [cdiv, h]

theorem u16_ne_zero {y : UInt16} (h : y.toNat ≠ 0) : y ≠ 0 := by
  intro e; rw [e] at h; exact h rfl

theorem t1_ne_zero {t : UInt16} {v : Nat} (h : (t % 8).toNat = v) (hv : v ≠ 7) : t + 1 ≠ 0 := by
  apply u16_ne_zero
  simp [UInt16.toNat_add, UInt16.toNat_mod] at h ⊢
  omega

theorem div_add6_ne_zero (x y : UInt16) (hy : 7 ≤ y.toNat) : x / y + 6 ≠ 0 := by
  apply u16_ne_zero
  have hx := UInt16.toNat_lt x
  have hd : x.toNat / y.toNat ≤ x.toNat / 7 := Nat.div_le_div_left hy (by omega)
  have e6 : (6 : UInt16).toNat = 6 := by decide
  rw [UInt16.toNat_add, UInt16.toNat_div, e6]
  generalize x.toNat / y.toNat = q at *
  omega

theorem blockIndex_true_some (k : Key) (t i : UInt16) (hi : i.toNat < 65535) :
    ∃ v, blockIndex k true t i = some v := by
  have hi1 : i + 1 ≠ 0 := by
    apply u16_ne_zero; simp [UInt16.toNat_add]; omega
  unfold blockIndex
  split
  case h_6 h _ => simp [cdiv_some (t1_ne_zero h (by decide))]
  case h_7 h _ => simp [cdiv_some (t1_ne_zero h (by decide)), cdiv_some hi1]
  case h_8 h _ => simp [cdiv_some hi1]
  all_goals first | contradiction | exact ⟨_, rfl⟩

theorem blockIndex_false_some (k : Key) (t i : UInt16) : ∃ v, blockIndex k false t i = some v := by
  unfold blockIndex
  split
  case h_9 h _ => simp [cdiv_some (t1_ne_zero h (by decide))]
  case h_11 h _ =>
    have h5 : (5 + t).toNat % 8 = 7 := by
      simp [UInt16.toNat_add, UInt16.toNat_mod] at h ⊢
      omega
    have ht : 5 + t ≠ 0 := by apply u16_ne_zero; omega
    have hq := div_add6_ne_zero (i + 3) (5 + t) (by omega)
    simp [cdiv_some ht, cdiv_some hq]
  case h_13 h _ =>
    have ht : 3 + t ≠ 0 := by
      apply u16_ne_zero
      simp [UInt16.toNat_add, UInt16.toNat_mod] at h ⊢
      omega
    simp [cdiv_some ht]
  all_goals first | contradiction | exact ⟨_, rfl⟩

/-- Every round's `g`,`h` exist (no panic) and are byte-pair indices below 8. -/
theorem gh_some (k : Key) (index : UInt8) (i : Nat) :
    ∃ g h, gh k index i = some (g, h) ∧ g.toNat < 8 ∧ h.toNat < 8 := by
  unfold gh
  have hi : (u16 k.d + u16 index).toNat < 65535 := by
    have h1 := UInt8.toNat_lt k.d
    have h2 := UInt8.toNat_lt index
    simp [u16, UInt16.toNat_add]
    omega
  rcases hx : xyz k index with ⟨x, y, z⟩
  obtain ⟨bg, e1⟩ := blockIndex_true_some k (u16 (k.d*k.a) + UInt16.ofNat i + x) (u16 k.d + u16 index) hi
  obtain ⟨bh, e2⟩ := blockIndex_false_some k (y + u16 k.d + u16 (index * UInt8.ofNat (i+1)))
    (u16 k.d + x + u16 (u8 (UInt16.ofNat i * z) * k.a))
  refine ⟨(u8 (z*y) + bg) % 8, (u8 y - bh) % 8, ?_, ?_, ?_⟩
  · simp only [e1, e2, Option.bind_eq_bind, Option.bind_some]
  · simp [UInt8.toNat_mod]; omega
  · simp [UInt8.toNat_mod]; omega

theorem scrambleRounds_append (k : Key) (index : UInt8) (d : Bool) (b : Bytes) (xs ys : List Nat) :
    scrambleRounds k index d b (xs ++ ys) =
      (scrambleRounds k index d b xs).bind fun b' => scrambleRounds k index d b' ys := by
  induction xs generalizing b with
  | nil => simp [scrambleRounds]
  | cons x xs ih =>
    simp only [List.cons_append, scrambleRounds, Option.bind_eq_bind]
    cases gh k index x with
    | none => rfl
    | some p =>
      simp only [Option.bind_some]
      cases d
      · simp only [Bool.false_eq_true, if_false]
        cases encRound p.1.toNat p.2.toNat b with
        | none => rfl
        | some b1 => simp only [Option.bind_some]; exact ih b1
      · simp only [if_true]
        cases decRound p.1.toNat p.2.toNat b with
        | none => rfl
        | some b1 => simp only [Option.bind_some]; exact ih b1

/-- Running the rounds `is` forwards and then the same rounds in reverse order backwards is the
identity, and never panics, on a buffer of at least 16 bytes. -/
theorem scrambleRounds_inv (k : Key) (index : UInt8) (is : List Nat) (b : Bytes) (hl : 16 ≤ b.length) :
    ∃ b', scrambleRounds k index false b is = some b' ∧ b'.length = b.length ∧
      scrambleRounds k index true b' is.reverse = some b := by
  induction is generalizing b with
  | nil => exact ⟨b, rfl, rfl, rfl⟩
  | cons i is ih =>
    obtain ⟨g, h, e, hg, hh⟩ := gh_some k index i
    obtain ⟨b1, e1, l1, d1⟩ := round_inv (g := g.toNat) (h := h.toNat) (b := b) hg hh hl
    obtain ⟨b2, e2, l2, d2⟩ := ih b1 (by omega)
    refine ⟨b2, ?_, by omega, ?_⟩
    · simp [scrambleRounds, e, e1, e2]
    · rw [List.reverse_cons, scrambleRounds_append, d2]
      simp [scrambleRounds, e, d1]

theorem scramble_inv (k : Key) (index : UInt8) (b : Bytes) (hl : 16 ≤ b.length) :
    ∃ b', scramble k index false b = some b' ∧ b'.length = b.length ∧
      scramble k index true b' = some b := by
  obtain ⟨b', e1, l, e2⟩ := scrambleRounds_inv k index [0,1,2,3,4,5] b hl
  exact ⟨b', by simpa [scramble] using e1, l, by simpa [scramble] using e2⟩

/-- **The block transform is invertible for every key, index and block size**: `readInput`'s
transform undoes `flushOutput`'s, and neither panics. -/
theorem decBlock_encBlock (k : Key) (index : UInt8) (b : Bytes) (hl : 16 ≤ b.length) :
    ∃ c, encBlock k index b = some c ∧ c.length = b.length ∧ decBlock k index c = some b := by
  obtain ⟨s, e1, l, e2⟩ := scramble_inv k index (subst k index b) (by rw [subst_length]; exact hl)
  refine ⟨shuffle k s, by simp [encBlock, e1], ?_, ?_⟩
  · rw [shuffle_length, l, subst_length]
  · simp [decBlock, deshuffle_shuffle, e2, unsubst_subst]

end XMT.Cbk
