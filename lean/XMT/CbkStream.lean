/-
  XMT.CbkStream — the CBK stream wrapper (c2/wrapper/crypto.go CBK over data/crypto/cbk.go) is
  lossless: for every key, every block size `newSource` accepts, every chunking of the writes
  (then `Close`), every way the wire bytes are handed to the reader and every sequence of `Read`
  sizes, the reader gives back exactly the bytes written, then EOF.

  Part 1 (XMT/CbkStream1.lean): wire format and writer.  Part 2 (XMT/CbkStream2.lean): one `Read`.
  This file: sequences of `Read`s, `io.ReadAll`, and the layer statement `LGood (cbkLayer s0)` that
  `stack_roundtrip` asks for.  Core-only; no definition of XMT/Cbk.lean is changed.
-/
import XMT.CbkStream1
import XMT.CbkStream2
namespace XMT.Cbk
open XMT

/-! ### Sequences of `Read`s -/

/-- What a consumer issuing `Read`s of sizes `ks` must see on a stream carrying `data`: each `Read`
delivers the next `k` bytes (fewer only when fewer are left), and the first `Read` with nothing
left delivers nothing and reports EOF. -/
def seqSpec : Bytes → List Nat → List Bytes × Option RErr
  | _, [] => ([], none)
  | data, k :: ks =>
    if data = [] then ([[]], some .eof)
    else (data.take k :: (seqSpec (data.drop k) ks).1, (seqSpec (data.drop k) ks).2)

/-- All pieces together are the first `sum ks` bytes of the data. -/
theorem seqSpec_flatten (data : Bytes) (ks : List Nat) :
    (seqSpec data ks).1.flatten = data.take ks.sum := by
  induction ks generalizing data with
  | nil => simp [seqSpec]
  | cons k ks ih =>
    unfold seqSpec
    by_cases h : data = []
    · simp [h]
    · rw [if_neg h]
      simp only [List.flatten_cons, ih, List.sum_cons, List.take_add]

/-- The only error is EOF, and it is reported only after all the data was delivered. -/
theorem seqSpec_err (data : Bytes) (ks : List Nat) :
    (seqSpec data ks).2 = none ∨
      ((seqSpec data ks).2 = some .eof ∧ (seqSpec data ks).1.flatten = data) := by
  induction ks generalizing data with
  | nil => simp [seqSpec]
  | cons k ks ih =>
    unfold seqSpec
    by_cases h : data = []
    · simp [h]
    · rw [if_neg h]
      rcases ih (data.drop k) with e | ⟨e, f⟩
      · exact Or.inl e
      · exact Or.inr ⟨e, by simp only [List.flatten_cons, f, List.take_append_drop]⟩

/-- EOF is reached: more non-empty `Read`s than data bytes end in EOF. -/
theorem seqSpec_eof (data : Bytes) (ks : List Nat) (hk : ∀ k ∈ ks, 0 < k) (hl : data.length < ks.length) :
    (seqSpec data ks).2 = some .eof := by
  induction ks generalizing data with
  | nil => simp at hl
  | cons k ks ih =>
    unfold seqSpec
    by_cases h : data = []
    · simp [h]
    · rw [if_neg h]
      have hk0 : 0 < k := hk k (by simp)
      have hd : 0 < data.length := List.length_pos_iff.mpr h
      exact ih (data.drop k) (fun k' hk' => hk k' (by simp [hk'])) (by
        simp only [List.length_drop, List.length_cons] at hl ⊢; omega)

/-- **Any sequence of `Read` sizes** on a complete CBK stream, in any reader state. -/
theorem readSeq_spec {k : Key} {n : Nat} (hn : 16 ≤ n) (hb : n < 256) (ks : List Nat) :
    ∀ {s : St} {r : Codec.Stream} {ds : List Bytes}, RSt k n s r ds →
      readSeq s r ks = some (seqSpec (rem s ds) ks) := by
  induction ks with
  | nil => intro s r ds _; rfl
  | cons kk ks ih =>
    intro s r ds h
    obtain ⟨s', r', ds', e, h', q⟩ := read_spec hn hb h kk
    unfold readSeq seqSpec
    by_cases hd : rem s ds = []
    · rw [if_pos hd] at e
      simp [e, hd]
    · rw [if_neg hd] at e
      simp [e, hd, ih h', q]

/-- **`io.ReadAll`** on a complete CBK stream: all the data, no error, given one unit of fuel per
byte (every 512-byte `Read` before the last delivers at least one byte). -/
theorem readAll_spec {k : Key} {n : Nat} (hn : 16 ≤ n) (hb : n < 256) :
    ∀ (fuel : Nat) {s : St} {r : Codec.Stream} {ds : List Bytes}, RSt k n s r ds →
      (rem s ds).length < fuel → readAll fuel s r = some (rem s ds, none) := by
  intro fuel
  induction fuel with
  | zero => intro s r ds _ hf; omega
  | succ fuel ih =>
    intro s r ds h hf
    obtain ⟨s', r', ds', e, h', q⟩ := read_spec hn hb h 512
    unfold readAll
    by_cases hd : rem s ds = []
    · rw [if_pos hd] at e
      simp [e, hd]
    · rw [if_neg hd] at e
      have hlen : 0 < (rem s ds).length := List.length_pos_iff.mpr hd
      have hf' : (rem s' ds').length < fuel := by
        rw [q, List.length_drop]; omega
      simp [e, ih h' hf', q]

/-! ### The initial state -/

theorem newSource_spec {a b c d sz : UInt8} {s0 : St} (h : newSource a b c d sz = some s0) :
    ∃ n, 16 ≤ n ∧ n < 256 ∧ s0.buf.length = n + 1 ∧ s0.pos = 0 ∧ s0.total = -1 ∧ s0.index = 0 := by
  unfold newSource at h
  simp only [Option.map_eq_some_iff] at h
  obtain ⟨n, hn, rfl⟩ := h
  refine ⟨n, ?_, ?_, by simp, rfl, rfl, rfl⟩
  all_goals
    split at hn
    · cases hn; decide
    · split at hn
      · rename_i h4
        cases hn
        rcases h4 with h4 | h4 | h4 | h4 <;> subst h4 <;> decide
      · cases hn

theorem init_writer {s0 : St} {n : Nat} (hl : s0.buf.length = n + 1) (hp : s0.pos = 0)
    (ht : s0.total = -1) (hn : 16 ≤ n) : LInv s0.key n s0 [] :=
  ⟨rfl, hl, by simpa using hp, by simp, by simp; omega, Or.inr ⟨ht, rfl⟩⟩

theorem init_reader {s0 : St} {n : Nat} {cs : Codec.Stream} {ds : List Bytes} (hl : s0.buf.length = n + 1)
    (hp : s0.pos = 0) (ht : s0.total = -1) (hi : s0.index = 0) (hw : Wire s0.key n 0 ds cs.flatten) :
    RSt s0.key n s0 cs ds ∧ rem s0 ds = ds.flatten := by
  refine ⟨⟨⟨rfl, hl, by omega, by omega⟩, by rw [hi]; exact hw, fun h => by omega⟩, ?_⟩
  rw [rem, cur_nil (by omega)]; rfl

/-! ### The wrapper as a layer of the stack -/

theorem flushOutput_pos {s s' : St} {o : List Bytes} (h : flushOutput s = some (s', o)) : s'.pos = 0 := by
  unfold flushOutput at h
  split at h
  · rename_i h0; cases h; exact h0
  · split at h
    · cases h
    · simp only [Option.bind_eq_bind, Option.bind_eq_some_iff] at h
      obtain ⟨b, _, e⟩ := h
      cases e; rfl

/-- What the layer writes below for writes `ws` and a `Close` is what `writeAll` computes. -/
theorem layer_run (s0 : St) (ws : List Bytes) :
    ∀ (s : St) (out : List Bytes), writeAll s ws = some out →
      ∃ s', ((cbkLayer s0).close ((cbkLayer s0).writes (some s) ws).1).1 = some s' ∧ s'.pos = 0 ∧
        ((cbkLayer s0).writes (some s) ws).2 ++
          ((cbkLayer s0).close ((cbkLayer s0).writes (some s) ws).1).2 = out := by
  induction ws with
  | nil =>
    intro s out h
    simp only [writeAll, Option.map_eq_some_iff] at h
    obtain ⟨⟨s', o⟩, e, rfl⟩ := h
    have hc : (cbkLayer s0).close (some s) = (some s', o) := by
      show (match (some s).bind flushOutput with
        | none => (none, []) | some r => (some r.1, r.2)) = _
      rw [Option.bind_some, e]
    refine ⟨s', ?_, flushOutput_pos e, ?_⟩
    · show ((cbkLayer s0).close (some s)).1 = some s'
      rw [hc]
    · show [] ++ ((cbkLayer s0).close (some s)).2 = o
      rw [hc]; rfl
  | cons c cs ih =>
    intro s out h
    simp only [writeAll, Option.bind_eq_bind, Option.bind_eq_some_iff] at h
    obtain ⟨⟨s1, o⟩, e1, rest, e2, e3⟩ := h
    cases e3
    have hw : (cbkLayer s0).write (some s) c = (some s1, o) := by
      show (match (some s).bind (write · c) with
        | none => (none, []) | some r => (some r.1, r.2)) = _
      rw [Option.bind_some, e1]
    obtain ⟨s', f1, f2, f3⟩ := ih s1 rest e2
    refine ⟨s', ?_, f2, ?_⟩
    · simp only [Wrap.Layer.writes, hw]; exact f1
    · simp only [Wrap.Layer.writes, hw, List.append_assoc]; rw [f3]

/-- **The CBK stream round trip, full statement.**  For every key `(a, b, c, d)` and block size
`sz` accepted by `NewCBKSource` (0, 16, 32, 64, 128), and every list of writes `ws` (any chunking;
empty writes, no writes, totals that are or are not a multiple of the block size, more than 31
blocks): `Write` for each chunk followed by `Close` does not panic and produces blocks `out`; and
for **every** stream `cs` of pieces whose concatenation is the wire (the reader below may split
blocks anywhere, also in the count byte),
* `io.ReadAll` returns exactly `ws.flatten` without error (EOF is success) for any fuel above the
  wire length;
* **any** sequence `ks` of `Read` buffer sizes (zero included) sees exactly `seqSpec ws.flatten ks`:
  every `Read` delivers the next `k` bytes (fewer only if fewer are left) and the first `Read` with
  nothing left reports EOF — see `seqSpec_flatten`, `seqSpec_err`, `seqSpec_eof`. -/
theorem cbk_stream_chunked (a b c d sz : UInt8) (s0 : St) (h : newSource a b c d sz = some s0)
    (ws : List Bytes) :
    ∃ out, writeAll s0 ws = some out ∧
      ∀ cs : Codec.Stream, cs.flatten = out.flatten →
        (∀ fuel, out.flatten.length < fuel → readAll fuel s0 cs = some (ws.flatten, none)) ∧
        (∀ ks, readSeq s0 cs ks = some (seqSpec ws.flatten ks)) := by
  obtain ⟨n, hn, hb, hl, hp, ht, hi⟩ := newSource_spec h
  obtain ⟨out, ds, e, hw, hd⟩ := writeAll_spec hn ws (init_writer hl hp ht hn)
  rw [hi] at hw
  rw [List.nil_append] at hd
  refine ⟨out, e, fun cs hcs => ?_⟩
  obtain ⟨hr, hrem⟩ := init_reader (cs := cs) hl hp ht hi (by rw [hcs]; exact hw)
  rw [hd] at hrem
  refine ⟨fun fuel hf => ?_, fun ks => ?_⟩
  · have := readAll_spec hn hb fuel hr (by
      rw [hrem, ← hd]; exact Nat.lt_of_le_of_lt hw.length_le hf)
    rw [this, hrem]
  · rw [readSeq_spec hn hb ks hr, hrem]

/-- The same in words of the pieces delivered: together they are the first `sum ks` bytes written;
the only possible error is EOF, reported only once everything was delivered; and it is reported as
soon as the non-empty `Read`s outnumber the bytes. -/
theorem cbk_stream_reads (a b c d sz : UInt8) (s0 : St) (h : newSource a b c d sz = some s0)
    (ws : List Bytes) (out : List Bytes) (hout : writeAll s0 ws = some out) (cs : Codec.Stream)
    (hcs : cs.flatten = out.flatten) (ks : List Nat) :
    ∃ pieces e, readSeq s0 cs ks = some (pieces, e) ∧ pieces.flatten = ws.flatten.take ks.sum ∧
      (e = none ∨ (e = some .eof ∧ pieces.flatten = ws.flatten)) ∧
      ((∀ k ∈ ks, 0 < k) → ws.flatten.length < ks.length → e = some .eof) := by
  obtain ⟨out', e', hall⟩ := cbk_stream_chunked a b c d sz s0 h ws
  rw [hout] at e'; cases e'
  exact ⟨_, _, (hall cs hcs).2 ks, seqSpec_flatten _ _, seqSpec_err _ _, seqSpec_eof _ _⟩

/-- **`cbk_stream`.**  The CBK wrapper is a lossless layer of the wrapper stack (`Wrap.LGood`, the
hypothesis of `stack_roundtrip`): for every key and accepted block size and every chunking of the
writes, the reader returns the concatenation of the writes, the writer never panics, and a
repeated `Close` writes nothing. -/
theorem cbk_stream (a b c d sz : UInt8) (s0 : St) (h : newSource a b c d sz = some s0) :
    Wrap.LGood (cbkLayer s0) := by
  refine ⟨fun σ => ∃ s, σ = some s ∧ s.pos = 0, ?_, ?_⟩
  · rintro σ ⟨s, rfl, hp⟩
    have hf : flushOutput s = some (s, []) := by unfold flushOutput; rw [if_pos hp]
    have hc : (cbkLayer s0).close (some s) = (some s, []) := by
      show (match (some s).bind flushOutput with
        | none => (none, []) | some r => (some r.1, r.2)) = _
      rw [Option.bind_some, hf]
    rw [hc]
    exact ⟨rfl, s, rfl, hp⟩
  · intro ws
    obtain ⟨out, e, hall⟩ := cbk_stream_chunked a b c d sz s0 h ws
    obtain ⟨s', f1, f2, f3⟩ := layer_run s0 ws s0 out e
    refine ⟨⟨s', f1, f2⟩, ?_⟩
    have hrun : (cbkLayer s0).run ws = out := f3
    rw [hrun]
    show (match readAll (out.flatten.length + 2) s0 [out.flatten] with
      | some (b, none) => some b
      | _ => none) = _
    rw [(hall [out.flatten] (by simp)).1 (out.flatten.length + 2) (by omega)]

end XMT.Cbk
