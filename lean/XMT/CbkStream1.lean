/-
  XMT.CbkStream1 — part 1 of XMT.CbkStream (the CBK stream wrapper is lossless): the wire format
  (`Full`, `Wire`) and the writer: `Write`s in any chunking followed by `Close` put a complete CBK
  stream on the wire that carries exactly the concatenation of the writes.
  Core-only.  No definition of XMT/Cbk.lean is changed.
-/
import XMT.CbkLemmas
import XMT.WrapLemmas
import XMT.CodecLemmas
namespace XMT.Cbk
open XMT

/-! ### The wire format -/

/-- `Full k n i ds w j`: `w` is the concatenation of the encrypted *full* blocks (count byte `n`)
carrying the `n`-byte pieces `ds`; the block index is `i` before the first and `j` after the last. -/
inductive Full (k : Key) (n : Nat) : UInt8 → List Bytes → Bytes → UInt8 → Prop
  | nil (i : UInt8) : Full k n i [] [] i
  | cons {i j : UInt8} {d : Bytes} {ds : List Bytes} {c w : Bytes} :
      d.length = n → encBlock k (bump i) (d ++ [byteOf n]) = some c → c.length = n + 1 →
      Full k n (bump i) ds w j → Full k n i (d :: ds) (c ++ w) j

/-- `Wire k n i ds w`: `w` is a complete CBK stream (block index `i` before the first block)
carrying the data pieces `ds`: every block is the encryption of `d ++ junk ++ [len d]` with
`1 ≤ len d ≤ n`, and only the last block may be short (`junk ≠ []`). -/
inductive Wire (k : Key) (n : Nat) : UInt8 → List Bytes → Bytes → Prop
  | nil (i : UInt8) : Wire k n i [] []
  | cons {i : UInt8} {d junk : Bytes} {ds : List Bytes} {c w : Bytes} :
      0 < d.length → d.length + junk.length = n → (ds ≠ [] → junk = []) →
      encBlock k (bump i) (d ++ junk ++ [byteOf d.length]) = some c → c.length = n + 1 →
      Wire k n (bump i) ds w → Wire k n i (d :: ds) (c ++ w)

theorem Full.append {k : Key} {n : Nat} {i j l : UInt8} {ds ds' : List Bytes} {w w' : Bytes}
    (h : Full k n i ds w j) (h' : Full k n j ds' w' l) : Full k n i (ds ++ ds') (w ++ w') l := by
  induction h with
  | nil i => simpa using h'
  | cons hd he hc _ ih =>
    rw [List.cons_append, List.append_assoc]
    exact Full.cons hd he hc (ih h')

theorem Full.wire {k : Key} {n : Nat} {i j : UInt8} {ds ds' : List Bytes} {w w' : Bytes}
    (hn : 0 < n) (h : Full k n i ds w j) (h' : Wire k n j ds' w') : Wire k n i (ds ++ ds') (w ++ w') := by
  induction h with
  | nil i => simpa using h'
  | cons hd he hc _ ih =>
    rename_i d _ _ _
    rw [List.cons_append, List.append_assoc]
    refine Wire.cons (junk := []) (by omega) (by simpa using hd) (fun _ => rfl) ?_ hc (ih h')
    simpa [hd] using he

/-- The wire is longer than the data it carries. -/
theorem Wire.length_le {k : Key} {n : Nat} {i : UInt8} {ds : List Bytes} {w : Bytes}
    (h : Wire k n i ds w) : ds.flatten.length ≤ w.length := by
  induction h with
  | nil i => simp
  | cons h0 hl _ _ hc _ ih =>
    simp only [List.flatten_cons, List.length_append]
    omega

/-! ### The writer -/

/-- Writer state between the statements of `Write`: `p` are the bytes buffered so far. -/
structure WInv (k : Key) (n : Nat) (s : St) (p : Bytes) : Prop where
  key : s.key = k
  len : s.buf.length = n + 1
  total : s.total = n
  pos : s.pos = p.length
  pre : s.buf.take p.length = p
  le : p.length ≤ n

theorem byteOf_small {m : Nat} (h : m < 256) : (byteOf m).toNat = m := by
  rw [byteOf_toNat]; omega

/-- `flushOutput` with a non-empty buffer: one block `p ++ junk ++ [len p]` is encrypted and written. -/
theorem flush_pos {k : Key} {n : Nat} {s : St} {p : Bytes} (hn : 16 ≤ n) (h : WInv k n s p)
    (hp : 0 < p.length) :
    ∃ c junk, flushOutput s = some ({ s with buf := c, index := bump s.index, pos := 0 }, [c]) ∧
      c.length = n + 1 ∧ p.length + junk.length = n ∧
      encBlock k (bump s.index) (p ++ junk ++ [byteOf p.length]) = some c := by
  obtain ⟨hk, hl, ht, hpos, hpre, hle⟩ := h
  have hb : s.buf.set s.total.toNat (byteOf s.pos.toNat) =
      p ++ (s.buf.drop p.length).take (n - p.length) ++ [byteOf p.length] := by
    have e1 : s.total.toNat = n := by omega
    have e2 : s.pos.toNat = p.length := by omega
    rw [e1, e2, List.set_eq_take_append_cons_drop, if_pos (by omega)]
    have e3 : s.buf.drop (n + 1) = [] := List.drop_of_length_le (by omega)
    have e4 : s.buf.take n = s.buf.take p.length ++ (s.buf.drop p.length).take (n - p.length) := by
      have : n = p.length + (n - p.length) := by omega
      conv => lhs; rw [this, List.take_add]
    rw [e3, e4, hpre]
  obtain ⟨c, ec, lc, _⟩ := decBlock_encBlock k (bump s.index)
    (p ++ (s.buf.drop p.length).take (n - p.length) ++ [byteOf p.length]) (by simp; omega)
  refine ⟨c, (s.buf.drop p.length).take (n - p.length), ?_, ?_, ?_, ec⟩
  · unfold flushOutput
    have h1 : ¬ s.pos = 0 := by omega
    have h2 : ¬ (s.total < 0 ∨ s.total ≥ s.buf.length) := by omega
    simp only [h1, h2, if_false, hb, hk, ec, Option.bind_eq_bind, Option.bind_some]
  · rw [lc]; simp; omega
  · simp; omega

/-- The `if pos >= total { flushOutput }` at the top of the `Write` loop (and at its end): at most
one full block goes out and fewer than `n` bytes stay buffered. -/
theorem flush_if_full {k : Key} {n : Nat} {s : St} {p : Bytes} (hn : 16 ≤ n)
    (h : WInv k n s p) :
    ∃ s' o ds p', (if s.pos ≥ s.total then flushOutput s else some (s, [])) = some (s', o) ∧
      WInv k n s' p' ∧ p'.length < n ∧ Full k n s.index ds o.flatten s'.index ∧ p = ds.flatten ++ p' := by
  by_cases hc : s.pos ≥ s.total
  · have hpn : p.length = n := by have := h.pos; have := h.total; have := h.le; omega
    obtain ⟨c, junk, e, lc, lj, ec⟩ := flush_pos hn h (by omega)
    have hj : junk = [] := List.eq_nil_of_length_eq_zero (by omega)
    subst hj
    refine ⟨_, [c], [p], [], by rw [if_pos hc]; exact e, ?_, by simp; omega, ?_, by simp⟩
    · exact ⟨h.key, lc, h.total, rfl, rfl, by simp⟩
    · have := Full.cons (k := k) (i := s.index) hpn (by simpa [hpn] using ec) lc (Full.nil (bump s.index))
      simpa using this
  · refine ⟨s, [], [], p, by rw [if_neg hc], h, ?_, Full.nil _, by simp⟩
    have := h.pos; have := h.total; omega

/-- One iteration of the `Write` loop, with the `do` block flattened. -/
theorem writeLoop_succ (fuel : Nat) (s : St) (rest : Bytes) (out : List Bytes) :
    writeLoop (fuel+1) s rest out =
      if rest.isEmpty then some (s, out) else
        (if s.pos ≥ s.total then flushOutput s else some (s, [])).bind fun x =>
          if x.1.pos < 0 ∨ x.1.pos > x.1.total ∨ x.1.total > x.1.buf.length then none
          else
            writeLoop fuel { x.1 with
                buf := x.1.buf.take x.1.pos.toNat ++ rest.take (min (x.1.total - x.1.pos).toNat rest.length) ++
                  x.1.buf.drop (x.1.pos.toNat + min (x.1.total - x.1.pos).toNat rest.length),
                pos := x.1.pos + (min (x.1.total - x.1.pos).toNat rest.length : Nat) }
              (rest.drop (min (x.1.total - x.1.pos).toNat rest.length)) (out ++ x.2) := by
  by_cases h1 : rest.isEmpty = true
  · rw [writeLoop, if_pos h1, if_pos h1]
  · rw [writeLoop, if_neg h1, if_neg h1]
    by_cases h2 : s.pos ≥ s.total
    · simp only [if_pos h2]; rfl
    · simp only [if_neg h2]; rfl

/-- The `Write` loop: only full blocks go out; the data buffered before plus the data written is
the data of those blocks plus what is buffered after. -/
theorem writeLoop_spec {k : Key} {n : Nat} (hn : 16 ≤ n) :
    ∀ (fuel : Nat) (s : St) (p rest : Bytes) (out : List Bytes), WInv k n s p → rest.length < fuel →
    ∃ s' o ds p', writeLoop fuel s rest out = some (s', out ++ o) ∧ WInv k n s' p' ∧
      Full k n s.index ds o.flatten s'.index ∧ p ++ rest = ds.flatten ++ p' := by
  intro fuel
  induction fuel with
  | zero => intro s p rest out _ hf; omega
  | succ fuel ih =>
    intro s p rest out h hf
    rw [writeLoop_succ]
    by_cases hr : rest.isEmpty = true
    · have : rest = [] := by simpa using hr
      subst this
      exact ⟨s, [], [], p, by simp, h, Full.nil _, by simp⟩
    · have hrl : 0 < rest.length := by
        cases rest with
        | nil => simp at hr
        | cons _ _ => simp
      obtain ⟨s1, o1, ds1, p1, e1, h1, l1, f1, q1⟩ := flush_if_full hn h
      rw [if_neg hr, e1, Option.bind_some]
      simp only []
      obtain ⟨hk, hl, ht, hpos, hpre, hle⟩ := h1
      have hchk : ¬ (s1.pos < 0 ∨ s1.pos > s1.total ∨ s1.total > s1.buf.length) := by omega
      rw [if_neg hchk]
      have hi : min (s1.total - s1.pos).toNat rest.length = min (n - p1.length) rest.length := by
        have : (s1.total - s1.pos).toNat = n - p1.length := by omega
        rw [this]
      have hpt : s1.pos.toNat = p1.length := by omega
      simp only [hi, hpt]
      generalize hI : min (n - p1.length) rest.length = i
      have hi1 : 1 ≤ i := by omega
      have hi2 : i ≤ n - p1.length := by omega
      have hi3 : i ≤ rest.length := by omega
      have hinv2 : WInv k n { s1 with buf := s1.buf.take p1.length ++ rest.take i ++ s1.buf.drop (p1.length + i),
                                      pos := s1.pos + i } (p1 ++ rest.take i) := by
        refine ⟨hk, ?_, ht, ?_, ?_, ?_⟩
        · simp only [List.length_append, List.length_take, List.length_drop]; omega
        · simp only [List.length_append, List.length_take]; omega
        · show List.take (p1 ++ rest.take i).length (s1.buf.take p1.length ++ rest.take i ++ s1.buf.drop (p1.length + i)) = _
          rw [hpre]
          exact List.take_left' rfl
        · simp only [List.length_append, List.length_take]; omega
      obtain ⟨s', o', ds', p', e2, h2, f2, q2⟩ := ih _ (p1 ++ rest.take i) (rest.drop i) (out ++ o1) hinv2
        (by simp only [List.length_drop]; omega)
      refine ⟨s', o1 ++ o', ds1 ++ ds', p', ?_, h2, ?_, ?_⟩
      · rw [e2, List.append_assoc]
      · rw [List.flatten_append]; exact Full.append f1 f2
      · rw [q1, List.flatten_append, List.append_assoc, List.append_assoc, ← q2, List.append_assoc,
          List.take_append_drop]

/-- Writer state between `Write` calls: fewer than `n` bytes `p` are buffered; `total` is still `-1`
before the first `Write`. -/
structure LInv (k : Key) (n : Nat) (s : St) (p : Bytes) : Prop where
  key : s.key = k
  len : s.buf.length = n + 1
  pos : s.pos = p.length
  pre : s.buf.take p.length = p
  lt : p.length < n
  total : s.total = n ∨ (s.total = -1 ∧ p = [])

/-- `Write`, with the `do` block flattened. -/
theorem write_eq (s : St) (b : Bytes) :
    write s b =
      (writeLoop (b.length + 1) (if s.total = -1 then { s with total := (s.buf.length : Int) - 1 } else s) b []).bind
        fun x => (if x.1.pos ≥ x.1.total then flushOutput x.1 else some (x.1, [])).bind
          fun y => some (y.1, x.2 ++ y.2) := by
  unfold write
  simp only [Option.bind_eq_bind]
  generalize writeLoop (b.length + 1) (if s.total = -1 then { s with total := (s.buf.length : Int) - 1 } else s) b [] = r
  cases r with
  | none => rfl
  | some x =>
    obtain ⟨s1, out⟩ := x
    simp only [Option.bind_some]
    by_cases h : s1.pos < s1.total
    · have h' : ¬ s1.pos ≥ s1.total := by omega
      simp [h, h']
    · have h' : s1.pos ≥ s1.total := by omega
      rw [if_neg h, if_pos h']

/-- One `Write`: only full blocks go out, fewer than `n` bytes stay buffered. -/
theorem write_spec {k : Key} {n : Nat} (hn : 16 ≤ n) {s : St} {p : Bytes}
    (h : LInv k n s p) (c : Bytes) :
    ∃ s' o ds p', write s c = some (s', o) ∧ LInv k n s' p' ∧
      Full k n s.index ds o.flatten s'.index ∧ p ++ c = ds.flatten ++ p' := by
  obtain ⟨hk, hl, hpos, hpre, hlt, ht⟩ := h
  have h1 : WInv k n (if s.total = -1 then { s with total := (s.buf.length : Int) - 1 } else s) p := by
    rcases ht with ht | ⟨ht, _⟩
    · have : ¬ s.total = -1 := by omega
      rw [if_neg this]
      exact ⟨hk, hl, ht, hpos, hpre, by omega⟩
    · rw [if_pos ht]
      exact ⟨hk, hl, by show (s.buf.length : Int) - 1 = n; omega, hpos, hpre, by omega⟩
  have hidx : (if s.total = -1 then { s with total := (s.buf.length : Int) - 1 } else s).index = s.index := by
    split <;> rfl
  obtain ⟨s2, o2, ds2, p2, e2, h2, f2, q2⟩ := writeLoop_spec hn (c.length + 1) _ p c [] h1 (by omega)
  obtain ⟨s3, o3, ds3, p3, e3, h3, l3, f3, q3⟩ := flush_if_full hn h2
  rw [hidx] at f2
  refine ⟨s3, o2 ++ o3, ds2 ++ ds3, p3, ?_, ?_, ?_, ?_⟩
  · rw [write_eq, e2, Option.bind_some]
    simp only [List.nil_append]
    rw [e3, Option.bind_some]
  · exact ⟨h3.key, h3.len, h3.pos, h3.pre, l3, Or.inl h3.total⟩
  · rw [List.flatten_append]; exact Full.append f2 f3
  · rw [q2, q3, List.flatten_append, List.append_assoc]

/-- `Close` (= `Flush`): the buffered bytes, if any, go out as the last block. -/
theorem close_spec {k : Key} {n : Nat} (hn : 16 ≤ n) {s : St} {p : Bytes}
    (h : LInv k n s p) :
    ∃ s' o ds, flushOutput s = some (s', o) ∧ s'.pos = 0 ∧ Wire k n s.index ds o.flatten ∧ ds.flatten = p := by
  obtain ⟨hk, hl, hpos, hpre, hlt, ht⟩ := h
  by_cases hp : p.length = 0
  · have : p = [] := List.eq_nil_of_length_eq_zero hp
    subst this
    refine ⟨s, [], [], ?_, by simpa using hpos, Wire.nil _, rfl⟩
    unfold flushOutput
    rw [if_pos (by simpa using hpos)]
  · have ht' : s.total = n := by
      rcases ht with ht | ⟨_, e⟩
      · exact ht
      · subst e; simp at hp
    obtain ⟨c, junk, e, lc, lj, ec⟩ := flush_pos hn ⟨hk, hl, ht', hpos, hpre, by omega⟩ (by omega)
    refine ⟨_, [c], [p], e, rfl, ?_, by simp⟩
    have := Wire.cons (k := k) (i := s.index) (ds := []) (by omega) lj (fun h => absurd rfl h) ec lc (Wire.nil _)
    simpa using this

/-- Writes, then `Close`: the bytes put on the wire form a complete CBK stream carrying exactly the
concatenation of the writes — whatever the chunking. -/
theorem writeAll_spec {k : Key} {n : Nat} (hn : 16 ≤ n) (ws : List Bytes) :
    ∀ {s : St} {p : Bytes}, LInv k n s p →
    ∃ out ds, writeAll s ws = some out ∧ Wire k n s.index ds out.flatten ∧ ds.flatten = p ++ ws.flatten := by
  induction ws with
  | nil =>
    intro s p h
    obtain ⟨s', o, ds, e, _, hw, hd⟩ := close_spec hn h
    exact ⟨o, ds, by simp [writeAll, e], hw, by simpa using hd⟩
  | cons c cs ih =>
    intro s p h
    obtain ⟨s1, o1, ds1, p1, e1, h1, f1, q1⟩ := write_spec hn h c
    obtain ⟨o2, ds2, e2, w2, q2⟩ := ih h1
    refine ⟨o1 ++ o2, ds1 ++ ds2, by simp [writeAll, e1, e2], ?_, ?_⟩
    · rw [List.flatten_append]; exact Full.wire (by omega) f1 w2
    · rw [List.flatten_append, q2, List.flatten_cons, ← List.append_assoc, ← List.append_assoc, q1]

end XMT.Cbk

