/-
  XMT.CbkStream2 — the CBK stream reader on a complete CBK stream (part 2 of XMT.CbkStream).
-/
import XMT.CbkStream1
namespace XMT.Cbk
open XMT

/-! ### The reader -/

/-- Reader state: the key, the buffer size, and the two range facts `Read` relies on. -/
structure RInv (k : Key) (n : Nat) (s : St) : Prop where
  key : s.key = k
  len : s.buf.length = n + 1
  pos : 0 ≤ s.pos
  total : s.total ≤ n

/-- The decrypted bytes of the current block not yet delivered: `buf[pos:total]`. -/
def cur (s : St) : Bytes := (s.buf.drop s.pos.toNat).take (s.total - s.pos).toNat

/-- `readInput` at the end of the stream. -/
theorem readInput_eof {s : St} {r : Codec.Stream} (hr : r.flatten = []) :
    ∃ r', readInput s r = some ({ s with total := 0 }, r', 0, some .eof) ∧ r'.flatten = [] := by
  unfold readInput
  have h1 := Codec.readFull_fst s.buf.length r
  have h2 := Codec.readFull_snd s.buf.length r
  generalize Codec.readFull s.buf.length r = q at h1 h2
  obtain ⟨got, r'⟩ := q
  simp only [hr, List.take_nil, List.drop_nil] at h1 h2
  subst h1
  exact ⟨r', by simp, h2⟩

/-- `readInput` in front of a block: the block is read whole (whatever the pieces of the stream),
decrypted, and its count byte becomes `total`. -/
theorem readInput_block {k : Key} {n : Nat} {s : St} {r : Codec.Stream} {d junk c w : Bytes}
    (hn : 16 ≤ n) (hb : n < 256) (h : RInv k n s) (hr : r.flatten = c ++ w) (hc : c.length = n + 1)
    (hd0 : 0 < d.length) (hdj : d.length + junk.length = n)
    (he : encBlock k (bump s.index) (d ++ junk ++ [byteOf d.length]) = some c) :
    ∃ r', readInput s r = some ({ s with buf := d ++ junk ++ [byteOf d.length], index := bump s.index,
                                         total := d.length, pos := 0 }, r', n + 1, none) ∧
      r'.flatten = w := by
  obtain ⟨hk, hl, _, _⟩ := h
  unfold readInput
  have h1 := Codec.readFull_fst s.buf.length r
  have h2 := Codec.readFull_snd s.buf.length r
  generalize Codec.readFull s.buf.length r = q at h1 h2
  obtain ⟨got, r'⟩ := q
  simp only [hr, hl] at h1 h2
  rw [List.take_left' hc] at h1
  rw [List.drop_left' hc] at h2
  subst h1
  refine ⟨r', ?_, h2⟩
  obtain ⟨c', ec, lc, dc⟩ := decBlock_encBlock k (bump s.index) (d ++ junk ++ [byteOf d.length]) (by simp; omega)
  rw [he] at ec
  cases ec
  have hlast : (d ++ junk ++ [byteOf d.length])[(d ++ junk ++ [byteOf d.length]).length - 1]? = some (byteOf d.length) := by
    simp
  have hcnt : ((byteOf d.length).toNat : Int) = d.length := by
    rw [byteOf_small (by omega)]
  simp only [hc, hl, hk, dc, hlast, Option.bind_eq_bind, Option.bind_some]
  rw [hcnt]
  have e1 : ¬ (n + 1 = 0) := by omega
  have e3 : ¬ ((d.length : Int) = 0) := by omega
  have e4 : ¬ ((d.length : Int) > ((d ++ junk ++ [byteOf d.length]).length : Int) - 1) := by
    simp only [List.length_append, List.length_cons, List.length_nil]; omega
  rw [if_neg e1, if_neg (by simp), if_neg e3, if_neg e4]

theorem cur_length {k : Key} {n : Nat} {s : St} (h : RInv k n s) : (cur s).length = (s.total - s.pos).toNat := by
  obtain ⟨_, hl, hp, ht⟩ := h
  simp only [cur, List.length_take, List.length_drop]
  omega

theorem cur_nil {s : St} (h : s.total ≤ s.pos) : cur s = [] := by
  have : (s.total - s.pos).toNat = 0 := by omega
  simp [cur, this]

/-- Delivering `i` bytes of the current block. -/
theorem cur_step {s : St} {i : Nat} (hp : 0 ≤ s.pos) (hi : i ≤ (s.total - s.pos).toNat) :
    cur s = (s.buf.drop s.pos.toNat).take i ++ cur { s with pos := s.pos + i } := by
  have e1 : (s.total - s.pos).toNat = i + ((s.total - (s.pos + i)).toNat) := by omega
  have e2 : (s.pos + (i : Int)).toNat = s.pos.toNat + i := by omega
  simp only [cur]
  rw [e1, List.take_add, List.drop_drop, e2]

/-- What the reader still has to deliver: the rest of the current block and the data of the blocks
not read yet. -/
def rem (s : St) (ds : List Bytes) : Bytes := cur s ++ ds.flatten

/-- Reader state `s` in front of the rest `r` of a complete CBK stream carrying `ds`; a short block
is the last one. -/
structure RSt (k : Key) (n : Nat) (s : St) (r : Codec.Stream) (ds : List Bytes) : Prop where
  inv : RInv k n s
  wire : Wire k n s.index ds r.flatten
  part : s.pos < s.total → s.total < n → ds = []

/-- `readInput` on a complete CBK stream: EOF exactly when no block is left, otherwise the next
block becomes the current one. -/
theorem readInput_spec {k : Key} {n : Nat} {s : St} {r : Codec.Stream} {ds : List Bytes}
    (hn : 16 ≤ n) (hb : n < 256) (h : RInv k n s) (hw : Wire k n s.index ds r.flatten) :
    (ds = [] ∧ ∃ r', readInput s r = some ({ s with total := 0 }, r', 0, some .eof) ∧ r'.flatten = []) ∨
    (∃ d ds' s' r', ds = d :: ds' ∧ readInput s r = some (s', r', n + 1, none) ∧
      RSt k n s' r' ds' ∧ s'.pos = 0 ∧ s'.total = d.length ∧ 0 < d.length ∧ cur s' = d) := by
  generalize hf : r.flatten = w at hw
  cases hw with
  | nil => exact Or.inl ⟨rfl, readInput_eof hf⟩
  | cons h0 hdj hj he hc hw' =>
    rename_i d junk ds' c w'
    obtain ⟨r', e, hr'⟩ := readInput_block hn hb h hf hc h0 hdj he
    refine Or.inr ⟨d, ds', _, r', rfl, e, ⟨⟨h.key, ?_, ?_, ?_⟩, ?_, ?_⟩, rfl, rfl, h0, ?_⟩
    · simp only [List.length_append, List.length_cons, List.length_nil]; omega
    · exact Int.le_refl 0
    · show (d.length : Int) ≤ n; omega
    · rw [hr']; exact hw'
    · intro _ hlt
      have hlt' : (d.length : Int) < n := hlt
      apply Classical.byContradiction
      intro hne
      have := hj hne
      subst this
      simp at hdj; omega
    · show ((d ++ junk ++ [byteOf d.length]).drop (0 : Int).toNat).take ((d.length : Int) - 0).toNat = d
      have : ((d.length : Int) - 0).toNat = d.length := by omega
      rw [this, List.append_assoc]
      simp

theorem take_drop_prefix (X Y : Bytes) {m : Nat} (h : X.length ≤ m) :
    (X ++ Y).take m = X ++ Y.take (m - X.length) ∧ (X ++ Y).drop m = Y.drop (m - X.length) := by
  rw [List.take_append, List.drop_append, List.take_of_length_le h, List.drop_of_length_le h]
  simp

/-- The copy loop of `Read`: it delivers the next `kk - len acc` bytes of what is left (all of it if
there is less), crossing block boundaries as needed. -/
theorem readLoop_spec {k : Key} {n : Nat} (hn : 16 ≤ n) (hb : n < 256) (kk : Nat) :
    ∀ (fuel : Nat) (s : St) (r : Codec.Stream) (acc : Bytes) (ds : List Bytes), RSt k n s r ds →
      (s.pos ≥ s.total → acc.length = kk ∨ ds = []) → acc.length ≤ kk → kk - acc.length < fuel →
    ∃ s' r' ds', readLoop fuel s r kk acc = some (s', r', acc ++ (rem s ds).take (kk - acc.length), none) ∧
      RSt k n s' r' ds' ∧ rem s' ds' = (rem s ds).drop (kk - acc.length) := by
  intro fuel
  induction fuel with
  | zero => intro s r acc ds _ _ _ hf; omega
  | succ fuel ih =>
    intro s r acc ds h hq hacc hf
    have hinv := h.inv
    obtain ⟨⟨hk, hl, hp0, htn⟩, hw, hpart⟩ := h
    rw [readLoop]
    by_cases hC : acc.length < kk ∧ s.pos < s.total ∧ s.total < s.buf.length
    · rw [if_pos hC]
      obtain ⟨hC1, hC2, hC3⟩ := hC
      rw [if_neg (by omega : ¬ s.total ≤ 0), if_neg (by omega : ¬ s.pos < 0)]
      simp only []
      generalize hI : min (kk - acc.length) (s.total - s.pos).toNat = i
      have hi1 : 1 ≤ i := by omega
      have hi2 : i ≤ kk - acc.length := by omega
      have hi3 : i ≤ (s.total - s.pos).toNat := by omega
      have hX : ((s.buf.drop s.pos.toNat).take i).length = i := by
        simp only [List.length_take, List.length_drop]; omega
      have hcur := cur_step (s := s) hp0 hi3
      have hinv1 : RInv k n { s with pos := s.pos + i } := ⟨hk, hl, by show 0 ≤ s.pos + (i : Int); omega, htn⟩
      generalize (s.buf.drop s.pos.toNat).take i = X at hX hcur ⊢
      have hlen' : (acc ++ X).length = acc.length + i := by
        rw [List.length_append, hX]
      by_cases hA : s.pos + (i : Int) ≥ s.total ∧ s.total ≥ (s.buf.length : Int) - 1
      · rw [if_pos hA]
        have hcn : cur { s with pos := s.pos + i } = [] := cur_nil (by show s.total ≤ s.pos + (i : Int); omega)
        rw [hcn, List.append_nil] at hcur
        rcases readInput_spec hn hb hinv1 hw with ⟨hds, r', e, hr'⟩ | ⟨d, ds', s2, r', hds, e, h2, hp2, ht2, hd0, hc2⟩
        · -- end of stream behind a full block
          subst hds
          simp only [e, Option.bind_eq_bind, Option.bind_some]
          rw [if_neg (by simp)]
          have h2 : RSt k n { s with pos := s.pos + i, total := 0 } r' [] :=
            ⟨⟨hk, hl, hinv1.pos, by show (0 : Int) ≤ n; omega⟩, by rw [hr']; exact Wire.nil _, fun _ _ => rfl⟩
          obtain ⟨s', r'', ds'', e', h', q'⟩ := ih _ r' (acc ++ X) [] h2
            (fun _ => Or.inr rfl) (by omega) (by omega)
          have hrem2 : rem { s with pos := s.pos + i, total := 0 } [] = [] := by
            rw [rem, cur_nil (by show (0 : Int) ≤ s.pos + (i : Int); omega)]; rfl
          rw [hrem2] at e' q'
          have hrs : rem s [] = X := by rw [rem, hcur]; simp
          refine ⟨s', r'', ds'', ?_, h', ?_⟩
          · rw [e', hrs, List.take_of_length_le (l := X) (by rw [hX]; exact hi2)]; simp
          · rw [q', hrs, List.drop_of_length_le (l := X) (by rw [hX]; exact hi2)]; simp
        · -- the next block becomes the current one
          subst hds
          simp only [e, Option.bind_eq_bind, Option.bind_some]
          rw [if_neg (by simp)]
          obtain ⟨s', r'', ds'', e', h', q'⟩ := ih s2 r' (acc ++ X) ds' h2
            (fun hge => by omega) (by omega) (by omega)
          have hrem2 : rem s2 ds' = d ++ ds'.flatten := by rw [rem, hc2]
          have hrem : rem s (d :: ds') = cur s ++ rem s2 ds' := by rw [hrem2, rem, List.flatten_cons]
          obtain ⟨t1, t2⟩ := take_drop_prefix (cur s) (rem s2 ds') (m := kk - acc.length) (by rw [hcur, hX]; exact hi2)
          have hm : kk - (acc ++ X).length = kk - acc.length - (cur s).length := by
            rw [hlen', hcur, hX]; omega
          refine ⟨s', r'', ds'', ?_, h', ?_⟩
          · rw [e', hrem, t1, hm, ← hcur, List.append_assoc]
          · rw [q', hrem, t2, hm]
      · rw [if_neg hA]
        have hrem : rem s ds = X ++ rem { s with pos := s.pos + i } ds := by
          rw [rem, rem, ← List.append_assoc, ← hcur]
        have h1 : RSt k n { s with pos := s.pos + i } r ds :=
          ⟨hinv1, hw, fun _ hlt => hpart hC2 hlt⟩
        obtain ⟨s', r'', ds'', e', h', q'⟩ := ih _ r (acc ++ X) ds h1
          (fun hge => by
            have hge' : s.pos + (i : Int) ≥ s.total := hge
            by_cases hm : i = kk - acc.length
            · left; rw [hlen']; omega
            · right; exact hpart hC2 (by omega))
          (by omega) (by omega)
        obtain ⟨t1, t2⟩ := take_drop_prefix (X) (rem { s with pos := s.pos + i } ds)
          (m := kk - acc.length) (by rw [hX]; exact hi2)
        have hm : kk - (acc ++ X).length
            = kk - acc.length - (X).length := by
          rw [hlen', hX]; omega
        refine ⟨s', r'', ds'', ?_, h', ?_⟩
        · rw [e', hrem, t1, hm, List.append_assoc]
        · rw [q', hrem, t2, hm]
    · rw [if_neg hC, if_neg (by omega : ¬ s.total > s.buf.length)]
      refine ⟨s, r, ds, ?_, ⟨hinv, hw, hpart⟩, ?_⟩
      · by_cases hm : acc.length = kk
        · simp [hm]
        · have hge : s.pos ≥ s.total := by omega
          have hds : ds = [] := by
            rcases hq hge with h | h
            · exact absurd h hm
            · exact h
          simp [rem, cur_nil hge, hds]
      · by_cases hm : acc.length = kk
        · simp [hm]
        · have hge : s.pos ≥ s.total := by omega
          have hds : ds = [] := by
            rcases hq hge with h | h
            · exact absurd h hm
            · exact h
          simp [rem, cur_nil hge, hds]

/-! ### `Read` -/

theorem read_fast {s : St} {r : Codec.Stream} {kk : Nat} (h : s.total - s.pos > kk) (hp : 0 ≤ s.pos)
    (hl : s.pos + kk ≤ s.buf.length) :
    Cbk.read s r kk = some ({ s with pos := s.pos + kk }, r, (s.buf.drop s.pos.toNat).take kk, none) := by
  unfold Cbk.read
  rw [if_pos h, if_neg (by omega), if_neg (by omega)]

theorem read_eof {s s2 : St} {r r' : Codec.Stream} {kk : Nat} (h : ¬ s.total - s.pos > kk)
    (hp : s.pos ≥ s.total) (e : readInput s r = some (s2, r', 0, some .eof)) :
    Cbk.read s r kk = some (s2, r', [], some .eof) := by
  unfold Cbk.read
  rw [if_neg h]
  simp only [if_pos hp, e, Option.bind_eq_bind, Option.bind_some]
  simp

theorem read_load {s s2 : St} {r r' : Codec.Stream} {kk o : Nat} (h : ¬ s.total - s.pos > kk)
    (hp : s.pos ≥ s.total) (e : readInput s r = some (s2, r', o, none)) :
    Cbk.read s r kk = readLoop (kk + 1) s2 r' kk [] := by
  unfold Cbk.read
  rw [if_neg h]
  simp only [if_pos hp, e, Option.bind_eq_bind, Option.bind_some]
  simp

theorem read_cont {s : St} {r : Codec.Stream} {kk : Nat} (h : ¬ s.total - s.pos > kk)
    (hp : ¬ s.pos ≥ s.total) : Cbk.read s r kk = readLoop (kk + 1) s r kk [] := by
  unfold Cbk.read
  rw [if_neg h]
  simp only [if_neg hp, Option.bind_eq_bind, Option.bind_some]

/-- **One `Read` of any size `kk`** in any reader state on a complete CBK stream: it delivers the
next `kk` bytes of the data still to come (all of it if there is less), and reports EOF exactly when
nothing is left. -/
theorem read_spec {k : Key} {n : Nat} (hn : 16 ≤ n) (hb : n < 256) {s : St} {r : Codec.Stream}
    {ds : List Bytes} (h : RSt k n s r ds) (kk : Nat) :
    ∃ s' r' ds', Cbk.read s r kk =
        some (s', r', (rem s ds).take kk, if rem s ds = [] then some .eof else none) ∧
      RSt k n s' r' ds' ∧ rem s' ds' = (rem s ds).drop kk := by
  have hinv := h.inv
  have hcl := cur_length hinv
  obtain ⟨⟨hk, hl, hp0, htn⟩, hw, hpart⟩ := h
  by_cases hfast : s.total - s.pos > kk
  · -- enough bytes in the current block
    have hi : kk ≤ (s.total - s.pos).toNat := by omega
    have hcur := cur_step (s := s) hp0 hi
    have hX : ((s.buf.drop s.pos.toNat).take kk).length = kk := by
      simp only [List.length_take, List.length_drop]; omega
    rw [read_fast hfast hp0 (by omega)]
    generalize (s.buf.drop s.pos.toNat).take kk = X at hX hcur ⊢
    have hrem : rem s ds = X ++ rem { s with pos := s.pos + kk } ds := by
      rw [rem, rem, ← List.append_assoc, ← hcur]
    have hne : rem s ds ≠ [] := by
      intro e
      have := congrArg List.length e
      simp only [rem, List.length_append, hcl, List.length_nil] at this
      omega
    refine ⟨{ s with pos := s.pos + kk }, r, ds, ?_, ⟨⟨hk, hl, by show 0 ≤ s.pos + (kk : Int); omega, htn⟩, hw, fun _ hlt => hpart (by omega) hlt⟩, ?_⟩
    · rw [if_neg hne, hrem, List.take_left' hX]
    · rw [hrem, List.drop_left' hX]
  · by_cases hge : s.pos ≥ s.total
    · have hrem : rem s ds = ds.flatten := by rw [rem, cur_nil hge]; rfl
      rcases readInput_spec hn hb hinv hw with ⟨hds, r', e, hr'⟩ | ⟨d, ds', s2, r', hds, e, h2, hp2, ht2, hd0, hc2⟩
      · subst hds
        rw [read_eof hfast hge e, hrem]
        refine ⟨{ s with total := 0 }, r', [], by simp, ⟨⟨hk, hl, hp0, by show (0 : Int) ≤ n; omega⟩, by rw [hr']; exact Wire.nil _,
          fun _ _ => rfl⟩, ?_⟩
        rw [rem, cur_nil (by show (0 : Int) ≤ s.pos; omega)]; simp
      · subst hds
        rw [read_load hfast hge e]
        obtain ⟨s', r'', ds'', e', h', q'⟩ := readLoop_spec hn hb kk (kk + 1) s2 r' [] ds' h2
          (fun hge2 => by omega) (by simp) (by simp)
        have hrem2 : rem s2 ds' = rem s (d :: ds') := by rw [hrem, rem, hc2]; rfl
        have hne : rem s (d :: ds') ≠ [] := by
          rw [hrem]; intro e0
          have := congrArg List.length e0
          simp only [List.flatten_cons, List.length_append, List.length_nil] at this; omega
        refine ⟨s', r'', ds'', ?_, h', ?_⟩
        · rw [e', if_neg hne, hrem2]; simp
        · rw [q', hrem2]; simp
    · rw [read_cont hfast hge]
      obtain ⟨s', r'', ds'', e', h', q'⟩ := readLoop_spec hn hb kk (kk + 1) s r [] ds ⟨hinv, hw, hpart⟩
        (fun hge2 => absurd hge2 hge) (by simp) (by simp)
      have hne : rem s ds ≠ [] := by
        intro e0
        have := congrArg List.length e0
        simp only [rem, List.length_append, hcl, List.length_nil] at this
        omega
      refine ⟨s', r'', ds'', ?_, h', ?_⟩
      · rw [e', if_neg hne]; simp
      · rw [q']; simp

end XMT.Cbk
