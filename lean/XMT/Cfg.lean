/-
  XMT.Cfg — executable model of the binary profile parser of c2/cfg (convert.go, config.go):
  `Config.next`, `Config.validate`/`Validate`, `Config.build`/`Build`, `Groups`, `Group`.

  The functions mirror the Go text literally: the same guards in the same order, Go's `|`/`<<`
  written as `|||`/`<<<`, `-1` results as `none`, comparisons that can never be true on
  non-negative offsets (`v < i` …) kept where the source has them.  Every index `c[k]` and slice
  `c[a:b]` is a checked access (`rd`, `slice`) whose failure is the value `Fault.panic`; loops that
  are not a bounded `for x := count; x > 0; x--` take fuel and running out of fuel is the value
  `Fault.diverge`.  Nothing is totalised with a default.

  External constructors are parameters: `tls ca pem key` says whether `com.NewTLSConfig` accepts
  the three PEM blocks (certificate/key contents are parsed only by Build).  `crypto.NewAes` /
  `wrapper.NewBlock` are modelled by their documented size rule (key 16/24/32, IV 16).

  Core-only (no Mathlib): compiled into the driver.
-/
import XMT.Base
import XMT.Generated.Facts
namespace XMT.Cfg
open XMT

/-! ### setting tags (regenerated from the compiled package on every run) -/
abbrev tInvalid := Facts.cfg_invalid
abbrev tSeparator := Facts.cfg_Separator
abbrev tHost := Facts.cfg_valHost
abbrev tSleep := Facts.cfg_valSleep
abbrev tJitter := Facts.cfg_valJitter
abbrev tWeight := Facts.cfg_valWeight
abbrev tKeyPin := Facts.cfg_valKeyPin
abbrev tKillDate := Facts.cfg_valKillDate
abbrev tWorkHours := Facts.cfg_valWorkHours
abbrev tSelLastValid := Facts.cfg_SelectorLastValid
abbrev tSelRoundRobin := Facts.cfg_SelectorRoundRobin
abbrev tSelRandom := Facts.cfg_SelectorRandom
abbrev tSelSemiRoundRobin := Facts.cfg_SelectorSemiRoundRobin
abbrev tSelSemiRandom := Facts.cfg_SelectorSemiRandom
abbrev tSelSemiLastValid := Facts.cfg_SelectorSemiLastValid
abbrev tSelPercent := Facts.cfg_valSelectorPercent
abbrev tSelPercentRR := Facts.cfg_valSelectorPercentRoundRobin
abbrev tTCP := Facts.cfg_ConnectTCP
abbrev tTLS := Facts.cfg_ConnectTLS
abbrev tUDP := Facts.cfg_ConnectUDP
abbrev tICMP := Facts.cfg_ConnectICMP
abbrev tPipe := Facts.cfg_ConnectPipe
abbrev tTLSNoVerify := Facts.cfg_ConnectTLSNoVerify
abbrev tIP := Facts.cfg_valIP
abbrev tWC2 := Facts.cfg_valWC2
abbrev tTLSx := Facts.cfg_valTLSx
abbrev tMuTLS := Facts.cfg_valMuTLS
abbrev tTLSxCA := Facts.cfg_valTLSxCA
abbrev tTLSCert := Facts.cfg_valTLSCert
abbrev tHex := Facts.cfg_WrapHex
abbrev tZlib := Facts.cfg_WrapZlib
abbrev tGzip := Facts.cfg_WrapGzip
abbrev tBase64 := Facts.cfg_WrapBase64
abbrev tXOR := Facts.cfg_valXOR
abbrev tCBK := Facts.cfg_valCBK
abbrev tAES := Facts.cfg_valAES
abbrev tB64T := Facts.cfg_TransformB64
abbrev tDNS := Facts.cfg_valDNS
abbrev tB64Shift := Facts.cfg_valB64Shift

/-! ### outcomes -/

/-- Error classes of the package: `ErrInvalidSetting`, `ErrMultipleConnections`,
`ErrMultipleTransforms`, and `ext` = an error returned by an external constructor
(`com.NewTLSConfig`, `crypto.NewAes`, `wrapper.NewBlock`). -/
inductive ErrK where
  | invalid | multiConn | multiTrans | ext
  deriving DecidableEq, Repr

/-- What a Go call can do other than return a value: return an error (with the label that
`xerr.Wrap` prepends), panic, or (loops with fuel) not terminate. -/
inductive Fault where
  | err (label : String) (k : ErrK)
  | panic (site : String)
  | diverge
  deriving DecidableEq, Repr

abbrev M := Except Fault

def inv {α} (label : String) : M α := .error (.err label .invalid)
def multiConn {α} (label : String) : M α := .error (.err label .multiConn)
def multiTrans {α} (label : String) : M α := .error (.err label .multiTrans)
def extErr {α} (label : String) : M α := .error (.err label .ext)

/-- `int(c[k])` -/
def rd (c : Bytes) (k : Nat) : M Nat :=
  match c[k]? with
  | some b => .ok b.toNat
  | none => .error (.panic "index")

/-- `int(c[k+1]) | int(c[k])<<8` -/
def rd16 (c : Bytes) (k : Nat) : M Nat := do
  let hi ← rd c k
  let lo ← rd c (k + 1)
  pure (lo ||| (hi <<< 8))

/-- `c[a:b]` (capacity = length: the harness hands the real code exact-capacity slices). -/
def slice (c : Bytes) (a b : Nat) : M Bytes :=
  if a ≤ b ∧ b ≤ c.length then .ok ((c.drop a).take (b - a)) else .error (.panic "slice")

/-! ### Config.next -/

/-- `case … : return i + 1` -/
def stride1 : List Nat :=
  [tHex, tZlib, tGzip, tBase64,
   tSelLastValid, tSelRoundRobin, tSelRandom, tSelSemiRandom, tSelSemiRoundRobin, tSelSemiLastValid,
   tSeparator, tTCP, tTLS, tUDP, tICMP, tPipe, tTLSNoVerify, tB64T]
/-- `case … : return i + 2` -/
def stride2 : List Nat := [tIP, tB64Shift, tJitter, tWeight, tTLSx, tSelPercent, tSelPercentRR]

/-- `for x := int(c[i+7]); x > 0 && n < len(c) && n > 0; x-- { if n+1 >= len(c) { return -1 }; n += int(c[n]) + int(c[n+1]) + 2 }; return n` -/
def nextWC2Hdr (c : Bytes) : Nat → Nat → M (Option Nat)
  | 0, n => pure (some n)
  | x + 1, n =>
    if n < c.length ∧ n > 0 then
      if n + 1 ≥ c.length then pure none
      else do
        let a ← rd c n
        let b ← rd c (n + 1)
        nextWC2Hdr c x (n + (a + b + 2))
    else pure (some n)

/-- `for x := int(c[i+1]); x > 0 && n < len(c); x-- { n += int(c[n]) + 1 }; return n` -/
def nextDNS (c : Bytes) : Nat → Nat → M Nat
  | 0, n => pure n
  | x + 1, n =>
    if n < c.length then do
      let a ← rd c n
      nextDNS c x (n + (a + 1))
    else pure n

/-- `case valWC2:` of next -/
def nextWC2 (c : Bytes) (i : Nat) : M (Option Nat) :=
  if i + 7 ≥ c.length then pure none else do
  let _ ← rd c (i + 7)
  let l1 ← rd16 c (i + 1)
  let l2 ← rd16 c (i + 3)
  let l3 ← rd16 c (i + 5)
  let n := i + 8 + l1 + l2 + l3
  if n ≥ c.length then pure none else do
  let _ ← rd c n
  let h ← rd c (i + 7)
  if h = 0 then pure (some n) else nextWC2Hdr c h n

/-- `case valXOR, valHost:` of next: `return i + 3 + (int(c[i+2]) | int(c[i+1])<<8)` -/
def nextXorHost (c : Bytes) (i : Nat) : M (Option Nat) :=
  if i + 3 ≥ c.length then pure none else do
  let _ ← rd c (i + 2)
  let l ← rd16 c (i + 1)
  pure (some (i + 3 + l))

/-- `case valAES:` of next: `return i + 3 + int(c[i+1]) + int(c[i+2])` -/
def nextAES (c : Bytes) (i : Nat) : M (Option Nat) :=
  if i + 3 ≥ c.length then pure none else do
  let _ ← rd c (i + 2)
  let a ← rd c (i + 1)
  let b ← rd c (i + 2)
  pure (some (i + 3 + a + b))

/-- `case valMuTLS:` of next -/
def nextMuTLS (c : Bytes) (i : Nat) : M (Option Nat) :=
  if i + 7 ≥ c.length then pure none else do
  let _ ← rd c (i + 7)
  let l1 ← rd16 c (i + 2)
  let l2 ← rd16 c (i + 4)
  let l3 ← rd16 c (i + 6)
  pure (some (i + 8 + l1 + l2 + l3))

/-- `case valTLSxCA:` of next: `return i + 4 + (int(c[i+3]) | int(c[i+2])<<8)` -/
def nextTLSxCA (c : Bytes) (i : Nat) : M (Option Nat) :=
  if i + 3 ≥ c.length then pure none else do
  let _ ← rd c (i + 3)
  let l ← rd16 c (i + 2)
  pure (some (i + 4 + l))

/-- `case valTLSCert:` of next -/
def nextTLSCert (c : Bytes) (i : Nat) : M (Option Nat) :=
  if i + 6 ≥ c.length then pure none else do
  let _ ← rd c (i + 4)
  let l1 ← rd16 c (i + 2)
  let l2 ← rd16 c (i + 4)
  pure (some (i + 6 + l1 + l2))

/-- `case valDNS:` of next -/
def nextDNSArm (c : Bytes) (i : Nat) : M (Option Nat) :=
  if i + 1 ≥ c.length then pure none else do
  let x ← rd c (i + 1)
  let n ← nextDNS c x (i + 2)
  pure (some n)

/-- the `switch cBit(c[i])` of next, on the tag value -/
def nextArm (c : Bytes) (i t : Nat) : M (Option Nat) :=
  if stride1.contains t then pure (some (i + 1))
  else if stride2.contains t then pure (some (i + 2))
  else if t = tCBK ∨ t = tWorkHours then pure (some (i + 6))
  else if t = tSleep ∨ t = tKillDate then pure (some (i + 9))
  else if t = tKeyPin then pure (some (i + 5))
  else if t = tWC2 then nextWC2 c i
  else if t = tXOR ∨ t = tHost then nextXorHost c i
  else if t = tAES then nextAES c i
  else if t = tMuTLS then nextMuTLS c i
  else if t = tTLSxCA then nextTLSxCA c i
  else if t = tTLSCert then nextTLSCert c i
  else if t = tDNS then nextDNSArm c i
  else pure none

/-- `func (c Config) next(i int) int` — `none` is `-1`. (`i < 0` cannot occur: offsets are `Nat`.) -/
def next (c : Bytes) (i : Nat) : M (Option Nat) :=
  if i > c.length then pure none else do
  let t ← rd c i
  nextArm c i t

/-- `if n = c.next(i); n == i || n > len(c) || n == -1 || n < i { n = len(c) }` -/
def clamp (c : Bytes) (i : Nat) (r : Option Nat) : Nat :=
  match r with
  | none => c.length
  | some n => if n = i ∨ n > c.length ∨ n < i then c.length else n

/-- The end offset `n` of the setting at `i` as validate/build/MarshalJSON compute it, followed by
their `_ = c[n-1]`. -/
def stride (c : Bytes) (i : Nat) : M Nat := do
  let r ← next c i
  let n := clamp c i r
  let _ ← rd c (n - 1)
  pure n

/-! ### Config.validate -/

/-- WebC2 header loop of validate:
`for j := 0; v < n && q < n && j < n; { if v+1 >= n {err}; q, j = v+2, int(c[v])+v+2; if v = int(c[v+1]) + j; q == j || j > n || … {err} }` -/
def vWC2Hdr (c : Bytes) (i n : Nat) : Nat → Nat → Nat → Nat → M Unit
  | 0, _, _, _ => .error .diverge
  | f + 1, v, q, j =>
    if v < n ∧ q < n ∧ j < n then
      if v + 1 ≥ n then inv "wc2" else do
      let a ← rd c v
      let q' := v + 2
      let j' := a + v + 2
      let b ← rd c (v + 1)
      let v' := b + j'
      if q' = j' ∨ j' > n ∨ q' > n ∨ v' > n ∨ v' < j' ∨ j' < q' ∨ q' < i ∨ j' < i ∨ v' < i then inv "wc2"
      else vWC2Hdr c i n f v' q' j'
    else pure ()

/-- DNS name loop of validate:
`for x, v, e := int(c[i+1]), i+2, i+2; x > 0 && v < n; x-- { if v += int(c[v]) + 1; e+1 > v || e+1 == v || v < e || v > n || e > n || x > n || e < i || v < i {err}; e = v }` -/
def vDNS (c : Bytes) (i n : Nat) : Nat → Nat → Nat → M Unit
  | 0, _, _ => pure ()
  | x + 1, v, e =>
    if v < n then do
      let a ← rd c v
      let v' := v + (a + 1)
      if e + 1 > v' ∨ e + 1 = v' ∨ v' < e ∨ v' > n ∨ e > n ∨ x + 1 > n ∨ e < i ∨ v' < i then inv "dns"
      else vDNS c i n x v' v'
    else pure ()

def connTags : List Nat := [tTCP, tTLS, tUDP, tICMP, tPipe, tTLSNoVerify]
def selTags : List Nat :=
  [tSelRoundRobin, tSelLastValid, tSelRandom, tSelSemiRandom, tSelSemiRoundRobin, tSelSemiLastValid]
def wrapTags : List Nat := [tHex, tZlib, tGzip, tBase64]

/-! arms of validate's `switch cBit(c[i])`; `p`/`t` are the "connection seen"/"transform seen"
flags and the result is their new value -/

/-- `case valHost:` -/
def vHost (c : Bytes) (i n : Nat) : M Unit :=
  if i + 3 ≥ n then inv "host" else do
  let l ← rd16 c (i + 1)
  let v := l + i
  if v + 3 > n ∨ v < i then inv "host" else pure ()

/-- `case valWorkHours:` -/
def vWorkHours (c : Bytes) (i n : Nat) : M Unit :=
  if i + 5 ≥ n then inv "workhours" else do
  let sh ← rd c (i + 2)
  let sm ← rd c (i + 3)
  let eh ← rd c (i + 4)
  let em ← rd c (i + 5)
  if sh > 23 ∨ sm > 59 ∨ eh > 23 ∨ em > 59 then inv "workhours" else pure ()

/-- `case valIP:` (after the `p` test) -/
def vIP (c : Bytes) (i n : Nat) : M Unit :=
  if i + 1 ≥ n then inv "ip" else do
  let x ← rd c (i + 1)
  if x = 0 then inv "ip" else pure ()

/-- `case valWC2:` (after the `p` test) -/
def vWC2 (c : Bytes) (i n : Nat) : M Unit :=
  if i + 7 ≥ n then inv "wc2" else do
  let l1 ← rd16 c (i + 1)
  let v := l1 + i + 8
  let q := i + 8
  if v > n ∨ q > n ∨ q < i ∨ v < i then inv "wc2" else do
  let l2 ← rd16 c (i + 3)
  let q := v
  let v := l2 + v
  if v > n ∨ q > n ∨ v < q ∨ q < i ∨ v < i then inv "wc2" else do
  let l3 ← rd16 c (i + 5)
  let q := v
  let v := l3 + v
  if v > n ∨ q > n ∨ v < q ∨ q < i ∨ v < i then inv "wc2" else do
  let h ← rd c (i + 7)
  if h > 0 then vWC2Hdr c i n (c.length + 1) v q 0 else pure ()

/-- `case valMuTLS:` (after the `p` test) -/
def vMuTLS (c : Bytes) (i n : Nat) : M Unit :=
  if i + 7 ≥ n then inv "mtls" else do
  let l1 ← rd16 c (i + 2)
  let a := l1 + i + 8
  let l2 ← rd16 c (i + 4)
  let b := l2 + a
  let l3 ← rd16 c (i + 6)
  let k := l3 + b
  if a > n ∨ b > n ∨ k > n ∨ b < a ∨ k < b ∨ a < i ∨ b < i ∨ k < i then inv "mtls" else pure ()

/-- `case valTLSxCA:` (after the `p` test) -/
def vTLSxCA (c : Bytes) (i n : Nat) : M Unit :=
  if i + 3 ≥ n then inv "tls-ca" else do
  let l ← rd16 c (i + 2)
  let a := l + i + 4
  if a > n ∨ a < i then inv "tls-ca" else pure ()

/-- `case valTLSCert:` (after the `p` test) -/
def vTLSCert (c : Bytes) (i n : Nat) : M Unit :=
  if i + 6 ≥ n then inv "tls-cert" else do
  let l1 ← rd16 c (i + 2)
  let b := l1 + i + 6
  let l2 ← rd16 c (i + 4)
  let k := l2 + b
  if b > n ∨ k > n ∨ b < i ∨ k < i ∨ k < b then inv "tls-cert" else pure ()

/-- `case valXOR:` -/
def vXOR (c : Bytes) (i n : Nat) : M Unit :=
  if i + 3 ≥ n then inv "xor" else do
  let l ← rd16 c (i + 1)
  let k := l + i
  if k + 3 > n ∨ k < i then inv "xor" else pure ()

/-- `case valAES:` -/
def vAES (c : Bytes) (i n : Nat) : M Unit :=
  if i + 3 ≥ n then inv "aes" else do
  let a ← rd c (i + 1)
  let v := a + i + 3
  let b ← rd c (i + 2)
  let z := b + v
  if v = z ∨ i + 3 = v ∨ z > n ∨ v > n ∨ z < i ∨ v < i ∨ z < v then inv "aes"
  else if ¬ (v - (i + 3) = 16 ∨ v - (i + 3) = 24 ∨ v - (i + 3) = 32) then inv "aes"
  else if z - v ≠ 16 then inv "aes"
  else pure ()

/-- `case valDNS:` (after the `t` test) -/
def vDNSArm (c : Bytes) (i n : Nat) : M Unit :=
  if i + 1 ≥ n then inv "dns" else do
  let x ← rd c (i + 1)
  vDNS c i n x (i + 2) (i + 2)

/-- validate's `switch cBit(c[i])` (Separator is handled by the loop). -/
def vcase (c : Bytes) (i n tag : Nat) (p t : Bool) : M (Bool × Bool) :=
  if tag = tInvalid then inv ""
  else if tag = tHost then do vHost c i n; pure (p, t)
  else if tag = tSleep then
    if i + 8 ≥ n then inv "sleep" else pure (p, t)
  else if tag = tKeyPin then
    if i + 4 ≥ n then inv "keypin" else pure (p, t)
  else if tag = tJitter then
    if i + 1 ≥ n then inv "jitter" else pure (p, t)
  else if tag = tWeight then
    if i + 1 ≥ n then inv "weight" else pure (p, t)
  else if tag = tSelPercent ∨ tag = tSelPercentRR then
    if i + 1 ≥ n then inv "select-precent" else pure (p, t)
  else if tag = tKillDate then
    if i + 8 ≥ n then inv "killdate" else pure (p, t)
  else if tag = tWorkHours then do vWorkHours c i n; pure (p, t)
  else if selTags.contains tag then pure (p, t)
  else if connTags.contains tag then
    if p then multiConn "" else pure (true, t)
  else if tag = tIP then
    if p then multiConn "ip" else do vIP c i n; pure (true, t)
  else if tag = tWC2 then
    if p then multiConn "wc2" else do vWC2 c i n; pure (true, t)
  else if tag = tTLSx then
    if p then multiConn "tls-ex"
    else if i + 1 ≥ n then inv "tls-ex" else pure (true, t)
  else if tag = tMuTLS then
    if p then multiConn "mtls" else do vMuTLS c i n; pure (true, t)
  else if tag = tTLSxCA then
    if p then multiConn "tls-ca" else do vTLSxCA c i n; pure (true, t)
  else if tag = tTLSCert then
    if p then multiConn "tls-cert" else do vTLSCert c i n; pure (true, t)
  else if wrapTags.contains tag then pure (p, t)
  else if tag = tXOR then do vXOR c i n; pure (p, t)
  else if tag = tCBK then
    if i + 5 ≥ n then inv "cbk" else pure (p, t)
  else if tag = tAES then do vAES c i n; pure (p, t)
  else if tag = tB64T then
    if t then multiTrans "base64T" else pure (p, true)
  else if tag = tDNS then
    if t then multiTrans "dns" else do vDNSArm c i n; pure (p, true)
  else if tag = tB64Shift then
    if t then multiTrans "b64S"
    else if i + 1 ≥ n then inv "b64S" else pure (p, true)
  else inv ""

/-- `func (c Config) validate(x int) (int, error)`:
`for i := x; n >= 0 && n < len(c); i = n { n = stride; switch … { case Separator: break loop … } }; return n`.
`n` is `0` before the first iteration. -/
def vloop (c : Bytes) : Nat → Nat → Nat → Bool → Bool → M Nat
  | 0, _, _, _, _ => .error .diverge
  | f + 1, i, n, p, t =>
    if n < c.length then do
      let n' ← stride c i
      let tag ← rd c i
      if tag = tSeparator then pure n'
      else do
        let (p', t') ← vcase c i n' tag p t
        vloop c f n' n' p' t'
    else pure n

def validateAt (c : Bytes) (x : Nat) : M Nat := vloop c (c.length + 1) x 0 false false

/-- `Validate`'s outer loop `for i := 0; i < len(c); i = n { n, err = c.validate(i) … }`. -/
def validateLoop (c : Bytes) : Nat → Nat → M Unit
  | 0, _ => .error .diverge
  | f + 1, i =>
    if i < c.length then do
      let n ← validateAt c i
      validateLoop c f n
    else pure ()

/-- `func (c Config) Validate() error` -/
def validate (c : Bytes) : M Unit :=
  if c.length = 0 then pure () else validateLoop c (c.length + 1) 0

/-! ### Config.build -/

structure WorkHours where
  days : Nat
  startHour : Nat
  startMin : Nat
  endHour : Nat
  endMin : Nat
  deriving DecidableEq, Repr

/-- The connector hint a group selects (`profile.conn`). `tlsc` is a `com.NewTLS` connector made
from `com.NewTLSConfig(mu, ver, ca, pem, key)`. -/
inductive Conn where
  | tcp | tls | udp | icmp | pipe | tlsNoVerify
  | ip (proto : Nat)
  | wc2 (url host agent : Bytes) (headers : List (Bytes × Bytes))
  | tlsc (mu : Bool) (ver : Nat) (ca pem key : Bytes)
  deriving DecidableEq, Repr

inductive Wrap where
  | hex | zlib | gzip | base64
  | xor (key : Bytes)
  | cbk (a b c d size : Nat)
  | aes (key iv : Bytes)
  deriving DecidableEq, Repr

inductive Trans where
  | b64 (shift : Nat)       -- transform.B64(shift); transform.Base64 = B64(0)
  | dns (names : List Bytes)
  deriving DecidableEq, Repr

/-- `type profile struct` (without `src`, which Build sets on the result). `kill = none` ⇔ `kds`
false; `some 0` is the zero time, `some u` is `time.Unix(int64(u), 0)`. -/
structure Profile where
  hosts : List Bytes := []
  sleep : Nat := 0
  jitter : Int := 0
  kill : Option Nat := none
  work : Option WorkHours := none
  keys : List Nat := []
  weight : Nat := 0
  conn : Option Conn := none
  wraps : List Wrap := []
  trans : Option Trans := none
  deriving DecidableEq, Repr

/-- `uint64(c[i+8]) | uint64(c[i+7])<<8 | … | uint64(c[i+1])<<56` -/
def rd64 (c : Bytes) (i : Nat) : M Nat := do
  let b8 ← rd c (i + 8)
  let b7 ← rd c (i + 7)
  let b6 ← rd c (i + 6)
  let b5 ← rd c (i + 5)
  let b4 ← rd c (i + 4)
  let b3 ← rd c (i + 3)
  let b2 ← rd c (i + 2)
  let b1 ← rd c (i + 1)
  pure (b8 ||| (b7 <<< 8) ||| (b6 <<< 16) ||| (b5 <<< 24) ||| (b4 <<< 32) ||| (b3 <<< 40) |||
    (b2 <<< 48) ||| (b1 <<< 56))

/-- `uint32(c[i+4]) | uint32(c[i+3])<<8 | uint32(c[i+2])<<16 | uint32(c[i+1])<<24` -/
def rd32 (c : Bytes) (i : Nat) : M Nat := do
  let b4 ← rd c (i + 4)
  let b3 ← rd c (i + 3)
  let b2 ← rd c (i + 2)
  let b1 ← rd c (i + 1)
  pure (b4 ||| (b3 <<< 8) ||| (b2 <<< 16) ||| (b1 <<< 24))

/-- `p.jitter = int8(b)`; `> 100 → 100`; `< -1 → 0`. -/
def jitterOf (b : Nat) : Int :=
  let j : Int := if b ≥ 128 then (b : Int) - 256 else (b : Int)
  if j > 100 then 100 else if j < -1 then 0 else j

/-- WebC2 header loop of build (collects `t.Header(string(c[q:j]), text.Matcher(c[j:v]))`). -/
def bWC2Hdr (c : Bytes) (i n : Nat) : Nat → Nat → Nat → Nat → List (Bytes × Bytes) → M (List (Bytes × Bytes))
  | 0, _, _, _, _ => .error .diverge
  | f + 1, v, q, j, acc =>
    if v < n ∧ q < n ∧ j < n then
      if v + 1 ≥ n then inv "wc2" else do
      let a ← rd c v
      let q' := v + 2
      let j' := a + v + 2
      let b ← rd c (v + 1)
      let v' := b + j'
      if q' = j' ∨ q' > n ∨ j' > n ∨ v' > n ∨ v' < j' ∨ j' < q' ∨ q' < i ∨ j' < i ∨ v' < i then inv "wc2"
      else do
        let k ← slice c q' j'
        let w ← slice c j' v'
        bWC2Hdr c i n f v' q' j' (acc ++ [(k, w)])
    else pure acc

/-- DNS name loop of build (collects `string(c[e+1:v])`). -/
def bDNS (c : Bytes) (i n : Nat) : Nat → Nat → Nat → List Bytes → M (List Bytes)
  | 0, _, _, acc => pure acc
  | x + 1, v, e, acc =>
    if v < n then do
      let a ← rd c v
      let v' := v + (a + 1)
      if e + 1 > v' ∨ e + 1 = v' ∨ v' < e ∨ v' > n ∨ e > n ∨ x + 1 > n ∨ e < i ∨ v' < i then inv "dns"
      else do
        let s ← slice c (e + 1) v'
        bDNS c i n x v' v' (acc ++ [s])
    else pure acc

def connOfTag (tag : Nat) : Conn :=
  if tag = tTCP then .tcp else if tag = tTLS then .tls else if tag = tUDP then .udp
  else if tag = tICMP then .icmp else if tag = tPipe then .pipe else .tlsNoVerify

def connLabel (tag : Nat) : String :=
  if tag = tTCP then "tcp" else if tag = tTLS then "tls" else if tag = tUDP then "udp"
  else if tag = tICMP then "icmp" else if tag = tPipe then "pipe" else "tls-insecure"

def wrapOfTag (tag : Nat) : Wrap :=
  if tag = tHex then .hex else if tag = tZlib then .zlib else if tag = tGzip then .gzip else .base64

/-! arms of build's `switch cBit(c[i])` -/

/-- `case valHost:` → the host string -/
def bHost (c : Bytes) (i n : Nat) : M Bytes :=
  if i + 3 ≥ n then inv "host" else do
  let l ← rd16 c (i + 1)
  let v := l + i
  if v + 3 > n ∨ v < i then inv "host" else slice c (i + 3) (v + 3)

/-- `case valSleep:` → `p.sleep` (time.Duration(uint64) is int64: negative ⇔ u ≥ 2^63 → DefaultSleep) -/
def bSleep (c : Bytes) (i n : Nat) : M Nat :=
  if i + 8 ≥ n then inv "sleep" else do
  let u ← rd64 c i
  pure (if u ≥ 2 ^ 63 then Facts.cfg_DefaultSleep else u)

/-- `case valWorkHours:` -/
def bWorkHours (c : Bytes) (i n : Nat) : M WorkHours :=
  if i + 5 ≥ n then inv "workhours" else do
  let sh ← rd c (i + 2)
  let sm ← rd c (i + 3)
  let eh ← rd c (i + 4)
  let em ← rd c (i + 5)
  if sh > 23 ∨ sm > 59 ∨ eh > 23 ∨ em > 59 then inv "workhours" else do
  let d ← rd c (i + 1)
  pure ⟨d, sh, sm, eh, em⟩

/-- `case valIP:` (after the `p.conn != nil` test) -/
def bIP (c : Bytes) (i n : Nat) : M Conn :=
  if i + 1 ≥ n then inv "ip" else do
  let x ← rd c (i + 1)
  if x = 0 then inv "ip" else pure (.ip x)

/-- `case valWC2:` (after the `p.conn != nil` test) -/
def bWC2 (c : Bytes) (i n : Nat) : M Conn :=
  if i + 7 ≥ n then inv "wc2" else do
  let l1 ← rd16 c (i + 1)
  let v := l1 + i + 8
  let q := i + 8
  if v > n ∨ q > n ∨ q < i ∨ v < i then inv "wc2" else do
  let url ← (if v > q then slice c q v else pure [])
  let l2 ← rd16 c (i + 3)
  let q := v
  let v := l2 + v
  let host ← (if v > q then
      (if v > n ∨ q > n ∨ v < q ∨ q < i ∨ v < i then inv "wc2" else slice c q v) else pure [])
  let l3 ← rd16 c (i + 5)
  let q := v
  let v := l3 + v
  let agent ← (if v > q then
      (if v > n ∨ q > n ∨ v < q ∨ q < i ∨ v < i then inv "wc2" else slice c q v) else pure [])
  let h ← rd c (i + 7)
  if h > 0 then do
    let hs ← bWC2Hdr c i n (c.length + 1) v q 0 []
    pure (.wc2 url host agent hs)
  else pure (.wc2 url host agent [])

/-- `case valTLSx:` (after the `p.conn != nil` test) -/
def bTLSx (tls : Bytes → Bytes → Bytes → Bool) (c : Bytes) (i n : Nat) : M Conn :=
  if i + 1 ≥ n then inv "tls-ex" else do
  let ver ← rd c (i + 1)
  if tls [] [] [] then pure (.tlsc false ver [] [] []) else extErr "tls-ex"

/-- `case valMuTLS:` (after the `p.conn != nil` test) -/
def bMuTLS (tls : Bytes → Bytes → Bytes → Bool) (c : Bytes) (i n : Nat) : M Conn :=
  if i + 7 ≥ n then inv "mtls" else do
  let l1 ← rd16 c (i + 2)
  let a := l1 + i + 8
  let l2 ← rd16 c (i + 4)
  let b := l2 + a
  let l3 ← rd16 c (i + 6)
  let k := l3 + b
  if a > n ∨ b > n ∨ k > n ∨ b < a ∨ k < b ∨ a < i ∨ b < i ∨ k < i then inv "mtls" else do
  let ver ← rd c (i + 1)
  let ca ← slice c (i + 8) a
  let pem ← slice c a b
  let key ← slice c b k
  if tls ca pem key then pure (.tlsc true ver ca pem key) else extErr "mtls"

/-- `case valTLSxCA:` (after the `p.conn != nil` test) -/
def bTLSxCA (tls : Bytes → Bytes → Bytes → Bool) (c : Bytes) (i n : Nat) : M Conn :=
  if i + 3 ≥ n then inv "tls-ca" else do
  let l ← rd16 c (i + 2)
  let a := l + i + 4
  if a > n ∨ a < i then inv "tls-ca" else do
  let ver ← rd c (i + 1)
  let ca ← slice c (i + 4) a
  if tls ca [] [] then pure (.tlsc false ver ca [] []) else extErr "tls-ca"

/-- `case valTLSCert:` (after the `p.conn != nil` test) -/
def bTLSCert (tls : Bytes → Bytes → Bytes → Bool) (c : Bytes) (i n : Nat) : M Conn :=
  if i + 6 ≥ n then inv "tls-cert" else do
  let l1 ← rd16 c (i + 2)
  let b := l1 + i + 6
  let l2 ← rd16 c (i + 4)
  let k := l2 + b
  if b > n ∨ k > n ∨ b < i ∨ k < i ∨ k < b then inv "tls-cert" else do
  let ver ← rd c (i + 1)
  let pem ← slice c (i + 6) b
  let key ← slice c b k
  if tls [] pem key then pure (.tlsc true ver [] pem key) else extErr "tls-cert"

/-- `case valXOR:` → the key -/
def bXOR (c : Bytes) (i n : Nat) : M Bytes :=
  if i + 3 ≥ n then inv "xor" else do
  let l ← rd16 c (i + 1)
  let k := l + i
  if k + 3 > n ∨ k < i then inv "xor" else slice c (i + 3) (k + 3)

/-- `case valCBK:` -/
def bCBK (c : Bytes) (i n : Nat) : M Wrap :=
  if i + 5 ≥ n then inv "cbk" else do
  let a ← rd c (i + 2)
  let b ← rd c (i + 3)
  let cc ← rd c (i + 4)
  let d ← rd c (i + 5)
  let s ← rd c (i + 1)
  pure (.cbk a b cc d s)

/-- `case valAES:`; `crypto.NewAes` (aes.NewCipher) rejects every key size other than 16, 24, 32;
`wrapper.NewBlock` requires the IV to be one block (16 bytes). -/
def bAES (c : Bytes) (i n : Nat) : M Wrap :=
  if i + 3 ≥ n then inv "aes" else do
  let a ← rd c (i + 1)
  let v := a + i + 3
  let b ← rd c (i + 2)
  let zz := b + v
  if v = zz ∨ i + 3 = v ∨ v > n ∨ zz > n ∨ zz < i ∨ v < i ∨ zz < v then inv "aes" else do
  let key ← slice c (i + 3) v
  if ¬ (key.length = 16 ∨ key.length = 24 ∨ key.length = 32) then extErr "aes" else do
  let iv ← slice c v zz
  if iv.length ≠ 16 then extErr "aes" else pure (.aes key iv)

/-- `case valDNS:` (after the `p.t != nil` test) -/
def bDNSArm (c : Bytes) (i n : Nat) : M Trans :=
  if i + 1 ≥ n then inv "dns" else do
  let x ← rd c (i + 1)
  let d ← bDNS c i n x (i + 2) (i + 2) []
  pure (.dns d)

/-- build's `switch cBit(c[i])`. State: the profile being filled and the selector `z`. -/
def bcase (tls : Bytes → Bytes → Bytes → Bool) (c : Bytes) (i n tag : Nat) (p : Profile) (z : Nat) :
    M (Profile × Nat) :=
  if tag = tInvalid then inv ""
  else if tag = tHost then do
    let h ← bHost c i n
    pure ({ p with hosts := p.hosts ++ [h] }, z)
  else if tag = tSleep then do
    let s ← bSleep c i n
    pure ({ p with sleep := s }, z)
  else if tag = tJitter then
    if i + 1 ≥ n then inv "jitter" else do
    let b ← rd c (i + 1)
    pure ({ p with jitter := jitterOf b }, z)
  else if tag = tKeyPin then
    if i + 4 ≥ n then inv "keypin" else do
    let k ← rd32 c i
    pure ({ p with keys := p.keys ++ [k] }, z)
  else if tag = tWeight then
    if i + 1 ≥ n then inv "weight" else do
    let b ← rd c (i + 1)
    pure ({ p with weight := if b > 100 then 100 else b }, z)
  else if tag = tKillDate then
    if i + 8 ≥ n then inv "killdate" else do
    let u ← rd64 c i
    pure ({ p with kill := some u }, z)
  else if tag = tWorkHours then do
    let w ← bWorkHours c i n
    pure ({ p with work := some w }, z)
  else if tag = tSelPercent ∨ tag = tSelPercentRR then
    if i + 1 ≥ n then inv "select-precent" else pure (p, z)
  else if selTags.contains tag then pure (p, tag)
  else if connTags.contains tag then
    if p.conn.isSome then multiConn (connLabel tag) else pure ({ p with conn := some (connOfTag tag) }, z)
  else if tag = tIP then
    if p.conn.isSome then multiConn "ip" else do
    let x ← bIP c i n
    pure ({ p with conn := some x }, z)
  else if tag = tWC2 then
    if p.conn.isSome then multiConn "wc2" else do
    let x ← bWC2 c i n
    pure ({ p with conn := some x }, z)
  else if tag = tTLSx then
    if p.conn.isSome then multiConn "tls-ex" else do
    let x ← bTLSx tls c i n
    pure ({ p with conn := some x }, z)
  else if tag = tMuTLS then
    if p.conn.isSome then multiConn "mtls" else do
    let x ← bMuTLS tls c i n
    pure ({ p with conn := some x }, z)
  else if tag = tTLSxCA then
    if p.conn.isSome then multiConn "tls-ca" else do
    let x ← bTLSxCA tls c i n
    pure ({ p with conn := some x }, z)
  else if tag = tTLSCert then
    if p.conn.isSome then multiConn "tls-cert" else do
    let x ← bTLSCert tls c i n
    pure ({ p with conn := some x }, z)
  else if wrapTags.contains tag then pure ({ p with wraps := p.wraps ++ [wrapOfTag tag] }, z)
  else if tag = tXOR then do
    let k ← bXOR c i n
    pure ({ p with wraps := p.wraps ++ [.xor k] }, z)
  else if tag = tCBK then do
    let w ← bCBK c i n
    pure ({ p with wraps := p.wraps ++ [w] }, z)
  else if tag = tAES then do
    let w ← bAES c i n
    pure ({ p with wraps := p.wraps ++ [w] }, z)
  else if tag = tB64T then
    if p.trans.isSome then multiTrans "base64T" else pure ({ p with trans := some (.b64 0) }, z)
  else if tag = tDNS then
    if p.trans.isSome then multiTrans "dns" else do
    let d ← bDNSArm c i n
    pure ({ p with trans := some d }, z)
  else if tag = tB64Shift then
    if p.trans.isSome then multiTrans "b64S"
    else if i + 1 ≥ n then inv "b64S" else do
    let s ← rd c (i + 1)
    pure ({ p with trans := some (.b64 s) }, z)
  else inv ""

/-- `func (c Config) build(x int) (*profile, int, uint8, error)` — returns `(profile, n, selector)`. -/
def bloop (tls : Bytes → Bytes → Bytes → Bool) (c : Bytes) :
    Nat → Nat → Nat → Profile → Nat → M (Profile × Nat × Nat)
  | 0, _, _, _, _ => .error .diverge
  | f + 1, i, n, p, z =>
    if n < c.length then do
      let n' ← stride c i
      let tag ← rd c i
      if tag = tSeparator then pure (p, n', z)
      else do
        let (p', z') ← bcase tls c i n' tag p z
        bloop tls c f n' n' p' z'
    else pure (p, n, z)

def buildAt (tls : Bytes → Bytes → Bytes → Bool) (c : Bytes) (x : Nat) : M (Profile × Nat × Nat) :=
  bloop tls c (c.length + 1) x 0 {} 0

/-- What `Build` returns besides an error: nothing (`nil, nil`), one profile, or a Group (entries
in parse order here; `Build` then applies `sort.Sort` by descending weight — see `Built.sorted`). -/
structure Built where
  entries : List Profile
  sel : Nat
  src : Bytes
  deriving DecidableEq, Repr

/-- `Build`'s outer loop:
`for i := 0; i < len(c); i = n { v, n, s, err = c.build(i); if v == nil || (n-i == 1 && c[i] == Separator) {continue}; if e = append(e, v); s > 0 { g = s } }` -/
def buildLoop (tls : Bytes → Bytes → Bytes → Bool) (c : Bytes) :
    Nat → Nat → List Profile → Nat → M (List Profile × Nat)
  | 0, _, _, _ => .error .diverge
  | f + 1, i, e, g =>
    if i < c.length then do
      let (v, n, s) ← buildAt tls c i
      let t ← rd c i
      if n - i = 1 ∧ t = tSeparator then buildLoop tls c f n e g
      else buildLoop tls c f n (e ++ [v]) (if s > 0 then s else g)
    else pure (e, g)

/-- `func (c Config) Build() (Profile, error)`; `none` is `nil, nil`. -/
def build (tls : Bytes → Bytes → Bytes → Bool) (c : Bytes) : M (Option Built) :=
  if c.length = 0 then pure none else do
  let (e, g) ← buildLoop tls c (c.length + 1) 0 [] 0
  if e.length = 0 then pure none
  else pure (some ⟨e, g, c⟩)

/-! ### Groups / Group -/

/-- `for i := 0; i >= 0 && i < len(c); i = c.next(i) { if cBit(c[i]) == Separator && i > 0 { n++ } }` -/
def groupsLoop (c : Bytes) : Nat → Nat → Nat → M Nat
  | 0, _, _ => .error .diverge
  | f + 1, i, n =>
    if i < c.length then do
      let t ← rd c i
      let n' := if t = tSeparator ∧ i > 0 then n + 1 else n
      match ← next c i with
      | none => pure n'
      | some i' => groupsLoop c f i' n'
    else pure n

/-- `func (c Config) Groups() int` -/
def groups (c : Bytes) : M Nat :=
  if c.length = 0 then pure 0 else do
  let n ← groupsLoop c (c.length + 1) 0 0
  pure (n + 1)

/-- The loop of `Group(p)`; `l`,`s` as in the source. Result `some g` = returned inside the loop. -/
def groupLoop (c : Bytes) (p : Int) : Nat → Nat → Nat → Nat → M (Option Bytes × Nat × Nat)
  | 0, _, _, _ => .error .diverge
  | f + 1, e, l, s =>
    if e < c.length then do
      let t ← rd c e
      let step (l s : Nat) : M (Option Bytes × Nat × Nat) := do
        match ← next c e with
        | none => pure (none, l, s)
        | some e' => groupLoop c p f e' l s
      if t = tSeparator then
        if e = 0 then step l s
        else if p ≤ 0 ∧ l = 0 then do
          let g ← slice c 0 e
          pure (some g, l, s)
        else if p = (l : Int) then do
          let g ← slice c s e
          pure (some g, l, s)
        else step (l + 1) (e + 1)
      else step l s
    else pure (none, l, s)

/-- `func (c Config) Group(p int) Config`; `none` is `nil`. -/
def group (c : Bytes) (p : Int) : M (Option Bytes) :=
  if c.length = 0 then pure none
  else if p = -1 then pure (some c) else do
  let (r, l, s) ← groupLoop c p (c.length + 1) 0 0 0
  match r with
  | some g => pure (some g)
  | none =>
    if l > 0 ∧ s > 0 then do
      let g ← slice c s c.length
      pure (some g)
    else if p ≤ 0 ∧ l = 0 then pure (some c)
    else pure none

end XMT.Cfg
