/-
  XMT.CfgBuildPack — building the packed bytes of a settings list yields exactly the settings'
  meaning (helper lemmas for Props/C08): one lemma per public constructor (stride + build's switch
  arm on the constructor's own encoding, placed anywhere in a config), then induction over a group
  and over the groups.
-/
import XMT.CfgPack
import XMT.CfgNextCases
import XMT.CfgEquiv
namespace XMT.Cfg
open XMT

/-! ### reading inside `pre ++ mid ++ post` -/

theorem rdv_mid (pre mid post : Bytes) (k : Nat) (hk : k < mid.length) :
    rdv (pre ++ mid ++ post) (pre.length + k) = rdv mid k := by
  unfold rdv
  simp [List.getD, List.getElem?_append_left, List.getElem?_append_right, hk]

@[simp] theorem rdv_cons_zero (a : UInt8) (l : Bytes) : rdv (a :: l) 0 = a.toNat := rfl
@[simp] theorem rdv_cons_succ (a : UInt8) (l : Bytes) (k : Nat) : rdv (a :: l) (k + 1) = rdv l k := rfl

theorem slice_mid (x body y : Bytes) :
    slice (x ++ body ++ y) x.length (x.length + body.length) = .ok body := by
  rw [slice_ok (by omega) (by simp)]
  simp

theorem byteOf_toNat_of_lt {n : Nat} (h : n < 256) : (byteOf n).toNat = n := by
  simp [byteOf_toNat]; omega

/-- `stride` at the start of an encoded setting of length `m`, from what `next` returns there. -/
theorem stride_of_nextV {c : Bytes} {i m : Nat} (hm : 0 < m) (hle : i + m ≤ c.length)
    (hn : nextV c i = some (i + m) ∨ (nextV c i = none ∧ i + m = c.length)) :
    stride c i = .ok (i + m) := by
  unfold stride
  rw [next_eq c i (by omega)]
  simp only [ok_bind]
  have hcl : clamp c i (nextV c i) = i + m := by
    rcases hn with h | ⟨h, he⟩
    · rw [h]; unfold clamp; simp only; rw [if_neg (by omega)]
    · rw [h]; unfold clamp; simp only; omega
  rw [hcl, rd_ok (by omega)]
  rfl


/-- The conclusion of the per-setting lemma: at offset `|pre|` of `pre ++ e ++ post` the parser
sees tag `tag`, strides over exactly `e`, and build's switch maps `(P, z)` to `r`. -/
def SettingSpec (tls : Bytes → Bytes → Bytes → Bool) (e : Bytes) (tag : Nat) (pre post : Bytes)
    (P : Profile) (z : Nat) (r : Profile × Nat) : Prop :=
  rdv (pre ++ e ++ post) pre.length = tag ∧ tag ≠ tSeparator ∧
  stride (pre ++ e ++ post) pre.length = .ok (pre.length + e.length) ∧
  bcase tls (pre ++ e ++ post) pre.length (pre.length + e.length) tag P z = .ok r

theorem tag_byte {t : Nat} (h : t < 256) (l : Bytes) (pre post : Bytes) :
    rdv (pre ++ (byteOf t :: l) ++ post) pre.length = t := by
  have := rdv_mid pre (byteOf t :: l) post 0 (by simp)
  simp only [Nat.add_zero] at this
  rw [this]; simp [byteOf_toNat]; omega

theorem len_mid (pre e post : Bytes) : pre.length + e.length ≤ (pre ++ e ++ post).length := by
  simp

theorem nextV_at {t : Nat} (h : t < 256) (l pre post : Bytes) :
    nextV (pre ++ (byteOf t :: l) ++ post) pre.length = nextArmV (pre ++ (byteOf t :: l) ++ post) pre.length t := by
  unfold nextV; rw [tag_byte h]

theorem rd_mid (pre mid post : Bytes) (k : Nat) (hk : k < mid.length) :
    rd (pre ++ mid ++ post) (pre.length + k) = .ok (rdv mid k) := by
  rw [rd_ok (by simp; omega), rdv_mid pre mid post k hk]

theorem be16_val (n : Nat) (hn : n < 65536) : (byteOf n).toNat ||| ((byteOf (n >>> 8)).toNat <<< 8) = n := by
  have := ofBe16_be16 n (by omega); unfold ofBe16 at this; exact this

theorem be32_val (n : Nat) (hn : n < 2 ^ 32) :
    (byteOf n).toNat ||| ((byteOf (n >>> 8)).toNat <<< 8) ||| ((byteOf (n >>> 16)).toNat <<< 16) |||
      ((byteOf (n >>> 24)).toNat <<< 24) = n := by
  have := ofBe32_be32 n hn; unfold ofBe32 at this; exact this

theorem be64_val (n : Nat) (hn : n < 2 ^ 64) :
    (byteOf n).toNat ||| ((byteOf (n >>> 8)).toNat <<< 8) ||| ((byteOf (n >>> 16)).toNat <<< 16) |||
      ((byteOf (n >>> 24)).toNat <<< 24) ||| ((byteOf (n >>> 32)).toNat <<< 32) |||
      ((byteOf (n >>> 40)).toNat <<< 40) ||| ((byteOf (n >>> 48)).toNat <<< 48) |||
      ((byteOf (n >>> 56)).toNat <<< 56) = n := by
  have := ofBe64_be64 n hn; unfold ofBe64 at this; exact this

theorem rd64_mid (pre post : Bytes) (t : UInt8) (u : Nat) (hu : u < 2 ^ 64) :
    rd64 (pre ++ (t :: be64 u) ++ post) pre.length = .ok u := by
  unfold rd64
  rw [rd_mid pre _ post 8 (by simp [be64]), rd_mid pre _ post 7 (by simp [be64]),
    rd_mid pre _ post 6 (by simp [be64]), rd_mid pre _ post 5 (by simp [be64]),
    rd_mid pre _ post 4 (by simp [be64]), rd_mid pre _ post 3 (by simp [be64]),
    rd_mid pre _ post 2 (by simp [be64]), rd_mid pre _ post 1 (by simp [be64])]
  simp only [ok_bind, be64, rdv_cons_succ, rdv_cons_zero]
  rw [be64_val u hu]; rfl

theorem rd32_mid (pre post : Bytes) (t : UInt8) (u : Nat) (hu : u < 2 ^ 32) :
    rd32 (pre ++ (t :: be32 u) ++ post) pre.length = .ok u := by
  unfold rd32
  rw [rd_mid pre _ post 4 (by simp [be32]), rd_mid pre _ post 3 (by simp [be32]),
    rd_mid pre _ post 2 (by simp [be32]), rd_mid pre _ post 1 (by simp [be32])]
  simp only [ok_bind, be32, rdv_cons_succ, rdv_cons_zero]
  rw [be32_val u hu]; rfl

theorem pure_ok' {α} (a : α) : (pure a : M α) = Except.ok a := rfl

theorem spec_sleep (tls) (t : Nat) (ht : t ≠ 0) (hd : t < 2 ^ 63) (pre post : Bytes) (P : Profile) (z : Nat) :
    SettingSpec tls (Setting.sleep t).enc tSleep pre post P z (applySetting (P, z) (.sleep t)) := by
  have henc : (Setting.sleep t).enc = byteOf tSleep :: be64 t := by simp [Setting.enc, ht]
  rw [henc]
  have hlen : (byteOf tSleep :: be64 t).length = 9 := by simp [be64]
  have htag : tSleep < 256 := by decide
  refine ⟨tag_byte htag _ _ _, by decide, ?_, ?_⟩
  · apply stride_of_nextV (by omega) (len_mid _ _ _)
    left; rw [nextV_at htag, nextArmV_Sleep, hlen]
  · rw [bcase_Sleep, hlen]
    unfold bSleep
    rw [if_neg (by omega), rd64_mid pre post _ t (by omega)]
    simp [applySetting, ht, pure_ok', Nat.not_le.mpr hd]

theorem spec_killDate (tls) (u : Nat) (hd : u < 2 ^ 64) (pre post : Bytes) (P : Profile) (z : Nat) :
    SettingSpec tls (Setting.killDate u).enc tKillDate pre post P z (applySetting (P, z) (.killDate u)) := by
  have henc : (Setting.killDate u).enc = byteOf tKillDate :: be64 u := by simp [Setting.enc]
  rw [henc]
  have hlen : (byteOf tKillDate :: be64 u).length = 9 := by simp [be64]
  have htag : tKillDate < 256 := by decide
  refine ⟨tag_byte htag _ _ _, by decide, ?_, ?_⟩
  · apply stride_of_nextV (by omega) (len_mid _ _ _)
    left; rw [nextV_at htag, nextArmV_KillDate, hlen]
  · rw [bcase_KillDate, hlen, if_neg (by omega), rd64_mid pre post _ u hd]
    simp [applySetting, pure_ok']

theorem spec_keyPin (tls) (h : Nat) (hd : h < 2 ^ 32) (pre post : Bytes) (P : Profile) (z : Nat) :
    SettingSpec tls (Setting.keyPin h).enc tKeyPin pre post P z (applySetting (P, z) (.keyPin h)) := by
  have henc : (Setting.keyPin h).enc = byteOf tKeyPin :: be32 h := by simp [Setting.enc]
  rw [henc]
  have hlen : (byteOf tKeyPin :: be32 h).length = 5 := by simp [be32]
  have htag : tKeyPin < 256 := by decide
  refine ⟨tag_byte htag _ _ _, by decide, ?_, ?_⟩
  · apply stride_of_nextV (by omega) (len_mid _ _ _)
    left; rw [nextV_at htag, nextArmV_KeyPin, hlen]
  · rw [bcase_KeyPin, hlen, if_neg (by omega), rd32_mid pre post _ h hd]
    simp [applySetting, pure_ok']

/-- two-byte settings `[tag, byte(v)]` -/
theorem two_byte_read (pre post : Bytes) (t v : Nat) :
    rd (pre ++ [byteOf t, byteOf v] ++ post) (pre.length + 1) = .ok (v % 256) := by
  rw [rd_mid pre _ post 1 (by simp)]; simp [byteOf_toNat]

theorem spec_jitter (tls) (n : Nat) (pre post : Bytes) (P : Profile) (z : Nat) :
    SettingSpec tls (Setting.jitter n).enc tJitter pre post P z (applySetting (P, z) (.jitter n)) := by
  have henc : (Setting.jitter n).enc = [byteOf tJitter, byteOf n] := by simp [Setting.enc]
  rw [henc]
  have htag : tJitter < 256 := by decide
  refine ⟨tag_byte htag _ _ _, by decide, ?_, ?_⟩
  · apply stride_of_nextV (by simp) (len_mid _ _ _)
    left; rw [nextV_at htag, nextArmV_Jitter]; rfl
  · rw [bcase_Jitter]
    simp only [List.length_cons, List.length_nil]
    rw [if_neg (by omega), two_byte_read]
    simp [applySetting, pure_ok']

theorem spec_weight (tls) (w : Nat) (hw : w ≠ 0) (pre post : Bytes) (P : Profile) (z : Nat) :
    SettingSpec tls (Setting.weight w).enc tWeight pre post P z (applySetting (P, z) (.weight w)) := by
  have henc : (Setting.weight w).enc = [byteOf tWeight, byteOf w] := by simp [Setting.enc, hw]
  rw [henc]
  have htag : tWeight < 256 := by decide
  refine ⟨tag_byte htag _ _ _, by decide, ?_, ?_⟩
  · apply stride_of_nextV (by simp) (len_mid _ _ _)
    left; rw [nextV_at htag, nextArmV_Weight]; rfl
  · rw [bcase_Weight]
    simp only [List.length_cons, List.length_nil]
    rw [if_neg (by omega), two_byte_read]
    simp [applySetting, pure_ok', hw]

theorem spec_ip (tls) (p : Nat) (hp : p % 256 ≠ 0) (pre post : Bytes) (P : Profile) (z : Nat)
    (hc : P.conn = none) :
    SettingSpec tls (Setting.ip p).enc tIP pre post P z (applySetting (P, z) (.ip p)) := by
  have henc : (Setting.ip p).enc = [byteOf tIP, byteOf p] := by simp [Setting.enc]
  rw [henc]
  have htag : tIP < 256 := by decide
  refine ⟨tag_byte htag _ _ _, by decide, ?_, ?_⟩
  · apply stride_of_nextV (by simp) (len_mid _ _ _)
    left; rw [nextV_at htag, nextArmV_IP]; rfl
  · rw [bcase_IP]
    simp only [List.length_cons, List.length_nil]
    unfold bIP
    rw [if_neg (by simp [hc]), if_neg (by omega), two_byte_read]
    simp [applySetting, pure_ok', hp]

theorem spec_b64Shift (tls) (s : Nat) (pre post : Bytes) (P : Profile) (z : Nat) (ht : P.trans = none) :
    SettingSpec tls (Setting.b64Shift s).enc tB64Shift pre post P z (applySetting (P, z) (.b64Shift s)) := by
  have henc : (Setting.b64Shift s).enc = [byteOf tB64Shift, byteOf s] := by simp [Setting.enc]
  rw [henc]
  have htag : tB64Shift < 256 := by decide
  refine ⟨tag_byte htag _ _ _, by decide, ?_, ?_⟩
  · apply stride_of_nextV (by simp) (len_mid _ _ _)
    left; rw [nextV_at htag, nextArmV_B64Shift]; rfl
  · rw [bcase_B64Shift]
    simp only [List.length_cons, List.length_nil]
    rw [if_neg (by simp [ht]), if_neg (by omega), two_byte_read]
    simp [applySetting, pure_ok']

theorem and_ff (v : Nat) : v &&& 0xFF = v % 256 := Nat.and_two_pow_sub_one_eq_mod v 8

theorem spec_tlsEx (tls : Bytes → Bytes → Bytes → Bool) (v : Nat) (hd : tls [] [] [] = true) (pre post : Bytes)
    (P : Profile) (z : Nat) (hc : P.conn = none) :
    SettingSpec tls (Setting.tlsEx v).enc tTLSx pre post P z (applySetting (P, z) (.tlsEx v)) := by
  have henc : (Setting.tlsEx v).enc = [byteOf tTLSx, byteOf (v &&& 0xFF)] := by simp [Setting.enc]
  rw [henc]
  have htag : tTLSx < 256 := by decide
  refine ⟨tag_byte htag _ _ _, by decide, ?_, ?_⟩
  · apply stride_of_nextV (by simp) (len_mid _ _ _)
    left; rw [nextV_at htag, nextArmV_TLSx]; rfl
  · rw [bcase_TLSx]
    simp only [List.length_cons, List.length_nil]
    unfold bTLSx
    rw [if_neg (by simp [hc]), if_neg (by omega), two_byte_read]
    simp [applySetting, pure_ok', hd, and_ff]

theorem spec_workHours (tls) (w : WorkHours) (hd : w.days < 256 ∧ w.startHour ≤ 23 ∧ w.startMin ≤ 59 ∧
    w.endHour ≤ 23 ∧ w.endMin ≤ 59) (pre post : Bytes) (P : Profile) (z : Nat) :
    SettingSpec tls (Setting.workHours w).enc tWorkHours pre post P z (applySetting (P, z) (.workHours w)) := by
  have henc : (Setting.workHours w).enc = [byteOf tWorkHours, byteOf w.days, byteOf w.startHour,
      byteOf w.startMin, byteOf w.endHour, byteOf w.endMin] := by simp [Setting.enc]
  rw [henc]
  have htag : tWorkHours < 256 := by decide
  refine ⟨tag_byte htag _ _ _, by decide, ?_, ?_⟩
  · apply stride_of_nextV (by simp) (len_mid _ _ _)
    left; rw [nextV_at htag, nextArmV_WorkHours]; rfl
  · rw [bcase_WorkHours]
    simp only [List.length_cons, List.length_nil]
    unfold bWorkHours
    rw [if_neg (by omega), rd_mid pre _ post 2 (by simp), rd_mid pre _ post 3 (by simp),
      rd_mid pre _ post 4 (by simp), rd_mid pre _ post 5 (by simp)]
    simp only [ok_bind, rdv_cons_succ, rdv_cons_zero]
    rw [byteOf_toNat_of_lt (by omega : w.startHour < 256), byteOf_toNat_of_lt (by omega : w.startMin < 256),
      byteOf_toNat_of_lt (by omega : w.endHour < 256), byteOf_toNat_of_lt (by omega : w.endMin < 256),
      if_neg (by omega), rd_mid pre _ post 1 (by simp)]
    simp only [ok_bind, rdv_cons_succ, rdv_cons_zero]
    rw [byteOf_toNat_of_lt hd.1]
    simp [applySetting, pure_ok']

theorem spec_cbk (tls) (sz a b cc d : Nat) (pre post : Bytes) (P : Profile) (z : Nat) :
    SettingSpec tls (Setting.cbk sz a b cc d).enc tCBK pre post P z (applySetting (P, z) (.cbk sz a b cc d)) := by
  have henc : (Setting.cbk sz a b cc d).enc = [byteOf tCBK, byteOf sz, byteOf a, byteOf b, byteOf cc, byteOf d] := by
    simp [Setting.enc]
  rw [henc]
  have htag : tCBK < 256 := by decide
  refine ⟨tag_byte htag _ _ _, by decide, ?_, ?_⟩
  · apply stride_of_nextV (by simp) (len_mid _ _ _)
    left; rw [nextV_at htag, nextArmV_CBK]; rfl
  · rw [bcase_CBK]
    simp only [List.length_cons, List.length_nil]
    unfold bCBK
    rw [if_neg (by omega), rd_mid pre _ post 2 (by simp), rd_mid pre _ post 3 (by simp),
      rd_mid pre _ post 4 (by simp), rd_mid pre _ post 5 (by simp), rd_mid pre _ post 1 (by simp)]
    simp [applySetting, pure_ok', byteOf_toNat]

theorem flag_lt (tag : Nat)
    (h : selTags.contains tag = true ∨ connTags.contains tag = true ∨ wrapTags.contains tag = true ∨ tag = tB64T) :
    tag < 256 ∧ tag ≠ tSeparator := by
  rcases h with h | h | h | h
  · tag_simp_at h
    rcases h with rfl | rfl | rfl | rfl | rfl | rfl <;> decide
  · tag_simp_at h
    rcases h with rfl | rfl | rfl | rfl | rfl | rfl <;> decide
  · tag_simp_at h
    rcases h with rfl | rfl | rfl | rfl <;> decide
  · subst h; decide

theorem sel_not_conn (tag : Nat) (h : selTags.contains tag = true) :
    connTags.contains tag = false ∧ wrapTags.contains tag = false ∧ tag ≠ tB64T := by
  tag_simp_at h
  rcases h with rfl | rfl | rfl | rfl | rfl | rfl <;> decide

theorem conn_not_sel (tag : Nat) (h : connTags.contains tag = true) :
    selTags.contains tag = false ∧ wrapTags.contains tag = false ∧ tag ≠ tB64T := by
  tag_simp_at h
  rcases h with rfl | rfl | rfl | rfl | rfl | rfl <;> decide

theorem wrap_not_sel (tag : Nat) (h : wrapTags.contains tag = true) :
    selTags.contains tag = false ∧ connTags.contains tag = false ∧ tag ≠ tB64T := by
  tag_simp_at h
  rcases h with rfl | rfl | rfl | rfl <;> decide

theorem b64t_not : selTags.contains tB64T = false ∧ connTags.contains tB64T = false ∧
    wrapTags.contains tB64T = false := by decide

theorem spec_flag (tls) (tag : Nat)
    (h : selTags.contains tag = true ∨ connTags.contains tag = true ∨ wrapTags.contains tag = true ∨ tag = tB64T)
    (pre post : Bytes) (P : Profile) (z : Nat)
    (hc : connTags.contains tag = true → P.conn = none) (ht : tag = tB64T → P.trans = none) :
    SettingSpec tls (Setting.flag tag).enc tag pre post P z (applySetting (P, z) (.flag tag)) := by
  have henc : (Setting.flag tag).enc = [byteOf tag] := by simp [Setting.enc]
  rw [henc]
  obtain ⟨htag, hsep⟩ := flag_lt tag h
  refine ⟨tag_byte htag _ _ _, hsep, ?_, ?_⟩
  · apply stride_of_nextV (by simp) (len_mid _ _ _)
    left; rw [nextV_at htag, nextArmV_flag _ _ _ h]; rfl
  · rcases h with h | h | h | h
    · rw [bcase_sel _ _ _ _ _ _ _ h]
      have h' : tag ∈ selTags := by simpa using h
      simp [applySetting, h', pure_ok']
    · obtain ⟨h1, h2, h3⟩ := conn_not_sel tag h
      rw [bcase_conn _ _ _ _ _ _ _ h, if_neg (by simp [hc h])]
      have h' : tag ∈ connTags := by simpa using h
      have h1' : tag ∉ selTags := by simpa using h1
      simp [applySetting, h', h1', pure_ok']
    · obtain ⟨h1, h2, h3⟩ := wrap_not_sel tag h
      rw [bcase_wrap _ _ _ _ _ _ _ h]
      have h' : tag ∈ wrapTags := by simpa using h
      have h1' : tag ∉ selTags := by simpa using h1
      have h2' : tag ∉ connTags := by simpa using h2
      simp [applySetting, h', h1', h2', pure_ok']
    · subst h
      obtain ⟨h1, h2, h3⟩ := b64t_not
      rw [bcase_B64T, if_neg (by simp [ht rfl])]
      have h1' : tB64T ∉ selTags := by simpa using h1
      have h2' : tB64T ∉ connTags := by simpa using h2
      have h3' : tB64T ∉ wrapTags := by simpa using h3
      simp [applySetting, h1', h2', h3', pure_ok']

/-! ### variable-length settings -/

theorem slice_eq {c x body y : Bytes} {a b : Nat} (hc : c = x ++ body ++ y) (ha : a = x.length)
    (hb : b = a + body.length) : slice c a b = .ok body := by
  subst hc ha hb; exact slice_mid x body y

theorem rd16_mid (pre mid post : Bytes) (k n : Nat) (hk : k + 1 < mid.length)
    (h1 : rdv mid k = (byteOf (n >>> 8)).toNat) (h2 : rdv mid (k + 1) = (byteOf n).toNat) (hn : n < 65536) :
    rd16 (pre ++ mid ++ post) (pre.length + k) = .ok n := by
  rw [rd16_ok (by simp; omega)]
  unfold rdv16
  rw [show pre.length + k + 1 = pre.length + (k + 1) by omega, rdv_mid pre mid post (k + 1) hk,
    rdv_mid pre mid post k (by omega), h1, h2, be16_val n hn]

theorem rdv16_mid (pre mid post : Bytes) (k n : Nat) (hk : k + 1 < mid.length)
    (h1 : rdv mid k = (byteOf (n >>> 8)).toNat) (h2 : rdv mid (k + 1) = (byteOf n).toNat) (hn : n < 65536) :
    rdv16 (pre ++ mid ++ post) (pre.length + k) = n := by
  unfold rdv16
  rw [show pre.length + k + 1 = pre.length + (k + 1) by omega, rdv_mid pre mid post (k + 1) hk,
    rdv_mid pre mid post k (by omega), h1, h2, be16_val n hn]

theorem cap16_le (n : Nat) : cap16 n ≤ 0xFFFF ∧ cap16 n ≤ n := by
  unfold cap16; split <;> omega

theorem take_cap16 (s : Bytes) : s.take (cap16 s.length) = s.take 0xFFFF := by
  unfold cap16
  split
  · rfl
  · rw [List.take_of_length_le (Nat.le_refl _), List.take_of_length_le (by omega)]

theorem length_take_cap16 (s : Bytes) : (s.take (cap16 s.length)).length = cap16 s.length := by
  rw [List.length_take]; have := cap16_le s.length; omega

theorem cap16_pos {s : Bytes} (h : s ≠ []) : 0 < cap16 s.length := by
  have : 0 < s.length := List.length_pos_iff.mpr h
  unfold cap16; split <;> omega

theorem spec_host (tls) (s : Bytes) (hs : s ≠ []) (pre post : Bytes) (P : Profile) (z : Nat) :
    SettingSpec tls (Setting.host s).enc tHost pre post P z (applySetting (P, z) (.host s)) := by
  have hne : s.length ≠ 0 := fun h => hs (List.length_eq_zero_iff.mp h)
  have henc : (Setting.host s).enc = [byteOf tHost, byteOf (cap16 s.length >>> 8), byteOf (cap16 s.length)] ++
      s.take (cap16 s.length) := by simp [Setting.enc, hne]
  rw [henc]
  generalize hn : cap16 s.length = n
  have hnl : (s.take n).length = n := by rw [← hn]; exact length_take_cap16 s
  have hn0 : 0 < n := by rw [← hn]; exact cap16_pos hs
  have hn1 : n < 65536 := by rw [← hn]; have := cap16_le s.length; omega
  have hbody : s.take n = s.take 0xFFFF := by rw [← hn]; exact take_cap16 s
  generalize hb : s.take n = body at *
  have hlen : ([byteOf tHost, byteOf (n >>> 8), byteOf n] ++ body).length = 3 + n := by simp [hnl]; omega
  have htag : tHost < 256 := by decide
  have hl := len_mid pre ([byteOf tHost, byteOf (n >>> 8), byteOf n] ++ body) post
  rw [hlen] at hl
  refine ⟨tag_byte htag _ _ _, by decide, ?_, ?_⟩
  · apply stride_of_nextV (by omega) (len_mid _ _ _)
    left
    have := nextV_at htag ([byteOf (n >>> 8), byteOf n] ++ body) pre post
    simp only [List.cons_append, List.nil_append] at this ⊢
    have hl' := hl
    simp only [List.cons_append, List.nil_append] at hl'
    rw [this, nextArmV_Host, if_neg (by omega)]
    have h16 := rdv16_mid pre (byteOf tHost :: byteOf (n >>> 8) :: byteOf n :: body) post 1 n (by simp) rfl rfl hn1
    rw [h16]; simp [hnl]; omega
  · rw [bcase_Host, hlen]
    unfold bHost
    rw [if_neg (by omega)]
    have h16 := rd16_mid pre ([byteOf tHost, byteOf (n >>> 8), byteOf n] ++ body) post 1 n (by simp) rfl rfl hn1
    rw [h16]
    simp only [ok_bind]
    rw [if_neg (by omega)]
    rw [slice_eq (x := pre ++ [byteOf tHost, byteOf (n >>> 8), byteOf n]) (body := body) (y := post)
      (by simp) (by simp) (by simp [hnl]; omega)]
    simp [applySetting, hne, pure_ok', hbody]

theorem spec_xor (tls) (s : Bytes) (hs : s ≠ []) (pre post : Bytes) (P : Profile) (z : Nat) :
    SettingSpec tls (Setting.xor s).enc tXOR pre post P z (applySetting (P, z) (.xor s)) := by
  have hne : s.length ≠ 0 := fun h => hs (List.length_eq_zero_iff.mp h)
  have henc : (Setting.xor s).enc = [byteOf tXOR, byteOf (cap16 s.length >>> 8), byteOf (cap16 s.length)] ++
      s.take (cap16 s.length) := by simp [Setting.enc, hne]
  rw [henc]
  generalize hn : cap16 s.length = n
  have hnl : (s.take n).length = n := by rw [← hn]; exact length_take_cap16 s
  have hn0 : 0 < n := by rw [← hn]; exact cap16_pos hs
  have hn1 : n < 65536 := by rw [← hn]; have := cap16_le s.length; omega
  have hbody : s.take n = s.take 0xFFFF := by rw [← hn]; exact take_cap16 s
  generalize hb : s.take n = body at *
  have hlen : ([byteOf tXOR, byteOf (n >>> 8), byteOf n] ++ body).length = 3 + n := by simp [hnl]; omega
  have htag : tXOR < 256 := by decide
  have hl := len_mid pre ([byteOf tXOR, byteOf (n >>> 8), byteOf n] ++ body) post
  rw [hlen] at hl
  refine ⟨tag_byte htag _ _ _, by decide, ?_, ?_⟩
  · apply stride_of_nextV (by omega) (len_mid _ _ _)
    left
    have := nextV_at htag ([byteOf (n >>> 8), byteOf n] ++ body) pre post
    simp only [List.cons_append, List.nil_append] at this ⊢
    have hl' := hl
    simp only [List.cons_append, List.nil_append] at hl'
    rw [this, nextArmV_XOR, if_neg (by omega)]
    have h16 := rdv16_mid pre (byteOf tXOR :: byteOf (n >>> 8) :: byteOf n :: body) post 1 n (by simp) rfl rfl hn1
    rw [h16]; simp [hnl]; omega
  · rw [bcase_XOR, hlen]
    unfold bXOR
    rw [if_neg (by omega)]
    have h16 := rd16_mid pre ([byteOf tXOR, byteOf (n >>> 8), byteOf n] ++ body) post 1 n (by simp) rfl rfl hn1
    rw [h16]
    simp only [ok_bind]
    rw [if_neg (by omega)]
    rw [slice_eq (x := pre ++ [byteOf tXOR, byteOf (n >>> 8), byteOf n]) (body := body) (y := post)
      (by simp) (by simp) (by simp [hnl]; omega)]
    simp [applySetting, pure_ok', hbody]

theorem cap16_eq_zero {s : Bytes} (h : s = []) : cap16 s.length = 0 := by subst h; rfl

theorem spec_tlsExCA (tls : Bytes → Bytes → Bytes → Bool) (v : Nat) (ca : Bytes)
    (hd : tls (ca.take 0xFFFF) [] [] = true) (pre post : Bytes) (P : Profile) (z : Nat) (hc : P.conn = none) :
    SettingSpec tls (Setting.tlsExCA v ca).enc tTLSxCA pre post P z (applySetting (P, z) (.tlsExCA v ca)) := by
  have henc : (Setting.tlsExCA v ca).enc = [byteOf tTLSxCA, byteOf (v &&& 0xFF), byteOf (cap16 ca.length >>> 8),
      byteOf (cap16 ca.length)] ++ ca.take (cap16 ca.length) := by simp [Setting.enc]
  rw [henc]
  generalize hn : cap16 ca.length = n
  have hnl : (ca.take n).length = n := by rw [← hn]; exact length_take_cap16 ca
  have hn1 : n < 65536 := by rw [← hn]; have := cap16_le ca.length; omega
  have hbody : ca.take n = ca.take 0xFFFF := by rw [← hn]; exact take_cap16 ca
  generalize hb : ca.take n = body at *
  have hlen : ([byteOf tTLSxCA, byteOf (v &&& 0xFF), byteOf (n >>> 8), byteOf n] ++ body).length = 4 + n := by
    simp [hnl]; omega
  have htag : tTLSxCA < 256 := by decide
  have hl := len_mid pre ([byteOf tTLSxCA, byteOf (v &&& 0xFF), byteOf (n >>> 8), byteOf n] ++ body) post
  rw [hlen] at hl
  refine ⟨tag_byte htag _ _ _, by decide, ?_, ?_⟩
  · apply stride_of_nextV (by omega) (len_mid _ _ _)
    left
    have := nextV_at htag ([byteOf (v &&& 0xFF), byteOf (n >>> 8), byteOf n] ++ body) pre post
    simp only [List.cons_append, List.nil_append] at this ⊢
    have hl' := hl
    simp only [List.cons_append, List.nil_append] at hl'
    rw [this, nextArmV_TLSxCA, if_neg (by omega)]
    have h16 := rdv16_mid pre (byteOf tTLSxCA :: byteOf (v &&& 0xFF) :: byteOf (n >>> 8) :: byteOf n :: body) post 2 n
      (by simp) rfl rfl hn1
    rw [h16]; simp [hnl]; omega
  · rw [bcase_TLSxCA, hlen]
    unfold bTLSxCA
    rw [if_neg (by simp [hc]), if_neg (by omega)]
    have h16 := rd16_mid pre ([byteOf tTLSxCA, byteOf (v &&& 0xFF), byteOf (n >>> 8), byteOf n] ++ body) post 2 n
      (by simp) rfl rfl hn1
    rw [h16]
    simp only [ok_bind]
    rw [if_neg (by omega), rd_mid pre _ post 1 (by simp)]
    simp only [ok_bind]
    rw [slice_eq (x := pre ++ [byteOf tTLSxCA, byteOf (v &&& 0xFF), byteOf (n >>> 8), byteOf n]) (body := body)
      (y := post) (by simp) (by simp) (by simp [hnl]; omega)]
    simp [applySetting, pure_ok', hbody, hd, and_ff, byteOf_toNat]

theorem spec_tlsCerts (tls : Bytes → Bytes → Bytes → Bool) (v : Nat) (pem key : Bytes)
    (hp : pem ≠ [])
    (hd : tls [] (pem.take 0xFFFF) (key.take 0xFFFF) = true) (pre post : Bytes) (P : Profile) (z : Nat)
    (hc : P.conn = none) :
    SettingSpec tls (Setting.tlsCerts v pem key).enc tTLSCert pre post P z
      (applySetting (P, z) (.tlsCerts v pem key)) := by
  have henc : (Setting.tlsCerts v pem key).enc = [byteOf tTLSCert, byteOf (v &&& 0xFF),
      byteOf (cap16 pem.length >>> 8), byteOf (cap16 pem.length), byteOf (cap16 key.length >>> 8),
      byteOf (cap16 key.length)] ++ pem.take (cap16 pem.length) ++ key.take (cap16 key.length) := by
    simp [Setting.enc]
  rw [henc]
  generalize hn : cap16 pem.length = n
  generalize hm : cap16 key.length = m
  have hnl : (pem.take n).length = n := by rw [← hn]; exact length_take_cap16 pem
  have hml : (key.take m).length = m := by rw [← hm]; exact length_take_cap16 key
  have hn0 : 0 < n := by rw [← hn]; exact cap16_pos hp
  have hn1 : n < 65536 := by rw [← hn]; have := cap16_le pem.length; omega
  have hm1 : m < 65536 := by rw [← hm]; have := cap16_le key.length; omega
  have hbp : pem.take n = pem.take 0xFFFF := by rw [← hn]; exact take_cap16 pem
  have hbk : key.take m = key.take 0xFFFF := by rw [← hm]; exact take_cap16 key
  generalize hb1 : pem.take n = b1 at *
  generalize hb2 : key.take m = b2 at *
  have hlen : ([byteOf tTLSCert, byteOf (v &&& 0xFF), byteOf (n >>> 8), byteOf n, byteOf (m >>> 8), byteOf m] ++
      b1 ++ b2).length = 6 + n + m := by simp [hnl, hml]; omega
  have htag : tTLSCert < 256 := by decide
  have hl := len_mid pre ([byteOf tTLSCert, byteOf (v &&& 0xFF), byteOf (n >>> 8), byteOf n, byteOf (m >>> 8),
    byteOf m] ++ b1 ++ b2) post
  rw [hlen] at hl
  refine ⟨tag_byte htag _ _ _, by decide, ?_, ?_⟩
  · apply stride_of_nextV (by omega) (len_mid _ _ _)
    left
    have := nextV_at htag ([byteOf (v &&& 0xFF), byteOf (n >>> 8), byteOf n, byteOf (m >>> 8), byteOf m] ++ b1 ++ b2)
      pre post
    simp only [List.cons_append, List.nil_append] at this ⊢
    have hl' := hl
    simp only [List.cons_append, List.nil_append] at hl'
    rw [this, nextArmV_TLSCert, if_neg (by omega)]
    have h16 := rdv16_mid pre (byteOf tTLSCert :: byteOf (v &&& 0xFF) :: byteOf (n >>> 8) :: byteOf n ::
      byteOf (m >>> 8) :: byteOf m :: (b1 ++ b2)) post 2 n (by simp) rfl rfl hn1
    have h16' := rdv16_mid pre (byteOf tTLSCert :: byteOf (v &&& 0xFF) :: byteOf (n >>> 8) :: byteOf n ::
      byteOf (m >>> 8) :: byteOf m :: (b1 ++ b2)) post 4 m (by simp) rfl rfl hm1
    simp only [List.append_assoc] at h16 h16' ⊢
    rw [h16, h16']; simp [hnl, hml]; omega
  · rw [bcase_TLSCert, hlen]
    unfold bTLSCert
    rw [if_neg (by simp [hc]), if_neg (by omega)]
    have h16 := rd16_mid pre ([byteOf tTLSCert, byteOf (v &&& 0xFF), byteOf (n >>> 8), byteOf n, byteOf (m >>> 8),
      byteOf m] ++ b1 ++ b2) post 2 n (by simp) rfl rfl hn1
    have h16' := rd16_mid pre ([byteOf tTLSCert, byteOf (v &&& 0xFF), byteOf (n >>> 8), byteOf n, byteOf (m >>> 8),
      byteOf m] ++ b1 ++ b2) post 4 m (by simp) rfl rfl hm1
    rw [h16, h16']
    simp only [ok_bind]
    rw [if_neg (by omega), rd_mid pre _ post 1 (by simp)]
    simp only [ok_bind]
    rw [slice_eq (x := pre ++ [byteOf tTLSCert, byteOf (v &&& 0xFF), byteOf (n >>> 8), byteOf n, byteOf (m >>> 8),
      byteOf m]) (body := b1) (y := b2 ++ post) (by simp) (by simp) (by simp [hnl]; omega)]
    simp only [ok_bind]
    rw [slice_eq (x := pre ++ [byteOf tTLSCert, byteOf (v &&& 0xFF), byteOf (n >>> 8), byteOf n, byteOf (m >>> 8),
      byteOf m] ++ b1) (body := b2) (y := post) (by simp) (by simp [hnl]; omega) (by simp [hml]; omega)]
    simp [applySetting, pure_ok', hbp, hbk, hd, and_ff, byteOf_toNat]

theorem spec_muTLS (tls : Bytes → Bytes → Bytes → Bool) (v : Nat) (ca pem key : Bytes)
    (hd : tls (ca.take 0xFFFF) (pem.take 0xFFFF) (key.take 0xFFFF) = true) (pre post : Bytes) (P : Profile)
    (z : Nat) (hc : P.conn = none) :
    SettingSpec tls (Setting.muTLS v ca pem key).enc tMuTLS pre post P z
      (applySetting (P, z) (.muTLS v ca pem key)) := by
  have henc : (Setting.muTLS v ca pem key).enc = [byteOf tMuTLS, byteOf (v &&& 0xFF),
      byteOf (cap16 ca.length >>> 8), byteOf (cap16 ca.length),
      byteOf (cap16 pem.length >>> 8), byteOf (cap16 pem.length), byteOf (cap16 key.length >>> 8),
      byteOf (cap16 key.length)] ++ ca.take (cap16 ca.length) ++ pem.take (cap16 pem.length) ++
      key.take (cap16 key.length) := by
    simp [Setting.enc]
  rw [henc]
  generalize ha : cap16 ca.length = a
  generalize hn : cap16 pem.length = n
  generalize hm : cap16 key.length = m
  have hal : (ca.take a).length = a := by rw [← ha]; exact length_take_cap16 ca
  have hnl : (pem.take n).length = n := by rw [← hn]; exact length_take_cap16 pem
  have hml : (key.take m).length = m := by rw [← hm]; exact length_take_cap16 key
  have ha1 : a < 65536 := by rw [← ha]; have := cap16_le ca.length; omega
  have hn1 : n < 65536 := by rw [← hn]; have := cap16_le pem.length; omega
  have hm1 : m < 65536 := by rw [← hm]; have := cap16_le key.length; omega
  have hba : ca.take a = ca.take 0xFFFF := by rw [← ha]; exact take_cap16 ca
  have hbp : pem.take n = pem.take 0xFFFF := by rw [← hn]; exact take_cap16 pem
  have hbk : key.take m = key.take 0xFFFF := by rw [← hm]; exact take_cap16 key
  generalize hb0 : ca.take a = b0 at *
  generalize hb1 : pem.take n = b1 at *
  generalize hb2 : key.take m = b2 at *
  have hlen : ([byteOf tMuTLS, byteOf (v &&& 0xFF), byteOf (a >>> 8), byteOf a, byteOf (n >>> 8), byteOf n, byteOf (m >>> 8), byteOf m] ++ b0 ++ b1 ++ b2).length = 8 + a + n + m := by simp [hal, hnl, hml]; omega
  have htag : tMuTLS < 256 := by decide
  have hl := len_mid pre ([byteOf tMuTLS, byteOf (v &&& 0xFF), byteOf (a >>> 8), byteOf a, byteOf (n >>> 8), byteOf n, byteOf (m >>> 8), byteOf m] ++ b0 ++ b1 ++ b2) post
  rw [hlen] at hl
  refine ⟨tag_byte htag _ _ _, by decide, ?_, ?_⟩
  · apply stride_of_nextV (by omega) (len_mid _ _ _)
    left
    have := nextV_at htag ([byteOf (v &&& 0xFF), byteOf (a >>> 8), byteOf a, byteOf (n >>> 8), byteOf n,
      byteOf (m >>> 8), byteOf m] ++ b0 ++ b1 ++ b2) pre post
    simp only [List.cons_append, List.nil_append] at this ⊢
    have hl' := hl
    simp only [List.cons_append, List.nil_append] at hl'
    rw [this, nextArmV_MuTLS, if_neg (by omega)]
    have h16a := rdv16_mid pre (byteOf tMuTLS :: byteOf (v &&& 0xFF) :: byteOf (a >>> 8) :: byteOf a :: byteOf (n >>> 8) :: byteOf n :: byteOf (m >>> 8) :: byteOf m :: (b0 ++ b1 ++ b2)) post 2 a (by simp) rfl rfl ha1
    have h16 := rdv16_mid pre (byteOf tMuTLS :: byteOf (v &&& 0xFF) :: byteOf (a >>> 8) :: byteOf a :: byteOf (n >>> 8) :: byteOf n :: byteOf (m >>> 8) :: byteOf m :: (b0 ++ b1 ++ b2)) post 4 n (by simp) rfl rfl hn1
    have h16' := rdv16_mid pre (byteOf tMuTLS :: byteOf (v &&& 0xFF) :: byteOf (a >>> 8) :: byteOf a :: byteOf (n >>> 8) :: byteOf n :: byteOf (m >>> 8) :: byteOf m :: (b0 ++ b1 ++ b2)) post 6 m (by simp) rfl rfl hm1
    simp only [List.append_assoc] at h16a h16 h16' ⊢
    rw [h16a, h16, h16']; simp [hal, hnl, hml]; omega
  · rw [bcase_MuTLS, hlen]
    unfold bMuTLS
    rw [if_neg (by simp [hc]), if_neg (by omega)]
    have h16a := rd16_mid pre ([byteOf tMuTLS, byteOf (v &&& 0xFF), byteOf (a >>> 8), byteOf a, byteOf (n >>> 8), byteOf n, byteOf (m >>> 8), byteOf m] ++ b0 ++ b1 ++ b2) post 2 a (by simp) rfl rfl ha1
    have h16 := rd16_mid pre ([byteOf tMuTLS, byteOf (v &&& 0xFF), byteOf (a >>> 8), byteOf a, byteOf (n >>> 8), byteOf n, byteOf (m >>> 8), byteOf m] ++ b0 ++ b1 ++ b2) post 4 n (by simp) rfl rfl hn1
    have h16' := rd16_mid pre ([byteOf tMuTLS, byteOf (v &&& 0xFF), byteOf (a >>> 8), byteOf a, byteOf (n >>> 8), byteOf n, byteOf (m >>> 8), byteOf m] ++ b0 ++ b1 ++ b2) post 6 m (by simp) rfl rfl hm1
    rw [h16a, h16, h16']
    simp only [ok_bind]
    rw [if_neg (by omega), rd_mid pre _ post 1 (by simp)]
    simp only [ok_bind]
    rw [slice_eq (x := pre ++ [byteOf tMuTLS, byteOf (v &&& 0xFF), byteOf (a >>> 8), byteOf a, byteOf (n >>> 8), byteOf n, byteOf (m >>> 8), byteOf m]) (body := b0) (y := b1 ++ b2 ++ post) (by simp) (by simp)
      (by simp [hal]; omega)]
    simp only [ok_bind]
    rw [slice_eq (x := pre ++ [byteOf tMuTLS, byteOf (v &&& 0xFF), byteOf (a >>> 8), byteOf a, byteOf (n >>> 8), byteOf n, byteOf (m >>> 8), byteOf m] ++ b0) (body := b1) (y := b2 ++ post) (by simp) (by simp [hal]; omega)
      (by simp [hnl]; omega)]
    simp only [ok_bind]
    rw [slice_eq (x := pre ++ [byteOf tMuTLS, byteOf (v &&& 0xFF), byteOf (a >>> 8), byteOf a, byteOf (n >>> 8), byteOf n, byteOf (m >>> 8), byteOf m] ++ b0 ++ b1) (body := b2) (y := post) (by simp)
      (by simp [hal, hnl]; omega) (by simp [hml]; omega)]
    simp [applySetting, pure_ok', hba, hbp, hbk, hd, and_ff, byteOf_toNat]

theorem spec_aes (tls) (k iv : Bytes) (hk : k.length = 16 ∨ k.length = 24 ∨ k.length = 32)
    (hiv : iv.length = 16) (pre post : Bytes) (P : Profile) (z : Nat) :
    SettingSpec tls (Setting.aes k iv).enc tAES pre post P z (applySetting (P, z) (.aes k iv)) := by
  have hcap : cap8 k.length = k.length := by unfold cap8; split <;> omega
  have hmin : min k.length (k.length + 16) = k.length := by omega
  have henc : (Setting.aes k iv).enc = [byteOf tAES, byteOf k.length, byteOf 16] ++ k ++ iv := by
    simp only [Setting.enc, hcap, hiv, hmin]
    rw [List.take_of_length_le (Nat.le_refl _), show k.length + 16 - k.length = 16 by omega,
      List.take_of_length_le (by omega)]
  rw [henc]
  have hlen : ([byteOf tAES, byteOf k.length, byteOf 16] ++ k ++ iv).length = 3 + k.length + 16 := by
    simp [hiv]; omega
  have htag : tAES < 256 := by decide
  have hl := len_mid pre ([byteOf tAES, byteOf k.length, byteOf 16] ++ k ++ iv) post
  rw [hlen] at hl
  have hr1 : rdv (byteOf tAES :: byteOf k.length :: byteOf 16 :: (k ++ iv)) 1 = k.length := by
    simp [byteOf_toNat]; omega
  have hr2 : rdv (byteOf tAES :: byteOf k.length :: byteOf 16 :: (k ++ iv)) 2 = 16 := by
    simp [byteOf_toNat]
  refine ⟨tag_byte htag _ _ _, by decide, ?_, ?_⟩
  · apply stride_of_nextV (by omega) (len_mid _ _ _)
    left
    have := nextV_at htag ([byteOf k.length, byteOf 16] ++ k ++ iv) pre post
    simp only [List.cons_append, List.nil_append, List.append_assoc] at this ⊢
    have hl' := hl
    simp only [List.cons_append, List.nil_append, List.append_assoc] at hl'
    rw [this, nextArmV_AES, if_neg (by omega)]
    have e1 := rdv_mid pre (byteOf tAES :: byteOf k.length :: byteOf 16 :: (k ++ iv)) post 1 (by simp)
    have e2 := rdv_mid pre (byteOf tAES :: byteOf k.length :: byteOf 16 :: (k ++ iv)) post 2 (by simp)
    simp only [List.cons_append, List.append_assoc] at e1 e2
    rw [e1, e2, hr1, hr2]; simp [hiv]; omega
  · rw [bcase_AES, hlen]
    unfold bAES
    rw [if_neg (by omega), rd_mid pre _ post 1 (by simp), rd_mid pre _ post 2 (by simp)]
    simp only [ok_bind, List.cons_append, List.nil_append, List.append_assoc]
    rw [hr1, hr2, if_neg (by omega)]
    rw [slice_eq (x := pre ++ [byteOf tAES, byteOf k.length, byteOf 16]) (body := k) (y := iv ++ post)
      (by simp) (by simp) (by omega)]
    simp only [ok_bind]
    rw [if_neg (not_not_intro hk)]
    rw [slice_eq (x := pre ++ [byteOf tAES, byteOf k.length, byteOf 16] ++ k) (body := iv) (y := post)
      (by simp) (by simp; omega) (by simp [hiv]; omega)]
    simp only [ok_bind]
    rw [if_neg (by simp [hiv])]
    simp [applySetting, pure_ok']

/-! ### DNS names -/

theorem encName_length (v : Bytes) : (encName v).length = (v.take 0xFF).length + 1 := by
  simp [encName]

theorem take255_len (v : Bytes) : (v.take 0xFF).length ≤ 255 := by
  rw [List.length_take]; omega

theorem take255_pos {v : Bytes} (h : v ≠ []) : 0 < (v.take 0xFF).length := by
  have : 0 < v.length := List.length_pos_iff.mpr h
  rw [List.length_take]; omega

theorem flatMap_encName_len (ns : List Bytes) (h : ∀ v ∈ ns, v ≠ []) :
    2 * ns.length ≤ (ns.flatMap encName).length := by
  induction ns with
  | nil => simp
  | cons v rest ih =>
    have := ih (fun w hw => h w (List.mem_cons_of_mem _ hw))
    have hv := take255_pos (h v List.mem_cons_self)
    simp only [List.flatMap_cons, List.length_append, List.length_cons, encName_length]
    omega

theorem rdv_at (X : Bytes) (b : UInt8) (Y : Bytes) : rdv (X ++ b :: Y) X.length = b.toNat := by
  unfold rdv; simp [List.getD]

theorem dnsEnd_names (c : Bytes) : ∀ (ns : List Bytes) (X Y : Bytes), c = X ++ ns.flatMap encName ++ Y →
    (∀ v ∈ ns, v ≠ []) → dnsEnd c ns.length X.length = X.length + (ns.flatMap encName).length := by
  intro ns
  induction ns with
  | nil => intro X Y _ _; simp [dnsEnd]
  | cons v rest ih =>
    intro X Y hc hne
    have hv := take255_pos (hne v List.mem_cons_self)
    have hvl := take255_len v
    simp only [List.length_cons, List.flatMap_cons]
    unfold dnsEnd
    have hclen : X.length + (encName v).length ≤ c.length := by
      rw [hc]; simp only [List.flatMap_cons, List.length_append]; omega
    rw [encName_length] at hclen
    rw [if_pos (by omega)]
    have hr : rdv c X.length = (v.take 0xFF).length := by
      rw [hc]; simp only [List.flatMap_cons, encName, List.cons_append, List.append_assoc]
      rw [rdv_at, byteOf_toNat_of_lt (by omega)]
    rw [hr]
    have := ih (X ++ encName v) Y (by rw [hc]; simp) (fun w hw => hne w (List.mem_cons_of_mem _ hw))
    simp only [List.length_append, encName_length] at this ⊢
    rw [show X.length + ((v.take 0xFF).length + 1) = X.length + ((v.take 0xFF).length + 1) from rfl] at this
    rw [this]; omega

theorem bDNS_names (c : Bytes) (i n' : Nat) : ∀ (ns : List Bytes) (X Y : Bytes) (acc : List Bytes),
    c = X ++ ns.flatMap encName ++ Y → (∀ v ∈ ns, v ≠ []) →
    n' = X.length + (ns.flatMap encName).length → i ≤ X.length →
    bDNS c i n' ns.length X.length X.length acc = .ok (acc ++ ns.map (·.take 0xFF)) := by
  intro ns
  induction ns with
  | nil => intro X Y acc _ _ _ _; simp [bDNS, pure_ok']
  | cons v rest ih =>
    intro X Y acc hc hne hn' hi
    have hv := take255_pos (hne v List.mem_cons_self)
    have hvl := take255_len v
    have hrest := flatMap_encName_len rest (fun w hw => hne w (List.mem_cons_of_mem _ hw))
    simp only [List.flatMap_cons, List.length_append, encName_length] at hn'
    simp only [List.length_cons]
    unfold bDNS
    have hclen : n' ≤ c.length := by
      rw [hc, hn']; simp only [List.flatMap_cons, List.length_append, encName_length]; omega
    rw [if_pos (by omega), rd_ok (by omega)]
    have hr : rdv c X.length = (v.take 0xFF).length := by
      rw [hc]; simp only [List.flatMap_cons, encName, List.cons_append, List.append_assoc]
      rw [rdv_at, byteOf_toNat_of_lt (by omega)]
    simp only [ok_bind, hr]
    rw [if_neg (by omega)]
    rw [slice_eq (x := X ++ [byteOf (v.take 0xFF).length]) (body := v.take 0xFF)
      (y := rest.flatMap encName ++ Y) (by rw [hc]; simp [encName]) (by simp) (by simp; omega)]
    simp only [ok_bind]
    have := ih (X ++ encName v) Y (acc ++ [v.take 0xFF]) (by rw [hc]; simp)
      (fun w hw => hne w (List.mem_cons_of_mem _ hw))
      (by simp only [List.length_append, encName_length]; omega)
      (by simp only [List.length_append]; omega)
    simp only [List.length_append, encName_length] at this
    rw [this]; simp

theorem spec_dns (tls) (names : List Bytes) (hne : ∀ v ∈ names, v ≠ []) (pre post : Bytes) (P : Profile)
    (z : Nat) (ht : P.trans = none) :
    SettingSpec tls (Setting.dns names).enc tDNS pre post P z (applySetting (P, z) (.dns names)) := by
  generalize hns : names.take 0xFF = ns
  have hnsl : ns.length ≤ 255 := by rw [← hns, List.length_take]; omega
  have hne' : ∀ v ∈ ns, v ≠ [] := fun v hv => hne v (by rw [← hns] at hv; exact List.mem_of_mem_take hv)
  have hcnt : (if names.length > 0xFF then (0xFF : UInt8) else byteOf names.length) = byteOf ns.length := by
    rw [← hns, List.length_take]
    split
    · rw [show min 0xFF names.length = 255 by omega]; rfl
    · rw [show min 0xFF names.length = names.length by omega]
  have henc : (Setting.dns names).enc = [byteOf tDNS, byteOf ns.length] ++ ns.flatMap encName := by
    simp only [Setting.enc, hcnt, hns]
  rw [henc]
  generalize hF : ns.flatMap encName = F
  have hlen : ([byteOf tDNS, byteOf ns.length] ++ F).length = 2 + F.length := by simp; omega
  have htag : tDNS < 256 := by decide
  have hl := len_mid pre ([byteOf tDNS, byteOf ns.length] ++ F) post
  rw [hlen] at hl
  have hcnt' : rdv (byteOf tDNS :: byteOf ns.length :: F) 1 = ns.length := by
    simp [byteOf_toNat]; omega
  have hc : pre ++ ([byteOf tDNS, byteOf ns.length] ++ F) ++ post =
      (pre ++ [byteOf tDNS, byteOf ns.length]) ++ ns.flatMap encName ++ post := by rw [hF]; simp
  refine ⟨tag_byte htag _ _ _, by decide, ?_, ?_⟩
  · apply stride_of_nextV (by omega) (len_mid _ _ _)
    left
    have := nextV_at htag ([byteOf ns.length] ++ F) pre post
    simp only [List.cons_append, List.nil_append] at this ⊢
    have hl' := hl
    simp only [List.cons_append, List.nil_append] at hl'
    rw [this, nextArmV_DNS, if_neg (by omega)]
    have e1 := rdv_mid pre (byteOf tDNS :: byteOf ns.length :: F) post 1 (by simp)
    rw [e1, hcnt']
    have hd := dnsEnd_names _ ns (pre ++ [byteOf tDNS, byteOf ns.length]) post hc hne'
    simp only [List.cons_append, List.nil_append, List.length_append, List.length_cons, List.length_nil] at hd
    rw [hd, hF]; simp; omega
  · rw [bcase_DNS, hlen, if_neg (by simp [ht])]
    unfold bDNSArm
    rw [if_neg (by omega), rd_mid pre _ post 1 (by simp)]
    simp only [ok_bind, List.cons_append, List.nil_append]
    rw [hcnt']
    have hb := bDNS_names _ pre.length (pre.length + (2 + F.length)) ns (pre ++ [byteOf tDNS, byteOf ns.length]) post []
      hc hne' (by rw [hF]; simp; omega) (by simp)
    simp only [List.cons_append, List.nil_append, List.length_append, List.length_cons, List.length_nil] at hb
    rw [hb]
    simp [applySetting, pure_ok', hns]

/-! ### WebC2 headers -/

theorem encHeader_length (kv : Bytes × Bytes) :
    (encHeader kv).length = (kv.1.take 0xFF).length + (kv.2.take 0xFF).length + 2 := by
  simp only [encHeader, List.length_append, List.length_cons, List.length_nil]; omega

theorem rdv_at1 (X : Bytes) (a b : UInt8) (Y : Bytes) : rdv (X ++ a :: b :: Y) (X.length + 1) = b.toNat := by
  have := rdv_at (X ++ [a]) b Y
  simpa using this

theorem wc2HdrEnd_headers (c : Bytes) : ∀ (hs : List (Bytes × Bytes)) (X Y : Bytes),
    c = X ++ hs.flatMap encHeader ++ Y → (∀ kv ∈ hs, kv.1 ≠ []) → 0 < X.length →
    wc2HdrEnd c hs.length X.length = some (X.length + (hs.flatMap encHeader).length) := by
  intro hs
  induction hs with
  | nil => intro X Y _ _ _; simp [wc2HdrEnd]
  | cons kv rest ih =>
    intro X Y hc hne hX
    have hk := take255_pos (hne kv List.mem_cons_self)
    have hkl := take255_len kv.1
    have hwl := take255_len kv.2
    simp only [List.length_cons, List.flatMap_cons]
    unfold wc2HdrEnd
    have hclen : X.length + (encHeader kv).length ≤ c.length := by
      rw [hc]; simp only [List.flatMap_cons, List.length_append]; omega
    rw [encHeader_length] at hclen
    rw [if_pos (by omega), if_neg (by omega)]
    have hr : rdv c X.length = (kv.1.take 0xFF).length := by
      rw [hc]; simp only [List.flatMap_cons, encHeader, List.cons_append, List.nil_append, List.append_assoc]
      rw [rdv_at, byteOf_toNat_of_lt (by omega)]
    have hr1 : rdv c (X.length + 1) = (kv.2.take 0xFF).length := by
      rw [hc]; simp only [List.flatMap_cons, encHeader, List.cons_append, List.nil_append, List.append_assoc]
      rw [rdv_at1, byteOf_toNat_of_lt (by omega)]
    rw [hr, hr1]
    have := ih (X ++ encHeader kv) Y (by rw [hc]; simp) (fun w hw => hne w (List.mem_cons_of_mem _ hw))
      (by simp; omega)
    simp only [List.length_append, encHeader_length] at this ⊢
    rw [show X.length + ((kv.1.take 0xFF).length + (kv.2.take 0xFF).length + 2) =
      X.length + ((kv.1.take 0xFF).length + (kv.2.take 0xFF).length + 2) from rfl] at this
    rw [this]; congr 1; omega

theorem bWC2Hdr_headers (c : Bytes) (i n' : Nat) : ∀ (hs : List (Bytes × Bytes)) (X Y : Bytes)
    (acc : List (Bytes × Bytes)) (f q j : Nat),
    c = X ++ hs.flatMap encHeader ++ Y → (∀ kv ∈ hs, kv.1 ≠ []) →
    n' = X.length + (hs.flatMap encHeader).length → hs.length < f → i ≤ X.length → q ≤ X.length → j ≤ X.length →
    bWC2Hdr c i n' f X.length q j acc =
      .ok (acc ++ hs.map (fun kv => (kv.1.take 0xFF, kv.2.take 0xFF))) := by
  intro hs
  induction hs with
  | nil =>
    intro X Y acc f q j _ _ hn' hf _ _ _
    cases f with
    | zero => simp at hf
    | succ f =>
      unfold bWC2Hdr
      simp only [List.flatMap_nil, List.length_nil, Nat.add_zero] at hn'
      rw [if_neg (by omega)]; simp [pure_ok']
  | cons kv rest ih =>
    intro X Y acc f q j hc hne hn' hf hi hq hj
    have hk := take255_pos (hne kv List.mem_cons_self)
    have hkl := take255_len kv.1
    have hwl := take255_len kv.2
    cases f with
    | zero => simp at hf
    | succ f =>
      simp only [List.flatMap_cons, List.length_append, encHeader_length] at hn'
      unfold bWC2Hdr
      have hclen : n' ≤ c.length := by
        rw [hc, hn']; simp only [List.flatMap_cons, List.length_append, encHeader_length]; omega
      rw [if_pos (by omega), if_neg (by omega), rd_ok (by omega), rd_ok (by omega)]
      have hr : rdv c X.length = (kv.1.take 0xFF).length := by
        rw [hc]; simp only [List.flatMap_cons, encHeader, List.cons_append, List.nil_append, List.append_assoc]
        rw [rdv_at, byteOf_toNat_of_lt (by omega)]
      have hr1 : rdv c (X.length + 1) = (kv.2.take 0xFF).length := by
        rw [hc]; simp only [List.flatMap_cons, encHeader, List.cons_append, List.nil_append, List.append_assoc]
        rw [rdv_at1, byteOf_toNat_of_lt (by omega)]
      simp only [ok_bind, hr, hr1]
      rw [if_neg (by omega)]
      rw [slice_eq (x := X ++ [byteOf (kv.1.take 0xFF).length, byteOf (kv.2.take 0xFF).length])
        (body := kv.1.take 0xFF) (y := kv.2.take 0xFF ++ rest.flatMap encHeader ++ Y)
        (by rw [hc]; simp [encHeader]) (by simp) (by simp; omega)]
      simp only [ok_bind]
      rw [slice_eq (x := X ++ [byteOf (kv.1.take 0xFF).length, byteOf (kv.2.take 0xFF).length] ++ kv.1.take 0xFF)
        (body := kv.2.take 0xFF) (y := rest.flatMap encHeader ++ Y)
        (by rw [hc]; simp [encHeader]) (by simp; omega) (by simp; omega)]
      simp only [ok_bind]
      have := ih (X ++ encHeader kv) Y (acc ++ [(kv.1.take 0xFF, kv.2.take 0xFF)]) f (X.length + 2)
        ((kv.1.take 0xFF).length + X.length + 2) (by rw [hc]; simp)
        (fun w hw => hne w (List.mem_cons_of_mem _ hw))
        (by simp only [List.length_append, encHeader_length]; omega)
        (by simp only [List.length_cons] at hf; omega)
        (by simp only [List.length_append]; omega)
        (by simp only [List.length_append, encHeader_length]; omega)
        (by simp only [List.length_append, encHeader_length]; omega)
      simp only [List.length_append, encHeader_length] at this
      rw [show (kv.2.take 0xFF).length + ((kv.1.take 0xFF).length + X.length + 2) =
        X.length + ((kv.1.take 0xFF).length + (kv.2.take 0xFF).length + 2) by omega]
      rw [this]; simp

theorem flatMap_encHeader_len (hs : List (Bytes × Bytes)) (h : ∀ kv ∈ hs, kv.1 ≠ []) :
    3 * hs.length ≤ (hs.flatMap encHeader).length := by
  induction hs with
  | nil => simp
  | cons kv rest ih =>
    have := ih (fun w hw => h w (List.mem_cons_of_mem _ hw))
    have hv := take255_pos (h kv List.mem_cons_self)
    simp only [List.flatMap_cons, List.length_append, List.length_cons, encHeader_length]
    omega

theorem opt_slice_eq {c x body y : Bytes} {a b : Nat} (hc : c = x ++ body ++ y) (ha : a = x.length)
    (hb : b = a + body.length) : (if b > a then slice c a b else pure []) = .ok body := by
  split
  · exact slice_eq hc ha hb
  · have : body.length = 0 := by omega
    rw [List.length_eq_zero_iff.mp this]; rfl

theorem opt_slice_eq2 {c x body y : Bytes} {a b : Nat} {g : Prop} [Decidable g] (hg : ¬g)
    (hc : c = x ++ body ++ y) (ha : a = x.length) (hb : b = a + body.length) :
    (if b > a then (if g then inv "wc2" else slice c a b) else pure []) = .ok body := by
  rw [if_neg hg]; exact opt_slice_eq hc ha hb

theorem take16_len (s : Bytes) : (s.take 0xFFFF).length < 65536 := by
  rw [List.length_take]; omega

theorem spec_wc2 (tls) (url hst agent : Bytes) (hs : List (Bytes × Bytes)) (hcount : hs.length ≤ 255)
    (hne : ∀ kv ∈ hs, kv.1 ≠ []) (pre post : Bytes) (P : Profile) (z : Nat) (hconn : P.conn = none) :
    SettingSpec tls (Setting.wc2 url hst agent hs).enc tWC2 pre post P z
      (applySetting (P, z) (.wc2 url hst agent hs)) := by
  have htake : hs.take 0xFF = hs := List.take_of_length_le (by omega)
  generalize hU : url.take 0xFFFF = U
  generalize hH : hst.take 0xFFFF = H
  generalize hA : agent.take 0xFFFF = A
  have hul : U.length < 65536 := by rw [← hU]; exact take16_len url
  have hhl : H.length < 65536 := by rw [← hH]; exact take16_len hst
  have hal : A.length < 65536 := by rw [← hA]; exact take16_len agent
  generalize hulg : U.length = ul at hul
  generalize hhlg : H.length = hl at hhl
  generalize halg : A.length = al at hal
  generalize hF : hs.flatMap encHeader = F
  have henc : (Setting.wc2 url hst agent hs).enc = [byteOf tWC2, byteOf (ul >>> 8), byteOf ul, byteOf (hl >>> 8), byteOf hl, byteOf (al >>> 8), byteOf al, byteOf hs.length] ++ U ++ H ++ A ++ F := by
    simp only [Setting.enc, htake, hU, hH, hA, hulg, hhlg, halg, hF]
  rw [henc]
  have hlen : ([byteOf tWC2, byteOf (ul >>> 8), byteOf ul, byteOf (hl >>> 8), byteOf hl, byteOf (al >>> 8), byteOf al, byteOf hs.length] ++ U ++ H ++ A ++ F).length = 8 + ul + hl + al + F.length := by
    simp [hulg, hhlg, halg]; omega
  have htag : tWC2 < 256 := by decide
  have hlm := len_mid pre ([byteOf tWC2, byteOf (ul >>> 8), byteOf ul, byteOf (hl >>> 8), byteOf hl, byteOf (al >>> 8), byteOf al, byteOf hs.length] ++ U ++ H ++ A ++ F) post
  rw [hlen] at hlm
  have hFlen := flatMap_encHeader_len hs hne
  rw [hF] at hFlen
  have hclen : (pre ++ ([byteOf tWC2, byteOf (ul >>> 8), byteOf ul, byteOf (hl >>> 8), byteOf hl, byteOf (al >>> 8), byteOf al, byteOf hs.length] ++ U ++ H ++ A ++ F) ++ post).length =
      pre.length + (8 + ul + hl + al + F.length) + post.length := by
    rw [List.length_append, List.length_append, hlen]
  have hmidlen : (byteOf tWC2 :: byteOf (ul >>> 8) :: byteOf ul :: byteOf (hl >>> 8) :: byteOf hl :: byteOf (al >>> 8) :: byteOf al :: byteOf hs.length :: (U ++ (H ++ (A ++ F)))).length = 8 + ul + hl + al + F.length := by
    simp [hulg, hhlg, halg]; omega
  have e1 := rdv16_mid pre (byteOf tWC2 :: byteOf (ul >>> 8) :: byteOf ul :: byteOf (hl >>> 8) :: byteOf hl :: byteOf (al >>> 8) :: byteOf al :: byteOf hs.length :: (U ++ (H ++ (A ++ F)))) post 1 ul (by rw [hmidlen]; omega) rfl rfl hul
  have e3 := rdv16_mid pre (byteOf tWC2 :: byteOf (ul >>> 8) :: byteOf ul :: byteOf (hl >>> 8) :: byteOf hl :: byteOf (al >>> 8) :: byteOf al :: byteOf hs.length :: (U ++ (H ++ (A ++ F)))) post 3 hl (by rw [hmidlen]; omega) rfl rfl hhl
  have e5 := rdv16_mid pre (byteOf tWC2 :: byteOf (ul >>> 8) :: byteOf ul :: byteOf (hl >>> 8) :: byteOf hl :: byteOf (al >>> 8) :: byteOf al :: byteOf hs.length :: (U ++ (H ++ (A ++ F)))) post 5 al (by rw [hmidlen]; omega) rfl rfl hal
  have e7 : rdv (pre ++ (byteOf tWC2 :: byteOf (ul >>> 8) :: byteOf ul :: byteOf (hl >>> 8) :: byteOf hl :: byteOf (al >>> 8) :: byteOf al :: byteOf hs.length :: (U ++ (H ++ (A ++ F)))) ++ post) (pre.length + 7) = hs.length := by
    rw [rdv_mid pre _ post 7 (by rw [hmidlen]; omega)]
    simp [byteOf_toNat]; omega
  have hX : pre ++ ([byteOf tWC2, byteOf (ul >>> 8), byteOf ul, byteOf (hl >>> 8), byteOf hl, byteOf (al >>> 8), byteOf al, byteOf hs.length] ++ U ++ H ++ A ++ F) ++ post =
      (pre ++ [byteOf tWC2, byteOf (ul >>> 8), byteOf ul, byteOf (hl >>> 8), byteOf hl, byteOf (al >>> 8), byteOf al, byteOf hs.length] ++ U ++ H ++ A) ++ hs.flatMap encHeader ++ post := by rw [hF]; simp
  have hXlen : (pre ++ [byteOf tWC2, byteOf (ul >>> 8), byteOf ul, byteOf (hl >>> 8), byteOf hl, byteOf (al >>> 8), byteOf al, byteOf hs.length] ++ U ++ H ++ A).length = pre.length + 8 + ul + hl + al := by
    simp [hulg, hhlg, halg]; omega
  have hclenC : (pre ++ (byteOf tWC2 :: byteOf (ul >>> 8) :: byteOf ul :: byteOf (hl >>> 8) :: byteOf hl :: byteOf (al >>> 8) :: byteOf al :: byteOf hs.length :: (U ++ (H ++ (A ++ F)))) ++ post).length = pre.length + (8 + ul + hl + al + F.length) + post.length := by
    rw [List.length_append, List.length_append, hmidlen]
  have hclenN : (pre ++ byteOf tWC2 :: byteOf (ul >>> 8) :: byteOf ul :: byteOf (hl >>> 8) :: byteOf hl :: byteOf (al >>> 8) :: byteOf al :: byteOf hs.length :: (U ++ (H ++ (A ++ (F ++ post))))).length = pre.length + (8 + ul + hl + al + F.length) + post.length := by
    simp [hulg, hhlg, halg]; omega
  have hXN : pre ++ byteOf tWC2 :: byteOf (ul >>> 8) :: byteOf ul :: byteOf (hl >>> 8) :: byteOf hl :: byteOf (al >>> 8) :: byteOf al :: byteOf hs.length :: (U ++ (H ++ (A ++ (F ++ post)))) = (pre ++ [byteOf tWC2, byteOf (ul >>> 8), byteOf ul, byteOf (hl >>> 8), byteOf hl, byteOf (al >>> 8), byteOf al, byteOf hs.length] ++ U ++ H ++ A) ++ hs.flatMap encHeader ++ post := by rw [hF]; simp
  refine ⟨tag_byte htag _ _ _, by decide, ?_, ?_⟩
  · apply stride_of_nextV (by omega) (len_mid _ _ _)
    have hnv := nextV_at htag ([byteOf (ul >>> 8), byteOf ul, byteOf (hl >>> 8), byteOf hl, byteOf (al >>> 8),
      byteOf al, byteOf hs.length] ++ U ++ H ++ A ++ F) pre post
    simp only [List.cons_append, List.nil_append, List.append_assoc] at hnv e1 e3 e5 e7 ⊢
    rw [hnv, nextArmV_WC2, e1, e3, e5, e7, hclenN, if_neg (by omega)]
    by_cases hF0 : F.length = 0 ∧ post.length = 0
    · right
      rw [if_pos (by omega)]
      exact ⟨rfl, by rw [hmidlen]; omega⟩
    · left
      rw [if_neg (by omega)]
      by_cases hh : hs.length = 0
      · rw [if_pos hh]
        have : F.length = 0 := by
          rw [← hF, List.length_eq_zero_iff.mp hh]; rfl
        rw [hmidlen]; congr 1; omega
      · rw [if_neg hh]
        have hw := wc2HdrEnd_headers _ hs _ post hXN hne (by rw [hXlen]; omega)
        rw [hXlen, hF] at hw
        rw [show pre.length + 8 + ul + hl + al = pre.length + 8 + ul + hl + al from rfl, hw, hmidlen]
        congr 1; omega
  · rw [bcase_WC2, hlen, if_neg (by simp [hconn])]
    unfold bWC2
    simp only [List.cons_append, List.nil_append, List.append_assoc]
    have r1 := rd16_mid pre (byteOf tWC2 :: byteOf (ul >>> 8) :: byteOf ul :: byteOf (hl >>> 8) :: byteOf hl :: byteOf (al >>> 8) :: byteOf al :: byteOf hs.length :: (U ++ (H ++ (A ++ F)))) post 1 ul (by rw [hmidlen]; omega) rfl rfl hul
    have r3 := rd16_mid pre (byteOf tWC2 :: byteOf (ul >>> 8) :: byteOf ul :: byteOf (hl >>> 8) :: byteOf hl :: byteOf (al >>> 8) :: byteOf al :: byteOf hs.length :: (U ++ (H ++ (A ++ F)))) post 3 hl (by rw [hmidlen]; omega) rfl rfl hhl
    have r5 := rd16_mid pre (byteOf tWC2 :: byteOf (ul >>> 8) :: byteOf ul :: byteOf (hl >>> 8) :: byteOf hl :: byteOf (al >>> 8) :: byteOf al :: byteOf hs.length :: (U ++ (H ++ (A ++ F)))) post 5 al (by rw [hmidlen]; omega) rfl rfl hal
    have r7 : rd (pre ++ (byteOf tWC2 :: byteOf (ul >>> 8) :: byteOf ul :: byteOf (hl >>> 8) :: byteOf hl :: byteOf (al >>> 8) :: byteOf al :: byteOf hs.length :: (U ++ (H ++ (A ++ F)))) ++ post) (pre.length + 7) = .ok hs.length := by
      rw [rd_ok (by rw [hclenC]; omega), e7]
    simp only [List.cons_append, List.nil_append, List.append_assoc] at r1 r3 r5 r7
    rw [if_neg (by omega), r1, r3, r5, r7]
    simp only [ok_bind]
    rw [if_neg (by omega)]
    rw [opt_slice_eq (x := pre ++ [byteOf tWC2, byteOf (ul >>> 8), byteOf ul, byteOf (hl >>> 8), byteOf hl, byteOf (al >>> 8), byteOf al, byteOf hs.length]) (body := U) (y := H ++ (A ++ F) ++ post)
      (by simp) (by simp) (by simp [hulg]; omega)]
    simp only [ok_bind]
    rw [opt_slice_eq2 (x := pre ++ [byteOf tWC2, byteOf (ul >>> 8), byteOf ul, byteOf (hl >>> 8), byteOf hl, byteOf (al >>> 8), byteOf al, byteOf hs.length] ++ U) (body := H) (y := A ++ F ++ post) (by omega)
      (by simp) (by simp [hulg]; omega) (by simp [hhlg]; omega)]
    simp only [ok_bind]
    rw [opt_slice_eq2 (x := pre ++ [byteOf tWC2, byteOf (ul >>> 8), byteOf ul, byteOf (hl >>> 8), byteOf hl, byteOf (al >>> 8), byteOf al, byteOf hs.length] ++ U ++ H) (body := A) (y := F ++ post) (by omega)
      (by simp) (by simp [hulg, hhlg]; omega) (by simp [halg]; omega)]
    simp only [ok_bind]
    by_cases hh : hs.length = 0
    · rw [if_neg (by omega)]
      have : hs = [] := List.length_eq_zero_iff.mp hh
      simp [applySetting, pure_ok', hU, hH, hA, this]
    · rw [if_pos (by omega)]
      have hb := bWC2Hdr_headers _ pre.length (pre.length + (8 + ul + hl + al + F.length)) hs _ post []
        ((pre ++ byteOf tWC2 :: byteOf (ul >>> 8) :: byteOf ul :: byteOf (hl >>> 8) :: byteOf hl :: byteOf (al >>> 8) :: byteOf al :: byteOf hs.length :: (U ++ (H ++ (A ++ (F ++ post))))).length + 1) (hl + (ul + pre.length + 8)) 0 hXN hne
        (by rw [hXlen, hF]; omega) (by rw [hclenN]; omega) (by rw [hXlen]; omega) (by rw [hXlen]; omega) (by omega)
      rw [hXlen] at hb
      rw [show al + (hl + (ul + pre.length + 8)) = pre.length + 8 + ul + hl + al by omega, hb]
      simp [applySetting, pure_ok', hU, hH, hA, htake]

/-! ### all constructors -/

/-- the tag byte a (non-nil) setting starts with -/
def Setting.tag : Setting → Nat
  | .host _ => tHost | .sleep _ => tSleep | .jitter _ => tJitter | .weight _ => tWeight
  | .keyPin _ => tKeyPin | .killDate _ => tKillDate | .workHours _ => tWorkHours | .flag t => t
  | .ip _ => tIP | .tlsEx _ => tTLSx | .tlsExCA _ _ => tTLSxCA | .tlsCerts _ _ _ => tTLSCert
  | .muTLS _ _ _ _ => tMuTLS | .wc2 _ _ _ _ => tWC2 | .xor _ => tXOR | .aes _ _ => tAES
  | .cbk _ _ _ _ _ => tCBK | .dns _ => tDNS | .b64Shift _ => tB64Shift

/-- sets the connector hint -/
def Setting.isConn : Setting → Bool
  | .flag t => connTags.contains t
  | .ip _ | .tlsEx _ | .tlsExCA _ _ | .tlsCerts _ _ _ | .muTLS _ _ _ _ | .wc2 _ _ _ _ => true
  | _ => false

/-- sets the transform -/
def Setting.isTrans : Setting → Bool
  | .flag t => t == tB64T
  | .dns _ | .b64Shift _ => true
  | _ => false

/-- The documented domain of each constructor's arguments (values that fit the encoding's fields,
work hours in range, non-empty key / names / header names, AES key and IV sizes), and — the one part
that is not about the encoding — `tls` accepting the PEM blocks supplied. -/
def Setting.inDom (tls : Bytes → Bytes → Bytes → Bool) : Setting → Bool
  | .host _ => true
  | .sleep t => decide (t < 2 ^ 63)
  | .jitter _ => true
  | .weight _ => true
  | .keyPin h => decide (h < 2 ^ 32)
  | .killDate u => decide (u < 2 ^ 64)
  | .workHours w => decide (w.days < 256 ∧ w.startHour ≤ 23 ∧ w.startMin ≤ 59 ∧ w.endHour ≤ 23 ∧ w.endMin ≤ 59)
  | .flag t => selTags.contains t || connTags.contains t || wrapTags.contains t || t == tB64T
  | .ip p => decide (p % 256 ≠ 0)
  | .tlsEx _ => tls [] [] []
  | .tlsExCA _ ca => tls (ca.take 0xFFFF) [] []
  | .tlsCerts _ pem key => !pem.isEmpty && !key.isEmpty && tls [] (pem.take 0xFFFF) (key.take 0xFFFF)
  | .muTLS _ ca pem key => tls (ca.take 0xFFFF) (pem.take 0xFFFF) (key.take 0xFFFF)
  | .wc2 _ _ _ hs => decide (hs.length ≤ 255) && hs.all (fun kv => !kv.1.isEmpty)
  | .xor k => !k.isEmpty
  | .aes k iv => decide ((k.length = 16 ∨ k.length = 24 ∨ k.length = 32) ∧ iv.length = 16)
  | .cbk _ _ _ _ _ => true
  | .dns names => names.all (fun n => !n.isEmpty)
  | .b64Shift _ => true

theorem isEmpty_false {l : Bytes} (h : (!l.isEmpty) = true) : l ≠ [] := by
  cases l <;> simp_all

/-- Every constructor: a non-nil setting in its domain, placed anywhere in a config, is stepped
over exactly by the parser's stride and decoded by build's switch to exactly its meaning. -/
theorem setting_spec (tls : Bytes → Bytes → Bytes → Bool) (s : Setting) (hd : s.inDom tls = true)
    (he : s.enc ≠ []) (pre post : Bytes) (P : Profile) (z : Nat)
    (hc : s.isConn = true → P.conn = none) (ht : s.isTrans = true → P.trans = none) :
    SettingSpec tls s.enc s.tag pre post P z (applySetting (P, z) s) := by
  cases s with
  | host h =>
    have : h ≠ [] := by intro h0; subst h0; simp [Setting.enc] at he
    exact spec_host tls h this pre post P z
  | sleep t =>
    have h0 : t ≠ 0 := by intro h0; subst h0; simp [Setting.enc] at he
    exact spec_sleep tls t h0 (by simpa [Setting.inDom] using hd) pre post P z
  | jitter n => exact spec_jitter tls n pre post P z
  | weight w =>
    have h0 : w ≠ 0 := by intro h0; subst h0; simp [Setting.enc] at he
    exact spec_weight tls w h0 pre post P z
  | keyPin h => exact spec_keyPin tls h (by simpa [Setting.inDom] using hd) pre post P z
  | killDate u => exact spec_killDate tls u (by simpa [Setting.inDom] using hd) pre post P z
  | workHours w => exact spec_workHours tls w (by simpa [Setting.inDom] using hd) pre post P z
  | flag t =>
    have hf : selTags.contains t = true ∨ connTags.contains t = true ∨ wrapTags.contains t = true ∨ t = tB64T := by
      simp only [Setting.inDom, Bool.or_eq_true, beq_iff_eq] at hd
      rcases hd with ((h | h) | h) | h
      · exact Or.inl h
      · exact Or.inr (Or.inl h)
      · exact Or.inr (Or.inr (Or.inl h))
      · exact Or.inr (Or.inr (Or.inr h))
    exact spec_flag tls t hf pre post P z (fun h => hc (by simpa [Setting.isConn] using h))
      (fun h => ht (by simpa [Setting.isTrans] using h))
  | ip p => exact spec_ip tls p (by simpa [Setting.inDom] using hd) pre post P z (hc rfl)
  | tlsEx v => exact spec_tlsEx tls v (by simpa [Setting.inDom] using hd) pre post P z (hc rfl)
  | tlsExCA v ca => exact spec_tlsExCA tls v ca (by simpa [Setting.inDom] using hd) pre post P z (hc rfl)
  | tlsCerts v pem key =>
    simp only [Setting.inDom, Bool.and_eq_true] at hd
    exact spec_tlsCerts tls v pem key (isEmpty_false hd.1.1) hd.2 pre post P z (hc rfl)
  | muTLS v ca pem key =>
    exact spec_muTLS tls v ca pem key (by simpa [Setting.inDom] using hd) pre post P z (hc rfl)
  | wc2 u h a hs =>
    simp only [Setting.inDom, Bool.and_eq_true, decide_eq_true_eq, List.all_eq_true] at hd
    exact spec_wc2 tls u h a hs hd.1 (fun kv hkv => isEmpty_false (hd.2 kv hkv)) pre post P z (hc rfl)
  | xor k => exact spec_xor tls k (isEmpty_false (by simpa [Setting.inDom] using hd)) pre post P z
  | aes k iv =>
    simp only [Setting.inDom, decide_eq_true_eq] at hd
    exact spec_aes tls k iv hd.1 hd.2 pre post P z
  | cbk sz a b c d => exact spec_cbk tls sz a b c d pre post P z
  | dns names =>
    simp only [Setting.inDom, List.all_eq_true] at hd
    exact spec_dns tls names (fun v hv => isEmpty_false (hd v hv)) pre post P z (ht rfl)
  | b64Shift s => exact spec_b64Shift tls s pre post P z (ht rfl)

/-! ### one group -/

/-- every setting of the group is in its domain, and the group names at most one connector and at
most one transform (`hc`/`ht`: one is already set) -/
def groupOK (tls : Bytes → Bytes → Bytes → Bool) : Bool → Bool → List Setting → Bool
  | _, _, [] => true
  | hc, ht, s :: ss =>
    s.inDom tls && !(s.isConn && hc) && !(s.isTrans && ht) && groupOK tls (hc || s.isConn) (ht || s.isTrans) ss

theorem apply_nil (pz : Profile × Nat) (s : Setting) (h : s.enc = []) : applySetting pz s = pz := by
  obtain ⟨P, z⟩ := pz
  cases s <;> simp [Setting.enc] at h <;> simp [applySetting, h]

theorem nil_not_conn (s : Setting) (h : s.enc = []) : s.isConn = false ∧ s.isTrans = false := by
  cases s <;> simp [Setting.enc] at h <;> simp [Setting.isConn, Setting.isTrans]

theorem apply_flags (tls) (P : Profile) (z : Nat) (s : Setting) (hd : s.inDom tls = true) :
    (applySetting (P, z) s).1.conn.isSome = (P.conn.isSome || s.isConn) ∧
    (applySetting (P, z) s).1.trans.isSome = (P.trans.isSome || s.isTrans) := by
  cases s with
  | flag t =>
    simp only [Setting.inDom, Bool.or_eq_true, beq_iff_eq] at hd
    rcases hd with ((h | h) | h) | h
    · obtain ⟨h1, h2, h3⟩ := sel_not_conn t h
      have h' : t ∈ selTags := by simpa using h
      have h1' : t ∉ connTags := by simpa using h1
      simp [applySetting, h', h1', Setting.isConn, Setting.isTrans, h1, h3]
    · obtain ⟨h1, h2, h3⟩ := conn_not_sel t h
      have h' : t ∈ connTags := by simpa using h
      have h1' : t ∉ selTags := by simpa using h1
      simp [applySetting, h', h1', Setting.isConn, Setting.isTrans, h, h3]
    · obtain ⟨h1, h2, h3⟩ := wrap_not_sel t h
      have h' : t ∈ wrapTags := by simpa using h
      have h1' : t ∉ selTags := by simpa using h1
      have h2' : t ∉ connTags := by simpa using h2
      simp [applySetting, h', h1', h2', Setting.isConn, Setting.isTrans, h2, h3]
    · subst h
      obtain ⟨h1, h2, h3⟩ := b64t_not
      have h1' : tB64T ∉ selTags := by simpa using h1
      have h2' : tB64T ∉ connTags := by simpa using h2
      have h3' : tB64T ∉ wrapTags := by simpa using h3
      simp [applySetting, h1', h2', h3', Setting.isConn, Setting.isTrans, h2]
  | host h => by_cases h0 : h.length = 0 <;> simp [applySetting, h0, Setting.isConn, Setting.isTrans]
  | sleep t => by_cases h0 : t = 0 <;> simp [applySetting, h0, Setting.isConn, Setting.isTrans]
  | weight w => by_cases h0 : w = 0 <;> simp [applySetting, h0, Setting.isConn, Setting.isTrans]
  | _ => simp [applySetting, Setting.isConn, Setting.isTrans]

theorem bytesOf_cons (s : Setting) (ss : List Setting) : bytesOf (s :: ss) = s.enc ++ bytesOf ss := by
  simp [bytesOf]

theorem rdv_sep (X r : Bytes) : rdv (X ++ byteOf tSeparator :: r) X.length = tSeparator := by
  rw [rdv_at]; decide

/-- `build(x)` over one group: the profile is the fold of the settings; the loop stops at the end of
the config or just after the group's separator. -/
theorem bloop_group (tls : Bytes → Bytes → Bytes → Bool) (c : Bytes) : ∀ (ss : List Setting) (pre post : Bytes)
    (P : Profile) (z f n : Nat),
    c = pre ++ bytesOf ss ++ post →
    groupOK tls P.conn.isSome P.trans.isSome ss = true →
    (post = [] ∨ ∃ r, post = byteOf tSeparator :: r) →
    (n = pre.length ∨ (n ≤ pre.length ∧ pre.length < c.length)) →
    (bytesOf ss).length + 1 ≤ f →
    bloop tls c f pre.length n P z = .ok ((ss.foldl applySetting (P, z)).1,
      (if post = [] then c.length else pre.length + (bytesOf ss).length + 1), (ss.foldl applySetting (P, z)).2) := by
  intro ss
  induction ss with
  | nil =>
    intro pre post P z f n hc _ hpost hn hf
    simp only [bytesOf, List.flatMap_nil, List.append_nil, List.length_nil, Nat.add_zero, List.foldl_nil] at hc hf ⊢
    cases f with
    | zero => omega
    | succ f =>
      unfold bloop
      rcases hpost with hp | ⟨r, hp⟩
      · subst hp
        simp only [List.append_nil] at hc
        have hlen : c.length = pre.length := by rw [hc]
        rw [if_neg (by omega), if_pos rfl]
        rcases hn with hn | hn
        · rw [hn, hlen]; rfl
        · omega
      · have hlen : pre.length < c.length := by rw [hc, hp]; simp
        rw [if_pos (by omega)]
        have hs : stride c pre.length = .ok (pre.length + 1) := by
          apply stride_of_nextV (by omega) (by omega)
          left
          unfold nextV
          rw [hc, hp, rdv_sep, nextArmV_Separator]
        rw [hs, rd_ok hlen]
        simp only [ok_bind]
        rw [hc, hp, rdv_sep, if_pos rfl, if_neg (by simp)]
        rfl
  | cons s rest ih =>
    intro pre post P z f n hc hok hpost hn hf
    unfold groupOK at hok
    simp only [Bool.and_eq_true, Bool.not_eq_true', Bool.and_eq_false_iff] at hok
    obtain ⟨⟨⟨hd, hcn⟩, htr⟩, hrest⟩ := hok
    by_cases he : s.enc = []
    · -- a nil setting: no bytes, no effect
      have hnc := nil_not_conn s he
      rw [hnc.1, hnc.2] at hrest
      simp only [Bool.or_false] at hrest
      simp only [List.foldl_cons, apply_nil _ _ he, bytesOf_cons, he, List.nil_append] at hc hf ⊢
      exact ih pre post P z f n hc hrest hpost hn hf
    · have hepos : 0 < s.enc.length := List.length_pos_iff.mpr he
      rw [bytesOf_cons] at hc hf
      have hc' : c = pre ++ s.enc ++ (bytesOf rest ++ post) := by rw [hc]; simp
      have hspec := setting_spec tls s hd he pre (bytesOf rest ++ post) P z
        (fun h => by
          rcases hcn with h' | h'
          · rw [h] at h'; cases h'
          · cases hP : P.conn with
            | none => rfl
            | some x => rw [hP] at h'; cases h')
        (fun h => by
          rcases htr with h' | h'
          · rw [h] at h'; cases h'
          · cases hP : P.trans with
            | none => rfl
            | some x => rw [hP] at h'; cases h')
      unfold SettingSpec at hspec
      rw [← hc'] at hspec
      obtain ⟨htagv, hnsep, hstride, hb⟩ := hspec
      have hlen : pre.length + s.enc.length ≤ c.length := by rw [hc']; simp
      cases f with
      | zero => simp only [List.length_append] at hf; omega
      | succ f =>
        unfold bloop
        rw [if_pos (by omega), hstride, rd_ok (by omega)]
        simp only [ok_bind]
        rw [htagv, if_neg hnsep, hb]
        simp only [ok_bind, List.foldl_cons]
        obtain ⟨hfc, hft⟩ := apply_flags tls P z s hd
        have := ih (pre ++ s.enc) post (applySetting (P, z) s).1 (applySetting (P, z) s).2 f
          (pre.length + s.enc.length) (by rw [hc]; simp) (by rw [hfc, hft]; exact hrest) hpost
          (Or.inl (by simp)) (by simp only [List.length_append] at hf; omega)
        simp only [List.length_append] at this
        rw [this]
        simp only [List.length_append, bytesOf_cons, Nat.add_assoc]

/-! ### all groups -/

/-- the bytes `AddGroup` appends for each further group -/
def tailBytes (gs : List (List Setting)) : Bytes := gs.flatMap fun g => byteOf tSeparator :: bytesOf g

theorem tailBytes_shape (gs : List (List Setting)) :
    tailBytes gs = [] ∨ ∃ r, tailBytes gs = byteOf tSeparator :: r := by
  cases gs with
  | nil => left; rfl
  | cons g rest => right; exact ⟨bytesOf g ++ tailBytes rest, by simp [tailBytes]⟩

theorem packGroups_eq (g : List Setting) (gs : List (List Setting)) (hg : bytesOf g ≠ [])
    (hgs : ∀ x ∈ gs, bytesOf x ≠ []) : packGroups (g :: gs) = bytesOf g ++ tailBytes gs := by
  unfold packGroups
  suffices h : ∀ (gs : List (List Setting)) (c : Bytes), c ≠ [] → (∀ x ∈ gs, bytesOf x ≠ []) →
      gs.foldl addGroup c = c ++ tailBytes gs from h gs _ hg hgs
  intro gs
  induction gs with
  | nil => intro c _ _; simp [tailBytes]
  | cons x rest ih =>
    intro c hc hx
    have hxne : bytesOf x ≠ [] := hx x List.mem_cons_self
    have hx0 : x.length ≠ 0 := by
      intro h0
      have : x = [] := List.length_eq_zero_iff.mp h0
      subst this; exact hxne rfl
    have hc0 : c.length > 0 := List.length_pos_iff.mpr hc
    simp only [List.foldl_cons]
    have : addGroup c x = c ++ [byteOf tSeparator] ++ bytesOf x := by
      unfold addGroup; rw [if_neg hx0, if_pos hc0]
    rw [this, ih _ (by simp) (fun y hy => hx y (List.mem_cons_of_mem _ hy))]
    simp [tailBytes]

/-- the first byte of a non-empty group is never the separator -/
theorem group_first_not_sep (tls) : ∀ (ss : List Setting) (hc ht : Bool) (pre post : Bytes),
    groupOK tls hc ht ss = true → bytesOf ss ≠ [] →
    rdv (pre ++ bytesOf ss ++ post) pre.length ≠ tSeparator := by
  intro ss
  induction ss with
  | nil => intro _ _ _ _ _ h; exact absurd rfl h
  | cons s rest ih =>
    intro hc ht pre post hok hne
    unfold groupOK at hok
    simp only [Bool.and_eq_true] at hok
    obtain ⟨⟨⟨hd, _⟩, _⟩, hrest⟩ := hok
    by_cases he : s.enc = []
    · rw [bytesOf_cons, he, List.nil_append] at hne ⊢
      exact ih _ _ pre post hrest hne
    · rw [bytesOf_cons]
      -- the setting's own spec, with an empty profile (only the tag facts are used)
      have hsp := setting_spec tls s hd he pre (bytesOf rest ++ post) {} 0 (fun _ => rfl) (fun _ => rfl)
      unfold SettingSpec at hsp
      have : pre ++ (s.enc ++ bytesOf rest) ++ post = pre ++ s.enc ++ (bytesOf rest ++ post) := by simp
      rw [this, hsp.1]; exact hsp.2.1

/-- the selector `Build` keeps: the last group's that named one -/
def selFold (g : Nat) (gs : List (List Setting)) : Nat :=
  gs.foldl (fun acc x => if (meaningGroup x).2 > 0 then (meaningGroup x).2 else acc) g

theorem buildLoop_groups (tls : Bytes → Bytes → Bytes → Bool) (c : Bytes) :
    ∀ (gs : List (List Setting)) (g : List Setting) (pre : Bytes) (e : List Profile) (sel f : Nat),
    c = pre ++ bytesOf g ++ tailBytes gs →
    (∀ x ∈ g :: gs, groupOK tls false false x = true ∧ bytesOf x ≠ []) →
    gs.length + 2 ≤ f →
    buildLoop tls c f pre.length e sel =
      .ok (e ++ (g :: gs).map (fun x => (meaningGroup x).1), selFold sel (g :: gs)) := by
  intro gs
  induction gs with
  | nil =>
    intro g pre e sel f hc hok hf
    obtain ⟨hgok, hgne⟩ := hok g List.mem_cons_self
    simp only [tailBytes, List.flatMap_nil, List.append_nil] at hc
    have hlen : c.length = pre.length + (bytesOf g).length := by rw [hc]; simp
    have hpos : 0 < (bytesOf g).length := List.length_pos_iff.mpr hgne
    cases f with
    | zero => omega
    | succ f =>
      unfold buildLoop
      rw [if_pos (by omega)]
      unfold buildAt
      have hb := bloop_group tls c g pre [] {} 0 (c.length + 1) 0 (by rw [hc]; simp) hgok (Or.inl rfl)
        (Or.inr ⟨by omega, by omega⟩) (by omega)
      rw [hb]
      simp only [ok_bind, if_pos]
      rw [rd_ok (by omega)]
      simp only [ok_bind]
      have hns := group_first_not_sep tls g false false pre [] hgok hgne
      simp only [List.append_nil] at hns
      rw [← hc] at hns
      rw [if_neg (by intro h; exact hns h.2)]
      cases f with
      | zero => omega
      | succ f =>
        unfold buildLoop
        rw [if_neg (by omega)]
        simp [selFold, meaningGroup, pure_ok']
  | cons g2 rest ih =>
    intro g pre e sel f hc hok hf
    obtain ⟨hgok, hgne⟩ := hok g List.mem_cons_self
    have hpos : 0 < (bytesOf g).length := List.length_pos_iff.mpr hgne
    have htl : tailBytes (g2 :: rest) = byteOf tSeparator :: (bytesOf g2 ++ tailBytes rest) := by
      simp [tailBytes]
    have hlen : pre.length + (bytesOf g).length < c.length := by rw [hc, htl]; simp
    cases f with
    | zero => omega
    | succ f =>
      unfold buildLoop
      rw [if_pos (by omega)]
      unfold buildAt
      have hb := bloop_group tls c g pre (tailBytes (g2 :: rest)) {} 0 (c.length + 1) 0 hc hgok
        (Or.inr ⟨_, htl⟩) (Or.inr ⟨by omega, by omega⟩) (by omega)
      rw [hb, if_neg (by rw [htl]; simp)]
      simp only [ok_bind]
      rw [rd_ok (by omega)]
      simp only [ok_bind]
      have hns := group_first_not_sep tls g false false pre (tailBytes (g2 :: rest)) hgok hgne
      rw [← hc] at hns
      rw [if_neg (by intro h; exact hns h.2)]
      have := ih g2 (pre ++ bytesOf g ++ [byteOf tSeparator]) (e ++ [(List.foldl applySetting ({}, 0) g).1])
        (if (List.foldl applySetting ({}, 0) g).2 > 0 then (List.foldl applySetting ({}, 0) g).2 else sel) f
        (by rw [hc, htl]; simp) (fun x hx => hok x (List.mem_cons_of_mem _ hx))
        (by simp only [List.length_cons] at hf; omega)
      simp only [List.length_append, List.length_cons, List.length_nil] at this
      rw [this]
      simp [selFold, meaningGroup]

theorem tailBytes_len (gs : List (List Setting)) : gs.length ≤ (tailBytes gs).length := by
  induction gs with
  | nil => simp [tailBytes]
  | cons g rest ih =>
    simp only [tailBytes, List.flatMap_cons, List.length_append, List.length_cons] at ih ⊢
    omega

theorem meaningGroups_eq (gs : List (List Setting)) (h : ∀ x ∈ gs, bytesOf x ≠ []) :
    meaningGroups gs = (gs.map (fun x => (meaningGroup x).1), selFold 0 gs) := by
  unfold meaningGroups selFold
  suffices hs : ∀ (gs : List (List Setting)) (acc : List Profile × Nat), (∀ x ∈ gs, bytesOf x ≠ []) →
      gs.foldl (fun (acc : List Profile × Nat) g =>
        if (bytesOf g).length = 0 then acc
        else
          let (p, z) := meaningGroup g
          (acc.1 ++ [p], if z > 0 then z else acc.2)) acc =
      (acc.1 ++ gs.map (fun x => (meaningGroup x).1),
        gs.foldl (fun a x => if (meaningGroup x).2 > 0 then (meaningGroup x).2 else a) acc.2) by
    have := hs gs ([], 0) h
    simpa using this
  intro gs
  induction gs with
  | nil => intro acc _; simp
  | cons g rest ih =>
    intro acc hne
    have hg : (bytesOf g).length ≠ 0 := by
      intro h0; exact hne g List.mem_cons_self (List.length_eq_zero_iff.mp h0)
    simp only [List.foldl_cons, if_neg hg]
    rw [ih _ (fun x hx => hne x (List.mem_cons_of_mem _ hx))]
    simp

/-- Well-formed input of `build_pack`: every group's settings are in their documented domain with
at most one connector and one transform, and every group encodes to at least one byte (so that
`AddGroup` really adds a group). Decidable. -/
def groupsOK (tls : Bytes → Bytes → Bytes → Bool) (gs : List (List Setting)) : Bool :=
  !gs.isEmpty && gs.all fun g => groupOK tls false false g && !(bytesOf g).isEmpty

/-- **Building the packed bytes yields exactly the settings supplied.** -/
theorem build_packGroups (tls : Bytes → Bytes → Bytes → Bool) (gs : List (List Setting))
    (hok : groupsOK tls gs = true) : build tls (packGroups gs) = .ok (meaning gs) := by
  unfold groupsOK at hok
  simp only [Bool.and_eq_true, List.all_eq_true] at hok
  obtain ⟨hne, hall⟩ := hok
  have hall' : ∀ x ∈ gs, groupOK tls false false x = true ∧ bytesOf x ≠ [] := by
    intro x hx
    have := hall x hx
    exact ⟨this.1, isEmpty_false this.2⟩
  cases gs with
  | nil => simp at hne
  | cons g rest =>
    have hgne := (hall' g List.mem_cons_self).2
    have hpk := packGroups_eq g rest hgne (fun x hx => (hall' x (List.mem_cons_of_mem _ hx)).2)
    have hpos : 0 < (bytesOf g).length := List.length_pos_iff.mpr hgne
    have htl := tailBytes_len rest
    unfold meaning
    rw [meaningGroups_eq _ (fun x hx => (hall' x hx).2)]
    generalize hc : packGroups (g :: rest) = c at *
    have hclen : c.length = (bytesOf g).length + (tailBytes rest).length := by rw [hpk]; simp
    unfold build
    rw [if_neg (by omega)]
    have hb := buildLoop_groups tls c rest g [] [] 0 (c.length + 1) (by rw [hpk]; simp) hall' (by omega)
    simp only [List.length_nil, List.nil_append] at hb
    rw [hb]
    simp [pure_ok']

end XMT.Cfg
