/-
  XMT.CfgCases — GENERATED-STYLE unfolding lemmas: what validate's / build's `switch` does on each
  concrete tag.  Every proof unfolds the regenerated tag constants (the tags being pairwise distinct
  is what these proofs need from the facts).
-/
import XMT.Cfg
namespace XMT.Cfg
open XMT

/-- unfold every tag constant and the tag lists, then simplify -/
macro "tag_simp_v" : tactic =>
  `(tactic| simp [vcase, selTags, connTags, wrapTags, stride1, stride2, Facts.cfg_invalid, Facts.cfg_valHost, Facts.cfg_valSleep, Facts.cfg_valJitter,
    Facts.cfg_valWeight, Facts.cfg_valKeyPin, Facts.cfg_valKillDate, Facts.cfg_valWorkHours,
    Facts.cfg_SelectorLastValid, Facts.cfg_SelectorRoundRobin, Facts.cfg_SelectorRandom,
    Facts.cfg_SelectorSemiRoundRobin, Facts.cfg_SelectorSemiRandom, Facts.cfg_SelectorSemiLastValid,
    Facts.cfg_valSelectorPercent, Facts.cfg_valSelectorPercentRoundRobin, Facts.cfg_ConnectTCP,
    Facts.cfg_ConnectTLS, Facts.cfg_ConnectUDP, Facts.cfg_ConnectICMP, Facts.cfg_ConnectPipe,
    Facts.cfg_ConnectTLSNoVerify, Facts.cfg_valIP, Facts.cfg_valWC2, Facts.cfg_valTLSx, Facts.cfg_valMuTLS,
    Facts.cfg_valTLSxCA, Facts.cfg_valTLSCert, Facts.cfg_WrapHex, Facts.cfg_WrapZlib, Facts.cfg_WrapGzip,
    Facts.cfg_WrapBase64, Facts.cfg_valXOR, Facts.cfg_valCBK, Facts.cfg_valAES, Facts.cfg_TransformB64,
    Facts.cfg_valDNS, Facts.cfg_valB64Shift, Facts.cfg_Separator])
macro "tag_simp_b" : tactic =>
  `(tactic| simp [bcase, selTags, connTags, wrapTags, stride1, stride2, Facts.cfg_invalid, Facts.cfg_valHost, Facts.cfg_valSleep, Facts.cfg_valJitter,
    Facts.cfg_valWeight, Facts.cfg_valKeyPin, Facts.cfg_valKillDate, Facts.cfg_valWorkHours,
    Facts.cfg_SelectorLastValid, Facts.cfg_SelectorRoundRobin, Facts.cfg_SelectorRandom,
    Facts.cfg_SelectorSemiRoundRobin, Facts.cfg_SelectorSemiRandom, Facts.cfg_SelectorSemiLastValid,
    Facts.cfg_valSelectorPercent, Facts.cfg_valSelectorPercentRoundRobin, Facts.cfg_ConnectTCP,
    Facts.cfg_ConnectTLS, Facts.cfg_ConnectUDP, Facts.cfg_ConnectICMP, Facts.cfg_ConnectPipe,
    Facts.cfg_ConnectTLSNoVerify, Facts.cfg_valIP, Facts.cfg_valWC2, Facts.cfg_valTLSx, Facts.cfg_valMuTLS,
    Facts.cfg_valTLSxCA, Facts.cfg_valTLSCert, Facts.cfg_WrapHex, Facts.cfg_WrapZlib, Facts.cfg_WrapGzip,
    Facts.cfg_WrapBase64, Facts.cfg_valXOR, Facts.cfg_valCBK, Facts.cfg_valAES, Facts.cfg_TransformB64,
    Facts.cfg_valDNS, Facts.cfg_valB64Shift, Facts.cfg_Separator])
macro "tag_simp_at" h:ident : tactic =>
  `(tactic| simp [selTags, connTags, wrapTags, stride1, stride2, Facts.cfg_invalid, Facts.cfg_valHost, Facts.cfg_valSleep, Facts.cfg_valJitter,
    Facts.cfg_valWeight, Facts.cfg_valKeyPin, Facts.cfg_valKillDate, Facts.cfg_valWorkHours,
    Facts.cfg_SelectorLastValid, Facts.cfg_SelectorRoundRobin, Facts.cfg_SelectorRandom,
    Facts.cfg_SelectorSemiRoundRobin, Facts.cfg_SelectorSemiRandom, Facts.cfg_SelectorSemiLastValid,
    Facts.cfg_valSelectorPercent, Facts.cfg_valSelectorPercentRoundRobin, Facts.cfg_ConnectTCP,
    Facts.cfg_ConnectTLS, Facts.cfg_ConnectUDP, Facts.cfg_ConnectICMP, Facts.cfg_ConnectPipe,
    Facts.cfg_ConnectTLSNoVerify, Facts.cfg_valIP, Facts.cfg_valWC2, Facts.cfg_valTLSx, Facts.cfg_valMuTLS,
    Facts.cfg_valTLSxCA, Facts.cfg_valTLSCert, Facts.cfg_WrapHex, Facts.cfg_WrapZlib, Facts.cfg_WrapGzip,
    Facts.cfg_WrapBase64, Facts.cfg_valXOR, Facts.cfg_valCBK, Facts.cfg_valAES, Facts.cfg_TransformB64,
    Facts.cfg_valDNS, Facts.cfg_valB64Shift, Facts.cfg_Separator] at $h:ident)

/-- every tag the parser knows, other than Separator -/
def knownTags : List Nat :=
  [tInvalid, tHost, tSleep, tKeyPin, tJitter, tWeight, tSelPercent, tSelPercentRR, tKillDate, tWorkHours,
   tSelRoundRobin, tSelLastValid, tSelRandom, tSelSemiRandom, tSelSemiRoundRobin, tSelSemiLastValid,
   tTCP, tTLS, tUDP, tICMP, tPipe, tTLSNoVerify, tIP, tWC2, tTLSx, tMuTLS, tTLSxCA, tTLSCert,
   tHex, tZlib, tGzip, tBase64, tXOR, tCBK, tAES, tB64T, tDNS, tB64Shift]

theorem vcase_Invalid (c : Bytes) (i n : Nat) (p t : Bool) :
    vcase c i n tInvalid p t = (inv "") := by
  tag_simp_v

theorem vcase_Host (c : Bytes) (i n : Nat) (p t : Bool) :
    vcase c i n tHost p t = ((do vHost c i n; pure (p, t))) := by
  tag_simp_v

theorem vcase_Sleep (c : Bytes) (i n : Nat) (p t : Bool) :
    vcase c i n tSleep p t = (if i + 8 ≥ n then inv "sleep" else pure (p, t)) := by
  tag_simp_v

theorem vcase_KeyPin (c : Bytes) (i n : Nat) (p t : Bool) :
    vcase c i n tKeyPin p t = (if i + 4 ≥ n then inv "keypin" else pure (p, t)) := by
  tag_simp_v

theorem vcase_Jitter (c : Bytes) (i n : Nat) (p t : Bool) :
    vcase c i n tJitter p t = (if i + 1 ≥ n then inv "jitter" else pure (p, t)) := by
  tag_simp_v

theorem vcase_Weight (c : Bytes) (i n : Nat) (p t : Bool) :
    vcase c i n tWeight p t = (if i + 1 ≥ n then inv "weight" else pure (p, t)) := by
  tag_simp_v

theorem vcase_SelPercent (c : Bytes) (i n : Nat) (p t : Bool) :
    vcase c i n tSelPercent p t = (if i + 1 ≥ n then inv "select-precent" else pure (p, t)) := by
  tag_simp_v

theorem vcase_SelPercentRR (c : Bytes) (i n : Nat) (p t : Bool) :
    vcase c i n tSelPercentRR p t = (if i + 1 ≥ n then inv "select-precent" else pure (p, t)) := by
  tag_simp_v

theorem vcase_KillDate (c : Bytes) (i n : Nat) (p t : Bool) :
    vcase c i n tKillDate p t = (if i + 8 ≥ n then inv "killdate" else pure (p, t)) := by
  tag_simp_v

theorem vcase_WorkHours (c : Bytes) (i n : Nat) (p t : Bool) :
    vcase c i n tWorkHours p t = ((do vWorkHours c i n; pure (p, t))) := by
  tag_simp_v

theorem vcase_IP (c : Bytes) (i n : Nat) (p t : Bool) :
    vcase c i n tIP p t = (if p then multiConn "ip" else do vIP c i n; pure (true, t)) := by
  tag_simp_v

theorem vcase_WC2 (c : Bytes) (i n : Nat) (p t : Bool) :
    vcase c i n tWC2 p t = (if p then multiConn "wc2" else do vWC2 c i n; pure (true, t)) := by
  tag_simp_v

theorem vcase_TLSx (c : Bytes) (i n : Nat) (p t : Bool) :
    vcase c i n tTLSx p t = (if p then multiConn "tls-ex" else if i + 1 ≥ n then inv "tls-ex" else pure (true, t)) := by
  tag_simp_v

theorem vcase_MuTLS (c : Bytes) (i n : Nat) (p t : Bool) :
    vcase c i n tMuTLS p t = (if p then multiConn "mtls" else do vMuTLS c i n; pure (true, t)) := by
  tag_simp_v

theorem vcase_TLSxCA (c : Bytes) (i n : Nat) (p t : Bool) :
    vcase c i n tTLSxCA p t = (if p then multiConn "tls-ca" else do vTLSxCA c i n; pure (true, t)) := by
  tag_simp_v

theorem vcase_TLSCert (c : Bytes) (i n : Nat) (p t : Bool) :
    vcase c i n tTLSCert p t = (if p then multiConn "tls-cert" else do vTLSCert c i n; pure (true, t)) := by
  tag_simp_v

theorem vcase_XOR (c : Bytes) (i n : Nat) (p t : Bool) :
    vcase c i n tXOR p t = ((do vXOR c i n; pure (p, t))) := by
  tag_simp_v

theorem vcase_CBK (c : Bytes) (i n : Nat) (p t : Bool) :
    vcase c i n tCBK p t = (if i + 5 ≥ n then inv "cbk" else pure (p, t)) := by
  tag_simp_v

theorem vcase_AES (c : Bytes) (i n : Nat) (p t : Bool) :
    vcase c i n tAES p t = ((do vAES c i n; pure (p, t))) := by
  tag_simp_v

theorem vcase_B64T (c : Bytes) (i n : Nat) (p t : Bool) :
    vcase c i n tB64T p t = (if t then multiTrans "base64T" else pure (p, true)) := by
  tag_simp_v

theorem vcase_DNS (c : Bytes) (i n : Nat) (p t : Bool) :
    vcase c i n tDNS p t = (if t then multiTrans "dns" else do vDNSArm c i n; pure (p, true)) := by
  tag_simp_v

theorem vcase_B64Shift (c : Bytes) (i n : Nat) (p t : Bool) :
    vcase c i n tB64Shift p t = (if t then multiTrans "b64S" else if i + 1 ≥ n then inv "b64S" else pure (p, true)) := by
  tag_simp_v

theorem bcase_Invalid (tls : Bytes → Bytes → Bytes → Bool) (c : Bytes) (i n : Nat) (p : Profile) (z : Nat) :
    bcase tls c i n tInvalid p z = (inv "") := by
  tag_simp_b

theorem bcase_Host (tls : Bytes → Bytes → Bytes → Bool) (c : Bytes) (i n : Nat) (p : Profile) (z : Nat) :
    bcase tls c i n tHost p z = ((do let h ← bHost c i n; pure ({ p with hosts := p.hosts ++ [h] }, z))) := by
  tag_simp_b

theorem bcase_Sleep (tls : Bytes → Bytes → Bytes → Bool) (c : Bytes) (i n : Nat) (p : Profile) (z : Nat) :
    bcase tls c i n tSleep p z = ((do let s ← bSleep c i n; pure ({ p with sleep := s }, z))) := by
  tag_simp_b

theorem bcase_Jitter (tls : Bytes → Bytes → Bytes → Bool) (c : Bytes) (i n : Nat) (p : Profile) (z : Nat) :
    bcase tls c i n tJitter p z = (if i + 1 ≥ n then inv "jitter" else do let b ← rd c (i + 1); pure ({ p with jitter := jitterOf b }, z)) := by
  tag_simp_b

theorem bcase_KeyPin (tls : Bytes → Bytes → Bytes → Bool) (c : Bytes) (i n : Nat) (p : Profile) (z : Nat) :
    bcase tls c i n tKeyPin p z = (if i + 4 ≥ n then inv "keypin" else do let k ← rd32 c i; pure ({ p with keys := p.keys ++ [k] }, z)) := by
  tag_simp_b

theorem bcase_Weight (tls : Bytes → Bytes → Bytes → Bool) (c : Bytes) (i n : Nat) (p : Profile) (z : Nat) :
    bcase tls c i n tWeight p z = (if i + 1 ≥ n then inv "weight" else do let b ← rd c (i + 1); pure ({ p with weight := if b > 100 then 100 else b }, z)) := by
  tag_simp_b

theorem bcase_KillDate (tls : Bytes → Bytes → Bytes → Bool) (c : Bytes) (i n : Nat) (p : Profile) (z : Nat) :
    bcase tls c i n tKillDate p z = (if i + 8 ≥ n then inv "killdate" else do let u ← rd64 c i; pure ({ p with kill := some u }, z)) := by
  tag_simp_b

theorem bcase_WorkHours (tls : Bytes → Bytes → Bytes → Bool) (c : Bytes) (i n : Nat) (p : Profile) (z : Nat) :
    bcase tls c i n tWorkHours p z = ((do let w ← bWorkHours c i n; pure ({ p with work := some w }, z))) := by
  tag_simp_b

theorem bcase_SelPercent (tls : Bytes → Bytes → Bytes → Bool) (c : Bytes) (i n : Nat) (p : Profile) (z : Nat) :
    bcase tls c i n tSelPercent p z = (if i + 1 ≥ n then inv "select-precent" else pure (p, z)) := by
  tag_simp_b

theorem bcase_SelPercentRR (tls : Bytes → Bytes → Bytes → Bool) (c : Bytes) (i n : Nat) (p : Profile) (z : Nat) :
    bcase tls c i n tSelPercentRR p z = (if i + 1 ≥ n then inv "select-precent" else pure (p, z)) := by
  tag_simp_b

theorem bcase_IP (tls : Bytes → Bytes → Bytes → Bool) (c : Bytes) (i n : Nat) (p : Profile) (z : Nat) :
    bcase tls c i n tIP p z = (if p.conn.isSome then multiConn "ip" else do let x ← bIP c i n; pure ({ p with conn := some x }, z)) := by
  tag_simp_b

theorem bcase_WC2 (tls : Bytes → Bytes → Bytes → Bool) (c : Bytes) (i n : Nat) (p : Profile) (z : Nat) :
    bcase tls c i n tWC2 p z = (if p.conn.isSome then multiConn "wc2" else do let x ← bWC2 c i n; pure ({ p with conn := some x }, z)) := by
  tag_simp_b

theorem bcase_TLSx (tls : Bytes → Bytes → Bytes → Bool) (c : Bytes) (i n : Nat) (p : Profile) (z : Nat) :
    bcase tls c i n tTLSx p z = (if p.conn.isSome then multiConn "tls-ex" else do let x ← bTLSx tls c i n; pure ({ p with conn := some x }, z)) := by
  tag_simp_b

theorem bcase_MuTLS (tls : Bytes → Bytes → Bytes → Bool) (c : Bytes) (i n : Nat) (p : Profile) (z : Nat) :
    bcase tls c i n tMuTLS p z = (if p.conn.isSome then multiConn "mtls" else do let x ← bMuTLS tls c i n; pure ({ p with conn := some x }, z)) := by
  tag_simp_b

theorem bcase_TLSxCA (tls : Bytes → Bytes → Bytes → Bool) (c : Bytes) (i n : Nat) (p : Profile) (z : Nat) :
    bcase tls c i n tTLSxCA p z = (if p.conn.isSome then multiConn "tls-ca" else do let x ← bTLSxCA tls c i n; pure ({ p with conn := some x }, z)) := by
  tag_simp_b

theorem bcase_TLSCert (tls : Bytes → Bytes → Bytes → Bool) (c : Bytes) (i n : Nat) (p : Profile) (z : Nat) :
    bcase tls c i n tTLSCert p z = (if p.conn.isSome then multiConn "tls-cert" else do let x ← bTLSCert tls c i n; pure ({ p with conn := some x }, z)) := by
  tag_simp_b

theorem bcase_XOR (tls : Bytes → Bytes → Bytes → Bool) (c : Bytes) (i n : Nat) (p : Profile) (z : Nat) :
    bcase tls c i n tXOR p z = ((do let k ← bXOR c i n; pure ({ p with wraps := p.wraps ++ [.xor k] }, z))) := by
  tag_simp_b

theorem bcase_CBK (tls : Bytes → Bytes → Bytes → Bool) (c : Bytes) (i n : Nat) (p : Profile) (z : Nat) :
    bcase tls c i n tCBK p z = ((do let w ← bCBK c i n; pure ({ p with wraps := p.wraps ++ [w] }, z))) := by
  tag_simp_b

theorem bcase_AES (tls : Bytes → Bytes → Bytes → Bool) (c : Bytes) (i n : Nat) (p : Profile) (z : Nat) :
    bcase tls c i n tAES p z = ((do let w ← bAES c i n; pure ({ p with wraps := p.wraps ++ [w] }, z))) := by
  tag_simp_b

theorem bcase_B64T (tls : Bytes → Bytes → Bytes → Bool) (c : Bytes) (i n : Nat) (p : Profile) (z : Nat) :
    bcase tls c i n tB64T p z = (if p.trans.isSome then multiTrans "base64T" else pure ({ p with trans := some (.b64 0) }, z)) := by
  tag_simp_b

theorem bcase_DNS (tls : Bytes → Bytes → Bytes → Bool) (c : Bytes) (i n : Nat) (p : Profile) (z : Nat) :
    bcase tls c i n tDNS p z = (if p.trans.isSome then multiTrans "dns" else do let d ← bDNSArm c i n; pure ({ p with trans := some d }, z)) := by
  tag_simp_b

theorem bcase_B64Shift (tls : Bytes → Bytes → Bytes → Bool) (c : Bytes) (i n : Nat) (p : Profile) (z : Nat) :
    bcase tls c i n tB64Shift p z = (if p.trans.isSome then multiTrans "b64S" else if i + 1 ≥ n then inv "b64S" else do let s ← rd c (i + 1); pure ({ p with trans := some (.b64 s) }, z)) := by
  tag_simp_b

theorem vcase_sel (c : Bytes) (i n tag : Nat) (p t : Bool) (h : selTags.contains tag = true) :
    vcase c i n tag p t = pure (p, t) := by
  tag_simp_at h
  rcases h with rfl | rfl | rfl | rfl | rfl | rfl <;> tag_simp_v

theorem bcase_sel (tls : Bytes → Bytes → Bytes → Bool) (c : Bytes) (i n tag : Nat) (p : Profile) (z : Nat)
    (h : selTags.contains tag = true) : bcase tls c i n tag p z = pure (p, tag) := by
  tag_simp_at h
  rcases h with rfl | rfl | rfl | rfl | rfl | rfl <;> tag_simp_b

theorem vcase_conn (c : Bytes) (i n tag : Nat) (p t : Bool) (h : connTags.contains tag = true) :
    vcase c i n tag p t = (if p then multiConn "" else pure (true, t)) := by
  tag_simp_at h
  rcases h with rfl | rfl | rfl | rfl | rfl | rfl <;> tag_simp_v

theorem bcase_conn (tls : Bytes → Bytes → Bytes → Bool) (c : Bytes) (i n tag : Nat) (p : Profile) (z : Nat)
    (h : connTags.contains tag = true) :
    bcase tls c i n tag p z =
      (if p.conn.isSome then multiConn (connLabel tag) else pure ({ p with conn := some (connOfTag tag) }, z)) := by
  tag_simp_at h
  rcases h with rfl | rfl | rfl | rfl | rfl | rfl <;> tag_simp_b

theorem vcase_wrap (c : Bytes) (i n tag : Nat) (p t : Bool) (h : wrapTags.contains tag = true) :
    vcase c i n tag p t = pure (p, t) := by
  tag_simp_at h
  rcases h with rfl | rfl | rfl | rfl <;> tag_simp_v

theorem bcase_wrap (tls : Bytes → Bytes → Bytes → Bool) (c : Bytes) (i n tag : Nat) (p : Profile) (z : Nat)
    (h : wrapTags.contains tag = true) :
    bcase tls c i n tag p z = pure ({ p with wraps := p.wraps ++ [wrapOfTag tag] }, z) := by
  tag_simp_at h
  rcases h with rfl | rfl | rfl | rfl <;> tag_simp_b

theorem vcase_other (c : Bytes) (i n tag : Nat) (p t : Bool) (h : knownTags.contains tag = false) :
    vcase c i n tag p t = inv "" := by
  simp only [knownTags, List.contains_cons, List.contains_nil, Bool.or_false, Bool.or_eq_false_iff,
    beq_eq_false_iff_ne, ne_eq] at h
  simp [vcase, selTags, connTags, wrapTags, h]

theorem bcase_other (tls : Bytes → Bytes → Bytes → Bool) (c : Bytes) (i n tag : Nat) (p : Profile) (z : Nat)
    (h : knownTags.contains tag = false) : bcase tls c i n tag p z = inv "" := by
  simp only [knownTags, List.contains_cons, List.contains_nil, Bool.or_false, Bool.or_eq_false_iff,
    beq_eq_false_iff_ne, ne_eq] at h
  simp [bcase, selTags, connTags, wrapTags, h]

end XMT.Cfg
