/-
  XMT.CfgEquiv — Validate accepts exactly what Build accepts, certificate/key contents aside
  (helper lemmas for Props/C08 and Props/C09).
-/
import XMT.CfgTotal
import XMT.CfgCases
namespace XMT.Cfg
open XMT

/-- forget the value -/
def erase {α} (x : M α) : M Unit := x >>= fun _ => pure ()

@[simp] theorem erase_ok {α} (a : α) : erase (Except.ok a : M α) = .ok () := rfl
@[simp] theorem erase_pure {α} (a : α) : erase (pure a : M α) = .ok () := rfl
@[simp] theorem erase_err {α} (e : Fault) : erase (Except.error e : M α) = .error e := rfl
@[simp] theorem erase_inv {α} (l) : erase (inv l : M α) = inv l := rfl
@[simp] theorem erase_map {α β} (x : M α) (f : α → β) : erase (f <$> x) = erase x := by
  cases x <;> rfl

@[simp] theorem erase_bind_pure {α β} (x : M α) (f : α → β) :
    erase (x >>= fun a => (pure (f a) : M β)) = erase x := by
  cases x <;> rfl

theorem erase_ite {α} {p : Prop} [Decidable p] (a b : M α) :
    erase (if p then a else b) = if p then erase a else erase b := by
  split <;> rfl

/-- the TLS oracle that accepts everything: certificate and key contents are fine -/
def allTrue : Bytes → Bytes → Bytes → Bool := fun _ _ _ => true

/-! ### arms: validate's arm is build's arm with the value forgotten -/

theorem vWC2Hdr_eq (c : Bytes) (i n : Nat) (hn : n ≤ c.length) :
    ∀ f v q j acc, vWC2Hdr c i n f v q j = erase (bWC2Hdr c i n f v q j acc) := by
  intro f
  induction f with
  | zero => intro v q j acc; rfl
  | succ f ih =>
    intro v q j acc
    unfold vWC2Hdr bWC2Hdr
    by_cases h1 : v < n ∧ q < n ∧ j < n
    · rw [if_pos h1, if_pos h1]
      by_cases h2 : v + 1 ≥ n
      · rw [if_pos h2, if_pos h2]; rfl
      · rw [if_neg h2, if_neg h2, rd_ok (by omega), rd_ok (by omega)]
        simp only [ok_bind]
        by_cases h3 : v + 2 = rdv c v + v + 2 ∨ rdv c v + v + 2 > n ∨ v + 2 > n ∨
            rdv c (v + 1) + (rdv c v + v + 2) > n ∨ rdv c (v + 1) + (rdv c v + v + 2) < rdv c v + v + 2 ∨
            rdv c v + v + 2 < v + 2 ∨ v + 2 < i ∨ rdv c v + v + 2 < i ∨ rdv c (v + 1) + (rdv c v + v + 2) < i
        · rw [if_pos h3, if_pos (by omega)]; rfl
        · rw [if_neg h3, if_neg (by omega), slice_ok (by omega) (by omega), slice_ok (by omega) (by omega)]
          simp only [ok_bind]
          exact ih _ _ _ _
    · rw [if_neg h1, if_neg h1]; rfl

theorem vDNS_eq (c : Bytes) (i n : Nat) (hn : n ≤ c.length) :
    ∀ x v e acc, vDNS c i n x v e = erase (bDNS c i n x v e acc) := by
  intro x
  induction x with
  | zero => intro v e acc; rfl
  | succ x ih =>
    intro v e acc
    unfold vDNS bDNS
    by_cases h1 : v < n
    · rw [if_pos h1, if_pos h1, rd_ok (by omega)]
      simp only [ok_bind]
      split
      · rfl
      · rw [slice_ok (by omega) (by omega)]
        simp only [ok_bind]
        exact ih _ _ _
    · rw [if_neg h1, if_neg h1]; rfl

theorem vHost_eq (c : Bytes) (i n : Nat) (hn : n ≤ c.length) : vHost c i n = erase (bHost c i n) := by
  unfold vHost bHost
  split
  · rfl
  · rw [rd16_ok (by omega)]; simp only [ok_bind]
    split
    · rfl
    · rw [slice_ok (by omega) (by omega)]; rfl

theorem vXOR_eq (c : Bytes) (i n : Nat) (hn : n ≤ c.length) : vXOR c i n = erase (bXOR c i n) := by
  unfold vXOR bXOR
  split
  · rfl
  · rw [rd16_ok (by omega)]; simp only [ok_bind]
    split
    · rfl
    · rw [slice_ok (by omega) (by omega)]; rfl

theorem vWorkHours_eq (c : Bytes) (i n : Nat) (hn : n ≤ c.length) :
    vWorkHours c i n = erase (bWorkHours c i n) := by
  unfold vWorkHours bWorkHours
  split
  · rfl
  · rw [rd_ok (by omega : i + 2 < c.length), rd_ok (by omega : i + 3 < c.length),
      rd_ok (by omega : i + 4 < c.length), rd_ok (by omega : i + 5 < c.length)]
    simp only [ok_bind]
    split
    · rfl
    · rw [rd_ok (by omega)]; rfl

theorem vIP_eq (c : Bytes) (i n : Nat) (hn : n ≤ c.length) : vIP c i n = erase (bIP c i n) := by
  unfold vIP bIP
  split
  · rfl
  · rw [rd_ok (by omega)]; simp only [ok_bind]
    split <;> rfl

theorem vDNSArm_eq (c : Bytes) (i n : Nat) (hn : n ≤ c.length) :
    vDNSArm c i n = erase (bDNSArm c i n) := by
  unfold vDNSArm bDNSArm
  split
  · rfl
  · rw [rd_ok (by omega)]; simp only [ok_bind]
    rw [erase_bind_pure]
    exact vDNS_eq c i n hn _ _ _ _

theorem vMuTLS_eq (c : Bytes) (i n : Nat) (hn : n ≤ c.length) :
    vMuTLS c i n = erase (bMuTLS allTrue c i n) := by
  unfold vMuTLS bMuTLS
  split
  · rfl
  · rw [rd16_ok (by omega), rd16_ok (by omega), rd16_ok (by omega)]
    simp only [ok_bind]
    split
    · rfl
    · rw [rd_ok (by omega), slice_ok (by omega) (by omega), slice_ok (by omega) (by omega),
        slice_ok (by omega) (by omega)]
      rfl

theorem vTLSxCA_eq (c : Bytes) (i n : Nat) (hn : n ≤ c.length) :
    vTLSxCA c i n = erase (bTLSxCA allTrue c i n) := by
  unfold vTLSxCA bTLSxCA
  split
  · rfl
  · rw [rd16_ok (by omega)]
    simp only [ok_bind]
    split
    · rfl
    · rw [rd_ok (by omega), slice_ok (by omega) (by omega)]
      rfl

theorem vTLSCert_eq (c : Bytes) (i n : Nat) (hn : n ≤ c.length) :
    vTLSCert c i n = erase (bTLSCert allTrue c i n) := by
  unfold vTLSCert bTLSCert
  split
  · rfl
  · rw [rd16_ok (by omega), rd16_ok (by omega)]
    simp only [ok_bind]
    split
    · rfl
    · rw [rd_ok (by omega), slice_ok (by omega) (by omega), slice_ok (by omega) (by omega)]
      rfl

theorem vWC2_eq (c : Bytes) (i n : Nat) (hn : n ≤ c.length) : vWC2 c i n = erase (bWC2 c i n) := by
  unfold vWC2 bWC2
  split
  · rfl
  · rw [rd16_ok (by omega), rd16_ok (by omega), rd16_ok (by omega), rd_ok (by omega)]
    simp only [ok_bind]
    by_cases h1 : rdv16 c (i + 1) + i + 8 > n ∨ i + 8 > n ∨ i + 8 < i ∨ rdv16 c (i + 1) + i + 8 < i
    · rw [if_pos h1, if_pos h1]; rfl
    rw [if_neg h1, if_neg h1]
    -- url
    have hurl : ∃ u, (if rdv16 c (i + 1) + i + 8 > i + 8 then slice c (i + 8) (rdv16 c (i + 1) + i + 8)
        else pure []) = Except.ok u := by
      split
      · exact ⟨_, slice_ok (by omega) (by omega)⟩
      · exact ⟨_, rfl⟩
    obtain ⟨u, hu⟩ := hurl
    rw [hu]
    simp only [ok_bind]
    by_cases h2 : rdv16 c (i + 3) + (rdv16 c (i + 1) + i + 8) > n ∨ rdv16 c (i + 1) + i + 8 > n ∨
        rdv16 c (i + 3) + (rdv16 c (i + 1) + i + 8) < rdv16 c (i + 1) + i + 8 ∨
        rdv16 c (i + 1) + i + 8 < i ∨ rdv16 c (i + 3) + (rdv16 c (i + 1) + i + 8) < i
    · rw [if_pos h2, if_pos (by omega), if_pos h2]; rfl
    rw [if_neg h2]
    have hhost : ∃ u, (if rdv16 c (i + 3) + (rdv16 c (i + 1) + i + 8) > rdv16 c (i + 1) + i + 8 then
        (if rdv16 c (i + 3) + (rdv16 c (i + 1) + i + 8) > n ∨ rdv16 c (i + 1) + i + 8 > n ∨
          rdv16 c (i + 3) + (rdv16 c (i + 1) + i + 8) < rdv16 c (i + 1) + i + 8 ∨
          rdv16 c (i + 1) + i + 8 < i ∨ rdv16 c (i + 3) + (rdv16 c (i + 1) + i + 8) < i then inv "wc2"
        else slice c (rdv16 c (i + 1) + i + 8) (rdv16 c (i + 3) + (rdv16 c (i + 1) + i + 8)))
        else pure []) = Except.ok u := by
      split
      · exact ⟨_, slice_ok (by omega) (by omega)⟩
      · exact ⟨_, rfl⟩
    obtain ⟨u2, hu2⟩ := hhost
    rw [hu2]
    simp only [ok_bind]
    by_cases h3 : rdv16 c (i + 5) + (rdv16 c (i + 3) + (rdv16 c (i + 1) + i + 8)) > n ∨
        rdv16 c (i + 3) + (rdv16 c (i + 1) + i + 8) > n ∨
        rdv16 c (i + 5) + (rdv16 c (i + 3) + (rdv16 c (i + 1) + i + 8)) <
          rdv16 c (i + 3) + (rdv16 c (i + 1) + i + 8) ∨
        rdv16 c (i + 3) + (rdv16 c (i + 1) + i + 8) < i ∨
        rdv16 c (i + 5) + (rdv16 c (i + 3) + (rdv16 c (i + 1) + i + 8)) < i
    · rw [if_pos h3, if_pos (by omega), if_pos h3]; rfl
    rw [if_neg h3]
    have hag : ∃ u, (if rdv16 c (i + 5) + (rdv16 c (i + 3) + (rdv16 c (i + 1) + i + 8)) >
          rdv16 c (i + 3) + (rdv16 c (i + 1) + i + 8) then
        (if rdv16 c (i + 5) + (rdv16 c (i + 3) + (rdv16 c (i + 1) + i + 8)) > n ∨
          rdv16 c (i + 3) + (rdv16 c (i + 1) + i + 8) > n ∨
          rdv16 c (i + 5) + (rdv16 c (i + 3) + (rdv16 c (i + 1) + i + 8)) <
            rdv16 c (i + 3) + (rdv16 c (i + 1) + i + 8) ∨
          rdv16 c (i + 3) + (rdv16 c (i + 1) + i + 8) < i ∨
          rdv16 c (i + 5) + (rdv16 c (i + 3) + (rdv16 c (i + 1) + i + 8)) < i then inv "wc2"
        else slice c (rdv16 c (i + 3) + (rdv16 c (i + 1) + i + 8))
          (rdv16 c (i + 5) + (rdv16 c (i + 3) + (rdv16 c (i + 1) + i + 8))))
        else pure []) = Except.ok u := by
      split
      · exact ⟨_, slice_ok (by omega) (by omega)⟩
      · exact ⟨_, rfl⟩
    obtain ⟨u3, hu3⟩ := hag
    rw [hu3]
    simp only [ok_bind]
    split
    · rw [vWC2Hdr_eq c i n hn _ _ _ _ []]
      cases bWC2Hdr c i n (c.length + 1) (rdv16 c (i + 5) + (rdv16 c (i + 3) + (rdv16 c (i + 1) + i + 8)))
        (rdv16 c (i + 3) + (rdv16 c (i + 1) + i + 8)) 0 [] <;> rfl
    · rfl

theorem slice_length {c : Bytes} {a b : Nat} {r : Bytes} (h : slice c a b = .ok r) : r.length = b - a := by
  unfold slice at h
  split at h
  · cases h
    simp only [List.length_take, List.length_drop]
    omega
  · cases h

/-- AES: validate's explicit size rule is the size rule of `crypto.NewAes` + `wrapper.NewBlock`. -/
theorem vAES_agree (c : Bytes) (i n : Nat) (hn : n ≤ c.length) :
    (∀ w, bAES c i n = .ok w → vAES c i n = .ok ()) ∧
    (∀ e, bAES c i n = .error e → ∃ e', vAES c i n = .error e') := by
  unfold vAES bAES
  by_cases h0 : i + 3 ≥ n
  · rw [if_pos h0, if_pos h0]
    exact ⟨fun w h => (by cases h), fun e _ => ⟨_, rfl⟩⟩
  rw [if_neg h0, if_neg h0, rd_ok (by omega : i + 1 < c.length), rd_ok (by omega : i + 2 < c.length)]
  simp only [ok_bind]
  by_cases h1 : rdv c (i + 1) + i + 3 = rdv c (i + 2) + (rdv c (i + 1) + i + 3) ∨ i + 3 = rdv c (i + 1) + i + 3 ∨
      rdv c (i + 2) + (rdv c (i + 1) + i + 3) > n ∨ rdv c (i + 1) + i + 3 > n ∨
      rdv c (i + 2) + (rdv c (i + 1) + i + 3) < i ∨ rdv c (i + 1) + i + 3 < i ∨
      rdv c (i + 2) + (rdv c (i + 1) + i + 3) < rdv c (i + 1) + i + 3
  · rw [if_pos h1, if_pos (by omega)]
    exact ⟨fun w h => (by cases h), fun e _ => ⟨_, rfl⟩⟩
  rw [if_neg h1, if_neg (by omega)]
  have hk := slice_ok (c := c) (a := i + 3) (b := rdv c (i + 1) + i + 3) (by omega) (by omega)
  have hkl := slice_length hk
  rw [hk]
  simp only [ok_bind]
  have hv := slice_ok (c := c) (a := rdv c (i + 1) + i + 3) (b := rdv c (i + 2) + (rdv c (i + 1) + i + 3))
    (by omega) (by omega)
  have hvl := slice_length hv
  rw [hv]
  simp only [ok_bind]
  rw [hkl, hvl]
  by_cases h2 : rdv c (i + 1) + i + 3 - (i + 3) = 16 ∨ rdv c (i + 1) + i + 3 - (i + 3) = 24 ∨
      rdv c (i + 1) + i + 3 - (i + 3) = 32
  · by_cases h3 : rdv c (i + 2) + (rdv c (i + 1) + i + 3) - (rdv c (i + 1) + i + 3) = 16
    · simp only [h2, h3, not_true_eq_false, ne_eq, if_false]
      exact ⟨fun _ _ => rfl, fun e h => (by cases h)⟩
    · simp only [h2, h3, not_true_eq_false, not_false_eq_true, ne_eq, if_false, if_true]
      exact ⟨fun w h => (by cases h), fun e _ => ⟨_, rfl⟩⟩
  · simp only [h2, not_false_eq_true, if_true]
    exact ⟨fun w h => (by cases h), fun e _ => ⟨_, rfl⟩⟩

/-! ### one setting: validate's switch agrees with build's -/

def flags (P : Profile) : Bool × Bool := (P.conn.isSome, P.trans.isSome)

/-- validate's outcome `v` agrees with build's outcome `b`: both succeed (and validate's two flags
are "a connector is set" / "a transform is set" of build's profile), or both fail. -/
def Agree (v : M (Bool × Bool)) (b : M (Profile × Nat)) : Prop :=
  match b with
  | .ok (P', _) => v = .ok (flags P')
  | .error _ => ∃ e, v = .error e

theorem agree_err (e e' : Fault) : Agree (Except.error e) (Except.error e') := ⟨e, rfl⟩

theorem pure_ok {α} (a : α) : (pure a : M α) = Except.ok a := rfl

theorem agree_arm {α} {x : M α} {vx : M Unit} (hv : vx = erase x) (g : α → Profile) (pt : Bool × Bool) (z : Nat)
    (hg : ∀ a, flags (g a) = pt) :
    Agree (vx >>= fun _ => pure pt) (x >>= fun a => pure (g a, z)) := by
  subst hv
  cases x with
  | ok a => simp [Agree, erase, hg, pure_ok]
  | error e => exact ⟨e, rfl⟩

theorem agree_if {p : Prop} [Decidable p] {v : M (Bool × Bool)} {b : M (Profile × Nat)} {e e' : Fault}
    (h : ¬p → Agree v b) : Agree (if p then .error e else v) (if p then .error e' else b) := by
  by_cases hp : p
  · rw [if_pos hp, if_pos hp]; exact agree_err _ _
  · rw [if_neg hp, if_neg hp]; exact h hp

theorem agree_ok (pt : Bool × Bool) (P' : Profile) (z : Nat) (h : flags P' = pt) :
    Agree (pure pt) (pure (P', z)) := by
  simp [Agree, pure_ok, h]

theorem case_agree (c : Bytes) (i n tag : Nat) (P : Profile) (z : Nat) (hn : n ≤ c.length) :
    Agree (vcase c i n tag (flags P).1 (flags P).2) (bcase allTrue c i n tag P z) := by
  by_cases h : tag = tInvalid
  · subst h; rw [vcase_Invalid, bcase_Invalid]; exact agree_err _ _
  by_cases h : tag = tHost
  · subst h; rw [vcase_Host, bcase_Host]
    exact agree_arm (vHost_eq c i n hn) _ _ _ (fun _ => rfl)
  by_cases h : tag = tSleep
  · subst h; rw [vcase_Sleep, bcase_Sleep]
    unfold bSleep
    by_cases h8 : i + 8 ≥ n
    · simp [h8, Agree, inv]
    · obtain ⟨u, hu⟩ := rd64_ok (c := c) (i := i) (by omega)
      simp [h8, hu, Agree, flags, pure_ok]
  by_cases h : tag = tKeyPin
  · subst h; rw [vcase_KeyPin, bcase_KeyPin]
    by_cases h8 : i + 4 ≥ n
    · simp [h8, Agree, inv]
    · obtain ⟨u, hu⟩ := rd32_ok (c := c) (i := i) (by omega)
      simp [h8, hu, Agree, flags, pure_ok]
  by_cases h : tag = tJitter
  · subst h; rw [vcase_Jitter, bcase_Jitter]
    by_cases h8 : i + 1 ≥ n
    · simp [h8, Agree, inv]
    · simp [h8, rd_ok (show i + 1 < c.length by omega), Agree, flags, pure_ok]
  by_cases h : tag = tWeight
  · subst h; rw [vcase_Weight, bcase_Weight]
    by_cases h8 : i + 1 ≥ n
    · simp [h8, Agree, inv]
    · simp [h8, rd_ok (show i + 1 < c.length by omega), Agree, flags, pure_ok]
  by_cases h : tag = tSelPercent
  · subst h; rw [vcase_SelPercent, bcase_SelPercent]
    by_cases h8 : i + 1 ≥ n
    · simp [h8, Agree, inv]
    · simp [h8, Agree, flags, pure_ok]
  by_cases h : tag = tSelPercentRR
  · subst h; rw [vcase_SelPercentRR, bcase_SelPercentRR]
    by_cases h8 : i + 1 ≥ n
    · simp [h8, Agree, inv]
    · simp [h8, Agree, flags, pure_ok]
  by_cases h : tag = tKillDate
  · subst h; rw [vcase_KillDate, bcase_KillDate]
    by_cases h8 : i + 8 ≥ n
    · simp [h8, Agree, inv]
    · obtain ⟨u, hu⟩ := rd64_ok (c := c) (i := i) (by omega)
      simp [h8, hu, Agree, flags, pure_ok]
  by_cases h : tag = tWorkHours
  · subst h; rw [vcase_WorkHours, bcase_WorkHours]
    exact agree_arm (vWorkHours_eq c i n hn) _ _ _ (fun _ => rfl)
  by_cases h : selTags.contains tag = true
  · rw [vcase_sel _ _ _ _ _ _ h, bcase_sel _ _ _ _ _ _ _ h]; exact agree_ok _ _ _ rfl
  by_cases h : connTags.contains tag = true
  · rw [vcase_conn _ _ _ _ _ _ h, bcase_conn _ _ _ _ _ _ _ h]
    exact agree_if (fun _ => agree_ok _ _ _ rfl)
  by_cases h : tag = tIP
  · subst h; rw [vcase_IP, bcase_IP]
    exact agree_if (fun _ => agree_arm (vIP_eq c i n hn) _ _ _ (fun _ => rfl))
  by_cases h : tag = tWC2
  · subst h; rw [vcase_WC2, bcase_WC2]
    exact agree_if (fun _ => agree_arm (vWC2_eq c i n hn) _ _ _ (fun _ => rfl))
  by_cases h : tag = tTLSx
  · subst h; rw [vcase_TLSx, bcase_TLSx]
    refine agree_if (fun _ => ?_)
    unfold bTLSx
    by_cases h8 : i + 1 ≥ n
    · simp [h8, Agree, inv]
    · simp [h8, rd_ok (show i + 1 < c.length by omega), Agree, flags, pure_ok, allTrue]
  by_cases h : tag = tMuTLS
  · subst h; rw [vcase_MuTLS, bcase_MuTLS]
    exact agree_if (fun _ => agree_arm (vMuTLS_eq c i n hn) _ _ _ (fun _ => rfl))
  by_cases h : tag = tTLSxCA
  · subst h; rw [vcase_TLSxCA, bcase_TLSxCA]
    exact agree_if (fun _ => agree_arm (vTLSxCA_eq c i n hn) _ _ _ (fun _ => rfl))
  by_cases h : tag = tTLSCert
  · subst h; rw [vcase_TLSCert, bcase_TLSCert]
    exact agree_if (fun _ => agree_arm (vTLSCert_eq c i n hn) _ _ _ (fun _ => rfl))
  by_cases h : wrapTags.contains tag = true
  · rw [vcase_wrap _ _ _ _ _ _ h, bcase_wrap _ _ _ _ _ _ _ h]; exact agree_ok _ _ _ rfl
  by_cases h : tag = tXOR
  · subst h; rw [vcase_XOR, bcase_XOR]
    exact agree_arm (vXOR_eq c i n hn) _ _ _ (fun _ => rfl)
  by_cases h : tag = tCBK
  · subst h; rw [vcase_CBK, bcase_CBK]
    unfold bCBK
    by_cases h8 : i + 5 ≥ n
    · simp [h8, Agree, inv]
    · simp [h8, rd_ok (show i + 1 < c.length by omega), rd_ok (show i + 2 < c.length by omega),
        rd_ok (show i + 3 < c.length by omega), rd_ok (show i + 4 < c.length by omega),
        rd_ok (show i + 5 < c.length by omega), Agree, flags, pure_ok]
  by_cases h : tag = tAES
  · subst h; rw [vcase_AES, bcase_AES]
    have ha := vAES_agree c i n hn
    cases hb : bAES c i n with
    | ok w => rw [ha.1 w hb]; simp [Agree, flags, pure_ok]
    | error e =>
      obtain ⟨e', he'⟩ := ha.2 e hb
      rw [he']; exact agree_err _ _
  by_cases h : tag = tB64T
  · subst h; rw [vcase_B64T, bcase_B64T]
    exact agree_if (fun _ => agree_ok _ _ _ rfl)
  by_cases h : tag = tDNS
  · subst h; rw [vcase_DNS, bcase_DNS]
    exact agree_if (fun _ => agree_arm (vDNSArm_eq c i n hn) _ _ _ (fun _ => rfl))
  by_cases h : tag = tB64Shift
  · subst h; rw [vcase_B64Shift, bcase_B64Shift]
    refine agree_if (fun _ => ?_)
    by_cases h8 : i + 1 ≥ n
    · simp [h8, Agree, inv]
    · simp [h8, rd_ok (show i + 1 < c.length by omega), Agree, flags, pure_ok]
  -- any other byte: both reject
  have hk : knownTags.contains tag = false := by
    simp only [knownTags, List.contains_cons, List.contains_nil, Bool.or_false, Bool.or_eq_false_iff,
      beq_eq_false_iff_ne, ne_eq]
    simp only [selTags, connTags, wrapTags, List.contains_cons, List.contains_nil, Bool.or_false,
      Bool.or_eq_true, beq_iff_eq, not_or] at *
    simp [*]
  rw [vcase_other _ _ _ _ _ _ hk, bcase_other _ _ _ _ _ _ _ hk]; exact agree_err _ _

/-! ### the loops -/

/-- validate(x) and build(x) agree: same end offset, or both fail. -/
def AgreeAt (v : M Nat) (b : M (Profile × Nat × Nat)) : Prop :=
  match b with
  | .ok (_, r, _) => v = .ok r
  | .error _ => ∃ e, v = .error e

theorem loop_agree (c : Bytes) : ∀ f i n P z, (n < c.length → i < c.length) →
    AgreeAt (vloop c f i n (flags P).1 (flags P).2) (bloop allTrue c f i n P z) := by
  intro f
  induction f with
  | zero => intro i n P z _; exact ⟨_, rfl⟩
  | succ f ih =>
    intro i n P z hi
    unfold vloop bloop
    by_cases hlt : n < c.length
    · rw [if_pos hlt, if_pos hlt]
      obtain ⟨n', hs, h1, h2⟩ := stride_ok c i (hi hlt)
      rw [hs, rd_ok (hi hlt)]
      simp only [ok_bind]
      by_cases hsep : rdv c i = tSeparator
      · rw [if_pos hsep, if_pos hsep]; rfl
      · rw [if_neg hsep, if_neg hsep]
        have hc := case_agree c i n' (rdv c i) P z h2
        cases hb : bcase allTrue c i n' (rdv c i) P z with
        | error e =>
          rw [hb] at hc
          obtain ⟨e', he'⟩ := hc
          rw [he']; exact ⟨_, rfl⟩
        | ok pz =>
          obtain ⟨P', z'⟩ := pz
          rw [hb] at hc
          simp only [Agree] at hc
          rw [hc]
          simp only [ok_bind]
          exact ih n' n' P' z' (fun h => h)
    · rw [if_neg hlt, if_neg hlt]; rfl

theorem at_agree (c : Bytes) (x : Nat) (hx : x < c.length) :
    AgreeAt (validateAt c x) (buildAt allTrue c x) :=
  loop_agree c _ x 0 {} 0 (fun _ => hx)

theorem outer_agree (c : Bytes) : ∀ f i e g,
    (∀ r, buildLoop allTrue c f i e g = .ok r → validateLoop c f i = .ok ()) ∧
    (∀ x, buildLoop allTrue c f i e g = .error x → ∃ x', validateLoop c f i = .error x') := by
  intro f
  induction f with
  | zero => intro i e g; exact ⟨fun r h => (by cases h), fun x _ => ⟨_, rfl⟩⟩
  | succ f ih =>
    intro i e g
    unfold buildLoop validateLoop
    by_cases hlt : i < c.length
    · rw [if_pos hlt, if_pos hlt]
      have ha := at_agree c i hlt
      cases hb : buildAt allTrue c i with
      | error x =>
        rw [hb] at ha
        obtain ⟨x', hx'⟩ := ha
        rw [hx']
        exact ⟨fun r h => (by cases h), fun _ _ => ⟨_, rfl⟩⟩
      | ok r =>
        obtain ⟨v, n, s⟩ := r
        rw [hb] at ha
        simp only [AgreeAt] at ha
        rw [ha, rd_ok hlt]
        simp only [ok_bind]
        split
        · exact ih _ _ _
        · exact ih _ _ _
    · rw [if_neg hlt, if_neg hlt]
      exact ⟨fun _ _ => rfl, fun x h => (by cases h)⟩

/-- With certificate and key contents accepted, Validate succeeds exactly when Build succeeds. -/
theorem validate_iff_build_allTrue (c : Bytes) :
    validate c = .ok () ↔ ∃ b, build allTrue c = .ok b := by
  unfold validate build
  by_cases h0 : c.length = 0
  · rw [if_pos h0, if_pos h0]; exact ⟨fun _ => ⟨_, rfl⟩, fun _ => rfl⟩
  rw [if_neg h0, if_neg h0]
  have ho := outer_agree c (c.length + 1) 0 [] 0
  cases hb : buildLoop allTrue c (c.length + 1) 0 [] 0 with
  | error x =>
    obtain ⟨x', hx'⟩ := ho.2 x hb
    rw [hx']
    constructor
    · intro h; cases h
    · intro ⟨b, h⟩; cases h
  | ok r =>
    obtain ⟨e, g⟩ := r
    rw [ho.1 _ hb]
    simp only [ok_bind]
    constructor
    · intro _
      split
      · exact ⟨_, rfl⟩
      · exact ⟨_, rfl⟩
    · intro _; trivial

/-! ### the TLS oracle only ever turns a success into an `ext` error -/

def IsExt {α} (x : M α) : Prop := ∃ l, x = .error (.err l .ext)

theorem tls_or_ext_ite {α} {p : Prop} [Decidable p] {a b a' b' : M α} (ha : a = a' ∨ IsExt a)
    (hb : b = b' ∨ IsExt b) : (if p then a else b) = (if p then a' else b') ∨ IsExt (if p then a else b) := by
  split <;> assumption

theorem bTLSx_tls (tls) (c : Bytes) (i n : Nat) :
    bTLSx tls c i n = bTLSx allTrue c i n ∨ IsExt (bTLSx tls c i n) := by
  unfold bTLSx
  split
  · left; rfl
  · cases hr : rd c (i + 1) with
    | error e => left; rfl
    | ok v =>
      simp only [ok_bind, allTrue]
      cases tls [] [] []
      · right; exact ⟨_, rfl⟩
      · left; rfl

theorem bind_tls {α β} {x : M α} {f g : α → M β} (h : ∀ a, f a = g a ∨ IsExt (f a)) :
    (x >>= f) = (x >>= g) ∨ IsExt (x >>= f) := by
  cases x with
  | error e => left; rfl
  | ok a => exact h a

theorem ite_tls {α} {p : Prop} [Decidable p] {a b b' : M α} (h : b = b' ∨ IsExt b) :
    (if p then a else b) = (if p then a else b') ∨ IsExt (if p then a else b) := by
  split
  · left; rfl
  · exact h

theorem tls_final {α} (t : Bool) (a : α) (l : String) :
    (if t = true then (pure a : M α) else extErr l) = (if true = true then pure a else extErr l) ∨
      IsExt (if t = true then (pure a : M α) else extErr l) := by
  cases t
  · right; exact ⟨_, rfl⟩
  · left; rfl

theorem bMuTLS_tls (tls) (c : Bytes) (i n : Nat) :
    bMuTLS tls c i n = bMuTLS allTrue c i n ∨ IsExt (bMuTLS tls c i n) := by
  unfold bMuTLS
  refine ite_tls (bind_tls fun l1 => bind_tls fun l2 => bind_tls fun l3 => ite_tls
    (bind_tls fun ver => bind_tls fun ca => bind_tls fun pem => bind_tls fun key => ?_))
  exact tls_final _ _ _

theorem bTLSxCA_tls (tls) (c : Bytes) (i n : Nat) :
    bTLSxCA tls c i n = bTLSxCA allTrue c i n ∨ IsExt (bTLSxCA tls c i n) := by
  unfold bTLSxCA
  refine ite_tls (bind_tls fun l => ite_tls (bind_tls fun ver => bind_tls fun ca => ?_))
  exact tls_final _ _ _

theorem bTLSCert_tls (tls) (c : Bytes) (i n : Nat) :
    bTLSCert tls c i n = bTLSCert allTrue c i n ∨ IsExt (bTLSCert tls c i n) := by
  unfold bTLSCert
  refine ite_tls (bind_tls fun l1 => bind_tls fun l2 => ite_tls
    (bind_tls fun ver => bind_tls fun pem => bind_tls fun key => ?_))
  exact tls_final _ _ _

theorem map_tls {α β} {x x' : M α} (f : α → β) (h : x = x' ∨ IsExt x) :
    (x >>= fun a => (pure (f a) : M β)) = (x' >>= fun a => pure (f a)) ∨ IsExt (x >>= fun a => (pure (f a) : M β)) := by
  rcases h with h | ⟨l, h⟩
  · left; rw [h]
  · right; rw [h]; exact ⟨l, rfl⟩

theorem bcase_tls (tls) (c : Bytes) (i n tag : Nat) (P : Profile) (z : Nat) :
    bcase tls c i n tag P z = bcase allTrue c i n tag P z ∨ IsExt (bcase tls c i n tag P z) := by
  by_cases h1 : tag = tTLSx
  · subst h1; rw [bcase_TLSx, bcase_TLSx]; exact ite_tls (map_tls _ (bTLSx_tls tls c i n))
  by_cases h2 : tag = tMuTLS
  · subst h2; rw [bcase_MuTLS, bcase_MuTLS]; exact ite_tls (map_tls _ (bMuTLS_tls tls c i n))
  by_cases h3 : tag = tTLSxCA
  · subst h3; rw [bcase_TLSxCA, bcase_TLSxCA]; exact ite_tls (map_tls _ (bTLSxCA_tls tls c i n))
  by_cases h4 : tag = tTLSCert
  · subst h4; rw [bcase_TLSCert, bcase_TLSCert]; exact ite_tls (map_tls _ (bTLSCert_tls tls c i n))
  left
  unfold bcase
  simp only [if_neg h1, if_neg h2, if_neg h3, if_neg h4]

theorem IsExt.bind {α β} {x : M α} (h : IsExt x) (f : α → M β) : IsExt (x >>= f) := by
  obtain ⟨l, rfl⟩ := h; exact ⟨l, rfl⟩

theorem bloop_tls (tls) (c : Bytes) : ∀ f i n P z,
    bloop tls c f i n P z = bloop allTrue c f i n P z ∨ IsExt (bloop tls c f i n P z) := by
  intro f
  induction f with
  | zero => intro i n P z; left; rfl
  | succ f ih =>
    intro i n P z
    unfold bloop
    split
    · cases stride c i with
      | error e => left; simp only [err_bind]
      | ok n' =>
        simp only [ok_bind]
        cases rd c i with
        | error e => left; simp only [err_bind]
        | ok tag =>
          simp only [ok_bind]
          split
          · left; rfl
          · rcases bcase_tls tls c i n' tag P z with h | h
            · rw [h]
              cases bcase allTrue c i n' tag P z with
              | error e => left; rfl
              | ok pz => exact ih _ _ _ _
            · right; exact h.bind _
    · left; rfl

theorem buildAt_tls (tls) (c : Bytes) (x : Nat) :
    buildAt tls c x = buildAt allTrue c x ∨ IsExt (buildAt tls c x) := by
  unfold buildAt; exact bloop_tls tls c _ _ _ _ _

theorem buildLoop_tls (tls) (c : Bytes) : ∀ f i e g,
    buildLoop tls c f i e g = buildLoop allTrue c f i e g ∨ IsExt (buildLoop tls c f i e g) := by
  intro f
  induction f with
  | zero => intro i e g; left; unfold buildLoop; rfl
  | succ f ih =>
    intro i e g
    unfold buildLoop
    by_cases hlt : i < c.length
    · rw [if_pos hlt, if_pos hlt]
      rcases buildAt_tls tls c i with h | h
      · rw [h]
        generalize buildAt allTrue c i = r
        cases r with
        | error x => left; simp only [err_bind]
        | ok r =>
          obtain ⟨v, n, s⟩ := r
          simp only [ok_bind]
          generalize rd c i = t
          cases t with
          | error x => left; simp only [err_bind]
          | ok t =>
            simp only [ok_bind]
            split
            · exact ih _ _ _
            · exact ih _ _ _
      · right; exact h.bind _
    · rw [if_neg hlt, if_neg hlt]; left; rfl

/-- Whatever `com.NewTLSConfig` says about the PEM blocks, Build either behaves as if they had been
accepted, or fails with an error of the external constructor. -/
theorem build_tls (tls) (c : Bytes) : build tls c = build allTrue c ∨ IsExt (build tls c) := by
  unfold build
  split
  · left; rfl
  · rcases buildLoop_tls tls c (c.length + 1) 0 [] 0 with h | h
    · left; rw [h]
    · right; exact h.bind _
end XMT.Cfg
