/-
  XMT.CfgGroups — `Groups()` / `Group(p)` partition every non-empty byte string at the separators
  the `next`-walk visits (helper lemmas for Props/C08).
-/
import XMT.CfgTotal
namespace XMT.Cfg
open XMT

/-- the separator positions (> 0) the `next`-walk from `e` visits -/
def seps (c : Bytes) : Nat → Nat → List Nat
  | 0, _ => []
  | f + 1, e =>
    if e < c.length then
      (if rdv c e = tSeparator ∧ e > 0 then [e] else []) ++
        (match nextV c e with
         | none => []
         | some e' => seps c f e')
    else []

theorem groupsLoop_eq (c : Bytes) : ∀ f i n, 1 ≤ f → (i < c.length → c.length + 1 ≤ f + i) →
    groupsLoop c f i n = .ok (n + (seps c f i).length) := by
  intro f
  induction f with
  | zero => intro i n h; omega
  | succ f ih =>
    intro i n _ hf
    unfold groupsLoop seps
    by_cases hlt : i < c.length
    · rw [if_pos hlt, if_pos hlt, rd_ok hlt, next_eq c i hlt]
      simp only [ok_bind]
      cases hn : nextV c i with
      | none =>
        simp only [List.append_nil]
        split <;> simp [pure, Except.pure]
      | some i' =>
        simp only
        have hgt := nextArmV_gt c i (rdv c i) i' hn
        rw [ih i' _ (by omega) (by omega)]
        split <;> simp <;> omega
    · rw [if_neg hlt, if_neg hlt]; simp [pure, Except.pure]

/-- what `Group(p)`'s loop does over the separator positions -/
def pick (c : Bytes) (p : Int) : List Nat → Nat → Nat → Option Bytes × Nat × Nat
  | [], l, s => (none, l, s)
  | e :: es, l, s =>
    if p ≤ 0 ∧ l = 0 then (some ((c.drop 0).take (e - 0)), l, s)
    else if p = (l : Int) then (some ((c.drop s).take (e - s)), l, s)
    else pick c p es (l + 1) (e + 1)

theorem groupLoop_eq (c : Bytes) (p : Int) : ∀ f e l s, 1 ≤ f → (e < c.length → c.length + 1 ≤ f + e) →
    s ≤ e → groupLoop c p f e l s = .ok (pick c p (seps c f e) l s) := by
  intro f
  induction f with
  | zero => intro e l s h; omega
  | succ f ih =>
    intro e l s _ hf hse
    unfold groupLoop seps
    by_cases hlt : e < c.length
    · rw [if_pos hlt, if_pos hlt, rd_ok hlt, next_eq c e hlt]
      simp only [ok_bind]
      by_cases hsep : rdv c e = tSeparator
      · rw [if_pos hsep]
        by_cases he0 : e = 0
        · rw [if_pos he0, if_neg (show ¬(rdv c e = tSeparator ∧ e > 0) by omega)]
          simp only [List.nil_append]
          cases hn : nextV c e with
          | none => simp [pick, pure, Except.pure]
          | some e' =>
            simp only
            have hgt := nextArmV_gt c e (rdv c e) e' hn
            exact ih e' l s (by omega) (by omega) (by omega)
        · rw [if_neg he0, if_pos (show rdv c e = tSeparator ∧ e > 0 from ⟨hsep, by omega⟩)]
          simp only [List.singleton_append, pick]
          by_cases h1 : p ≤ 0 ∧ l = 0
          · rw [if_pos h1, if_pos h1, slice_ok (by omega) (by omega)]; rfl
          · rw [if_neg h1, if_neg h1]
            by_cases h2 : p = (l : Int)
            · rw [if_pos h2, if_pos h2, slice_ok (by omega) (by omega)]; rfl
            · rw [if_neg h2, if_neg h2]
              cases hn : nextV c e with
              | none => simp [pick, pure, Except.pure]
              | some e' =>
                simp only
                have hgt := nextArmV_gt c e (rdv c e) e' hn
                exact ih e' (l + 1) (e + 1) (by omega) (by omega) (by omega)
      · rw [if_neg hsep, if_neg (by intro h; exact hsep h.1)]
        simp only [List.nil_append]
        cases hn : nextV c e with
        | none => simp [pick, pure, Except.pure]
        | some e' =>
          simp only
          have hgt := nextArmV_gt c e (rdv c e) e' hn
          exact ih e' l s (by omega) (by omega) (by omega)
    · rw [if_neg hlt, if_neg hlt]; simp [pick, pure, Except.pure]

/-- `S` lists increasing offsets ≥ `s` inside `c`, each holding the separator byte -/
def SepChain (c : Bytes) : Nat → List Nat → Prop
  | _, [] => True
  | s, e :: es => s ≤ e ∧ e < c.length ∧ rdv c e = tSeparator ∧ SepChain c (e + 1) es

theorem seps_chain (c : Bytes) : ∀ f e s, s ≤ e → SepChain c s (seps c f e) := by
  intro f
  induction f with
  | zero => intro e s _; simp [seps, SepChain]
  | succ f ih =>
    intro e s hse
    unfold seps
    by_cases hlt : e < c.length
    · rw [if_pos hlt]
      cases hn : nextV c e with
      | none =>
        simp only [List.append_nil]
        split
        · rename_i h; exact ⟨hse, hlt, h.1, trivial⟩
        · trivial
      | some e' =>
        simp only
        have hgt := nextArmV_gt c e (rdv c e) e' hn
        split
        · rename_i h
          exact ⟨hse, hlt, h.1, ih e' (e + 1) (by omega)⟩
        · simp only [List.nil_append]; exact ih e' s (by omega)
    · rw [if_neg hlt]; trivial

/-- the byte strings between the separators at `S`, starting at `s` -/
def pieces (c : Bytes) : List Nat → Nat → List Bytes
  | [], s => [c.drop s]
  | e :: es, s => (c.drop s).take (e - s) :: pieces c es (e + 1)

/-- join with the separator byte (`bytes.Join(parts, []byte{Separator})`) -/
def joinSep : List Bytes → Bytes
  | [] => []
  | [x] => x
  | x :: y :: r => x ++ byteOf tSeparator :: joinSep (y :: r)

theorem pieces_ne (c : Bytes) (S : List Nat) (s : Nat) : pieces c S s ≠ [] := by
  cases S <;> simp [pieces]

theorem drop_sep (c : Bytes) (e : Nat) (he : e < c.length) (hs : rdv c e = tSeparator) :
    c.drop e = byteOf tSeparator :: c.drop (e + 1) := by
  rw [List.drop_eq_getElem_cons he]
  congr 1
  apply UInt8.toNat_inj.mp
  have : rdv c e = (c[e]).toNat := by
    unfold rdv; simp [List.getD, List.getElem?_eq_getElem he]
  rw [← this, hs]; decide

theorem join_pieces (c : Bytes) : ∀ (S : List Nat) (s : Nat), SepChain c s S →
    joinSep (pieces c S s) = c.drop s := by
  intro S
  induction S with
  | nil => intro s _; simp [pieces, joinSep]
  | cons e es ih =>
    intro s h
    obtain ⟨hse, he, hsep, hrest⟩ := h
    have hne := pieces_ne c es (e + 1)
    unfold pieces
    cases hp : pieces c es (e + 1) with
    | nil => exact absurd hp hne
    | cons y r =>
      unfold joinSep
      rw [← hp, ih (e + 1) hrest, ← drop_sep c e he hsep]
      have : c.drop e = (c.drop s).drop (e - s) := by rw [List.drop_drop]; congr 1; omega
      rw [this, List.take_append_drop]

theorem pieces_length (c : Bytes) : ∀ (S : List Nat) (s : Nat), (pieces c S s).length = S.length + 1 := by
  intro S
  induction S with
  | nil => intro s; simp [pieces]
  | cons e es ih => intro s; simp [pieces, ih]

theorem pick_spec (c : Bytes) (p : Nat) : ∀ (S : List Nat) (l s : Nat), l ≤ p → p - l < S.length →
    (l = 0 → s = 0) → (pick c (p : Int) S l s).1 = (pieces c S s)[p - l]? := by
  intro S
  induction S with
  | nil => intro l s _ h; simp at h
  | cons e es ih =>
    intro l s hlp hlt hs0
    unfold pick
    by_cases h1 : (p : Int) ≤ 0 ∧ l = 0
    · have hp0 : p = 0 := by omega
      have hl0 := h1.2
      rw [if_pos h1]
      subst hp0 hl0
      simp [pieces, hs0 rfl]
    · rw [if_neg h1]
      by_cases h2 : (p : Int) = (l : Int)
      · rw [if_pos h2]
        have : p = l := by omega
        subst this
        simp [pieces]
      · rw [if_neg h2]
        have hlt' : l < p := by omega
        have := ih (l + 1) (e + 1) (by omega) (by simp only [List.length_cons] at hlt; omega) (by omega)
        rw [this]
        simp only [pieces]
        have hidx : p - l = (p - (l + 1)) + 1 := by omega
        rw [hidx, List.getElem?_cons_succ]

/-- when `p` is past the last separator the loop runs to the end with `l = |S|` and `s` just after
the last separator -/
theorem pick_end (c : Bytes) (p : Nat) : ∀ (S : List Nat) (l s : Nat), l ≤ p → S.length ≤ p - l →
    (l = 0 → 0 < p ∨ S = []) → SepChain c s S →
    ∃ s', pick c (p : Int) S l s = (none, l + S.length, s') ∧ (S ≠ [] → 0 < s') ∧
      (pieces c S s)[S.length]? = some (c.drop s') ∧ (S = [] → s' = s) ∧ (s ≤ c.length → s' ≤ c.length) := by
  intro S
  induction S with
  | nil => intro l s _ _ _ _; exact ⟨s, rfl, fun h => absurd rfl h, by simp [pieces], fun _ => rfl, fun h => h⟩
  | cons e es ih =>
    intro l s hlp hlen h0 hch
    obtain ⟨_, helt, _, hrest⟩ := hch
    simp only [List.length_cons] at hlen
    unfold pick
    have hp : 0 < p := by
      rcases Nat.eq_zero_or_pos l with hl | hl
      · rcases h0 hl with h | h
        · exact h
        · cases h
      · omega
    rw [if_neg (by omega), if_neg (by omega)]
    obtain ⟨s', h1, h2, h3, h4, h5⟩ := ih (l + 1) (e + 1) (by omega) (by omega) (by omega) hrest
    refine ⟨s', by rw [h1]; simp only [List.length_cons]; congr 2; omega, fun _ => ?_, ?_, fun h => (by cases h),
      fun _ => h5 (by omega)⟩
    · cases es with
      | nil => rw [h4 rfl]; omega
      | cons x xs => exact h2 (by simp)
    · simp only [pieces, List.length_cons, List.getElem?_cons_succ]; exact h3

/-- the explicit form: the parts are the pieces between the separators the walk visits -/
theorem groups_partition_pieces (c : Bytes) (hc : c ≠ []) :
    groups c = .ok (pieces c (seps c (c.length + 1) 0) 0).length ∧
      (∀ p : Nat, p < (pieces c (seps c (c.length + 1) 0) 0).length →
        group c (p : Int) = .ok (pieces c (seps c (c.length + 1) 0) 0)[p]?) ∧
      joinSep (pieces c (seps c (c.length + 1) 0) 0) = c := by
  have hlen : c.length ≠ 0 := fun h => hc (List.length_eq_zero_iff.mp h)
  refine ⟨?_, ?_, ?_⟩
  · unfold groups
    rw [if_neg hlen, groupsLoop_eq c _ 0 0 (by omega) (by omega), pieces_length]
    simp [pure, Except.pure]
  · intro p hp
    rw [pieces_length] at hp
    unfold group
    rw [if_neg hlen, if_neg (by omega), groupLoop_eq c p _ 0 0 0 (by omega) (by omega) (by omega)]
    simp only [ok_bind]
    have hch := seps_chain c (c.length + 1) 0 0 (by omega)
    generalize seps c (c.length + 1) 0 = S at *
    by_cases hps : p < S.length
    · have h1 := pick_spec c p S 0 0 (by omega) (by omega) (fun _ => rfl)
      simp only [Nat.sub_zero] at h1
      have hsome : ∃ x, (pieces c S 0)[p]? = some x := by
        have : p < (pieces c S 0).length := by rw [pieces_length]; omega
        exact ⟨_, List.getElem?_eq_getElem this⟩
      obtain ⟨x, hx⟩ := hsome
      rw [hx] at h1 ⊢
      generalize pick c (↑p) S 0 0 = pk at *
      obtain ⟨r, l, s⟩ := pk
      simp only at h1
      subst h1
      rfl
    · have hpe : p = S.length := by omega
      obtain ⟨s', h1, h2, h3, h4, h5⟩ := pick_end c p S 0 0 (by omega) (by omega)
        (fun _ => by
          cases S with
          | nil => right; rfl
          | cons e es => left; simp only [List.length_cons] at hpe; omega) hch
      rw [h1]
      simp only [Nat.zero_add]
      rw [hpe, h3]
      by_cases hS : S = []
      · subst hS
        simp only [List.length_nil] at hpe ⊢
        rw [if_neg (by omega), if_pos ⟨by omega, trivial⟩, h4 rfl]
        rfl
      · have hl : 0 < S.length := List.length_pos_iff.mpr hS
        have hs' := h2 hS
        rw [if_pos ⟨hl, hs'⟩, slice_ok (h5 (by omega)) (Nat.le_refl _)]
        simp only [ok_bind]
        rw [List.take_of_length_le (by simp)]
        rfl
  · have := join_pieces c _ 0 (seps_chain c (c.length + 1) 0 0 (by omega))
    simpa using this

/-- **Group extraction partitions the bytes at the separators** — for every non-empty byte string:
`Groups()` is the number of parts, `Group(p)` is the p-th part for every `p < Groups()`, and the
parts joined by the separator byte are the config. -/
theorem groups_partition_all (c : Bytes) (hc : c ≠ []) :
    ∃ parts : List Bytes, groups c = .ok parts.length ∧
      (∀ p : Nat, p < parts.length → group c (p : Int) = .ok parts[p]?) ∧ joinSep parts = c :=
  ⟨_, groups_partition_pieces c hc⟩

end XMT.Cfg
