/-
  XMT.CfgGroupsPack — for packed configs `Groups()` / `Group(p)` return exactly the groups that
  `AddGroup` wrote (helper lemmas for Props/C08 `groups_of_pack`).

  `groups_partition_pieces` (CfgGroups) partitions any byte string at the separators the `next`-walk
  visits; here the walk is followed over `bytesOf g₀ ++ sep :: bytesOf g₁ ++ …` with the
  per-constructor stride facts of `setting_spec`: inside a group no visited offset holds the
  separator tag, and the walk lands exactly on every separator `AddGroup` wrote.
-/
import XMT.CfgGroups
import XMT.CfgBuildPack
namespace XMT.Cfg
open XMT

/-- past the end the walk visits nothing -/
theorem seps_end (c : Bytes) (f e : Nat) (he : c.length ≤ e) : seps c f e = [] := by
  cases f with
  | zero => rfl
  | succ f => unfold seps; rw [if_neg (by omega)]

/-- one step of the walk over a setting that `stride` steps over exactly and whose tag is not the
separator -/
theorem seps_setting {c : Bytes} {i m : Nat} (f : Nat) (hi : i < c.length)
    (hst : stride c i = .ok (i + m)) (hns : rdv c i ≠ tSeparator) :
    seps c (f + 1) i = seps c f (i + m) := by
  unfold stride at hst
  rw [next_eq c i hi] at hst
  simp only [ok_bind] at hst
  have hb := clamp_bounds c i (nextV c i) hi
  rw [rd_ok (by omega)] at hst
  have hcl : clamp c i (nextV c i) = i + m := by
    have : (Except.ok (clamp c i (nextV c i)) : M Nat) = .ok (i + m) := hst
    injection this
  conv => lhs; unfold seps
  rw [if_pos hi, if_neg (by intro h; exact hns h.1)]
  simp only [List.nil_append]
  cases hn : nextV c i with
  | none =>
    simp only
    rw [hn] at hcl
    unfold clamp at hcl
    simp only at hcl
    rw [seps_end c f (i + m) (by omega)]
  | some n =>
    simp only
    rw [hn] at hcl
    unfold clamp at hcl
    simp only at hcl
    have hgt := nextArmV_gt c i (rdv c i) n hn
    by_cases hbig : n = i ∨ n > c.length ∨ n < i
    · rw [if_pos hbig] at hcl
      rw [seps_end c f n (by omega), seps_end c f (i + m) (by omega)]
    · rw [if_neg hbig] at hcl
      rw [hcl]

/-- the walk over the settings of one group visits no separator and arrives right after the group
(with enough fuel left for the rest of the config) -/
theorem seps_group (tls : Bytes → Bytes → Bytes → Bool) (c : Bytes) : ∀ (ss : List Setting) (hc ht : Bool)
    (pre post : Bytes) (f : Nat),
    c = pre ++ bytesOf ss ++ post → groupOK tls hc ht ss = true → c.length + 1 ≤ f + pre.length →
    ∃ f', c.length + 1 ≤ f' + (pre.length + (bytesOf ss).length) ∧
      seps c f pre.length = seps c f' (pre.length + (bytesOf ss).length) := by
  intro ss
  induction ss with
  | nil => intro _ _ pre post f _ _ hf; exact ⟨f, by simpa [bytesOf] using hf, by simp [bytesOf]⟩
  | cons s rest ih =>
    intro hc ht pre post f hcd hok hf
    unfold groupOK at hok
    simp only [Bool.and_eq_true] at hok
    obtain ⟨⟨⟨hd, _⟩, _⟩, hrest⟩ := hok
    by_cases he : s.enc = []
    · rw [bytesOf_cons, he, List.nil_append] at hcd ⊢
      exact ih _ _ pre post f hcd hrest hf
    · have hsp := setting_spec tls s hd he pre (bytesOf rest ++ post) {} 0 (fun _ => rfl) (fun _ => rfl)
      unfold SettingSpec at hsp
      have hc' : c = pre ++ s.enc ++ (bytesOf rest ++ post) := by rw [hcd, bytesOf_cons]; simp
      rw [← hc'] at hsp
      obtain ⟨htag, hns, hst, _⟩ := hsp
      have hpos : 0 < s.enc.length := List.length_pos_iff.mpr he
      have hlen : c.length = pre.length + s.enc.length + (bytesOf rest).length + post.length := by
        rw [hc']; simp; omega
      obtain ⟨f0, rfl⟩ : ∃ f0, f = f0 + 1 := ⟨f - 1, by omega⟩
      rw [seps_setting f0 (by omega) hst (by rw [htag]; exact hns)]
      have hc'' : c = (pre ++ s.enc) ++ bytesOf rest ++ post := by rw [hc']; simp
      obtain ⟨f', hf', heq⟩ := ih _ _ (pre ++ s.enc) post f0 hc'' hrest (by simp; omega)
      refine ⟨f', ?_, ?_⟩
      · rw [bytesOf_cons]; simp only [List.length_append] at hf' ⊢; omega
      · simp only [List.length_append] at heq
        rw [heq, bytesOf_cons]; simp only [List.length_append]
        congr 1; omega

/-- the offsets of the separators `AddGroup` wrote; `off` is where the next one sits -/
def sepPos : Nat → List (List Setting) → List Nat
  | _, [] => []
  | off, g :: gs => off :: sepPos (off + 1 + (bytesOf g).length) gs

theorem nextV_sep (c : Bytes) (e : Nat) (h : rdv c e = tSeparator) : nextV c e = some (e + 1) := by
  unfold nextV; rw [h]; unfold nextArmV; rw [if_pos (by decide)]

/-- the walk over the tail `sep :: g₁ ++ sep :: g₂ ++ …` visits exactly those separators -/
theorem seps_tail (tls : Bytes → Bytes → Bytes → Bool) (c : Bytes) : ∀ (gs : List (List Setting)) (pre : Bytes) (f : Nat),
    c = pre ++ tailBytes gs → (∀ g ∈ gs, groupOK tls false false g = true) → pre ≠ [] →
    c.length + 1 ≤ f + pre.length → seps c f pre.length = sepPos pre.length gs := by
  intro gs
  induction gs with
  | nil =>
    intro pre f hcd _ _ _
    rw [seps_end c f pre.length (by rw [hcd]; simp [tailBytes])]; rfl
  | cons g rest ih =>
    intro pre f hcd hok hpre hf
    have hts : tailBytes (g :: rest) = byteOf tSeparator :: (bytesOf g ++ tailBytes rest) := by
      simp [tailBytes]
    rw [hts] at hcd
    have hsep : rdv c pre.length = tSeparator := by rw [hcd]; exact rdv_sep pre _
    have hlt : pre.length < c.length := by rw [hcd]; simp
    have hp0 : 0 < pre.length := List.length_pos_iff.mpr hpre
    obtain ⟨f0, rfl⟩ : ∃ f0, f = f0 + 1 := ⟨f - 1, by omega⟩
    conv => lhs; unfold seps
    rw [if_pos hlt, if_pos ⟨hsep, hp0⟩, nextV_sep c _ hsep]
    simp only [List.singleton_append, sepPos]
    congr 1
    have hc1 : c = (pre ++ [byteOf tSeparator]) ++ bytesOf g ++ tailBytes rest := by rw [hcd]; simp
    obtain ⟨f', hf', heq⟩ := seps_group tls c g false false (pre ++ [byteOf tSeparator]) (tailBytes rest) f0 hc1
      (hok g List.mem_cons_self) (by simp; omega)
    simp only [List.length_append, List.length_singleton] at heq hf'
    rw [heq]
    have hc2 : c = (pre ++ [byteOf tSeparator] ++ bytesOf g) ++ tailBytes rest := by rw [hc1]
    have := ih (pre ++ [byteOf tSeparator] ++ bytesOf g) f' hc2
      (fun x hx => hok x (List.mem_cons_of_mem _ hx)) (by simp) (by simp; omega)
    simp only [List.length_append, List.length_singleton] at this
    rw [this]

/-- the pieces between those separators are the groups' bytes -/
theorem pieces_pack (c : Bytes) : ∀ (gs : List (List Setting)) (pre : Bytes) (g : List Setting),
    c = pre ++ bytesOf g ++ tailBytes gs →
    pieces c (sepPos (pre.length + (bytesOf g).length) gs) pre.length = bytesOf g :: gs.map bytesOf := by
  intro gs
  induction gs with
  | nil =>
    intro pre g hcd
    simp only [sepPos, pieces, List.map_nil]
    rw [hcd]; simp [tailBytes]
  | cons x rest ih =>
    intro pre g hcd
    have hts : tailBytes (x :: rest) = byteOf tSeparator :: (bytesOf x ++ tailBytes rest) := by
      simp [tailBytes]
    simp only [sepPos, pieces, List.map_cons]
    congr 1
    · rw [hcd]; simp
    · have hc1 : c = (pre ++ bytesOf g ++ [byteOf tSeparator]) ++ bytesOf x ++ tailBytes rest := by
        rw [hcd, hts]; simp
      have := ih (pre ++ bytesOf g ++ [byteOf tSeparator]) x hc1
      simp only [List.length_append, List.length_singleton] at this
      exact this

/-- **For packed configs the parts are the groups that were added.** -/
theorem groups_of_pack_all (tls : Bytes → Bytes → Bytes → Bool) (gs : List (List Setting))
    (hok : groupsOK tls gs = true) :
    groups (packGroups gs) = .ok gs.length ∧
      ∀ i : Nat, i < gs.length → group (packGroups gs) (i : Int) = .ok (gs[i]?.map bytesOf) := by
  unfold groupsOK at hok
  simp only [Bool.and_eq_true, List.all_eq_true] at hok
  obtain ⟨hne, hall⟩ := hok
  cases gs with
  | nil => simp at hne
  | cons g rest =>
    have hg : bytesOf g ≠ [] := isEmpty_false (hall g List.mem_cons_self).2
    have hrest : ∀ x ∈ rest, bytesOf x ≠ [] := fun x hx => isEmpty_false (hall x (List.mem_cons_of_mem _ hx)).2
    have hpk := packGroups_eq g rest hg hrest
    have hcne : packGroups (g :: rest) ≠ [] := by rw [hpk]; simp [hg]
    obtain ⟨h1, h2, _⟩ := groups_partition_pieces (packGroups (g :: rest)) hcne
    -- the separators the walk visits
    have hS : seps (packGroups (g :: rest)) ((packGroups (g :: rest)).length + 1) 0 =
        sepPos (bytesOf g).length rest := by
      have hc0 : packGroups (g :: rest) = ([] : Bytes) ++ bytesOf g ++ tailBytes rest := by rw [hpk]; simp
      obtain ⟨f', hf', heq⟩ := seps_group tls _ g false false [] (tailBytes rest)
        ((packGroups (g :: rest)).length + 1) hc0 (hall g List.mem_cons_self).1 (by simp)
      simp only [List.length_nil, Nat.zero_add] at heq hf'
      rw [heq]
      exact seps_tail tls _ rest (bytesOf g) f' hpk
        (fun x hx => (hall x (List.mem_cons_of_mem _ hx)).1) hg hf'
    have hP : pieces (packGroups (g :: rest)) (sepPos (bytesOf g).length rest) 0 =
        bytesOf g :: rest.map bytesOf := by
      have hc0 : packGroups (g :: rest) = ([] : Bytes) ++ bytesOf g ++ tailBytes rest := by rw [hpk]; simp
      have := pieces_pack _ rest [] g hc0
      simpa using this
    rw [hS, hP] at h1 h2
    refine ⟨by simpa using h1, fun i hi => ?_⟩
    have := h2 i (by simpa using hi)
    rw [this]
    congr 1
    cases i with
    | zero => simp
    | succ k => simp [List.getElem?_map]

end XMT.Cfg
