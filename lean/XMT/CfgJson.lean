/-
  XMT.CfgJson — outcome-level model of `Config.MarshalJSON` and `Config.String` (z_json.go): the
  third copy of the per-setting bounds logic.  Only what decides between "returns text", "returns
  an error" and "panics" is modelled: every index, slice and guard; the text written is not.
-/
import XMT.Cfg
namespace XMT.Cfg
open XMT

/-- tags for which MarshalJSON writes no `"args"` (`goto end`). -/
def jsonSimple : List Nat :=
  [tHex, tZlib, tGzip, tBase64,
   tSelLastValid, tSelRoundRobin, tSelRandom, tSelSemiRandom, tSelSemiRoundRobin, tSelSemiLastValid,
   tTCP, tTLS, tUDP, tICMP, tPipe, tTLSNoVerify, tB64T]

/-- WebC2 header loop of MarshalJSON. -/
def jWC2Hdr (c : Bytes) (i n : Nat) : Nat → Nat → Nat → Nat → M Unit
  | 0, _, _, _ => .error .diverge
  | f + 1, v, z, j =>
    if v < n ∧ z < n ∧ j < n then
      if v + 1 ≥ n then inv "wc2" else do
      let a ← rd c v
      let z' := v + 2
      let j' := a + v + 2
      let b ← rd c (v + 1)
      let v' := b + j'
      if z' = j' ∨ z' > n ∨ j' > n ∨ v' > n ∨ v' < j' ∨ j' < z' ∨ z' < i ∨ j' < i ∨ v' < i then inv "wc2"
      else do
        let _ ← slice c z' j'
        let _ ← slice c j' v'
        jWC2Hdr c i n f v' z' j'
    else pure ()

/-- DNS name loop of MarshalJSON. -/
def jDNS (c : Bytes) (i n : Nat) : Nat → Nat → Nat → M Unit
  | 0, _, _ => pure ()
  | x + 1, v, e =>
    if v < n then do
      let a ← rd c v
      let v' := v + (a + 1)
      if e + 1 > v' ∨ e + 1 = v' ∨ v' < e ∨ v' > n ∨ e > n ∨ x + 1 > n ∨ e < i ∨ v' < i then inv "dns"
      else do
        let _ ← slice c (e + 1) v'
        jDNS c i n x v' v'
    else pure ()

/-! arms of MarshalJSON's second `switch` -/

def jHost (c : Bytes) (i n : Nat) : M Unit :=
  if i + 3 ≥ n then inv "host" else do
  let l ← rd16 c (i + 1)
  let v := l + i
  if v + 3 > n ∨ v < i then inv "host" else do
  let _ ← slice c (i + 3) (v + 3)
  pure ()

def jFive (label : String) (c : Bytes) (i n : Nat) : M Unit :=
  if i + 5 ≥ n then inv label else do
  let _ ← rd c (i + 1); let _ ← rd c (i + 2); let _ ← rd c (i + 3); let _ ← rd c (i + 4)
  let _ ← rd c (i + 5)
  pure ()

def jWC2 (c : Bytes) (i n : Nat) : M Unit :=
  if i + 7 ≥ n then inv "wc2" else do
  let l1 ← rd16 c (i + 1)
  let v := l1 + i + 8
  let z := i + 8
  if v > n ∨ z > n ∨ z < i ∨ v < i then inv "wc2" else do
  let _ ← (if v > z then slice c z v else pure [])
  let l2 ← rd16 c (i + 3)
  let z := v
  let v := l2 + v
  let _ ← (if v > z then
      (if v > n ∨ z > n ∨ v < z ∨ z < i ∨ v < i then inv "wc2" else slice c z v) else pure [])
  let l3 ← rd16 c (i + 5)
  let z := v
  let v := l3 + v
  let _ ← (if v > z then
      (if v > n ∨ z > n ∨ v < z ∨ z < i ∨ v < i then inv "wc2" else slice c z v) else pure [])
  let h ← rd c (i + 7)
  if h = 0 then pure () else jWC2Hdr c i n (c.length + 1) v z 0

def jMuTLS (c : Bytes) (i n : Nat) : M Unit :=
  if i + 7 ≥ n then inv "mtls" else do
  let l1 ← rd16 c (i + 2)
  let a := l1 + i + 8
  let l2 ← rd16 c (i + 4)
  let p := l2 + a
  let l3 ← rd16 c (i + 6)
  let k := l3 + p
  if a > n ∨ p > n ∨ k > n ∨ p < a ∨ k < p ∨ a < i ∨ p < i ∨ k < i then inv "mtls" else do
  let _ ← rd c (i + 1)
  let _ ← slice c (i + 8) a
  let _ ← slice c a p
  let _ ← slice c p k
  pure ()

def jTLSxCA (c : Bytes) (i n : Nat) : M Unit :=
  if i + 3 ≥ n then inv "tls-ca" else do
  let l ← rd16 c (i + 2)
  let a := l + i + 4
  if a > n ∨ a < i then inv "tls-ca" else do
  let _ ← rd c (i + 1)
  let _ ← slice c (i + 4) a
  pure ()

def jTLSCert (c : Bytes) (i n : Nat) : M Unit :=
  if i + 6 ≥ n then inv "tls-cert" else do
  let l1 ← rd16 c (i + 2)
  let p := l1 + i + 6
  let l2 ← rd16 c (i + 4)
  let k := l2 + p
  if p > n ∨ k > n ∨ p < i ∨ k < i ∨ k < p then inv "tls-cert" else do
  let _ ← rd c (i + 1)
  let _ ← slice c (i + 6) p
  let _ ← slice c p k
  pure ()

def jXOR (c : Bytes) (i n : Nat) : M Unit :=
  if i + 3 ≥ n then inv "xor" else do
  let l ← rd16 c (i + 1)
  let k := l + i
  if k + 3 > n ∨ k < i then inv "xor" else do
  let _ ← slice c (i + 3) (k + 3)
  pure ()

def jAES (c : Bytes) (i n : Nat) : M Unit :=
  if i + 3 ≥ n then inv "aes" else do
  let a ← rd c (i + 1)
  let v := a + i + 3
  let b ← rd c (i + 2)
  let z := b + v
  if v = z ∨ i + 3 = v ∨ v > n ∨ z > n ∨ z < i ∨ v < i ∨ z < v then inv "aes" else do
  let _ ← slice c (i + 3) v
  let _ ← slice c v z
  pure ()

def jDNSArm (c : Bytes) (i n : Nat) : M Unit :=
  if i + 1 ≥ n then inv "dns" else do
  let cnt ← rd c (i + 1)
  jDNS c i n cnt (i + 2) (i + 2)

/-- MarshalJSON's second `switch` (there is no `default`: other tags write nothing). -/
def jcase (c : Bytes) (i n x : Nat) : M Unit :=
  if x = tHost then jHost c i n
  else if x = tSleep then
    if i + 8 ≥ n then inv "sleep" else do let _ ← rd64 c i; pure ()
  else if x = tKeyPin then
    if i + 4 ≥ n then inv "keypin" else do let _ ← rd32 c i; pure ()
  else if x = tKillDate then
    if i + 8 ≥ n then inv "killdate" else do let _ ← rd64 c i; pure ()
  else if x = tWorkHours then jFive "workhours" c i n
  else if x = tJitter ∨ x = tWeight ∨ x = tIP ∨ x = tTLSx ∨ x = tB64Shift ∨ x = tSelPercent ∨ x = tSelPercentRR then
    if i + 1 ≥ n then inv "" else do let _ ← rd c (i + 1); pure ()
  else if x = tWC2 then jWC2 c i n
  else if x = tMuTLS then jMuTLS c i n
  else if x = tTLSxCA then jTLSxCA c i n
  else if x = tTLSCert then jTLSCert c i n
  else if x = tXOR then jXOR c i n
  else if x = tCBK then jFive "cbk" c i n
  else if x = tAES then jAES c i n
  else if x = tDNS then jDNSArm c i n
  else pure ()

/-- `func (c Config) MarshalJSON() ([]byte, error)` — the loop
`for i, n, z := 0, 0, false; n >= 0 && n < len(c); i = n`. -/
def jloop (c : Bytes) : Nat → Nat → Nat → M Unit
  | 0, _, _ => .error .diverge
  | f + 1, i, n =>
    if n < c.length then do
      let x ← rd c i
      if x = tInvalid then inv "" else do
      let r ← next c i
      let n' := clamp c i r
      if x = tSeparator then
        if n' = c.length then pure () else jloop c f n' n'
      else if jsonSimple.contains x then jloop c f n' n'
      else do
        let _ ← rd c (n' - 1)
        jcase c i n' x
        jloop c f n' n'
    else pure ()

def jsonOutcome (c : Bytes) : M Unit := jloop c (c.length + 1) 0 0

/-- The loop of `Config.String`. -/
def sloop (c : Bytes) : Nat → Nat → M Unit
  | 0, _ => .error .diverge
  | f + 1, i =>
    if i < c.length then do
      match ← next c i with
      | none => pure ()
      | some i' =>
        if i' ≥ c.length then pure () else do
        let _ ← rd c i'
        sloop c f i'
    else pure ()

/-- `func (c Config) String() string` -/
def stringOutcome (c : Bytes) : M Unit :=
  if c.length = 0 then pure () else do
  let x ← rd c 0
  if x = 0 then pure () else sloop c (c.length + 1) 0

end XMT.Cfg
