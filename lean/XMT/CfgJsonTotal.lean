/-
  XMT.CfgJsonTotal — totality of the MarshalJSON / String outcome models (helper lemmas for C09).
-/
import XMT.CfgTotal
namespace XMT.Cfg
open XMT

theorem safe_unit_of {α} {x : M α} (hx : Safe x) : Safe (x >>= fun _ => (pure () : M Unit)) :=
  safe_bind hx (fun _ _ => by simp)

theorem jWC2Hdr_safe (c : Bytes) (i n : Nat) (hn : n ≤ c.length) :
    ∀ f v z j, 1 ≤ f → (n + 1 ≤ f + v ∨ n ≤ v) → Safe (jWC2Hdr c i n f v z j) := by
  intro f
  induction f with
  | zero => intro v z j h; omega
  | succ f ih =>
    intro v z j _ hfv
    unfold jWC2Hdr
    apply safe_ite <;> intro h1
    · apply safe_ite <;> intro h2
      · simp
      · rw [rd_ok (by omega), rd_ok (by omega)]
        simp only [ok_bind]
        apply safe_ite <;> intro h3
        · simp
        · rw [slice_ok (by omega) (by omega), slice_ok (by omega) (by omega)]
          simp only [ok_bind]
          apply ih <;> omega
    · simp

theorem jDNS_safe (c : Bytes) (i n : Nat) (hn : n ≤ c.length) :
    ∀ x v e, Safe (jDNS c i n x v e) := by
  intro x
  induction x with
  | zero => intro v e; simp [jDNS]
  | succ x ih =>
    intro v e
    unfold jDNS
    apply safe_ite <;> intro h1
    · rw [rd_ok (by omega)]
      simp only [ok_bind]
      apply safe_ite <;> intro h3
      · simp
      · rw [slice_ok (by omega) (by omega)]
        simp only [ok_bind]
        exact ih _ _
    · simp

theorem jHost_safe (c : Bytes) (i n : Nat) (hn : n ≤ c.length) : Safe (jHost c i n) := by
  unfold jHost
  apply safe_ite <;> intro h
  · simp
  · rw [rd16_ok (by omega)]; simp only [ok_bind]
    apply safe_ite <;> intro h2
    · simp
    · rw [slice_ok (by omega) (by omega)]; simp

theorem jFive_safe (l : String) (c : Bytes) (i n : Nat) (hn : n ≤ c.length) : Safe (jFive l c i n) := by
  unfold jFive
  apply safe_ite <;> intro h
  · simp
  · rw [rd_ok (by omega : i + 1 < c.length), rd_ok (by omega : i + 2 < c.length),
      rd_ok (by omega : i + 3 < c.length), rd_ok (by omega : i + 4 < c.length),
      rd_ok (by omega : i + 5 < c.length)]
    simp

theorem jWC2_safe (c : Bytes) (i n : Nat) (hn : n ≤ c.length) : Safe (jWC2 c i n) := by
  unfold jWC2
  apply safe_ite <;> intro h
  · simp
  · rw [rd16_ok (by omega), rd16_ok (by omega), rd16_ok (by omega), rd_ok (by omega)]
    simp only [ok_bind]
    apply safe_ite <;> intro h1
    · simp
    apply safe_bind
    · apply safe_ite <;> intro _
      · exact slice_safe (by omega) (by omega)
      · simp
    intro _ _
    apply safe_bind
    · apply safe_ite <;> intro _
      · apply safe_ite <;> intro _
        · simp
        · exact slice_safe (by omega) (by omega)
      · simp
    intro _ _
    apply safe_bind
    · apply safe_ite <;> intro _
      · apply safe_ite <;> intro _
        · simp
        · exact slice_safe (by omega) (by omega)
      · simp
    intro _ _
    apply safe_ite <;> intro h4
    · simp
    · apply jWC2Hdr_safe c i n hn
      · omega
      · by_cases hq : rdv16 c (i + 5) + (rdv16 c (i + 3) + (rdv16 c (i + 1) + i + 8)) ≤ n
        · left; omega
        · right; omega

theorem jMuTLS_safe (c : Bytes) (i n : Nat) (hn : n ≤ c.length) : Safe (jMuTLS c i n) := by
  unfold jMuTLS
  apply safe_ite <;> intro h
  · simp
  · rw [rd16_ok (by omega), rd16_ok (by omega), rd16_ok (by omega)]
    simp only [ok_bind]; apply safe_ite <;> intro _
    · simp
    · rw [rd_ok (by omega), slice_ok (by omega) (by omega), slice_ok (by omega) (by omega),
        slice_ok (by omega) (by omega)]
      simp

theorem jTLSxCA_safe (c : Bytes) (i n : Nat) (hn : n ≤ c.length) : Safe (jTLSxCA c i n) := by
  unfold jTLSxCA
  apply safe_ite <;> intro h
  · simp
  · rw [rd16_ok (by omega)]
    simp only [ok_bind]; apply safe_ite <;> intro _
    · simp
    · rw [rd_ok (by omega), slice_ok (by omega) (by omega)]
      simp

theorem jTLSCert_safe (c : Bytes) (i n : Nat) (hn : n ≤ c.length) : Safe (jTLSCert c i n) := by
  unfold jTLSCert
  apply safe_ite <;> intro h
  · simp
  · rw [rd16_ok (by omega), rd16_ok (by omega)]
    simp only [ok_bind]; apply safe_ite <;> intro _
    · simp
    · rw [rd_ok (by omega), slice_ok (by omega) (by omega), slice_ok (by omega) (by omega)]
      simp

theorem jXOR_safe (c : Bytes) (i n : Nat) (hn : n ≤ c.length) : Safe (jXOR c i n) := by
  unfold jXOR
  apply safe_ite <;> intro h
  · simp
  · rw [rd16_ok (by omega)]; simp only [ok_bind]
    apply safe_ite <;> intro h2
    · simp
    · rw [slice_ok (by omega) (by omega)]; simp

theorem jAES_safe (c : Bytes) (i n : Nat) (hn : n ≤ c.length) : Safe (jAES c i n) := by
  unfold jAES
  apply safe_ite <;> intro h
  · simp
  · rw [rd_ok (by omega : i + 1 < c.length), rd_ok (by omega : i + 2 < c.length)]
    simp only [ok_bind]
    apply safe_ite <;> intro _
    · simp
    · rw [slice_ok (by omega) (by omega), slice_ok (by omega) (by omega)]
      simp

theorem jDNSArm_safe (c : Bytes) (i n : Nat) (hn : n ≤ c.length) : Safe (jDNSArm c i n) := by
  unfold jDNSArm
  apply safe_ite <;> intro h
  · simp
  · rw [rd_ok (by omega)]; simp only [ok_bind]; exact jDNS_safe c i n hn _ _ _

theorem jcase_safe (c : Bytes) (i n x : Nat) (hn : n ≤ c.length) : Safe (jcase c i n x) := by
  unfold jcase
  repeat' (with_reducible apply safe_ite <;> intro _)
  all_goals first
    | (simp; done)
    | exact jHost_safe c i n hn
    | exact jFive_safe _ c i n hn
    | exact jWC2_safe c i n hn
    | exact jMuTLS_safe c i n hn
    | exact jTLSxCA_safe c i n hn
    | exact jTLSCert_safe c i n hn
    | exact jXOR_safe c i n hn
    | exact jAES_safe c i n hn
    | exact jDNSArm_safe c i n hn
    | exact safe_unit_of (rd_safe (by omega))
    | exact safe_unit_of (IsOk.safe (rd32_ok (by omega)))
    | exact safe_unit_of (IsOk.safe (rd64_ok (by omega)))

theorem jloop_safe (c : Bytes) : ∀ f i n, 1 ≤ f → (n < c.length → c.length + 1 ≤ f + n) → n ≤ i →
    (n < c.length → i < c.length) → Safe (jloop c f i n) := by
  intro f
  induction f with
  | zero => intro i n h; omega
  | succ f ih =>
    intro i n _ hf hni hi
    unfold jloop
    by_cases hlt : n < c.length
    · rw [if_pos hlt, rd_ok (hi hlt)]
      simp only [ok_bind]
      apply safe_ite <;> intro _
      · simp
      · obtain ⟨r, hr⟩ := next_ok c i (by have := hi hlt; omega)
        rw [hr]
        simp only [ok_bind]
        have hb := clamp_bounds c i r (hi hlt)
        apply safe_ite <;> intro _
        · apply safe_ite <;> intro _
          · simp
          · apply ih <;> omega
        · apply safe_ite <;> intro _
          · apply ih <;> omega
          · rw [rd_ok (by omega)]
            simp only [ok_bind]
            apply safe_bind (jcase_safe c i _ _ hb.2)
            intro _ _
            apply ih <;> omega
    · rw [if_neg hlt]; simp

/-- `MarshalJSON` never panics and always terminates. -/
theorem json_safe (c : Bytes) : Safe (jsonOutcome c) := by
  unfold jsonOutcome
  by_cases h : c.length = 0
  · unfold jloop; rw [if_neg (by omega)]; simp
  · apply jloop_safe <;> omega

theorem sloop_safe (c : Bytes) : ∀ f i, 1 ≤ f → (i < c.length → c.length + 1 ≤ f + i) →
    Safe (sloop c f i) := by
  intro f
  induction f with
  | zero => intro i h; omega
  | succ f ih =>
    intro i _ hf
    unfold sloop
    by_cases hlt : i < c.length
    · rw [if_pos hlt]
      obtain ⟨r, hr⟩ := next_ok c i (by omega)
      rw [hr]
      simp only [ok_bind]
      cases r with
      | none => simp
      | some i' =>
        simp only
        have := next_gt c i i' hlt hr
        apply safe_ite <;> intro _
        · simp
        · rw [rd_ok (by omega)]
          simp only [ok_bind]
          apply ih <;> omega
    · rw [if_neg hlt]; simp

/-- `String` never panics and always terminates. -/
theorem string_safe (c : Bytes) : Safe (stringOutcome c) := by
  unfold stringOutcome
  apply safe_ite <;> intro h
  · simp
  · rw [rd_ok (by omega)]
    simp only [ok_bind]
    apply safe_ite <;> intro _
    · simp
    · apply sloop_safe <;> omega

end XMT.Cfg
