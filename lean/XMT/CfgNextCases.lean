/-
  XMT.CfgNextCases — what `next` returns on each concrete tag (unfolding lemmas over the pure view
  `nextArmV`; the proofs unfold the regenerated tag constants).
-/
import XMT.CfgTotal
import XMT.CfgCases
namespace XMT.Cfg
open XMT

macro "tag_simp_n" : tactic =>
  `(tactic| simp [nextArmV, selTags, connTags, wrapTags, stride1, stride2, Facts.cfg_invalid, Facts.cfg_valHost, Facts.cfg_valSleep, Facts.cfg_valJitter,
    Facts.cfg_valWeight, Facts.cfg_valKeyPin, Facts.cfg_valKillDate, Facts.cfg_valWorkHours,
    Facts.cfg_SelectorLastValid, Facts.cfg_SelectorRoundRobin, Facts.cfg_SelectorRandom,
    Facts.cfg_SelectorSemiRoundRobin, Facts.cfg_SelectorSemiRandom, Facts.cfg_SelectorSemiLastValid,
    Facts.cfg_valSelectorPercent, Facts.cfg_valSelectorPercentRoundRobin, Facts.cfg_ConnectTCP,
    Facts.cfg_ConnectTLS, Facts.cfg_ConnectUDP, Facts.cfg_ConnectICMP, Facts.cfg_ConnectPipe,
    Facts.cfg_ConnectTLSNoVerify, Facts.cfg_valIP, Facts.cfg_valWC2, Facts.cfg_valTLSx, Facts.cfg_valMuTLS,
    Facts.cfg_valTLSxCA, Facts.cfg_valTLSCert, Facts.cfg_WrapHex, Facts.cfg_WrapZlib, Facts.cfg_WrapGzip,
    Facts.cfg_WrapBase64, Facts.cfg_valXOR, Facts.cfg_valCBK, Facts.cfg_valAES, Facts.cfg_TransformB64,
    Facts.cfg_valDNS, Facts.cfg_valB64Shift, Facts.cfg_Separator])

theorem nextArmV_Sleep (c : Bytes) (i : Nat) :
    nextArmV c i tSleep = (some (i + 9)) := by
  tag_simp_n

theorem nextArmV_KillDate (c : Bytes) (i : Nat) :
    nextArmV c i tKillDate = (some (i + 9)) := by
  tag_simp_n

theorem nextArmV_CBK (c : Bytes) (i : Nat) :
    nextArmV c i tCBK = (some (i + 6)) := by
  tag_simp_n

theorem nextArmV_WorkHours (c : Bytes) (i : Nat) :
    nextArmV c i tWorkHours = (some (i + 6)) := by
  tag_simp_n

theorem nextArmV_KeyPin (c : Bytes) (i : Nat) :
    nextArmV c i tKeyPin = (some (i + 5)) := by
  tag_simp_n

theorem nextArmV_IP (c : Bytes) (i : Nat) :
    nextArmV c i tIP = (some (i + 2)) := by
  tag_simp_n

theorem nextArmV_B64Shift (c : Bytes) (i : Nat) :
    nextArmV c i tB64Shift = (some (i + 2)) := by
  tag_simp_n

theorem nextArmV_Jitter (c : Bytes) (i : Nat) :
    nextArmV c i tJitter = (some (i + 2)) := by
  tag_simp_n

theorem nextArmV_Weight (c : Bytes) (i : Nat) :
    nextArmV c i tWeight = (some (i + 2)) := by
  tag_simp_n

theorem nextArmV_TLSx (c : Bytes) (i : Nat) :
    nextArmV c i tTLSx = (some (i + 2)) := by
  tag_simp_n

theorem nextArmV_Separator (c : Bytes) (i : Nat) :
    nextArmV c i tSeparator = (some (i + 1)) := by
  tag_simp_n

theorem nextArmV_WC2 (c : Bytes) (i : Nat) :
    nextArmV c i tWC2 = (if i + 7 ≥ c.length then none
    else if i + 8 + rdv16 c (i + 1) + rdv16 c (i + 3) + rdv16 c (i + 5) ≥ c.length then none
    else if rdv c (i + 7) = 0 then some (i + 8 + rdv16 c (i + 1) + rdv16 c (i + 3) + rdv16 c (i + 5))
    else wc2HdrEnd c (rdv c (i + 7)) (i + 8 + rdv16 c (i + 1) + rdv16 c (i + 3) + rdv16 c (i + 5))) := by
  tag_simp_n

theorem nextArmV_XOR (c : Bytes) (i : Nat) :
    nextArmV c i tXOR = (if i + 3 ≥ c.length then none else some (i + 3 + rdv16 c (i + 1))) := by
  tag_simp_n

theorem nextArmV_Host (c : Bytes) (i : Nat) :
    nextArmV c i tHost = (if i + 3 ≥ c.length then none else some (i + 3 + rdv16 c (i + 1))) := by
  tag_simp_n

theorem nextArmV_AES (c : Bytes) (i : Nat) :
    nextArmV c i tAES = (if i + 3 ≥ c.length then none else some (i + 3 + rdv c (i + 1) + rdv c (i + 2))) := by
  tag_simp_n

theorem nextArmV_MuTLS (c : Bytes) (i : Nat) :
    nextArmV c i tMuTLS = (if i + 7 ≥ c.length then none else some (i + 8 + rdv16 c (i + 2) + rdv16 c (i + 4) + rdv16 c (i + 6))) := by
  tag_simp_n

theorem nextArmV_TLSxCA (c : Bytes) (i : Nat) :
    nextArmV c i tTLSxCA = (if i + 3 ≥ c.length then none else some (i + 4 + rdv16 c (i + 2))) := by
  tag_simp_n

theorem nextArmV_TLSCert (c : Bytes) (i : Nat) :
    nextArmV c i tTLSCert = (if i + 6 ≥ c.length then none else some (i + 6 + rdv16 c (i + 2) + rdv16 c (i + 4))) := by
  tag_simp_n

theorem nextArmV_DNS (c : Bytes) (i : Nat) :
    nextArmV c i tDNS = (if i + 1 ≥ c.length then none else some (dnsEnd c (rdv c (i + 1)) (i + 2))) := by
  tag_simp_n

theorem nextArmV_flag (c : Bytes) (i tag : Nat)
    (h : selTags.contains tag = true ∨ connTags.contains tag = true ∨ wrapTags.contains tag = true ∨ tag = tB64T) :
    nextArmV c i tag = some (i + 1) := by
  rcases h with h | h | h | h
  · tag_simp_at h
    rcases h with rfl | rfl | rfl | rfl | rfl | rfl <;> tag_simp_n
  · tag_simp_at h
    rcases h with rfl | rfl | rfl | rfl | rfl | rfl <;> tag_simp_n
  · tag_simp_at h
    rcases h with rfl | rfl | rfl | rfl <;> tag_simp_n
  · subst h; tag_simp_n

end XMT.Cfg
