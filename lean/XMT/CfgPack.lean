/-
  XMT.CfgPack — model of the public Setting constructors of c2/cfg (setting.go, connect.go,
  wrap.go, transform.go, workhours.go), of `Pack`/`Bytes`/`Add`/`AddGroup` (config.go), and the
  *meaning* of a settings list: the profile a reader of the API documentation expects, written as
  a direct fold over the settings with no reference to the byte encoding.
-/
import XMT.Cfg
namespace XMT.Cfg
open XMT

/-- A value returned by a public constructor (or a `cBit` constant used as a Setting). A `nil`
Setting (`Host("")`, `Sleep(0)`, `Weight(0)`, `KeyPin(empty)`) is a value whose encoding is empty:
`Bytes` skips it. -/
inductive Setting where
  | host (s : Bytes)
  | sleep (t : Nat)                 -- time.Duration > 0 (0 stands for every value ≤ 0: nil)
  | jitter (n : Nat)
  | weight (w : Nat)
  | keyPin (h : Nat)                -- hash of a non-empty PublicKey
  | killDate (u : Nat)              -- uint64(t.Unix()); 0 for the zero time
  | workHours (w : WorkHours)
  | flag (tag : Nat)                -- a cBit constant: Separator, Selector*, Connect*, Wrap*, TransformB64
  | ip (p : Nat)
  | tlsEx (ver : Nat)
  | tlsExCA (ver : Nat) (ca : Bytes)
  | tlsCerts (ver : Nat) (pem key : Bytes)
  | muTLS (ver : Nat) (ca pem key : Bytes)
  | wc2 (url host agent : Bytes) (headers : List (Bytes × Bytes))  -- headers in map iteration order
  | xor (k : Bytes)
  | aes (k iv : Bytes)              -- iv as written (the caller-supplied one)
  | cbk (size a b c d : Nat)
  | dns (names : List Bytes)
  | b64Shift (s : Nat)
  deriving DecidableEq, Repr

/-- `if n > 0xFFFF { n = 0xFFFF }` -/
def cap16 (n : Nat) : Nat := if n > 0xFFFF then 0xFFFF else n
/-- `if n > 0xFF { n = 0xFF }` -/
def cap8 (n : Nat) : Nat := if n > 0xFF then 0xFF else n

/-- One WebC2 header entry: `byte(len(k)), byte(len(v)), k..., v...` with both cut to 255 bytes. -/
def encHeader (kv : Bytes × Bytes) : Bytes :=
  let k := kv.1.take 0xFF
  let v := kv.2.take 0xFF
  [byteOf k.length, byteOf v.length] ++ k ++ v

/-- One DNS name entry: `byte(len(v)), v...` with `v` cut to 255 bytes. -/
def encName (v : Bytes) : Bytes :=
  let v := v.take 0xFF
  byteOf v.length :: v

/-- `args()` of the constructed Setting, or `[byte(id())]` for a bare `cBit`; `[]` for nil. -/
def Setting.enc : Setting → Bytes
  | .host s => if s.length = 0 then [] else
      let n := cap16 s.length
      [byteOf tHost, byteOf (n >>> 8), byteOf n] ++ s.take n
  | .sleep t => if t = 0 then [] else byteOf tSleep :: be64 t
  | .jitter n => [byteOf tJitter, byteOf n]
  | .weight w => if w = 0 then [] else [byteOf tWeight, byteOf w]
  | .keyPin h => byteOf tKeyPin :: be32 h
  | .killDate u => byteOf tKillDate :: be64 u
  | .workHours w => [byteOf tWorkHours, byteOf w.days, byteOf w.startHour, byteOf w.startMin,
      byteOf w.endHour, byteOf w.endMin]
  | .flag tag => [byteOf tag]
  | .ip p => [byteOf tIP, byteOf p]
  | .tlsEx ver => [byteOf tTLSx, byteOf (ver &&& 0xFF)]
  | .tlsExCA ver ca =>
      let a := cap16 ca.length
      [byteOf tTLSxCA, byteOf (ver &&& 0xFF), byteOf (a >>> 8), byteOf a] ++ ca.take a
  | .tlsCerts ver pem key =>
      let p := cap16 pem.length
      let k := cap16 key.length
      [byteOf tTLSCert, byteOf (ver &&& 0xFF), byteOf (p >>> 8), byteOf p, byteOf (k >>> 8), byteOf k]
        ++ pem.take p ++ key.take k
  | .muTLS ver ca pem key =>
      let a := cap16 ca.length
      let p := cap16 pem.length
      let k := cap16 key.length
      [byteOf tMuTLS, byteOf (ver &&& 0xFF), byteOf (a >>> 8), byteOf a, byteOf (p >>> 8), byteOf p,
        byteOf (k >>> 8), byteOf k] ++ ca.take a ++ pem.take p ++ key.take k
  | .wc2 url0 hst0 agent0 headers =>
      let url := url0.take 0xFFFF
      let hst := hst0.take 0xFFFF
      let agent := agent0.take 0xFFFF
      [byteOf tWC2, byteOf (url.length >>> 8), byteOf url.length, byteOf (hst.length >>> 8),
        byteOf hst.length, byteOf (agent.length >>> 8), byteOf agent.length, byteOf headers.length]
        ++ url ++ hst ++ agent ++ (headers.take 0xFF).flatMap encHeader
  | .xor k =>
      let n := cap16 k.length
      [byteOf tXOR, byteOf (n >>> 8), byteOf n] ++ k.take n
  | .aes k iv =>
      -- n = min(len(k),255); v = len(iv); c = make(3+n+v); copy(c[3:], k) copies min(len(k), n+v)
      let n := cap8 k.length
      let v := iv.length
      let m := min k.length (n + v)
      [byteOf tAES, byteOf n, byteOf v] ++ k.take m ++ iv.take (n + v - m)
  | .cbk size a b c d => [byteOf tCBK, byteOf size, byteOf a, byteOf b, byteOf c, byteOf d]
  | .dns names =>
      [byteOf tDNS, if names.length > 0xFF then 0xFF else byteOf names.length]
        ++ (names.take 0xFF).flatMap encName
  | .b64Shift s => [byteOf tB64Shift, byteOf s]

/-- `func Bytes(s ...Setting) []byte` (= `Pack`). -/
def bytesOf (ss : List Setting) : Bytes := ss.flatMap Setting.enc

/-- `func (c *Config) Add(s ...Setting)` -/
def add (c : Bytes) (ss : List Setting) : Bytes := c ++ bytesOf ss

/-- `func (c *Config) AddGroup(s ...Setting)` -/
def addGroup (c : Bytes) (ss : List Setting) : Bytes :=
  if ss.length = 0 then c
  else (if c.length > 0 then c ++ [byteOf tSeparator] else c) ++ bytesOf ss

/-- `Pack(g0...)` followed by `AddGroup(g)` for every further group. -/
def packGroups : List (List Setting) → Bytes
  | [] => []
  | g :: gs => gs.foldl addGroup (bytesOf g)

/-! ### meaning -/

/-- The effect of one setting on the profile of its group (and on the group selector `z`). -/
def applySetting (pz : Profile × Nat) (s : Setting) : Profile × Nat :=
  let (p, z) := pz
  match s with
  | .host h => if h.length = 0 then (p, z) else ({ p with hosts := p.hosts ++ [h.take 0xFFFF] }, z)
  | .sleep t => if t = 0 then (p, z) else ({ p with sleep := t }, z)
  | .jitter n => ({ p with jitter := jitterOf (n % 256) }, z)
  | .weight w => if w = 0 then (p, z) else ({ p with weight := if w % 256 > 100 then 100 else w % 256 }, z)
  | .keyPin h => ({ p with keys := p.keys ++ [h] }, z)
  | .killDate u => ({ p with kill := some u }, z)
  | .workHours w => ({ p with work := some w }, z)
  | .flag tag =>
      if selTags.contains tag then (p, tag)
      else if connTags.contains tag then ({ p with conn := some (connOfTag tag) }, z)
      else if wrapTags.contains tag then ({ p with wraps := p.wraps ++ [wrapOfTag tag] }, z)
      else if tag = tB64T then ({ p with trans := some (.b64 0) }, z)
      else (p, z)
  | .ip x => ({ p with conn := some (.ip (x % 256)) }, z)
  | .tlsEx ver => ({ p with conn := some (.tlsc false (ver % 256) [] [] []) }, z)
  | .tlsExCA ver ca => ({ p with conn := some (.tlsc false (ver % 256) (ca.take 0xFFFF) [] []) }, z)
  | .tlsCerts ver pem key =>
      ({ p with conn := some (.tlsc true (ver % 256) [] (pem.take 0xFFFF) (key.take 0xFFFF)) }, z)
  | .muTLS ver ca pem key =>
      ({ p with conn := some (.tlsc true (ver % 256) (ca.take 0xFFFF) (pem.take 0xFFFF) (key.take 0xFFFF)) }, z)
  | .wc2 url hst agent headers =>
      ({ p with conn := some (.wc2 (url.take 0xFFFF) (hst.take 0xFFFF) (agent.take 0xFFFF)
          ((headers.take 0xFF).map fun kv => (kv.1.take 0xFF, kv.2.take 0xFF))) }, z)
  | .xor k => ({ p with wraps := p.wraps ++ [.xor (k.take 0xFFFF)] }, z)
  | .aes k iv => ({ p with wraps := p.wraps ++ [.aes k iv] }, z)
  | .cbk size a b c d => ({ p with wraps := p.wraps ++ [.cbk (a % 256) (b % 256) (c % 256) (d % 256) (size % 256)] }, z)
  | .dns names => ({ p with trans := some (.dns ((names.take 0xFF).map (·.take 0xFF))) }, z)
  | .b64Shift s => ({ p with trans := some (.b64 (s % 256)) }, z)

/-- Profile and selector meant by the settings of one group. -/
def meaningGroup (ss : List Setting) : Profile × Nat := ss.foldl applySetting ({}, 0)

/-- Profiles (in the order supplied) and the group selector meant by a list of groups: groups
whose settings are all nil contribute nothing; the selector is the last one named in any group. -/
def meaningGroups (gs : List (List Setting)) : List Profile × Nat :=
  gs.foldl (fun (acc : List Profile × Nat) g =>
    if (bytesOf g).length = 0 then acc
    else
      let (p, z) := meaningGroup g
      (acc.1 ++ [p], if z > 0 then z else acc.2)) ([], 0)

/-- What `Build(packGroups gs)` should return. -/
def meaning (gs : List (List Setting)) : Option Built :=
  let (e, g) := meaningGroups gs
  if e.length = 0 then none else some ⟨e, g, packGroups gs⟩

/-! ### the order of a Group's entries -/

/-- `sort.Sort(r)` with `Less(i, j) = entries[i].weight > entries[j].weight`. The standard library's
sort is not stable; what it guarantees — a permutation in which no later entry is heavier than an
earlier one — is what `sortByWeight_spec` states for this (stable) instance, and ties are compared
as a multiset by the harness. -/
def sortByWeight (es : List Profile) : List Profile :=
  es.mergeSort fun a b => decide (a.weight ≥ b.weight)

/-- what `Build` returns for `b`: the entries in descending weight order -/
def Built.sorted (b : Built) : Built := { b with entries := sortByWeight b.entries }

end XMT.Cfg
