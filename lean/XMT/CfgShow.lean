/-
  XMT.CfgShow — driver-side rendering and parsing for the C08/C09 line protocol (I/O only; no
  theorem depends on anything here).  The canonical profile dump is the one produced on the Go side
  by go/hooks/c2/cfg/zz_verif_c08.go.
-/
import XMT.CfgPack
import XMT.CfgJson
import XMT.Drv.Util
namespace XMT.Cfg.Show
open XMT XMT.Cfg XMT.Drv

def hexList (l : List Bytes) : String := ",".intercalate (l.map hexOrDash)

def showErrK : ErrK → String
  | .invalid => "invalid" | .multiConn => "multiconn" | .multiTrans => "multitrans" | .ext => "ext"

def showFault : Fault → String
  | .err l k => s!"err:{l}:{showErrK k}"
  | .panic _ => "panic"
  | .diverge => "diverge"

/-- `com.NewTLSConfig`'s MinVersion rule for a one-byte version. -/
def tlsMin (ver : Nat) : Nat := if ver > 0 ∧ ver < 0xFF then ver + 0x0301 else 0x0303

def boolStr (b : Bool) : String := if b then "true" else "false"

/-- last value wins per key (Go map assignment), then sorted by the rendered `k:v`. -/
def showHeaders (hs : List (Bytes × Bytes)) : String :=
  let dedup := hs.foldl (fun (acc : List (Bytes × Bytes)) kv => (acc.filter (·.1 ≠ kv.1)) ++ [kv]) []
  let strs := dedup.map fun kv => hexOrDash kv.1 ++ ":" ++ hexOrDash kv.2
  "/".intercalate (strs.mergeSort (fun a b => decide (a ≤ b)))

def showConn : Option Conn → String
  | none => "-"
  | some .tcp => "tcp" | some .tls => "tls" | some .udp => "udp" | some .icmp => "icmp"
  | some .pipe => "pipe" | some .tlsNoVerify => "tlsnv"
  | some (.ip p) => s!"ip({p})"
  | some (.wc2 u h a hs) => s!"wc2(url={hexOrDash u},host={hexOrDash h},agent={hexOrDash a},hdr={showHeaders hs})"
  | some (.tlsc mu ver ca pem key) =>
    let certs := if pem.length > 0 ∧ key.length > 0 then 1 else 0
    s!"tlsc(min={tlsMin ver},certs={certs},roots={boolStr (ca.length > 0)},mu={boolStr (mu && ca.length > 0)})"

def showWrap : Wrap → String
  | .hex => "hex" | .zlib => "zlib" | .gzip => "gzip" | .base64 => "b64"
  | .xor k => s!"xor({toHex k})"
  | .cbk a b c d s => s!"cbk({a}.{b}.{c}.{d}.{s})"
  | .aes k iv => s!"aes({hexOrDash k},{hexOrDash iv})"

def showWraps (ws : List Wrap) : String :=
  if ws.isEmpty then "-" else "+".intercalate (ws.map showWrap)

def showTrans : Option Trans → String
  | none => "-"
  | some (.b64 s) => s!"b64s({s})"
  | some (.dns l) => s!"dns({hexList l})"

/-- int64(u) for the kill date; u = 0 is the zero time, whose Unix() is -62135596800. -/
def showKill : Option Nat → String
  | none => "-"
  | some u => if u = 0 then "-62135596800" else if u ≥ 2 ^ 63 then toString ((u : Int) - 2 ^ 64) else toString u

def showWork : Option WorkHours → String
  | none => "-"
  | some w => s!"{w.days}.{w.startHour}.{w.startMin}.{w.endHour}.{w.endMin}"

def showProfile (p : Profile) : String :=
  s!"P\{hosts={hexList p.hosts};sleep={p.sleep};jit={p.jitter};kill={showKill p.kill};work={showWork p.work};keys={",".intercalate (p.keys.map toString)};w={p.weight};conn={showConn p.conn};wrap={showWraps p.wraps};t={showTrans p.trans}}"

/-- Canonical order of Group entries for the differential: weight descending (what `sort.Sort`
guarantees), ties by rendered text (the sort is not stable, so ties are compared as a multiset). -/
def showBuilt : Option Built → String
  | none => "nil"
  | some b =>
    match b.entries with
    | [p] => showProfile p
    | es =>
      let rs := es.map fun p => (p.weight, showProfile p)
      let sorted := rs.mergeSort (fun a b => decide (a.1 > b.1) || (a.1 == b.1 && decide (a.2 ≤ b.2)))
      s!"G\{sel={b.sel};{"|".intercalate (sorted.map (·.2))}}"

/-! ### parsing -/

def parseTable (s : String) : Option (List (Bytes × Bytes × Bytes)) :=
  if s = "." then some [] else
  (splitOn1 s ',').mapM fun t =>
    match splitOn1 t ':' with
    | [a, b, c] => do
      let a ← ofHex a; let b ← ofHex b; let c ← ofHex c
      pure (a, b, c)
    | _ => none

def tlsOf (tab : List (Bytes × Bytes × Bytes)) (ca pem key : Bytes) : Bool := tab.contains (ca, pem, key)

def parseNats (s : String) (sep : Char) : Option (List Nat) := (splitOn1 s sep).mapM natOf

def parseHexList (s : String) : Option (List Bytes) :=
  if s = "." then some [] else (splitOn1 s ',').mapM ofHex

def parseHeaders (s : String) : Option (List (Bytes × Bytes)) :=
  if s = "." then some [] else
  (splitOn1 s '/').mapM fun t =>
    match splitOn1 t '=' with
    | [k, v] => do let k ← ofHex k; let v ← ofHex v; pure (k, v)
    | _ => none

def parseSetting (tok : String) : Option Setting :=
  match splitOn1 tok ':' with
  | ["host", h] => do let b ← ofHex h; pure (.host b)
  | ["sleep", n] => do let n ← natOf n; pure (.sleep n)
  | ["jit", n] => do let n ← natOf n; pure (.jitter n)
  | ["weight", n] => do let n ← natOf n; pure (.weight n)
  | ["keypin", n] => do let n ← natOf n; pure (.keyPin n)
  | ["kill", n] => do let n ← natOf n; pure (.killDate n)
  | ["work", w] => do
    match ← parseNats w '.' with
    | [d, sh, sm, eh, em] => pure (.workHours ⟨d, sh, sm, eh, em⟩)
    | _ => none
  | ["flag", n] => do let n ← natOf n; pure (.flag n)
  | ["ip", n] => do let n ← natOf n; pure (.ip n)
  | ["tlsx", n] => do let n ← natOf n; pure (.tlsEx n)
  | ["tlsca", v, ca] => do let v ← natOf v; let ca ← ofHex ca; pure (.tlsExCA v ca)
  | ["tlscert", v, p, k] => do let v ← natOf v; let p ← ofHex p; let k ← ofHex k; pure (.tlsCerts v p k)
  | ["mtls", v, ca, p, k] => do
    let v ← natOf v; let ca ← ofHex ca; let p ← ofHex p; let k ← ofHex k; pure (.muTLS v ca p k)
  | ["wc2", u, h, a, hs] => do
    let u ← ofHex u; let h ← ofHex h; let a ← ofHex a; let hs ← parseHeaders hs; pure (.wc2 u h a hs)
  | ["xor", k] => do let k ← ofHex k; pure (.xor k)
  | ["aes", k, iv] => do let k ← ofHex k; let iv ← ofHex iv; pure (.aes k iv)
  | ["cbk", w] => do
    match ← parseNats w '.' with
    | [s, a, b, c, d] => pure (.cbk s a b c d)
    | _ => none
  | ["dns", l] => do let l ← parseHexList l; pure (.dns l)
  | ["b64s", n] => do let n ← natOf n; pure (.b64Shift n)
  | _ => none

/-- tokens with `/` as the group boundary → list of groups. -/
def parseGroups (toks : List String) : Option (List (List Setting)) :=
  let rec go (toks : List String) (cur : List Setting) (acc : List (List Setting)) : Option (List (List Setting)) :=
    match toks with
    | [] => some (acc ++ [cur])
    | "/" :: r => go r [] (acc ++ [cur])
    | t :: r => do let s ← parseSetting t; go r (cur ++ [s]) acc
  go toks [] []

def showM {α} (f : α → String) : M α → String
  | .ok a => f a
  | .error e => showFault e

/-- Ops shared by the C08 and C09 drivers. -/
def handle (args : List String) : String :=
  match args with
  | ["next", c, i] =>
    match ofHex c, natOf i with
    | some c, some i => showM (fun r => match r with | none => "-1" | some n => toString n) (next c i)
    | _, _ => "bad-op"
  | ["validate", c] =>
    match ofHex c with
    | some c => showM (fun _ => "ok") (validate c)
    | none => "bad-op"
  | ["build", c, tab] =>
    match ofHex c, parseTable tab with
    | some c, some tab => showM (fun b => match b with | none => "nil" | some _ => "ok " ++ showBuilt b) (build (tlsOf tab) c)
    | _, _ => "bad-op"
  | ["groups", c] =>
    match ofHex c with
    | some c => showM toString (groups c)
    | none => "bad-op"
  | ["group", c, p] =>
    match ofHex c, intOf p with
    | some c, some p => showM (fun r => match r with | none => "nil" | some g => hexOrDash g) (group c p)
    | _, _ => "bad-op"
  | ["json", c] =>
    match ofHex c with
    | some c => showM (fun _ => "ok") (jsonOutcome c)
    | none => "bad-op"
  | ["string", c] =>
    match ofHex c with
    | some c => showM (fun _ => "ok") (stringOutcome c)
    | none => "bad-op"
  | ["all", c, tab] =>
    match ofHex c, parseTable tab with
    | some c, some tab =>
      let v := showM (fun _ => "ok") (validate c)
      let g := showM toString (groups c)
      let j := showM (fun _ => "ok") (jsonOutcome c)
      let s := showM (fun _ => "ok") (stringOutcome c)
      let b := showM (fun b => match b with | none => "nil" | some _ => "ok " ++ showBuilt b) (build (tlsOf tab) c)
      s!"v={v} g={g} j={j} s={s} b={b}"
    | _, _ => "bad-op"
  | "pack" :: toks =>
    match parseGroups toks with
    | some gs => hexOrDash (packGroups gs)
    | none => "bad-op"
  | "meaning" :: toks =>
    match parseGroups toks with
    | some gs => showBuilt (meaning gs)
    | none => "bad-op"
  | _ => "bad-op"

end XMT.Cfg.Show
