/-
  XMT.CfgTotal — totality of the profile parser model: no entry point panics or runs out of fuel,
  on any byte string (helper lemmas for Props/C09).
-/
import XMT.Cfg
import XMT.CfgJson
namespace XMT.Cfg
open XMT

/-- Returns a value or a package error: no panic, no divergence. -/
def Safe {α} : M α → Prop
  | .ok _ => True
  | .error (.err _ _) => True
  | .error (.panic _) => False
  | .error .diverge => False

@[simp] theorem safe_ok {α} (a : α) : Safe (Except.ok a : M α) = True := rfl
@[simp] theorem safe_pure {α} (a : α) : Safe (pure a : M α) = True := rfl
@[simp] theorem safe_err {α} (l k) : Safe (Except.error (.err l k) : M α) = True := rfl
@[simp] theorem safe_inv {α} (l) : Safe (inv l : M α) = True := rfl
@[simp] theorem safe_multiConn {α} (l) : Safe (multiConn l : M α) = True := rfl
@[simp] theorem safe_multiTrans {α} (l) : Safe (multiTrans l : M α) = True := rfl
@[simp] theorem safe_extErr {α} (l) : Safe (extErr l : M α) = True := rfl

@[simp] theorem ok_bind {α β} (a : α) (f : α → M β) : (Except.ok a >>= f) = f a := rfl
@[simp] theorem pure_bind' {α β} (a : α) (f : α → M β) : ((pure a : M α) >>= f) = f a := rfl
@[simp] theorem err_bind {α β} (e : Fault) (f : α → M β) :
    ((Except.error e : M α) >>= f) = Except.error e := rfl
@[simp] theorem inv_bind {α β} (l) (f : α → M β) : ((inv l : M α) >>= f) = inv l := rfl
@[simp] theorem multiConn_bind {α β} (l) (f : α → M β) : ((multiConn l : M α) >>= f) = multiConn l := rfl
@[simp] theorem multiTrans_bind {α β} (l) (f : α → M β) : ((multiTrans l : M α) >>= f) = multiTrans l := rfl
@[simp] theorem extErr_bind {α β} (l) (f : α → M β) : ((extErr l : M α) >>= f) = extErr l := rfl

@[simp] theorem ok_map {α β} (a : α) (f : α → β) : (f <$> (Except.ok a : M α)) = Except.ok (f a) := rfl
@[simp] theorem err_map {α β} (e : Fault) (f : α → β) :
    (f <$> (Except.error e : M α)) = Except.error e := rfl

theorem safe_bind {α β} {x : M α} {f : α → M β} (hx : Safe x) (hf : ∀ a, x = .ok a → Safe (f a)) :
    Safe (x >>= f) := by
  cases x with
  | ok a => exact hf a rfl
  | error e => cases e <;> simp_all [Safe]

theorem safe_of_ok {α} {x : M α} (h : ∃ a, x = .ok a) : Safe x := by
  obtain ⟨a, rfl⟩ := h; trivial

/-- proof-side reading of a byte (never used by the model) -/
def rdv (c : Bytes) (k : Nat) : Nat := (c.getD k 0).toNat

theorem rd_ok {c : Bytes} {k : Nat} (h : k < c.length) : rd c k = .ok (rdv c k) := by
  unfold rd rdv
  simp [List.getD, List.getElem?_eq_getElem h]

theorem rdv_lt (c : Bytes) (k : Nat) : rdv c k < 256 := UInt8.toNat_lt _

/-- the value of a 16-bit field read at `k` -/
def rdv16 (c : Bytes) (k : Nat) : Nat := rdv c (k + 1) ||| (rdv c k <<< 8)

theorem rd16_ok {c : Bytes} {k : Nat} (h : k + 1 < c.length) : rd16 c k = .ok (rdv16 c k) := by
  unfold rd16
  rw [rd_ok (by omega : k < c.length), rd_ok h]; rfl

theorem rdv16_eq (c : Bytes) (k : Nat) : rdv16 c k = rdv c (k + 1) + rdv c k * 256 := by
  unfold rdv16
  have := rdv_lt c (k + 1)
  rw [or_shl_eq_add _ _ 8 (by omega)]

theorem rdv16_lt (c : Bytes) (k : Nat) : rdv16 c k < 65536 := by
  rw [rdv16_eq]; have := rdv_lt c k; have := rdv_lt c (k + 1); omega

theorem slice_ok {c : Bytes} {a b : Nat} (h1 : a ≤ b) (h2 : b ≤ c.length) :
    slice c a b = .ok ((c.drop a).take (b - a)) := by
  unfold slice; simp [h1, h2]

theorem rd64_ok {c : Bytes} {i : Nat} (h : i + 8 < c.length) : ∃ u, rd64 c i = .ok u := by
  unfold rd64
  rw [rd_ok (by omega : i + 8 < c.length), rd_ok (by omega : i + 7 < c.length),
    rd_ok (by omega : i + 6 < c.length), rd_ok (by omega : i + 5 < c.length),
    rd_ok (by omega : i + 4 < c.length), rd_ok (by omega : i + 3 < c.length),
    rd_ok (by omega : i + 2 < c.length), rd_ok (by omega : i + 1 < c.length)]
  exact ⟨_, rfl⟩

theorem rd32_ok {c : Bytes} {i : Nat} (h : i + 4 < c.length) : ∃ u, rd32 c i = .ok u := by
  unfold rd32
  rw [rd_ok (by omega : i + 4 < c.length), rd_ok (by omega : i + 3 < c.length),
    rd_ok (by omega : i + 2 < c.length), rd_ok (by omega : i + 1 < c.length)]
  exact ⟨_, rfl⟩

/-! ### next -/

theorem nextDNS_ok (c : Bytes) : ∀ x n, ∃ r, nextDNS c x n = .ok r := by
  intro x
  induction x with
  | zero => intro n; exact ⟨n, rfl⟩
  | succ x ih =>
    intro n
    unfold nextDNS
    split
    · rename_i h
      rw [rd_ok h]; simp only [ok_bind]; exact ih _
    · exact ⟨n, rfl⟩

theorem nextWC2Hdr_ok (c : Bytes) : ∀ x n, ∃ r, nextWC2Hdr c x n = .ok r := by
  intro x
  induction x with
  | zero => intro n; exact ⟨_, rfl⟩
  | succ x ih =>
    intro n
    unfold nextWC2Hdr
    split
    · split
      · exact ⟨_, rfl⟩
      · rename_i h1 h2
        rw [rd_ok (by omega), rd_ok (by omega)]; simp only [ok_bind]; exact ih _
    · exact ⟨_, rfl⟩

theorem nextWC2_ok (c : Bytes) (i : Nat) : ∃ r, nextWC2 c i = .ok r := by
  unfold nextWC2
  split
  · exact ⟨_, rfl⟩
  · rename_i h
    rw [rd_ok (by omega), rd16_ok (by omega), rd16_ok (by omega), rd16_ok (by omega)]
    simp only [ok_bind]
    split
    · exact ⟨_, rfl⟩
    · rename_i h2
      rw [rd_ok (by omega)]
      simp only [ok_bind]
      split
      · exact ⟨_, rfl⟩
      · exact nextWC2Hdr_ok _ _ _

theorem nextXorHost_ok (c : Bytes) (i : Nat) : ∃ r, nextXorHost c i = .ok r := by
  unfold nextXorHost
  split
  · exact ⟨_, rfl⟩
  · rw [rd_ok (by omega), rd16_ok (by omega)]; exact ⟨_, rfl⟩

theorem nextAES_ok (c : Bytes) (i : Nat) : ∃ r, nextAES c i = .ok r := by
  unfold nextAES
  split
  · exact ⟨_, rfl⟩
  · rw [rd_ok (by omega : i + 2 < c.length), rd_ok (by omega : i + 1 < c.length)]; exact ⟨_, rfl⟩

theorem nextMuTLS_ok (c : Bytes) (i : Nat) : ∃ r, nextMuTLS c i = .ok r := by
  unfold nextMuTLS
  split
  · exact ⟨_, rfl⟩
  · rw [rd_ok (by omega), rd16_ok (by omega), rd16_ok (by omega), rd16_ok (by omega)]; exact ⟨_, rfl⟩

theorem nextTLSxCA_ok (c : Bytes) (i : Nat) : ∃ r, nextTLSxCA c i = .ok r := by
  unfold nextTLSxCA
  split
  · exact ⟨_, rfl⟩
  · rw [rd_ok (by omega), rd16_ok (by omega)]; exact ⟨_, rfl⟩

theorem nextTLSCert_ok (c : Bytes) (i : Nat) : ∃ r, nextTLSCert c i = .ok r := by
  unfold nextTLSCert
  split
  · exact ⟨_, rfl⟩
  · rw [rd_ok (by omega), rd16_ok (by omega), rd16_ok (by omega)]; exact ⟨_, rfl⟩

theorem nextDNSArm_ok (c : Bytes) (i : Nat) : ∃ r, nextDNSArm c i = .ok r := by
  unfold nextDNSArm
  split
  · exact ⟨_, rfl⟩
  · rw [rd_ok (by omega)]
    simp only [ok_bind]
    obtain ⟨r, hr⟩ := nextDNS_ok c (rdv c (i + 1)) (i + 2)
    rw [hr]; exact ⟨_, rfl⟩

/-- returns a value -/
def IsOk {α} (x : M α) : Prop := ∃ a, x = .ok a

theorem isOk_ite {α} {p : Prop} [Decidable p] {a b : M α} (ha : p → IsOk a) (hb : ¬p → IsOk b) :
    IsOk (if p then a else b) := by
  by_cases h : p
  · rw [if_pos h]; exact ha h
  · rw [if_neg h]; exact hb h

theorem safe_ite {α} {p : Prop} [Decidable p] {a b : M α} (ha : p → Safe a) (hb : ¬p → Safe b) :
    Safe (if p then a else b) := by
  by_cases h : p
  · rw [if_pos h]; exact ha h
  · rw [if_neg h]; exact hb h

theorem isOk_pure {α} (a : α) : IsOk (pure a : M α) := ⟨a, rfl⟩
theorem IsOk.safe {α} {x : M α} (h : IsOk x) : Safe x := safe_of_ok h

theorem nextArm_ok (c : Bytes) (i t : Nat) : IsOk (nextArm c i t) := by
  unfold nextArm
  repeat' (with_reducible apply isOk_ite <;> intro _)
  all_goals first
    | exact isOk_pure _
    | exact nextWC2_ok _ _
    | exact nextXorHost_ok _ _
    | exact nextAES_ok _ _
    | exact nextMuTLS_ok _ _
    | exact nextTLSxCA_ok _ _
    | exact nextTLSCert_ok _ _
    | exact nextDNSArm_ok _ _

/-- `next` returns normally at every offset other than `len(c)` (where the source indexes `c[i]`
unguarded; no caller passes it). -/
theorem next_ok (c : Bytes) (i : Nat) (hi : i ≠ c.length) : ∃ r, next c i = .ok r := by
  unfold next
  split
  · exact ⟨_, rfl⟩
  · rw [rd_ok (by omega)]; exact nextArm_ok _ _ _

theorem clamp_bounds (c : Bytes) (i : Nat) (r : Option Nat) (hi : i < c.length) :
    i < clamp c i r ∧ clamp c i r ≤ c.length := by
  unfold clamp
  cases r with
  | none => simp; omega
  | some n =>
    simp only
    split <;> omega

/-- `stride` returns an offset strictly after `i` and inside the config. -/
theorem stride_ok (c : Bytes) (i : Nat) (hi : i < c.length) :
    ∃ n, stride c i = .ok n ∧ i < n ∧ n ≤ c.length := by
  unfold stride
  obtain ⟨r, hr⟩ := next_ok c i (by omega)
  rw [hr]
  simp only [ok_bind]
  have hb := clamp_bounds c i r hi
  rw [rd_ok (by omega)]
  exact ⟨_, rfl, hb.1, hb.2⟩

/-! ### validate -/

theorem vWC2Hdr_safe (c : Bytes) (i n : Nat) (hn : n ≤ c.length) :
    ∀ f v q j, 1 ≤ f → (n + 1 ≤ f + v ∨ n ≤ v) → Safe (vWC2Hdr c i n f v q j) := by
  intro f
  induction f with
  | zero => intro v q j h; omega
  | succ f ih =>
    intro v q j _ hfv
    unfold vWC2Hdr
    apply safe_ite <;> intro h1
    · apply safe_ite <;> intro h2
      · simp
      · rw [rd_ok (by omega), rd_ok (by omega)]
        simp only [ok_bind]
        apply safe_ite <;> intro h3
        · simp
        · apply ih <;> omega
    · simp

theorem vDNS_safe (c : Bytes) (i n : Nat) (hn : n ≤ c.length) :
    ∀ x v e, Safe (vDNS c i n x v e) := by
  intro x
  induction x with
  | zero => intro v e; simp [vDNS]
  | succ x ih =>
    intro v e
    unfold vDNS
    apply safe_ite <;> intro h1
    · rw [rd_ok (by omega)]
      simp only [ok_bind]
      apply safe_ite <;> intro h3
      · simp
      · exact ih _ _
    · simp

theorem vHost_safe (c : Bytes) (i n : Nat) (hn : n ≤ c.length) : Safe (vHost c i n) := by
  unfold vHost
  apply safe_ite <;> intro h
  · simp
  · rw [rd16_ok (by omega)]; simp only [ok_bind]; apply safe_ite <;> intro _ <;> simp

theorem vWorkHours_safe (c : Bytes) (i n : Nat) (hn : n ≤ c.length) : Safe (vWorkHours c i n) := by
  unfold vWorkHours
  apply safe_ite <;> intro h
  · simp
  · rw [rd_ok (by omega), rd_ok (by omega), rd_ok (by omega), rd_ok (by omega)]
    simp only [ok_bind]; apply safe_ite <;> intro _ <;> simp

theorem vIP_safe (c : Bytes) (i n : Nat) (hn : n ≤ c.length) : Safe (vIP c i n) := by
  unfold vIP
  apply safe_ite <;> intro h
  · simp
  · rw [rd_ok (by omega)]; simp only [ok_bind]; apply safe_ite <;> intro _ <;> simp

theorem vWC2_safe (c : Bytes) (i n : Nat) (hn : n ≤ c.length) : Safe (vWC2 c i n) := by
  unfold vWC2
  apply safe_ite <;> intro h
  · simp
  · rw [rd16_ok (by omega), rd16_ok (by omega), rd16_ok (by omega), rd_ok (by omega)]
    simp only [ok_bind]
    apply safe_ite <;> intro h1
    · simp
    apply safe_ite <;> intro h2
    · simp
    apply safe_ite <;> intro h3
    · simp
    apply safe_ite <;> intro h4
    · apply vWC2Hdr_safe c i n hn <;> omega
    · simp

theorem vMuTLS_safe (c : Bytes) (i n : Nat) (hn : n ≤ c.length) : Safe (vMuTLS c i n) := by
  unfold vMuTLS
  apply safe_ite <;> intro h
  · simp
  · rw [rd16_ok (by omega), rd16_ok (by omega), rd16_ok (by omega)]
    simp only [ok_bind]; apply safe_ite <;> intro _ <;> simp

theorem vTLSxCA_safe (c : Bytes) (i n : Nat) (hn : n ≤ c.length) : Safe (vTLSxCA c i n) := by
  unfold vTLSxCA
  apply safe_ite <;> intro h
  · simp
  · rw [rd16_ok (by omega)]
    simp only [ok_bind]; apply safe_ite <;> intro _ <;> simp

theorem vTLSCert_safe (c : Bytes) (i n : Nat) (hn : n ≤ c.length) : Safe (vTLSCert c i n) := by
  unfold vTLSCert
  apply safe_ite <;> intro h
  · simp
  · rw [rd16_ok (by omega), rd16_ok (by omega)]
    simp only [ok_bind]; apply safe_ite <;> intro _ <;> simp

theorem vXOR_safe (c : Bytes) (i n : Nat) (hn : n ≤ c.length) : Safe (vXOR c i n) := by
  unfold vXOR
  apply safe_ite <;> intro h
  · simp
  · rw [rd16_ok (by omega)]; simp only [ok_bind]; apply safe_ite <;> intro _ <;> simp

theorem vAES_safe (c : Bytes) (i n : Nat) (hn : n ≤ c.length) : Safe (vAES c i n) := by
  unfold vAES
  apply safe_ite <;> intro h
  · simp
  · rw [rd_ok (by omega : i + 1 < c.length), rd_ok (by omega : i + 2 < c.length)]
    simp only [ok_bind]
    apply safe_ite <;> intro _
    · simp
    apply safe_ite <;> intro _
    · simp
    apply safe_ite <;> intro _ <;> simp

theorem vDNSArm_safe (c : Bytes) (i n : Nat) (hn : n ≤ c.length) : Safe (vDNSArm c i n) := by
  unfold vDNSArm
  apply safe_ite <;> intro h
  · simp
  · rw [rd_ok (by omega)]; simp only [ok_bind]; exact vDNS_safe c i n hn _ _ _

theorem safe_seq {α β} {x : M α} {b : M β} (hx : Safe x) (hb : Safe b) : Safe (x >>= fun _ => b) :=
  safe_bind hx (fun _ _ => hb)

theorem vcase_safe (c : Bytes) (i n tag : Nat) (p t : Bool) (hn : n ≤ c.length) :
    Safe (vcase c i n tag p t) := by
  unfold vcase
  repeat' (with_reducible apply safe_ite <;> intro _)
  all_goals first
    | (simp; done)
    | exact safe_seq (vHost_safe c i n hn) (by simp)
    | exact safe_seq (vWorkHours_safe c i n hn) (by simp)
    | exact safe_seq (vIP_safe c i n hn) (by simp)
    | exact safe_seq (vWC2_safe c i n hn) (by simp)
    | exact safe_seq (vMuTLS_safe c i n hn) (by simp)
    | exact safe_seq (vTLSxCA_safe c i n hn) (by simp)
    | exact safe_seq (vTLSCert_safe c i n hn) (by simp)
    | exact safe_seq (vXOR_safe c i n hn) (by simp)
    | exact safe_seq (vAES_safe c i n hn) (by simp)
    | exact safe_seq (vDNSArm_safe c i n hn) (by simp)

theorem safe_error_cast {α β} {e : Fault} (h : Safe (Except.error e : M α)) :
    Safe (Except.error e : M β) := by
  cases e <;> simp_all [Safe]

theorem safe_map {α β} {x : M α} {g : α → β} (hx : Safe x) : Safe (g <$> x) := by
  cases x with
  | ok a => trivial
  | error e => exact safe_error_cast hx

theorem rd_safe {c : Bytes} {k : Nat} (h : k < c.length) : Safe (rd c k) := by rw [rd_ok h]; trivial

theorem vloop_spec (c : Bytes) : ∀ f i n p t, 1 ≤ f → (n < c.length → c.length + 1 ≤ f + n) → n ≤ i →
    (n < c.length → i < c.length) →
    Safe (vloop c f i n p t) ∧
      ∀ r, vloop c f i n p t = .ok r → (n < c.length → i < r) ∧ n ≤ r := by
  intro f
  induction f with
  | zero => intro i n p t h; omega
  | succ f ih =>
    intro i n p t _ hf hni hi
    unfold vloop
    by_cases hlt : n < c.length
    · rw [if_pos hlt]
      obtain ⟨n', hs, h1, h2⟩ := stride_ok c i (hi hlt)
      rw [hs, rd_ok (hi hlt)]
      simp only [ok_bind]
      by_cases hsep : rdv c i = tSeparator
      · rw [if_pos hsep]
        refine ⟨by simp, ?_⟩
        intro r hr
        cases hr
        omega
      · rw [if_neg hsep]
        have hv := vcase_safe c i n' (rdv c i) p t h2
        cases hvc : vcase c i n' (rdv c i) p t with
        | error e =>
          rw [hvc] at hv
          refine ⟨by simpa using safe_error_cast hv, ?_⟩
          intro r hr; cases hr
        | ok pt =>
          obtain ⟨p', t'⟩ := pt
          simp only [ok_bind]
          have := ih n' n' p' t' (by omega) (by omega) (by omega) (by omega)
          refine ⟨this.1, ?_⟩
          intro r hr
          have := this.2 r hr
          omega
    · rw [if_neg hlt]
      refine ⟨by simp, ?_⟩
      intro r hr; cases hr; omega

theorem validateAt_spec (c : Bytes) (x : Nat) (hx : x < c.length) :
    Safe (validateAt c x) ∧ ∀ r, validateAt c x = .ok r → x < r := by
  unfold validateAt
  have := vloop_spec c (c.length + 1) x 0 false false (by omega) (by omega) (by omega) (by omega)
  refine ⟨this.1, fun r hr => ?_⟩
  have := (this.2 r hr).1 (by omega)
  exact this

theorem validateLoop_safe (c : Bytes) : ∀ f i, 1 ≤ f → (i < c.length → c.length + 1 ≤ f + i) →
    Safe (validateLoop c f i) := by
  intro f
  induction f with
  | zero => intro i h; omega
  | succ f ih =>
    intro i _ hf
    unfold validateLoop
    by_cases hlt : i < c.length
    · rw [if_pos hlt]
      have hs := validateAt_spec c i hlt
      cases hv : validateAt c i with
      | error e => rw [hv] at hs; simpa using safe_error_cast hs.1
      | ok n =>
        simp only [ok_bind]
        have := hs.2 n hv
        apply ih <;> omega
    · rw [if_neg hlt]; simp

/-- `Validate` never panics and always terminates. -/
theorem validate_safe (c : Bytes) : Safe (validate c) := by
  unfold validate
  apply safe_ite <;> intro h
  · simp
  · apply validateLoop_safe <;> omega

/-! ### build -/

theorem slice_safe {c : Bytes} {a b : Nat} (h1 : a ≤ b) (h2 : b ≤ c.length) : Safe (slice c a b) := by
  rw [slice_ok h1 h2]; trivial

theorem bWC2Hdr_safe (c : Bytes) (i n : Nat) (hn : n ≤ c.length) :
    ∀ f v q j acc, 1 ≤ f → (n + 1 ≤ f + v ∨ n ≤ v) → Safe (bWC2Hdr c i n f v q j acc) := by
  intro f
  induction f with
  | zero => intro v q j acc h; omega
  | succ f ih =>
    intro v q j acc _ hfv
    unfold bWC2Hdr
    apply safe_ite <;> intro h1
    · apply safe_ite <;> intro h2
      · simp
      · rw [rd_ok (by omega), rd_ok (by omega)]
        simp only [ok_bind]
        apply safe_ite <;> intro h3
        · simp
        · rw [slice_ok (by omega) (by omega), slice_ok (by omega) (by omega)]
          simp only [ok_bind]
          apply ih <;> omega
    · simp

theorem bDNS_safe (c : Bytes) (i n : Nat) (hn : n ≤ c.length) :
    ∀ x v e acc, Safe (bDNS c i n x v e acc) := by
  intro x
  induction x with
  | zero => intro v e acc; simp [bDNS]
  | succ x ih =>
    intro v e acc
    unfold bDNS
    apply safe_ite <;> intro h1
    · rw [rd_ok (by omega)]
      simp only [ok_bind]
      apply safe_ite <;> intro h3
      · simp
      · rw [slice_ok (by omega) (by omega)]
        simp only [ok_bind]
        exact ih _ _ _
    · simp

theorem bHost_safe (c : Bytes) (i n : Nat) (hn : n ≤ c.length) : Safe (bHost c i n) := by
  unfold bHost
  apply safe_ite <;> intro h
  · simp
  · rw [rd16_ok (by omega)]; simp only [ok_bind]
    apply safe_ite <;> intro h2
    · simp
    · exact slice_safe (by omega) (by omega)

theorem bSleep_safe (c : Bytes) (i n : Nat) (hn : n ≤ c.length) : Safe (bSleep c i n) := by
  unfold bSleep
  apply safe_ite <;> intro h
  · simp
  · obtain ⟨u, hu⟩ := rd64_ok (c := c) (i := i) (by omega)
    rw [hu]; simp

theorem bWorkHours_safe (c : Bytes) (i n : Nat) (hn : n ≤ c.length) : Safe (bWorkHours c i n) := by
  unfold bWorkHours
  apply safe_ite <;> intro h
  · simp
  · rw [rd_ok (by omega : i + 2 < c.length), rd_ok (by omega : i + 3 < c.length),
      rd_ok (by omega : i + 4 < c.length), rd_ok (by omega : i + 5 < c.length)]
    simp only [ok_bind]; apply safe_ite <;> intro _
    · simp
    · rw [rd_ok (by omega)]; simp

theorem bIP_safe (c : Bytes) (i n : Nat) (hn : n ≤ c.length) : Safe (bIP c i n) := by
  unfold bIP
  apply safe_ite <;> intro h
  · simp
  · rw [rd_ok (by omega)]; simp only [ok_bind]; apply safe_ite <;> intro _ <;> simp

theorem bWC2_safe (c : Bytes) (i n : Nat) (hn : n ≤ c.length) : Safe (bWC2 c i n) := by
  unfold bWC2
  apply safe_ite <;> intro h
  · simp
  · rw [rd16_ok (by omega), rd16_ok (by omega), rd16_ok (by omega), rd_ok (by omega)]
    simp only [ok_bind]
    apply safe_ite <;> intro h1
    · simp
    apply safe_bind
    · apply safe_ite <;> intro _
      · exact slice_safe (by omega) (by omega)
      · simp
    intro url _
    apply safe_bind
    · apply safe_ite <;> intro _
      · apply safe_ite <;> intro _
        · simp
        · exact slice_safe (by omega) (by omega)
      · simp
    intro host hh
    apply safe_bind
    · apply safe_ite <;> intro _
      · apply safe_ite <;> intro _
        · simp
        · exact slice_safe (by omega) (by omega)
      · simp
    intro agent ha
    apply safe_ite <;> intro h4
    · apply safe_bind
      · apply bWC2Hdr_safe c i n hn
        · omega
        · -- the agent end offset is within n, or the loop is not entered
          by_cases hq : rdv16 c (i + 5) + (rdv16 c (i + 3) + (rdv16 c (i + 1) + i + 8)) ≤ n
          · left; omega
          · right; omega
      · intro _ _; simp
    · simp

theorem bTLSx_safe (tls) (c : Bytes) (i n : Nat) (hn : n ≤ c.length) : Safe (bTLSx tls c i n) := by
  unfold bTLSx
  apply safe_ite <;> intro h
  · simp
  · rw [rd_ok (by omega)]; simp only [ok_bind]; apply safe_ite <;> intro _ <;> simp

theorem bMuTLS_safe (tls) (c : Bytes) (i n : Nat) (hn : n ≤ c.length) : Safe (bMuTLS tls c i n) := by
  unfold bMuTLS
  apply safe_ite <;> intro h
  · simp
  · rw [rd16_ok (by omega), rd16_ok (by omega), rd16_ok (by omega)]
    simp only [ok_bind]; apply safe_ite <;> intro _
    · simp
    · rw [rd_ok (by omega), slice_ok (by omega) (by omega), slice_ok (by omega) (by omega),
        slice_ok (by omega) (by omega)]
      simp only [ok_bind]; apply safe_ite <;> intro _ <;> simp

theorem bTLSxCA_safe (tls) (c : Bytes) (i n : Nat) (hn : n ≤ c.length) : Safe (bTLSxCA tls c i n) := by
  unfold bTLSxCA
  apply safe_ite <;> intro h
  · simp
  · rw [rd16_ok (by omega)]
    simp only [ok_bind]; apply safe_ite <;> intro _
    · simp
    · rw [rd_ok (by omega), slice_ok (by omega) (by omega)]
      simp only [ok_bind]; apply safe_ite <;> intro _ <;> simp

theorem bTLSCert_safe (tls) (c : Bytes) (i n : Nat) (hn : n ≤ c.length) : Safe (bTLSCert tls c i n) := by
  unfold bTLSCert
  apply safe_ite <;> intro h
  · simp
  · rw [rd16_ok (by omega), rd16_ok (by omega)]
    simp only [ok_bind]; apply safe_ite <;> intro _
    · simp
    · rw [rd_ok (by omega), slice_ok (by omega) (by omega), slice_ok (by omega) (by omega)]
      simp only [ok_bind]; apply safe_ite <;> intro _ <;> simp

theorem bXOR_safe (c : Bytes) (i n : Nat) (hn : n ≤ c.length) : Safe (bXOR c i n) := by
  unfold bXOR
  apply safe_ite <;> intro h
  · simp
  · rw [rd16_ok (by omega)]; simp only [ok_bind]
    apply safe_ite <;> intro h2
    · simp
    · exact slice_safe (by omega) (by omega)

theorem bCBK_safe (c : Bytes) (i n : Nat) (hn : n ≤ c.length) : Safe (bCBK c i n) := by
  unfold bCBK
  apply safe_ite <;> intro h
  · simp
  · rw [rd_ok (by omega : i + 2 < c.length), rd_ok (by omega : i + 3 < c.length),
      rd_ok (by omega : i + 4 < c.length), rd_ok (by omega : i + 5 < c.length),
      rd_ok (by omega : i + 1 < c.length)]
    simp

theorem bAES_safe (c : Bytes) (i n : Nat) (hn : n ≤ c.length) : Safe (bAES c i n) := by
  unfold bAES
  apply safe_ite <;> intro h
  · simp
  · rw [rd_ok (by omega : i + 1 < c.length), rd_ok (by omega : i + 2 < c.length)]
    simp only [ok_bind]
    apply safe_ite <;> intro _
    · simp
    · rw [slice_ok (by omega) (by omega)]
      simp only [ok_bind]
      apply safe_ite <;> intro _
      · simp
      · rw [slice_ok (by omega) (by omega)]
        simp only [ok_bind]
        apply safe_ite <;> intro _ <;> simp

theorem bDNSArm_safe (c : Bytes) (i n : Nat) (hn : n ≤ c.length) : Safe (bDNSArm c i n) := by
  unfold bDNSArm
  apply safe_ite <;> intro h
  · simp
  · rw [rd_ok (by omega)]; simp only [ok_bind]
    exact safe_map (bDNS_safe c i n hn _ _ _ _)


theorem bcase_safe (tls) (c : Bytes) (i n tag : Nat) (p : Profile) (z : Nat) (hn : n ≤ c.length) :
    Safe (bcase tls c i n tag p z) := by
  unfold bcase
  repeat' (with_reducible apply safe_ite <;> intro _)
  all_goals first
    | (simp; done)
    | exact safe_map (bHost_safe c i n hn)
    | exact safe_map (bSleep_safe c i n hn)
    | exact safe_map (bWorkHours_safe c i n hn)
    | exact safe_map (bIP_safe c i n hn)
    | exact safe_map (bWC2_safe c i n hn)
    | exact safe_map (bTLSx_safe tls c i n hn)
    | exact safe_map (bMuTLS_safe tls c i n hn)
    | exact safe_map (bTLSxCA_safe tls c i n hn)
    | exact safe_map (bTLSCert_safe tls c i n hn)
    | exact safe_map (bXOR_safe c i n hn)
    | exact safe_map (bCBK_safe c i n hn)
    | exact safe_map (bAES_safe c i n hn)
    | exact safe_map (bDNSArm_safe c i n hn)
    | exact safe_map (rd_safe (by omega))
    | exact safe_map (IsOk.safe (rd32_ok (by omega)))
    | exact safe_map (IsOk.safe (rd64_ok (by omega)))

theorem bloop_spec (tls) (c : Bytes) : ∀ f i n p z, 1 ≤ f → (n < c.length → c.length + 1 ≤ f + n) → n ≤ i →
    (n < c.length → i < c.length) →
    Safe (bloop tls c f i n p z) ∧
      ∀ r, bloop tls c f i n p z = .ok r → (n < c.length → i < r.2.1) ∧ n ≤ r.2.1 := by
  intro f
  induction f with
  | zero => intro i n p z h; omega
  | succ f ih =>
    intro i n p z _ hf hni hi
    unfold bloop
    by_cases hlt : n < c.length
    · rw [if_pos hlt]
      obtain ⟨n', hs, h1, h2⟩ := stride_ok c i (hi hlt)
      rw [hs, rd_ok (hi hlt)]
      simp only [ok_bind]
      by_cases hsep : rdv c i = tSeparator
      · rw [if_pos hsep]
        refine ⟨by simp, ?_⟩
        intro r hr
        cases hr
        simp only; omega
      · rw [if_neg hsep]
        have hv := bcase_safe tls c i n' (rdv c i) p z h2
        cases hvc : bcase tls c i n' (rdv c i) p z with
        | error e =>
          rw [hvc] at hv
          refine ⟨by simpa using safe_error_cast hv, ?_⟩
          intro r hr; cases hr
        | ok pz =>
          obtain ⟨p', z'⟩ := pz
          simp only [ok_bind]
          have := ih n' n' p' z' (by omega) (by omega) (by omega) (by omega)
          refine ⟨this.1, ?_⟩
          intro r hr
          have := this.2 r hr
          omega
    · rw [if_neg hlt]
      refine ⟨by simp, ?_⟩
      intro r hr; cases hr; simp only; omega

theorem buildAt_spec (tls) (c : Bytes) (x : Nat) (hx : x < c.length) :
    Safe (buildAt tls c x) ∧ ∀ r, buildAt tls c x = .ok r → x < r.2.1 := by
  unfold buildAt
  have := bloop_spec tls c (c.length + 1) x 0 {} 0 (by omega) (by omega) (by omega) (by omega)
  refine ⟨this.1, fun r hr => ?_⟩
  exact (this.2 r hr).1 (by omega)

theorem buildLoop_safe (tls) (c : Bytes) : ∀ f i e g, 1 ≤ f → (i < c.length → c.length + 1 ≤ f + i) →
    Safe (buildLoop tls c f i e g) := by
  intro f
  induction f with
  | zero => intro i e g h; omega
  | succ f ih =>
    intro i e g _ hf
    unfold buildLoop
    by_cases hlt : i < c.length
    · rw [if_pos hlt]
      have hs := buildAt_spec tls c i hlt
      cases hv : buildAt tls c i with
      | error e => rw [hv] at hs; simpa using safe_error_cast hs.1
      | ok r =>
        obtain ⟨v, n, s⟩ := r
        simp only [ok_bind]
        have := hs.2 _ hv
        simp only at this
        rw [rd_ok hlt]
        simp only [ok_bind]
        apply safe_ite <;> intro _ <;> apply ih <;> omega
    · rw [if_neg hlt]; simp

/-- `Build` never panics and always terminates, whatever `com.NewTLSConfig` says. -/
theorem build_safe (tls) (c : Bytes) : Safe (build tls c) := by
  unfold build
  apply safe_ite <;> intro h
  · simp
  · apply safe_bind
    · apply buildLoop_safe <;> omega
    · intro eg _
      obtain ⟨e, g⟩ := eg
      simp only
      apply safe_ite <;> intro _ <;> simp

/-! ### pure view of `next` (proof side): the value `next` returns, as a function of the bytes -/

def dnsEnd (c : Bytes) : Nat → Nat → Nat
  | 0, n => n
  | x + 1, n => if n < c.length then dnsEnd c x (n + (rdv c n + 1)) else n

theorem nextDNS_eq (c : Bytes) : ∀ x n, nextDNS c x n = .ok (dnsEnd c x n) := by
  intro x
  induction x with
  | zero => intro n; rfl
  | succ x ih =>
    intro n
    unfold nextDNS dnsEnd
    split
    · rename_i h; rw [rd_ok h]; simp only [ok_bind]; exact ih _
    · rfl

theorem dnsEnd_ge (c : Bytes) : ∀ x n, n ≤ dnsEnd c x n := by
  intro x
  induction x with
  | zero => intro n; simp [dnsEnd]
  | succ x ih =>
    intro n
    unfold dnsEnd
    split
    · have := ih (n + (rdv c n + 1)); omega
    · omega

def wc2HdrEnd (c : Bytes) : Nat → Nat → Option Nat
  | 0, n => some n
  | x + 1, n =>
    if n < c.length ∧ n > 0 then
      if n + 1 ≥ c.length then none else wc2HdrEnd c x (n + (rdv c n + rdv c (n + 1) + 2))
    else some n

theorem nextWC2Hdr_eq (c : Bytes) : ∀ x n, nextWC2Hdr c x n = .ok (wc2HdrEnd c x n) := by
  intro x
  induction x with
  | zero => intro n; rfl
  | succ x ih =>
    intro n
    unfold nextWC2Hdr wc2HdrEnd
    split
    · split
      · rfl
      · rw [rd_ok (by omega), rd_ok (by omega)]; simp only [ok_bind]; exact ih _
    · rfl

theorem wc2HdrEnd_ge (c : Bytes) : ∀ x n r, wc2HdrEnd c x n = some r → n ≤ r := by
  intro x
  induction x with
  | zero => intro n r h; simp [wc2HdrEnd] at h; omega
  | succ x ih =>
    intro n r h
    unfold wc2HdrEnd at h
    split at h
    · split at h
      · cases h
      · have := ih _ _ h; omega
    · cases h; omega

/-- what `next c i` returns for `i < len(c)`, on the tag `t = c[i]` -/
def nextArmV (c : Bytes) (i t : Nat) : Option Nat :=
  if stride1.contains t then some (i + 1)
  else if stride2.contains t then some (i + 2)
  else if t = tCBK ∨ t = tWorkHours then some (i + 6)
  else if t = tSleep ∨ t = tKillDate then some (i + 9)
  else if t = tKeyPin then some (i + 5)
  else if t = tWC2 then
    if i + 7 ≥ c.length then none
    else if i + 8 + rdv16 c (i + 1) + rdv16 c (i + 3) + rdv16 c (i + 5) ≥ c.length then none
    else if rdv c (i + 7) = 0 then some (i + 8 + rdv16 c (i + 1) + rdv16 c (i + 3) + rdv16 c (i + 5))
    else wc2HdrEnd c (rdv c (i + 7)) (i + 8 + rdv16 c (i + 1) + rdv16 c (i + 3) + rdv16 c (i + 5))
  else if t = tXOR ∨ t = tHost then
    if i + 3 ≥ c.length then none else some (i + 3 + rdv16 c (i + 1))
  else if t = tAES then
    if i + 3 ≥ c.length then none else some (i + 3 + rdv c (i + 1) + rdv c (i + 2))
  else if t = tMuTLS then
    if i + 7 ≥ c.length then none
    else some (i + 8 + rdv16 c (i + 2) + rdv16 c (i + 4) + rdv16 c (i + 6))
  else if t = tTLSxCA then
    if i + 3 ≥ c.length then none else some (i + 4 + rdv16 c (i + 2))
  else if t = tTLSCert then
    if i + 6 ≥ c.length then none else some (i + 6 + rdv16 c (i + 2) + rdv16 c (i + 4))
  else if t = tDNS then
    if i + 1 ≥ c.length then none else some (dnsEnd c (rdv c (i + 1)) (i + 2))
  else none

theorem nextWC2_eq (c : Bytes) (i : Nat) : nextWC2 c i = .ok
    (if i + 7 ≥ c.length then none
    else if i + 8 + rdv16 c (i + 1) + rdv16 c (i + 3) + rdv16 c (i + 5) ≥ c.length then none
    else if rdv c (i + 7) = 0 then some (i + 8 + rdv16 c (i + 1) + rdv16 c (i + 3) + rdv16 c (i + 5))
    else wc2HdrEnd c (rdv c (i + 7)) (i + 8 + rdv16 c (i + 1) + rdv16 c (i + 3) + rdv16 c (i + 5))) := by
  unfold nextWC2
  split
  · rfl
  · rw [rd_ok (by omega), rd16_ok (by omega), rd16_ok (by omega), rd16_ok (by omega)]
    simp only [ok_bind]
    split
    · rfl
    · rw [rd_ok (by omega)]
      simp only [ok_bind]
      split
      · rfl
      · exact nextWC2Hdr_eq _ _ _

theorem nextXorHost_eq (c : Bytes) (i : Nat) : nextXorHost c i = .ok
    (if i + 3 ≥ c.length then none else some (i + 3 + rdv16 c (i + 1))) := by
  unfold nextXorHost
  split
  · rfl
  · rw [rd_ok (by omega), rd16_ok (by omega)]; rfl

theorem nextAES_eq (c : Bytes) (i : Nat) : nextAES c i = .ok
    (if i + 3 ≥ c.length then none else some (i + 3 + rdv c (i + 1) + rdv c (i + 2))) := by
  unfold nextAES
  split
  · rfl
  · rw [rd_ok (by omega : i + 2 < c.length), rd_ok (by omega : i + 1 < c.length)]; rfl

theorem nextMuTLS_eq (c : Bytes) (i : Nat) : nextMuTLS c i = .ok
    (if i + 7 ≥ c.length then none
    else some (i + 8 + rdv16 c (i + 2) + rdv16 c (i + 4) + rdv16 c (i + 6))) := by
  unfold nextMuTLS
  split
  · rfl
  · rw [rd_ok (by omega), rd16_ok (by omega), rd16_ok (by omega), rd16_ok (by omega)]; rfl

theorem nextTLSxCA_eq (c : Bytes) (i : Nat) : nextTLSxCA c i = .ok
    (if i + 3 ≥ c.length then none else some (i + 4 + rdv16 c (i + 2))) := by
  unfold nextTLSxCA
  split
  · rfl
  · rw [rd_ok (by omega), rd16_ok (by omega)]; rfl

theorem nextTLSCert_eq (c : Bytes) (i : Nat) : nextTLSCert c i = .ok
    (if i + 6 ≥ c.length then none else some (i + 6 + rdv16 c (i + 2) + rdv16 c (i + 4))) := by
  unfold nextTLSCert
  split
  · rfl
  · rw [rd_ok (by omega), rd16_ok (by omega), rd16_ok (by omega)]; rfl

theorem nextDNSArm_eq (c : Bytes) (i : Nat) : nextDNSArm c i = .ok
    (if i + 1 ≥ c.length then none else some (dnsEnd c (rdv c (i + 1)) (i + 2))) := by
  unfold nextDNSArm
  split
  · rfl
  · rw [rd_ok (by omega)]
    simp only [ok_bind]
    rw [nextDNS_eq]; rfl

theorem ite_ok {α} {p : Prop} [Decidable p] {a b : M α} {x y : α} (ha : a = .ok x) (hb : b = .ok y) :
    (if p then a else b) = .ok (if p then x else y) := by
  split <;> assumption

theorem nextArm_eq (c : Bytes) (i t : Nat) : nextArm c i t = .ok (nextArmV c i t) := by
  unfold nextArm nextArmV
  repeat' (with_reducible apply ite_ok)
  all_goals first
    | rfl
    | exact nextWC2_eq _ _
    | exact nextXorHost_eq _ _
    | exact nextAES_eq _ _
    | exact nextMuTLS_eq _ _
    | exact nextTLSxCA_eq _ _
    | exact nextTLSCert_eq _ _
    | exact nextDNSArm_eq _ _

/-- what `next c i` returns for `i < len(c)` -/
def nextV (c : Bytes) (i : Nat) : Option Nat := nextArmV c i (rdv c i)

theorem next_eq (c : Bytes) (i : Nat) (hi : i < c.length) : next c i = .ok (nextV c i) := by
  unfold next
  rw [if_neg (by omega), rd_ok hi]
  exact nextArm_eq _ _ _

theorem ite_some_gt {p : Prop} [Decidable p] {a b : Option Nat} {i : Nat}
    (ha : ∀ r, a = some r → i < r) (hb : ∀ r, b = some r → i < r) :
    ∀ r, (if p then a else b) = some r → i < r := by
  split <;> assumption

theorem nextArmV_gt (c : Bytes) (i t : Nat) : ∀ r, nextArmV c i t = some r → i < r := by
  unfold nextArmV
  repeat' (with_reducible apply ite_some_gt)
  all_goals first
    | (intro r h; cases h; omega)
    | (intro r h; cases h; done)
    | (intro r h; have := wc2HdrEnd_ge _ _ _ _ h; omega)
    | (intro r h; cases h; have := dnsEnd_ge c (rdv c (i + 1)) (i + 2); omega)

theorem next_gt (c : Bytes) (i r : Nat) (hi : i < c.length) (h : next c i = .ok (some r)) : i < r := by
  rw [next_eq c i hi] at h
  have h' : nextV c i = some r := by injection h
  exact nextArmV_gt c i _ r h'

/-! ### Groups / Group -/

theorem groupsLoop_safe (c : Bytes) : ∀ f i n, 1 ≤ f → (i < c.length → c.length + 1 ≤ f + i) →
    Safe (groupsLoop c f i n) := by
  intro f
  induction f with
  | zero => intro i n h; omega
  | succ f ih =>
    intro i n _ hf
    unfold groupsLoop
    by_cases hlt : i < c.length
    · rw [if_pos hlt, rd_ok hlt]
      simp only [ok_bind]
      obtain ⟨r, hr⟩ := next_ok c i (by omega)
      rw [hr]
      simp only [ok_bind]
      cases r with
      | none => simp
      | some i' =>
        simp only
        have := next_gt c i i' hlt hr
        apply ih <;> omega
    · rw [if_neg hlt]; simp

/-- `Groups` never panics and always terminates. -/
theorem groups_safe (c : Bytes) : Safe (groups c) := by
  unfold groups
  apply safe_ite <;> intro h
  · simp
  · exact safe_map (groupsLoop_safe c _ _ _ (by omega) (by omega))

theorem groupLoop_safe (c : Bytes) (p : Int) : ∀ f e l s, 1 ≤ f → (e < c.length → c.length + 1 ≤ f + e) →
    s ≤ e → Safe (groupLoop c p f e l s) := by
  intro f
  induction f with
  | zero => intro e l s h; omega
  | succ f ih =>
    intro e l s _ hf hse
    unfold groupLoop
    by_cases hlt : e < c.length
    · rw [if_pos hlt, rd_ok hlt]
      simp only [ok_bind]
      obtain ⟨r, hr⟩ := next_ok c e (by omega)
      have hstep : ∀ l' s', s' ≤ e + 1 → Safe (do
          match ← next c e with
          | none => pure (none, l', s')
          | some e' => groupLoop c p f e' l' s' : M (Option Bytes × Nat × Nat)) := by
        intro l' s' hs'
        rw [hr]
        simp only [ok_bind]
        cases r with
        | none => simp
        | some e' =>
          simp only
          have := next_gt c e e' hlt hr
          apply ih <;> omega
      apply safe_ite <;> intro _
      · apply safe_ite <;> intro _
        · exact hstep _ _ (by omega)
        · apply safe_ite <;> intro _
          · exact safe_map (slice_safe (by omega) (by omega))
          · apply safe_ite <;> intro _
            · exact safe_map (slice_safe (by omega) (by omega))
            · exact hstep _ _ (by omega)
      · exact hstep _ _ (by omega)
    · rw [if_neg hlt]; simp

theorem groupLoop_s_le (c : Bytes) (p : Int) : ∀ f e l s r, s ≤ c.length → e ≤ c.length + 1 →
    groupLoop c p f e l s = .ok r → r.2.2 ≤ c.length := by
  intro f
  induction f with
  | zero => intro e l s r _ _ h; cases h
  | succ f ih =>
    intro e l s r hs he h
    unfold groupLoop at h
    by_cases hlt : e < c.length
    · rw [if_pos hlt, rd_ok hlt] at h
      simp only [ok_bind] at h
      obtain ⟨nx, hnx⟩ := next_ok c e (by omega)
      rw [hnx] at h
      simp only [ok_bind] at h
      have hstep : ∀ l' s', s' ≤ c.length → (match nx with
          | none => (pure (none, l', s') : M (Option Bytes × Nat × Nat))
          | some e' => groupLoop c p f e' l' s') = .ok r → r.2.2 ≤ c.length := by
        intro l' s' hs' hh
        cases nx with
        | none => simp only at hh; cases hh; exact hs'
        | some e' =>
          simp only at hh
          by_cases he' : e' ≤ c.length + 1
          · exact ih _ _ _ _ hs' he' hh
          · -- beyond the end: the loop exits at once
            cases f with
            | zero => cases hh
            | succ f =>
              unfold groupLoop at hh
              rw [if_neg (by omega)] at hh
              cases hh; exact hs'
      split at h
      · split at h
        · exact hstep _ _ hs h
        · split at h
          · cases hsl : slice c 0 e with
            | error x => rw [hsl] at h; cases h
            | ok g => rw [hsl] at h; cases h; exact hs
          · split at h
            · cases hsl : slice c s e with
              | error x => rw [hsl] at h; cases h
              | ok g => rw [hsl] at h; cases h; exact hs
            · exact hstep _ _ (by omega) h
      · exact hstep _ _ hs h
    · rw [if_neg hlt] at h
      cases h; exact hs

/-- `Group` never panics and always terminates, for every position argument. -/
theorem group_safe (c : Bytes) (p : Int) : Safe (group c p) := by
  unfold group
  apply safe_ite <;> intro h
  · simp
  · apply safe_ite <;> intro _
    · simp
    · have hl := groupLoop_safe c p (c.length + 1) 0 0 0 (by omega) (by omega) (by omega)
      cases hg : groupLoop c p (c.length + 1) 0 0 0 with
      | error e => rw [hg] at hl; simpa using safe_error_cast hl
      | ok r =>
        obtain ⟨g, l, s⟩ := r
        simp only [ok_bind]
        have hs := groupLoop_s_le c p _ _ _ _ _ (by omega) (by omega) hg
        simp only at hs
        cases g with
        | some g => simp
        | none =>
          simp only
          apply safe_ite <;> intro _
          · exact safe_map (slice_safe hs (by omega))
          · apply safe_ite <;> intro _ <;> simp

end XMT.Cfg
