/-
  XMT.Chunk — model of `data.Chunk` (data/chunk.go, chunk_base.go, chunk_writer.go, chunk_reader.go).

  The state carries the *backing array* (stale contents included), the slice length, the read
  cursor, the `Limit` field and whether `buf == nil`, so that growth / slide / reslice are the code's
  own case analysis.  The only thing not determined by the source is the capacity Go's allocator
  returns for `append([]byte(nil), make([]byte, c)...)`: it is a parameter `cf : Nat → Nat` (the
  driver instantiates it with the size-class table probed from the running Go toolchain,
  `Facts.sizeClasses`); the theorems hold for every `cf` and it is clamped from below by what
  `append` guarantees.
-/
import XMT.Base
import XMT.Codec
import XMT.Generated.Facts

namespace XMT.Chunk
open XMT

inductive Err | limit | tooLarge | invalidIndex | invalidType | eof | unexpectedEOF | shortWrite | whence
  deriving DecidableEq, Repr

structure Chunk where
  arr : Bytes          -- backing array; `arr.length = cap(c.buf)`
  len : Nat            -- `len(c.buf)`
  rpos : Nat
  limit : Int          -- `c.Limit`
  isNil : Bool         -- `c.buf == nil`
  deriving DecidableEq, Repr

def empty (limit : Int := 0) : Chunk := { arr := [], len := 0, rpos := 0, limit := limit, isNil := true }

/-- `NewChunk(b)` for a freshly allocated `b` (cap = len). -/
def ofBytes (b : Bytes) : Chunk := { arr := b, len := b.length, rpos := 0, limit := 0, isNil := false }

def zeros (n : Nat) : Bytes := List.replicate n 0

def maxInt : Nat := 2 ^ 63 - 1

namespace Chunk

def cap (c : Chunk) : Nat := c.arr.length
/-- `c.buf` -/
def view (c : Chunk) : Bytes := c.arr.take c.len
/-- the unread bytes `c.buf[c.rpos:]` -/
def unread (c : Chunk) : Bytes := (c.arr.take c.len).drop c.rpos

def size (c : Chunk) : Nat := c.len
def isEmpty (c : Chunk) : Bool := c.len ≤ c.rpos
def remaining (c : Chunk) : Nat := if c.isEmpty then 0 else c.len - c.rpos
def space (c : Chunk) : Int :=
  if c.limit ≤ 0 then -1 else if c.limit - c.len > 0 then c.limit - c.len else 0
def available (c : Chunk) (n : Nat) : Bool := c.limit ≤ 0 || c.limit - c.len > n

def reset (c : Chunk) : Chunk := { c with rpos := 0, len := 0 }
def clear (c : Chunk) : Chunk := { c with rpos := 0, len := 0, arr := [], isNil := true }

/-- `reslice(n)` -/
def reslice (c : Chunk) (n : Nat) : Option (Chunk × Nat) :=
  if (n : Int) ≤ (c.cap : Int) - c.len then
    if c.limit > 0 then
      if (c.len : Int) ≥ c.limit then none
      else
        let n' : Nat := if (c.len : Int) + n ≥ c.limit then (c.limit - c.len).toNat else n
        some ({ c with len := c.len + n' }, c.len)
    else some ({ c with len := c.len + n }, c.len)
  else none

section
variable (cf : Nat → Nat)

/-- first statement of `grow`: an empty but advanced buffer is rewound -/
def growPre (c : Chunk) : Chunk :=
  if c.len - c.rpos = 0 ∧ c.rpos ≠ 0 then { c with rpos := 0, len := 0 } else c

/-- the clamp of the request under a limit (`x` = unread bytes) -/
def growN (c : Chunk) (x n : Nat) : Nat :=
  if c.limit > 0 ∧ (n : Int) > c.limit - x then (c.limit - x).toNat else n

/-- the allocation part of `grow` (after `reslice` failed); `cf` = capacity the allocator gives on
the reallocation path. -/
def growAlloc (c : Chunk) (x n : Nat) : Chunk × Except Err Nat :=
  if c.isNil ∧ n ≤ 64 then ({ c with arr := zeros 64, len := n, isNil := false }, .ok 0)
  else
    let m := c.cap
    if (n : Int) ≤ ((m / 2 : Nat) : Int) - x then
      -- slide: copy(c.buf, c.buf[c.rpos:])
      ({ c with arr := c.unread ++ c.arr.drop x, rpos := 0, len := x + n }, .ok x)
    else if c.limit > 0 ∧ ((m : Int) > c.limit + n ∨ ((x + n : Nat) : Int) > c.limit) then (c, .error .limit)
    else if (m : Int) > (maxInt : Int) - m - n then (c, .error .tooLarge)
    else if c.rpos + n > Facts.maxSlice then (c, .error .tooLarge)
    else
      let need := max (x + (c.rpos + n)) (2 * (m - c.rpos))
      let capNew := max (cf need) need
      ({ c with arr := c.unread ++ zeros (capNew - x), rpos := 0, len := x + n, isNil := false }, .ok x)

/-- `grow(n)` -/
def grow (c : Chunk) (n : Nat) : Chunk × Except Err Nat :=
  let c := growPre c
  let x := c.len - c.rpos
  if c.limit > 0 ∧ (x : Int) ≥ c.limit then (c, .error .limit) else
  let n := growN c x n
  match reslice c n with
  | some (c', i) => (c', .ok i)
  | none => growAlloc cf c x n

def quickSlice (c : Chunk) (n : Nat) : Chunk × Except Err Nat :=
  match reslice c n with
  | some (c', i) => (c', .ok i)
  | none => grow cf c n

/-- overwrite `arr[i ..]` with `b` (the caller guarantees it fits inside the slice) -/
def poke (c : Chunk) (i : Nat) (b : Bytes) : Chunk :=
  { c with arr := c.arr.take i ++ b ++ c.arr.drop (i + b.length) }

/-- `Write(b)` : (chunk, n, err) -/
def write (c : Chunk) (b : Bytes) : Chunk × Nat × Option Err :=
  match quickSlice cf c b.length with
  | (c, .error e) => (c, 0, some e)
  | (c, .ok m) =>
    let n := min (c.len - m) b.length
    let c := poke c m (b.take n)
    if n < b.length ∧ c.limit > 0 ∧ (c.len : Int) ≥ c.limit then (c, n, some .limit) else (c, n, none)

/-- `Grow(n)` -/
def growOp (c : Chunk) (n : Int) : Chunk × Option Err :=
  if n ≤ 0 then (c, some .invalidIndex)
  else match grow cf c n.toNat with
    | (c, .error e) => (c, some e)
    | (c, .ok m) => ({ c with len := m }, none)       -- c.buf = c.buf[:m]

/-- `Truncate(n)` -/
def truncate (c : Chunk) (n : Int) : Chunk × Option Err :=
  if n = 0 then (c.reset, none)
  else if n < 0 ∨ n > (c.len : Int) - c.rpos then (c, some .invalidIndex)
  else ({ c with len := c.rpos + n.toNat }, none)

/-- `Read(b)` with `len(b) = k` : (chunk, bytes read, err) -/
def read (c : Chunk) (k : Nat) : Chunk × Bytes × Option Err :=
  if c.isEmpty then
    (c.reset, [], if k = 0 then none else some .eof)
  else
    let got := c.unread.take k
    ({ c with rpos := c.rpos + got.length }, got, none)

/-- the absolute offset `Seek(o, whence)` aims at -/
def seekTarget (c : Chunk) (o : Int) (w : Nat) : Int :=
  if w = 1 then o + c.rpos else if w = 2 then o + c.len else o

/-- `Seek(o, whence)` -/
def seek (c : Chunk) (o : Int) (w : Nat) : Chunk × Int × Option Err :=
  if w > 2 then (c, 0, some .whence)
  else if w = 0 ∧ o < 0 then (c, 0, some .invalidIndex)
  else if seekTarget c o w < 0 ∨ seekTarget c o w > c.len then (c, 0, some .invalidIndex)
  else ({ c with rpos := (seekTarget c o w).toNat }, seekTarget c o w, none)

/-- `checkWriteSize(n)`: `none` = the `-1` return -/
def checkWriteSize (c : Chunk) (n : Nat) : Chunk × Except Err Nat :=
  if c.limit > 0 ∧ ¬ c.available n then (c, .error .limit)
  else match quickSlice cf c n with
    | (c, .error e) => (c, .error e)
    | (c, .ok i) => if c.limit ≤ 0 ∧ c.len < i + n then (c, .error .shortWrite) else (c, .ok i)

/-- fixed-width typed writes (`WriteUint8/16/32/64`, `WriteBool`): `b` is the big-endian image -/
def writeFixed (c : Chunk) (b : Bytes) : Chunk × Option Err :=
  match checkWriteSize cf c b.length with
  | (c, .error e) => (c, some e)
  | (c, .ok i) => (poke c i b, none)

/-- `WriteBytes(b)` (with the roll-back of the reserved tag byte when the body does not fit) -/
def writeBytes (c : Chunk) (b : Bytes) : Chunk × Option Err :=
  match checkWriteSize cf c 1 with
  | (c, .error e) => (c, some e)
  | (c, .ok i) =>
    if b.length = 0 then (poke c i [0], none)
    else
      let hdr := Codec.lenPrefix b.length
      match checkWriteSize cf c (hdr.length - 1 + b.length) with
      | (c, .error e) => ({ c with len := i }, some e)
      | (c, .ok x) =>
        -- the buffer may have moved: the tag byte now sits at `i = x - 1`, the length bytes follow
        -- at `i + 1 …`, the body after them: one contiguous image `hdr ++ b` starting at `x - 1`
        (poke c (x - 1) (hdr ++ b), none)

/-- positional writes `WriteUintNPos(p, v)`: `b` is the big-endian image -/
def writePos (c : Chunk) (p : Int) (b : Bytes) : Chunk × Option Err :=
  let k : Int := (b.length : Int) - 1
  if p < 0 then (c, some .invalidIndex)        -- `if p < 0 { return ErrInvalidIndex }` (was: an index panic)
  else if p ≥ c.len ∨ p + k ≥ c.len then (c, some .eof)
  else if c.limit > 0 ∧ (p ≥ c.limit ∨ p + k ≥ c.limit) then (c, some .limit)
  else (poke c p.toNat b, none)

/-- `Bytes()` on the unread bytes `u`: result and number of bytes consumed (the cursor moves even
when an error is returned; a short body consumes everything). -/
def bytesRaw (u : Bytes) : Except Err Bytes × Nat :=
  match u with
  | [] => (.error .eof, 0)
  | t :: r =>
    let lenRes : Except Err Nat × Nat :=
      if t = 0 then (.ok 0, 0)
      else if t = 1 ∨ t = 2 then
        match r with | b0 :: _ => (.ok b0.toNat, 1) | _ => (.error .eof, 0)
      else if t = 3 ∨ t = 4 then
        match r with | b0 :: b1 :: _ => (.ok (ofBe16 b0 b1), 2) | _ => (.error .eof, 0)
      else if t = 5 ∨ t = 6 then
        match r with | b0 :: b1 :: b2 :: b3 :: _ => (.ok (ofBe32 b0 b1 b2 b3), 4) | _ => (.error .eof, 0)
      else if t = 7 ∨ t = 8 then
        match r with
        | b0 :: b1 :: b2 :: b3 :: b4 :: b5 :: b6 :: b7 :: _ => (.ok (ofBe64 b0 b1 b2 b3 b4 b5 b6 b7), 8)
        | _ => (.error .eof, 0)
      else (.error .invalidType, 0)
    match lenRes with
    | (.error e, k) => (.error e, 1 + k)
    | (.ok l, k) =>
      if t = 0 then (.ok [], 1)
      else if l = 0 then (.error .unexpectedEOF, 1 + k)
      else if l > Facts.maxSlice then (.error .tooLarge, 1 + k)
      else
        let body := r.drop k
        if body.length < l then (.error .eof, u.length) else (.ok (body.take l), 1 + k + l)

def readBytes (c : Chunk) : Chunk × Except Err Bytes :=
  let (r, k) := bytesRaw c.unread
  ({ c with rpos := c.rpos + k }, r)

/-- `Uint8/16/32/64()`: `k` bytes, nothing consumed on failure -/
def readFixed (c : Chunk) (k : Nat) : Chunk × Except Err Bytes :=
  if c.rpos + k > c.len then (c, .error .eof)
  else ({ c with rpos := c.rpos + k }, .ok (c.unread.take k))

/-- the loop of `ReadFrom(r)` over a piece stream. Fuel = an upper bound on iterations (each
iteration consumes at least one byte of the stream or stops). -/
def readFromLoop : Nat → Chunk → Codec.Stream → Nat → Chunk × Nat × Codec.Stream
  | 0, c, s, t => (c, t, s)
  | fuel + 1, c, s, t =>
    if c.limit > 0 ∧ c.space ≤ 0 then (c, t, s)
    else
      let x : Nat := if c.limit > 0 then min (c.space.toNat) Facts.bufSize else Facts.bufSize
      match s with
      | [] => (c, t, [])                  -- n = 0, err = EOF → nil
      | p :: ps =>
        let got := p.take x
        let s' := if p.length ≤ x then ps else p.drop x :: ps
        let (c', w, e) := write cf c got
        let t' := t + (if w < got.length then w else got.length)
        match e with
        | some _ => (c', t', s')          -- err2 ≠ nil → break (ReadFrom returns the Read error: nil)
        | none =>
          if got.length = 0 ∨ (c'.limit > 0 ∧ (got.length : Int) ≥ c'.limit) then (c', t', s')
          else readFromLoop fuel c' s' t'

def readFrom (c : Chunk) (s : Codec.Stream) : Chunk × Nat × Codec.Stream :=
  readFromLoop cf (s.flatten.length + s.length + 1) c s 0

end

/-- `WriteTo(w)` into a sink that accepts everything: returns the bytes written -/
def writeTo (c : Chunk) : Chunk × Bytes :=
  if c.isEmpty then (c, [])
  else
    -- the loop writes buf[rpos : min(rpos+bufSize·k …)] pieces until `n ≥ Size()` or the end
    let out := c.unread
    ({ c with rpos := c.rpos + out.length }, out)

/-- `WriteTo(w)` into a sink that accepts `k` more bytes and then fails (returning how many bytes of
the piece it took, as the io.Writer contract demands): the count returned, the bytes the sink got and
whether an error came back. The read cursor advances by exactly the count. -/
def writeToLim (c : Chunk) (k : Nat) : Chunk × Bytes × Bool :=
  if c.isEmpty then (c, [], false)
  else
    let out := c.unread.take k
    ({ c with rpos := c.rpos + out.length }, out, decide (k < c.unread.length))

end Chunk
end XMT.Chunk
