/-
  XMT.ChunkCensus — which exported methods of `*data.Chunk` are in the C11 model / op language and
  which are deliberately not.  `Facts.c11_chunkMethods` is regenerated from the source on every run
  (go/parser over the files of package data that are compiled here; data/chunk_heap.go is excluded by
  its build tags `windows && heap`); `Props.C11.method_census` closes the obligation by `decide`.
-/
import XMT.Generated.Facts
namespace XMT.Chunk.Census

/-- method ↦ op token(s) of the differential run / model function -/
def modelled : List (String × String) := [
  ("Write", "w : Chunk.write"), ("Read", "r : Chunk.read"),
  ("WriteUint8", "u8, wx : writeFixed"), ("WriteUint16", "u16, wx : writeFixed"),
  ("WriteUint32", "u32, wx : writeFixed"), ("WriteUint64", "u64, wx : writeFixed"),
  ("WriteInt", "wx : writeFixed (forwards to WriteUint64)"), ("WriteUint", "wx : writeFixed (WriteUint64)"),
  ("WriteInt8", "wx : writeFixed (WriteUint8)"), ("WriteBool", "wx : writeFixed (WriteUint8 0/1)"),
  ("WriteInt16", "wx : writeFixed (WriteUint16)"), ("WriteInt32", "wx : writeFixed (WriteUint32)"),
  ("WriteInt64", "wx : writeFixed (WriteUint64)"), ("WriteFloat32", "wx : writeFixed (WriteUint32 of the bits)"),
  ("WriteFloat64", "wx : writeFixed (WriteUint64 of the bits)"),
  ("WriteBytes", "by : writeBytes"), ("WriteString", "ws : writeBytes"),
  ("WriteBoolPos", "pb : writePos / writePosP"), ("WriteUint8Pos", "p8 : writePos / writePosP"),
  ("WriteUint16Pos", "p16 : writePos / writePosP"), ("WriteUint32Pos", "p32 : writePos / writePosP"),
  ("WriteUint64Pos", "p64 : writePos / writePosP"),
  ("Uint8", "ru8, rx : readFixed"), ("Uint16", "ru16, rx : readFixed"), ("Uint32", "ru32, rx : readFixed"),
  ("Uint64", "ru64, rx : readFixed"),
  ("Int", "rx : readFixed 8"), ("Uint", "rx : readFixed 8"), ("Bool", "rx : readFixed 1"), ("Int8", "rx : readFixed 1"),
  ("Int16", "rx : readFixed 2"), ("Int32", "rx : readFixed 4"), ("Int64", "rx : readFixed 8"),
  ("Float32", "rx : readFixed 4"), ("Float64", "rx : readFixed 8"),
  ("ReadInt", "rx"), ("ReadUint", "rx"), ("ReadBool", "rx"), ("ReadInt8", "rx"), ("ReadInt16", "rx"),
  ("ReadInt32", "rx"), ("ReadInt64", "rx"), ("ReadUint8", "rx"), ("ReadUint16", "rx"), ("ReadUint32", "rx"),
  ("ReadUint64", "rx"), ("ReadFloat32", "rx"), ("ReadFloat64", "rx"),
  ("Bytes", "rby : readBytes"),
  ("Seek", "sk : seek"), ("Truncate", "tr : truncate"), ("Grow", "gr : growOp"), ("Reset", "rs : reset"),
  ("Clear", "cl : clear"), ("ReadFrom", "rf : readFrom"), ("ReadDeadline", "rf : readFrom (net.Conn twin)"),
  ("WriteTo", "wt, wl : writeTo / writeToLim"),
  ("Size", "summary s="), ("Remaining", "summary m="), ("Space", "summary sp="), ("Empty", "summary e="),
  ("Available", "summary a="), ("Payload", "summary h= : unread / payloadP"),
  ("String", "str : stringP"), ("MarshalStream", "ms : marshalArgP + writeBytes")]

/-- method ↦ why it is not an op of the model -/
def notModelled : List (String × String) := [
  ("Flush", "returns nil, touches nothing (value receiver)"),
  ("Close", "returns nil, touches nothing (value receiver)"),
  ("KeyCrypt", "XORs c.buf in place with the unexported KeyPair.share; length, cursor and limit are untouched; key handling is C06"),
  ("UnmarshalStream", "replaces the buffer by a sub-slice of the SOURCE reader's memory (aliasing, capacity = the source's); the decoding is Chunk.Bytes (op rby) / the codec of C10"),
  ("ReadBytes", "Bytes() into a pointer: returns a sub-slice of the buffer (op rby covers the cursor and the bytes)"),
  ("StringVal", "string(Bytes()) (op rby)"),
  ("ReadString", "string(Bytes()) into a pointer (op rby)")]

end XMT.Chunk.Census
