/-
  XMT.ChunkExact — exact byte-level clauses for `Seek` and the positional writers (review item #12 of
  DESIGN B.5: `QStep` said `True` for both).

  The queue of unread bytes alone cannot express these two families (they address RETAINED bytes,
  read or unread), so the abstract state here is the retained bytes `v = c.buf` plus the cursor `r`;
  the queue is `v.drop r`.  `VStep` is exact for `seek` / `pos` and is `QStep` on `v.drop r` for all
  other operations.

  The positional writers of data/chunk_writer.go are exactly: WriteBoolPos, WriteUint8Pos,
  WriteUint16Pos, WriteUint32Pos, WriteUint64Pos (there are no signed / float variants).
-/
import XMT.ChunkSeq
namespace XMT.Chunk
open XMT

namespace Chunk
/-- `WriteBoolPos(p, b)` -/
def writeBoolPos (c : Chunk) (p : Int) (b : Bool) := c.writePos p [if b then 1 else 0]
/-- `WriteUint8Pos(p, n)` -/
def writeUint8Pos (c : Chunk) (p : Int) (n : UInt8) := c.writePos p [n]
/-- `WriteUint16Pos(p, n)` (`n < 2^16`) -/
def writeUint16Pos (c : Chunk) (p : Int) (n : Nat) := c.writePos p (be16 n)
/-- `WriteUint32Pos(p, n)` (`n < 2^32`) -/
def writeUint32Pos (c : Chunk) (p : Int) (n : Nat) := c.writePos p (be32 n)
/-- `WriteUint64Pos(p, n)` (`n < 2^64`) -/
def writeUint64Pos (c : Chunk) (p : Int) (n : Nat) := c.writePos p (be64 n)
end Chunk

/-- the absolute offset a `Seek(o, whence)` aims at, on the abstract state -/
def seekAim (v : Bytes) (r : Nat) (o : Int) (w : Nat) : Int :=
  if w = 1 then o + r else if w = 2 then o + v.length else o

/-- `v` with `b` written over `[p, p + |b|)` -/
def splice (v : Bytes) (p : Nat) (b : Bytes) : Bytes := v.take p ++ b ++ v.drop (p + b.length)

/-- `Seek(o, w)` returned `(t, e)`, exactly. -/
def SeekX (v : Bytes) (r : Nat) (o : Int) (w : Nat) (t : Int) (e : Option Err) (v' : Bytes) (r' : Nat) : Prop :=
  v' = v ∧
  ((w ≤ 2 ∧ 0 ≤ seekAim v r o w ∧ seekAim v r o w ≤ v.length ∧
      e = none ∧ t = seekAim v r o w ∧ (r' : Int) = seekAim v r o w) ∨
   (w > 2 ∧ e = some .whence ∧ t = 0 ∧ r' = r) ∨
   (w ≤ 2 ∧ (seekAim v r o w < 0 ∨ seekAim v r o w > v.length) ∧
      e = some .invalidIndex ∧ t = 0 ∧ r' = r))

/-- a positional write of the image `b` at `p` returned `e`, exactly. -/
def PosX (v : Bytes) (r : Nat) (p : Int) (b : Bytes) (e : Option Err) (v' : Bytes) (r' : Nat) : Prop :=
  r' = r ∧ v'.length = v.length ∧
  ((0 ≤ p ∧ p.toNat + b.length ≤ v.length ∧ e = none ∧ v' = splice v p.toNat b) ∨
   (p < 0 ∧ e = some .invalidIndex ∧ v' = v) ∨
   (0 ≤ p ∧ p.toNat + b.length > v.length ∧ e = some .eof ∧ v' = v))

/-- Exact step relation on (retained bytes, cursor): exact clauses for `seek` / `pos`, the queue
relation `QStep` on `v.drop r` for everything else. -/
def VStep (v : Bytes) (r : Nat) (op : Op) (out : Out) (v' : Bytes) (r' : Nat) : Prop :=
  match op, out with
  | .seek o w, .off t e => SeekX v r o w t e v' r'
  | .pos p b, .err e => PosX v r p b e v' r'
  | .seek _ _, _ => False
  | .pos _ _, _ => False
  | op, out => QStep (v.drop r) op out (v'.drop r')

theorem splice_length (v b : Bytes) (p : Nat) (hp : p + b.length ≤ v.length) :
    (splice v p b).length = v.length := by
  simp [splice, List.length_take, List.length_drop]; omega

/-- element-wise reading of `splice`: outside `[p, p+|b|)` the bytes are unchanged, inside they are `b` -/
theorem splice_get (v b : Bytes) (p : Nat) (hp : p + b.length ≤ v.length) (i : Nat) :
    (splice v p b)[i]? =
      if i < p then v[i]? else if i < p + b.length then b[i - p]? else v[i]? := by
  have h1 : (v.take p).length = p := by simp [List.length_take]; omega
  unfold splice
  by_cases hi : i < p
  · rw [if_pos hi, List.append_assoc, List.getElem?_append_left (by omega), List.getElem?_take, if_pos hi]
  · rw [if_neg hi, List.append_assoc, List.getElem?_append_right (by omega), h1]
    by_cases hj : i < p + b.length
    · rw [if_pos hj, List.getElem?_append_left (by omega)]
    · rw [if_neg hj, List.getElem?_append_right (by omega), List.getElem?_drop]
      congr 1; omega

namespace Chunk

/-- `Seek`, exactly: the retained bytes never change; the cursor moves to the aimed offset iff the
whence is 0..2 and the offset lies inside `[0, len]`; otherwise nothing changes and the error says
which check failed. -/
theorem seek_exact (c : Chunk) (o : Int) (w : Nat) (h : c.Inv) :
    SeekX c.view c.rpos o w (c.seek o w).2.1 (c.seek o w).2.2 (c.seek o w).1.view (c.seek o w).1.rpos := by
  have hv : c.view.length = c.len := by simp [view, List.length_take]; exact Nat.min_eq_left h.lc
  have ht : seekAim c.view c.rpos o w = seekTarget c o w := by
    unfold seekAim seekTarget; rw [hv]
  unfold SeekX
  rw [ht, hv]
  unfold seek
  split
  · rename_i hw
    exact ⟨rfl, Or.inr (Or.inl ⟨hw, rfl, rfl, rfl⟩)⟩
  · rename_i hw
    split
    · rename_i h0
      refine ⟨rfl, Or.inr (Or.inr ⟨by omega, Or.inl ?_, rfl, rfl, rfl⟩)⟩
      unfold seekTarget; rw [if_neg (by omega), if_neg (by omega)]; exact h0.2
    · split
      · rename_i hb
        exact ⟨rfl, Or.inr (Or.inr ⟨by omega, hb, rfl, rfl, rfl⟩)⟩
      · rename_i hb
        refine ⟨rfl, Or.inl ⟨by omega, by omega, by omega, rfl, rfl, ?_⟩⟩
        simp only
        omega

/-- Positional writes, exactly (`b` = the big-endian image, at least one byte): a negative position
is `ErrInvalidIndex`, a range that does not end inside the buffer is `io.EOF`, otherwise the range
`[p, p+|b|)` of the retained bytes becomes `b` and nothing else changes; the cursor and the length
never change.  The `ErrLimit` return of the Go code is unreachable while the invariant holds. -/
theorem pos_exact (c : Chunk) (p : Int) (b : Bytes) (hb : 0 < b.length) (h : c.Inv) :
    PosX c.view c.rpos p b (c.writePos p b).2 (c.writePos p b).1.view (c.writePos p b).1.rpos := by
  have hv : c.view.length = c.len := by simp [view, List.length_take]; exact Nat.min_eq_left h.lc
  rcases hr : c.writePos p b with ⟨c1, e⟩
  obtain ⟨h1, h2, h3, h4, h5, h6⟩ := writePos_spec c p b hb h c1 e hr
  have hv1 : c1.view.length = c1.len := by simp [view, List.length_take]; exact Nat.min_eq_left h1.lc
  unfold PosX
  refine ⟨h4, by rw [hv1, hv, h3], ?_⟩
  rw [hv]
  have hlim := h.lim
  unfold writePos at hr
  simp only at hr
  split at hr
  · rename_i hp
    simp only [Prod.mk.injEq] at hr; obtain ⟨rfl, rfl⟩ := hr
    exact Or.inr (Or.inl ⟨hp, rfl, rfl⟩)
  · rename_i hp
    split at hr
    · rename_i he
      simp only [Prod.mk.injEq] at hr; obtain ⟨rfl, rfl⟩ := hr
      exact Or.inr (Or.inr ⟨by omega, by omega, rfl, rfl⟩)
    · rename_i he
      split at hr
      · rename_i hl
        exfalso
        have := hlim hl.1
        omega
      · simp only [Prod.mk.injEq] at hr; obtain ⟨_, rfl⟩ := hr
        obtain ⟨a1, a2, a3⟩ := h5 rfl
        exact Or.inl ⟨a1, a2, rfl, a3⟩

end Chunk
end XMT.Chunk
