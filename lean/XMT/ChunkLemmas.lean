import XMT.Chunk
namespace XMT.Chunk
open XMT

namespace Chunk

/-- Representation invariant of a chunk. -/
structure Inv (c : Chunk) : Prop where
  rl : c.rpos ≤ c.len
  lc : c.len ≤ c.arr.length
  lim : c.limit > 0 → (c.len : Int) ≤ c.limit
  nil : c.isNil = true → c.arr = []

theorem inv_empty (l : Int) : (empty l).Inv := by
  constructor <;> simp [empty]
  intro h; omega

theorem zeros_length (n : Nat) : (zeros n).length = n := by simp [zeros]

theorem reslice_spec {c c' : Chunk} {n i : Nat} (h : c.Inv) (hr : reslice c n = some (c', i)) :
    c'.Inv ∧ i = c.len ∧ c'.arr = c.arr ∧ c'.rpos = c.rpos ∧ c'.limit = c.limit ∧
    c.len ≤ c'.len ∧ c'.len ≤ c.len + n ∧ c'.isNil = c.isNil ∧
    ((c.limit ≤ 0 ∨ (c.len : Int) + n < c.limit) → c'.len = c.len + n) ∧
    (c'.len < c.len + n → (c'.len : Int) = c.limit) := by
  obtain ⟨rl, lc, lim, nl⟩ := h
  unfold reslice cap at hr
  split at hr
  · split at hr
    · split at hr
      · simp at hr
      · simp only [Option.some.injEq, Prod.mk.injEq] at hr
        obtain ⟨rfl, rfl⟩ := hr
        refine ⟨⟨?_, ?_, ?_, ?_⟩, ?_⟩ <;> grind
    · simp only [Option.some.injEq, Prod.mk.injEq] at hr
      obtain ⟨rfl, rfl⟩ := hr
      refine ⟨⟨?_, ?_, ?_, ?_⟩, ?_⟩ <;> grind
  · simp at hr

/-- What `grow` guarantees: the invariant, the unread bytes are kept (now starting at the returned
index minus …), the returned index is where the reserved room starts, and the limit is respected. -/
structure GrowSpec (c c' : Chunk) (n i : Nat) : Prop where
  inv : c'.Inv
  limit : c'.limit = c.limit
  unread : (c'.arr.take i).drop c'.rpos = c.unread
  idx : i ≤ c'.len
  room : c'.len ≤ i + n
  roomFull : c.limit ≤ 0 → c'.len = i + n
  ir : c'.rpos ≤ i

end Chunk
end XMT.Chunk

namespace XMT.Chunk
open XMT
namespace Chunk

theorem unread_length (c : Chunk) (h : c.Inv) : c.unread.length = c.len - c.rpos := by
  have := h.lc
  simp [unread, List.length_drop, List.length_take]; omega

/-- result specification shared by `reslice`, `grow`, `quickSlice`: room for up to `n` bytes was
reserved at index `i`, the unread bytes are intact in front of it. -/
structure Reserve (c c' : Chunk) (n i : Nat) : Prop where
  inv : c'.Inv
  limit : c'.limit = c.limit
  unread : (c'.arr.take i).drop c'.rpos = c.unread
  ir : c'.rpos ≤ i
  idx : i ≤ c'.len
  room : c'.len ≤ i + n
  roomFull : (c.limit ≤ 0 ∨ (c.len : Int) + n < c.limit) → c'.len = i + n
  clamped : c'.len < i + n → (c'.len : Int) = c.limit
  ix : c.len - c.rpos ≤ i
  rp : c'.rpos = c.rpos ∨ c'.rpos = 0

/-- an operation that failed (or only rewound an empty buffer) kept the queue content -/
structure Kept (c c' : Chunk) : Prop where
  inv : c'.Inv
  limit : c'.limit = c.limit
  unread : c'.unread = c.unread
  len_le : c'.len ≤ c.len
  rp : c'.rpos = c.rpos ∨ c'.rpos = 0

theorem Kept.refl {c : Chunk} (h : c.Inv) : Kept c c := ⟨h, rfl, rfl, Nat.le_refl _, Or.inl rfl⟩

theorem reslice_reserve {c c' : Chunk} {n i : Nat} (h : c.Inv) (hr : reslice c n = some (c', i)) :
    Reserve c c' n i := by
  obtain ⟨h1, rfl, h3, h4, h5, h6, h7, h8, h9, h10⟩ := reslice_spec h hr
  exact ⟨h1, h5, by simp [unread, h3, h4], by rw [h4]; exact h.rl, h6, h7, h9, h10,
    Nat.sub_le _ _, Or.inl h4⟩

theorem growPre_kept {c : Chunk} (h : c.Inv) : Kept c (growPre c) := by
  have hu := unread_length c h
  unfold growPre
  split
  · rename_i hc
    refine ⟨⟨by simp, by simp, ?_, h.nil⟩, rfl, ?_, by simp, Or.inr rfl⟩
    · intro hp; simp only at hp ⊢; omega
    · have : c.unread = [] := List.length_eq_zero_iff.mp (by omega)
      rw [this]; simp [unread]
  · exact Kept.refl h

variable (cf : Nat → Nat)

theorem growAlloc_ok {c c' : Chunk} {n i : Nat} (h : c.Inv)
    (hn : c.limit > 0 → ((c.len - c.rpos : Nat) : Int) + n ≤ c.limit)
    (hg : growAlloc cf c (c.len - c.rpos) n = (c', .ok i)) : Reserve c c' n i := by
  have hu := unread_length c h
  obtain ⟨rl, lc, lim, nl⟩ := h
  unfold growAlloc at hg
  split at hg
  · -- nil buffer, small request
    rename_i hc
    simp only [Prod.mk.injEq, Except.ok.injEq] at hg
    obtain ⟨rfl, rfl⟩ := hg
    have ha := nl hc.1
    have hl : c.len = 0 := by rw [ha] at lc; simpa using lc
    have hr : c.rpos = 0 := by omega
    have hun : c.unread = [] := List.length_eq_zero_iff.mp (by omega)
    refine ⟨⟨by simp [hr], by simp [zeros_length]; exact hc.2, ?_, by simp⟩, rfl, by simp [hun],
      by simp [hr], by simp, by simp, by intro; simp, by simp, by omega, Or.inl rfl⟩
    intro hp; have := hn hp; simp only; omega
  · simp only at hg
    split at hg
    · -- slide
      rename_i hc hs
      simp only [Prod.mk.injEq, Except.ok.injEq] at hg
      obtain ⟨rfl, rfl⟩ := hg
      have hcap : c.cap = c.arr.length := rfl
      refine ⟨⟨by simp, ?_, ?_, ?_⟩, rfl, ?_, by simp, by simp, by simp, by intro; simp, by simp,
        Nat.le_refl _, Or.inr rfl⟩
      · simp only [List.length_append, List.length_drop, hu]; rw [hcap] at hs; omega
      · intro hp; have := hn hp; simp only; omega
      · intro hnil
        have ha := nl hnil
        simp [unread, ha]
      · simp only [List.drop_zero]
        rw [List.take_append_of_le_length (by omega), List.take_of_length_le (by omega)]
    · split at hg
      · simp at hg
      · split at hg
        · simp at hg
        · split at hg
          · simp at hg
          · rename_i hc hs hl hm hx
            simp only [Prod.mk.injEq, Except.ok.injEq] at hg
            obtain ⟨rfl, rfl⟩ := hg
            refine ⟨⟨by simp, ?_, ?_, by simp⟩, rfl, ?_, by simp, by simp, by simp, by intro; simp,
              by simp, Nat.le_refl _, Or.inr rfl⟩
            · simp only [List.length_append, zeros_length, hu]; omega
            · intro hp; have := hn hp; simp only; omega
            · simp only [List.drop_zero]
              rw [List.take_append_of_le_length (by omega), List.take_of_length_le (by omega)]

theorem growAlloc_err {c c' : Chunk} {n x : Nat} {e : Err} (h : c.Inv)
    (hg : growAlloc cf c x n = (c', .error e)) : c' = c := by
  unfold growAlloc at hg
  split at hg
  · simp at hg
  · simp only at hg
    repeat' split at hg
    all_goals simp at hg
    all_goals exact hg.1.symm

theorem growN_le (c : Chunk) (x n : Nat) (hx : c.limit > 0 → (x : Int) < c.limit) :
    growN c x n ≤ n ∧ (c.limit > 0 → (x : Int) + growN c x n ≤ c.limit) ∧
    ((c.limit ≤ 0 ∨ (x : Int) + n < c.limit) → growN c x n = n) ∧
    (growN c x n < n → c.limit > 0 ∧ (x : Int) + growN c x n ≥ c.limit) := by
  unfold growN
  split
  · rename_i hc
    have := hx hc.1
    refine ⟨by omega, fun _ => by omega, fun h => by omega, fun _ => ⟨hc.1, by omega⟩⟩
  · rename_i hc
    refine ⟨Nat.le_refl _, fun hp => ?_, fun _ => rfl, fun h => absurd h (Nat.lt_irrefl _)⟩
    have : ¬ ((n : Int) > c.limit - x) := fun h => hc ⟨hp, h⟩
    omega

theorem Reserve.mono {c c' : Chunk} {n n' i : Nat} (h : Reserve c c' n' i) (hn : n' ≤ n)
    (hf : (c.limit ≤ 0 ∨ (c.len : Int) + n < c.limit) → n' = n)
    (hc : n' < n → c.limit > 0 ∧ ((c.len - c.rpos : Nat) : Int) + n' ≥ c.limit) : Reserve c c' n i :=
  ⟨h.inv, h.limit, h.unread, h.ir, h.idx, Nat.le_trans h.room (by omega),
   fun hl => by have := hf hl; subst this; exact h.roomFull hl,
   fun hl => by
     by_cases h1 : c'.len < i + n'
     · exact h.clamped h1
     · have h2 := h.room
       have h3 : n' < n := by omega
       obtain ⟨h4, h5⟩ := hc h3
       have h6 := h.inv.lim (by rw [h.limit]; exact h4)
       have h7 := h.ix
       rw [h.limit] at h6
       omega,
   h.ix, h.rp⟩

theorem Reserve.trans_kept {c0 c c' : Chunk} {n i : Nat} (k : Kept c0 c) (h : Reserve c c' n i)
    (hx : c0.len - c0.rpos ≤ c.len - c.rpos) :
    Reserve c0 c' n i :=
  ⟨h.inv, by rw [h.limit, k.limit], by rw [h.unread, k.unread], h.ir, h.idx, h.room,
   fun hl => h.roomFull (by have := k.len_le; rw [k.limit]; omega),
   fun hl => by rw [← k.limit]; exact h.clamped hl,
   Nat.le_trans hx h.ix, by rcases h.rp with h1 | h1 <;> rcases k.rp with h2 | h2 <;> simp [h1, h2]⟩

theorem grow_ok {c c' : Chunk} {n i : Nat} (h : c.Inv) (hg : grow cf c n = (c', .ok i)) :
    Reserve c c' n i := by
  have k := growPre_kept h
  unfold grow at hg
  simp only at hg
  split at hg
  · simp at hg
  · rename_i hlim
    have hx : (growPre c).limit > 0 → (((growPre c).len - (growPre c).rpos : Nat) : Int) < (growPre c).limit := by
      intro hp
      have : ¬ ((((growPre c).len - (growPre c).rpos : Nat) : Int) ≥ (growPre c).limit) := fun h => hlim ⟨hp, h⟩
      omega
    obtain ⟨g1, g2, g3, g4⟩ := growN_le (growPre c) ((growPre c).len - (growPre c).rpos) n hx
    have hxx : c.len - c.rpos ≤ (growPre c).len - (growPre c).rpos := by
      unfold growPre; split <;> omega
    split at hg
    · rename_i c1 i1 hr
      simp only [Prod.mk.injEq, Except.ok.injEq] at hg
      obtain ⟨rfl, rfl⟩ := hg
      exact Reserve.trans_kept k ((reslice_reserve k.inv hr).mono g1 (fun hl => g3 (by omega)) g4) hxx
    · exact Reserve.trans_kept k ((growAlloc_ok cf k.inv g2 hg).mono g1 (fun hl => g3 (by omega)) g4) hxx

theorem grow_err {c c' : Chunk} {n : Nat} {e : Err} (h : c.Inv) (hg : grow cf c n = (c', .error e)) :
    Kept c c' := by
  have k := growPre_kept h
  unfold grow at hg
  simp only at hg
  split at hg
  · simp only [Prod.mk.injEq] at hg
    rw [← hg.1]; exact k
  · split at hg
    · simp at hg
    · rw [growAlloc_err cf k.inv hg]; exact k

theorem quickSlice_ok {c c' : Chunk} {n i : Nat} (h : c.Inv) (hg : quickSlice cf c n = (c', .ok i)) :
    Reserve c c' n i := by
  unfold quickSlice at hg
  split at hg
  · rename_i c1 i1 hr
    simp only [Prod.mk.injEq, Except.ok.injEq] at hg
    obtain ⟨rfl, rfl⟩ := hg
    exact reslice_reserve h hr
  · exact grow_ok cf h hg

theorem quickSlice_err {c c' : Chunk} {n : Nat} {e : Err} (h : c.Inv)
    (hg : quickSlice cf c n = (c', .error e)) : Kept c c' := by
  unfold quickSlice at hg
  split at hg
  · simp at hg
  · exact grow_err cf h hg

end Chunk
end XMT.Chunk
