import XMT.ChunkLemmas
namespace XMT.Chunk
open XMT
namespace Chunk

theorem poke_reserve {c c' : Chunk} {n i : Nat} (r : Reserve c c' n i) (d : Bytes)
    (hd : d.length = c'.len - i) :
    (poke c' i d).Inv ∧ (poke c' i d).limit = c.limit ∧ (poke c' i d).unread = c.unread ++ d ∧
    (poke c' i d).len = c'.len := by
  obtain ⟨⟨rl, lc, lim, nl⟩, hlim, hun, ir, idx, room, _, _, _⟩ := r
  have hlen : (poke c' i d).arr.length = c'.arr.length := by simp [poke]; omega
  refine ⟨⟨rl, by rw [hlen]; exact lc, lim, ?_⟩, hlim, ?_, rfl⟩
  · intro hn
    have ha := nl hn
    have : c'.len = 0 := by rw [ha] at lc; simpa using lc
    have hd0 : d = [] := List.length_eq_zero_iff.mp (by omega)
    simp [poke, ha, hd0]
  · show (((c'.arr.take i ++ d ++ c'.arr.drop (i + d.length)).take c'.len).drop c'.rpos) = c.unread ++ d
    have h1 : (c'.arr.take i).length = i := by simp [List.length_take]; omega
    have h2 : (c'.arr.take i ++ d).length = c'.len := by simp [h1]; omega
    rw [List.take_left' h2, List.drop_append_of_le_length (by rw [h1]; exact ir), hun]

variable (cf : Nat → Nat)

/-- a `limit` error out of `quickSlice` implies a limit is set -/
theorem quickSlice_limit_err {c c' : Chunk} {n : Nat} (h : c.Inv)
    (hq : quickSlice cf c n = (c', .error .limit)) : c.limit > 0 := by
  have hk := (growPre_kept h).limit
  unfold quickSlice at hq
  split at hq
  · simp at hq
  · unfold grow at hq
    simp only at hq
    split at hq
    · rename_i hl; omega
    · split at hq
      · simp at hq
      · unfold growAlloc at hq
        split at hq
        · simp at hq
        · simp only at hq
          split at hq
          · simp at hq
          · split at hq
            · rename_i hl; omega
            · split at hq
              · simp at hq
              · split at hq <;> simp at hq

/-- `Write`: the invariant is kept (so the limit is never exceeded), exactly the first `n` bytes of
`b` were appended to the queue and `n` is what is reported; no error means everything was accepted;
a limit error needs a limit. -/
theorem write_spec (c : Chunk) (b : Bytes) (h : c.Inv) (c' : Chunk) (n : Nat) (e : Option Err)
    (hw : write cf c b = (c', n, e)) :
    c'.Inv ∧ c'.limit = c.limit ∧ c'.unread = c.unread ++ b.take n ∧ n ≤ b.length ∧
    (e = none → n = b.length) ∧ (e = some .limit → c.limit > 0) := by
  unfold write at hw
  split at hw
  · rename_i c1 e1 hq
    simp only [Prod.mk.injEq] at hw
    obtain ⟨rfl, rfl, rfl⟩ := hw
    have k := quickSlice_err cf h hq
    refine ⟨k.inv, k.limit, by simp [k.unread], by simp, by simp, ?_⟩
    intro he
    simp only [Option.some.injEq] at he
    subst he
    exact quickSlice_limit_err cf h hq
  · rename_i c1 m hq
    have r := quickSlice_ok cf h hq
    have hroom := r.room
    have hidx := r.idx
    have hmin : min (c1.len - m) b.length = c1.len - m := by omega
    obtain ⟨p1, p2, p3, p4⟩ := poke_reserve r (b.take (min (c1.len - m) b.length))
      (by simp [List.length_take]; omega)
    simp only at hw
    split at hw
    · rename_i hc
      simp only [Prod.mk.injEq] at hw
      obtain ⟨rfl, rfl, rfl⟩ := hw
      exact ⟨p1, p2, p3, by omega, by simp, fun _ => by rw [← p2]; exact hc.2.1⟩
    · rename_i hc
      simp only [Prod.mk.injEq] at hw
      obtain ⟨rfl, rfl, rfl⟩ := hw
      refine ⟨p1, p2, p3, by omega, ?_, by simp⟩
      intro _
      by_cases hn : min (c1.len - m) b.length < b.length
      · exfalso
        -- not everything fitted ⇒ the reservation was clamped ⇒ the chunk is exactly at its limit
        have hcl := r.clamped (by omega)
        have hpos : c.limit > 0 := by
          by_cases hl : c.limit ≤ 0
          · have := r.roomFull (Or.inl hl); omega
          · omega
        apply hc
        refine ⟨hn, by rw [p2]; exact hpos, ?_⟩
        rw [p2, p4]; omega
      · omega

/-- `Read(k)`: returns the first `k` unread bytes (or fewer if the queue is shorter) and removes
exactly those. -/
theorem read_spec (c : Chunk) (k : Nat) (h : c.Inv) (c' : Chunk) (got : Bytes) (e : Option Err)
    (hr : read c k = (c', got, e)) :
    c'.Inv ∧ c'.limit = c.limit ∧ got = c.unread.take k ∧ c'.unread = c.unread.drop k := by
  have hu := unread_length c h
  obtain ⟨rl, lc, lim, nl⟩ := h
  unfold read at hr
  split at hr
  · rename_i hc
    simp only [Prod.mk.injEq] at hr
    obtain ⟨rfl, rfl, rfl⟩ := hr
    have hemp : c.len ≤ c.rpos := by simpa [isEmpty] using hc
    have hun : c.unread = [] := List.length_eq_zero_iff.mp (by omega)
    refine ⟨⟨by simp [reset], by simp [reset], ?_, nl⟩, rfl, by simp [hun], ?_⟩
    · intro hp; simp only [reset] at hp ⊢; omega
    · rw [hun]; simp [reset, unread]
  · simp only [Prod.mk.injEq] at hr
    obtain ⟨rfl, rfl, rfl⟩ := hr
    have hlt : (c.unread.take k).length ≤ c.len - c.rpos := by
      rw [List.length_take]; omega
    refine ⟨⟨by simp only; omega, lc, lim, nl⟩, rfl, rfl, ?_⟩
    show ((c.arr.take c.len).drop (c.rpos + (c.unread.take k).length)) = c.unread.drop k
    simp only [unread, List.drop_drop, List.length_take, List.length_drop]
    rw [Nat.min_eq_left lc]
    by_cases hk : k ≤ c.len - c.rpos
    · rw [Nat.min_eq_left hk]
    · rw [Nat.min_eq_right (by omega)]
      rw [List.drop_of_length_le (by simp [List.length_take]; omega),
          List.drop_of_length_le (by simp [List.length_take]; omega)]

end Chunk
end XMT.Chunk

namespace XMT.Chunk
open XMT
namespace Chunk
variable (cf : Nat → Nat)

theorem grow_err_eq {c c' : Chunk} {n : Nat} {e : Err} (h : c.Inv) (hg : grow cf c n = (c', .error e)) :
    c' = growPre c := by
  have k := growPre_kept h
  unfold grow at hg
  simp only at hg
  split at hg
  · simp only [Prod.mk.injEq] at hg; exact hg.1.symm
  · split at hg
    · simp at hg
    · exact growAlloc_err cf k.inv hg

theorem growPre_id {c : Chunk} (h : c.rpos < c.len) : growPre c = c := by
  unfold growPre; rw [if_neg]; omega

theorem checkWriteSize_ok {c c' : Chunk} {n i : Nat} (h : c.Inv)
    (hq : checkWriteSize cf c n = (c', .ok i)) : Reserve c c' n i ∧ c'.len = i + n := by
  unfold checkWriteSize at hq
  split at hq
  · simp at hq
  · rename_i hav
    split at hq
    · simp at hq
    · rename_i c1 i1 hs
      have r := quickSlice_ok cf h hs
      split at hq
      · simp at hq
      · rename_i hsw
        simp only [Prod.mk.injEq, Except.ok.injEq] at hq
        obtain ⟨rfl, rfl⟩ := hq
        refine ⟨r, ?_⟩
        by_cases hl : c.limit ≤ 0
        · exact r.roomFull (Or.inl hl)
        · apply r.roomFull
          right
          have : c.available n = true := by
            by_cases ha : c.available n = true
            · exact ha
            · exact absurd ⟨by omega, ha⟩ hav
          simp [available] at this
          omega

theorem checkWriteSize_err {c c' : Chunk} {n : Nat} {e : Err} (h : c.Inv)
    (hq : checkWriteSize cf c n = (c', .error e)) : c' = c ∨ c' = growPre c := by
  unfold checkWriteSize at hq
  split at hq
  · simp only [Prod.mk.injEq] at hq; exact Or.inl hq.1.symm
  · split at hq
    · rename_i c1 e1 hs
      simp only [Prod.mk.injEq] at hq
      obtain ⟨rfl, _⟩ := hq
      unfold quickSlice at hs
      split at hs
      · simp at hs
      · exact Or.inr (grow_err_eq cf h hs)
    · rename_i c1 i1 hs
      have r := quickSlice_ok cf h hs
      split at hq
      · -- the short-write arm is unreachable: without a limit the whole request is reserved
        rename_i hsw
        have := r.roomFull (Or.inl (by rw [← r.limit]; exact hsw.1))
        omega
      · simp at hq

theorem growPre_kept' {c : Chunk} (h : c.Inv) : (growPre c).Inv ∧ (growPre c).limit = c.limit ∧
    (growPre c).unread = c.unread :=
  ⟨(growPre_kept h).inv, (growPre_kept h).limit, (growPre_kept h).unread⟩

/-- fixed-width typed writes (`WriteUint8/16/32/64`, `WriteBool`): all or nothing. -/
theorem writeFixed_spec (c : Chunk) (b : Bytes) (h : c.Inv) (c' : Chunk) (e : Option Err)
    (hw : writeFixed cf c b = (c', e)) :
    c'.Inv ∧ c'.limit = c.limit ∧
    (e = none → c'.unread = c.unread ++ b) ∧ (e ≠ none → c'.unread = c.unread) := by
  unfold writeFixed at hw
  split at hw
  · rename_i c1 e1 hq
    simp only [Prod.mk.injEq] at hw
    obtain ⟨rfl, rfl⟩ := hw
    rcases checkWriteSize_err cf h hq with rfl | rfl
    · exact ⟨h, rfl, by simp, fun _ => rfl⟩
    · obtain ⟨k1, k2, k3⟩ := growPre_kept' h
      exact ⟨k1, k2, by simp, fun _ => k3⟩
  · rename_i c1 i hq
    simp only [Prod.mk.injEq] at hw
    obtain ⟨rfl, rfl⟩ := hw
    obtain ⟨r, hl⟩ := checkWriteSize_ok cf h hq
    obtain ⟨p1, p2, p3, _⟩ := poke_reserve r b (by omega)
    exact ⟨p1, p2, fun _ => p3, by simp⟩

/-- `Truncate(n)` keeps the first `n` unread bytes. -/
theorem truncate_spec (c : Chunk) (n : Int) (h : c.Inv) (c' : Chunk) (e : Option Err)
    (ht : truncate c n = (c', e)) :
    c'.Inv ∧ c'.limit = c.limit ∧
    (e = none → 0 ≤ n ∧ n ≤ c.unread.length ∧ c'.unread = c.unread.take n.toNat) ∧
    (e ≠ none → c' = c) := by
  have hu := unread_length c h
  obtain ⟨rl, lc, lim, nl⟩ := h
  unfold truncate at ht
  split at ht
  · rename_i h0
    simp only [Prod.mk.injEq] at ht
    obtain ⟨rfl, rfl⟩ := ht
    subst h0
    refine ⟨⟨by simp [reset], by simp [reset], ?_, nl⟩, rfl, ?_, by simp⟩
    · intro hp; simp only [reset] at hp ⊢; omega
    · intro _; simp [reset, unread]
  · split at ht
    · simp only [Prod.mk.injEq] at ht
      obtain ⟨rfl, rfl⟩ := ht
      exact ⟨⟨rl, lc, lim, nl⟩, rfl, by simp, fun _ => rfl⟩
    · rename_i h0 hc
      simp only [Prod.mk.injEq] at ht
      obtain ⟨rfl, rfl⟩ := ht
      have hn1 : 0 ≤ n := by omega
      have hn2 : n ≤ (c.len : Int) - c.rpos := by omega
      refine ⟨⟨by simp, by simp only; omega, ?_, nl⟩, rfl, ?_, by simp⟩
      · intro hp; have := lim hp; simp only at hp ⊢; omega
      · intro _
        refine ⟨hn1, by omega, ?_⟩
        simp only [unread, List.drop_take, List.take_take]
        congr 1
        omega

/-- `Grow(n)` only reserves capacity: the queue content is unchanged. -/
theorem growOp_spec (c : Chunk) (n : Int) (h : c.Inv) (c' : Chunk) (e : Option Err)
    (hg : growOp cf c n = (c', e)) : c'.Inv ∧ c'.limit = c.limit ∧ c'.unread = c.unread := by
  unfold growOp at hg
  split at hg
  · simp only [Prod.mk.injEq] at hg
    obtain ⟨rfl, _⟩ := hg
    exact ⟨h, rfl, rfl⟩
  · split at hg
    · rename_i c1 e1 hq
      simp only [Prod.mk.injEq] at hg
      obtain ⟨rfl, _⟩ := hg
      have k := grow_err cf h hq
      exact ⟨k.inv, k.limit, k.unread⟩
    · rename_i c1 m hq
      simp only [Prod.mk.injEq] at hg
      obtain ⟨rfl, _⟩ := hg
      have r := grow_ok cf h hq
      obtain ⟨⟨rl, lc, lim, nl⟩, hlim, hun, ir, idx, _, _, _, _⟩ := r
      refine ⟨⟨ir, by simp only; omega, ?_, nl⟩, hlim, by simpa [unread] using hun⟩
      intro hp; have := lim hp; simp only at hp ⊢; omega

/-- `Seek`: only the cursor moves, inside the retained bytes. -/
theorem seek_spec (c : Chunk) (o : Int) (w : Nat) (h : c.Inv) (c' : Chunk) (r : Int) (e : Option Err)
    (hs : seek c o w = (c', r, e)) :
    c'.Inv ∧ c'.limit = c.limit ∧ c'.view = c.view ∧ c'.len = c.len ∧ (e ≠ none → c' = c) := by
  obtain ⟨rl, lc, lim, nl⟩ := h
  unfold seek at hs
  split at hs
  · simp only [Prod.mk.injEq] at hs; obtain ⟨rfl, _, rfl⟩ := hs
    exact ⟨⟨rl, lc, lim, nl⟩, rfl, rfl, rfl, fun _ => rfl⟩
  · split at hs
    · simp only [Prod.mk.injEq] at hs; obtain ⟨rfl, _, rfl⟩ := hs
      exact ⟨⟨rl, lc, lim, nl⟩, rfl, rfl, rfl, fun _ => rfl⟩
    · split at hs
      · simp only [Prod.mk.injEq] at hs; obtain ⟨rfl, _, rfl⟩ := hs
        exact ⟨⟨rl, lc, lim, nl⟩, rfl, rfl, rfl, fun _ => rfl⟩
      · rename_i hb
        simp only [Prod.mk.injEq] at hs; obtain ⟨rfl, _, rfl⟩ := hs
        refine ⟨⟨?_, lc, lim, nl⟩, rfl, rfl, rfl, by simp⟩
        simp only
        omega

theorem reset_spec (c : Chunk) (h : c.Inv) : c.reset.Inv ∧ c.reset.limit = c.limit ∧ c.reset.unread = [] := by
  obtain ⟨rl, lc, lim, nl⟩ := h
  refine ⟨⟨by simp [reset], by simp [reset], ?_, nl⟩, rfl, by simp [reset, unread]⟩
  intro hp; simp only [reset] at hp ⊢; omega

theorem clear_spec (c : Chunk) (h : c.Inv) : c.clear.Inv ∧ c.clear.limit = c.limit ∧ c.clear.unread = [] := by
  obtain ⟨rl, lc, lim, nl⟩ := h
  refine ⟨⟨by simp [clear], by simp [clear], ?_, by simp [clear]⟩, rfl, by simp [clear, unread]⟩
  intro hp; simp only [clear] at hp ⊢; omega

/-- fixed-width typed reads: all `k` bytes or an error with nothing consumed -/
theorem readFixed_spec (c : Chunk) (k : Nat) (h : c.Inv) (c' : Chunk) (r : Except Err Bytes)
    (hr : readFixed c k = (c', r)) :
    c'.Inv ∧ c'.limit = c.limit ∧
    ((k ≤ c.unread.length ∧ r = .ok (c.unread.take k) ∧ c'.unread = c.unread.drop k) ∨
     (c.unread.length < k ∧ r = .error .eof ∧ c' = c)) := by
  have hu := unread_length c h
  obtain ⟨rl, lc, lim, nl⟩ := h
  unfold readFixed at hr
  split at hr
  · simp only [Prod.mk.injEq] at hr; obtain ⟨rfl, rfl⟩ := hr
    exact ⟨⟨rl, lc, lim, nl⟩, rfl, Or.inr ⟨by omega, rfl, rfl⟩⟩
  · simp only [Prod.mk.injEq] at hr; obtain ⟨rfl, rfl⟩ := hr
    refine ⟨⟨by simp only; omega, lc, lim, nl⟩, rfl, Or.inl ⟨by omega, rfl, ?_⟩⟩
    simp [unread, List.drop_drop]

end Chunk
end XMT.Chunk

namespace XMT.Chunk
open XMT
namespace Chunk
variable (cf : Nat → Nat)

theorem take_succ_eq {α : Type} (l : List α) (i : Nat) (h : i < l.length) :
    l.take (i + 1) = l.take i ++ [l[i]] := by
  rw [List.take_succ, List.getElem?_eq_getElem h]; rfl

/-- `WriteBytes`: the whole entry (tag, length, body) is appended, or nothing is. -/
theorem writeBytes_spec (c : Chunk) (b : Bytes) (h : c.Inv) (c' : Chunk) (e : Option Err)
    (hw : writeBytes cf c b = (c', e)) :
    c'.Inv ∧ c'.limit = c.limit ∧
    (e = none → c'.unread = c.unread ++ (Codec.lenPrefix b.length ++ b)) ∧
    (e ≠ none → c'.unread = c.unread) := by
  unfold writeBytes at hw
  split at hw
  · rename_i c1 e1 hq
    simp only [Prod.mk.injEq] at hw
    obtain ⟨rfl, rfl⟩ := hw
    rcases checkWriteSize_err cf h hq with rfl | rfl
    · exact ⟨h, rfl, by simp, fun _ => rfl⟩
    · obtain ⟨k1, k2, k3⟩ := growPre_kept' h
      exact ⟨k1, k2, by simp, fun _ => k3⟩
  · rename_i c1 i hq
    obtain ⟨r1, hl1⟩ := checkWriteSize_ok cf h hq
    split at hw
    · rename_i hb0
      simp only [Prod.mk.injEq] at hw
      obtain ⟨rfl, rfl⟩ := hw
      have hb : b = [] := List.length_eq_zero_iff.mp hb0
      obtain ⟨p1, p2, p3, _⟩ := poke_reserve r1 [0] (by simp; omega)
      refine ⟨p1, p2, fun _ => ?_, by simp⟩
      rw [p3, hb]; simp [Codec.lenPrefix]
    · rename_i hb0
      simp only at hw
      split at hw
      · rename_i c2 e2 hq2
        simp only [Prod.mk.injEq] at hw
        obtain ⟨rfl, rfl⟩ := hw
        have hc2 : c2 = c1 := by
          rcases checkWriteSize_err cf r1.inv hq2 with h2 | h2
          · exact h2
          · rw [h2]; exact growPre_id (by have := r1.ir; omega)
        subst hc2
        obtain ⟨⟨rl, lc, lim, nl⟩, hlim, hun, ir, idx, _, _, _, _⟩ := r1
        refine ⟨⟨ir, by simp only; omega, ?_, nl⟩, hlim, by simp, fun _ => by simpa [unread] using hun⟩
        intro hp; have := lim hp; simp only at hp ⊢; omega
      · rename_i c2 x hq2
        simp only [Prod.mk.injEq] at hw
        obtain ⟨rfl, rfl⟩ := hw
        obtain ⟨r2, hl2⟩ := checkWriteSize_ok cf r1.inv hq2
        -- the first reservation holds one (stale) byte at index i
        have hi : i < c1.arr.length := by have := r1.inv.lc; omega
        have hu1 : c1.unread = c.unread ++ [c1.arr[i]] := by
          show (c1.arr.take c1.len).drop c1.rpos = _
          rw [hl1, take_succ_eq _ _ hi, List.drop_append_of_le_length (by
            simp [List.length_take]; have := r1.ir; omega), r1.unread]
        have hlen1 := unread_length c1 r1.inv
        have hx1 : 1 ≤ x := by have := r2.ix; have := r1.ir; omega
        have hxa : x ≤ c2.arr.length := by have := r2.inv.lc; have := r2.idx; omega
        have htx : (c2.arr.take x).length = x := by simp [List.length_take]; omega
        have hdl : ((c2.arr.take x).drop c2.rpos).length = c.unread.length + 1 := by
          rw [r2.unread, hu1]; simp
        have hrx : c2.rpos + c.unread.length + 1 = x := by
          rw [List.length_drop, htx] at hdl; have := r2.ir; omega
        have hun0 : (c2.arr.take (x - 1)).drop c2.rpos = c.unread := by
          have h1 : c2.arr.take x = c2.arr.take (x - 1) ++ [c2.arr[x - 1]'(by omega)] := by
            have := take_succ_eq c2.arr (x - 1) (by omega)
            rwa [Nat.sub_add_cancel hx1] at this
          have h2 := r2.unread
          rw [h1, hu1, List.drop_append_of_le_length (by simp [List.length_take]; omega)] at h2
          exact List.append_inj_left' h2 (by simp)
        have hhdr : 1 ≤ (Codec.lenPrefix b.length).length := by
          unfold Codec.lenPrefix; repeat' split
          all_goals simp [be16, be32, be64]
        have r' : Reserve c c2 (1 + ((Codec.lenPrefix b.length).length - 1 + b.length)) (x - 1) :=
          ⟨r2.inv, by rw [r2.limit, r1.limit], hun0, by omega, by have := r2.idx; omega, by omega,
           fun _ => by omega, fun hlt => by omega, by rw [unread_length c h] at hrx; omega,
           by rcases r2.rp with h1 | h1 <;> rcases r1.rp with h2 | h2 <;> simp [h1, h2]⟩
        obtain ⟨p1, p2, p3, _⟩ := poke_reserve r' (Codec.lenPrefix b.length ++ b) (by simp; omega)
        exact ⟨p1, p2, fun _ => p3, by simp⟩

/-- positional writes never change the length, the cursor or anything outside `[p, p+|b|)` -/
theorem writePos_spec (c : Chunk) (p : Int) (b : Bytes) (hb : 0 < b.length) (h : c.Inv) (c' : Chunk)
    (e : Option Err) (hw : writePos c p b = (c', e)) :
    c'.Inv ∧ c'.limit = c.limit ∧ c'.len = c.len ∧ c'.rpos = c.rpos ∧
    (e = none → 0 ≤ p ∧ p.toNat + b.length ≤ c.len ∧
      c'.view = c.view.take p.toNat ++ b ++ c.view.drop (p.toNat + b.length)) ∧
    (e ≠ none → c' = c) := by
  obtain ⟨rl, lc, lim, nl⟩ := h
  unfold writePos at hw
  simp only at hw
  split at hw
  · simp only [Prod.mk.injEq] at hw; obtain ⟨rfl, rfl⟩ := hw
    exact ⟨⟨rl, lc, lim, nl⟩, rfl, rfl, rfl, by simp, fun _ => rfl⟩
  · split at hw
    · simp only [Prod.mk.injEq] at hw; obtain ⟨rfl, rfl⟩ := hw
      exact ⟨⟨rl, lc, lim, nl⟩, rfl, rfl, rfl, by simp, fun _ => rfl⟩
    · split at hw
      · simp only [Prod.mk.injEq] at hw; obtain ⟨rfl, rfl⟩ := hw
        exact ⟨⟨rl, lc, lim, nl⟩, rfl, rfl, rfl, by simp, fun _ => rfl⟩
      · rename_i h1 h2 h3
        simp only [Prod.mk.injEq] at hw; obtain ⟨rfl, rfl⟩ := hw
        have hp0 : 0 ≤ p := by omega
        have hpl : p.toNat + b.length ≤ c.len := by omega
        have hal : (poke c p.toNat b).arr.length = c.arr.length := by simp [poke]; omega
        refine ⟨⟨rl, by rw [hal]; exact lc, lim, ?_⟩, rfl, rfl, rfl, fun _ => ⟨hp0, hpl, ?_⟩, by simp⟩
        · intro hn
          have ha := nl hn
          have hl0 : c.len = 0 := by rw [ha] at lc; simpa using lc
          omega
        · show (c.arr.take p.toNat ++ b ++ c.arr.drop (p.toNat + b.length)).take c.len = _
          simp only [view]
          have e1 : (c.arr.take p.toNat).length = p.toNat := by simp [List.length_take]; omega
          rw [List.take_append, List.take_append]
          simp only [e1, List.length_append]
          rw [List.take_of_length_le (l := c.arr.take p.toNat) (by omega),
              List.take_of_length_le (l := b) (by omega), List.take_take, List.take_drop, List.drop_take]
          rw [Nat.min_eq_left (by omega), List.drop_take]
          congr 2
          omega

end Chunk
end XMT.Chunk
