/-
  XMT.ChunkPanic — a PANIC outcome for the Chunk model (review item #3/#12 of DESIGN B.5: "the Chunk
  model has no panic outcome").

  Go panics when `c.buf[i]` is used with `i ∉ [0, len)`, when `c.buf[i:]` is used with `i ∉ [0, len]`
  and when `c.buf[:j]` / `c.buf[i:j]` is used with `j > cap` (or `i > j`, or a negative bound).  The
  functions below repeat the statements of the exported methods that index or reslice `c.buf`
  DIRECTLY — every such expression of the source is a `guardP` with the Go expression as its site —
  and return `PRes.panic site` when the bound check fails:

    positional writers (chunk_writer.go WriteBoolPos/WriteUint8Pos/16/32/64Pos: `_ = c.buf[p+k]`,
      `c.buf[p] = …`), with a switch for the `if p < 0` guard of fix 6edbaf9;
    Read (`c.buf[c.rpos:]`), Uint8/16/32/64 (`c.buf[c.rpos+k-1]`, `c.buf[c.rpos]`);
    Truncate (`c.buf[:c.rpos+n]`), Reset (`c.buf[:0]`), Clear, Grow (`c.buf[:m]`);
    Write (`c.buf[m:]`), WriteUint8/16/32/64 (`_ = c.buf[i+k-1]`);
    Payload (`c.buf[c.Size()-1]`, `c.buf[c.rpos:c.Size()]`), String (`c.buf[c.rpos]`, `c.buf[c.rpos:]`),
    MarshalStream (`c.buf[c.rpos:]`, no Empty() check in the source).

  The reservation code (`reslice`, `grow`, `quickSlice`, `checkWriteSize`) and `WriteBytes` are used
  here through the total model; their own panic-outcome versions, with the proof that they agree
  with the total model under `Inv`, are in XMT/ChunkPanicGrow.lean.

  data/chunk_heap.go (build tags `windows && heap`, never compiled here) differs in representation
  (`wpos` instead of `len(c.buf)`, `Size() = wpos`, `Reset` keeps the slice, `Truncate` zeroes instead
  of reslicing, `grow` never slides and returns only an error): it is a different program and is
  outside this model (see the `not modelled` list of the C11 method census).
-/
import XMT.ChunkSeq
namespace XMT.Chunk
open XMT

/-- result of a Go statement sequence that may panic -/
inductive PRes (α : Type)
  | ok (a : α)
  | panic (site : String)
  deriving DecidableEq, Repr

def PRes.bind {α β : Type} : PRes α → (α → PRes β) → PRes β
  | .ok a, f => f a
  | .panic s, _ => .panic s

instance : Monad PRes where
  pure := .ok
  bind := PRes.bind

def PRes.isPanic {α : Type} : PRes α → Bool
  | .panic _ => true
  | .ok _ => false

/-- a Go bounds check -/
def guardP (p : Prop) [Decidable p] (site : String) : PRes Unit := if p then .ok () else .panic site

theorem guardP_pos {p : Prop} [Decidable p] (h : p) (s : String) : guardP p s = .ok () := by
  simp [guardP, h]

@[simp] theorem PRes.ok_bind {α β : Type} (a : α) (f : α → PRes β) : (PRes.ok a >>= f) = f a := rfl
@[simp] theorem PRes.pure_eq {α : Type} (a : α) : (pure a : PRes α) = .ok a := rfl

namespace Chunk

/-- `c.buf[i]` is in range -/
abbrev idxOK (c : Chunk) (i : Int) : Prop := 0 ≤ i ∧ i < (c.len : Int)
/-- `c.buf[i:]` is in range -/
abbrev fromOK (c : Chunk) (i : Int) : Prop := 0 ≤ i ∧ i ≤ (c.len : Int)
/-- `c.buf[:j]` is in range (the bound is the CAPACITY) -/
abbrev toOK (c : Chunk) (j : Int) : Prop := 0 ≤ j ∧ j ≤ (c.cap : Int)
/-- `c.buf[i:j]` is in range -/
abbrev sliceOK (c : Chunk) (i j : Int) : Prop := 0 ≤ i ∧ i ≤ j ∧ j ≤ (c.cap : Int)

/-- `Reset()`: `c.rpos, c.buf = 0, c.buf[:0]` -/
def resetP (c : Chunk) : PRes Chunk := do
  guardP (toOK c 0) "Reset: c.buf[:0]"
  pure c.reset

/-- the positional writers; `guardNeg = true` is the code as it is (fix 6edbaf9), `false` the code
before it (no `if p < 0` test). -/
def writePosP (guardNeg : Bool) (c : Chunk) (p : Int) (b : Bytes) : PRes (Chunk × Option Err) :=
  let k : Int := (b.length : Int) - 1
  if guardNeg = true ∧ p < 0 then pure (c, some .invalidIndex)
  else if p ≥ c.len ∨ p + k ≥ c.len then pure (c, some .eof)
  else if c.limit > 0 ∧ (p ≥ c.limit ∨ p + k ≥ c.limit) then pure (c, some .limit)
  else do
    guardP (idxOK c (p + k)) "WriteUintNPos: _ = c.buf[p+k]"
    guardP (idxOK c p) "WriteUintNPos: c.buf[p] = …"
    pure (poke c p.toNat b, none)

/-- `Read(b)` -/
def readP (c : Chunk) (k : Nat) : PRes (Chunk × Bytes × Option Err) :=
  if c.isEmpty then do
    let c' ← resetP c
    pure (c', [], if k = 0 then none else some .eof)
  else do
    guardP (fromOK c c.rpos) "Read: c.buf[c.rpos:]"
    let got := c.unread.take k
    pure ({ c with rpos := c.rpos + got.length }, got, none)

/-- `Uint8/16/32/64()` -/
def readFixedP (c : Chunk) (k : Nat) : PRes (Chunk × Except Err Bytes) :=
  if c.rpos + k > c.len then pure (c, .error .eof)
  else do
    guardP (idxOK c ((c.rpos : Int) + k - 1)) "UintN: _ = c.buf[c.rpos+k-1]"
    guardP (idxOK c c.rpos) "UintN: c.buf[c.rpos]"
    pure ({ c with rpos := c.rpos + k }, .ok (c.unread.take k))

/-- `Truncate(n)` -/
def truncateP (c : Chunk) (n : Int) : PRes (Chunk × Option Err) :=
  if n = 0 then do
    let c' ← resetP c
    pure (c', none)
  else if n < 0 ∨ n > (c.len : Int) - c.rpos then pure (c, some .invalidIndex)
  else do
    guardP (toOK c ((c.rpos : Int) + n)) "Truncate: c.buf[:c.rpos+n]"
    pure ({ c with len := c.rpos + n.toNat }, none)

/-- `Payload()`: `none` = the nil return -/
def payloadP (c : Chunk) : PRes (Option Bytes) :=
  if c.isEmpty ∨ c.rpos > c.size then pure none
  else do
    guardP (idxOK c ((c.size : Int) - 1)) "Payload: _ = c.buf[c.Size()-1]"
    guardP (sliceOK c c.rpos c.size) "Payload: c.buf[c.rpos:c.Size()]"
    pure (some c.unread)

/-- `String()`: `none` = "<nil>" -/
def stringP (c : Chunk) : PRes (Option Bytes) :=
  if c.isEmpty then pure none
  else do
    guardP (idxOK c c.rpos) "String: _ = c.buf[c.rpos]"
    guardP (fromOK c c.rpos) "String: c.buf[c.rpos:]"
    pure (some c.unread)

/-- the argument `MarshalStream` hands to `w.WriteBytes` (no `Empty()` test in the source) -/
def marshalArgP (c : Chunk) : PRes Bytes := do
  guardP (fromOK c c.rpos) "MarshalStream: c.buf[c.rpos:]"
  pure c.unread

section
variable (cf : Nat → Nat)

/-- `Grow(n)` -/
def growOpP (c : Chunk) (n : Int) : PRes (Chunk × Option Err) :=
  if n ≤ 0 then pure (c, some .invalidIndex)
  else match grow cf c n.toNat with
    | (c, .error e) => pure (c, some e)
    | (c, .ok m) => do
      guardP (toOK c m) "Grow: c.buf[:m]"
      pure ({ c with len := m }, none)

/-- `Write(b)` -/
def writeP (c : Chunk) (b : Bytes) : PRes (Chunk × Nat × Option Err) :=
  match quickSlice cf c b.length with
  | (c, .error e) => pure (c, 0, some e)
  | (c, .ok m) => do
    guardP (fromOK c m) "Write: c.buf[m:]"
    let n := min (c.len - m) b.length
    let c := poke c m (b.take n)
    if n < b.length ∧ c.limit > 0 ∧ (c.len : Int) ≥ c.limit then pure (c, n, some .limit) else pure (c, n, none)

/-- `WriteUint8/16/32/64`, `WriteBool` -/
def writeFixedP (c : Chunk) (b : Bytes) : PRes (Chunk × Option Err) :=
  match checkWriteSize cf c b.length with
  | (c, .error e) => pure (c, some e)
  | (c, .ok i) => do
    guardP (idxOK c ((i : Int) + b.length - 1)) "WriteUintN: _ = c.buf[i+k-1]"
    guardP (idxOK c i) "WriteUintN: c.buf[i] = …"
    pure (poke c i b, none)

/-- one operation, with the panic outcome (`seek` indexes nothing; `bytes` = WriteBytes goes through the
total model, its guarded version is `writeBytesP` in XMT/ChunkPanicGrow.lean) -/
def stepP (c : Chunk) : Op → PRes (Chunk × Out)
  | .write b => do let r ← writeP cf c b; pure (r.1, .wrote r.2.1 r.2.2)
  | .read k => do let r ← readP c k; pure (r.1, .got r.2.1 r.2.2)
  | .fixed b => do let r ← writeFixedP cf c b; pure (r.1, .err r.2)
  | .bytes b => let r := c.writeBytes cf b; pure (r.1, .err r.2)
  | .readFixed k => do
    let r ← readFixedP c k
    pure (r.1, match r.2 with | .ok b => .got b none | .error e => .got [] (some e))
  | .truncate n => do let r ← truncateP c n; pure (r.1, .err r.2)
  | .grow n => do let r ← growOpP cf c n; pure (r.1, .err r.2)
  | .seek o w => let r := c.seek o w; pure (r.1, .off r.2.1 r.2.2)
  | .pos p b => do let r ← writePosP true c p b; pure (r.1, .err r.2)
  | .reset => do let c' ← resetP c; pure (c', .err none)
  | .clear => pure (c.clear, .err none)

def runP (c : Chunk) : List Op → PRes (Chunk × List Out)
  | [] => pure (c, [])
  | op :: ops => do
    let r ← stepP cf c op
    let rs ← runP r.1 ops
    pure (rs.1, r.2 :: rs.2)

end

/-- the widths the Go methods use are at least one byte -/
def OpOKP (op : Op) : Prop :=
  (∀ p b, op = .pos p b → 0 < b.length) ∧ (∀ b, op = .fixed b → 0 < b.length) ∧
  (∀ k, op = .readFixed k → 0 < k)

theorem resetP_ok (c : Chunk) : resetP c = .ok c.reset := by
  unfold resetP
  rw [guardP_pos (by constructor <;> omega)]
  rfl

theorem writePosP_ok (c : Chunk) (p : Int) (b : Bytes) (hb : 0 < b.length) :
    writePosP true c p b = .ok (c.writePos p b) := by
  unfold writePosP writePos
  simp only [true_and]
  split
  · rfl
  · split
    · rfl
    · split
      · rfl
      · rw [guardP_pos (by constructor <;> omega), guardP_pos (by constructor <;> omega)]
        rfl

theorem readP_ok (c : Chunk) (k : Nat) (h : c.Inv) : readP c k = .ok (c.read k) := by
  unfold readP read
  split
  · rw [resetP_ok]; rfl
  · rw [guardP_pos (by have := h.rl; constructor <;> omega)]
    rfl

theorem readFixedP_ok (c : Chunk) (k : Nat) (hk : 0 < k) : readFixedP c k = .ok (c.readFixed k) := by
  unfold readFixedP readFixed
  split
  · rfl
  · rw [guardP_pos (by constructor <;> omega), guardP_pos (by constructor <;> omega)]
    rfl

theorem truncateP_ok (c : Chunk) (n : Int) (h : c.Inv) : truncateP c n = .ok (c.truncate n) := by
  unfold truncateP truncate
  split
  · rw [resetP_ok]; rfl
  · split
    · rfl
    · rw [guardP_pos (by have := h.lc; have := h.rl; unfold toOK cap; constructor <;> omega)]
      rfl

theorem payloadP_ok (c : Chunk) (h : c.Inv) : (payloadP c).isPanic = false := by
  unfold payloadP
  split
  · rfl
  · rename_i hc
    have : ¬ c.len ≤ c.rpos := by intro hh; apply hc; left; simp [isEmpty, hh]
    rw [guardP_pos (by unfold size; constructor <;> omega),
      guardP_pos (by have := h.lc; unfold sliceOK size cap; refine ⟨?_, ?_, ?_⟩ <;> omega)]
    rfl

theorem stringP_ok (c : Chunk) : (stringP c).isPanic = false := by
  unfold stringP
  split
  · rfl
  · rename_i hc
    have : ¬ c.len ≤ c.rpos := by intro hh; apply hc; simp [isEmpty, hh]
    rw [guardP_pos (by constructor <;> omega), guardP_pos (by constructor <;> omega)]
    rfl

theorem marshalArgP_ok (c : Chunk) (h : c.Inv) : marshalArgP c = .ok c.unread := by
  unfold marshalArgP
  rw [guardP_pos (by have := h.rl; constructor <;> omega)]
  rfl

variable (cf : Nat → Nat)

theorem growOpP_ok (c : Chunk) (n : Int) (h : c.Inv) : growOpP cf c n = .ok (c.growOp cf n) := by
  unfold growOpP growOp
  split
  · rfl
  · split
    · rename_i c1 e1 hq
      simp only [hq]; rfl
    · rename_i c1 m hq
      have r := grow_ok cf h hq
      simp only [hq]
      rw [guardP_pos (by have := r.idx; have := r.inv.lc; unfold toOK cap; constructor <;> omega)]
      rfl

theorem writeP_ok (c : Chunk) (b : Bytes) (h : c.Inv) : writeP cf c b = .ok (c.write cf b) := by
  unfold writeP write
  split
  · rename_i c1 e1 hq
    simp only [hq]; rfl
  · rename_i c1 m hq
    have r := quickSlice_ok cf h hq
    simp only [hq]
    rw [guardP_pos (by have := r.idx; constructor <;> omega)]
    simp only [PRes.ok_bind]
    split <;> rfl

theorem writeFixedP_ok (c : Chunk) (b : Bytes) (hb : 0 < b.length) (h : c.Inv) :
    writeFixedP cf c b = .ok (c.writeFixed cf b) := by
  unfold writeFixedP writeFixed
  split
  · rename_i c1 e1 hq
    simp only [hq]; rfl
  · rename_i c1 i hq
    obtain ⟨_, hl⟩ := checkWriteSize_ok cf h hq
    simp only [hq]
    rw [guardP_pos (by constructor <;> omega), guardP_pos (by constructor <;> omega)]
    rfl

/-- **every operation, from a state satisfying the invariant, does not panic and returns exactly what
the total model returns.** -/
theorem stepP_ok (c : Chunk) (op : Op) (hop : OpOKP op) (h : c.Inv) :
    stepP cf c op = .ok (step cf c op) := by
  cases op with
  | write b => simp only [stepP, step, writeP_ok cf c b h]; rfl
  | read k => simp only [stepP, step, readP_ok c k h]; rfl
  | fixed b => simp only [stepP, step, writeFixedP_ok cf c b (hop.2.1 b rfl) h]; rfl
  | bytes b => rfl
  | readFixed k => simp only [stepP, step, readFixedP_ok c k (hop.2.2 k rfl)]; rfl
  | truncate n => simp only [stepP, step, truncateP_ok c n h]; rfl
  | grow n => simp only [stepP, step, growOpP_ok cf c n h]; rfl
  | seek o w => rfl
  | pos p b => simp only [stepP, step, writePosP_ok c p b (hop.1 p b rfl)]; rfl
  | reset => simp only [stepP, step, resetP_ok]; rfl
  | clear => rfl

end Chunk
end XMT.Chunk
