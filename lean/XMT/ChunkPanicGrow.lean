/-
  XMT.ChunkPanicGrow — panic outcome for the RESERVATION code of data/chunk.go: `reslice`, `grow`
  (rewind `c.buf[:0]`, slide `copy(c.buf, c.buf[c.rpos:])` + `c.buf[:x+n]`, reallocation
  `trySlice(c.buf[c.rpos:], …)`, `x[:len(b)]`, `c.buf[:x+n]`, `make([]byte, n, 64)`), `quickSlice` and
  `checkWriteSize` (chunk_writer.go).  Every reslice of the source is a `guardP` with Go's bound
  (`j ≤ cap` for `s[:j]`, `i ≤ len` for `s[i:]`); `x` is Go's signed `len(c.buf) - c.rpos`.

  `growP_ok` … `checkWriteSizeP_ok`: from a state satisfying `Inv` none of them panics and the result
  is the one of the total model — so `stepP` (XMT/ChunkPanic.lean), which reserves through the total
  `quickSlice` / `grow` / `checkWriteSize`, loses nothing by doing so.
-/
import XMT.ChunkPanic
namespace XMT.Chunk
open XMT
namespace Chunk

/-- `reslice(n)`: `c.buf = c.buf[:l+n]` -/
def resliceP (c : Chunk) (n : Nat) : PRes (Option (Chunk × Nat)) :=
  if (n : Int) ≤ (c.cap : Int) - c.len then
    if c.limit > 0 then
      if (c.len : Int) ≥ c.limit then pure none
      else
        let n' : Nat := if (c.len : Int) + n ≥ c.limit then (c.limit - c.len).toNat else n
        do
          guardP (toOK c ((c.len : Int) + n')) "reslice: c.buf[:l+n]"
          pure (some ({ c with len := c.len + n' }, c.len))
    else do
      guardP (toOK c ((c.len : Int) + n)) "reslice: c.buf[:l+n]"
      pure (some ({ c with len := c.len + n }, c.len))
  else pure none

/-- `if x == 0 && c.rpos != 0 { c.rpos, c.buf = 0, c.buf[:0] }` with Go's signed `x` -/
def growPreP (c : Chunk) : PRes Chunk :=
  if (c.len : Int) - c.rpos = 0 ∧ c.rpos ≠ 0 then do
    guardP (toOK c 0) "grow: c.buf[:0]"
    pure { c with rpos := 0, len := 0 }
  else pure c

section
variable (cf : Nat → Nat)

/-- the allocation part of `grow` -/
def growAllocP (c : Chunk) (x n : Nat) : PRes (Chunk × Except Err Nat) :=
  if c.isNil ∧ n ≤ 64 then
    -- `make([]byte, n, 64)` (would panic with len > cap: excluded by the test itself)
    pure ({ c with arr := zeros 64, len := n, isNil := false }, .ok 0)
  else
    let m := c.cap
    if (n : Int) ≤ ((m / 2 : Nat) : Int) - x then do
      guardP (fromOK c c.rpos) "grow: copy(c.buf, c.buf[c.rpos:])"
      guardP (toOK c ((x + n : Nat) : Int)) "grow: c.buf[:x+n] after the slide"
      pure ({ c with arr := c.unread ++ c.arr.drop x, rpos := 0, len := x + n }, .ok x)
    else if c.limit > 0 ∧ ((m : Int) > c.limit + n ∨ ((x + n : Nat) : Int) > c.limit) then pure (c, .error .limit)
    else if (m : Int) > (maxInt : Int) - m - n then pure (c, .error .tooLarge)
    else if c.rpos + n > Facts.maxSlice then pure (c, .error .tooLarge)
    else
      let need := max (x + (c.rpos + n)) (2 * (m - c.rpos))
      let capNew := max (cf need) need
      do
        guardP (fromOK c c.rpos) "grow: trySlice(c.buf[c.rpos:], …)"
        guardP (x ≤ capNew) "trySlice: x[:len(b)]"
        guardP (x + n ≤ capNew) "grow: c.buf[:x+n] of the new buffer"
        pure ({ c with arr := c.unread ++ zeros (capNew - x), rpos := 0, len := x + n, isNil := false }, .ok x)

/-- `grow(n)` -/
def growP (c : Chunk) (n : Nat) : PRes (Chunk × Except Err Nat) := do
  let c ← growPreP c
  let x := c.len - c.rpos
  if c.limit > 0 ∧ (x : Int) ≥ c.limit then pure (c, .error .limit) else
  let n := growN c x n
  match ← resliceP c n with
  | some (c', i) => pure (c', .ok i)
  | none => growAllocP cf c x n

/-- `quickSlice(n)` -/
def quickSliceP (c : Chunk) (n : Nat) : PRes (Chunk × Except Err Nat) := do
  match ← resliceP c n with
  | some (c', i) => pure (c', .ok i)
  | none => growP cf c n

/-- `checkWriteSize(n)` -/
def checkWriteSizeP (c : Chunk) (n : Nat) : PRes (Chunk × Except Err Nat) :=
  if c.limit > 0 ∧ ¬ c.available n then pure (c, .error .limit)
  else do
    match ← quickSliceP cf c n with
    | (c, .error e) => pure (c, .error e)
    | (c, .ok i) => if c.limit ≤ 0 ∧ c.len < i + n then pure (c, .error .shortWrite) else pure (c, .ok i)

end

/-- the reslice of `reslice` is in range by its own capacity test — in every state -/
theorem resliceP_ok (c : Chunk) (n : Nat) : resliceP c n = .ok (reslice c n) := by
  unfold resliceP reslice
  split
  · split
    · split
      · rfl
      · simp only
        rw [guardP_pos (by unfold toOK; split <;> constructor <;> omega)]
        rfl
    · rw [guardP_pos (by unfold toOK; constructor <;> omega)]
      rfl
  · rfl

theorem growPreP_ok (c : Chunk) (h : c.Inv) : growPreP c = .ok (growPre c) := by
  have := h.rl
  unfold growPreP growPre
  split
  · rename_i hc
    rw [if_pos ⟨by omega, hc.2⟩, guardP_pos (by unfold toOK; constructor <;> omega)]
    rfl
  · rename_i hc
    rw [if_neg (by intro hh; apply hc; exact ⟨by omega, hh.2⟩)]
    rfl

variable (cf : Nat → Nat)

theorem growAllocP_ok (c : Chunk) (n : Nat) (h : c.Inv) :
    growAllocP cf c (c.len - c.rpos) n = .ok (growAlloc cf c (c.len - c.rpos) n) := by
  have := h.rl
  have := h.lc
  have hcap : c.cap = c.arr.length := rfl
  unfold growAllocP growAlloc
  split
  · rfl
  · simp only
    split
    · rw [guardP_pos (by unfold fromOK; constructor <;> omega),
        guardP_pos (by unfold toOK; constructor <;> omega)]
      rfl
    · split
      · rfl
      · split
        · rfl
        · split
          · rfl
          · rw [guardP_pos (by unfold fromOK; constructor <;> omega), guardP_pos (by omega),
              guardP_pos (by omega)]
            rfl

theorem growP_ok (c : Chunk) (n : Nat) (h : c.Inv) : growP cf c n = .ok (grow cf c n) := by
  have k := (growPre_kept h).inv
  unfold growP grow
  rw [growPreP_ok c h]
  simp only [PRes.ok_bind]
  split
  · rfl
  · rw [resliceP_ok]
    simp only [PRes.ok_bind]
    split
    · rename_i heq; simp only [heq]; rfl
    · rename_i heq; simp only [heq]; exact growAllocP_ok cf (growPre c) _ k

theorem quickSliceP_ok (c : Chunk) (n : Nat) (h : c.Inv) : quickSliceP cf c n = .ok (quickSlice cf c n) := by
  unfold quickSliceP quickSlice
  rw [resliceP_ok]
  simp only [PRes.ok_bind]
  split
  · rename_i heq; simp only [heq]; rfl
  · rename_i heq; simp only [heq]; exact growP_ok cf c n h

theorem checkWriteSizeP_ok (c : Chunk) (n : Nat) (h : c.Inv) :
    checkWriteSizeP cf c n = .ok (checkWriteSize cf c n) := by
  unfold checkWriteSizeP checkWriteSize
  split
  · rfl
  · rw [quickSliceP_ok cf c n h]
    simp only [PRes.ok_bind]
    split
    · rename_i heq; simp only [heq]; rfl
    · rename_i heq; simp only [heq]
      split <;> rfl

/-- `WriteBytes(b)` with every index / reslice of the source guarded: `c.buf[i] = 0`, the roll-back
`c.buf = c.buf[:i]`, `_ = c.buf[i+k+l]` (k = number of length bytes), `c.buf[i] = tag …`,
`copy(c.buf[x:], b)` (x already advanced by k). -/
def writeBytesP (c : Chunk) (b : Bytes) : PRes (Chunk × Option Err) := do
  match ← checkWriteSizeP cf c 1 with
  | (c, .error e) => pure (c, some e)
  | (c, .ok i) =>
    if b.length = 0 then do
      guardP (idxOK c i) "WriteBytes: c.buf[i] = 0"
      pure (poke c i [0], none)
    else
      let hdr := Codec.lenPrefix b.length
      match ← checkWriteSizeP cf c (hdr.length - 1 + b.length) with
      | (c, .error e) => do
        guardP (toOK c i) "WriteBytes: c.buf = c.buf[:i]"
        pure ({ c with len := i }, some e)
      | (c, .ok x) => do
        guardP (idxOK c ((x : Int) - 1 + (hdr.length - 1 : Nat) + b.length)) "WriteBytes: _ = c.buf[i+k+l]"
        guardP (idxOK c ((x : Int) - 1)) "WriteBytes: c.buf[i] = tag"
        guardP (fromOK c ((x : Int) + (hdr.length - 1 : Nat))) "WriteBytes: copy(c.buf[x:], b)"
        pure (poke c (x - 1) (hdr ++ b), none)

theorem writeBytesP_ok (c : Chunk) (b : Bytes) (h : c.Inv) :
    writeBytesP cf c b = .ok (writeBytes cf c b) := by
  unfold writeBytesP writeBytes
  rw [checkWriteSizeP_ok cf c 1 h]
  simp only [PRes.ok_bind]
  rcases hq : checkWriteSize cf c 1 with ⟨c1, e1 | i⟩
  · rfl
  · obtain ⟨r1, hl1⟩ := checkWriteSize_ok cf h hq
    simp only
    split
    · rw [guardP_pos (by constructor <;> omega)]
      rfl
    · rw [checkWriteSizeP_ok cf c1 _ r1.inv]
      simp only [PRes.ok_bind]
      rcases hq2 : checkWriteSize cf c1 ((Codec.lenPrefix b.length).length - 1 + b.length) with ⟨c2, e2 | x⟩
      · have hc2 : c2 = c1 := by
          rcases checkWriteSize_err cf r1.inv hq2 with h2 | h2
          · exact h2
          · rw [h2]; exact growPre_id (by have := r1.ir; omega)
        subst hc2
        simp only
        rw [guardP_pos (by have := r1.inv.lc; unfold toOK cap; constructor <;> omega)]
        rfl
      · obtain ⟨r2, hl2⟩ := checkWriteSize_ok cf r1.inv hq2
        have hx1 : 1 ≤ x := by have := r2.ix; have := r1.ir; omega
        have hhdr : 1 ≤ (Codec.lenPrefix b.length).length := by
          unfold Codec.lenPrefix; repeat' split
          all_goals simp [be16, be32, be64]
        simp only
        rw [guardP_pos (by constructor <;> omega), guardP_pos (by constructor <;> omega),
          guardP_pos (by constructor <;> omega)]
        rfl

end Chunk
end XMT.Chunk
