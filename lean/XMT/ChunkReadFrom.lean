import XMT.ChunkOps
import XMT.CodecLemmas
namespace XMT.Chunk
open XMT
namespace Chunk
variable (cf : Nat → Nat)

theorem maxSlice_small : Facts.maxSlice ≤ 2^60 := by decide
theorem bufSize_pos : 0 < Facts.bufSize := by decide

/-- with the cursor at 0 and room under the limit, `quickSlice` cannot fail -/
theorem quickSlice_fits {c : Chunk} {n : Nat} (h : c.Inv) (hl : c.limit > 0) (hr : c.rpos = 0)
    (hfit : (c.len : Int) + n ≤ c.limit) (hn : 0 < n) (hm : c.limit ≤ Facts.maxSlice) :
    ∃ c' i, quickSlice cf c n = (c', .ok i) := by
  have hms := maxSlice_small
  unfold quickSlice
  split
  · exact ⟨_, _, rfl⟩
  · rename_i hres
    have hgp : growPre c = c := by unfold growPre; rw [if_neg]; omega
    -- reslice failed although the chunk is not at its limit: the capacity is too small
    have hcap : (c.cap : Int) < c.len + n := by
      unfold reslice at hres
      split at hres
      · split at hres
        · omega
        · simp at hres
      · omega
    unfold grow
    simp only [hgp]
    rw [if_neg (by omega)]
    have hgn : growN c (c.len - c.rpos) n = n := by
      unfold growN; rw [if_neg]; omega
    rw [hgn, hres]
    simp only
    unfold growAlloc
    split
    · exact ⟨_, _, rfl⟩
    · simp only
      split
      · exact ⟨_, _, rfl⟩
      · rw [if_neg (by omega)]
        rw [if_neg (by unfold maxInt; omega)]
        rw [if_neg (by omega)]
        exact ⟨_, _, rfl⟩

/-- a write that fits under the limit is accepted completely -/
theorem write_fits (c : Chunk) (b : Bytes) (h : c.Inv) (hl : c.limit > 0) (hr : c.rpos = 0)
    (hfit : (c.len : Int) + b.length ≤ c.limit) (hb : 0 < b.length) (hm : c.limit ≤ Facts.maxSlice) :
    ∃ c', write cf c b = (c', b.length, none) ∧ c'.Inv ∧ c'.limit = c.limit ∧ c'.rpos = 0 ∧
      c'.len = c.len + b.length ∧ c'.unread = c.unread ++ b := by
  obtain ⟨c1, m, hq⟩ := quickSlice_fits cf h hl hr hfit hb hm
  have r := quickSlice_ok cf h hq
  have hr1 : c1.rpos = 0 := by rcases r.rp with h1 | h1 <;> omega
  -- the reserved room starts right after the existing bytes
  have hm0 : m = c.len := by
    have h1 := congrArg List.length r.unread
    rw [unread_length c h, hr1, hr] at h1
    simp only [List.drop_zero, List.length_take] at h1
    have := r.inv.lc; have := r.idx
    omega
  have hlen1 : c1.len = m + b.length := by
    have h1 := r.room
    by_cases hlt : c1.len < m + b.length
    · have := r.clamped hlt; omega
    · omega
  unfold write
  rw [hq]
  simp only
  have hmin : min (c1.len - m) b.length = b.length := by omega
  rw [hmin, List.take_length]
  obtain ⟨p1, p2, p3, p4⟩ := poke_reserve r b (by omega)
  rw [if_neg (by omega)]
  exact ⟨_, rfl, p1, p2, by simp [poke, hr1], by rw [p4]; omega, p3⟩

/-- **`ReadFrom` into a limited chunk reads exactly up to the limit**, whatever the piece sizes:
with `k = min (room under the limit) (bytes in the stream)`, `k` bytes are appended, `k` is what is
counted, and the stream is advanced by exactly `k`. -/
theorem readFromLoop_spec (L : Int) (hL : 0 < L) (hLm : L ≤ Facts.maxSlice) :
    ∀ (fuel : Nat) (c : Chunk) (s : Codec.Stream) (t : Nat), c.Inv → c.limit = L → c.rpos = 0 →
      Codec.NoEmpty s → s.flatten.length < fuel →
      ∃ c' s', readFromLoop cf fuel c s t = (c', t + min (L.toNat - c.len) s.flatten.length, s') ∧
        c'.Inv ∧ c'.limit = L ∧ c'.rpos = 0 ∧
        c'.unread = c.unread ++ s.flatten.take (min (L.toNat - c.len) s.flatten.length) ∧
        c'.len = c.len + min (L.toNat - c.len) s.flatten.length ∧
        s'.flatten = s.flatten.drop (min (L.toNat - c.len) s.flatten.length) ∧ Codec.NoEmpty s' := by
  intro fuel
  induction fuel with
  | zero => intro c s t _ _ _ _ hf; omega
  | succ fuel ih =>
    intro c s t h hlim hr hne hf
    have hbuf := bufSize_pos
    have hlen := h.lim (by omega)
    unfold readFromLoop
    by_cases hsp : c.limit > 0 ∧ c.space ≤ 0
    · -- no room left
      rw [if_pos hsp]
      have : L.toNat - c.len = 0 := by
        unfold space at hsp; rw [hlim] at hsp hlen
        rw [if_neg (by omega)] at hsp
        split at hsp <;> omega
      simp only [this, Nat.zero_min, Nat.add_zero, List.take_zero, List.append_nil, List.drop_zero]
      exact ⟨c, s, rfl, h, hlim, hr, rfl, rfl, rfl, hne⟩
    · rw [if_neg hsp]
      have hroom : (c.len : Int) < L := by
        unfold space at hsp; rw [hlim] at hsp
        rw [if_neg (by omega)] at hsp
        by_cases hh : L - (c.len : Int) > 0
        · omega
        · rw [if_neg hh] at hsp; exact absurd ⟨hL, Int.le_refl 0⟩ hsp
      have hspace : c.space = L - c.len := by
        unfold space; rw [hlim, if_neg (by omega), if_pos (by omega)]
      simp only
      match s, hne, hf with
      | [], _, _ =>
        simp only [List.flatten_nil, List.length_nil, Nat.min_zero, Nat.add_zero, List.take_zero,
          List.append_nil, List.drop_zero]
        exact ⟨c, [], rfl, h, hlim, hr, rfl, rfl, rfl, fun _ hx => by cases hx⟩
      | p :: ps, hne, hf =>
        have hp : p ≠ [] := hne p List.mem_cons_self
        have hps : Codec.NoEmpty ps := fun x hx => hne x (List.mem_cons_of_mem _ hx)
        have hplen : 0 < p.length := List.length_pos_iff.mpr hp
        rw [if_pos (by omega), hspace]
        -- x = min (room) bufSize
        generalize hx : min (L - (c.len : Int)).toNat Facts.bufSize = x
        have hx0 : 0 < x := by omega
        have hxr : (x : Int) ≤ L - c.len := by omega
        have hgl : (p.take x).length = min x p.length := by simp [List.length_take]
        have hg0 : 0 < (p.take x).length := by omega
        obtain ⟨c1, hw, i1, l1, r1, n1, u1⟩ := write_fits cf c (p.take x) h (by rw [hlim]; exact hL) hr
          (by rw [hlim]; omega) hg0 (by rw [hlim]; exact hLm)
        simp only [hw]
        rw [if_neg (Nat.lt_irrefl _)]
        -- the stream after this piece
        have hsfl : ((if p.length ≤ x then ps else p.drop x :: ps) : Codec.Stream).flatten =
            (p :: ps).flatten.drop (p.take x).length := by
          split
          · rename_i hle
            simp only [List.flatten_cons]
            rw [List.take_of_length_le hle, List.drop_left]
          · rename_i hle
            simp only [List.flatten_cons, hgl]
            rw [Nat.min_eq_left (by omega), List.drop_append_of_le_length (by omega)]
        have hsne : Codec.NoEmpty (if p.length ≤ x then ps else p.drop x :: ps) := by
          split
          · exact hps
          · rename_i hle
            intro y hy
            cases hy with
            | head => intro h0; have := congrArg List.length h0; simp at this; omega
            | tail _ hy => exact hps y hy
        have hpre : (p.take x) <+: (p :: ps).flatten := by
          simp only [List.flatten_cons]
          exact (List.take_prefix x p).trans (List.prefix_append p ps.flatten)
        have hfl : (p :: ps).flatten = p.take x ++ (p :: ps).flatten.drop (p.take x).length := by
          obtain ⟨z, hz⟩ := hpre
          rw [← hz, List.drop_left]
        have hFl : (p.take x).length ≤ (p :: ps).flatten.length := hpre.length_le
        by_cases hstop : (p.take x).length = 0 ∨ (c1.limit > 0 ∧ ((p.take x).length : Int) ≥ c1.limit)
        · -- a single read filled the whole limit
          rw [if_pos hstop]
          have hk : min (L.toNat - c.len) (p :: ps).flatten.length = (p.take x).length := by
            rcases hstop with h0 | ⟨_, h1⟩
            · omega
            · rw [l1, hlim] at h1; omega
          rw [hk]
          refine ⟨c1, _, rfl, i1, by rw [l1, hlim], r1, ?_, n1, hsfl, hsne⟩
          rw [u1]; congr 1
          conv => rhs; rw [hfl]
          rw [List.take_left]
        · rw [if_neg hstop]
          have hf' : ((if p.length ≤ x then ps else p.drop x :: ps) : Codec.Stream).flatten.length < fuel := by
            rw [hsfl, List.length_drop]; omega
          obtain ⟨c2, s2, e2, i2, l2, r2, u2, n2, f2, ne2⟩ :=
            ih c1 _ (t + (p.take x).length) i1 (by rw [l1, hlim]) r1 hsne hf'
          have hk : min (L.toNat - c.len) (p :: ps).flatten.length =
              (p.take x).length + min (L.toNat - c1.len)
                ((if p.length ≤ x then ps else p.drop x :: ps) : Codec.Stream).flatten.length := by
            rw [hsfl, List.length_drop, n1]; omega
          rw [hk]
          refine ⟨c2, s2, by rw [e2, Nat.add_assoc], i2, l2, r2, ?_, by rw [n2, n1]; omega, ?_, ne2⟩
          · rw [u2, u1, List.append_assoc]; congr 1
            conv => rhs; rw [hfl]
            rw [List.take_append, List.take_of_length_le (Nat.le_add_right _ _)]
            congr 1
            rw [hsfl]; congr 1; omega
          · rw [f2, hsfl, List.drop_drop]

end Chunk
end XMT.Chunk
