/-
  XMT.ChunkRoom — the exact number of bytes `Chunk.Write` accepts (review item #12 of DESIGN B.5).

  `room c k` is what the code of `quickSlice → reslice / grow` really leaves for a `k`-byte request
  under `Limit`, computed from the model state (length, cursor, capacity, limit):

  * the request fits the spare capacity and the buffer is below the limit: the limit counts the WHOLE
    buffer (read bytes included): `Limit - len`;
  * nothing is unread: `grow` rewinds the buffer, the whole `Limit` is free;
  * otherwise `grow` clamps the request to `Limit - unread` (`roomReq`) and then either reslices
    (buffer count again), slides / reallocates (the read bytes are reclaimed: `Limit - unread`), or —
    when the capacity is larger than `Limit + request` and sliding is not possible — refuses
    everything (`refused`).
-/
import XMT.ChunkOps
namespace XMT.Chunk
open XMT
namespace Chunk

theorem reslice_nolimit (c : Chunk) (n : Nat) (hlc : c.len ≤ c.arr.length) (hl : c.limit ≤ 0) :
    reslice c n = if n ≤ c.arr.length - c.len then some ({ c with len := c.len + n }, c.len) else none := by
  unfold reslice cap
  have h2 : ¬ c.limit > 0 := by omega
  by_cases h1 : (n : Int) ≤ (c.arr.length : Int) - c.len
  · have h1' : n ≤ c.arr.length - c.len := by omega
    simp [h1, h1', h2]
  · have h1' : ¬ n ≤ c.arr.length - c.len := by omega
    simp [h1, h1']

theorem reslice_limit (c : Chunk) (n : Nat) (hlc : c.len ≤ c.arr.length) (hl : c.limit > 0) :
    reslice c n = if n ≤ c.arr.length - c.len ∧ (c.len : Int) < c.limit then
        some ({ c with len := c.len + min n (c.limit - c.len).toNat }, c.len) else none := by
  unfold reslice cap
  by_cases h1 : (n : Int) ≤ (c.arr.length : Int) - c.len
  · have h1' : n ≤ c.arr.length - c.len := by omega
    by_cases h3 : (c.len : Int) ≥ c.limit
    · have h3' : ¬ (c.len : Int) < c.limit := by omega
      simp [h1, hl, h3, h3']
    · have h3' : (c.len : Int) < c.limit := by omega
      simp only [h1, h1', hl, h3, h3', if_true, if_false, and_self]
      congr 3
      split <;> omega
  · have h1' : ¬ n ≤ c.arr.length - c.len := by omega
    simp [h1, h1']

/-- the clamped request `grow` works with (`n = Limit - x` when `n > Limit - x`) -/
def roomReq (c : Chunk) (k : Nat) : Nat := min k (c.limit.toNat - (c.len - c.rpos))

/-- `quickSlice` (hence `Write`) refuses the whole request with `ErrLimit`: nothing is accepted. -/
def refused (c : Chunk) (k : Nat) : Prop :=
  c.limit > 0 ∧ ¬ ((c.len : Int) < c.limit ∧ k ≤ c.cap - c.len) ∧ c.len - c.rpos ≠ 0 ∧
    (((c.len - c.rpos : Nat) : Int) ≥ c.limit ∨
     (¬ ((c.len : Int) < c.limit ∧ roomReq c k ≤ c.cap - c.len) ∧
      ¬ ((roomReq c k : Int) ≤ ((c.cap / 2 : Nat) : Int) - ((c.len - c.rpos : Nat) : Int)) ∧
      (c.cap : Int) > c.limit + roomReq c k))

instance (c : Chunk) (k : Nat) : Decidable (refused c k) := by unfold refused; exact inferInstance

/-- The room `Write` has for a `k`-byte request when a limit is set. -/
def room (c : Chunk) (k : Nat) : Nat :=
  if (c.len : Int) < c.limit ∧ k ≤ c.cap - c.len then c.limit.toNat - c.len
  else if c.len - c.rpos = 0 then c.limit.toNat
  else if (c.len : Int) < c.limit ∧ roomReq c k ≤ c.cap - c.len then c.limit.toNat - c.len
  else if (roomReq c k : Int) ≤ ((c.cap / 2 : Nat) : Int) - ((c.len - c.rpos : Nat) : Int) then c.limit.toNat - (c.len - c.rpos)
  else if (c.cap : Int) > c.limit + roomReq c k then 0
  else c.limit.toNat - (c.len - c.rpos)

/-- no `ErrTooLarge` can come up: the sizes are far below `max int` / `MaxSlice` -/
def NoHuge (c : Chunk) (k : Nat) : Prop := 2 * c.cap + k ≤ maxInt ∧ c.rpos + k ≤ Facts.maxSlice
instance (c : Chunk) (k : Nat) : Decidable (NoHuge c k) := by unfold NoHuge; exact inferInstance

theorem maxInt_val : maxInt = 9223372036854775807 := by decide

variable (cf : Nat → Nat)

theorem growN_nolimit (c : Chunk) (x n : Nat) (hl : c.limit ≤ 0) : growN c x n = n := by
  unfold growN; split <;> omega
theorem growN_limit (c : Chunk) (x n : Nat) (hl : c.limit > 0) : growN c x n = min n (c.limit - x).toNat := by
  unfold growN; split <;> omega

theorem growAlloc_count (c : Chunk) (n : Nat) (h1 : 2 * c.cap + n ≤ maxInt) (h2 : c.rpos + n ≤ Facts.maxSlice) :
    (∀ c1 m, growAlloc cf c (c.len - c.rpos) n = (c1, .ok m) → m ≤ c1.len ∧ c1.len - m = n ∧
      ((c.isNil = true ∧ n ≤ 64) ∨ (n : Int) ≤ ((c.cap / 2 : Nat) : Int) - ((c.len - c.rpos : Nat) : Int) ∨
        ¬ (c.limit > 0 ∧ ((c.cap : Int) > c.limit + n ∨ ((c.len - c.rpos + n : Nat) : Int) > c.limit)))) ∧
    (∀ c1 e, growAlloc cf c (c.len - c.rpos) n = (c1, .error e) → e = .limit ∧
      ¬ (c.isNil = true ∧ n ≤ 64) ∧ ¬ ((n : Int) ≤ ((c.cap / 2 : Nat) : Int) - ((c.len - c.rpos : Nat) : Int)) ∧
      c.limit > 0 ∧ ((c.cap : Int) > c.limit + n ∨ ((c.len - c.rpos + n : Nat) : Int) > c.limit)) := by
  have hmi := maxInt_val
  unfold growAlloc
  split
  · rename_i hc
    refine ⟨fun c1 m heq => ?_, fun c1 e heq => by simp at heq⟩
    simp only [Prod.mk.injEq, Except.ok.injEq] at heq
    obtain ⟨rfl, rfl⟩ := heq
    exact ⟨Nat.zero_le _, rfl, Or.inl hc⟩
  · rename_i hc
    simp only
    split
    · rename_i hs
      refine ⟨fun c1 m heq => ?_, fun c1 e heq => by simp at heq⟩
      simp only [Prod.mk.injEq, Except.ok.injEq] at heq
      obtain ⟨rfl, rfl⟩ := heq
      exact ⟨Nat.le_add_right _ _, by simp, Or.inr (Or.inl hs)⟩
    · rename_i hs
      split
      · rename_i hl
        refine ⟨fun c1 m heq => by simp at heq, fun c1 e heq => ?_⟩
        simp only [Prod.mk.injEq, Except.error.injEq] at heq
        obtain ⟨rfl, rfl⟩ := heq
        exact ⟨rfl, hc, hs, hl.1, hl.2⟩
      · rename_i hl
        split
        · exfalso; omega
        · split
          · exfalso; omega
          · refine ⟨fun c1 m heq => ?_, fun c1 e heq => by simp at heq⟩
            simp only [Prod.mk.injEq, Except.ok.injEq] at heq
            obtain ⟨rfl, rfl⟩ := heq
            exact ⟨Nat.le_add_right _ _, by simp, Or.inr (Or.inr hl)⟩

/-- exact result of the reservation: either refused (exactly when `refused`) with the limit error,
or `min k room` bytes reserved at the returned index (all `k` without a limit). -/
theorem quickSlice_count (c : Chunk) (k : Nat) (h : c.Inv) (hh : NoHuge c k) :
    (∀ c1 m, quickSlice cf c k = (c1, .ok m) → ¬ refused c k ∧ m ≤ c1.len ∧
        (c.limit > 0 → c1.len - m = min k (room c k)) ∧ (c.limit ≤ 0 → c1.len - m = k)) ∧
    (∀ c1 e, quickSlice cf c k = (c1, .error e) → refused c k ∧ e = .limit) := by
  obtain ⟨rl, lc, _, nl⟩ := h
  obtain ⟨hh1, hh2⟩ := hh
  have hnil : c.isNil = true → c.arr.length = 0 := fun hn => by rw [nl hn]; rfl
  have hcap : c.cap = c.arr.length := rfl
  have g1 : (growPre c).arr = c.arr := by unfold growPre; split <;> rfl
  have g2 : (growPre c).limit = c.limit := by unfold growPre; split <;> rfl
  have g3 : (growPre c).isNil = c.isNil := by unfold growPre; split <;> rfl
  have g4 : c.len - c.rpos = 0 → (growPre c).len = 0 ∧ (growPre c).rpos = 0 := by
    unfold growPre; split
    · intro _; exact ⟨rfl, rfl⟩
    · intro _; constructor <;> omega
  have g5 : c.len - c.rpos ≠ 0 → (growPre c).len = c.len ∧ (growPre c).rpos = c.rpos := by
    unfold growPre; split
    · intro _; omega
    · intro _; exact ⟨rfl, rfl⟩
  have g7 : (growPre c).arr.length = c.arr.length := by rw [g1]
  have g6 : (growPre c).cap = c.cap := by unfold cap; rw [g1]
  unfold quickSlice
  by_cases hl : c.limit > 0
  · rw [reslice_limit c k lc hl]
    by_cases hA : k ≤ c.arr.length - c.len ∧ (c.len : Int) < c.limit
    · rw [if_pos hA]
      refine ⟨fun c1 m heq => ?_, fun c1 e heq => by simp at heq⟩
      simp only [Prod.mk.injEq, Except.ok.injEq] at heq
      obtain ⟨rfl, rfl⟩ := heq
      refine ⟨?_, Nat.le_add_right _ _, fun _ => ?_, fun _ => by omega⟩
      · rintro ⟨_, r2, _⟩; exact r2 ⟨hA.2, by omega⟩
      · unfold room; rw [if_pos ⟨hA.2, by omega⟩]; simp only; omega
    · rw [if_neg hA]
      simp only
      unfold grow
      generalize growPre c = c0 at *
      have lc0 : c0.len ≤ c0.arr.length := by
        by_cases hx : c.len - c.rpos = 0
        · have := g4 hx; omega
        · have := g5 hx; omega
      have hl0 : c0.limit > 0 := by omega
      simp only
      by_cases hx : c0.limit > 0 ∧ ((c0.len - c0.rpos : Nat) : Int) ≥ c0.limit
      · rw [if_pos hx]
        refine ⟨fun c1 m heq => by simp at heq, fun c1 e heq => ?_⟩
        simp only [Prod.mk.injEq, Except.error.injEq] at heq
        obtain ⟨rfl, rfl⟩ := heq
        refine ⟨⟨hl, ?_, ?_, Or.inl ?_⟩, rfl⟩
        · intro r; exact hA ⟨by omega, r.1⟩
        · intro hx0; have := g4 hx0; omega
        · by_cases hx0 : c.len - c.rpos = 0
          · have := g4 hx0; omega
          · have := g5 hx0; omega
      · rw [if_neg hx, growN_limit _ _ _ hl0, reslice_limit c0 _ lc0 hl0]
        have hxc : c.len - c.rpos = 0 ∨ c.len - c.rpos ≠ 0 := by omega
        have hrq : roomReq c k = min k (c.limit - ((c0.len - c0.rpos : Nat) : Int)).toNat := by
          unfold roomReq
          rcases hxc with hx0 | hx0
          · have := g4 hx0; omega
          · have := g5 hx0; omega
        generalize hn' : min k (c0.limit - ((c0.len - c0.rpos : Nat) : Int)).toNat = n' at *
        by_cases hB : n' ≤ c0.arr.length - c0.len ∧ (c0.len : Int) < c0.limit
        · rw [if_pos hB]
          refine ⟨fun c1 m heq => ?_, fun c1 e heq => by simp at heq⟩
          simp only [Prod.mk.injEq, Except.ok.injEq] at heq
          obtain ⟨rfl, rfl⟩ := heq
          refine ⟨?_, Nat.le_add_right _ _, fun _ => ?_, fun _ => by omega⟩
          · rintro ⟨_, _, r3, r4⟩
            have := g5 r3
            rcases r4 with r4 | ⟨r4, _, _⟩
            · omega
            · exact r4 ⟨by omega, by omega⟩
          · simp only
            unfold room
            rw [if_neg (by intro r; exact hA ⟨by omega, r.1⟩)]
            rcases hxc with hx0 | hx0
            · have := g4 hx0
              rw [if_pos hx0]; omega
            · have := g5 hx0
              rw [if_neg hx0, if_pos ⟨by omega, by omega⟩]; omega
        · rw [if_neg hB]
          simp only
          obtain ⟨ga, gb⟩ := growAlloc_count cf c0 n' (by omega) (by
            rcases hxc with hx0 | hx0
            · have := g4 hx0; omega
            · have := g5 hx0; omega)
          refine ⟨fun c1 m heq => ?_, fun c1 e heq => ?_⟩
          · obtain ⟨a1, a2, a3⟩ := ga c1 m heq
            refine ⟨?_, a1, fun _ => ?_, fun _ => by omega⟩
            · rintro ⟨_, _, r3, r4⟩
              have := g5 r3
              have := hnil
              rcases r4 with r4 | ⟨r4, r5, r6⟩
              · omega
              · rcases a3 with a3 | a3 | a3
                · have := hnil (by rw [← g3]; exact a3.1); omega
                · omega
                · omega
            · rw [a2]
              unfold room
              rw [if_neg (by intro r; exact hA ⟨by omega, r.1⟩)]
              rcases hxc with hx0 | hx0
              · have := g4 hx0
                rw [if_pos hx0]; omega
              · have := g5 hx0
                rw [if_neg hx0, if_neg (by intro r; exact hB ⟨by omega, by omega⟩)]
                rcases a3 with a3 | a3 | a3
                · have := hnil (by rw [← g3]; exact a3.1); omega
                · rw [if_pos (by omega)]; omega
                · split
                  · omega
                  · rw [if_neg (by omega)]; omega
          · obtain ⟨b1, b2, b3, b4, b5⟩ := gb c1 e heq
            refine ⟨⟨hl, ?_, ?_, Or.inr ⟨?_, ?_, ?_⟩⟩, b1⟩
            · intro r; exact hA ⟨by omega, r.1⟩
            · intro hx0; have := g4 hx0; omega
            · intro r
              rcases hxc with hx0 | hx0
              · have := g4 hx0; omega
              · have := g5 hx0; exact hB ⟨by omega, by omega⟩
            · rcases hxc with hx0 | hx0
              · have := g4 hx0; omega
              · have := g5 hx0; omega
            · rcases hxc with hx0 | hx0
              · have := g4 hx0; omega
              · have := g5 hx0; omega
  · have hl' : c.limit ≤ 0 := by omega
    have nref : ¬ refused c k := fun r => hl r.1
    rw [reslice_nolimit c k lc hl']
    by_cases hA : k ≤ c.arr.length - c.len
    · rw [if_pos hA]
      refine ⟨fun c1 m heq => ?_, fun c1 e heq => by simp at heq⟩
      simp only [Prod.mk.injEq, Except.ok.injEq] at heq
      obtain ⟨rfl, rfl⟩ := heq
      exact ⟨nref, Nat.le_add_right _ _, fun h => absurd h hl, fun _ => by simp⟩
    · rw [if_neg hA]
      simp only
      unfold grow
      generalize growPre c = c0 at *
      have hxc : c.len - c.rpos = 0 ∨ c.len - c.rpos ≠ 0 := by omega
      have lc0 : c0.len ≤ c0.arr.length := by
        rcases hxc with hx | hx
        · have := g4 hx; omega
        · have := g5 hx; omega
      have hl0 : c0.limit ≤ 0 := by omega
      simp only
      rw [if_neg (by omega), growN_nolimit _ _ _ hl0, reslice_nolimit c0 _ lc0 hl0]
      by_cases hB : k ≤ c0.arr.length - c0.len
      · rw [if_pos hB]
        refine ⟨fun c1 m heq => ?_, fun c1 e heq => by simp at heq⟩
        simp only [Prod.mk.injEq, Except.ok.injEq] at heq
        obtain ⟨rfl, rfl⟩ := heq
        exact ⟨nref, Nat.le_add_right _ _, fun h => absurd h hl, fun _ => by simp⟩
      · rw [if_neg hB]
        simp only
        obtain ⟨ga, gb⟩ := growAlloc_count cf c0 k (by omega) (by
          rcases hxc with hx0 | hx0
          · have := g4 hx0; omega
          · have := g5 hx0; omega)
        refine ⟨fun c1 m heq => ?_, fun c1 e heq => ?_⟩
        · obtain ⟨a1, a2, _⟩ := ga c1 m heq
          exact ⟨nref, a1, fun h => absurd h hl, fun _ => a2⟩
        · obtain ⟨_, _, _, b4, _⟩ := gb c1 e heq
          omega

/-- a refused request has no room -/
theorem room_refused (c : Chunk) (k : Nat) (h : c.Inv) (r : refused c k) : room c k = 0 := by
  obtain ⟨rl, lc, lim, _⟩ := h
  obtain ⟨r1, r2, r3, r4⟩ := r
  have := lim r1
  unfold room
  rw [if_neg r2, if_neg r3]
  rcases r4 with r4 | ⟨r4, r5, r6⟩
  · rw [if_neg (by omega)]
    split
    · omega
    · split <;> omega
  · rw [if_neg r4, if_neg r5, if_pos (by omega)]

/-- `Write`: the exact count and the exact error. -/
theorem write_count (c : Chunk) (b : Bytes) (h : c.Inv) (hh : NoHuge c b.length) (c' : Chunk) (n : Nat)
    (e : Option Err) (hw : write cf c b = (c', n, e)) :
    (c.limit ≤ 0 → n = b.length ∧ e = none) ∧
    (c.limit > 0 → n = min b.length (room c b.length) ∧
      (e = some .limit ↔ n < b.length ∨ refused c b.length) ∧ (e = none ∨ e = some .limit)) := by
  obtain ⟨qa, qb⟩ := quickSlice_count cf c b.length h hh
  unfold write at hw
  split at hw
  · rename_i c1 e1 hq
    simp only [Prod.mk.injEq] at hw
    obtain ⟨rfl, rfl, rfl⟩ := hw
    obtain ⟨r, rfl⟩ := qb c1 e1 hq
    have hr := room_refused c b.length h r
    refine ⟨fun hl => absurd r.1 (by omega), fun _ => ⟨by omega, ?_, Or.inr rfl⟩⟩
    exact ⟨fun _ => Or.inr r, fun _ => rfl⟩
  · rename_i c1 m hq
    obtain ⟨a1, a2, a3, a4⟩ := qa c1 m hq
    have rs := quickSlice_ok cf h hq
    have hcl := rs.clamped
    have hlim := rs.limit
    have hroom := rs.room
    simp only at hw
    have hpl : (poke c1 m (List.take (min (c1.len - m) b.length) b)).len = c1.len := rfl
    have hpm : (poke c1 m (List.take (min (c1.len - m) b.length) b)).limit = c1.limit := rfl
    rw [hpl, hpm] at hw
    split at hw
    · rename_i hc
      simp only [Prod.mk.injEq] at hw
      obtain ⟨rfl, rfl, rfl⟩ := hw
      refine ⟨fun hl => by omega, fun hl => ⟨by have := a3 hl; omega, ?_, Or.inr rfl⟩⟩
      exact ⟨fun _ => Or.inl hc.1, fun _ => rfl⟩
    · rename_i hc
      simp only [Prod.mk.injEq] at hw
      obtain ⟨rfl, rfl, rfl⟩ := hw
      refine ⟨fun hl => ⟨by have := a4 hl; omega, rfl⟩, fun hl => ⟨by have := a3 hl; omega, ?_, Or.inl rfl⟩⟩
      refine ⟨fun he => by simp at he, fun hor => ?_⟩
      exfalso
      rcases hor with hn | hr
      · apply hc
        refine ⟨hn, by omega, ?_⟩
        have := hcl (by omega)
        omega
      · exact a1 hr

end Chunk

