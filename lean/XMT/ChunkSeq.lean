import XMT.ChunkOps
namespace XMT.Chunk
open XMT

/-- Operations on a chunk (the exported methods, with their arguments). -/
inductive Op
  | write (b : Bytes) | read (k : Nat) | fixed (b : Bytes) | bytes (b : Bytes) | readFixed (k : Nat)
  | truncate (n : Int) | grow (n : Int) | seek (o : Int) (w : Nat) | pos (p : Int) (b : Bytes)
  | reset | clear

/-- Observable result of an operation. -/
inductive Out
  | wrote (n : Nat) (e : Option Err)
  | got (b : Bytes) (e : Option Err)
  | err (e : Option Err)
  | off (o : Int) (e : Option Err)

namespace Chunk
variable (cf : Nat → Nat)

def step (c : Chunk) : Op → Chunk × Out
  | .write b => let r := c.write cf b; (r.1, .wrote r.2.1 r.2.2)
  | .read k => let r := c.read k; (r.1, .got r.2.1 r.2.2)
  | .fixed b => let r := c.writeFixed cf b; (r.1, .err r.2)
  | .bytes b => let r := c.writeBytes cf b; (r.1, .err r.2)
  | .readFixed k => let r := c.readFixed k
    (r.1, match r.2 with | .ok b => .got b none | .error e => .got [] (some e))
  | .truncate n => let r := c.truncate n; (r.1, .err r.2)
  | .grow n => let r := c.growOp cf n; (r.1, .err r.2)
  | .seek o w => let r := c.seek o w; (r.1, .off r.2.1 r.2.2)
  | .pos p b => let r := c.writePos p b; (r.1, .err r.2)
  | .reset => (c.reset, .err none)
  | .clear => (c.clear, .err none)

def run (c : Chunk) : List Op → Chunk × List Out
  | [] => (c, [])
  | op :: ops =>
    let r := step cf c op
    let rs := run r.1 ops
    (rs.1, r.2 :: rs.2)

end Chunk

/-- The plain byte-queue model: how the queue of unread bytes `q` evolves under an operation with
the observed result (`seek` / positional writes address retained bytes and are specified separately
by `seek_spec` / `writePos_spec`). -/
def QStep (q : Bytes) : Op → Out → Bytes → Prop
  | .write b, .wrote n e, q' => n ≤ b.length ∧ q' = q ++ b.take n ∧ (e = none → n = b.length)
  | .read k, .got g _, q' => g = q.take k ∧ q' = q.drop k
  | .fixed b, .err e, q' => (e = none ∧ q' = q ++ b) ∨ (e ≠ none ∧ q' = q)
  | .bytes b, .err e, q' => (e = none ∧ q' = q ++ (Codec.lenPrefix b.length ++ b)) ∨ (e ≠ none ∧ q' = q)
  | .readFixed k, .got g e, q' =>
      (k ≤ q.length ∧ g = q.take k ∧ e = none ∧ q' = q.drop k) ∨ (q.length < k ∧ e = some .eof ∧ q' = q)
  | .truncate n, .err e, q' => (e = none ∧ 0 ≤ n ∧ n ≤ q.length ∧ q' = q.take n.toNat) ∨ (e ≠ none ∧ q' = q)
  | .grow _, .err _, q' => q' = q
  | .reset, .err _, q' => q' = []
  | .clear, .err _, q' => q' = []
  | .seek _ _, .off _ _, _ => True
  | .pos _ _, .err _, _ => True
  | _, _, _ => False

end XMT.Chunk
