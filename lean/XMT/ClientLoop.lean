/-
  XMT.ClientLoop — executable model of the client side gate logic of package c2:
  (*Session).wait and the connection loop (*Session).listen (c2/session.go), and the guards in
  front of the first connection in connectContextInner (c2/c2.go).  Core-only.

  Time is virtual: an `Int` of nanoseconds since the Unix epoch that advances exactly by the
  duration a timer is armed with (work-hours wait, sleep); everything else takes no time.  The
  harness runs the real code on the same virtual clock (overlay rewrite of `time.Now()`), with the
  same PRNG words and the same scripted Connector, and compares the event traces.

  Not modelled (never happens in the scripted world): context cancellation, `Wake()` by another
  goroutine, profile swap / a profile whose `Switch` reports a change, migration, packets other than an empty `SvComplete` answer.
-/
import XMT.Work
import XMT.Jitter
namespace XMT.Client
open XMT

structure Cfg where
  sleep : Int                 -- s.sleep
  jitter : Nat                -- s.jitter (uint8)
  kill : Option Int           -- s.kill: `none` = zero time (no kill date), `some k` = instant k
  work : Option Work.Rule     -- s.work
  off : Int                   -- UTC offset of the local zone in ns (no DST)
deriving Repr

/-- what the scripted Connector does for one connection attempt -/
inductive Res
  | fail      -- Connect returns an error
  | sessErr   -- Connect succeeds, the exchange fails (no answer)
  | ok        -- Connect succeeds, the exchange succeeds (empty SvComplete answer)
deriving Repr, DecidableEq

inductive Ev
  | workWait (d : Int)                                -- "WorkHours instructed us to wait for d"
  | sleep (d : Int)                                   -- "Sleeping for d"
  | connect (t : Int) (shutdown : Bool) (r : Res)     -- p.Connect called at t; shutdown flag set
  | panic (site : String)
  | stuck                                             -- work-hours loop fuel exhausted (model artefact)
deriving Repr, DecidableEq

structure St where
  now : Int
  closing : Bool := false
  shutdown : Bool := false
  errors : Nat := 0           -- uint8
  di : Nat := 0               -- PRNG words consumed so far
  ci : Nat := 0               -- connection attempts so far
  halted : Bool := false      -- a panic unwound the goroutine / fuel ran out
  trace : List Ev := []
  e : Bool := false           -- `e` of listen: the previous attempt failed (connect error or failed exchange)
  sw : List Bool := []        -- the arguments `s.p.Switch(e)` was called with, in order
deriving Repr

/-- `!s.kill.IsZero() && time.Now().After(s.kill)` -/
def killed (c : Cfg) (now : Int) : Bool :=
  match c.kill with
  | none => false
  | some k => decide (now > k)

/-- weekday and time of day of the instant `now` in the zone with offset `off`
(1970-01-01 was a Thursday = 4) -/
def instOf (off now : Int) : Work.Inst :=
  let l := now + off
  { wd := ((l / Work.nsDay + 4) % 7).toNat, ns := l % Work.nsDay }

/-- `for w := s.work.Work(); w > 0; w = s.work.Work() { … s.tick.Reset(w); select … }` -/
def workLoop (r : Work.Rule) (off : Int) : Nat → St → St
  | 0, st => { st with halted := true, trace := st.trace ++ [.stuck] }
  | f + 1, st =>
    let w := Work.work r (instOf off st.now)
    if w > 0 then workLoop r off f { st with now := st.now + w, trace := st.trace ++ [.workWait w] }
    else st

def workFuel : Nat := 64

/-- `(*Session).wait` after the work-hours loop: kill-date test, jittered sleep, and (repaired
code) the second kill-date test.  Whether the kill date is tested before and / or after the sleep
is read from the source (`Facts.c19KillCheck…`). -/
def waitTail (c : Cfg) (q : Nat → Nat) (st : St) : St :=
  if st.halted then st
  else if decide (Facts.c19KillCheckBeforeSleep ≥ 1) && killed c st.now then { st with closing := true }
  else
    match Jitter.delay c.sleep c.jitter (fun i => q (st.di + i)) with
    | (.none, k) => { st with di := st.di + k }
    | (.panic s, k) => { st with di := st.di + k, halted := true, trace := st.trace ++ [.panic s] }
    | (.sleep w, k) =>
      if decide (Facts.c19KillCheckAfterSleep ≥ 1) && killed c (st.now + w) then
        { st with di := st.di + k, now := st.now + w, trace := st.trace ++ [.sleep w], closing := true }
      else
        { st with di := st.di + k, now := st.now + w, trace := st.trace ++ [.sleep w] }

/-- `(*Session).wait` on a client session -/
def wait (c : Cfg) (q : Nat → Nat) (st : St) : St :=
  if st.closing then st
  else
    waitTail c q
      (match c.work with
       | some r => workLoop r c.off workFuel st
       | none => st)

def maxErrors : Nat := Facts.c19MaxErrors

/-- one turn of `for s.wait(); ; s.wait() { … }` in `(*Session).listen`; the Bool says whether
the loop goes on -/
def step (c : Cfg) (q : Nat → Nat) (script : Nat → Res) (st : St) : St × Bool :=
  let st := wait c q st
  if st.halted then (st, false)
  else
    -- `if s.state.Closing() { … s.peek = &com.Packet{ID: SvShutdown…}; s.state.Set(stateShutdown) … }`
    let st := if st.closing then { st with shutdown := true } else st
    -- `if s.p.Switch(e) { … }` (the scripted profile never switches)
    let st := { st with sw := st.sw ++ [st.e] }
    -- `c, err := s.p.Connect(s.ctx, s.host.String())`
    let r := script st.ci
    let st := { st with ci := st.ci + 1, trace := st.trace ++ [.connect st.now st.shutdown r] }
    match r with
    | .fail =>
      if st.closing then (st, false)
      else if st.errors ≤ maxErrors then ({ st with errors := (st.errors + 1) % 256, e := true }, true)
      else (st, false)
    | .sessErr =>
      let st := { st with errors := (st.errors + 1) % 256, e := true }
      if st.errors > maxErrors then (st, false)
      else if st.shutdown then (st, false)
      else (st, true)
    | .ok =>
      let st := { st with errors := 0, e := false }
      if st.errors > maxErrors then (st, false)
      else if st.shutdown then (st, false)
      else (st, true)

/-- `(*Session).listen`: at most `fuel` turns -/
def run (c : Cfg) (q : Nat → Nat) (script : Nat → Res) : Nat → St → St
  | 0, st => st
  | f + 1, st =>
    let (st', cont) := step c q script st
    if cont then run c q script f st' else st'

/-- `connectContextInner`, work-hours part (only when no hand-over reader is given): a single
`time.Sleep(s.work.Work())`; returns the instant at which the function goes on. -/
def firstNow (c : Cfg) (now : Int) : Int :=
  match c.work with
  | some r =>
    if !Work.empty r then
      let v := Work.work r (instOf c.off now)
      if v > 0 then now + v else now
    else now
  | none => now

/-- `connectContextInner` up to `p.Connect`: the work-hours wait and the kill-date test.
`some t` = `p.Connect` is called at `t`; `none` = the function returns "killdate expired" without
connecting. -/
def firstConnect (c : Cfg) (now : Int) : Option Int :=
  if killed c (firstNow c now) then none else some (firstNow c now)

end XMT.Client
