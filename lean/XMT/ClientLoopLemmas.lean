/- Helper lemmas for the client loop model (XMT.ClientLoop); the property theorems are in Props/C19. -/
import XMT.ClientLoop
import XMT.WorkLemmas
import XMT.JitterLemmas
namespace XMT.Client
open XMT

/-- what the proofs need from the shape facts of wait() -/
def FactsOK : Prop :=
  Work.FactsOK ∧ Jitter.FactsOK ∧ Facts.c19KillCheckBeforeSleep ≥ 1 ∧ Facts.c19KillCheckAfterSleep ≥ 1

instance : Decidable FactsOK := by unfold FactsOK; infer_instance

/-- the configured sleep is a positive int64 -/
def Cfg.WF (c : Cfg) : Prop := 0 < c.sleep ∧ c.sleep < 2^63

instance (c : Cfg) : Decidable c.WF := by unfold Cfg.WF; infer_instance

/-- what the property says about one event of the client loop -/
def EvOK (c : Cfg) : Ev → Prop
  | .workWait d => 0 < d ∧ d ≤ Work.nsDay
  | .sleep d => 0 < d ∧ d ≤ 2 * c.sleep
  | .connect t sd _ => sd = false → killed c t = false
  | .panic _ => False
  | .stuck => True

def NonConn : Ev → Prop
  | .connect _ _ _ => False
  | _ => True

/-- no shutdown-notification connection in the trace -/
def NoShut (tr : List Ev) : Prop := ∀ t r, Ev.connect t true r ∉ tr

/-- `tr'` extends `tr` by events that are not connections and satisfy the property -/
def Ext (c : Cfg) (tr tr' : List Ev) : Prop :=
  ∃ evs, tr' = tr ++ evs ∧ ∀ e ∈ evs, NonConn e ∧ EvOK c e

theorem Ext.refl (c : Cfg) (tr : List Ev) : Ext c tr tr := ⟨[], by simp, by simp⟩

theorem Ext.trans {c : Cfg} {a b d : List Ev} (h1 : Ext c a b) (h2 : Ext c b d) : Ext c a d := by
  obtain ⟨e1, rfl, p1⟩ := h1
  obtain ⟨e2, rfl, p2⟩ := h2
  refine ⟨e1 ++ e2, by simp, ?_⟩
  intro e he
  rcases List.mem_append.mp he with h | h
  · exact p1 e h
  · exact p2 e h

theorem Ext.snoc (c : Cfg) (tr : List Ev) (e : Ev) (h1 : NonConn e) (h2 : EvOK c e) :
    Ext c tr (tr ++ [e]) := ⟨[e], rfl, by intro x hx; simp at hx; subst hx; exact ⟨h1, h2⟩⟩

theorem Ext.allOK {c : Cfg} {a b : List Ev} (h : Ext c a b) (ha : ∀ e ∈ a, EvOK c e) :
    ∀ e ∈ b, EvOK c e := by
  obtain ⟨evs, rfl, p⟩ := h
  intro e he
  rcases List.mem_append.mp he with h | h
  · exact ha e h
  · exact (p e h).2

theorem Ext.noShut {c : Cfg} {a b : List Ev} (h : Ext c a b) (ha : NoShut a) : NoShut b := by
  obtain ⟨evs, rfl, p⟩ := h
  intro t r he
  rcases List.mem_append.mp he with h | h
  · exact ha t r h
  · exact (p _ h).1

theorem nsDay_pos (hf : Work.FactsOK) : 0 < Work.nsDay := by rw [Work.nsDay_eq hf]; omega

theorem instOf_WF (hf : Work.FactsOK) (off now : Int) : (instOf off now).WF := by
  have hd := Work.nsDay_eq hf
  unfold instOf Work.Inst.WF
  simp only
  rw [hd]
  refine ⟨?_, ?_, ?_⟩ <;> omega

/-- `Work()` never returns a negative duration nor more than a day (any rule, end before start
included) -/
theorem work_range (hf : Work.FactsOK) (r : Work.Rule) (t : Work.Inst) (ht : t.WF) :
    0 ≤ Work.work r t ∧ Work.work r t ≤ Work.nsDay := by
  rw [Work.work_eq_workSpec hf r t ht]
  obtain ⟨_, h0, h1⟩ := ht
  have hs := Work.startOf_bounds hf r
  unfold Work.workSpec
  split
  · omega
  · split
    · omega
    · split
      · omega
      · split
        · omega
        · split <;> omega

theorem workLoop_spec (hf : Work.FactsOK) (c : Cfg) (r : Work.Rule) (off : Int) :
    ∀ (f : Nat) (st : St),
      Ext c st.trace (workLoop r off f st).trace ∧
      (workLoop r off f st).closing = st.closing ∧ (workLoop r off f st).shutdown = st.shutdown := by
  intro f
  induction f with
  | zero =>
    intro st
    unfold workLoop
    exact ⟨Ext.snoc c st.trace Ev.stuck trivial trivial, rfl, rfl⟩
  | succ f ih =>
    intro st
    unfold workLoop
    simp only
    split
    · rename_i hw
      have hr := work_range hf r (instOf off st.now) (instOf_WF hf off st.now)
      obtain ⟨h1, h2, h3⟩ := ih { st with now := st.now + Work.work r (instOf off st.now),
                                           trace := st.trace ++ [.workWait (Work.work r (instOf off st.now))] }
      exact ⟨(Ext.snoc c st.trace (Ev.workWait (Work.work r (instOf off st.now))) trivial ⟨hw, hr.2⟩).trans h1, h2, h3⟩
    · exact ⟨Ext.refl c _, rfl, rfl⟩

theorem waitTail_spec (hf : FactsOK) (c : Cfg) (hc : c.WF) (q : Nat → Nat) (st : St) :
    Ext c st.trace (waitTail c q st).trace ∧ (waitTail c q st).shutdown = st.shutdown ∧
    ((waitTail c q st).halted = false → (waitTail c q st).closing = false →
      killed c (waitTail c q st).now = false) := by
  obtain ⟨_, hJ, hB, hA⟩ := hf
  have hB' : decide (Facts.c19KillCheckBeforeSleep ≥ 1) = true := by simpa using hB
  have hA' : decide (Facts.c19KillCheckAfterSleep ≥ 1) = true := by simpa using hA
  unfold waitTail
  rw [hB', hA']
  simp only [Bool.true_and]
  split
  · rename_i hh
    exact ⟨Ext.refl c _, rfl, by intro h; rw [hh] at h; cases h⟩
  · split
    · exact ⟨Ext.refl c _, rfl, by intro _ h; cases h⟩
    · rename_i hk
      obtain ⟨w, k, hd, hw0, hw1, _⟩ := Jitter.delay_sleep hJ c.sleep c.jitter (fun i => q (st.di + i)) hc.1 hc.2
      rw [hd]
      simp only
      have hext : Ext c st.trace (st.trace ++ [Ev.sleep w]) := Ext.snoc c st.trace (Ev.sleep w) trivial ⟨hw0, hw1⟩
      split
      · exact ⟨hext, rfl, by intro _ h; cases h⟩
      · rename_i hk2
        exact ⟨hext, rfl, by intro _ _; simpa using hk2⟩

/-- Post-condition of `wait` (repaired code): the trace grows by admissible non-connection events,
the shutdown flag is untouched, and if `wait` returns normally without the closing flag then the
kill date has not passed at the (virtual) instant it returns. -/
theorem wait_spec (hf : FactsOK) (c : Cfg) (hc : c.WF) (q : Nat → Nat) (st : St) :
    Ext c st.trace (wait c q st).trace ∧ (wait c q st).shutdown = st.shutdown ∧
    ((wait c q st).halted = false → (wait c q st).closing = false → killed c (wait c q st).now = false) := by
  unfold wait
  split
  · rename_i hcl
    exact ⟨Ext.refl c _, rfl, by intro _ h; rw [hcl] at h; cases h⟩
  · cases hw : c.work with
    | none => exact waitTail_spec hf c hc q st
    | some r =>
      simp only
      obtain ⟨h1, _, h3⟩ := workLoop_spec hf.1 c r c.off workFuel st
      obtain ⟨g1, g2, g3⟩ := waitTail_spec hf c hc q (workLoop r c.off workFuel st)
      exact ⟨h1.trans g1, by rw [g2, h3], g3⟩

/-- the kill date has not passed at `t` -/
def NotAfterKill (c : Cfg) (t : Int) : Prop := ∀ k, c.kill = some k → t ≤ k

theorem killed_false_iff (c : Cfg) (t : Int) : killed c t = false ↔ NotAfterKill c t := by
  unfold killed NotAfterKill
  cases c.kill with
  | none => simp
  | some k => simp

/-- invariant at the head of the connection loop -/
structure Inv (c : Cfg) (st : St) : Prop where
  allOK : ∀ e ∈ st.trace, EvOK c e
  noShut : NoShut st.trace
  shutdownFalse : st.shutdown = false

/-- a shutdown-notification connection, if any, is the last event and there is no other -/
def ShutLast (tr : List Ev) : Prop :=
  ∀ t r, Ev.connect t true r ∈ tr → ∃ pre, tr = pre ++ [Ev.connect t true r] ∧ NoShut pre

theorem ShutLast.of_noShut {tr : List Ev} (h : NoShut tr) : ShutLast tr := by
  intro t r hm; exact absurd hm (h t r)

theorem ShutLast.snoc {pre : List Ev} (e : Ev) (h : NoShut pre) : ShutLast (pre ++ [e]) := by
  intro t r hm
  rcases List.mem_append.mp hm with h1 | h1
  · exact absurd h1 (h t r)
  · simp at h1; subst h1; exact ⟨pre, rfl, h⟩

theorem NoShut.snoc {pre : List Ev} (t : Int) (r : Res) (h : NoShut pre) :
    NoShut (pre ++ [Ev.connect t false r]) := by
  intro t' r' hm
  rcases List.mem_append.mp hm with h1 | h1
  · exact h t' r' h1
  · simp at h1

theorem allOK_snoc {c : Cfg} {pre : List Ev} (e : Ev) (h : ∀ x ∈ pre, EvOK c x) (he : EvOK c e) :
    ∀ x ∈ pre ++ [e], EvOK c x := by
  intro x hx
  rcases List.mem_append.mp hx with h1 | h1
  · exact h x h1
  · simp at h1; subst h1; exact he

theorem step_spec (hf : FactsOK) (c : Cfg) (hc : c.WF) (q : Nat → Nat) (script : Nat → Res)
    (st : St) (hinv : Inv c st) :
    (∀ e ∈ (step c q script st).1.trace, EvOK c e) ∧
    ((step c q script st).2 = true → Inv c (step c q script st).1) ∧
    ((step c q script st).2 = false → ShutLast (step c q script st).1.trace) := by
  obtain ⟨hext, hsd, hpost⟩ := wait_spec hf c hc q st
  have hok1 := hext.allOK hinv.allOK
  have hns1 := hext.noShut hinv.noShut
  rw [hinv.shutdownFalse] at hsd
  unfold step
  generalize wait c q st = st1 at *
  simp only
  split
  · exact ⟨hok1, (by intro h; cases h), fun _ => ShutLast.of_noShut hns1⟩
  · rename_i hh
    have hh' : st1.halted = false := by simpa using hh
    cases hcl : st1.closing with
    | false =>
      have hk := hpost hh' hcl
      simp only [Bool.false_eq_true, if_false, hsd]
      generalize script st1.ci = r
      have hev : EvOK c (Ev.connect st1.now false r) := fun _ => hk
      have hok2 := allOK_snoc _ hok1 hev
      have hns2 := NoShut.snoc st1.now r hns1
      cases r with
      | fail =>
        simp only [hcl, Bool.false_eq_true, if_false]
        split
        · exact ⟨hok2, fun _ => ⟨hok2, hns2, (by first | rfl | exact hsd)⟩, (by intro h; cases h)⟩
        · exact ⟨hok2, (by intro h; cases h), fun _ => ShutLast.snoc _ hns1⟩
      | sessErr =>
        simp only [hsd, Bool.false_eq_true, if_false]
        split
        · exact ⟨hok2, (by intro h; cases h), fun _ => ShutLast.snoc _ hns1⟩
        · exact ⟨hok2, fun _ => ⟨hok2, hns2, (by first | rfl | exact hsd)⟩, (by intro h; cases h)⟩
      | ok =>
        simp only [hsd, Bool.false_eq_true, if_false]
        split
        · exact ⟨hok2, (by intro h; cases h), fun _ => ShutLast.snoc _ hns1⟩
        · exact ⟨hok2, fun _ => ⟨hok2, hns2, (by first | rfl | exact hsd)⟩, (by intro h; cases h)⟩
    | true =>
      simp only [if_true]
      generalize script st1.ci = r
      have hev : EvOK c (Ev.connect st1.now true r) := by intro h; cases h
      have hok2 := allOK_snoc _ hok1 hev
      cases r with
      | fail =>
        simp only [hcl, if_true]
        exact ⟨hok2, (by intro h; cases h), fun _ => ShutLast.snoc _ hns1⟩
      | sessErr =>
        simp only [if_true]
        split
        · exact ⟨hok2, (by intro h; cases h), fun _ => ShutLast.snoc _ hns1⟩
        · exact ⟨hok2, (by intro h; cases h), fun _ => ShutLast.snoc _ hns1⟩
      | ok =>
        simp only [if_true]
        split
        · exact ⟨hok2, (by intro h; cases h), fun _ => ShutLast.snoc _ hns1⟩
        · exact ⟨hok2, (by intro h; cases h), fun _ => ShutLast.snoc _ hns1⟩

theorem run_spec (hf : FactsOK) (c : Cfg) (hc : c.WF) (q : Nat → Nat) (script : Nat → Res) :
    ∀ (fuel : Nat) (st : St), Inv c st →
      (∀ e ∈ (run c q script fuel st).trace, EvOK c e) ∧ ShutLast (run c q script fuel st).trace := by
  intro fuel
  induction fuel with
  | zero =>
    intro st hinv
    exact ⟨hinv.allOK, ShutLast.of_noShut hinv.noShut⟩
  | succ f ih =>
    intro st hinv
    obtain ⟨h1, h2, h3⟩ := step_spec hf c hc q script st hinv
    unfold run
    cases hs : step c q script st with
    | mk st' cont =>
      rw [hs] at h1 h2 h3
      simp only
      cases cont with
      | true => simp only [if_true]; exact ih st' (h2 rfl)
      | false => simp only [Bool.false_eq_true, if_false]; exact ⟨h1, h3 rfl⟩

theorem inv_init (c : Cfg) (now : Int) : Inv c { now := now } :=
  ⟨(by intro e he; cases he), (by intro t r he; cases he), rfl⟩

end XMT.Client
