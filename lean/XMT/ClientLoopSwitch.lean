/-
  XMT.ClientLoopSwitch — what `(*Session).listen` reports to the profile selector: the argument of the
  k-th call `s.p.Switch(e)` says whether connection attempt k-1 failed (connect error or failed
  exchange); the first call reports no failure.
-/
import XMT.ClientLoop
namespace XMT.Client
open XMT

theorem workLoop_keeps (r : Work.Rule) (off : Int) : ∀ (f : Nat) (st : St),
    (workLoop r off f st).ci = st.ci ∧ (workLoop r off f st).sw = st.sw ∧ (workLoop r off f st).e = st.e
  | 0, st => by unfold workLoop; exact ⟨rfl, rfl, rfl⟩
  | f + 1, st => by
    unfold workLoop
    simp only
    split
    · have := workLoop_keeps r off f { st with now := st.now + Work.work r (instOf off st.now), trace := st.trace ++ [.workWait (Work.work r (instOf off st.now))] }
      exact this
    · exact ⟨rfl, rfl, rfl⟩

theorem waitTail_keeps (c : Cfg) (q : Nat → Nat) (st : St) :
    (waitTail c q st).ci = st.ci ∧ (waitTail c q st).sw = st.sw ∧ (waitTail c q st).e = st.e := by
  unfold waitTail
  split
  · exact ⟨rfl, rfl, rfl⟩
  · split
    · exact ⟨rfl, rfl, rfl⟩
    · split
      · exact ⟨rfl, rfl, rfl⟩
      · exact ⟨rfl, rfl, rfl⟩
      · split <;> exact ⟨rfl, rfl, rfl⟩

theorem wait_keeps (c : Cfg) (q : Nat → Nat) (st : St) :
    (wait c q st).ci = st.ci ∧ (wait c q st).sw = st.sw ∧ (wait c q st).e = st.e := by
  unfold wait
  split
  · exact ⟨rfl, rfl, rfl⟩
  · cases hw : c.work with
    | none => simp only; exact waitTail_keeps c q st
    | some r =>
      simp only
      have h1 := waitTail_keeps c q (workLoop r c.off workFuel st)
      have h2 := workLoop_keeps r c.off workFuel st
      exact ⟨h1.1.trans h2.1, h1.2.1.trans h2.2.1, h1.2.2.trans h2.2.2⟩

/-- attempt number `k` (counted from the start of the script) failed -/
def failed (script : Nat → Res) (k : Nat) : Bool := script k != .ok

/-- the report the selector should get before attempt `k` of a loop that started at attempt `c0` -/
def report (script : Nat → Res) (c0 k : Nat) : Bool := decide (k > c0) && failed script (k - 1)

/-- invariant: one report per attempt so far, each one true to the attempt before it; `e` holds the
report for the next attempt -/
def SwInv (script : Nat → Res) (c0 : Nat) (st : St) : Prop :=
  c0 ≤ st.ci ∧ st.sw = (List.range (st.ci - c0)).map (fun j => report script c0 (c0 + j)) ∧
    st.e = report script c0 st.ci

theorem range_succ_map (n : Nat) (f : Nat → Bool) :
    (List.range (n + 1)).map f = (List.range n).map f ++ [f n] := by
  rw [List.range_succ, List.map_append]; rfl

/-- the state when `Connect` returns: closing noted, `Switch(e)` called, the attempt counted -/
def attempt (c : Cfg) (q : Nat → Nat) (script : Nat → Res) (st : St) : St :=
  let st := wait c q st
  let st := if st.closing then { st with shutdown := true } else st
  let st := { st with sw := st.sw ++ [st.e] }
  { st with ci := st.ci + 1, trace := st.trace ++ [.connect st.now st.shutdown (script st.ci)] }

/-- what `listen` does with the result of attempt number `k` -/
def finish (r : Res) (st : St) : St × Bool :=
  match r with
  | .fail =>
    if st.closing then (st, false)
    else if st.errors ≤ maxErrors then ({ st with errors := (st.errors + 1) % 256, e := true }, true)
    else (st, false)
  | .sessErr =>
    let st := { st with errors := (st.errors + 1) % 256, e := true }
    if st.errors > maxErrors then (st, false)
    else if st.shutdown then (st, false)
    else (st, true)
  | .ok =>
    let st := { st with errors := 0, e := false }
    if st.errors > maxErrors then (st, false)
    else if st.shutdown then (st, false)
    else (st, true)

theorem step_eq (c : Cfg) (q : Nat → Nat) (script : Nat → Res) (st : St) :
    step c q script st =
      if (wait c q st).halted then (wait c q st, false)
      else finish (script (wait c q st).ci) (attempt c q script st) := by
  unfold step attempt finish
  simp only
  split
  · rfl
  · have hci : (if (wait c q st).closing = true then { wait c q st with shutdown := true } else wait c q st).ci = (wait c q st).ci := by
      split <;> rfl
    rw [hci]
    cases script (wait c q st).ci <;> rfl

theorem attempt_facts (c : Cfg) (q : Nat → Nat) (script : Nat → Res) (st : St) :
    (attempt c q script st).ci = st.ci + 1 ∧ (attempt c q script st).sw = st.sw ++ [st.e] ∧
      (attempt c q script st).e = st.e := by
  obtain ⟨hw1, hw2, hw3⟩ := wait_keeps c q st
  unfold attempt
  simp only
  refine ⟨?_, ?_, ?_⟩
  · split <;> simp [hw1]
  · split <;> simp [hw2, hw3]
  · split <;> simp [hw3]

theorem finish_facts (r : Res) (st : St) :
    (finish r st).1.ci = st.ci ∧ (finish r st).1.sw = st.sw ∧
      ((finish r st).2 = true → (finish r st).1.e = (r != .ok)) := by
  unfold finish
  cases r with
  | fail =>
    simp only
    split
    · exact ⟨rfl, rfl, fun h => by cases h⟩
    · split
      · exact ⟨rfl, rfl, fun _ => rfl⟩
      · exact ⟨rfl, rfl, fun h => by cases h⟩
  | sessErr =>
    simp only
    split
    · exact ⟨rfl, rfl, fun h => by cases h⟩
    · split
      · exact ⟨rfl, rfl, fun h => by cases h⟩
      · exact ⟨rfl, rfl, fun _ => rfl⟩
  | ok =>
    simp only
    split
    · exact ⟨rfl, rfl, fun h => by cases h⟩
    · split
      · exact ⟨rfl, rfl, fun h => by cases h⟩
      · exact ⟨rfl, rfl, fun _ => rfl⟩

/-- the reports made so far are true -/
def SwOK (script : Nat → Res) (c0 : Nat) (st : St) : Prop :=
  c0 ≤ st.ci ∧ st.sw = (List.range (st.ci - c0)).map (fun j => report script c0 (c0 + j))

/-- … and `e` holds the true report for the next attempt -/
def SwInv2 (script : Nat → Res) (c0 : Nat) (st : St) : Prop :=
  SwOK script c0 st ∧ st.e = report script c0 st.ci

theorem step_sw (c : Cfg) (q : Nat → Nat) (script : Nat → Res) (c0 : Nat) (st : St)
    (h : SwInv2 script c0 st) :
    SwOK script c0 (step c q script st).1 ∧
      ((step c q script st).2 = true → SwInv2 script c0 (step c q script st).1) := by
  obtain ⟨⟨h1, h2⟩, h3⟩ := h
  obtain ⟨hw1, hw2, hw3⟩ := wait_keeps c q st
  rw [step_eq]
  split
  · refine ⟨⟨by rw [hw1]; exact h1, by rw [hw2, hw1]; exact h2⟩, fun hc => by cases hc⟩
  · obtain ⟨a1, a2, _⟩ := attempt_facts c q script st
    obtain ⟨f1, f2, f3⟩ := finish_facts (script (wait c q st).ci) (attempt c q script st)
    have hok : SwOK script c0 (finish (script (wait c q st).ci) (attempt c q script st)).1 := by
      refine ⟨by rw [f1, a1]; omega, ?_⟩
      rw [f2, a2, f1, a1, h2, h3]
      have e1 : st.ci + 1 - c0 = (st.ci - c0) + 1 := by omega
      rw [e1, range_succ_map]
      have e2 : c0 + (st.ci - c0) = st.ci := by omega
      rw [e2]
    refine ⟨hok, fun hc => ⟨hok, ?_⟩⟩
    rw [f3 hc, f1, a1, hw1]
    unfold report failed
    have : decide (st.ci + 1 > c0) = true := by simp; omega
    simp [this]

/-- **`listen` tells the selector the truth**: over the whole connection loop (any configuration,
any PRNG words, any script of connect failures / failed exchanges / successes, any number of turns)
the k-th call of `Switch` gets `true` exactly when the attempt before it failed, the first one
`false` -/
theorem run_sw (c : Cfg) (q : Nat → Nat) (script : Nat → Res) (c0 : Nat) : ∀ (fuel : Nat) (st : St),
    SwInv2 script c0 st → SwOK script c0 (run c q script fuel st)
  | 0, st, h => by unfold run; exact h.1
  | f + 1, st, h => by
    unfold run
    have hs := step_sw c q script c0 st h
    cases hc : (step c q script st).2 with
    | true =>
      have : step c q script st = ((step c q script st).1, true) := by rw [← hc]
      rw [this]
      simp only [if_true]
      exact run_sw c q script c0 f _ (hs.2 hc)
    | false =>
      have : step c q script st = ((step c q script st).1, false) := by rw [← hc]
      rw [this]
      simp only [Bool.false_eq_true, if_false]
      exact hs.1

end XMT.Client
