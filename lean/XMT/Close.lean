/-
  XMT.Close — executable interleaving model of the close machinery of ONE c2.Session (client side
  or server side):

    c2/session.go   close (both branches), Wake, queue, wait/listen (closing arm, connect error arm,
                    Shutdown() exit), shutdown (three guarded channel closes, Set(stateClosed),
                    Server.Remove, s.m.close(), Unlock, final close(s.ch)), next/pick (peek)
    c2/vars.go      receiveSingle(SvShutdown) (server branch: ack, Remove, ShutdownWait, close(false);
                    client branch: Closing() guard, close(false))
    c2/channel.go   chanWake
    c2/types.go     eventer.listen
    c2/server.go    Server.listen arm `case i := <-s.delSession`, Server.Remove(id, false)

  Granularity (DESIGN §4 "Concurrency"): a thread is a sequence of atomic actions, one per shared
  memory access of the Go source (load of the state word, CAS on it, store of s.peek, channel
  send / close, Lock / Unlock).  `pc` names the action a thread executes next; the pcs ARE the
  labels of the yield points that the overlay rewrites of lib/props/C16.json insert into the real
  code, so a schedule of the model is executed literally on the real goroutines.

  State predicates that read the word twice (`Closing() = Closed() || bit`) are ONE load here: the
  bits involved (closed, closing, shutdown, send/wake/recvClose) are never cleared (regenerated fact
  `c16MonotoneFlags`), so the two-load result always equals a one-load result at one of the two
  instants.

  `Cfg` selects the code variant: every repair made by a `fix:` commit is a flag whose value for
  the CURRENT tree is regenerated from the source (`cfgF`), so the theorems are about the code that
  is there now and a reverted repair leaves their `decide` obligations undischarged.
  Core only (the driver is a compiled lean_exe).
-/
import XMT.Generated.Facts
namespace XMT.Close

/-- point update of a function -/
def upd {α : Type} (f : Nat → α) (i : Nat) (v : α) : Nat → α := fun k => if k = i then v else f k

@[simp] theorem upd_same {α : Type} (f : Nat → α) (i : Nat) (v : α) : upd f i v i = v := by simp [upd]
theorem upd_apply {α : Type} (f : Nat → α) (i : Nat) (v : α) (k : Nat) :
    upd f i v k = if k = i then v else f k := rfl
theorem upd_other {α : Type} (f : Nat → α) (i : Nat) (v : α) (k : Nat) (h : k ≠ i) :
    upd f i v k = f k := by simp [upd, h]

/-- the channels of a Session that `shutdown` closes; `ev` is the client's event queue (`s.m`) -/
inductive Chan | send | wake | recv | ch | ev
deriving DecidableEq, Repr, Inhabited

/-- what a thread returned, or how it died -/
inductive Out
  | none
  | ret
  | panicClose (c : Chan)   -- close of closed channel
  | panicSend (c : Chan)    -- send on closed channel
deriving DecidableEq, Repr, Inhabited

def Out.isPanic : Out → Bool
  | .panicClose _ => true
  | .panicSend _ => true
  | _ => false

/-- pc of a finished thread -/
def fin : Nat := 99

/-- code variant -/
structure Cfg where
  client : Bool        -- client-side Session (parent == nil) or server-side
  trySet : Bool        -- close(): `if !s.state.trySet(stateClosing) { return nil }` (else: Set)
  wakeLocked : Bool    -- chanWake holds s.lock.RLock() across check and send
  evReturns : Bool     -- eventer.listen returns when its queue is closed (else: spins)
  errShutdown : Bool   -- listen's connect-error arm breaks on Shutdown() (else: on Closing())
  ackLocked : Bool     -- receiveSingle queues the SvShutdown acknowledgement under s.lock
  fuse : Bool          -- ASSUMPTION switch: check+send of Session.queue / Session.Wake is one action
deriving DecidableEq, Repr

/-- the current tree (flags regenerated from the source), check and send separate -/
def cfgF (client : Bool) : Cfg :=
  { client := client, trySet := Facts.c16CloseTrySet, wakeLocked := Facts.c16ChanWakeLocked,
    evReturns := Facts.c16EventerReturns, errShutdown := Facts.c16ListenBreakOnShutdown,
    ackLocked := Facts.c16AckLocked, fuse := false }

/-- the tree before the repairs -/
def cfgO (client : Bool) : Cfg :=
  { client := client, trySet := false, wakeLocked := false, evReturns := false, errShutdown := false,
    ackLocked := false, fuse := false }

def maxErrors : Nat := Facts.c16MaxErrors
def sendCap : Nat := Facts.c16SendCap

/-- thread-local state -/
structure Loc where
  pc : Nat := 99
  w : Bool := false            -- close(w)
  cont : Nat := 99             -- queue()/write(): where the caller continues (8 / 4 = receiveSingle, 99 = return)
  script : List Bool := []     -- listen: outcomes of the next connection attempts (true = exchange ok)
  got : Bool := false          -- next(): pick handed out the peeked packet
  sd : Bool := false           -- ghost: the thread has entered shutdown()
  out : Out := .none
deriving Inhabited

/-- thread programs -/
inductive Kind
  | close (w : Bool)           -- Session.close(w); Close() = close(true)
  | recvShutdown               -- receiveSingle(s, SvShutdown packet)
  | listen (res : List Bool)   -- the client's listen goroutine; `res` scripts the connection attempts
  | waitCh                     -- Session.Wait()
  | send                       -- Session.queue(n)
  | wake                       -- Session.Wake()
  | chanWake                   -- Session.chanWake() (conn.stop)
  | cancel                     -- the Session's context is cancelled
  | srvLoop                    -- Server.listen, arm `case i := <-s.delSession`
  | evLoop                     -- eventer.listen (client)
  | serve                      -- Session.next(): the connection handler picks the reply
deriving Repr, Inhabited, DecidableEq

/-- shared state of the Session (and the two Server fields the close path touches) -/
structure St where
  -- state word
  closing : Bool := false
  shutdown : Bool := false
  closed : Bool := false
  sendClose : Bool := false
  wakeClose : Bool := false
  recvClose : Bool := false
  canRecv : Bool := false
  shutdownWait : Bool := false
  -- fields
  hasRecv : Bool := false      -- s.recv != nil
  peek : Bool := false         -- s.peek holds the SvShutdown packet
  sendLen : Nat := 0           -- len(s.send)
  wakeLen : Nat := 0           -- len(s.wake)
  errors : Nat := 0
  ctxDone : Bool := false      -- the base context is cancelled
  ctxTmp : Bool := false       -- s.ctx was replaced by the fresh timeout context (closing arm)
  -- ghost: number of successful close() calls per channel
  sendC : Nat := 0
  wakeC : Nat := 0
  recvC : Nat := 0
  chC : Nat := 0
  evC : Nat := 0
  -- s.lock (sync.RWMutex)
  lock : Option Nat := none
  rlock : Nat → Bool := fun _ => false
  -- Server
  srvActive : Bool := true     -- Server.IsActive()
  delReq : Nat := 0            -- entries for this id pending in Server.delSession
  listed : Bool := true        -- the id is in Server.sessions
  told : Nat := 0              -- ghost: SvShutdown packets handed to the wire by this side
  loc : Nat → Loc := fun _ => {}

instance : Inhabited St := ⟨{}⟩

/-! ### helpers -/

def setLoc (s : St) (t : Nat) (l : Loc) : St := { s with loc := upd s.loc t l }
def goto (s : St) (t : Nat) (pc : Nat) : St := setLoc s t { s.loc t with pc := pc }
def finish (s : St) (t : Nat) : St := setLoc s t { s.loc t with pc := fin, out := .ret }
def die (s : St) (t : Nat) (o : Out) : St := setLoc s t { s.loc t with pc := fin, out := o }
def enterSd (s : St) (t : Nat) : St := setLoc s t { s.loc t with pc := 40, sd := true }

/-- return from write()/queue() to the caller -/
def ret (s : St) (t : Nat) : St := if (s.loc t).cont = fin then finish s t else goto s t (s.loc t).cont

/-- `select { case s.send <- n: default: }` -/
def sendSend (s : St) (t : Nat) : St :=
  if s.sendC > 0 then die s t (.panicSend .send)
  else
    let s' := { s with sendLen := if s.sendLen < sendCap then s.sendLen + 1 else s.sendLen }
    ret s' t

def afterWake (s : St) (t : Nat) : St := if (s.loc t).w then goto s t 28 else finish s t

/-- `select { case s.wake <- wake: default: }` in Session.Wake -/
def wakeSend (s : St) (t : Nat) : St :=
  if s.wakeC > 0 then die s t (.panicSend .wake) else afterWake { s with wakeLen := 1 } t

/-- `Server.Remove(id, false)`: `if !s.IsActive() { return }; s.delSession <- i.Hash()` -/
def removeReq (s : St) : St := { s with delReq := if s.srvActive then s.delReq + 1 else s.delReq }

/-- the packet `next` returns goes to the wire -/
def tell (s : St) (got : Bool) : St := { s with told := if got then s.told + 1 else s.told }

def noReaders (s : St) (n : Nat) : Bool := (List.range n).all (fun u => !s.rlock u)

/-- the pcs that name an action -/
def validPc (pc : Nat) : Bool :=
  [1, 2, 3, 4, 5, 6, 7, 8, 20, 21, 22, 23, 24, 25, 26, 27, 28, 40, 41, 42, 43, 44, 45, 46, 47, 48, 49,
   50, 51, 52, 53, 54, 60, 61, 62, 63, 64, 65, 66, 70, 71, 72, 73, 80, 86, 87, 88, 89, 90, 92, 94].contains pc

/-- blocking actions: a thread the model says is blocked is never released by the scheduler -/
def enabled (cfg : Cfg) (n : Nat) (s : St) (t : Nat) : Bool :=
  match (s.loc t).pc with
  | 28 => decide (s.chC > 0)                       -- `<-s.ch` in close(true)
  | 80 => decide (s.chC > 0)                       -- `<-s.ch` in Wait()
  | 40 => s.lock.isNone && noReaders s n           -- s.lock.Lock()
  | 7 => s.lock.isNone && noReaders s n            -- s.lock.Lock() in receiveSingle
  | 86 => !cfg.wakeLocked || s.lock.isNone         -- s.lock.RLock()
  | 92 => decide (s.delReq > 0)                    -- `<-s.delSession`
  | 94 => s.ctxDone || decide (s.evC > 0)          -- select { <-ctx.Done(), <-e }
  | 99 => false
  | pc => validPc pc

/-! ### the atomic actions, one definition per pc (= yield label in the instrumented code) -/

set_option linter.unusedVariables false

-- receiveSingle(SvShutdown), server branch
-- s.write(true, ack): `if s.state.Closing() || s.state.SendClosed() { return ErrClosedPipe }`
def a1 (cfg : Cfg) (s : St) (t : Nat) : St :=
  let l := s.loc t
  if s.closed || s.closing || s.sendClose then ret s t else goto s t 2

-- queue(): `if s.state.SendClosed() { return }`
def a2 (cfg : Cfg) (s : St) (t : Nat) : St :=
  let l := s.loc t
  if s.closed || s.sendClose then ret s t
  else if cfg.fuse then sendSend s t else goto s t 3

def a3 (cfg : Cfg) (s : St) (t : Nat) : St :=
  let l := s.loc t
  sendSend s t

def a4 (cfg : Cfg) (s : St) (t : Nat) : St :=
  let l := s.loc t
  goto (removeReq s) t 5                                 -- s.s.Remove(s.ID, false)

def a5 (cfg : Cfg) (s : St) (t : Nat) : St :=
  let l := s.loc t
  setLoc { s with shutdownWait := true } t { l with pc := 20, w := false }

-- receiveSingle(SvShutdown), client branch: `if s.state.Closing() { return }`
def a6 (cfg : Cfg) (s : St) (t : Nat) : St :=
  let l := s.loc t
  if s.closed || s.closing then finish s t else setLoc s t { l with pc := 20, w := false }

-- receiveSingle(SvShutdown), server branch: the lock around the acknowledgement
def a7 (cfg : Cfg) (s : St) (t : Nat) : St :=
  goto { s with lock := some t } t 1

def a8 (cfg : Cfg) (s : St) (t : Nat) : St :=
  goto { s with lock := none } t 4

-- close(w)
def a20 (cfg : Cfg) (s : St) (t : Nat) : St :=
  let l := s.loc t
  if s.closed || s.closing then finish s t else goto s t 21

def a21 (cfg : Cfg) (s : St) (t : Nat) : St :=
  let l := s.loc t
  if !cfg.client && !s.shutdownWait then goto s t 22 else goto s t 25

def a22 (cfg : Cfg) (s : St) (t : Nat) : St :=
  let l := s.loc t
  goto { s with peek := true } t 23                     -- s.peek = SvShutdown packet

def a23 (cfg : Cfg) (s : St) (t : Nat) : St :=
  let l := s.loc t
  if s.closed || s.sendClose then finish s t else goto s t 24

def a24 (cfg : Cfg) (s : St) (t : Nat) : St :=
  let l := s.loc t
  finish { s with sendLen := 0 } t                      -- for len(s.send) > 0 { <-s.send }

-- the transition to closing
def a25 (cfg : Cfg) (s : St) (t : Nat) : St :=
  let l := s.loc t
  if cfg.trySet && s.closing then finish s t
  else
    let s' := { s with closing := true }
    if cfg.client then goto s' t 26 else enterSd s' t

-- Wake(): `if ... s.state.WakeClosed() { return }`
def a26 (cfg : Cfg) (s : St) (t : Nat) : St :=
  let l := s.loc t
  if s.closed || s.wakeClose then afterWake s t
  else if cfg.fuse then wakeSend s t else goto s t 27

def a27 (cfg : Cfg) (s : St) (t : Nat) : St :=
  let l := s.loc t
  wakeSend s t

def a28 (cfg : Cfg) (s : St) (t : Nat) : St :=
  let l := s.loc t
  finish s t                                            -- <-s.ch

-- shutdown()
def a40 (cfg : Cfg) (s : St) (t : Nat) : St :=
  let l := s.loc t
  goto { s with lock := some t } t 41

def a41 (cfg : Cfg) (s : St) (t : Nat) : St :=
  let l := s.loc t
  if s.closed || s.sendClose then goto s t 44 else goto s t 42

def a42 (cfg : Cfg) (s : St) (t : Nat) : St :=
  let l := s.loc t
  goto { s with sendClose := true } t 43

def a43 (cfg : Cfg) (s : St) (t : Nat) : St :=
  let l := s.loc t
  if s.sendC > 0 then die s t (.panicClose .send) else goto { s with sendC := s.sendC + 1 } t 44

def a44 (cfg : Cfg) (s : St) (t : Nat) : St :=
  let l := s.loc t
  if s.closed || s.wakeClose then goto s t 47 else goto s t 45

def a45 (cfg : Cfg) (s : St) (t : Nat) : St :=
  let l := s.loc t
  goto { s with wakeClose := true } t 46

def a46 (cfg : Cfg) (s : St) (t : Nat) : St :=
  let l := s.loc t
  if s.wakeC > 0 then die s t (.panicClose .wake) else goto { s with wakeC := s.wakeC + 1 } t 47

-- `s.recv != nil && !s.state.CanRecv() && !s.state.RecvClosed()`
def a47 (cfg : Cfg) (s : St) (t : Nat) : St :=
  let l := s.loc t
  if s.hasRecv && !(!(s.closed || s.recvClose) && s.canRecv) && !(s.closed || s.recvClose)
  then goto s t 48 else goto s t 50

def a48 (cfg : Cfg) (s : St) (t : Nat) : St :=
  let l := s.loc t
  goto { s with recvClose := true } t 49

def a49 (cfg : Cfg) (s : St) (t : Nat) : St :=
  let l := s.loc t
  if s.recvC > 0 then die s t (.panicClose .recv) else goto { s with recvC := s.recvC + 1 } t 50

def a50 (cfg : Cfg) (s : St) (t : Nat) : St :=
  let l := s.loc t
  goto { s with closed := true } t (if cfg.client then 52 else 51)

def a51 (cfg : Cfg) (s : St) (t : Nat) : St :=
  let l := s.loc t
  goto (removeReq s) t 52                               -- s.s.Remove(s.ID, false)

-- s.m.close(): client `close(eventer)`, server `func (*Server) close() {}`
def a52 (cfg : Cfg) (s : St) (t : Nat) : St :=
  let l := s.loc t
  if cfg.client then
    (if s.evC > 0 then die s t (.panicClose .ev) else goto { s with evC := s.evC + 1 } t 53)
  else goto s t 53

def a53 (cfg : Cfg) (s : St) (t : Nat) : St :=
  let l := s.loc t
  goto { s with lock := none } t 54

def a54 (cfg : Cfg) (s : St) (t : Nat) : St :=
  let l := s.loc t
  if s.chC > 0 then die s t (.panicClose .ch) else finish { s with chC := s.chC + 1 } t

-- listen (client): wait()
def a60 (cfg : Cfg) (s : St) (t : Nat) : St :=
  let l := s.loc t
  if s.closed || s.closing then goto s t 61
  else if s.ctxDone then goto { s with closing := true } t 61
  else goto { s with wakeLen := 0 } t 61

def a61 (cfg : Cfg) (s : St) (t : Nat) : St :=
  let l := s.loc t
  if s.closed || s.closing then goto s t 62 else goto s t 64

def a62 (cfg : Cfg) (s : St) (t : Nat) : St :=
  let l := s.loc t
  goto { s with peek := true } t 63

def a63 (cfg : Cfg) (s : St) (t : Nat) : St :=
  let l := s.loc t
  goto { s with shutdown := true, ctxTmp := s.ctxTmp || s.ctxDone } t 64

-- s.p.Connect(s.ctx, …) and s.session(c)
def a64 (cfg : Cfg) (s : St) (t : Nat) : St :=
  let l := s.loc t
  let r := match l.script with | [] => true | b :: _ => b
  let rest := l.script.drop 1
  if r && !(s.ctxDone && !s.ctxTmp) then
    setLoc { tell s s.peek with errors := 0, sendLen := 0, peek := false } t { l with pc := 66, script := rest }
  else setLoc s t { l with pc := 65, script := rest }

def a65 (cfg : Cfg) (s : St) (t : Nat) : St :=
  let l := s.loc t
  if (if cfg.errShutdown then s.closed || s.shutdown else s.closed || s.closing) then enterSd s t
  else if s.errors ≤ maxErrors then goto { s with errors := s.errors + 1 } t 60
  else enterSd s t

def a66 (cfg : Cfg) (s : St) (t : Nat) : St :=
  let l := s.loc t
  if s.closed || s.shutdown then enterSd s t else goto s t 60

-- next(): pick, then nextPacket
-- pick(): `if s.peek != nil {…}`, else `if len(s.send) > 0 { return <-s.send }`
def a70 (cfg : Cfg) (s : St) (t : Nat) : St :=
  let l := s.loc t
  if s.peek then setLoc s t { l with pc := 71, got := true }
  else goto { s with sendLen := s.sendLen - 1 } t 72

def a71 (cfg : Cfg) (s : St) (t : Nat) : St :=
  let l := s.loc t
  goto { s with peek := false } t 72

def a72 (cfg : Cfg) (s : St) (t : Nat) : St :=
  let l := s.loc t
  if s.sendLen = 0 then finish (tell s l.got) t else goto s t 73

def a73 (cfg : Cfg) (s : St) (t : Nat) : St :=
  let l := s.loc t
  finish { tell s l.got with sendLen := 0, peek := false } t   -- n, s.peek = nextPacket(…)

-- Wait()
def a80 (cfg : Cfg) (s : St) (t : Nat) : St :=
  let l := s.loc t
  finish s t

-- chanWake()
def a86 (cfg : Cfg) (s : St) (t : Nat) : St :=
  let l := s.loc t
  if cfg.wakeLocked then goto { s with rlock := upd s.rlock t true } t 87 else goto s t 87

def a87 (cfg : Cfg) (s : St) (t : Nat) : St :=
  let l := s.loc t
  if s.closed || s.wakeClose || decide (s.wakeLen ≥ 1) then goto s t 89 else goto s t 88

def a88 (cfg : Cfg) (s : St) (t : Nat) : St :=
  let l := s.loc t
  if s.wakeC > 0 then die s t (.panicSend .wake) else goto { s with wakeLen := 1 } t 89

def a89 (cfg : Cfg) (s : St) (t : Nat) : St :=
  let l := s.loc t
  finish { s with rlock := if cfg.wakeLocked then upd s.rlock t false else s.rlock } t

-- context cancellation
def a90 (cfg : Cfg) (s : St) (t : Nat) : St :=
  let l := s.loc t
  finish { s with ctxDone := true } t

-- Server.listen: `case i := <-s.delSession: … delete(s.sessions, i)`
def a92 (cfg : Cfg) (s : St) (t : Nat) : St :=
  let l := s.loc t
  goto { s with delReq := s.delReq - 1, listed := false } t 92

-- eventer.listen
def a94 (cfg : Cfg) (s : St) (t : Nat) : St :=
  let l := s.loc t
  if s.ctxDone then setLoc s t { l with pc := 20, w := true }   -- s.Close()
  else if cfg.evReturns then finish s t else s

/-- one atomic action of thread `t` (assumed enabled) -/
def act (cfg : Cfg) (s : St) (t : Nat) : St :=
  match (s.loc t).pc with
  | 1 => a1 cfg s t
  | 2 => a2 cfg s t
  | 3 => a3 cfg s t
  | 4 => a4 cfg s t
  | 5 => a5 cfg s t
  | 6 => a6 cfg s t
  | 7 => a7 cfg s t
  | 8 => a8 cfg s t
  | 20 => a20 cfg s t
  | 21 => a21 cfg s t
  | 22 => a22 cfg s t
  | 23 => a23 cfg s t
  | 24 => a24 cfg s t
  | 25 => a25 cfg s t
  | 26 => a26 cfg s t
  | 27 => a27 cfg s t
  | 28 => a28 cfg s t
  | 40 => a40 cfg s t
  | 41 => a41 cfg s t
  | 42 => a42 cfg s t
  | 43 => a43 cfg s t
  | 44 => a44 cfg s t
  | 45 => a45 cfg s t
  | 46 => a46 cfg s t
  | 47 => a47 cfg s t
  | 48 => a48 cfg s t
  | 49 => a49 cfg s t
  | 50 => a50 cfg s t
  | 51 => a51 cfg s t
  | 52 => a52 cfg s t
  | 53 => a53 cfg s t
  | 54 => a54 cfg s t
  | 60 => a60 cfg s t
  | 61 => a61 cfg s t
  | 62 => a62 cfg s t
  | 63 => a63 cfg s t
  | 64 => a64 cfg s t
  | 65 => a65 cfg s t
  | 66 => a66 cfg s t
  | 70 => a70 cfg s t
  | 71 => a71 cfg s t
  | 72 => a72 cfg s t
  | 73 => a73 cfg s t
  | 80 => a80 cfg s t
  | 86 => a86 cfg s t
  | 87 => a87 cfg s t
  | 88 => a88 cfg s t
  | 89 => a89 cfg s t
  | 90 => a90 cfg s t
  | 92 => a92 cfg s t
  | 94 => a94 cfg s t
  | _ => s

/-- One schedule entry: thread `t` executes its next action (no-op when it does not exist, is
finished or is blocked). -/
def step (cfg : Cfg) (n : Nat) (s : St) (t : Nat) : St :=
  if t < n ∧ enabled cfg n s t = true then act cfg s t else s

def run (cfg : Cfg) (n : Nat) (s : St) (sched : List Nat) : St := sched.foldl (step cfg n) s

/-- where a thread of the given kind starts -/
def initLoc (cfg : Cfg) : Kind → Loc
  | .close w => { pc := 20, w := w }
  | .recvShutdown =>
    if cfg.client then { pc := 6 }
    else if cfg.ackLocked then { pc := 7, cont := 8 } else { pc := 1, cont := 4 }
  | .listen res => if cfg.client then { pc := 60, script := res } else { pc := 99, out := .ret }
  | .waitCh => { pc := 80 }
  | .send => { pc := 2, cont := 99 }
  | .wake => if cfg.client then { pc := 26 } else { pc := 99, out := .ret }
  | .chanWake => { pc := 86 }
  | .cancel => { pc := 90 }
  | .srvLoop => { pc := 92 }
  | .evLoop => if cfg.client then { pc := 94 } else { pc := 99, out := .ret }
  | .serve => { pc := 70 }

/-- a fresh, registered, live Session with `q` queued packets -/
def init (cfg : Cfg) (prog : List Kind) (hasRecv canRecv : Bool) (q : Nat) : St :=
  { hasRecv := hasRecv, canRecv := canRecv, sendLen := q,
    loc := fun t => match prog[t]? with | some k => initLoc cfg k | none => {} }

/-! ### well-formedness of a program (decidable) -/

def Kind.isListen : Kind → Bool
  | .listen _ => true
  | _ => false

def isListenAt (prog : List Kind) (t : Nat) : Bool :=
  match prog[t]? with | some k => k.isListen | none => false

/-- index of the first listen thread -/
def listenIdx (prog : List Kind) : Option Nat := (List.range prog.length).find? (isListenAt prog)

/-- a Session has at most one listen goroutine -/
def uniqueListen (prog : List Kind) : Bool :=
  (List.range prog.length).all (fun t => !isListenAt prog t || listenIdx prog == some t)

/-- … and a client Session has one -/
def hasListen (prog : List Kind) : Bool := (listenIdx prog).isSome

def hasKind (prog : List Kind) (k : Kind) : Bool := prog.contains k

/-! ### observations -/

def quiescent (cfg : Cfg) (n : Nat) (s : St) : Prop := ∀ t, t < n → enabled cfg n s t = false

/-- remaining-actions bound of one thread of a closing Session; `b` = the Shutdown flag -/
def rank (b : Bool) (pc : Nat) : Nat :=
  match pc with
  | 7 => 29 | 1 => 28 | 2 => 27 | 3 => 26 | 8 => 25 | 4 => 24 | 5 => 23 | 6 => 23
  | 20 => 22 | 21 => 21 | 22 => 3 | 23 => 2 | 24 => 1 | 25 => 20
  | 26 => 3 | 27 => 2 | 28 => 1
  | 60 => 25 | 61 => 24 | 62 => 23 | 63 => 22
  | 64 => if b then 21 else 28
  | 65 => if b then 20 else 26
  | 66 => if b then 20 else 26
  | 70 => 4 | 71 => 3 | 72 => 2 | 73 => 1
  | 80 => 1 | 86 => 4 | 87 => 3 | 88 => 2 | 89 => 1 | 90 => 1
  | 92 => 0
  | 94 => 23
  | 99 => 0
  | pc => if 40 ≤ pc ∧ pc ≤ 54 then 59 - pc else 0

def sumRank (b : Bool) (loc : Nat → Loc) : Nat → Nat
  | 0 => 0
  | n + 1 => sumRank b loc n + rank b (loc n).pc

/-- the variant: twice the remaining actions of the Session's threads plus the pending removals -/
def measure (n : Nat) (s : St) : Nat := 2 * sumRank s.shutdown s.loc n + s.delReq

end XMT.Close
