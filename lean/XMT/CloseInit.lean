/- XMT.CloseInit — the invariants hold in the initial state (helper lemmas for Props/C16). -/
import XMT.CloseInv
namespace XMT.Close

/-! ### the initial state -/

theorem initLoc_sd (cfg : Cfg) (k : Kind) : (initLoc cfg k).sd = false := by
  cases k <;> simp only [initLoc] <;> (repeat' split) <;> rfl

theorem initLoc_out (cfg : Cfg) (k : Kind) (c : Chan) : (initLoc cfg k).out ≠ .panicClose c := by
  cases k <;> simp only [initLoc] <;> (repeat' split) <;> simp

theorem initLoc_cont (cfg : Cfg) (k : Kind) :
    (initLoc cfg k).cont = 4 ∨ (initLoc cfg k).cont = 8 ∨ (initLoc cfg k).cont = 99 := by
  cases k <;> simp only [initLoc] <;> (repeat' split) <;> simp

theorem initLoc_listen (cfg : Cfg) (k : Kind) (h : 60 ≤ (initLoc cfg k).pc ∧ (initLoc cfg k).pc ≤ 66) :
    k.isListen = true ∧ cfg.client = true := by
  cases k <;> simp only [initLoc, Kind.isListen] at * <;> (repeat' split at h) <;> simp_all

theorem initLoc_notSd (cfg : Cfg) (k : Kind) : ¬ (40 ≤ (initLoc cfg k).pc ∧ (initLoc cfg k).pc ≤ 54) := by
  cases k <;> simp only [initLoc] <;> (repeat' split) <;> simp

theorem init_loc (cfg : Cfg) (prog : List Kind) (a b : Bool) (q t : Nat) :
    (init cfg prog a b q).loc t = match prog[t]? with | some k => initLoc cfg k | none => {} := rfl

theorem uniqueListen_eq (prog : List Kind) (h : uniqueListen prog = true) (t u : Nat)
    (ht : isListenAt prog t = true) (hu : isListenAt prog u = true) : t = u := by
  have lt : ∀ x, isListenAt prog x = true → x < prog.length := by
    intro x hx
    unfold isListenAt at hx
    cases e : prog[x]? with
    | none => simp [e] at hx
    | some k => exact (List.getElem?_eq_some_iff.mp e).1
  unfold uniqueListen at h
  rw [List.all_eq_true] at h
  have a := h t (List.mem_range.mpr (lt t ht))
  have b := h u (List.mem_range.mpr (lt u hu))
  simp [ht, hu] at a b
  rw [a] at b
  exact Option.some.inj b

theorem inv1_init (cfg : Cfg) (prog : List Kind) (hu : uniqueListen prog = true) (a b : Bool) (q : Nat) :
    Inv1 cfg (init cfg prog a b q) := by
  have hsd : ∀ t, ((init cfg prog a b q).loc t).sd = false := by
    intro t; rw [init_loc]; cases prog[t]? <;> simp [initLoc_sd]
  have hli : ∀ t, 60 ≤ ((init cfg prog a b q).loc t).pc ∧ ((init cfg prog a b q).loc t).pc ≤ 66 →
      isListenAt prog t = true ∧ cfg.client = true := by
    intro t; rw [init_loc]; unfold isListenAt
    cases e : prog[t]? with
    | none => simp
    | some k => simpa using initLoc_listen cfg k
  refine ⟨?_, ?_, ?_, ?_, ?_, ?_, ?_, ?_, ?_, ?_, ?_, ?_⟩
  · intro t u ht hu'
    have ht' : 60 ≤ ((init cfg prog a b q).loc t).pc ∧ ((init cfg prog a b q).loc t).pc ≤ 66 := by
      rcases ht with h | h
      · simp [hsd] at h
      · exact h.2
    have hu'' : 60 ≤ ((init cfg prog a b q).loc u).pc ∧ ((init cfg prog a b q).loc u).pc ≤ 66 := by
      rcases hu' with h | h
      · simp [hsd] at h
      · exact h.2
    exact uniqueListen_eq prog hu t u (hli t ht').1 (hli u hu'').1
  · intro _ t ht; simp [hsd] at ht
  · intro hc t ht; have := (hli t ht).2; simp [hc] at this
  · intro t h1 h2
    exfalso
    rw [init_loc] at h1 h2
    cases e : prog[t]? with
    | none => simp [e] at h2
    | some k => simp only [e] at h1 h2; exact initLoc_notSd cfg k ⟨h1, h2⟩
  · intro t ht; simp [hsd] at ht
  · left; rfl
  · left; rfl
  · left; rfl
  · left; rfl
  · left; rfl
  · intro t c; rw [init_loc]
    cases e : prog[t]? with
    | none => simp
    | some k => exact initLoc_out cfg k c
  · intro t; rw [init_loc]
    cases e : prog[t]? with
    | none => simp
    | some k => exact initLoc_cont cfg k

end XMT.Close
