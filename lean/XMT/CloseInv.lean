/-
  XMT.CloseInv — the inductive invariant behind "no channel is ever closed twice" (C16) and its
  preservation by every atomic action of every thread (helper lemmas; the property theorems are in
  XMT/Props/C16.lean).
-/
import XMT.Close
namespace XMT.Close

/-- thread `t` is, or is bound to become, the one caller of shutdown(): it has entered shutdown, or
it is the listen goroutine of a client Session -/
def ent (cfg : Cfg) (s : St) (t : Nat) : Prop :=
  (s.loc t).sd = true ∨ (cfg.client = true ∧ 60 ≤ (s.loc t).pc ∧ (s.loc t).pc ≤ 66)

/-- a channel was closed at most once, and only by the thread inside shutdown() that is already
past the close statement at pc `k` -/
def closedBy (s : St) (c : Nat) (k : Nat) : Prop :=
  c = 0 ∨ (c = 1 ∧ ∃ t, (s.loc t).sd = true ∧ k < (s.loc t).pc)

structure Inv1 (cfg : Cfg) (s : St) : Prop where
  uniq : ∀ t u, ent cfg s t → ent cfg s u → t = u
  sdClosing : cfg.client = false → ∀ t, (s.loc t).sd = true → s.closing = true
  noListenSrv : cfg.client = false → ∀ t, ¬ (60 ≤ (s.loc t).pc ∧ (s.loc t).pc ≤ 66)
  inSd : ∀ t, 40 ≤ (s.loc t).pc → (s.loc t).pc ≤ 54 → (s.loc t).sd = true
  sdPc : ∀ t, (s.loc t).sd = true → (40 ≤ (s.loc t).pc ∧ (s.loc t).pc ≤ 54) ∨ (s.loc t).pc = 99
  sendC : closedBy s s.sendC 43
  wakeC : closedBy s s.wakeC 46
  recvC : closedBy s s.recvC 49
  evC : closedBy s s.evC 52
  chC : closedBy s s.chC 54
  noPanic : ∀ t c, (s.loc t).out ≠ .panicClose c
  contOk : ∀ t, (s.loc t).cont = 4 ∨ (s.loc t).cont = 8 ∨ (s.loc t).cont = 99

/-! ### preservation, one lemma per atomic action -/

macro "inv1_tac" : tactic => `(tactic| (
  refine ⟨?_, ?_, ?_, ?_, ?_, ?_, ?_, ?_, ?_, ?_, ?_, ?_⟩ <;>
  simp only [ent, closedBy, goto, setLoc, finish, die, enterSd, ret, sendSend, wakeSend, afterWake,
    removeReq, tell, upd_apply, fin] at * <;>
  grind))

set_option linter.unusedVariables false
set_option linter.unusedSimpArgs false

theorem inv1_a1 (cfg : Cfg) (h : cfg.trySet = true) (s : St) (t : Nat) (hp : (s.loc t).pc = 1)
    (hi : Inv1 cfg s) : Inv1 cfg (a1 cfg s t) := by
  obtain ⟨h1, h2, h3, h4, h4b, h5, h6, h7, h8, h9, h10, h11⟩ := hi
  simp only [a1, sendSend, wakeSend, afterWake, ret]
  repeat' split
  all_goals inv1_tac

theorem inv1_a2 (cfg : Cfg) (h : cfg.trySet = true) (s : St) (t : Nat) (hp : (s.loc t).pc = 2)
    (hi : Inv1 cfg s) : Inv1 cfg (a2 cfg s t) := by
  obtain ⟨h1, h2, h3, h4, h4b, h5, h6, h7, h8, h9, h10, h11⟩ := hi
  simp only [a2, sendSend, wakeSend, afterWake, ret]
  repeat' split
  all_goals inv1_tac

theorem inv1_a3 (cfg : Cfg) (h : cfg.trySet = true) (s : St) (t : Nat) (hp : (s.loc t).pc = 3)
    (hi : Inv1 cfg s) : Inv1 cfg (a3 cfg s t) := by
  obtain ⟨h1, h2, h3, h4, h4b, h5, h6, h7, h8, h9, h10, h11⟩ := hi
  simp only [a3, sendSend, wakeSend, afterWake, ret]
  repeat' split
  all_goals inv1_tac

theorem inv1_a4 (cfg : Cfg) (h : cfg.trySet = true) (s : St) (t : Nat) (hp : (s.loc t).pc = 4)
    (hi : Inv1 cfg s) : Inv1 cfg (a4 cfg s t) := by
  obtain ⟨h1, h2, h3, h4, h4b, h5, h6, h7, h8, h9, h10, h11⟩ := hi
  simp only [a4, sendSend, wakeSend, afterWake, ret]
  repeat' split
  all_goals inv1_tac

theorem inv1_a5 (cfg : Cfg) (h : cfg.trySet = true) (s : St) (t : Nat) (hp : (s.loc t).pc = 5)
    (hi : Inv1 cfg s) : Inv1 cfg (a5 cfg s t) := by
  obtain ⟨h1, h2, h3, h4, h4b, h5, h6, h7, h8, h9, h10, h11⟩ := hi
  simp only [a5, sendSend, wakeSend, afterWake, ret]
  repeat' split
  all_goals inv1_tac

theorem inv1_a6 (cfg : Cfg) (h : cfg.trySet = true) (s : St) (t : Nat) (hp : (s.loc t).pc = 6)
    (hi : Inv1 cfg s) : Inv1 cfg (a6 cfg s t) := by
  obtain ⟨h1, h2, h3, h4, h4b, h5, h6, h7, h8, h9, h10, h11⟩ := hi
  simp only [a6, sendSend, wakeSend, afterWake, ret]
  repeat' split
  all_goals inv1_tac

theorem inv1_a7 (cfg : Cfg) (h : cfg.trySet = true) (s : St) (t : Nat) (hp : (s.loc t).pc = 7)
    (hi : Inv1 cfg s) : Inv1 cfg (a7 cfg s t) := by
  obtain ⟨h1, h2, h3, h4, h4b, h5, h6, h7, h8, h9, h10, h11⟩ := hi
  simp only [a7, sendSend, wakeSend, afterWake, ret]
  repeat' split
  all_goals inv1_tac

theorem inv1_a8 (cfg : Cfg) (h : cfg.trySet = true) (s : St) (t : Nat) (hp : (s.loc t).pc = 8)
    (hi : Inv1 cfg s) : Inv1 cfg (a8 cfg s t) := by
  obtain ⟨h1, h2, h3, h4, h4b, h5, h6, h7, h8, h9, h10, h11⟩ := hi
  simp only [a8, sendSend, wakeSend, afterWake, ret]
  repeat' split
  all_goals inv1_tac

theorem inv1_a20 (cfg : Cfg) (h : cfg.trySet = true) (s : St) (t : Nat) (hp : (s.loc t).pc = 20)
    (hi : Inv1 cfg s) : Inv1 cfg (a20 cfg s t) := by
  obtain ⟨h1, h2, h3, h4, h4b, h5, h6, h7, h8, h9, h10, h11⟩ := hi
  simp only [a20, sendSend, wakeSend, afterWake, ret]
  repeat' split
  all_goals inv1_tac

theorem inv1_a21 (cfg : Cfg) (h : cfg.trySet = true) (s : St) (t : Nat) (hp : (s.loc t).pc = 21)
    (hi : Inv1 cfg s) : Inv1 cfg (a21 cfg s t) := by
  obtain ⟨h1, h2, h3, h4, h4b, h5, h6, h7, h8, h9, h10, h11⟩ := hi
  simp only [a21, sendSend, wakeSend, afterWake, ret]
  repeat' split
  all_goals inv1_tac

theorem inv1_a22 (cfg : Cfg) (h : cfg.trySet = true) (s : St) (t : Nat) (hp : (s.loc t).pc = 22)
    (hi : Inv1 cfg s) : Inv1 cfg (a22 cfg s t) := by
  obtain ⟨h1, h2, h3, h4, h4b, h5, h6, h7, h8, h9, h10, h11⟩ := hi
  simp only [a22, sendSend, wakeSend, afterWake, ret]
  repeat' split
  all_goals inv1_tac

theorem inv1_a23 (cfg : Cfg) (h : cfg.trySet = true) (s : St) (t : Nat) (hp : (s.loc t).pc = 23)
    (hi : Inv1 cfg s) : Inv1 cfg (a23 cfg s t) := by
  obtain ⟨h1, h2, h3, h4, h4b, h5, h6, h7, h8, h9, h10, h11⟩ := hi
  simp only [a23, sendSend, wakeSend, afterWake, ret]
  repeat' split
  all_goals inv1_tac

theorem inv1_a24 (cfg : Cfg) (h : cfg.trySet = true) (s : St) (t : Nat) (hp : (s.loc t).pc = 24)
    (hi : Inv1 cfg s) : Inv1 cfg (a24 cfg s t) := by
  obtain ⟨h1, h2, h3, h4, h4b, h5, h6, h7, h8, h9, h10, h11⟩ := hi
  simp only [a24, sendSend, wakeSend, afterWake, ret]
  repeat' split
  all_goals inv1_tac

theorem inv1_a25 (cfg : Cfg) (h : cfg.trySet = true) (s : St) (t : Nat) (hp : (s.loc t).pc = 25)
    (hi : Inv1 cfg s) : Inv1 cfg (a25 cfg s t) := by
  obtain ⟨h1, h2, h3, h4, h4b, h5, h6, h7, h8, h9, h10, h11⟩ := hi
  simp only [a25, sendSend, wakeSend, afterWake, ret]
  repeat' split
  all_goals inv1_tac

theorem inv1_a26 (cfg : Cfg) (h : cfg.trySet = true) (s : St) (t : Nat) (hp : (s.loc t).pc = 26)
    (hi : Inv1 cfg s) : Inv1 cfg (a26 cfg s t) := by
  obtain ⟨h1, h2, h3, h4, h4b, h5, h6, h7, h8, h9, h10, h11⟩ := hi
  simp only [a26, sendSend, wakeSend, afterWake, ret]
  repeat' split
  all_goals inv1_tac

theorem inv1_a27 (cfg : Cfg) (h : cfg.trySet = true) (s : St) (t : Nat) (hp : (s.loc t).pc = 27)
    (hi : Inv1 cfg s) : Inv1 cfg (a27 cfg s t) := by
  obtain ⟨h1, h2, h3, h4, h4b, h5, h6, h7, h8, h9, h10, h11⟩ := hi
  simp only [a27, sendSend, wakeSend, afterWake, ret]
  repeat' split
  all_goals inv1_tac

theorem inv1_a28 (cfg : Cfg) (h : cfg.trySet = true) (s : St) (t : Nat) (hp : (s.loc t).pc = 28)
    (hi : Inv1 cfg s) : Inv1 cfg (a28 cfg s t) := by
  obtain ⟨h1, h2, h3, h4, h4b, h5, h6, h7, h8, h9, h10, h11⟩ := hi
  simp only [a28, sendSend, wakeSend, afterWake, ret]
  repeat' split
  all_goals inv1_tac

theorem inv1_a40 (cfg : Cfg) (h : cfg.trySet = true) (s : St) (t : Nat) (hp : (s.loc t).pc = 40)
    (hi : Inv1 cfg s) : Inv1 cfg (a40 cfg s t) := by
  obtain ⟨h1, h2, h3, h4, h4b, h5, h6, h7, h8, h9, h10, h11⟩ := hi
  simp only [a40, sendSend, wakeSend, afterWake, ret]
  repeat' split
  all_goals inv1_tac

theorem inv1_a41 (cfg : Cfg) (h : cfg.trySet = true) (s : St) (t : Nat) (hp : (s.loc t).pc = 41)
    (hi : Inv1 cfg s) : Inv1 cfg (a41 cfg s t) := by
  obtain ⟨h1, h2, h3, h4, h4b, h5, h6, h7, h8, h9, h10, h11⟩ := hi
  simp only [a41, sendSend, wakeSend, afterWake, ret]
  repeat' split
  all_goals inv1_tac

theorem inv1_a42 (cfg : Cfg) (h : cfg.trySet = true) (s : St) (t : Nat) (hp : (s.loc t).pc = 42)
    (hi : Inv1 cfg s) : Inv1 cfg (a42 cfg s t) := by
  obtain ⟨h1, h2, h3, h4, h4b, h5, h6, h7, h8, h9, h10, h11⟩ := hi
  simp only [a42, sendSend, wakeSend, afterWake, ret]
  repeat' split
  all_goals inv1_tac

theorem inv1_a43 (cfg : Cfg) (h : cfg.trySet = true) (s : St) (t : Nat) (hp : (s.loc t).pc = 43)
    (hi : Inv1 cfg s) : Inv1 cfg (a43 cfg s t) := by
  obtain ⟨h1, h2, h3, h4, h4b, h5, h6, h7, h8, h9, h10, h11⟩ := hi
  simp only [a43, sendSend, wakeSend, afterWake, ret]
  repeat' split
  all_goals inv1_tac

theorem inv1_a44 (cfg : Cfg) (h : cfg.trySet = true) (s : St) (t : Nat) (hp : (s.loc t).pc = 44)
    (hi : Inv1 cfg s) : Inv1 cfg (a44 cfg s t) := by
  obtain ⟨h1, h2, h3, h4, h4b, h5, h6, h7, h8, h9, h10, h11⟩ := hi
  simp only [a44, sendSend, wakeSend, afterWake, ret]
  repeat' split
  all_goals inv1_tac

theorem inv1_a45 (cfg : Cfg) (h : cfg.trySet = true) (s : St) (t : Nat) (hp : (s.loc t).pc = 45)
    (hi : Inv1 cfg s) : Inv1 cfg (a45 cfg s t) := by
  obtain ⟨h1, h2, h3, h4, h4b, h5, h6, h7, h8, h9, h10, h11⟩ := hi
  simp only [a45, sendSend, wakeSend, afterWake, ret]
  repeat' split
  all_goals inv1_tac

theorem inv1_a46 (cfg : Cfg) (h : cfg.trySet = true) (s : St) (t : Nat) (hp : (s.loc t).pc = 46)
    (hi : Inv1 cfg s) : Inv1 cfg (a46 cfg s t) := by
  obtain ⟨h1, h2, h3, h4, h4b, h5, h6, h7, h8, h9, h10, h11⟩ := hi
  simp only [a46, sendSend, wakeSend, afterWake, ret]
  repeat' split
  all_goals inv1_tac

theorem inv1_a47 (cfg : Cfg) (h : cfg.trySet = true) (s : St) (t : Nat) (hp : (s.loc t).pc = 47)
    (hi : Inv1 cfg s) : Inv1 cfg (a47 cfg s t) := by
  obtain ⟨h1, h2, h3, h4, h4b, h5, h6, h7, h8, h9, h10, h11⟩ := hi
  simp only [a47, sendSend, wakeSend, afterWake, ret]
  repeat' split
  all_goals inv1_tac

theorem inv1_a48 (cfg : Cfg) (h : cfg.trySet = true) (s : St) (t : Nat) (hp : (s.loc t).pc = 48)
    (hi : Inv1 cfg s) : Inv1 cfg (a48 cfg s t) := by
  obtain ⟨h1, h2, h3, h4, h4b, h5, h6, h7, h8, h9, h10, h11⟩ := hi
  simp only [a48, sendSend, wakeSend, afterWake, ret]
  repeat' split
  all_goals inv1_tac

theorem inv1_a49 (cfg : Cfg) (h : cfg.trySet = true) (s : St) (t : Nat) (hp : (s.loc t).pc = 49)
    (hi : Inv1 cfg s) : Inv1 cfg (a49 cfg s t) := by
  obtain ⟨h1, h2, h3, h4, h4b, h5, h6, h7, h8, h9, h10, h11⟩ := hi
  simp only [a49, sendSend, wakeSend, afterWake, ret]
  repeat' split
  all_goals inv1_tac

theorem inv1_a50 (cfg : Cfg) (h : cfg.trySet = true) (s : St) (t : Nat) (hp : (s.loc t).pc = 50)
    (hi : Inv1 cfg s) : Inv1 cfg (a50 cfg s t) := by
  obtain ⟨h1, h2, h3, h4, h4b, h5, h6, h7, h8, h9, h10, h11⟩ := hi
  simp only [a50, sendSend, wakeSend, afterWake, ret]
  repeat' split
  all_goals inv1_tac

theorem inv1_a51 (cfg : Cfg) (h : cfg.trySet = true) (s : St) (t : Nat) (hp : (s.loc t).pc = 51)
    (hi : Inv1 cfg s) : Inv1 cfg (a51 cfg s t) := by
  obtain ⟨h1, h2, h3, h4, h4b, h5, h6, h7, h8, h9, h10, h11⟩ := hi
  simp only [a51, sendSend, wakeSend, afterWake, ret]
  repeat' split
  all_goals inv1_tac

theorem inv1_a52 (cfg : Cfg) (h : cfg.trySet = true) (s : St) (t : Nat) (hp : (s.loc t).pc = 52)
    (hi : Inv1 cfg s) : Inv1 cfg (a52 cfg s t) := by
  obtain ⟨h1, h2, h3, h4, h4b, h5, h6, h7, h8, h9, h10, h11⟩ := hi
  simp only [a52, sendSend, wakeSend, afterWake, ret]
  repeat' split
  all_goals inv1_tac

theorem inv1_a53 (cfg : Cfg) (h : cfg.trySet = true) (s : St) (t : Nat) (hp : (s.loc t).pc = 53)
    (hi : Inv1 cfg s) : Inv1 cfg (a53 cfg s t) := by
  obtain ⟨h1, h2, h3, h4, h4b, h5, h6, h7, h8, h9, h10, h11⟩ := hi
  simp only [a53, sendSend, wakeSend, afterWake, ret]
  repeat' split
  all_goals inv1_tac

theorem inv1_a54 (cfg : Cfg) (h : cfg.trySet = true) (s : St) (t : Nat) (hp : (s.loc t).pc = 54)
    (hi : Inv1 cfg s) : Inv1 cfg (a54 cfg s t) := by
  obtain ⟨h1, h2, h3, h4, h4b, h5, h6, h7, h8, h9, h10, h11⟩ := hi
  simp only [a54, sendSend, wakeSend, afterWake, ret]
  repeat' split
  all_goals inv1_tac

theorem inv1_a60 (cfg : Cfg) (h : cfg.trySet = true) (s : St) (t : Nat) (hp : (s.loc t).pc = 60)
    (hi : Inv1 cfg s) : Inv1 cfg (a60 cfg s t) := by
  obtain ⟨h1, h2, h3, h4, h4b, h5, h6, h7, h8, h9, h10, h11⟩ := hi
  simp only [a60, sendSend, wakeSend, afterWake, ret]
  repeat' split
  all_goals inv1_tac

theorem inv1_a61 (cfg : Cfg) (h : cfg.trySet = true) (s : St) (t : Nat) (hp : (s.loc t).pc = 61)
    (hi : Inv1 cfg s) : Inv1 cfg (a61 cfg s t) := by
  obtain ⟨h1, h2, h3, h4, h4b, h5, h6, h7, h8, h9, h10, h11⟩ := hi
  simp only [a61, sendSend, wakeSend, afterWake, ret]
  repeat' split
  all_goals inv1_tac

theorem inv1_a62 (cfg : Cfg) (h : cfg.trySet = true) (s : St) (t : Nat) (hp : (s.loc t).pc = 62)
    (hi : Inv1 cfg s) : Inv1 cfg (a62 cfg s t) := by
  obtain ⟨h1, h2, h3, h4, h4b, h5, h6, h7, h8, h9, h10, h11⟩ := hi
  simp only [a62, sendSend, wakeSend, afterWake, ret]
  repeat' split
  all_goals inv1_tac

theorem inv1_a63 (cfg : Cfg) (h : cfg.trySet = true) (s : St) (t : Nat) (hp : (s.loc t).pc = 63)
    (hi : Inv1 cfg s) : Inv1 cfg (a63 cfg s t) := by
  obtain ⟨h1, h2, h3, h4, h4b, h5, h6, h7, h8, h9, h10, h11⟩ := hi
  simp only [a63, sendSend, wakeSend, afterWake, ret]
  repeat' split
  all_goals inv1_tac

theorem inv1_a64 (cfg : Cfg) (h : cfg.trySet = true) (s : St) (t : Nat) (hp : (s.loc t).pc = 64)
    (hi : Inv1 cfg s) : Inv1 cfg (a64 cfg s t) := by
  obtain ⟨h1, h2, h3, h4, h4b, h5, h6, h7, h8, h9, h10, h11⟩ := hi
  simp only [a64, sendSend, wakeSend, afterWake, ret]
  repeat' split
  all_goals inv1_tac

theorem inv1_a65 (cfg : Cfg) (h : cfg.trySet = true) (s : St) (t : Nat) (hp : (s.loc t).pc = 65)
    (hi : Inv1 cfg s) : Inv1 cfg (a65 cfg s t) := by
  obtain ⟨h1, h2, h3, h4, h4b, h5, h6, h7, h8, h9, h10, h11⟩ := hi
  simp only [a65, sendSend, wakeSend, afterWake, ret]
  repeat' split
  all_goals inv1_tac

theorem inv1_a66 (cfg : Cfg) (h : cfg.trySet = true) (s : St) (t : Nat) (hp : (s.loc t).pc = 66)
    (hi : Inv1 cfg s) : Inv1 cfg (a66 cfg s t) := by
  obtain ⟨h1, h2, h3, h4, h4b, h5, h6, h7, h8, h9, h10, h11⟩ := hi
  simp only [a66, sendSend, wakeSend, afterWake, ret]
  repeat' split
  all_goals inv1_tac

theorem inv1_a70 (cfg : Cfg) (h : cfg.trySet = true) (s : St) (t : Nat) (hp : (s.loc t).pc = 70)
    (hi : Inv1 cfg s) : Inv1 cfg (a70 cfg s t) := by
  obtain ⟨h1, h2, h3, h4, h4b, h5, h6, h7, h8, h9, h10, h11⟩ := hi
  simp only [a70, sendSend, wakeSend, afterWake, ret]
  repeat' split
  all_goals inv1_tac

theorem inv1_a71 (cfg : Cfg) (h : cfg.trySet = true) (s : St) (t : Nat) (hp : (s.loc t).pc = 71)
    (hi : Inv1 cfg s) : Inv1 cfg (a71 cfg s t) := by
  obtain ⟨h1, h2, h3, h4, h4b, h5, h6, h7, h8, h9, h10, h11⟩ := hi
  simp only [a71, sendSend, wakeSend, afterWake, ret]
  repeat' split
  all_goals inv1_tac

theorem inv1_a72 (cfg : Cfg) (h : cfg.trySet = true) (s : St) (t : Nat) (hp : (s.loc t).pc = 72)
    (hi : Inv1 cfg s) : Inv1 cfg (a72 cfg s t) := by
  obtain ⟨h1, h2, h3, h4, h4b, h5, h6, h7, h8, h9, h10, h11⟩ := hi
  simp only [a72, sendSend, wakeSend, afterWake, ret]
  repeat' split
  all_goals inv1_tac

theorem inv1_a73 (cfg : Cfg) (h : cfg.trySet = true) (s : St) (t : Nat) (hp : (s.loc t).pc = 73)
    (hi : Inv1 cfg s) : Inv1 cfg (a73 cfg s t) := by
  obtain ⟨h1, h2, h3, h4, h4b, h5, h6, h7, h8, h9, h10, h11⟩ := hi
  simp only [a73, sendSend, wakeSend, afterWake, ret]
  repeat' split
  all_goals inv1_tac

theorem inv1_a80 (cfg : Cfg) (h : cfg.trySet = true) (s : St) (t : Nat) (hp : (s.loc t).pc = 80)
    (hi : Inv1 cfg s) : Inv1 cfg (a80 cfg s t) := by
  obtain ⟨h1, h2, h3, h4, h4b, h5, h6, h7, h8, h9, h10, h11⟩ := hi
  simp only [a80, sendSend, wakeSend, afterWake, ret]
  repeat' split
  all_goals inv1_tac

theorem inv1_a86 (cfg : Cfg) (h : cfg.trySet = true) (s : St) (t : Nat) (hp : (s.loc t).pc = 86)
    (hi : Inv1 cfg s) : Inv1 cfg (a86 cfg s t) := by
  obtain ⟨h1, h2, h3, h4, h4b, h5, h6, h7, h8, h9, h10, h11⟩ := hi
  simp only [a86, sendSend, wakeSend, afterWake, ret]
  repeat' split
  all_goals inv1_tac

theorem inv1_a87 (cfg : Cfg) (h : cfg.trySet = true) (s : St) (t : Nat) (hp : (s.loc t).pc = 87)
    (hi : Inv1 cfg s) : Inv1 cfg (a87 cfg s t) := by
  obtain ⟨h1, h2, h3, h4, h4b, h5, h6, h7, h8, h9, h10, h11⟩ := hi
  simp only [a87, sendSend, wakeSend, afterWake, ret]
  repeat' split
  all_goals inv1_tac

theorem inv1_a88 (cfg : Cfg) (h : cfg.trySet = true) (s : St) (t : Nat) (hp : (s.loc t).pc = 88)
    (hi : Inv1 cfg s) : Inv1 cfg (a88 cfg s t) := by
  obtain ⟨h1, h2, h3, h4, h4b, h5, h6, h7, h8, h9, h10, h11⟩ := hi
  simp only [a88, sendSend, wakeSend, afterWake, ret]
  repeat' split
  all_goals inv1_tac

theorem inv1_a89 (cfg : Cfg) (h : cfg.trySet = true) (s : St) (t : Nat) (hp : (s.loc t).pc = 89)
    (hi : Inv1 cfg s) : Inv1 cfg (a89 cfg s t) := by
  obtain ⟨h1, h2, h3, h4, h4b, h5, h6, h7, h8, h9, h10, h11⟩ := hi
  simp only [a89, sendSend, wakeSend, afterWake, ret]
  repeat' split
  all_goals inv1_tac

theorem inv1_a90 (cfg : Cfg) (h : cfg.trySet = true) (s : St) (t : Nat) (hp : (s.loc t).pc = 90)
    (hi : Inv1 cfg s) : Inv1 cfg (a90 cfg s t) := by
  obtain ⟨h1, h2, h3, h4, h4b, h5, h6, h7, h8, h9, h10, h11⟩ := hi
  simp only [a90, sendSend, wakeSend, afterWake, ret]
  repeat' split
  all_goals inv1_tac

theorem inv1_a92 (cfg : Cfg) (h : cfg.trySet = true) (s : St) (t : Nat) (hp : (s.loc t).pc = 92)
    (hi : Inv1 cfg s) : Inv1 cfg (a92 cfg s t) := by
  obtain ⟨h1, h2, h3, h4, h4b, h5, h6, h7, h8, h9, h10, h11⟩ := hi
  simp only [a92, sendSend, wakeSend, afterWake, ret]
  repeat' split
  all_goals inv1_tac

theorem inv1_a94 (cfg : Cfg) (h : cfg.trySet = true) (s : St) (t : Nat) (hp : (s.loc t).pc = 94)
    (hi : Inv1 cfg s) : Inv1 cfg (a94 cfg s t) := by
  obtain ⟨h1, h2, h3, h4, h4b, h5, h6, h7, h8, h9, h10, h11⟩ := hi
  simp only [a94, sendSend, wakeSend, afterWake, ret]
  repeat' split
  all_goals inv1_tac

/-- every atomic action preserves the invariant -/
theorem inv1_act (cfg : Cfg) (h : cfg.trySet = true) (s : St) (t : Nat) (hi : Inv1 cfg s) :
    Inv1 cfg (act cfg s t) := by
  unfold act
  repeat' split
  all_goals first | exact hi | exact inv1_a1 cfg h s t (by assumption) hi | exact inv1_a2 cfg h s t (by assumption) hi | exact inv1_a3 cfg h s t (by assumption) hi | exact inv1_a4 cfg h s t (by assumption) hi | exact inv1_a5 cfg h s t (by assumption) hi | exact inv1_a6 cfg h s t (by assumption) hi | exact inv1_a7 cfg h s t (by assumption) hi | exact inv1_a8 cfg h s t (by assumption) hi | exact inv1_a20 cfg h s t (by assumption) hi | exact inv1_a21 cfg h s t (by assumption) hi | exact inv1_a22 cfg h s t (by assumption) hi | exact inv1_a23 cfg h s t (by assumption) hi | exact inv1_a24 cfg h s t (by assumption) hi | exact inv1_a25 cfg h s t (by assumption) hi | exact inv1_a26 cfg h s t (by assumption) hi | exact inv1_a27 cfg h s t (by assumption) hi | exact inv1_a28 cfg h s t (by assumption) hi | exact inv1_a40 cfg h s t (by assumption) hi | exact inv1_a41 cfg h s t (by assumption) hi | exact inv1_a42 cfg h s t (by assumption) hi | exact inv1_a43 cfg h s t (by assumption) hi | exact inv1_a44 cfg h s t (by assumption) hi | exact inv1_a45 cfg h s t (by assumption) hi | exact inv1_a46 cfg h s t (by assumption) hi | exact inv1_a47 cfg h s t (by assumption) hi | exact inv1_a48 cfg h s t (by assumption) hi | exact inv1_a49 cfg h s t (by assumption) hi | exact inv1_a50 cfg h s t (by assumption) hi | exact inv1_a51 cfg h s t (by assumption) hi | exact inv1_a52 cfg h s t (by assumption) hi | exact inv1_a53 cfg h s t (by assumption) hi | exact inv1_a54 cfg h s t (by assumption) hi | exact inv1_a60 cfg h s t (by assumption) hi | exact inv1_a61 cfg h s t (by assumption) hi | exact inv1_a62 cfg h s t (by assumption) hi | exact inv1_a63 cfg h s t (by assumption) hi | exact inv1_a64 cfg h s t (by assumption) hi | exact inv1_a65 cfg h s t (by assumption) hi | exact inv1_a66 cfg h s t (by assumption) hi | exact inv1_a70 cfg h s t (by assumption) hi | exact inv1_a71 cfg h s t (by assumption) hi | exact inv1_a72 cfg h s t (by assumption) hi | exact inv1_a73 cfg h s t (by assumption) hi | exact inv1_a80 cfg h s t (by assumption) hi | exact inv1_a86 cfg h s t (by assumption) hi | exact inv1_a87 cfg h s t (by assumption) hi | exact inv1_a88 cfg h s t (by assumption) hi | exact inv1_a89 cfg h s t (by assumption) hi | exact inv1_a90 cfg h s t (by assumption) hi | exact inv1_a92 cfg h s t (by assumption) hi | exact inv1_a94 cfg h s t (by assumption) hi

theorem inv1_step (cfg : Cfg) (h : cfg.trySet = true) (n : Nat) (s : St) (t : Nat) (hi : Inv1 cfg s) :
    Inv1 cfg (step cfg n s t) := by
  unfold step
  split
  · exact inv1_act cfg h s t hi
  · exact hi

theorem inv1_run (cfg : Cfg) (h : cfg.trySet = true) (n : Nat) (sched : List Nat) (s : St) (hi : Inv1 cfg s) :
    Inv1 cfg (run cfg n s sched) := by
  induction sched generalizing s with
  | nil => exact hi
  | cons t ts ih => exact ih _ (inv1_step cfg h n s t hi)

end XMT.Close
