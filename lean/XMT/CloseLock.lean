/-
  XMT.CloseLock — second invariant for C16: the Session lock (write regions of shutdown and of the
  acknowledgement write, read region of chanWake), "flag before close", and what follows from them:
  no thread inside a locked region ever finds its channel closed (helper lemmas; the property
  theorems are in XMT/Props/C16.lean).
-/
import XMT.CloseInv
namespace XMT.Close

set_option linter.unusedVariables false
set_option linter.unusedSimpArgs false

/-- inside a write-locked region: shutdown between Lock and Unlock, or the acknowledgement write -/
def inW (l : Loc) : Prop :=
  (41 ≤ l.pc ∧ l.pc ≤ 53) ∨ ((l.pc = 1 ∨ l.pc = 2 ∨ l.pc = 3 ∨ l.pc = 8) ∧ l.cont = 8)

/-- inside chanWake's read-locked region -/
def inR (l : Loc) : Prop := 87 ≤ l.pc ∧ l.pc ≤ 89

theorem noReaders_iff (s : St) (n : Nat) : noReaders s n = true ↔ ∀ u, u < n → s.rlock u = false := by
  simp [noReaders, List.all_eq_true]

structure Inv2 (cfg : Cfg) (n : Nat) (s : St) : Prop where
  lockIn : ∀ u, s.lock = some u → inW (s.loc u)
  inLock : ∀ u, inW (s.loc u) → s.lock = some u
  rIn : ∀ u, s.rlock u = true → inR (s.loc u)
  inRl : ∀ u, inR (s.loc u) → s.rlock u = true
  excl : ∀ w u, s.lock = some w → s.rlock u = false
  hSend : s.sendC > 0 → s.sendClose = true
  hWake : s.wakeC > 0 → s.wakeClose = true
  ackOk : ∀ u, (s.loc u).cont = 8 → ((s.loc u).pc = 2 ∨ (s.loc u).pc = 3) → s.sendC = 0
  wkOk : ∀ u, (s.loc u).pc = 88 → s.wakeC = 0
  pcLt : ∀ u, n ≤ u → (s.loc u).pc = 99
  contAck : ∀ u, (s.loc u).cont = 8 → cfg.client = false
  noFuse : cfg.fuse = true → ∀ u, (s.loc u).pc ≠ 3 ∧ (s.loc u).pc ≠ 27
  noPanicS : cfg.fuse = true → ∀ u c, (s.loc u).out ≠ .panicSend c
  at78 : ∀ u, ((s.loc u).pc = 7 ∨ (s.loc u).pc = 8) → (s.loc u).cont = 8
  at43 : ∀ u, (s.loc u).pc = 43 → s.sendClose = true
  at46 : ∀ u, (s.loc u).pc = 46 → s.wakeClose = true

macro "inv2_tac" : tactic => `(tactic| (
  refine ⟨?_, ?_, ?_, ?_, ?_, ?_, ?_, ?_, ?_, ?_, ?_, ?_, ?_, ?_, ?_, ?_⟩ <;>
  simp only [inW, inR, ent, closedBy, goto, setLoc, finish, die, enterSd, ret, sendSend, wakeSend, afterWake,
    removeReq, tell, upd_apply, fin] at * <;>
  grind))


set_option maxHeartbeats 2000000 in
theorem inv2_a1 (cfg : Cfg) (h : cfg.trySet = true) (hw : cfg.wakeLocked = true) (n : Nat) (s : St) (t : Nat)
    (ht : t < n) (hp : (s.loc t).pc = 1) (he : enabled cfg n s t = true) (hi : Inv1 cfg s) (hj : Inv2 cfg n s) :
    Inv2 cfg n (a1 cfg s t) := by
  obtain ⟨h1, h2, h3, h4, h4b, h5, h6, h7, h8, h9, h10, h11⟩ := hi
  obtain ⟨j1, j2, j3, j4, j5, j6, j7, j8, j9, j10, j12, j13, j14, j15, j16, j17⟩ := hj
  simp only [enabled, hp, noReaders_iff, Bool.and_eq_true, Bool.or_eq_true, Option.isNone_iff_eq_none, decide_eq_true_eq] at he
  simp only [a1, sendSend, wakeSend, afterWake, ret]
  repeat' split
  all_goals inv2_tac

set_option maxHeartbeats 2000000 in
theorem inv2_a2 (cfg : Cfg) (h : cfg.trySet = true) (hw : cfg.wakeLocked = true) (n : Nat) (s : St) (t : Nat)
    (ht : t < n) (hp : (s.loc t).pc = 2) (he : enabled cfg n s t = true) (hi : Inv1 cfg s) (hj : Inv2 cfg n s) :
    Inv2 cfg n (a2 cfg s t) := by
  obtain ⟨h1, h2, h3, h4, h4b, h5, h6, h7, h8, h9, h10, h11⟩ := hi
  obtain ⟨j1, j2, j3, j4, j5, j6, j7, j8, j9, j10, j12, j13, j14, j15, j16, j17⟩ := hj
  simp only [enabled, hp, noReaders_iff, Bool.and_eq_true, Bool.or_eq_true, Option.isNone_iff_eq_none, decide_eq_true_eq] at he
  simp only [a2, sendSend, wakeSend, afterWake, ret]
  repeat' split
  all_goals inv2_tac

set_option maxHeartbeats 2000000 in
theorem inv2_a3 (cfg : Cfg) (h : cfg.trySet = true) (hw : cfg.wakeLocked = true) (n : Nat) (s : St) (t : Nat)
    (ht : t < n) (hp : (s.loc t).pc = 3) (he : enabled cfg n s t = true) (hi : Inv1 cfg s) (hj : Inv2 cfg n s) :
    Inv2 cfg n (a3 cfg s t) := by
  obtain ⟨h1, h2, h3, h4, h4b, h5, h6, h7, h8, h9, h10, h11⟩ := hi
  obtain ⟨j1, j2, j3, j4, j5, j6, j7, j8, j9, j10, j12, j13, j14, j15, j16, j17⟩ := hj
  simp only [enabled, hp, noReaders_iff, Bool.and_eq_true, Bool.or_eq_true, Option.isNone_iff_eq_none, decide_eq_true_eq] at he
  simp only [a3, sendSend, wakeSend, afterWake, ret]
  repeat' split
  all_goals inv2_tac

set_option maxHeartbeats 2000000 in
theorem inv2_a4 (cfg : Cfg) (h : cfg.trySet = true) (hw : cfg.wakeLocked = true) (n : Nat) (s : St) (t : Nat)
    (ht : t < n) (hp : (s.loc t).pc = 4) (he : enabled cfg n s t = true) (hi : Inv1 cfg s) (hj : Inv2 cfg n s) :
    Inv2 cfg n (a4 cfg s t) := by
  obtain ⟨h1, h2, h3, h4, h4b, h5, h6, h7, h8, h9, h10, h11⟩ := hi
  obtain ⟨j1, j2, j3, j4, j5, j6, j7, j8, j9, j10, j12, j13, j14, j15, j16, j17⟩ := hj
  simp only [enabled, hp, noReaders_iff, Bool.and_eq_true, Bool.or_eq_true, Option.isNone_iff_eq_none, decide_eq_true_eq] at he
  simp only [a4, sendSend, wakeSend, afterWake, ret]
  repeat' split
  all_goals inv2_tac

set_option maxHeartbeats 2000000 in
theorem inv2_a5 (cfg : Cfg) (h : cfg.trySet = true) (hw : cfg.wakeLocked = true) (n : Nat) (s : St) (t : Nat)
    (ht : t < n) (hp : (s.loc t).pc = 5) (he : enabled cfg n s t = true) (hi : Inv1 cfg s) (hj : Inv2 cfg n s) :
    Inv2 cfg n (a5 cfg s t) := by
  obtain ⟨h1, h2, h3, h4, h4b, h5, h6, h7, h8, h9, h10, h11⟩ := hi
  obtain ⟨j1, j2, j3, j4, j5, j6, j7, j8, j9, j10, j12, j13, j14, j15, j16, j17⟩ := hj
  simp only [enabled, hp, noReaders_iff, Bool.and_eq_true, Bool.or_eq_true, Option.isNone_iff_eq_none, decide_eq_true_eq] at he
  simp only [a5, sendSend, wakeSend, afterWake, ret]
  repeat' split
  all_goals inv2_tac

set_option maxHeartbeats 2000000 in
theorem inv2_a6 (cfg : Cfg) (h : cfg.trySet = true) (hw : cfg.wakeLocked = true) (n : Nat) (s : St) (t : Nat)
    (ht : t < n) (hp : (s.loc t).pc = 6) (he : enabled cfg n s t = true) (hi : Inv1 cfg s) (hj : Inv2 cfg n s) :
    Inv2 cfg n (a6 cfg s t) := by
  obtain ⟨h1, h2, h3, h4, h4b, h5, h6, h7, h8, h9, h10, h11⟩ := hi
  obtain ⟨j1, j2, j3, j4, j5, j6, j7, j8, j9, j10, j12, j13, j14, j15, j16, j17⟩ := hj
  simp only [enabled, hp, noReaders_iff, Bool.and_eq_true, Bool.or_eq_true, Option.isNone_iff_eq_none, decide_eq_true_eq] at he
  simp only [a6, sendSend, wakeSend, afterWake, ret]
  repeat' split
  all_goals inv2_tac

set_option maxHeartbeats 2000000 in
theorem inv2_a7 (cfg : Cfg) (h : cfg.trySet = true) (hw : cfg.wakeLocked = true) (n : Nat) (s : St) (t : Nat)
    (ht : t < n) (hp : (s.loc t).pc = 7) (he : enabled cfg n s t = true) (hi : Inv1 cfg s) (hj : Inv2 cfg n s) :
    Inv2 cfg n (a7 cfg s t) := by
  obtain ⟨h1, h2, h3, h4, h4b, h5, h6, h7, h8, h9, h10, h11⟩ := hi
  obtain ⟨j1, j2, j3, j4, j5, j6, j7, j8, j9, j10, j12, j13, j14, j15, j16, j17⟩ := hj
  simp only [enabled, hp, noReaders_iff, Bool.and_eq_true, Bool.or_eq_true, Option.isNone_iff_eq_none, decide_eq_true_eq] at he
  simp only [a7, sendSend, wakeSend, afterWake, ret]
  repeat' split
  all_goals inv2_tac

set_option maxHeartbeats 2000000 in
theorem inv2_a8 (cfg : Cfg) (h : cfg.trySet = true) (hw : cfg.wakeLocked = true) (n : Nat) (s : St) (t : Nat)
    (ht : t < n) (hp : (s.loc t).pc = 8) (he : enabled cfg n s t = true) (hi : Inv1 cfg s) (hj : Inv2 cfg n s) :
    Inv2 cfg n (a8 cfg s t) := by
  obtain ⟨h1, h2, h3, h4, h4b, h5, h6, h7, h8, h9, h10, h11⟩ := hi
  obtain ⟨j1, j2, j3, j4, j5, j6, j7, j8, j9, j10, j12, j13, j14, j15, j16, j17⟩ := hj
  simp only [enabled, hp, noReaders_iff, Bool.and_eq_true, Bool.or_eq_true, Option.isNone_iff_eq_none, decide_eq_true_eq] at he
  simp only [a8, sendSend, wakeSend, afterWake, ret]
  repeat' split
  all_goals inv2_tac

set_option maxHeartbeats 2000000 in
theorem inv2_a20 (cfg : Cfg) (h : cfg.trySet = true) (hw : cfg.wakeLocked = true) (n : Nat) (s : St) (t : Nat)
    (ht : t < n) (hp : (s.loc t).pc = 20) (he : enabled cfg n s t = true) (hi : Inv1 cfg s) (hj : Inv2 cfg n s) :
    Inv2 cfg n (a20 cfg s t) := by
  obtain ⟨h1, h2, h3, h4, h4b, h5, h6, h7, h8, h9, h10, h11⟩ := hi
  obtain ⟨j1, j2, j3, j4, j5, j6, j7, j8, j9, j10, j12, j13, j14, j15, j16, j17⟩ := hj
  simp only [enabled, hp, noReaders_iff, Bool.and_eq_true, Bool.or_eq_true, Option.isNone_iff_eq_none, decide_eq_true_eq] at he
  simp only [a20, sendSend, wakeSend, afterWake, ret]
  repeat' split
  all_goals inv2_tac

set_option maxHeartbeats 2000000 in
theorem inv2_a21 (cfg : Cfg) (h : cfg.trySet = true) (hw : cfg.wakeLocked = true) (n : Nat) (s : St) (t : Nat)
    (ht : t < n) (hp : (s.loc t).pc = 21) (he : enabled cfg n s t = true) (hi : Inv1 cfg s) (hj : Inv2 cfg n s) :
    Inv2 cfg n (a21 cfg s t) := by
  obtain ⟨h1, h2, h3, h4, h4b, h5, h6, h7, h8, h9, h10, h11⟩ := hi
  obtain ⟨j1, j2, j3, j4, j5, j6, j7, j8, j9, j10, j12, j13, j14, j15, j16, j17⟩ := hj
  simp only [enabled, hp, noReaders_iff, Bool.and_eq_true, Bool.or_eq_true, Option.isNone_iff_eq_none, decide_eq_true_eq] at he
  simp only [a21, sendSend, wakeSend, afterWake, ret]
  repeat' split
  all_goals inv2_tac

set_option maxHeartbeats 2000000 in
theorem inv2_a22 (cfg : Cfg) (h : cfg.trySet = true) (hw : cfg.wakeLocked = true) (n : Nat) (s : St) (t : Nat)
    (ht : t < n) (hp : (s.loc t).pc = 22) (he : enabled cfg n s t = true) (hi : Inv1 cfg s) (hj : Inv2 cfg n s) :
    Inv2 cfg n (a22 cfg s t) := by
  obtain ⟨h1, h2, h3, h4, h4b, h5, h6, h7, h8, h9, h10, h11⟩ := hi
  obtain ⟨j1, j2, j3, j4, j5, j6, j7, j8, j9, j10, j12, j13, j14, j15, j16, j17⟩ := hj
  simp only [enabled, hp, noReaders_iff, Bool.and_eq_true, Bool.or_eq_true, Option.isNone_iff_eq_none, decide_eq_true_eq] at he
  simp only [a22, sendSend, wakeSend, afterWake, ret]
  repeat' split
  all_goals inv2_tac

set_option maxHeartbeats 2000000 in
theorem inv2_a23 (cfg : Cfg) (h : cfg.trySet = true) (hw : cfg.wakeLocked = true) (n : Nat) (s : St) (t : Nat)
    (ht : t < n) (hp : (s.loc t).pc = 23) (he : enabled cfg n s t = true) (hi : Inv1 cfg s) (hj : Inv2 cfg n s) :
    Inv2 cfg n (a23 cfg s t) := by
  obtain ⟨h1, h2, h3, h4, h4b, h5, h6, h7, h8, h9, h10, h11⟩ := hi
  obtain ⟨j1, j2, j3, j4, j5, j6, j7, j8, j9, j10, j12, j13, j14, j15, j16, j17⟩ := hj
  simp only [enabled, hp, noReaders_iff, Bool.and_eq_true, Bool.or_eq_true, Option.isNone_iff_eq_none, decide_eq_true_eq] at he
  simp only [a23, sendSend, wakeSend, afterWake, ret]
  repeat' split
  all_goals inv2_tac

set_option maxHeartbeats 2000000 in
theorem inv2_a24 (cfg : Cfg) (h : cfg.trySet = true) (hw : cfg.wakeLocked = true) (n : Nat) (s : St) (t : Nat)
    (ht : t < n) (hp : (s.loc t).pc = 24) (he : enabled cfg n s t = true) (hi : Inv1 cfg s) (hj : Inv2 cfg n s) :
    Inv2 cfg n (a24 cfg s t) := by
  obtain ⟨h1, h2, h3, h4, h4b, h5, h6, h7, h8, h9, h10, h11⟩ := hi
  obtain ⟨j1, j2, j3, j4, j5, j6, j7, j8, j9, j10, j12, j13, j14, j15, j16, j17⟩ := hj
  simp only [enabled, hp, noReaders_iff, Bool.and_eq_true, Bool.or_eq_true, Option.isNone_iff_eq_none, decide_eq_true_eq] at he
  simp only [a24, sendSend, wakeSend, afterWake, ret]
  repeat' split
  all_goals inv2_tac

set_option maxHeartbeats 2000000 in
theorem inv2_a25 (cfg : Cfg) (h : cfg.trySet = true) (hw : cfg.wakeLocked = true) (n : Nat) (s : St) (t : Nat)
    (ht : t < n) (hp : (s.loc t).pc = 25) (he : enabled cfg n s t = true) (hi : Inv1 cfg s) (hj : Inv2 cfg n s) :
    Inv2 cfg n (a25 cfg s t) := by
  obtain ⟨h1, h2, h3, h4, h4b, h5, h6, h7, h8, h9, h10, h11⟩ := hi
  obtain ⟨j1, j2, j3, j4, j5, j6, j7, j8, j9, j10, j12, j13, j14, j15, j16, j17⟩ := hj
  simp only [enabled, hp, noReaders_iff, Bool.and_eq_true, Bool.or_eq_true, Option.isNone_iff_eq_none, decide_eq_true_eq] at he
  simp only [a25, sendSend, wakeSend, afterWake, ret]
  repeat' split
  all_goals inv2_tac

set_option maxHeartbeats 2000000 in
theorem inv2_a26 (cfg : Cfg) (h : cfg.trySet = true) (hw : cfg.wakeLocked = true) (n : Nat) (s : St) (t : Nat)
    (ht : t < n) (hp : (s.loc t).pc = 26) (he : enabled cfg n s t = true) (hi : Inv1 cfg s) (hj : Inv2 cfg n s) :
    Inv2 cfg n (a26 cfg s t) := by
  obtain ⟨h1, h2, h3, h4, h4b, h5, h6, h7, h8, h9, h10, h11⟩ := hi
  obtain ⟨j1, j2, j3, j4, j5, j6, j7, j8, j9, j10, j12, j13, j14, j15, j16, j17⟩ := hj
  simp only [enabled, hp, noReaders_iff, Bool.and_eq_true, Bool.or_eq_true, Option.isNone_iff_eq_none, decide_eq_true_eq] at he
  simp only [a26, sendSend, wakeSend, afterWake, ret]
  repeat' split
  all_goals inv2_tac

set_option maxHeartbeats 2000000 in
theorem inv2_a27 (cfg : Cfg) (h : cfg.trySet = true) (hw : cfg.wakeLocked = true) (n : Nat) (s : St) (t : Nat)
    (ht : t < n) (hp : (s.loc t).pc = 27) (he : enabled cfg n s t = true) (hi : Inv1 cfg s) (hj : Inv2 cfg n s) :
    Inv2 cfg n (a27 cfg s t) := by
  obtain ⟨h1, h2, h3, h4, h4b, h5, h6, h7, h8, h9, h10, h11⟩ := hi
  obtain ⟨j1, j2, j3, j4, j5, j6, j7, j8, j9, j10, j12, j13, j14, j15, j16, j17⟩ := hj
  simp only [enabled, hp, noReaders_iff, Bool.and_eq_true, Bool.or_eq_true, Option.isNone_iff_eq_none, decide_eq_true_eq] at he
  simp only [a27, sendSend, wakeSend, afterWake, ret]
  repeat' split
  all_goals inv2_tac

set_option maxHeartbeats 2000000 in
theorem inv2_a28 (cfg : Cfg) (h : cfg.trySet = true) (hw : cfg.wakeLocked = true) (n : Nat) (s : St) (t : Nat)
    (ht : t < n) (hp : (s.loc t).pc = 28) (he : enabled cfg n s t = true) (hi : Inv1 cfg s) (hj : Inv2 cfg n s) :
    Inv2 cfg n (a28 cfg s t) := by
  obtain ⟨h1, h2, h3, h4, h4b, h5, h6, h7, h8, h9, h10, h11⟩ := hi
  obtain ⟨j1, j2, j3, j4, j5, j6, j7, j8, j9, j10, j12, j13, j14, j15, j16, j17⟩ := hj
  simp only [enabled, hp, noReaders_iff, Bool.and_eq_true, Bool.or_eq_true, Option.isNone_iff_eq_none, decide_eq_true_eq] at he
  simp only [a28, sendSend, wakeSend, afterWake, ret]
  repeat' split
  all_goals inv2_tac

set_option maxHeartbeats 2000000 in
theorem inv2_a40 (cfg : Cfg) (h : cfg.trySet = true) (hw : cfg.wakeLocked = true) (n : Nat) (s : St) (t : Nat)
    (ht : t < n) (hp : (s.loc t).pc = 40) (he : enabled cfg n s t = true) (hi : Inv1 cfg s) (hj : Inv2 cfg n s) :
    Inv2 cfg n (a40 cfg s t) := by
  obtain ⟨h1, h2, h3, h4, h4b, h5, h6, h7, h8, h9, h10, h11⟩ := hi
  obtain ⟨j1, j2, j3, j4, j5, j6, j7, j8, j9, j10, j12, j13, j14, j15, j16, j17⟩ := hj
  simp only [enabled, hp, noReaders_iff, Bool.and_eq_true, Bool.or_eq_true, Option.isNone_iff_eq_none, decide_eq_true_eq] at he
  simp only [a40, sendSend, wakeSend, afterWake, ret]
  repeat' split
  all_goals inv2_tac

set_option maxHeartbeats 2000000 in
theorem inv2_a41 (cfg : Cfg) (h : cfg.trySet = true) (hw : cfg.wakeLocked = true) (n : Nat) (s : St) (t : Nat)
    (ht : t < n) (hp : (s.loc t).pc = 41) (he : enabled cfg n s t = true) (hi : Inv1 cfg s) (hj : Inv2 cfg n s) :
    Inv2 cfg n (a41 cfg s t) := by
  obtain ⟨h1, h2, h3, h4, h4b, h5, h6, h7, h8, h9, h10, h11⟩ := hi
  obtain ⟨j1, j2, j3, j4, j5, j6, j7, j8, j9, j10, j12, j13, j14, j15, j16, j17⟩ := hj
  simp only [enabled, hp, noReaders_iff, Bool.and_eq_true, Bool.or_eq_true, Option.isNone_iff_eq_none, decide_eq_true_eq] at he
  simp only [a41, sendSend, wakeSend, afterWake, ret]
  repeat' split
  all_goals inv2_tac

set_option maxHeartbeats 2000000 in
theorem inv2_a42 (cfg : Cfg) (h : cfg.trySet = true) (hw : cfg.wakeLocked = true) (n : Nat) (s : St) (t : Nat)
    (ht : t < n) (hp : (s.loc t).pc = 42) (he : enabled cfg n s t = true) (hi : Inv1 cfg s) (hj : Inv2 cfg n s) :
    Inv2 cfg n (a42 cfg s t) := by
  obtain ⟨h1, h2, h3, h4, h4b, h5, h6, h7, h8, h9, h10, h11⟩ := hi
  obtain ⟨j1, j2, j3, j4, j5, j6, j7, j8, j9, j10, j12, j13, j14, j15, j16, j17⟩ := hj
  simp only [enabled, hp, noReaders_iff, Bool.and_eq_true, Bool.or_eq_true, Option.isNone_iff_eq_none, decide_eq_true_eq] at he
  simp only [a42, sendSend, wakeSend, afterWake, ret]
  repeat' split
  all_goals inv2_tac

set_option maxHeartbeats 2000000 in
theorem inv2_a43 (cfg : Cfg) (h : cfg.trySet = true) (hw : cfg.wakeLocked = true) (n : Nat) (s : St) (t : Nat)
    (ht : t < n) (hp : (s.loc t).pc = 43) (he : enabled cfg n s t = true) (hi : Inv1 cfg s) (hj : Inv2 cfg n s) :
    Inv2 cfg n (a43 cfg s t) := by
  obtain ⟨h1, h2, h3, h4, h4b, h5, h6, h7, h8, h9, h10, h11⟩ := hi
  obtain ⟨j1, j2, j3, j4, j5, j6, j7, j8, j9, j10, j12, j13, j14, j15, j16, j17⟩ := hj
  simp only [enabled, hp, noReaders_iff, Bool.and_eq_true, Bool.or_eq_true, Option.isNone_iff_eq_none, decide_eq_true_eq] at he
  simp only [a43, sendSend, wakeSend, afterWake, ret]
  repeat' split
  all_goals inv2_tac

set_option maxHeartbeats 2000000 in
theorem inv2_a44 (cfg : Cfg) (h : cfg.trySet = true) (hw : cfg.wakeLocked = true) (n : Nat) (s : St) (t : Nat)
    (ht : t < n) (hp : (s.loc t).pc = 44) (he : enabled cfg n s t = true) (hi : Inv1 cfg s) (hj : Inv2 cfg n s) :
    Inv2 cfg n (a44 cfg s t) := by
  obtain ⟨h1, h2, h3, h4, h4b, h5, h6, h7, h8, h9, h10, h11⟩ := hi
  obtain ⟨j1, j2, j3, j4, j5, j6, j7, j8, j9, j10, j12, j13, j14, j15, j16, j17⟩ := hj
  simp only [enabled, hp, noReaders_iff, Bool.and_eq_true, Bool.or_eq_true, Option.isNone_iff_eq_none, decide_eq_true_eq] at he
  simp only [a44, sendSend, wakeSend, afterWake, ret]
  repeat' split
  all_goals inv2_tac

set_option maxHeartbeats 2000000 in
theorem inv2_a45 (cfg : Cfg) (h : cfg.trySet = true) (hw : cfg.wakeLocked = true) (n : Nat) (s : St) (t : Nat)
    (ht : t < n) (hp : (s.loc t).pc = 45) (he : enabled cfg n s t = true) (hi : Inv1 cfg s) (hj : Inv2 cfg n s) :
    Inv2 cfg n (a45 cfg s t) := by
  obtain ⟨h1, h2, h3, h4, h4b, h5, h6, h7, h8, h9, h10, h11⟩ := hi
  obtain ⟨j1, j2, j3, j4, j5, j6, j7, j8, j9, j10, j12, j13, j14, j15, j16, j17⟩ := hj
  simp only [enabled, hp, noReaders_iff, Bool.and_eq_true, Bool.or_eq_true, Option.isNone_iff_eq_none, decide_eq_true_eq] at he
  simp only [a45, sendSend, wakeSend, afterWake, ret]
  repeat' split
  all_goals inv2_tac

set_option maxHeartbeats 2000000 in
theorem inv2_a46 (cfg : Cfg) (h : cfg.trySet = true) (hw : cfg.wakeLocked = true) (n : Nat) (s : St) (t : Nat)
    (ht : t < n) (hp : (s.loc t).pc = 46) (he : enabled cfg n s t = true) (hi : Inv1 cfg s) (hj : Inv2 cfg n s) :
    Inv2 cfg n (a46 cfg s t) := by
  obtain ⟨h1, h2, h3, h4, h4b, h5, h6, h7, h8, h9, h10, h11⟩ := hi
  obtain ⟨j1, j2, j3, j4, j5, j6, j7, j8, j9, j10, j12, j13, j14, j15, j16, j17⟩ := hj
  simp only [enabled, hp, noReaders_iff, Bool.and_eq_true, Bool.or_eq_true, Option.isNone_iff_eq_none, decide_eq_true_eq] at he
  simp only [a46, sendSend, wakeSend, afterWake, ret]
  repeat' split
  all_goals inv2_tac

set_option maxHeartbeats 2000000 in
theorem inv2_a47 (cfg : Cfg) (h : cfg.trySet = true) (hw : cfg.wakeLocked = true) (n : Nat) (s : St) (t : Nat)
    (ht : t < n) (hp : (s.loc t).pc = 47) (he : enabled cfg n s t = true) (hi : Inv1 cfg s) (hj : Inv2 cfg n s) :
    Inv2 cfg n (a47 cfg s t) := by
  obtain ⟨h1, h2, h3, h4, h4b, h5, h6, h7, h8, h9, h10, h11⟩ := hi
  obtain ⟨j1, j2, j3, j4, j5, j6, j7, j8, j9, j10, j12, j13, j14, j15, j16, j17⟩ := hj
  simp only [enabled, hp, noReaders_iff, Bool.and_eq_true, Bool.or_eq_true, Option.isNone_iff_eq_none, decide_eq_true_eq] at he
  simp only [a47, sendSend, wakeSend, afterWake, ret]
  repeat' split
  all_goals inv2_tac

set_option maxHeartbeats 2000000 in
theorem inv2_a48 (cfg : Cfg) (h : cfg.trySet = true) (hw : cfg.wakeLocked = true) (n : Nat) (s : St) (t : Nat)
    (ht : t < n) (hp : (s.loc t).pc = 48) (he : enabled cfg n s t = true) (hi : Inv1 cfg s) (hj : Inv2 cfg n s) :
    Inv2 cfg n (a48 cfg s t) := by
  obtain ⟨h1, h2, h3, h4, h4b, h5, h6, h7, h8, h9, h10, h11⟩ := hi
  obtain ⟨j1, j2, j3, j4, j5, j6, j7, j8, j9, j10, j12, j13, j14, j15, j16, j17⟩ := hj
  simp only [enabled, hp, noReaders_iff, Bool.and_eq_true, Bool.or_eq_true, Option.isNone_iff_eq_none, decide_eq_true_eq] at he
  simp only [a48, sendSend, wakeSend, afterWake, ret]
  repeat' split
  all_goals inv2_tac

set_option maxHeartbeats 2000000 in
theorem inv2_a49 (cfg : Cfg) (h : cfg.trySet = true) (hw : cfg.wakeLocked = true) (n : Nat) (s : St) (t : Nat)
    (ht : t < n) (hp : (s.loc t).pc = 49) (he : enabled cfg n s t = true) (hi : Inv1 cfg s) (hj : Inv2 cfg n s) :
    Inv2 cfg n (a49 cfg s t) := by
  obtain ⟨h1, h2, h3, h4, h4b, h5, h6, h7, h8, h9, h10, h11⟩ := hi
  obtain ⟨j1, j2, j3, j4, j5, j6, j7, j8, j9, j10, j12, j13, j14, j15, j16, j17⟩ := hj
  simp only [enabled, hp, noReaders_iff, Bool.and_eq_true, Bool.or_eq_true, Option.isNone_iff_eq_none, decide_eq_true_eq] at he
  simp only [a49, sendSend, wakeSend, afterWake, ret]
  repeat' split
  all_goals inv2_tac

set_option maxHeartbeats 2000000 in
theorem inv2_a50 (cfg : Cfg) (h : cfg.trySet = true) (hw : cfg.wakeLocked = true) (n : Nat) (s : St) (t : Nat)
    (ht : t < n) (hp : (s.loc t).pc = 50) (he : enabled cfg n s t = true) (hi : Inv1 cfg s) (hj : Inv2 cfg n s) :
    Inv2 cfg n (a50 cfg s t) := by
  obtain ⟨h1, h2, h3, h4, h4b, h5, h6, h7, h8, h9, h10, h11⟩ := hi
  obtain ⟨j1, j2, j3, j4, j5, j6, j7, j8, j9, j10, j12, j13, j14, j15, j16, j17⟩ := hj
  simp only [enabled, hp, noReaders_iff, Bool.and_eq_true, Bool.or_eq_true, Option.isNone_iff_eq_none, decide_eq_true_eq] at he
  simp only [a50, sendSend, wakeSend, afterWake, ret]
  repeat' split
  all_goals inv2_tac

set_option maxHeartbeats 2000000 in
theorem inv2_a51 (cfg : Cfg) (h : cfg.trySet = true) (hw : cfg.wakeLocked = true) (n : Nat) (s : St) (t : Nat)
    (ht : t < n) (hp : (s.loc t).pc = 51) (he : enabled cfg n s t = true) (hi : Inv1 cfg s) (hj : Inv2 cfg n s) :
    Inv2 cfg n (a51 cfg s t) := by
  obtain ⟨h1, h2, h3, h4, h4b, h5, h6, h7, h8, h9, h10, h11⟩ := hi
  obtain ⟨j1, j2, j3, j4, j5, j6, j7, j8, j9, j10, j12, j13, j14, j15, j16, j17⟩ := hj
  simp only [enabled, hp, noReaders_iff, Bool.and_eq_true, Bool.or_eq_true, Option.isNone_iff_eq_none, decide_eq_true_eq] at he
  simp only [a51, sendSend, wakeSend, afterWake, ret]
  repeat' split
  all_goals inv2_tac

set_option maxHeartbeats 2000000 in
theorem inv2_a52 (cfg : Cfg) (h : cfg.trySet = true) (hw : cfg.wakeLocked = true) (n : Nat) (s : St) (t : Nat)
    (ht : t < n) (hp : (s.loc t).pc = 52) (he : enabled cfg n s t = true) (hi : Inv1 cfg s) (hj : Inv2 cfg n s) :
    Inv2 cfg n (a52 cfg s t) := by
  obtain ⟨h1, h2, h3, h4, h4b, h5, h6, h7, h8, h9, h10, h11⟩ := hi
  obtain ⟨j1, j2, j3, j4, j5, j6, j7, j8, j9, j10, j12, j13, j14, j15, j16, j17⟩ := hj
  simp only [enabled, hp, noReaders_iff, Bool.and_eq_true, Bool.or_eq_true, Option.isNone_iff_eq_none, decide_eq_true_eq] at he
  simp only [a52, sendSend, wakeSend, afterWake, ret]
  repeat' split
  all_goals inv2_tac

set_option maxHeartbeats 2000000 in
theorem inv2_a53 (cfg : Cfg) (h : cfg.trySet = true) (hw : cfg.wakeLocked = true) (n : Nat) (s : St) (t : Nat)
    (ht : t < n) (hp : (s.loc t).pc = 53) (he : enabled cfg n s t = true) (hi : Inv1 cfg s) (hj : Inv2 cfg n s) :
    Inv2 cfg n (a53 cfg s t) := by
  obtain ⟨h1, h2, h3, h4, h4b, h5, h6, h7, h8, h9, h10, h11⟩ := hi
  obtain ⟨j1, j2, j3, j4, j5, j6, j7, j8, j9, j10, j12, j13, j14, j15, j16, j17⟩ := hj
  simp only [enabled, hp, noReaders_iff, Bool.and_eq_true, Bool.or_eq_true, Option.isNone_iff_eq_none, decide_eq_true_eq] at he
  simp only [a53, sendSend, wakeSend, afterWake, ret]
  repeat' split
  all_goals inv2_tac

set_option maxHeartbeats 2000000 in
theorem inv2_a54 (cfg : Cfg) (h : cfg.trySet = true) (hw : cfg.wakeLocked = true) (n : Nat) (s : St) (t : Nat)
    (ht : t < n) (hp : (s.loc t).pc = 54) (he : enabled cfg n s t = true) (hi : Inv1 cfg s) (hj : Inv2 cfg n s) :
    Inv2 cfg n (a54 cfg s t) := by
  obtain ⟨h1, h2, h3, h4, h4b, h5, h6, h7, h8, h9, h10, h11⟩ := hi
  obtain ⟨j1, j2, j3, j4, j5, j6, j7, j8, j9, j10, j12, j13, j14, j15, j16, j17⟩ := hj
  simp only [enabled, hp, noReaders_iff, Bool.and_eq_true, Bool.or_eq_true, Option.isNone_iff_eq_none, decide_eq_true_eq] at he
  simp only [a54, sendSend, wakeSend, afterWake, ret]
  repeat' split
  all_goals inv2_tac

set_option maxHeartbeats 2000000 in
theorem inv2_a60 (cfg : Cfg) (h : cfg.trySet = true) (hw : cfg.wakeLocked = true) (n : Nat) (s : St) (t : Nat)
    (ht : t < n) (hp : (s.loc t).pc = 60) (he : enabled cfg n s t = true) (hi : Inv1 cfg s) (hj : Inv2 cfg n s) :
    Inv2 cfg n (a60 cfg s t) := by
  obtain ⟨h1, h2, h3, h4, h4b, h5, h6, h7, h8, h9, h10, h11⟩ := hi
  obtain ⟨j1, j2, j3, j4, j5, j6, j7, j8, j9, j10, j12, j13, j14, j15, j16, j17⟩ := hj
  simp only [enabled, hp, noReaders_iff, Bool.and_eq_true, Bool.or_eq_true, Option.isNone_iff_eq_none, decide_eq_true_eq] at he
  simp only [a60, sendSend, wakeSend, afterWake, ret]
  repeat' split
  all_goals inv2_tac

set_option maxHeartbeats 2000000 in
theorem inv2_a61 (cfg : Cfg) (h : cfg.trySet = true) (hw : cfg.wakeLocked = true) (n : Nat) (s : St) (t : Nat)
    (ht : t < n) (hp : (s.loc t).pc = 61) (he : enabled cfg n s t = true) (hi : Inv1 cfg s) (hj : Inv2 cfg n s) :
    Inv2 cfg n (a61 cfg s t) := by
  obtain ⟨h1, h2, h3, h4, h4b, h5, h6, h7, h8, h9, h10, h11⟩ := hi
  obtain ⟨j1, j2, j3, j4, j5, j6, j7, j8, j9, j10, j12, j13, j14, j15, j16, j17⟩ := hj
  simp only [enabled, hp, noReaders_iff, Bool.and_eq_true, Bool.or_eq_true, Option.isNone_iff_eq_none, decide_eq_true_eq] at he
  simp only [a61, sendSend, wakeSend, afterWake, ret]
  repeat' split
  all_goals inv2_tac

set_option maxHeartbeats 2000000 in
theorem inv2_a62 (cfg : Cfg) (h : cfg.trySet = true) (hw : cfg.wakeLocked = true) (n : Nat) (s : St) (t : Nat)
    (ht : t < n) (hp : (s.loc t).pc = 62) (he : enabled cfg n s t = true) (hi : Inv1 cfg s) (hj : Inv2 cfg n s) :
    Inv2 cfg n (a62 cfg s t) := by
  obtain ⟨h1, h2, h3, h4, h4b, h5, h6, h7, h8, h9, h10, h11⟩ := hi
  obtain ⟨j1, j2, j3, j4, j5, j6, j7, j8, j9, j10, j12, j13, j14, j15, j16, j17⟩ := hj
  simp only [enabled, hp, noReaders_iff, Bool.and_eq_true, Bool.or_eq_true, Option.isNone_iff_eq_none, decide_eq_true_eq] at he
  simp only [a62, sendSend, wakeSend, afterWake, ret]
  repeat' split
  all_goals inv2_tac

set_option maxHeartbeats 2000000 in
theorem inv2_a63 (cfg : Cfg) (h : cfg.trySet = true) (hw : cfg.wakeLocked = true) (n : Nat) (s : St) (t : Nat)
    (ht : t < n) (hp : (s.loc t).pc = 63) (he : enabled cfg n s t = true) (hi : Inv1 cfg s) (hj : Inv2 cfg n s) :
    Inv2 cfg n (a63 cfg s t) := by
  obtain ⟨h1, h2, h3, h4, h4b, h5, h6, h7, h8, h9, h10, h11⟩ := hi
  obtain ⟨j1, j2, j3, j4, j5, j6, j7, j8, j9, j10, j12, j13, j14, j15, j16, j17⟩ := hj
  simp only [enabled, hp, noReaders_iff, Bool.and_eq_true, Bool.or_eq_true, Option.isNone_iff_eq_none, decide_eq_true_eq] at he
  simp only [a63, sendSend, wakeSend, afterWake, ret]
  repeat' split
  all_goals inv2_tac

set_option maxHeartbeats 2000000 in
theorem inv2_a64 (cfg : Cfg) (h : cfg.trySet = true) (hw : cfg.wakeLocked = true) (n : Nat) (s : St) (t : Nat)
    (ht : t < n) (hp : (s.loc t).pc = 64) (he : enabled cfg n s t = true) (hi : Inv1 cfg s) (hj : Inv2 cfg n s) :
    Inv2 cfg n (a64 cfg s t) := by
  obtain ⟨h1, h2, h3, h4, h4b, h5, h6, h7, h8, h9, h10, h11⟩ := hi
  obtain ⟨j1, j2, j3, j4, j5, j6, j7, j8, j9, j10, j12, j13, j14, j15, j16, j17⟩ := hj
  simp only [enabled, hp, noReaders_iff, Bool.and_eq_true, Bool.or_eq_true, Option.isNone_iff_eq_none, decide_eq_true_eq] at he
  simp only [a64, sendSend, wakeSend, afterWake, ret]
  repeat' split
  all_goals inv2_tac

set_option maxHeartbeats 2000000 in
theorem inv2_a65 (cfg : Cfg) (h : cfg.trySet = true) (hw : cfg.wakeLocked = true) (n : Nat) (s : St) (t : Nat)
    (ht : t < n) (hp : (s.loc t).pc = 65) (he : enabled cfg n s t = true) (hi : Inv1 cfg s) (hj : Inv2 cfg n s) :
    Inv2 cfg n (a65 cfg s t) := by
  obtain ⟨h1, h2, h3, h4, h4b, h5, h6, h7, h8, h9, h10, h11⟩ := hi
  obtain ⟨j1, j2, j3, j4, j5, j6, j7, j8, j9, j10, j12, j13, j14, j15, j16, j17⟩ := hj
  simp only [enabled, hp, noReaders_iff, Bool.and_eq_true, Bool.or_eq_true, Option.isNone_iff_eq_none, decide_eq_true_eq] at he
  simp only [a65, sendSend, wakeSend, afterWake, ret]
  repeat' split
  all_goals inv2_tac

set_option maxHeartbeats 2000000 in
theorem inv2_a66 (cfg : Cfg) (h : cfg.trySet = true) (hw : cfg.wakeLocked = true) (n : Nat) (s : St) (t : Nat)
    (ht : t < n) (hp : (s.loc t).pc = 66) (he : enabled cfg n s t = true) (hi : Inv1 cfg s) (hj : Inv2 cfg n s) :
    Inv2 cfg n (a66 cfg s t) := by
  obtain ⟨h1, h2, h3, h4, h4b, h5, h6, h7, h8, h9, h10, h11⟩ := hi
  obtain ⟨j1, j2, j3, j4, j5, j6, j7, j8, j9, j10, j12, j13, j14, j15, j16, j17⟩ := hj
  simp only [enabled, hp, noReaders_iff, Bool.and_eq_true, Bool.or_eq_true, Option.isNone_iff_eq_none, decide_eq_true_eq] at he
  simp only [a66, sendSend, wakeSend, afterWake, ret]
  repeat' split
  all_goals inv2_tac

set_option maxHeartbeats 2000000 in
theorem inv2_a70 (cfg : Cfg) (h : cfg.trySet = true) (hw : cfg.wakeLocked = true) (n : Nat) (s : St) (t : Nat)
    (ht : t < n) (hp : (s.loc t).pc = 70) (he : enabled cfg n s t = true) (hi : Inv1 cfg s) (hj : Inv2 cfg n s) :
    Inv2 cfg n (a70 cfg s t) := by
  obtain ⟨h1, h2, h3, h4, h4b, h5, h6, h7, h8, h9, h10, h11⟩ := hi
  obtain ⟨j1, j2, j3, j4, j5, j6, j7, j8, j9, j10, j12, j13, j14, j15, j16, j17⟩ := hj
  simp only [enabled, hp, noReaders_iff, Bool.and_eq_true, Bool.or_eq_true, Option.isNone_iff_eq_none, decide_eq_true_eq] at he
  simp only [a70, sendSend, wakeSend, afterWake, ret]
  repeat' split
  all_goals inv2_tac

set_option maxHeartbeats 2000000 in
theorem inv2_a71 (cfg : Cfg) (h : cfg.trySet = true) (hw : cfg.wakeLocked = true) (n : Nat) (s : St) (t : Nat)
    (ht : t < n) (hp : (s.loc t).pc = 71) (he : enabled cfg n s t = true) (hi : Inv1 cfg s) (hj : Inv2 cfg n s) :
    Inv2 cfg n (a71 cfg s t) := by
  obtain ⟨h1, h2, h3, h4, h4b, h5, h6, h7, h8, h9, h10, h11⟩ := hi
  obtain ⟨j1, j2, j3, j4, j5, j6, j7, j8, j9, j10, j12, j13, j14, j15, j16, j17⟩ := hj
  simp only [enabled, hp, noReaders_iff, Bool.and_eq_true, Bool.or_eq_true, Option.isNone_iff_eq_none, decide_eq_true_eq] at he
  simp only [a71, sendSend, wakeSend, afterWake, ret]
  repeat' split
  all_goals inv2_tac

set_option maxHeartbeats 2000000 in
theorem inv2_a72 (cfg : Cfg) (h : cfg.trySet = true) (hw : cfg.wakeLocked = true) (n : Nat) (s : St) (t : Nat)
    (ht : t < n) (hp : (s.loc t).pc = 72) (he : enabled cfg n s t = true) (hi : Inv1 cfg s) (hj : Inv2 cfg n s) :
    Inv2 cfg n (a72 cfg s t) := by
  obtain ⟨h1, h2, h3, h4, h4b, h5, h6, h7, h8, h9, h10, h11⟩ := hi
  obtain ⟨j1, j2, j3, j4, j5, j6, j7, j8, j9, j10, j12, j13, j14, j15, j16, j17⟩ := hj
  simp only [enabled, hp, noReaders_iff, Bool.and_eq_true, Bool.or_eq_true, Option.isNone_iff_eq_none, decide_eq_true_eq] at he
  simp only [a72, sendSend, wakeSend, afterWake, ret]
  repeat' split
  all_goals inv2_tac

set_option maxHeartbeats 2000000 in
theorem inv2_a73 (cfg : Cfg) (h : cfg.trySet = true) (hw : cfg.wakeLocked = true) (n : Nat) (s : St) (t : Nat)
    (ht : t < n) (hp : (s.loc t).pc = 73) (he : enabled cfg n s t = true) (hi : Inv1 cfg s) (hj : Inv2 cfg n s) :
    Inv2 cfg n (a73 cfg s t) := by
  obtain ⟨h1, h2, h3, h4, h4b, h5, h6, h7, h8, h9, h10, h11⟩ := hi
  obtain ⟨j1, j2, j3, j4, j5, j6, j7, j8, j9, j10, j12, j13, j14, j15, j16, j17⟩ := hj
  simp only [enabled, hp, noReaders_iff, Bool.and_eq_true, Bool.or_eq_true, Option.isNone_iff_eq_none, decide_eq_true_eq] at he
  simp only [a73, sendSend, wakeSend, afterWake, ret]
  repeat' split
  all_goals inv2_tac

set_option maxHeartbeats 2000000 in
theorem inv2_a80 (cfg : Cfg) (h : cfg.trySet = true) (hw : cfg.wakeLocked = true) (n : Nat) (s : St) (t : Nat)
    (ht : t < n) (hp : (s.loc t).pc = 80) (he : enabled cfg n s t = true) (hi : Inv1 cfg s) (hj : Inv2 cfg n s) :
    Inv2 cfg n (a80 cfg s t) := by
  obtain ⟨h1, h2, h3, h4, h4b, h5, h6, h7, h8, h9, h10, h11⟩ := hi
  obtain ⟨j1, j2, j3, j4, j5, j6, j7, j8, j9, j10, j12, j13, j14, j15, j16, j17⟩ := hj
  simp only [enabled, hp, noReaders_iff, Bool.and_eq_true, Bool.or_eq_true, Option.isNone_iff_eq_none, decide_eq_true_eq] at he
  simp only [a80, sendSend, wakeSend, afterWake, ret]
  repeat' split
  all_goals inv2_tac

set_option maxHeartbeats 2000000 in
theorem inv2_a86 (cfg : Cfg) (h : cfg.trySet = true) (hw : cfg.wakeLocked = true) (n : Nat) (s : St) (t : Nat)
    (ht : t < n) (hp : (s.loc t).pc = 86) (he : enabled cfg n s t = true) (hi : Inv1 cfg s) (hj : Inv2 cfg n s) :
    Inv2 cfg n (a86 cfg s t) := by
  obtain ⟨h1, h2, h3, h4, h4b, h5, h6, h7, h8, h9, h10, h11⟩ := hi
  obtain ⟨j1, j2, j3, j4, j5, j6, j7, j8, j9, j10, j12, j13, j14, j15, j16, j17⟩ := hj
  simp only [enabled, hp, noReaders_iff, Bool.and_eq_true, Bool.or_eq_true, Option.isNone_iff_eq_none, decide_eq_true_eq] at he
  simp only [a86, sendSend, wakeSend, afterWake, ret]
  repeat' split
  all_goals inv2_tac

set_option maxHeartbeats 2000000 in
theorem inv2_a87 (cfg : Cfg) (h : cfg.trySet = true) (hw : cfg.wakeLocked = true) (n : Nat) (s : St) (t : Nat)
    (ht : t < n) (hp : (s.loc t).pc = 87) (he : enabled cfg n s t = true) (hi : Inv1 cfg s) (hj : Inv2 cfg n s) :
    Inv2 cfg n (a87 cfg s t) := by
  obtain ⟨h1, h2, h3, h4, h4b, h5, h6, h7, h8, h9, h10, h11⟩ := hi
  obtain ⟨j1, j2, j3, j4, j5, j6, j7, j8, j9, j10, j12, j13, j14, j15, j16, j17⟩ := hj
  simp only [enabled, hp, noReaders_iff, Bool.and_eq_true, Bool.or_eq_true, Option.isNone_iff_eq_none, decide_eq_true_eq] at he
  simp only [a87, sendSend, wakeSend, afterWake, ret]
  repeat' split
  all_goals inv2_tac

set_option maxHeartbeats 2000000 in
theorem inv2_a88 (cfg : Cfg) (h : cfg.trySet = true) (hw : cfg.wakeLocked = true) (n : Nat) (s : St) (t : Nat)
    (ht : t < n) (hp : (s.loc t).pc = 88) (he : enabled cfg n s t = true) (hi : Inv1 cfg s) (hj : Inv2 cfg n s) :
    Inv2 cfg n (a88 cfg s t) := by
  obtain ⟨h1, h2, h3, h4, h4b, h5, h6, h7, h8, h9, h10, h11⟩ := hi
  obtain ⟨j1, j2, j3, j4, j5, j6, j7, j8, j9, j10, j12, j13, j14, j15, j16, j17⟩ := hj
  simp only [enabled, hp, noReaders_iff, Bool.and_eq_true, Bool.or_eq_true, Option.isNone_iff_eq_none, decide_eq_true_eq] at he
  simp only [a88, sendSend, wakeSend, afterWake, ret]
  repeat' split
  all_goals inv2_tac

set_option maxHeartbeats 2000000 in
theorem inv2_a89 (cfg : Cfg) (h : cfg.trySet = true) (hw : cfg.wakeLocked = true) (n : Nat) (s : St) (t : Nat)
    (ht : t < n) (hp : (s.loc t).pc = 89) (he : enabled cfg n s t = true) (hi : Inv1 cfg s) (hj : Inv2 cfg n s) :
    Inv2 cfg n (a89 cfg s t) := by
  obtain ⟨h1, h2, h3, h4, h4b, h5, h6, h7, h8, h9, h10, h11⟩ := hi
  obtain ⟨j1, j2, j3, j4, j5, j6, j7, j8, j9, j10, j12, j13, j14, j15, j16, j17⟩ := hj
  simp only [enabled, hp, noReaders_iff, Bool.and_eq_true, Bool.or_eq_true, Option.isNone_iff_eq_none, decide_eq_true_eq] at he
  simp only [a89, sendSend, wakeSend, afterWake, ret]
  repeat' split
  all_goals inv2_tac

set_option maxHeartbeats 2000000 in
theorem inv2_a90 (cfg : Cfg) (h : cfg.trySet = true) (hw : cfg.wakeLocked = true) (n : Nat) (s : St) (t : Nat)
    (ht : t < n) (hp : (s.loc t).pc = 90) (he : enabled cfg n s t = true) (hi : Inv1 cfg s) (hj : Inv2 cfg n s) :
    Inv2 cfg n (a90 cfg s t) := by
  obtain ⟨h1, h2, h3, h4, h4b, h5, h6, h7, h8, h9, h10, h11⟩ := hi
  obtain ⟨j1, j2, j3, j4, j5, j6, j7, j8, j9, j10, j12, j13, j14, j15, j16, j17⟩ := hj
  simp only [enabled, hp, noReaders_iff, Bool.and_eq_true, Bool.or_eq_true, Option.isNone_iff_eq_none, decide_eq_true_eq] at he
  simp only [a90, sendSend, wakeSend, afterWake, ret]
  repeat' split
  all_goals inv2_tac

set_option maxHeartbeats 2000000 in
theorem inv2_a92 (cfg : Cfg) (h : cfg.trySet = true) (hw : cfg.wakeLocked = true) (n : Nat) (s : St) (t : Nat)
    (ht : t < n) (hp : (s.loc t).pc = 92) (he : enabled cfg n s t = true) (hi : Inv1 cfg s) (hj : Inv2 cfg n s) :
    Inv2 cfg n (a92 cfg s t) := by
  obtain ⟨h1, h2, h3, h4, h4b, h5, h6, h7, h8, h9, h10, h11⟩ := hi
  obtain ⟨j1, j2, j3, j4, j5, j6, j7, j8, j9, j10, j12, j13, j14, j15, j16, j17⟩ := hj
  simp only [enabled, hp, noReaders_iff, Bool.and_eq_true, Bool.or_eq_true, Option.isNone_iff_eq_none, decide_eq_true_eq] at he
  simp only [a92, sendSend, wakeSend, afterWake, ret]
  repeat' split
  all_goals inv2_tac

set_option maxHeartbeats 2000000 in
theorem inv2_a94 (cfg : Cfg) (h : cfg.trySet = true) (hw : cfg.wakeLocked = true) (n : Nat) (s : St) (t : Nat)
    (ht : t < n) (hp : (s.loc t).pc = 94) (he : enabled cfg n s t = true) (hi : Inv1 cfg s) (hj : Inv2 cfg n s) :
    Inv2 cfg n (a94 cfg s t) := by
  obtain ⟨h1, h2, h3, h4, h4b, h5, h6, h7, h8, h9, h10, h11⟩ := hi
  obtain ⟨j1, j2, j3, j4, j5, j6, j7, j8, j9, j10, j12, j13, j14, j15, j16, j17⟩ := hj
  simp only [enabled, hp, noReaders_iff, Bool.and_eq_true, Bool.or_eq_true, Option.isNone_iff_eq_none, decide_eq_true_eq] at he
  simp only [a94, sendSend, wakeSend, afterWake, ret]
  repeat' split
  all_goals inv2_tac

set_option maxHeartbeats 2000000 in
set_option maxHeartbeats 2000000 in
theorem inv2_act (cfg : Cfg) (h : cfg.trySet = true) (hw : cfg.wakeLocked = true) (n : Nat) (s : St) (t : Nat)
    (ht : t < n) (he : enabled cfg n s t = true) (hi : Inv1 cfg s) (hj : Inv2 cfg n s) :
    Inv2 cfg n (act cfg s t) := by
  unfold act
  repeat' split
  all_goals first | exact hj | exact inv2_a1 cfg h hw n s t ht (by assumption) he hi hj | exact inv2_a2 cfg h hw n s t ht (by assumption) he hi hj | exact inv2_a3 cfg h hw n s t ht (by assumption) he hi hj | exact inv2_a4 cfg h hw n s t ht (by assumption) he hi hj | exact inv2_a5 cfg h hw n s t ht (by assumption) he hi hj | exact inv2_a6 cfg h hw n s t ht (by assumption) he hi hj | exact inv2_a7 cfg h hw n s t ht (by assumption) he hi hj | exact inv2_a8 cfg h hw n s t ht (by assumption) he hi hj | exact inv2_a20 cfg h hw n s t ht (by assumption) he hi hj | exact inv2_a21 cfg h hw n s t ht (by assumption) he hi hj | exact inv2_a22 cfg h hw n s t ht (by assumption) he hi hj | exact inv2_a23 cfg h hw n s t ht (by assumption) he hi hj | exact inv2_a24 cfg h hw n s t ht (by assumption) he hi hj | exact inv2_a25 cfg h hw n s t ht (by assumption) he hi hj | exact inv2_a26 cfg h hw n s t ht (by assumption) he hi hj | exact inv2_a27 cfg h hw n s t ht (by assumption) he hi hj | exact inv2_a28 cfg h hw n s t ht (by assumption) he hi hj | exact inv2_a40 cfg h hw n s t ht (by assumption) he hi hj | exact inv2_a41 cfg h hw n s t ht (by assumption) he hi hj | exact inv2_a42 cfg h hw n s t ht (by assumption) he hi hj | exact inv2_a43 cfg h hw n s t ht (by assumption) he hi hj | exact inv2_a44 cfg h hw n s t ht (by assumption) he hi hj | exact inv2_a45 cfg h hw n s t ht (by assumption) he hi hj | exact inv2_a46 cfg h hw n s t ht (by assumption) he hi hj | exact inv2_a47 cfg h hw n s t ht (by assumption) he hi hj | exact inv2_a48 cfg h hw n s t ht (by assumption) he hi hj | exact inv2_a49 cfg h hw n s t ht (by assumption) he hi hj | exact inv2_a50 cfg h hw n s t ht (by assumption) he hi hj | exact inv2_a51 cfg h hw n s t ht (by assumption) he hi hj | exact inv2_a52 cfg h hw n s t ht (by assumption) he hi hj | exact inv2_a53 cfg h hw n s t ht (by assumption) he hi hj | exact inv2_a54 cfg h hw n s t ht (by assumption) he hi hj | exact inv2_a60 cfg h hw n s t ht (by assumption) he hi hj | exact inv2_a61 cfg h hw n s t ht (by assumption) he hi hj | exact inv2_a62 cfg h hw n s t ht (by assumption) he hi hj | exact inv2_a63 cfg h hw n s t ht (by assumption) he hi hj | exact inv2_a64 cfg h hw n s t ht (by assumption) he hi hj | exact inv2_a65 cfg h hw n s t ht (by assumption) he hi hj | exact inv2_a66 cfg h hw n s t ht (by assumption) he hi hj | exact inv2_a70 cfg h hw n s t ht (by assumption) he hi hj | exact inv2_a71 cfg h hw n s t ht (by assumption) he hi hj | exact inv2_a72 cfg h hw n s t ht (by assumption) he hi hj | exact inv2_a73 cfg h hw n s t ht (by assumption) he hi hj | exact inv2_a80 cfg h hw n s t ht (by assumption) he hi hj | exact inv2_a86 cfg h hw n s t ht (by assumption) he hi hj | exact inv2_a87 cfg h hw n s t ht (by assumption) he hi hj | exact inv2_a88 cfg h hw n s t ht (by assumption) he hi hj | exact inv2_a89 cfg h hw n s t ht (by assumption) he hi hj | exact inv2_a90 cfg h hw n s t ht (by assumption) he hi hj | exact inv2_a92 cfg h hw n s t ht (by assumption) he hi hj | exact inv2_a94 cfg h hw n s t ht (by assumption) he hi hj

theorem inv2_step (cfg : Cfg) (h : cfg.trySet = true) (hw : cfg.wakeLocked = true) (n : Nat) (s : St) (t : Nat)
    (hi : Inv1 cfg s) (hj : Inv2 cfg n s) : Inv2 cfg n (step cfg n s t) := by
  unfold step
  split
  · rename_i hh; exact inv2_act cfg h hw n s t hh.1 hh.2 hi hj
  · exact hj

theorem inv12_run (cfg : Cfg) (h : cfg.trySet = true) (hw : cfg.wakeLocked = true) (n : Nat) (sched : List Nat) (s : St)
    (hi : Inv1 cfg s) (hj : Inv2 cfg n s) : Inv1 cfg (run cfg n s sched) ∧ Inv2 cfg n (run cfg n s sched) := by
  induction sched generalizing s with
  | nil => exact ⟨hi, hj⟩
  | cons t ts ih => exact ih _ (inv1_step cfg h n s t hi) (inv2_step cfg h hw n s t hi hj)

end XMT.Close
